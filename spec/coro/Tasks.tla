------------------------------- MODULE Tasks -------------------------------
(***************************************************************************)
(* Operational semantics of unifex::task<> coroutines (task.hpp,           *)
(* await_transform.hpp, connect_awaitable.hpp, at_coroutine_exit.hpp,      *)
(* unhandled_done.hpp, with_scheduler_affinity.hpp, stop_if_requested.hpp).*)
(*                                                                         *)
(* A configuration cfg (chosen in Init) fixes a *script*: one statement    *)
(* list per task body (frame 0 = the outermost task, connected as a sender *)
(* to the harness receiver whose scheduler is context 0), and the mode of  *)
(* every controllable leaf.  Statements [k, a, b]:                          *)
(*   L a    declare tracked local a                                        *)
(*   X a    co_await at_coroutine_exit(action a)   (registers a cleanup)   *)
(*   Y a l  ... whose action itself co_awaits leaf sender l (suspends)     *)
(*   A l b  co_await leaf sender l   (b = 1: catch its exception, go on)   *)
(*   N l b  co_await as_sender(awaitable leaf l)                            *)
(*   M l b  co_await awaitable leaf l (handle-returning await_suspend)      *)
(*   H/B/V l b  the same leaf with another awaiter shape: symmetric         *)
(*          transfer through a trampoline / bool await_suspend /            *)
(*          await_ready()=true or void await_suspend.  The shape must not   *)
(*          matter: all of them behave like M.                              *)
(*   T c b  co_await child task c  (scheduler-affine sa_task awaiter)       *)
(*   O c    co_await done_as_optional(child task c)  (connect of a task:    *)
(*          connect_awaitable + stop-request thunk + let_done)              *)
(*   S c    co_await schedule(context c)                                    *)
(*   Q      co_await stop_if_requested()                                    *)
(*   W a    throw a                R a   co_return a                        *)
(*                                                                         *)
(* The state S is one record.  A *signal stack* (head = next thing to do)  *)
(* models symmetric transfer and nested calls; external actions (Start,    *)
(* CompleteLeaf, RequestStop, RunCtx) are enabled when it is empty.        *)
(*                                                                         *)
(* Per frame: st (idle | run | unw = unwinding as done | fin), pc, live    *)
(* locals, the LIFO chain of cleanup actions (continuation_ exchanged by   *)
(* at_coroutine_exit; the magic co_await schedule() inserts a "resched"    *)
(* entry once), the current scheduler, the parent, how it is awaited.      *)
(* Frames awaited through connect (the outermost one and O children) own a *)
(* stop-request thunk: stop source, callback on the parent token, refcount *)
(* join of the deferred stop request with the task's completion            *)
(* (_sr_thunk_promise_base).                                               *)
(* Stop sources: 0 = the harness receiver's, k + 1 = thunk of frame k.     *)
(***************************************************************************)
EXTENDS Integers, Sequences, FiniteSets, TLC

CONSTANTS Scripts,      \* set of script records [id, body]
          LeafModes     \* set of leaf mode records [inl, ch, onStop]

VARIABLES cfg, S
vars == <<cfg, S>>

\* ------------------------------------------------------------------ static structure
Script == cfg.script
K == Len(Script.body)
Frames == 0..(K - 1)
Body(k) == Script.body[k + 1]
LeafKinds == {"A", "N", "M", "H", "B", "V"}
StmtsOf(sc) == UNION {{sc.body[j][i] : i \in 1..Len(sc.body[j])} : j \in 1..Len(sc.body)}
CleanLeavesOf(sc) == {s.b : s \in {x \in StmtsOf(sc) : x.k = "Y"}}      \* leaves awaited inside cleanup actions
LeavesOf(sc) == {s.a : s \in {x \in StmtsOf(sc) : x.k \in LeafKinds}} \cup CleanLeavesOf(sc)
CbLeavesOf(sc) == {s.a : s \in {x \in StmtsOf(sc) : x.k = "A"}}
Leaves == LeavesOf(Script)
CleanLeaves == CleanLeavesOf(Script)
CbLeaves == CbLeavesOf(Script)          \* leaf senders (they register a stop callback); N/M leaves are awaitables
Ctxs == {0} \cup {s.a : s \in {x \in StmtsOf(Script) : x.k = "S"}}
Owner(l) == CHOOSE k \in Frames : \E i \in 1..Len(Body(k)) : (Body(k)[i].k \in LeafKinds /\ Body(k)[i].a = l)
                                                               \/ (Body(k)[i].k = "Y" /\ Body(k)[i].b = l)
Sources == 0..K
Src(k) == k + 1
Mode(l) == cfg.mode[l]

\* ------------------------------------------------------------------ values
NONE == [ch |-> "none", p |-> <<>>]
Val(p) == [ch |-> "v", p |-> p]
Err(p) == [ch |-> "e", p |-> p]
Done == [ch |-> "d", p |-> <<>>]
Sig(k, n, r) == [k |-> k, n |-> n, r |-> r]
NoCb == [t |-> "none", n |-> 0]
Item(t, k, l, r) == [t |-> t, k |-> k, l |-> l, r |-> r]
LeafResult(l, ch) == CASE ch = "v" -> Val(<<l>>) [] ch = "e" -> Err(<<l>>) [] OTHER -> Done

\* ------------------------------------------------------------------ state helpers
Repl(T, sigs) == [T EXCEPT !.stack = sigs \o Tail(@)]
HasThunk(T, k) == T.how[k] \in {"R", "O"}
RECURSIVE Tok(_, _)
Tok(T, k) == IF HasThunk(T, k) THEN Src(k) ELSE Tok(T, T.par[k])      \* stop source behind frame k's stop token
PTok(T, k) == IF T.par[k] < 0 THEN 0 ELSE Tok(T, T.par[k])            \* ... behind the token the thunk of k listens to
\* frame-level observation (what the interpreter coroutine logs); affinity ghost: body events happen on the frame's scheduler
Log(T, e, k, a, p) == [T EXCEPT !.log = Append(@, [e |-> e, k |-> k, a |-> a, p |-> p, ctx |-> T.cur])]
BLog(T, e, k, a, p) == [Log(T, e, k, a, p) EXCEPT !.affBad = @ \/ (T.cur # <<"C", T.sched[k]>>)]
Enq(T, c, it) == [T EXCEPT !.ctxq[c] = Append(@, it)]
Rev(s) == [i \in 1..Len(s) |-> s[Len(s) + 1 - i]]
RECURSIVE LogDtors(_, _, _)
LogDtors(T, k, ls) == IF ls = <<>> THEN T ELSE LogDtors(Log(T, "LocalDtor", k, ls[Len(ls)], <<>>), k, SubSeq(ls, 1, Len(ls) - 1))
KillLocals(T, k) == [LogDtors(T, k, T.locals[k]) EXCEPT !.locals[k] = <<>>]
FrameGone(T, k) == Log([T EXCEPT !.gone[k] = TRUE], "FrameGone", k, 0, <<>>)
\* destruction of a frame that is still suspended (done path): the in-flight child goes first, then the locals
RECURSIVE Destroy(_, _)
Destroy(T, k) ==
  LET kids == {c \in Frames : T.st[c] # "idle" /\ T.par[c] = k /\ ~T.gone[c]}
      T1 == IF kids = {} THEN T ELSE Destroy(T, CHOOSE c \in kids : TRUE) IN
  FrameGone(KillLocals(T1, k), k)

InitS ==
  [stack |-> <<>>,
   st |-> [k \in Frames |-> "idle"], pc |-> [k \in Frames |-> 1],
   locals |-> [k \in Frames |-> <<>>], clean |-> [k \in Frames |-> <<>>],
   sched |-> [k \in Frames |-> 0], resch |-> [k \in Frames |-> FALSE],
   par |-> [k \in Frames |-> 0 - 1], how |-> [k \in Frames |-> "R"], gone |-> [k \in Frames |-> FALSE],
   res |-> [k \in Frames |-> NONE],            \* result the frame completed with
   \* stop-request thunks
   ref |-> [k \in Frames |-> 1], who |-> [k \in Frames |-> NONE], tsched |-> [k \in Frames |-> 0],
   req |-> [s \in Sources |-> FALSE], cb |-> [s \in Sources |-> NoCb],
   leaf |-> [l \in Leaves |-> "idle"], stopSeen |-> {},
   ctxq |-> [c \in Ctxs |-> <<>>],
   cur |-> <<"-", 0>>, ext |-> <<"-", 0>>, lastCh |-> "", started |-> FALSE,
   \* histories
   log |-> <<>>, rootDone |-> <<>>,
   cpend |-> [k \in Frames |-> [a |-> 0, sc |-> 0, r |-> NONE]],          \* suspended cleanup action of the frame
   regd |-> [k \in Frames |-> <<>>], ran |-> [k \in Frames |-> <<>>],     \* ghosts: cleanup actions registered / run
   affBad |-> FALSE]

Init ==
  /\ \E sc \in Scripts :
       \E m \in [LeavesOf(sc) -> LeafModes] :
          \* awaitable leaves have no stop callback and cannot signal done
          /\ \A l \in LeavesOf(sc) \ CbLeavesOf(sc) : m[l].onStop = "ignore" /\ m[l].ch # "d"
          \* a cleanup action may neither fail nor cancel (it would terminate the process)
          /\ \A l \in CleanLeavesOf(sc) : m[l].ch = "v"
          /\ cfg = [script |-> sc, mode |-> m]
  /\ S = InitS

\* ------------------------------------------------------------------ internal steps
\* a frame is created and its body begins (the awaiter's await_suspend transfers to it)
Spawn(T, k, c, how) ==
  LET T0 == [T EXCEPT !.st[c] = "run", !.par[c] = k, !.how[c] = how,
                      !.sched[c] = IF k < 0 THEN 0 ELSE T.sched[k],
                      !.tsched[c] = IF k < 0 THEN 0 ELSE T.sched[k]]
      pt == PTok(T0, c)
      \* the thunk registers its stop callback on the parent's token; it runs inline if stop was already requested
      T1 == IF how = "T" THEN T0
            ELSE IF T0.req[pt] THEN Enq([T0 EXCEPT !.ref[c] = 2], T0.tsched[c], Item("stopop", c, 0, NONE))
            ELSE [T0 EXCEPT !.cb[pt] = [t |-> "thunk", n |-> c]] IN
  Repl(BLog(T1, "Body", c, 0, <<>>), <<Sig("exec", c, NONE)>>)

\* the body of frame k finishes with r (co_return or escaping exception): locals die, then the cleanup chain runs
DoExit(T, k, r) == Repl(KillLocals([T EXCEPT !.st[k] = "fin"], k), <<Sig("chain", k, r)>>)
\* the awaited operation of frame k completed with done: the coroutine is not resumed; its cleanup chain runs
Unwind(T, k) == Repl([T EXCEPT !.st[k] = "unw"], <<Sig("chain", k, Done)>>)

DoExec(T, k) ==
  LET i == T.pc[k] IN
  IF i > Len(Body(k)) THEN Repl(BLog(T, "Return", k, 900 + k, <<>>), <<Sig("exit", k, Val(<<900 + k>>))>>)
  ELSE
  LET s == Body(k)[i]
      Next1(T1) == Repl([T1 EXCEPT !.pc[k] = i + 1], <<Sig("exec", k, NONE)>>)
      tok == Tok(T, k) IN
  CASE s.k = "L" -> Next1(Log([T EXCEPT !.locals[k] = Append(@, s.a)], "LocalCtor", k, s.a, <<>>))
    [] s.k = "X" -> Next1(BLog([T EXCEPT !.clean[k] = <<[t |-> "act", a |-> s.a, l |-> 0, sc |-> 0]>> \o @, !.regd[k] = Append(@, s.a)], "Reg", k, s.a, <<>>))
    [] s.k = "Y" -> Next1(BLog([T EXCEPT !.clean[k] = <<[t |-> "actw", a |-> s.a, l |-> s.b, sc |-> T.sched[k]]>> \o @,
                                          !.regd[k] = Append(@, s.a)], "Reg", k, s.a, <<>>))
    [] s.k \in LeafKinds ->
         LET l == s.a
             stopped == T.req[tok]
             hasCb == s.k = "A"
             T1 == Log([T EXCEPT !.leaf[l] = "started"], "LeafStart", l, IF stopped /\ hasCb THEN 1 ELSE 0, <<>>)
             T2 == IF ~hasCb THEN T1
                   ELSE IF stopped THEN Log([T1 EXCEPT !.stopSeen = @ \cup {l}], "LeafStopSeen", l, 0, <<>>)
                   ELSE [T1 EXCEPT !.cb[tok] = [t |-> "leaf", n |-> l]] IN
         IF hasCb /\ stopped /\ ~Mode(l).inl /\ Mode(l).onStop = "done" THEN Repl(T2, <<Sig("leafdone", l, Done)>>)
         ELSE IF Mode(l).inl THEN Repl(T2, <<Sig("leafdone", l, LeafResult(l, Mode(l).ch))>>)
         ELSE Repl(T2, <<>>)
    [] s.k = "T" -> Spawn(T, k, s.a, "T")
    [] s.k = "O" -> Spawn(T, k, s.a, "O")
    [] s.k = "S" ->
         LET T1 == IF T.resch[k] THEN T
                   ELSE [T EXCEPT !.resch[k] = TRUE, !.clean[k] = <<[t |-> "resched", a |-> T.sched[k], l |-> 0, sc |-> 0]>> \o @] IN
         Repl(Enq([T1 EXCEPT !.sched[k] = s.a], s.a, Item("sched", k, 0, NONE)), <<>>)
    [] s.k = "Q" -> IF T.req[tok] THEN Unwind(T, k) ELSE Next1(BLog(T, "NotStopped", k, 0, <<>>))
    [] s.k = "W" -> Repl(T, <<Sig("exit", k, Err(<<s.a>>))>>)
    [] s.k = "R" -> Repl(BLog(T, "Return", k, s.a, <<>>), <<Sig("exit", k, Val(<<s.a>>))>>)

\* a leaf completes: its stop callback is deregistered; with_scheduler_affinity = finally(leaf, unstoppable(schedule(sched)))
\* stores the result and schedules onto the awaiting frame's scheduler
DoLeafDone(T, l, r) ==
  LET k == Owner(l)
      tok == Tok(T, k)
      T1 == [T EXCEPT !.leaf[l] = "completed", !.cb[tok] = IF @ = [t |-> "leaf", n |-> l] THEN NoCb ELSE @] IN
  IF l \in CleanLeaves THEN Repl(Enq(T1, T.cpend[k].sc, Item("cleanres", k, l, r)), <<>>)   \* the action's own affinity hop
  ELSE Repl(Enq(T1, T.sched[k], Item("leafres", k, l, r)), <<>>)

\* the co_await of frame k produces r: await_resume() returns / rethrows, or (done) the frame is unwound
DoResume(T, k, r) ==
  LET s == Body(k)[T.pc[k]]
      Next1(T1) == Repl([T1 EXCEPT !.pc[k] = @ + 1], <<Sig("exec", k, NONE)>>) IN
  CASE s.k \in LeafKinds ->
         IF r.ch = "v" THEN Next1(BLog(T, "AwaitValue", k, s.a, r.p))
         ELSE IF r.ch = "e" THEN
              IF s.b = 1 THEN Next1(BLog(T, "AwaitThrew", k, s.a, r.p))
              ELSE Repl(BLog(T, "AwaitThrew", k, s.a, r.p), <<Sig("exit", k, r)>>)
         ELSE Unwind(T, k)
    [] s.k \in {"T", "O"} ->         \* (for O the done case is unreachable: done_as_optional made it an empty optional)
         IF r.ch = "v" THEN Next1(BLog(T, "TaskValue", k, s.a, r.p))
         ELSE IF r.ch = "e" THEN
              IF s.b = 1 THEN Next1(BLog(T, "TaskThrew", k, s.a, r.p))
              ELSE Repl(BLog(T, "TaskThrew", k, s.a, r.p), <<Sig("exit", k, r)>>)
         ELSE Unwind(T, k)
    [] s.k = "S" ->
         IF r.ch = "v" THEN Next1(BLog(T, "Switched", k, s.a, <<>>)) ELSE Unwind(T, k)

\* run the head of frame k's cleanup chain; when the chain is empty the frame completes
DoChain(T, k, r) ==
  IF T.clean[k] = <<>> THEN Repl(T, <<Sig("complete", k, r)>>)
  ELSE LET h == Head(T.clean[k])
           T1 == [T EXCEPT !.clean[k] = Tail(@)] IN
       IF h.t = "act" THEN Repl(Log([T1 EXCEPT !.ran[k] = Append(@, h.a)], "Cleanup", k, h.a, <<>>), <<Sig("chain", k, r)>>)
       ELSE IF h.t = "actw" THEN       \* the action (a task with an unstoppable token) awaits leaf h.l
         LET T2 == Log(Log([T1 EXCEPT !.cpend[k] = [a |-> h.a, sc |-> h.sc, r |-> r], !.leaf[h.l] = "started"],
                           "CleanupBegin", k, h.a, <<>>), "LeafStart", h.l, 0, <<>>) IN
         IF Mode(h.l).inl THEN Repl(T2, <<Sig("leafdone", h.l, Val(<<h.l>>))>>) ELSE Repl(T2, <<>>)
       ELSE Repl(Enq(T1, h.a, Item("resched", k, 0, r)), <<>>)      \* at_coroutine_exit(schedule, original scheduler)

\* frame k has completed (cleanup chain included) with r: the parent / the thunk takes over
DoComplete(T, k, r) ==
  LET T0 == [T EXCEPT !.res[k] = r] IN
  IF r.ch # "d" THEN
    LET T1 == FrameGone(T0, k) IN          \* await_resume() of the task awaiter destroys the frame, then returns/rethrows
    IF HasThunk(T, k) THEN Repl(T1, <<Sig("thunkfin", k, r)>>) ELSE Repl(T1, <<Sig("resume", T.par[k], r)>>)
  ELSE IF HasThunk(T, k) THEN Repl(T0, <<Sig("thunkfin", k, Done)>>)
       ELSE Unwind(T0, T.par[k])            \* continuation_.done_handle(): the parent's unhandled_done

\* complete_and_choose_continuation: destroy the stop callback, record who to continue, decrement the refcount
DoThunkFin(T, k, r) ==
  LET pt == PTok(T, k)
      T1 == [T EXCEPT !.cb[pt] = IF @ = [t |-> "thunk", n |-> k] THEN NoCb ELSE @, !.who[k] = r, !.ref[k] = @ - 1] IN
  IF T.ref[k] = 1 THEN Repl(T1, <<Sig("thunkgo", k, NONE)>>) ELSE Repl(T1, <<>>)

\* the thunk's continuation is resumed with the recorded result
DoThunkGo(T, k) ==
  LET r == T.who[k] IN
  IF T.par[k] < 0 THEN
    LET T1 == Log([T EXCEPT !.rootDone = Append(@, [r |-> r, ctx |-> T.cur])],
                  CASE r.ch = "v" -> "RootValue" [] r.ch = "e" -> "RootError" [] OTHER -> "RootDone", 0, 0, r.p) IN
    \* the receiver destroys the operation inside its completion
    Repl(IF r.ch = "d" THEN Destroy(T1, k) ELSE T1, <<>>)
  ELSE \* done_as_optional(task): let_done destroys the task's operation, then delivers an empty optional
    IF r.ch = "d" THEN Repl(Destroy(T, k), <<Sig("resume", T.par[k], Val(<<0>>))>>)
    ELSE Repl(T, <<Sig("resume", T.par[k], r)>>)

DoReqStop(T, s) ==
  IF T.req[s] THEN Repl(T, <<>>)
  ELSE LET c == T.cb[s]
           T1 == [T EXCEPT !.req[s] = TRUE, !.cb[s] = NoCb] IN
       IF c.t = "leaf" THEN
         LET T2 == Log([T1 EXCEPT !.stopSeen = @ \cup {c.n}], "LeafStopSeen", c.n, 0, <<>>) IN
         IF Mode(c.n).onStop = "done" /\ T.leaf[c.n] = "started" /\ ~Mode(c.n).inl
         THEN Repl(T2, <<Sig("leafdone", c.n, Done)>>) ELSE Repl(T2, <<>>)
       ELSE IF c.t = "thunk" THEN     \* stop_callback: take a reference and start the deferred stop request
         Repl(Enq([T1 EXCEPT !.ref[c.n] = @ + 1], T.tsched[c.n], Item("stopop", c.n, 0, NONE)), <<>>)
       ELSE Repl(T1, <<>>)

\* receiver_t::set_value of the deferred stop request: drop the reference; the last one continues the continuation
DoStopOpFin(T, k) ==
  LET T1 == [T EXCEPT !.ref[k] = @ - 1] IN
  IF T.ref[k] = 1 THEN Repl(T1, <<Sig("thunkgo", k, NONE)>>) ELSE Repl(T1, <<>>)

StepOf(T) ==
  LET top == Head(T.stack) IN
  CASE top.k = "exec" -> DoExec(T, top.n)
    [] top.k = "exit" -> DoExit(T, top.n, top.r)
    [] top.k = "resume" -> DoResume(T, top.n, top.r)
    [] top.k = "chain" -> DoChain(T, top.n, top.r)
    [] top.k = "complete" -> DoComplete(T, top.n, top.r)
    [] top.k = "leafdone" -> DoLeafDone(T, top.n, top.r)
    [] top.k = "thunkfin" -> DoThunkFin(T, top.n, top.r)
    [] top.k = "thunkgo" -> DoThunkGo(T, top.n)
    [] top.k = "reqstop" -> DoReqStop(T, top.n)
    [] top.k = "stopopfin" -> DoStopOpFin(T, top.n)
    [] top.k = "cleandone" -> Repl(Log([T EXCEPT !.ran[top.n] = Append(@, T.cpend[top.n].a)], "Cleanup", top.n, T.cpend[top.n].a, <<>>),
                                   <<Sig("chain", top.n, T.cpend[top.n].r)>>)

Internal == /\ S.stack # <<>> /\ S' = StepOf(S) /\ UNCHANGED cfg

RECURSIVE RunToQuiescence(_)
RunToQuiescence(T) == IF T.stack = <<>> THEN T ELSE RunToQuiescence(StepOf(T))

\* ------------------------------------------------------------------ external actions
Quiescent == S.stack = <<>>
EnStart(T) == ~T.started
\* start() of the connected task on context 0 (the receiver's scheduler)
ApplyStart(T) == Spawn([T EXCEPT !.started = TRUE, !.cur = <<"C", 0>>, !.ext = <<"S", 0>>, !.lastCh = "", !.stack = <<Sig("none", 0, NONE)>>], 0 - 1, 0, "R")
EnCompleteLeaf(T, l) == T.leaf[l] = "started" /\ ~Mode(l).inl
ApplyCompleteLeaf(T, l, ch) == [T EXCEPT !.stack = <<Sig("leafdone", l, LeafResult(l, ch))>>, !.cur = <<"L", l>>, !.ext = <<"L", l>>, !.lastCh = ch]
EnStop(T) == ~T.req[0] /\ T.rootDone = <<>>
ApplyStop(T) == [T EXCEPT !.stack = <<Sig("reqstop", 0, NONE)>>, !.cur = <<"X", 0>>, !.ext = <<"X", 0>>, !.lastCh = ""]
EnRunCtx(T, c) == T.ctxq[c] # <<>>
ApplyRunCtx(T, c) ==
  LET it == Head(T.ctxq[c])
      T1 == [T EXCEPT !.ctxq[c] = Tail(@), !.cur = <<"C", c>>, !.ext = <<"C", c>>, !.lastCh = ""] IN
  [T1 EXCEPT !.stack =
     CASE it.t = "leafres" -> <<Sig("resume", it.k, it.r)>>
       [] it.t = "sched" -> <<Sig("resume", it.k, IF T.req[Tok(T, it.k)] THEN Done ELSE Val(<<>>))>>
       [] it.t = "resched" -> <<Sig("chain", it.k, it.r)>>
       [] it.t = "cleanres" -> <<Sig("cleandone", it.k, NONE)>>
       [] it.t = "stopop" -> <<Sig("reqstop", Src(it.k), NONE), Sig("stopopfin", it.k, NONE)>>]

LeafChOk(l, ch) == (ch = "d" => l \in CbLeaves) /\ (l \in CleanLeaves => ch = "v")
ExtStart == Quiescent /\ EnStart(S) /\ S' = ApplyStart(S) /\ UNCHANGED cfg
ExtCompleteLeaf(l, ch) == Quiescent /\ EnCompleteLeaf(S, l) /\ S' = ApplyCompleteLeaf(S, l, ch) /\ UNCHANGED cfg
ExtStop == Quiescent /\ EnStop(S) /\ S' = ApplyStop(S) /\ UNCHANGED cfg
ExtRunCtx(c) == Quiescent /\ EnRunCtx(S, c) /\ S' = ApplyRunCtx(S, c) /\ UNCHANGED cfg
External == \/ ExtStart \/ ExtStop
            \/ \E l \in Leaves, ch \in {"v", "e", "d"} : LeafChOk(l, ch) /\ ExtCompleteLeaf(l, ch)
            \/ \E c \in Ctxs : ExtRunCtx(c)
Next == Internal \/ External
Spec == Init /\ [][Next]_vars

\* ------------------------------------------------------------------ properties (C10, task clause of C11)
NothingPending == /\ \A l \in Leaves : ~(S.leaf[l] = "started" /\ ~Mode(l).inl)
                  /\ \A c \in Ctxs : S.ctxq[c] = <<>>
RootCompletedAtMostOnce == Len(S.rootDone) <= 1
NoLostCompletion == (Quiescent /\ S.started /\ NothingPending) => Len(S.rootDone) = 1
\* every registered cleanup action runs exactly once, in reverse registration order, before the frame completes
CleanupLIFO == \A k \in Frames :
   /\ Len(S.ran[k]) <= Len(S.regd[k])
   /\ \A i \in 1..Len(S.ran[k]) : S.ran[k][i] = S.regd[k][Len(S.regd[k]) + 1 - i]
CleanupBeforeCompletion == \A k \in Frames : S.res[k] # NONE => (S.clean[k] = <<>> /\ S.ran[k] = Rev(S.regd[k]))
\* a frame that completed with a value or an exception has no live locals and is destroyed
LocalsDieBeforeCompletion == \A k \in Frames : (S.res[k] # NONE /\ S.res[k].ch # "d") => (S.locals[k] = <<>> /\ S.gone[k])
\* when the outermost operation has completed (and been destroyed by the receiver) nothing is left
AllDestroyedAtEnd == (Quiescent /\ S.rootDone # <<>>) => \A k \in Frames : S.st[k] # "idle" => (S.gone[k] /\ S.locals[k] = <<>>)
\* a frame's body only ever runs on its current scheduler's context; the outermost task completes on context 0
Affinity == ~S.affBad /\ \A i \in 1..Len(S.rootDone) : S.rootDone[i].ctx = <<"C", 0>>
\* a stop request on the receiver reaches the leaf sender currently awaited once the scheduler hops have been drained
StopReaches == (Quiescent /\ S.req[0] /\ \A c \in Ctxs : S.ctxq[c] = <<>>) =>
                  \A l \in CbLeaves : S.leaf[l] = "started" => l \in S.stopSeen
\* the deferred stop request never outlives the operation it points into (the refcount join)
ThunkJoin == \A k \in Frames : (S.st[k] # "idle" /\ HasThunk(S, k) /\ S.who[k] # NONE /\ S.ref[k] = 0) =>
                  \A c \in Ctxs : \A i \in 1..Len(S.ctxq[c]) : ~(S.ctxq[c][i].t = "stopop" /\ S.ctxq[c][i].k = k)
\* done only with a cause: some leaf completed with done, or a stop request was made
DoneHasCause == \A i \in 1..Len(S.rootDone) : S.rootDone[i].r.ch = "d" =>
                  (S.req[0] \/ \E j \in 1..Len(S.log) : S.log[j].e = "LeafStart")
=============================================================================
