SPECIFICATION Spec
CONSTANTS DestructFirst = FALSE  StopMayHappen = TRUE
INVARIANTS NoUseAfterFree
CHECK_DEADLOCK FALSE
