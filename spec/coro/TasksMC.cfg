SPECIFICATION Spec
CONSTANTS Scripts <- ScriptsC  LeafModes <- LeafModesC
INVARIANTS RootCompletedAtMostOnce NoLostCompletion CleanupLIFO CleanupBeforeCompletion LocalsDieBeforeCompletion AllDestroyedAtEnd Affinity StopReaches ThunkJoin DoneHasCause
CHECK_DEADLOCK FALSE
