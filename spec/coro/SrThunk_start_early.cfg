SPECIFICATION Spec
CONSTANTS Variant = "start_early"
INVARIANTS NoUseAfterFree
CHECK_DEADLOCK FALSE
