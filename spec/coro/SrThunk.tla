------------------------------ MODULE SrThunk ------------------------------
(***************************************************************************)
(* The stop-request thunk of task.hpp (_sr_thunk_promise_base): join of a  *)
(* deferred stop request with the completion of the wrapped task, under    *)
(* all interleavings of three threads:                                     *)
(*   T  the thread on which the wrapped task completes                     *)
(*      (complete_and_choose_continuation: callback_.destruct();           *)
(*       whoToContinue_ = h; refCount_.fetch_sub(1) == 1 ? resume : noop)  *)
(*   S  a thread calling request_stop() on the receiver's stop source      *)
(*      (stop_callback: refCount_.fetch_add(1) == 0 ? return :             *)
(*       start(stopOperation_), i.e. schedule onto the task's scheduler)   *)
(*   Q  the scheduler thread that runs the deferred stop request           *)
(*      (stopSource_.request_stop(); receiver_t::set_value:                *)
(*       refCount_.fetch_sub(1) == 1 ? whoToContinue_.resume())            *)
(* Destroying an inplace_stop_callback blocks while the callback is being  *)
(* executed by another thread, and prevents it from starting afterwards.   *)
(* Resuming the continuation may destroy the thunk's coroutine frame       *)
(* (modelled as: it does, immediately), so every later access to a member  *)
(* of the promise is a use-after-free.                                     *)
(* DestructFirst = FALSE moves callback_.destruct() behind the decrement:  *)
(* TLC then finds the use-after-free (demonstrates that the model bites).  *)
(***************************************************************************)
EXTENDS Integers, TLC
CONSTANTS DestructFirst, StopMayHappen
VARIABLES ref, who, cb, pcT, pcS, pcQ, queued, resumed, freed, bad, sawZero
vars == <<ref, who, cb, pcT, pcS, pcQ, queued, resumed, freed, bad, sawZero>>
Init == /\ ref = 1 /\ who = FALSE /\ cb = "registered"        \* registered | running | ran | destroyed
        /\ pcT = IF DestructFirst THEN "destruct" ELSE "setwho"
        /\ pcS = (IF StopMayHappen THEN "request" ELSE "end") /\ pcQ = "wait"
        /\ queued = FALSE /\ resumed = 0 /\ freed = FALSE /\ bad = FALSE /\ sawZero = FALSE
Touch == bad' = (bad \/ freed)                                   \* an access to a member of the promise
\* ---- T: the task completes
TDestruct == /\ pcT = "destruct" /\ cb # "running"               \* blocks while S executes the callback
             /\ cb' = "destroyed" /\ Touch
             /\ pcT' = IF DestructFirst THEN "setwho" ELSE "end"
             /\ UNCHANGED <<ref, who, pcS, pcQ, queued, resumed, freed, sawZero>>
TSetWho == /\ pcT = "setwho" /\ who' = TRUE /\ Touch /\ pcT' = "fsub"
           /\ UNCHANGED <<ref, cb, pcS, pcQ, queued, resumed, freed, sawZero>>
TFsub == /\ pcT = "fsub" /\ ref' = ref - 1 /\ Touch
         /\ pcT' = IF ref = 1 THEN "resume" ELSE (IF DestructFirst THEN "end" ELSE "destruct")
         /\ UNCHANGED <<who, cb, pcS, pcQ, queued, resumed, freed, sawZero>>
TResume == /\ pcT = "resume" /\ resumed' = resumed + 1 /\ freed' = TRUE
           /\ pcT' = (IF DestructFirst THEN "end" ELSE "destruct") /\ bad' = bad
           /\ UNCHANGED <<ref, who, cb, pcS, pcQ, queued, sawZero>>
\* ---- S: request_stop() on the receiver's source
SRequest == /\ pcS = "request"
            /\ IF cb = "registered" THEN cb' = "running" /\ pcS' = "fadd"
               ELSE cb' = cb /\ pcS' = "end"                       \* callback already deregistered: nothing to run
            /\ UNCHANGED <<ref, who, pcT, pcQ, queued, resumed, freed, bad, sawZero>>
SFadd == /\ pcS = "fadd" /\ ref' = ref + 1 /\ Touch /\ sawZero' = (sawZero \/ ref = 0)
         /\ pcS' = IF ref = 0 THEN "cbend" ELSE "start"
         /\ UNCHANGED <<who, cb, pcT, pcQ, queued, resumed, freed>>
SStart == /\ pcS = "start" /\ queued' = TRUE /\ Touch /\ pcS' = "cbend"     \* start(stopOperation_): schedule()
          /\ UNCHANGED <<ref, who, cb, pcT, pcQ, resumed, freed, sawZero>>
SCbEnd == /\ pcS = "cbend" /\ cb' = "ran" /\ pcS' = "end" /\ bad' = bad
          /\ UNCHANGED <<ref, who, pcT, pcQ, queued, resumed, freed, sawZero>>
\* ---- Q: the scheduler runs the deferred stop request
QRun == /\ pcQ = "wait" /\ queued /\ pcQ' = "reqstop" /\ bad' = bad
        /\ UNCHANGED <<ref, who, cb, pcT, pcS, queued, resumed, freed, sawZero>>
QReqStop == /\ pcQ = "reqstop" /\ Touch /\ pcQ' = "fsub"          \* stopSource_.request_stop()
            /\ UNCHANGED <<ref, who, cb, pcT, pcS, queued, resumed, freed, sawZero>>
QFsub == /\ pcQ = "fsub" /\ ref' = ref - 1 /\ Touch
         /\ pcQ' = IF ref = 1 THEN "resume" ELSE "end"
         /\ UNCHANGED <<who, cb, pcT, pcS, queued, resumed, freed, sawZero>>
QResume == /\ pcQ = "resume" /\ bad' = (bad \/ freed \/ ~who)     \* reads whoToContinue_
           /\ resumed' = resumed + 1 /\ freed' = TRUE /\ pcQ' = "end"
           /\ UNCHANGED <<ref, who, cb, pcT, pcS, queued, sawZero>>
Next == TDestruct \/ TSetWho \/ TFsub \/ TResume \/ SRequest \/ SFadd \/ SStart \/ SCbEnd \/ QRun \/ QReqStop \/ QFsub \/ QResume
Spec == Init /\ [][Next]_vars /\ WF_vars(Next)
AllEnded == pcT = "end" /\ pcS = "end" /\ (pcQ = "end" \/ (pcQ = "wait" /\ ~queued))
NoUseAfterFree == ~bad
ResumedAtMostOnce == resumed <= 1
ResumedAtEnd == AllEnded => resumed = 1
CallbackNeverSeesZero == ~sawZero              \* the `== 0` branch of stop_callback is defensive only
NoDeadlock == AllEnded \/ ENABLED Next
Termination == <>AllEnded
=============================================================================
