------------------------------ MODULE SrThunk ------------------------------
(***************************************************************************)
(* The stop-request thunk of task.hpp (_sr_thunk_promise_base): join of a  *)
(* deferred stop request with the completion of the wrapped task, at the   *)
(* granularity of the schedule points coro.sr.* added to task.hpp (one     *)
(* action = the code from one schedule point to the next).  Roles:         *)
(*   R  the thread that awaits the thunk: register_stop_callback()         *)
(*   T  the thread on which the wrapped task completes                     *)
(*      complete_and_choose_continuation:                                  *)
(*        [fin_destruct] callback_.destruct()   (blocks while the callback *)
(*                       runs on another thread)                           *)
(*        [fin_who]      whoToContinue_ = h                                *)
(*        [fin_fsub]     refCount_.fetch_sub(1) == 1 ? resume h : noop     *)
(*   S  a thread calling request_stop() on the receiver's stop source      *)
(*        [h.stop]       request_stop(): dequeues the callback if          *)
(*                       registered (tau step "take")                      *)
(*        [cb_fadd]      stop_callback: refCount_.fetch_add(1) == 0 ?      *)
(*                       return : start(stopOperation_) (= schedule())     *)
(*   Q  the scheduler thread running the deferred stop request             *)
(*        (tau)          stopSource_.request_stop()                        *)
(*        [op_fsub]      refCount_.fetch_sub(1) == 1 ?                     *)
(*        [op_who]         whoToContinue_.resume()                         *)
(* Resuming the continuation destroys the thunk's coroutine frame (the     *)
(* harness receiver destroys the operation inside its completion), so any  *)
(* later access to a member of the promise is a use-after-free.            *)
(* lab is the label of the last action: a schedule-point site or "tau";    *)
(* the exported transition graph is used to check that the order of thunk  *)
(* steps in every recorded real execution is a behaviour of this model.    *)
(* Variant # "ok" are seeded defects (the model must refute them):         *)
(*   who_late     whoToContinue_ written after the decrement               *)
(*   start_early  stopOperation_ started before the reference is taken     *)
(*   no_destruct  the stop callback is never destroyed                     *)
(***************************************************************************)
EXTENDS Integers, TLC
CONSTANTS Variant
VARIABLES ref, who, cb, reqd, pcT, pcS, pcQ, queued, resumed, freed, bad, sawZero, last, lab
core == <<ref, who, cb, reqd, pcT, pcS, pcQ, queued, resumed, freed, bad, sawZero, last>>
vars == <<ref, who, cb, reqd, pcT, pcS, pcQ, queued, resumed, freed, bad, sawZero, last, lab>>
Init == /\ ref = 1 /\ who = FALSE /\ cb = "unreg"       \* unreg | registered | running | ran | destroyed
        /\ reqd = FALSE
        /\ pcT = (IF Variant = "no_destruct" THEN "who" ELSE "destruct")
        /\ pcS \in {"begin", "end"} /\ pcQ = "wait"
        /\ queued = FALSE /\ resumed = 0 /\ freed = FALSE /\ bad = FALSE /\ sawZero = FALSE /\ last = FALSE
        /\ lab = "init"
Touch == bad' = (bad \/ freed)                                   \* an access to a member of the promise
Resume == resumed' = resumed + 1 /\ freed' = TRUE
\* ---- R: the stop callback is constructed; if stop was already requested it runs inline in the constructor
RRegister == /\ cb = "unreg" /\ lab' = "tau"
             /\ IF reqd THEN cb' = "running" /\ pcS' = "fadd" /\ queued' = (Variant = "start_early")
                ELSE cb' = "registered" /\ pcS' = pcS /\ queued' = queued
             /\ UNCHANGED <<ref, who, reqd, pcT, pcQ, resumed, freed, bad, sawZero, last>>
\* ---- T: the task completes
TEnabled == cb # "unreg"
TDestruct == /\ TEnabled /\ pcT = "destruct" /\ lab' = "coro.sr.fin_destruct"
             /\ IF cb = "running" THEN cb' = cb /\ pcT' = "destruct_wait"          \* blocks while S executes the callback
                ELSE cb' = "destroyed" /\ pcT' = (IF Variant = "who_late" THEN "fsub" ELSE "who")
             /\ Touch
             /\ UNCHANGED <<ref, who, reqd, pcS, pcQ, queued, resumed, freed, sawZero, last>>
TDestructWait == /\ pcT = "destruct_wait" /\ cb # "running" /\ lab' = "tau"
                 /\ cb' = "destroyed" /\ pcT' = (IF Variant = "who_late" THEN "fsub" ELSE "who") /\ Touch
                 /\ UNCHANGED <<ref, who, reqd, pcS, pcQ, queued, resumed, freed, sawZero, last>>
TWho == /\ TEnabled /\ pcT = "who" /\ lab' = "coro.sr.fin_who"
        /\ who' = TRUE /\ Touch
        /\ IF Variant = "who_late"
           THEN pcT' = "end" /\ (IF last THEN Resume ELSE UNCHANGED <<resumed, freed>>)
           ELSE pcT' = "fsub" /\ UNCHANGED <<resumed, freed>>
        /\ UNCHANGED <<ref, cb, reqd, pcS, pcQ, queued, sawZero, last>>
TFsub == /\ TEnabled /\ pcT = "fsub" /\ lab' = "coro.sr.fin_fsub"
         /\ ref' = ref - 1 /\ Touch
         /\ IF Variant = "who_late"
            THEN pcT' = "who" /\ last' = (ref = 1) /\ UNCHANGED <<resumed, freed>>
            ELSE pcT' = "end" /\ last' = last /\ (IF ref = 1 THEN Resume ELSE UNCHANGED <<resumed, freed>>)
         /\ UNCHANGED <<who, cb, reqd, pcS, pcQ, queued, sawZero>>
\* ---- S: request_stop() on the receiver's source
SBegin == /\ pcS = "begin" /\ lab' = "coro.h.stop" /\ pcS' = "take"
          /\ UNCHANGED <<ref, who, cb, reqd, pcT, pcQ, queued, resumed, freed, bad, sawZero, last>>
STake == /\ pcS = "take" /\ lab' = "tau" /\ reqd' = TRUE
         /\ IF cb = "registered"
            THEN cb' = "running" /\ pcS' = "fadd" /\ queued' = (Variant = "start_early")     \* (defect: start() before the reference)
            ELSE cb' = cb /\ pcS' = "end" /\ queued' = queued        \* nothing registered (yet / any more)
         /\ UNCHANGED <<ref, who, pcT, pcQ, resumed, freed, bad, sawZero, last>>
SFadd == /\ pcS = "fadd" /\ lab' = "coro.sr.cb_fadd"
         /\ ref' = ref + 1 /\ Touch /\ sawZero' = (sawZero \/ ref = 0)
         /\ queued' = (queued \/ ref # 0)                          \* start(stopOperation_) = schedule()
         /\ pcS' = "cbend"
         /\ UNCHANGED <<who, cb, reqd, pcT, pcQ, resumed, freed, last>>
SCbEnd == /\ pcS = "cbend" /\ lab' = "tau" /\ cb' = "ran" /\ pcS' = "end"
          /\ UNCHANGED <<ref, who, reqd, pcT, pcQ, queued, resumed, freed, bad, sawZero, last>>
\* ---- Q: the scheduler runs the deferred stop request
QRun == /\ pcQ = "wait" /\ queued /\ lab' = "tau" /\ pcQ' = "fsub" /\ Touch      \* stopSource_.request_stop()
        /\ UNCHANGED <<ref, who, cb, reqd, pcT, pcS, queued, resumed, freed, sawZero, last>>
QFsub == /\ pcQ = "fsub" /\ lab' = "coro.sr.op_fsub" /\ ref' = ref - 1 /\ Touch
         /\ pcQ' = IF ref = 1 THEN "who" ELSE "end"
         /\ UNCHANGED <<who, cb, reqd, pcT, pcS, queued, resumed, freed, sawZero, last>>
QWho == /\ pcQ = "who" /\ lab' = "coro.sr.op_who"
        /\ bad' = (bad \/ freed \/ ~who)                          \* reads whoToContinue_
        /\ Resume /\ pcQ' = "end"
        /\ UNCHANGED <<ref, who, cb, reqd, pcT, pcS, queued, sawZero, last>>
Next == RRegister \/ TDestruct \/ TDestructWait \/ TWho \/ TFsub \/ SBegin \/ STake \/ SFadd \/ SCbEnd \/ QRun \/ QFsub \/ QWho
Spec == Init /\ [][Next]_vars /\ WF_vars(Next)
AllEnded == pcT = "end" /\ pcS = "end" /\ (pcQ = "end" \/ (pcQ = "wait" /\ ~queued))
NoUseAfterFree == ~bad
ResumedAtMostOnce == resumed <= 1
ResumedAtEnd == AllEnded => resumed = 1
CallbackNeverSeesZero == ~sawZero              \* the `== 0` branch of stop_callback is defensive only
NoDeadlock == AllEnded \/ ENABLED Next
Termination == <>AllEnded
View == core
=============================================================================
