SPECIFICATION MacroSpec
CONSTANTS Scripts <- ScriptsC  LeafModes <- LeafModesC
INVARIANTS RootCompletedAtMostOnce NoLostCompletion CleanupLIFO CleanupBeforeCompletion LocalsDieBeforeCompletion AllDestroyedAtEnd Affinity StopReaches ThunkJoin DoneHasCause
ACTION_CONSTRAINT EdgeLog
CHECK_DEADLOCK FALSE
