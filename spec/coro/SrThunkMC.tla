---- MODULE SrThunkMC ----
(* Instance of SrThunk that exports every transition with its label (schedule-point site or tau). *)
EXTENDS SrThunk, Sequences, Json, IOUtils, TLCExt
EdgeLog ==
  LET rec == [s |-> <<TLCFP(core), TLCFP(<<core, 1>>)>>, t |-> <<TLCFP(core'), TLCFP(<<core', 1>>)>>, lab |-> lab',
              init |-> (lab = "init"), fin |-> AllEnded']
  IN Serialize(ToJson(rec) \o "\n", IOEnv.EDGES,
        [format |-> "TXT", charset |-> "UTF-8", openOptions |-> <<"WRITE", "CREATE", "APPEND">>]).exitValue = 0
====
