SPECIFICATION Spec
CONSTANTS Variant = "who_late"
INVARIANTS NoUseAfterFree
CHECK_DEADLOCK FALSE
