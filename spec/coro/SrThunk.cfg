SPECIFICATION Spec
CONSTANTS Variant = "ok"
INVARIANTS NoUseAfterFree ResumedAtMostOnce ResumedAtEnd CallbackNeverSeesZero NoDeadlock
PROPERTY Termination
CHECK_DEADLOCK FALSE
