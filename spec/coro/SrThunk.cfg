SPECIFICATION Spec
CONSTANTS DestructFirst = TRUE  StopMayHappen = TRUE
INVARIANTS NoUseAfterFree ResumedAtMostOnce ResumedAtEnd CallbackNeverSeesZero NoDeadlock
PROPERTY Termination
CHECK_DEADLOCK FALSE
