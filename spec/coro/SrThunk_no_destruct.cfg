SPECIFICATION Spec
CONSTANTS Variant = "no_destruct"
INVARIANTS NoUseAfterFree
CHECK_DEADLOCK FALSE
