SPECIFICATION Spec
CONSTANTS Variant = "ok"
INVARIANTS NoUseAfterFree ResumedAtMostOnce
VIEW View
ACTION_CONSTRAINT EdgeLog
CHECK_DEADLOCK FALSE
