SPECIFICATION Spec
CONSTANTS Variant = "ok"
INVARIANTS NoUseAfterFree ResumedAtMostOnce ResumedAtEnd CallbackNeverSeesZero NoDeadlock
VIEW View
ACTION_CONSTRAINT EdgeLog
CHECK_DEADLOCK FALSE
