---- MODULE TasksMacro ----
(* Macro-step instance of Tasks: one transition = one external action followed by the whole internal   *)
(* cascade up to the next quiescent state (the cascade is deterministic).  Every macro-step is exported *)
(* with the observations the interpreter coroutine is expected to make during it.                       *)
EXTENDS Tasks, Json, IOUtils, TLCExt
ScriptsC == LET q == JsonDeserialize(IOEnv.SCRIPTS) IN {q[i] : i \in 1..Len(q)}
LeafModesC == {[inl |-> TRUE, ch |-> "v", onStop |-> "ignore"],
               [inl |-> TRUE, ch |-> "e", onStop |-> "ignore"],
               [inl |-> TRUE, ch |-> "d", onStop |-> "ignore"],
               [inl |-> FALSE, ch |-> "v", onStop |-> "ignore"],
               [inl |-> FALSE, ch |-> "v", onStop |-> "done"]}
MacroNext ==
  /\ UNCHANGED cfg
  /\ \/ EnStart(S) /\ S' = RunToQuiescence(ApplyStart(S))
     \/ EnStop(S) /\ S' = RunToQuiescence(ApplyStop(S))
     \/ \E l \in Leaves, ch \in {"v", "e", "d"} :
           LeafChOk(l, ch) /\ EnCompleteLeaf(S, l) /\ S' = RunToQuiescence(ApplyCompleteLeaf(S, l, ch))
     \/ \E c \in Ctxs : EnRunCtx(S, c) /\ S' = RunToQuiescence(ApplyRunCtx(S, c))
MacroSpec == Init /\ [][MacroNext]_vars
EdgeLog ==
  LET rec == [s |-> <<TLCFP(vars), TLCFP(<<vars, 1>>)>>, t |-> <<TLCFP(vars'), TLCFP(<<vars', 1>>)>>,
              ext |-> [k |-> S'.ext[1], n |-> S'.ext[2], ch |-> S'.lastCh],
              cfg |-> IF ~S.started /\ ~S.req[0]
                      THEN [script |-> cfg.script.id, mode |-> {[l |-> l, m |-> cfg.mode[l]] : l \in DOMAIN cfg.mode}]
                      ELSE [script |-> 0],
              obs |-> [ev |-> SubSeq(S'.log, Len(S.log) + 1, Len(S'.log)), seen |-> S'.stopSeen, root |-> Len(S'.rootDone)]]
  IN Serialize(ToJson(rec) \o "\n", IOEnv.EDGES,
        [format |-> "TXT", charset |-> "UTF-8", openOptions |-> <<"WRITE", "CREATE", "APPEND">>]).exitValue = 0
====
