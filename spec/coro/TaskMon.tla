------------------------------ MODULE TaskMon ------------------------------
(***************************************************************************)
(* Monitor for C10 (and the task clause of C11) over the event log that    *)
(* the interpreter coroutine of engines/coro records from the real         *)
(* unifex::task<> machinery.  It does not know the script: it accepts      *)
(* exactly the logs in which                                               *)
(*  C10 results  co_await of a leaf returns that leaf's value (payload =   *)
(*      the leaf's id) iff the leaf completed with a value, throws the     *)
(*      leaf's error iff it completed with an error, and never returns     *)
(*      after the leaf completed with done; a parent resumed after a child *)
(*      task sees exactly what the child co_returned / let escape; a done  *)
(*      child makes the parent unwind too (or, through done_as_optional,   *)
(*      yields the empty optional); the outermost task completes with its  *)
(*      co_return value / escaped exception / done, and with done only if  *)
(*      something it awaited was legitimately cancelled;                   *)
(*  C10 cleanup  every registered at_coroutine_exit action runs exactly    *)
(*      once, most recently registered first, only once the frame is       *)
(*      exiting, and all of a frame's actions have run before its parent   *)
(*      is resumed / the outer receiver is completed;                      *)
(*  C10 lifetime a frame that is being unwound as done never executes      *)
(*      another statement; locals are destroyed exactly once and are gone  *)
(*      when the parent resumes; every frame is destroyed exactly once;    *)
(*      no tracked object and no heap block survives the operation;        *)
(*  C10 stop     once a stop request was made on the receiver and the      *)
(*      scheduler hops have been drained, every running leaf sender has    *)
(*      seen it; no leaf sees a stop request that was never made;          *)
(*  C11 task     every statement of a frame executes on the context of the *)
(*      frame's current scheduler (inherited from the parent, changed only *)
(*      by co_await schedule(s), which resumes on s); the outermost task   *)
(*      completes on the receiver's scheduler (context 0).                 *)
(*  C04 (opt-in) no stop callback is still registered on the receiver's    *)
(*      token when the receiver is completed (RootComplete.regs = 0, where *)
(*      regs counts callbacks neither deregistered nor dequeued for        *)
(*      execution), and no leaf observes a stop request afterwards.        *)
(*  C20 (opt-in) async-stack bookkeeping is balanced: whenever the driving *)
(*      thread is back in the harness (Quiescent, End) it has no current   *)
(*      AsyncStackRoot (asr = 0), and no lost completion / leak (End).     *)
(* IOEnv.PROP selects the rule set: "C10", "C11", "C04", "C20" or          *)
(* "ALL" (= C10 + C11).                                                    *)
(***************************************************************************)
EXTENDS Integers, Sequences, FiniteSets, TLC, TraceIO
\* "ALL" = C10 + C11 (the rule sets this engine is the oracle for); "C04" and "C20" are opt-in only
On(p) == IOEnv.PROP = p \/ (IOEnv.PROP = "ALL" /\ p \notin {"C04", "C20"})
Fr == 0..5
LeafIds == 0..12
NONE == [ch |-> "none", p |-> <<>>]
NoAw == [t |-> "none", n |-> 0]
VARIABLES l,
          started, rootCount, stopReq,
          fst,        \* [Fr -> "idle" | "run" | "unw"]   unw = observed being unwound as done
          res,        \* [Fr -> result the body finished with: NONE | [ch, p]]
          aw,         \* [Fr -> what the frame is awaiting: [t, n]]
          mode,       \* [Fr -> "T" | "O" | "R"] how the frame is awaited
          sch,        \* [Fr -> context of the frame's current scheduler]
          locals,     \* [Fr -> set of live locals]
          regs,       \* [Fr -> stack of registered cleanup actions not yet run]
          gone,       \* [Fr -> frame destroyed]
          lrun, lch, lcb, seen,
          cbusy       \* [Fr -> id of the frame's cleanup action that has begun and not finished (0 = none)]
vars == <<l, started, rootCount, stopReq, fst, res, aw, mode, sch, locals, regs, gone, lrun, lch, lcb, seen, cbusy>>
Fresh == /\ started = FALSE /\ rootCount = 0 /\ stopReq = FALSE
         /\ fst = [k \in Fr |-> "idle"] /\ res = [k \in Fr |-> NONE] /\ aw = [k \in Fr |-> NoAw]
         /\ mode = [k \in Fr |-> "R"] /\ sch = [k \in Fr |-> 0]
         /\ locals = [k \in Fr |-> {}] /\ regs = [k \in Fr |-> <<>>] /\ gone = [k \in Fr |-> FALSE]
         /\ lrun = [i \in LeafIds |-> FALSE] /\ lch = [i \in LeafIds |-> ""] /\ lcb = [i \in LeafIds |-> FALSE] /\ seen = {}
         /\ cbusy = [k \in Fr |-> 0]
Init == l = 1 /\ Fresh /\ TrackInit
E == Log[l]
Is(e) == l <= Len(Log) /\ E.e = e /\ l' = l + 1
Ctx == <<E.ck, E.cn>>
OnCtx(c) == On("C11") => Ctx = <<"C", c>>
Running(k) == fst[k] = "run" /\ res[k] = NONE          \* the body may execute a statement
Idle(k) == Running(k) /\ aw[k] = NoAw
\* frame k is legitimately being unwound as done: what it awaits was cancelled
RECURSIVE CanBeDone(_)
CanBeDone(k) ==
  /\ fst[k] # "idle" /\ res[k] = NONE
  /\ CASE aw[k].t = "leaf" -> lch[aw[k].n] = "d"
       [] aw[k].t = "task" -> mode[aw[k].n] = "T" /\ CanBeDone(aw[k].n) /\ regs[aw[k].n] = <<>>
       [] aw[k].t \in {"sched", "stopif"} -> stopReq
       [] OTHER -> FALSE
Exiting(k) == res[k] # NONE \/ CanBeDone(k)
Closed == TRUE
Reset == /\ Is("Reset")
         /\ started' = FALSE /\ rootCount' = 0 /\ stopReq' = FALSE
         /\ fst' = [k \in Fr |-> "idle"] /\ res' = [k \in Fr |-> NONE] /\ aw' = [k \in Fr |-> NoAw]
         /\ mode' = [k \in Fr |-> "R"] /\ sch' = [k \in Fr |-> 0]
         /\ locals' = [k \in Fr |-> {}] /\ regs' = [k \in Fr |-> <<>>] /\ gone' = [k \in Fr |-> FALSE]
         /\ lrun' = [i \in LeafIds |-> FALSE] /\ lch' = [i \in LeafIds |-> ""] /\ lcb' = [i \in LeafIds |-> FALSE] /\ seen' = {}
         /\ cbusy' = [k \in Fr |-> 0]
Other == /\ (Is("Connect") \/ Is("StartEnd") \/ Is("OpDestroy") \/ Is("Drain") \/ Is("RunCtx") \/ Is("SchedStart"))
         /\ UNCHANGED <<started, rootCount, stopReq, fst, res, aw, mode, sch, locals, regs, gone, lrun, lch, lcb, seen, cbusy>>
StartBegin == /\ Is("StartBegin") /\ ~started /\ started' = TRUE
              /\ UNCHANGED <<rootCount, stopReq, fst, res, aw, mode, sch, locals, regs, gone, lrun, lch, lcb, seen, cbusy>>
ExtStop == /\ Is("ExtStop") /\ stopReq' = TRUE
           /\ UNCHANGED <<started, rootCount, fst, res, aw, mode, sch, locals, regs, gone, lrun, lch, lcb, seen, cbusy>>
\* ---- frames
BodyEv == /\ Is("Body") /\ fst[E.k] = "idle"
          /\ IF E.k = 0 THEN started /\ sch' = [sch EXCEPT ![0] = 0] /\ OnCtx(0)
             ELSE \E q \in Fr : /\ Running(q) /\ aw[q] = [t |-> "task", n |-> E.k]
                                /\ sch' = [sch EXCEPT ![E.k] = sch[q]] /\ OnCtx(sch[q])
          /\ fst' = [fst EXCEPT ![E.k] = "run"]
          /\ UNCHANGED <<started, rootCount, stopReq, res, aw, mode, locals, regs, gone, lrun, lch, lcb, seen, cbusy>>
LocalCtor == /\ Is("LocalCtor") /\ (On("C10") => Idle(E.k))
             /\ locals' = [locals EXCEPT ![E.k] = @ \cup {E.a}]
             /\ UNCHANGED <<started, rootCount, stopReq, fst, res, aw, mode, sch, regs, gone, lrun, lch, lcb, seen, cbusy>>
LocalDtor == /\ Is("LocalDtor") /\ (On("C10") => E.a \in locals[E.k])            \* destroyed at most once
             /\ locals' = [locals EXCEPT ![E.k] = @ \ {E.a}]
             /\ UNCHANGED <<started, rootCount, stopReq, fst, res, aw, mode, sch, regs, gone, lrun, lch, lcb, seen, cbusy>>
RegEv == /\ Is("Reg") /\ (On("C10") => Idle(E.k)) /\ OnCtx(sch[E.k])
         /\ regs' = [regs EXCEPT ![E.k] = <<E.a>> \o @]
         /\ UNCHANGED <<started, rootCount, stopReq, fst, res, aw, mode, sch, locals, gone, lrun, lch, lcb, seen, cbusy>>
\* a cleanup action that suspends logs CleanupBegin when it starts and Cleanup when it has finished
CleanupBegin == /\ Is("CleanupBegin")
                /\ On("C10") => /\ regs[E.k] # <<>> /\ Head(regs[E.k]) = E.a /\ cbusy[E.k] = 0
                                /\ Exiting(E.k)
                /\ cbusy' = [cbusy EXCEPT ![E.k] = E.a]
                /\ fst' = [fst EXCEPT ![E.k] = IF res[E.k] = NONE THEN "unw" ELSE @]
                /\ UNCHANGED <<started, rootCount, stopReq, res, aw, mode, sch, locals, regs, gone, lrun, lch, lcb, seen>>
CleanupEv == /\ Is("Cleanup")
             /\ On("C10") => /\ regs[E.k] # <<>> /\ Head(regs[E.k]) = E.a      \* exactly once, reverse registration order
                             /\ cbusy[E.k] \in {0, E.a}                          \* actions of a frame do not overlap
                             /\ Exiting(E.k)                                       \* only on an exit path
             /\ regs' = [regs EXCEPT ![E.k] = IF @ # <<>> /\ Head(@) = E.a THEN Tail(@) ELSE @]
             /\ cbusy' = [cbusy EXCEPT ![E.k] = 0]
             /\ fst' = [fst EXCEPT ![E.k] = IF res[E.k] = NONE THEN "unw" ELSE @]
             /\ UNCHANGED <<started, rootCount, stopReq, res, aw, mode, sch, locals, gone, lrun, lch, lcb, seen>>
FrameGoneEv == /\ Is("FrameGone") /\ (On("C10") => ~gone[E.k])
               /\ gone' = [gone EXCEPT ![E.k] = TRUE]
               /\ UNCHANGED <<started, rootCount, stopReq, fst, res, aw, mode, sch, locals, regs, lrun, lch, lcb, seen, cbusy>>
\* ---- leaves
AwaitEv == /\ Is("Await") /\ (On("C10") => Idle(E.k))
           /\ aw' = [aw EXCEPT ![E.k] = [t |-> "leaf", n |-> E.l]]
           /\ lch' = [lch EXCEPT ![E.l] = ""]
           /\ UNCHANGED <<started, rootCount, stopReq, fst, res, mode, sch, locals, regs, gone, lrun, lcb, seen, cbusy>>
LeafStart == /\ Is("LeafStart")
             /\ On("C10") => (E.stopped = 1 => stopReq)
             /\ lrun' = [lrun EXCEPT ![E.l] = TRUE] /\ lcb' = [lcb EXCEPT ![E.l] = (E.aw = 0)]
             /\ UNCHANGED <<started, rootCount, stopReq, fst, res, aw, mode, sch, locals, regs, gone, lch, seen, cbusy>>
LeafStopSeen == /\ Is("LeafStopSeen")
                /\ On("C10") => (stopReq /\ lrun[E.l])         \* no spurious stop, none after completion
                /\ On("C04") => rootCount = 0                  \* the receiver's token is not used after its completion
                /\ seen' = seen \cup {E.l}
                /\ UNCHANGED <<started, rootCount, stopReq, fst, res, aw, mode, sch, locals, regs, gone, lrun, lch, lcb, cbusy>>
LeafComplete == /\ Is("LeafComplete")
                /\ lrun' = [lrun EXCEPT ![E.l] = FALSE] /\ lch' = [lch EXCEPT ![E.l] = E.ch]
                /\ UNCHANGED <<started, rootCount, stopReq, fst, res, aw, mode, sch, locals, regs, gone, lcb, seen, cbusy>>
AwaitValue == /\ Is("AwaitValue")
              /\ On("C10") => /\ Running(E.k) /\ aw[E.k] = [t |-> "leaf", n |-> E.n]
                              /\ lch[E.n] = "v" /\ E.p = <<E.n>>
              /\ OnCtx(sch[E.k])
              /\ aw' = [aw EXCEPT ![E.k] = NoAw]
              /\ UNCHANGED <<started, rootCount, stopReq, fst, res, mode, sch, locals, regs, gone, lrun, lch, lcb, seen, cbusy>>
AwaitThrew == /\ Is("AwaitThrew")
              /\ On("C10") => /\ Running(E.k) /\ aw[E.k] = [t |-> "leaf", n |-> E.n]
                              /\ lch[E.n] = "e" /\ E.p = <<E.n>>
              /\ OnCtx(sch[E.k])
              /\ aw' = [aw EXCEPT ![E.k] = NoAw]
              /\ res' = [res EXCEPT ![E.k] = IF E.re = 1 THEN [ch |-> "e", p |-> E.p] ELSE @]
              /\ UNCHANGED <<started, rootCount, stopReq, fst, mode, sch, locals, regs, gone, lrun, lch, lcb, seen, cbusy>>
\* ---- nested tasks
AwaitTask == /\ Is("AwaitTask") /\ (On("C10") => (Idle(E.k) /\ fst[E.c] = "idle"))
             /\ aw' = [aw EXCEPT ![E.k] = [t |-> "task", n |-> E.c]]
             /\ mode' = [mode EXCEPT ![E.c] = E.mode]
             /\ UNCHANGED <<started, rootCount, stopReq, fst, res, sch, locals, regs, gone, lrun, lch, lcb, seen, cbusy>>
\* the parent is resumed after child c: all of c's cleanup actions have run, c's locals are gone
ChildFinished(c) == regs[c] = <<>> /\ locals[c] = {}
TaskValue == /\ Is("TaskValue")
             /\ On("C10") => /\ Running(E.k) /\ aw[E.k] = [t |-> "task", n |-> E.n] /\ ChildFinished(E.n)
                             /\ \/ res[E.n] = [ch |-> "v", p |-> E.p]
                                \/ mode[E.n] = "O" /\ E.p = <<0>> /\ CanBeDone(E.n)
             /\ OnCtx(sch[E.k])
             /\ aw' = [aw EXCEPT ![E.k] = NoAw]
             /\ UNCHANGED <<started, rootCount, stopReq, fst, res, mode, sch, locals, regs, gone, lrun, lch, lcb, seen, cbusy>>
TaskThrew == /\ Is("TaskThrew")
             /\ On("C10") => /\ Running(E.k) /\ aw[E.k] = [t |-> "task", n |-> E.n] /\ ChildFinished(E.n)
                             /\ res[E.n] = [ch |-> "e", p |-> E.p]
             /\ OnCtx(sch[E.k])
             /\ aw' = [aw EXCEPT ![E.k] = NoAw]
             /\ res' = [res EXCEPT ![E.k] = IF E.re = 1 THEN [ch |-> "e", p |-> E.p] ELSE @]
             /\ UNCHANGED <<started, rootCount, stopReq, fst, mode, sch, locals, regs, gone, lrun, lch, lcb, seen, cbusy>>
\* ---- schedule / stop_if_requested / exits
SchedEv == /\ Is("Sched") /\ (On("C10") => Idle(E.k))
           /\ aw' = [aw EXCEPT ![E.k] = [t |-> "sched", n |-> E.to]]
           /\ UNCHANGED <<started, rootCount, stopReq, fst, res, mode, sch, locals, regs, gone, lrun, lch, lcb, seen, cbusy>>
Switched == /\ Is("Switched") /\ (On("C10") => (Running(E.k) /\ aw[E.k] = [t |-> "sched", n |-> E.to]))
            /\ OnCtx(E.to)
            /\ aw' = [aw EXCEPT ![E.k] = NoAw] /\ sch' = [sch EXCEPT ![E.k] = E.to]
            /\ UNCHANGED <<started, rootCount, stopReq, fst, res, mode, locals, regs, gone, lrun, lch, lcb, seen, cbusy>>
StopIf == /\ Is("StopIf") /\ (On("C10") => Idle(E.k))
          /\ aw' = [aw EXCEPT ![E.k] = [t |-> "stopif", n |-> 0]]
          /\ UNCHANGED <<started, rootCount, stopReq, fst, res, mode, sch, locals, regs, gone, lrun, lch, lcb, seen, cbusy>>
NotStopped == /\ Is("NotStopped") /\ (On("C10") => (Running(E.k) /\ aw[E.k].t = "stopif")) /\ OnCtx(sch[E.k])
              /\ aw' = [aw EXCEPT ![E.k] = NoAw]
              /\ UNCHANGED <<started, rootCount, stopReq, fst, res, mode, sch, locals, regs, gone, lrun, lch, lcb, seen, cbusy>>
Throw == /\ Is("Throw") /\ (On("C10") => Idle(E.k))
         /\ res' = [res EXCEPT ![E.k] = [ch |-> "e", p |-> <<E.a>>]]
         /\ UNCHANGED <<started, rootCount, stopReq, fst, aw, mode, sch, locals, regs, gone, lrun, lch, lcb, seen, cbusy>>
Return == /\ Is("Return") /\ (On("C10") => Idle(E.k)) /\ OnCtx(sch[E.k])
          /\ res' = [res EXCEPT ![E.k] = [ch |-> "v", p |-> <<E.a>>]]
          /\ UNCHANGED <<started, rootCount, stopReq, fst, aw, mode, sch, locals, regs, gone, lrun, lch, lcb, seen, cbusy>>
\* ---- the outermost task as a sender
RootComplete ==
  /\ Is("RootComplete")
  /\ On("C10") => /\ started /\ rootCount = 0
                  /\ \A k \in Fr : regs[k] = <<>>                       \* every cleanup action ran before the receiver was resumed
                  /\ CASE E.ch = "v" -> res[0] = [ch |-> "v", p |-> E.p] /\ locals[0] = {}
                       [] E.ch = "e" -> res[0] = [ch |-> "e", p |-> E.p] /\ locals[0] = {}
                       [] OTHER -> CanBeDone(0)
  /\ OnCtx(0)
  /\ On("C04") => E.regs = 0      \* every stop callback registered on the receiver's token was deregistered (or dequeued for execution)
  /\ rootCount' = rootCount + 1
  /\ UNCHANGED <<started, stopReq, fst, res, aw, mode, sch, locals, regs, gone, lrun, lch, lcb, seen, cbusy>>
QuiescentEv ==
  /\ Is("Quiescent")
  /\ On("C10") => /\ (started /\ E.pending = 0) => rootCount = 1          \* no lost completion
                  /\ (stopReq /\ E.ctxp = 0) => \A i \in LeafIds : (lrun[i] /\ lcb[i]) => i \in seen
  /\ On("C20") => E.asr = 0
  /\ UNCHANGED <<started, rootCount, stopReq, fst, res, aw, mode, sch, locals, regs, gone, lrun, lch, lcb, seen, cbusy>>
EndEv ==
  /\ Is("End")
  /\ On("C10") => /\ E.live = 0 /\ E.bad = 0 /\ E.heap = 0
                  /\ started => E.root = 1
                  /\ \A k \in Fr : fst[k] # "idle" => (gone[k] /\ locals[k] = {} /\ regs[k] = <<>>)
  /\ On("C20") => (E.asr = 0 /\ E.live = 0 /\ E.heap = 0 /\ (started => E.root = 1))
  /\ UNCHANGED <<started, rootCount, stopReq, fst, res, aw, mode, sch, locals, regs, gone, lrun, lch, lcb, seen, cbusy>>
Next == \/ Reset \/ Other \/ StartBegin \/ ExtStop \/ BodyEv \/ LocalCtor \/ LocalDtor \/ RegEv \/ CleanupBegin \/ CleanupEv \/ FrameGoneEv
        \/ AwaitEv \/ LeafStart \/ LeafStopSeen \/ LeafComplete \/ AwaitValue \/ AwaitThrew
        \/ AwaitTask \/ TaskValue \/ TaskThrew \/ SchedEv \/ Switched \/ StopIf \/ NotStopped \/ Throw \/ Return
        \/ RootComplete \/ QuiescentEv \/ EndEv
Spec == Init /\ [][Next]_vars
Track == TrackAt(l, Closed)
Report == ReportTrace
=============================================================================
