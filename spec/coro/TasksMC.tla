---- MODULE TasksMC ----
(* Fine-grained model-checking instance of Tasks: every internal step is a state, the invariants are   *)
(* checked in every state.  Scripts come from the JSON catalogue shared with the C++ driver.            *)
EXTENDS Tasks, Json, IOUtils, TLCExt
ScriptsC == LET q == JsonDeserialize(IOEnv.SCRIPTS) IN {q[i] : i \in 1..Len(q)}
LeafModesC == {[inl |-> TRUE, ch |-> "v", onStop |-> "ignore"],
               [inl |-> TRUE, ch |-> "e", onStop |-> "ignore"],
               [inl |-> TRUE, ch |-> "d", onStop |-> "ignore"],
               [inl |-> FALSE, ch |-> "v", onStop |-> "ignore"],
               [inl |-> FALSE, ch |-> "v", onStop |-> "done"]}
====
