----------------------------- MODULE TimerMon -----------------------------
(***************************************************************************)
(* The C07 monitor: the most permissive behaviour over API-level events of *)
(* one time scheduler that still satisfies the property statement.         *)
(* Evaluated by TLC on an ndjson log recorded from the real code (many     *)
(* executions separated by Reset).  It knows nothing about lists, mutexes  *)
(* or which thread does what.                                              *)
(*                                                                         *)
(* Events (times are the scheduler's own clock, in ticks):                 *)
(*   ArmBegin(op, due)   start() of a schedule_at/after operation entered  *)
(*   ArmEnd(op)          start() returned                                  *)
(*   StopBegin(op) / StopEnd(op)   request_stop() on op's stop source      *)
(*   Fire(op, ch, now)   completion delivered (ch = value|done|error),     *)
(*                       now = scheduler's now() sampled in the completion *)
(*   Tick(now)           the (virtual) clock advanced to `now`; the harness*)
(*                       lets time pass only when no thread can move       *)
(*   End(pending)        end of the execution (clock has passed every due) *)
(* Rules:                                                                  *)
(*   NeverEarly   value => now >= due                                      *)
(*   DueOrder     a value completion of X needs every Y in mustPrec[X] to  *)
(*                have completed (or to have been cancelled), where Y is   *)
(*                put into mustPrec[X] when Y's submission *ended* before  *)
(*                X's began with due[Y] <= due[X] (ties: submission order) *)
(*                or ended while X was submitted, uncompleted and not yet  *)
(*                due, with due[Y] < due[X].  (Overlapping submissions of  *)
(*                equal due time, and submissions after X became due,      *)
(*                leave both orders admissible.)                           *)
(*   CancelPrompt no Tick while an operation is started, stop-requested    *)
(*                and not completed; a completion after StopEnd is done    *)
(*   ExactlyOnce  at most one Fire per op, none before ArmBegin, exactly   *)
(*                one by End; done only if a stop was requested; no error  *)
(***************************************************************************)
EXTENDS Integers, Sequences, FiniteSets, TLC, TraceIO
Ops == 1..6
VARIABLES l, mnow, armB, armE, due, stopB, stopE, fired, mustPrec, ended
vars == <<l, mnow, armB, armE, due, stopB, stopE, fired, mustPrec, ended>>
F == [o \in Ops |-> FALSE]
Fresh == /\ armB = F /\ armE = F /\ due = [o \in Ops |-> 0] /\ stopB = F /\ stopE = F
         /\ fired = F /\ mustPrec = [o \in Ops |-> {}] /\ ended = FALSE
Init == l = 1 /\ mnow = 0 /\ Fresh /\ TrackInit
E == Log[l]
Is(e) == l <= Len(Log) /\ E.e = e /\ l' = l + 1
AllFired == \A o \in Ops : armB[o] => fired[o]
Closed == ended \/ (\A o \in Ops : ~armB[o])
Reset == /\ Is("Reset") /\ Closed
         /\ mnow' = E.now
         /\ armB' = F /\ armE' = F /\ due' = [o \in Ops |-> 0] /\ stopB' = F /\ stopE' = F
         /\ fired' = F /\ mustPrec' = [o \in Ops |-> {}] /\ ended' = FALSE
ArmBegin == /\ Is("ArmBegin") /\ ~ended /\ ~armB[E.op]
            /\ armB' = [armB EXCEPT ![E.op] = TRUE] /\ due' = [due EXCEPT ![E.op] = E.due]
            /\ mustPrec' = [mustPrec EXCEPT ![E.op] = {y \in Ops : armE[y] /\ due[y] <= E.due}]
            /\ UNCHANGED <<mnow, armE, stopB, stopE, fired, ended>>
ArmEnd == /\ Is("ArmEnd") /\ armB[E.op] /\ ~armE[E.op]
          /\ armE' = [armE EXCEPT ![E.op] = TRUE]
          /\ mustPrec' = [x \in Ops |->
                IF x # E.op /\ armB[x] /\ ~fired[x] /\ mnow < due[x] /\ due[E.op] < due[x]
                THEN mustPrec[x] \cup {E.op} ELSE mustPrec[x]]
          /\ UNCHANGED <<mnow, armB, due, stopB, stopE, fired, ended>>
StopBegin == /\ Is("StopBegin") /\ stopB' = [stopB EXCEPT ![E.op] = TRUE]
             /\ UNCHANGED <<mnow, armB, armE, due, stopE, fired, mustPrec, ended>>
StopEnd == /\ Is("StopEnd") /\ stopB[E.op] /\ stopE' = [stopE EXCEPT ![E.op] = TRUE]
           /\ UNCHANGED <<mnow, armB, armE, due, stopB, fired, mustPrec, ended>>
Fire == /\ Is("Fire") /\ ~ended
        /\ armB[E.op] /\ ~fired[E.op]                                   \* started, and at most once
        /\ E.ch \in {"value", "done"}
        /\ (E.ch = "value") =>
             /\ E.now >= due[E.op]                                      \* NeverEarly
             /\ ~stopE[E.op]                                            \* a stop request that had returned => done
             /\ \A y \in mustPrec[E.op] : fired[y] \/ stopB[y]          \* DueOrder
        /\ (E.ch = "done") => stopB[E.op]
        /\ fired' = [fired EXCEPT ![E.op] = TRUE]
        /\ UNCHANGED <<mnow, armB, armE, due, stopB, stopE, mustPrec, ended>>
Tick == /\ Is("Tick") /\ ~ended
        /\ E.now > mnow
        /\ \A o \in Ops : (armB[o] /\ stopB[o]) => fired[o]             \* CancelPrompt
        /\ mnow' = E.now
        /\ UNCHANGED <<armB, armE, due, stopB, stopE, fired, mustPrec, ended>>
End == /\ Is("End") /\ ~ended
       /\ AllFired /\ E.pending = 0                                     \* ExactlyOnce (no lost completion)
       /\ \A o \in Ops : armB[o] => armE[o]
       /\ ended' = TRUE
       /\ UNCHANGED <<mnow, armB, armE, due, stopB, stopE, fired, mustPrec>>
Next == Reset \/ ArmBegin \/ ArmEnd \/ StopBegin \/ StopEnd \/ Fire \/ Tick \/ End
Spec == Init /\ [][Next]_vars
Track == TrackAt(l, Closed)
Report == ReportTrace
=============================================================================
