----------------------------- MODULE TimerMon -----------------------------
(***************************************************************************)
(* The C07 monitor: the most permissive behaviour over API-level events of *)
(* one time scheduler that still satisfies the property statement.         *)
(* Evaluated by TLC on an ndjson log recorded from the real code (many     *)
(* executions separated by Reset).  It knows nothing about lists, mutexes  *)
(* or which thread does what.                                              *)
(*                                                                         *)
(* Events (times are the scheduler's own clock, in ticks):                 *)
(*   Reset(rt, slack)    new execution; rt = 1: free-running real-time     *)
(*                       recording, slack = tolerance in clock units       *)
(*   ArmBegin(op, due, sync)  start() of a schedule_at/after operation     *)
(*                       entered; sync = 0: remote start of an io context  *)
(*                       (insertion into the timer set happens later, FIFO)*)
(*   ArmEnd(op)          start() returned                                  *)
(*   StopBegin(op) / StopEnd(op)   request_stop() on op's stop source      *)
(*   Fire(op, ch, now)   completion delivered (ch = value|done|error),     *)
(*                       now = scheduler's now() sampled in the completion *)
(*   Tick(now)           the (virtual) clock advanced to `now`; the harness*)
(*                       lets time pass only when no thread can move       *)
(*   End(pending)        end of the execution (clock has passed every due) *)
(* Rules:                                                                  *)
(*   NeverEarly   value => now >= due                                      *)
(*   DueOrder     a value completion of X needs every Y in mustPrec[X] to  *)
(*                have completed (or to have been cancelled), where Y is   *)
(*                (unless Y is an asynchronous and X a synchronous start)  *)
(*                put into mustPrec[X] when Y's submission *ended* before  *)
(*                X's began with due[Y] <= due[X] (ties: submission order) *)
(*                or ended while X was submitted, uncompleted and not yet  *)
(*                due, with due[Y] < due[X].  (Overlapping submissions of  *)
(*                equal due time, and submissions after X became due,      *)
(*                leave both orders admissible.)                           *)
(*   CancelPrompt no Tick while an operation is started, stop-requested    *)
(*                and not completed; a completion after StopEnd is done    *)
(*   ExactlyOnce  at most one Fire per op, none before ArmBegin, exactly   *)
(*                one by End; done only if a stop was requested; no error  *)
(***************************************************************************)
EXTENDS Integers, Sequences, FiniteSets, TLC, TraceIO
Ops == 1..6
VARIABLES l, mnow, armB, armE, due, stopB, stopE, fired, mustPrec, ended,
          rt, slack,    \* Reset: rt = 1 for free-running real-time recordings (io contexts), slack in clock units
          sync,         \* [op -> BOOLEAN] the submission is inserted when start() returns (not a remote start of an io context)
          stopEndNow    \* [op -> clock at StopEnd]
vars == <<l, mnow, armB, armE, due, stopB, stopE, fired, mustPrec, ended, rt, slack, sync, stopEndNow>>
F == [o \in Ops |-> FALSE]
Fresh == /\ armB = F /\ armE = F /\ due = [o \in Ops |-> 0] /\ stopB = F /\ stopE = F
         /\ fired = F /\ mustPrec = [o \in Ops |-> {}] /\ ended = FALSE
         /\ sync = [o \in Ops |-> TRUE] /\ stopEndNow = [o \in Ops |-> 0]
Init == l = 1 /\ mnow = 0 /\ rt = 0 /\ slack = 0 /\ Fresh /\ TrackInit
E == Log[l]
Is(e) == l <= Len(Log) /\ E.e = e /\ l' = l + 1
AllFired == \A o \in Ops : armB[o] => fired[o]
Closed == ended \/ (\A o \in Ops : ~armB[o])
Reset == /\ Is("Reset") /\ Closed
         /\ mnow' = E.now
         /\ armB' = F /\ armE' = F /\ due' = [o \in Ops |-> 0] /\ stopB' = F /\ stopE' = F
         /\ fired' = F /\ mustPrec' = [o \in Ops |-> {}] /\ ended' = FALSE
         /\ rt' = E.rt /\ slack' = E.slack /\ sync' = [o \in Ops |-> TRUE] /\ stopEndNow' = [o \in Ops |-> 0]
ArmBegin == /\ Is("ArmBegin") /\ ~ended /\ ~armB[E.op]
            /\ armB' = [armB EXCEPT ![E.op] = TRUE] /\ due' = [due EXCEPT ![E.op] = E.due]
            /\ sync' = [sync EXCEPT ![E.op] = (E.sync = 1)]
            /\ mustPrec' = [mustPrec EXCEPT ![E.op] = {y \in Ops : armE[y] /\ due[y] <= E.due /\ (sync[y] \/ E.sync = 0)}]
            /\ UNCHANGED <<mnow, armE, stopB, stopE, fired, ended, rt, slack, stopEndNow>>
ArmEnd == /\ Is("ArmEnd") /\ armB[E.op] /\ ~armE[E.op]
          /\ armE' = [armE EXCEPT ![E.op] = TRUE]
          /\ mustPrec' = [x \in Ops |->
                IF x # E.op /\ armB[x] /\ ~fired[x] /\ E.now + slack < due[x] /\ due[E.op] < due[x]
                THEN mustPrec[x] \cup {E.op} ELSE mustPrec[x]]
          /\ UNCHANGED <<mnow, armB, due, stopB, stopE, fired, ended, rt, slack, sync, stopEndNow>>
StopBegin == /\ Is("StopBegin") /\ stopB' = [stopB EXCEPT ![E.op] = TRUE]
             /\ UNCHANGED <<mnow, armB, armE, due, stopE, fired, mustPrec, ended, rt, slack, sync, stopEndNow>>
StopEnd == /\ Is("StopEnd") /\ stopB[E.op] /\ stopE' = [stopE EXCEPT ![E.op] = TRUE]
           /\ stopEndNow' = [stopEndNow EXCEPT ![E.op] = E.now]
           /\ UNCHANGED <<mnow, armB, armE, due, stopB, fired, mustPrec, ended, rt, slack, sync>>
Fire == /\ Is("Fire") /\ ~ended
        /\ armB[E.op] /\ ~fired[E.op]                                   \* started, and at most once
        /\ E.ch \in {"value", "done"}
        /\ (E.ch = "value") =>
             /\ E.now >= due[E.op]                                      \* NeverEarly
             \* a stop request that had returned => done.  Free-running recordings cannot order the library's
             \* stop_requested() check against StopEnd by log position: there only a request that returned
             \* (by the clock) before the due time is decisive
             /\ ~stopE[E.op] \/ (rt = 1 /\ stopEndNow[E.op] + slack >= due[E.op])
             /\ \A y \in mustPrec[E.op] : fired[y] \/ stopB[y]          \* DueOrder
        /\ (E.ch = "done") => stopB[E.op]
        /\ fired' = [fired EXCEPT ![E.op] = TRUE]
        /\ UNCHANGED <<mnow, armB, armE, due, stopB, stopE, mustPrec, ended, rt, slack, sync, stopEndNow>>
Tick == /\ Is("Tick") /\ ~ended
        /\ E.now > mnow
        /\ \A o \in Ops : (armB[o] /\ stopB[o]) => fired[o]             \* CancelPrompt
        /\ mnow' = E.now
        /\ UNCHANGED <<armB, armE, due, stopB, stopE, fired, mustPrec, ended, rt, slack, sync, stopEndNow>>
End == /\ Is("End") /\ ~ended
       /\ AllFired /\ E.pending = 0                                     \* ExactlyOnce (no lost completion)
       /\ \A o \in Ops : armB[o] => armE[o]
       /\ ended' = TRUE
       /\ UNCHANGED <<mnow, armB, armE, due, stopB, stopE, fired, mustPrec, rt, slack, sync, stopEndNow>>
Next == Reset \/ ArmBegin \/ ArmEnd \/ StopBegin \/ StopEnd \/ Fire \/ Tick \/ End
Spec == Init /\ [][Next]_vars
Track == TrackAt(l, Closed)
Report == ReportTrace
=============================================================================
