---- MODULE ThreadUnsafeLoopMC ----
EXTENDS ThreadUnsafeLoop, Json, IOUtils, TLCExt
Scn == LET q == JsonDeserialize(IOEnv.SCENARIOS) IN {q[i] : i \in 1..Len(q)}   \* parsed once
InitLinksC == IOEnv.INITLINKS
MutC == IOEnv.MUT
EdgeLog ==
  LET rec == [s |-> <<TLCFP(vars), TLCFP(<<vars, 1>>)>>, t |-> <<TLCFP(vars'), TLCFP(<<vars', 1>>)>>,
              site |-> lastSite', scn |-> scn.id, obs |-> fireSeq', crash |-> (pc' = "crash")]
  IN (IOEnv.EDGES # "") =>
     Serialize(ToJson(rec) \o "\n", IOEnv.EDGES,
        [format |-> "TXT", charset |-> "UTF-8", openOptions |-> <<"WRITE", "CREATE", "APPEND">>]).exitValue = 0
====
