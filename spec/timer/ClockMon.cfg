SPECIFICATION Spec
CONSTANTS B = 1000000000  U = 100
CHECK_DEADLOCK FALSE
CONSTRAINT Track
POSTCONDITION Report
