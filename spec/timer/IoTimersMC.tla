---- MODULE IoTimersMC ----
EXTENDS IoTimers, Json, IOUtils, TLCExt
Scn == LET q == JsonDeserialize(IOEnv.SCENARIOS) IN {q[i] : i \in 1..Len(q)}   \* parsed once
MaxNowC == 6
FreeTickC == IF IOEnv.FREETICK = "0" THEN 0 ELSE IF IOEnv.FREETICK = "1" THEN 1 ELSE 2
MutC == IOEnv.MUT
\* terminal observation of every scenario (which channel each operation completed on), for the driver's comparison
ObsLog ==
  (IOEnv.OBS # "" /\ (AllDone \/ (Quiescent /\ now = MaxNow))) =>
     Serialize(ToJson([scn |-> scn.id, ch |-> [i \in 1..4 |-> fired[i]]]) \o "\n", IOEnv.OBS,
        [format |-> "TXT", charset |-> "UTF-8", openOptions |-> <<"WRITE", "CREATE", "APPEND">>]).exitValue = 0
====
