---- MODULE IoTimersMC ----
EXTENDS IoTimers, Json, IOUtils, TLCExt
Scn == LET q == JsonDeserialize(IOEnv.SCENARIOS) IN {q[i] : i \in 1..Len(q)}   \* parsed once
MaxNowC == 6
FreeTickC == IF IOEnv.FREETICK = "0" THEN 0 ELSE IF IOEnv.FREETICK = "1" THEN 1 ELSE 2
MutC == IOEnv.MUT
====
