SPECIFICATION Spec
CONSTANTS Scenarios <- Scn  InitLinks <- InitLinksC  Mut <- MutC
INVARIANTS ListConsistent NeverEarly DueOrder CancelPrompt ExactlyOnce NoReferenceAfterCompletion
VIEW View
ACTION_CONSTRAINT EdgeLog
CHECK_DEADLOCK FALSE
