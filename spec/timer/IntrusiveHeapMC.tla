---- MODULE IntrusiveHeapMC ----
EXTENDS IntrusiveHeap, Json, IOUtils, TLCExt
KeyVecsC == {<<1, 2, 2, 3>>, <<2, 2, 2, 2>>, <<3, 2, 1, 1>>, <<2, 1, 2>>}
MutC == IOEnv.MUT
EdgeLog ==
  LET rec == [s |-> <<TLCFP(vars), TLCFP(<<vars, 1>>)>>, t |-> <<TLCFP(vars'), TLCFP(<<vars', 1>>)>>,
              kv |-> kv, empty |-> (ord = <<>>), op |-> lastOp', item |-> lastItem', res |-> lastRes', order |-> ord']
  IN (IOEnv.EDGES # "") =>
     Serialize(ToJson(rec) \o "\n", IOEnv.EDGES,
        [format |-> "TXT", charset |-> "UTF-8", openOptions |-> <<"WRITE", "CREATE", "APPEND">>]).exitValue = 0
====
