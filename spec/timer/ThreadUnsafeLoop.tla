-------------------------- MODULE ThreadUnsafeLoop --------------------------
(***************************************************************************)
(* Implementation-shaped specification of unifex::thread_unsafe_event_loop *)
(* (include/unifex/thread_unsafe_event_loop.hpp, source/thread_unsafe_     *)
(* event_loop.cpp): single-threaded timer list head_ / next_ / prevPtr_ /  *)
(* dueTime_, run_until_empty() (lastTime cache, sleep_until, pop, execute) *)
(* and cancel_callback (rewrite dueTime_ to now, unlink, requeue).         *)
(* prevPtr_ encoding: Indet = never written (operation_base's constructor  *)
(* does not initialise next_/prevPtr_), -1 = nullptr, 0 = &head_,          *)
(* q > 0 = &q->next_.  Reading an Indet link is recorded in `bad`.         *)
(* A scenario is what sync_wait(root) executes: the root operation's       *)
(* start() runs the `init` script (arm i = start() of timer operation i,   *)
(* stop j = request_stop() on j's stop source); the completion of timer i  *)
(* runs script on[i] inside set_value/set_done.  Time passes only inside   *)
(* std::this_thread::sleep_until (action Sleep).                           *)
(***************************************************************************)
EXTENDS Integers, Sequences, FiniteSets, TLC
CONSTANTS Scenarios,   \* records [id, due, kind, init, on]
          InitLinks,   \* "indet" (the code as written) | "null" (links initialised)
          Mut          \* "none" | seeded design mutations (spec self-test)
OpsAll == 1..4
Null == -1
Indet == -2
VARIABLES scn, now, lastTime, head, next, pp, due, cbReg, stopFlag,
          pc,          \* "prog" (running todo) | "loop" | "popped" | "done" | "crash"
          todo, cur,
          origDue, armB, armE, stopB, fired, fireNow, fireCount, fireSeq, freed, mustPrec, orderOk, promptOk, bad,
          lastSite
vars == <<scn, now, lastTime, head, next, pp, due, cbReg, stopFlag, pc, todo, cur,
          origDue, armB, armE, stopB, fired, fireNow, fireCount, fireSeq, freed, mustPrec, orderOk, promptOk, bad>>
View == vars
N == Len(scn.due)
Ops == 1..N
Init ==
  /\ scn \in Scenarios
  /\ now = 0 /\ lastTime = 0 /\ head = 0
  /\ next = [o \in OpsAll |-> 0]
  /\ pp = [o \in OpsAll |-> IF InitLinks = "null" THEN Null ELSE Indet]
  /\ due = [o \in OpsAll |-> 0] /\ cbReg = [o \in OpsAll |-> FALSE] /\ stopFlag = [o \in OpsAll |-> FALSE]
  /\ pc = "prog" /\ todo = scn.init /\ cur = 0
  /\ origDue = [o \in OpsAll |-> 0] /\ armB = [o \in OpsAll |-> FALSE] /\ armE = [o \in OpsAll |-> FALSE]
  /\ stopB = [o \in OpsAll |-> FALSE]
  /\ fired = [o \in OpsAll |-> "none"] /\ fireNow = [o \in OpsAll |-> 0] /\ fireCount = [o \in OpsAll |-> 0]
  /\ fireSeq = <<>> /\ freed = [o \in OpsAll |-> FALSE] /\ mustPrec = [o \in OpsAll |-> {}]
  /\ orderOk = TRUE /\ promptOk = TRUE /\ bad = "ok"
  /\ lastSite = ""

RECURSIVE ScanFrom(_, _, _, _)
ScanFrom(q, op, nx, d) ==
  IF nx[q] # 0 /\ (IF Mut = "scanlt" THEN d[nx[q]] < d[op] ELSE d[nx[q]] <= d[op])
  THEN ScanFrom(nx[q], op, nx, d) ELSE q
\* thread_unsafe_event_loop::enqueue
Enq(op, h, nx, p, d) ==
  IF h = 0 \/ d[op] < d[h]
  THEN [head |-> op, next |-> [nx EXCEPT ![op] = h],
        pp |-> [o \in OpsAll |-> IF o = op THEN 0 ELSE IF o = h THEN op ELSE p[o]]]
  ELSE LET q == ScanFrom(h, op, nx, d) IN
       [head |-> h, next |-> [nx EXCEPT ![op] = nx[q], ![q] = op],
        pp |-> [o \in OpsAll |-> IF o = op THEN q ELSE IF nx[q] # 0 /\ o = nx[q] THEN op ELSE p[o]]]
RECURSIVE Chain(_, _)
Chain(o, n) == IF o = 0 \/ n = 0 THEN <<>> ELSE <<o>> \o Chain(next[o], n - 1)
TheChain == Chain(head, 5)
InChain(o) == \E k \in 1..Len(TheChain) : TheChain[k] = o

hist == <<origDue, armB, armE, stopB, fired, fireNow, fireCount, fireSeq, freed, mustPrec, orderOk, promptOk>>

\* cancel_callback::operator() on x followed (for arm) by enqueue; result = new (head,next,pp,due,bad,crash)
\* computed functionally so that arm = construct(+inline callback) ; enqueue is one step
Cancel(x, h, nx, p, d) ==
  IF now < d[x]
  THEN LET d2 == [d EXCEPT ![x] = now] IN
       IF p[x] = Indet THEN [head |-> h, next |-> nx, pp |-> p, due |-> d2, crash |-> TRUE]
       ELSE IF p[x] # Null
       THEN \* unlink, then requeue with the updated time (prevPtr_ is not cleared in between)
            LET h1 == IF p[x] = 0 THEN nx[x] ELSE h
                nx1 == IF p[x] = 0 THEN nx ELSE [nx EXCEPT ![p[x]] = nx[x]]
                p1 == [o \in OpsAll |-> IF nx[x] # 0 /\ o = nx[x] THEN p[x] ELSE p[o]]
                e == Enq(x, h1, nx1, p1, d2) IN
            IF Mut = "norequeue" THEN [head |-> h, next |-> nx, pp |-> p, due |-> d2, crash |-> FALSE]
            ELSE [head |-> e.head, next |-> e.next, pp |-> e.pp, due |-> d2, crash |-> FALSE]
       ELSE [head |-> h, next |-> nx, pp |-> p, due |-> d2, crash |-> FALSE]
  ELSE [head |-> h, next |-> nx, pp |-> p, due |-> d, crash |-> FALSE]

\* start() of timer operation x (ArmBegin .. ArmEnd)
Arm(x) ==
  LET d0 == IF scn.kind[x] = "after" THEN now + scn.due[x] ELSE scn.due[x]
      dd == [due EXCEPT ![x] = d0]
      c == IF stopFlag[x] THEN Cancel(x, head, next, pp, dd)       \* callback_.construct runs the callback inline
           ELSE [head |-> head, next |-> next, pp |-> pp, due |-> dd, crash |-> FALSE]
      e == Enq(x, c.head, c.next, c.pp, c.due) IN
  /\ origDue' = [origDue EXCEPT ![x] = d0]
  /\ armB' = [armB EXCEPT ![x] = TRUE]
  /\ IF c.crash
     THEN /\ bad' = "indet-read" /\ pc' = "crash" /\ due' = c.due
          /\ UNCHANGED <<head, next, pp, cbReg, armE, mustPrec>>
     ELSE /\ head' = e.head /\ next' = e.next /\ pp' = e.pp /\ due' = c.due
          /\ cbReg' = [cbReg EXCEPT ![x] = ~stopFlag[x]]
          /\ armE' = [armE EXCEPT ![x] = TRUE]
          /\ mustPrec' = [y \in OpsAll |->
                IF y = x THEN {z \in Ops : armE[z] /\ origDue[z] <= d0}
                ELSE IF y \in Ops /\ armB[y] /\ fired[y] = "none" /\ now < origDue[y] /\ d0 < origDue[y]
                     THEN mustPrec[y] \cup {x} ELSE mustPrec[y]]
          /\ bad' = (IF freed[x] THEN "touch-freed" ELSE bad)
          /\ UNCHANGED pc
  /\ UNCHANGED <<stopFlag, stopB, fired, fireNow, fireCount, fireSeq, freed, orderOk, promptOk>>
\* request_stop() on x's stop source
Stop(x) ==
  LET c == IF cbReg[x] THEN Cancel(x, head, next, pp, due)
           ELSE [head |-> head, next |-> next, pp |-> pp, due |-> due, crash |-> FALSE] IN
  /\ stopB' = [stopB EXCEPT ![x] = TRUE] /\ stopFlag' = [stopFlag EXCEPT ![x] = TRUE]
  /\ head' = c.head /\ next' = c.next /\ pp' = c.pp /\ due' = c.due
  /\ IF c.crash THEN bad' = "indet-read" /\ pc' = "crash"
     ELSE bad' = (IF cbReg[x] /\ freed[x] THEN "touch-freed" ELSE bad) /\ UNCHANGED pc
  /\ UNCHANGED <<cbReg, origDue, armB, armE, fired, fireNow, fireCount, fireSeq, freed, mustPrec, orderOk, promptOk>>

Prog ==
  /\ pc = "prog"
  /\ IF todo = <<>>
     THEN /\ pc' = "loop" /\ lastSite' = "ret"
          /\ UNCHANGED <<head, next, pp, due, cbReg, stopFlag, todo, hist, bad>>
     ELSE LET a == Head(todo) IN
          /\ todo' = Tail(todo) /\ lastSite' = a[1]
          /\ IF a[1] = "arm" THEN Arm(a[2]) ELSE Stop(a[2])
  /\ UNCHANGED <<scn, now, lastTime, cur>>

\* run_until_empty(): one loop iteration is  [refresh lastTime ; Sleep]? ; Pop ; Execute
EarlyBy == IF Mut = "early" THEN 1 ELSE 0
NeedSleep == head # 0 /\ due[head] > lastTime + EarlyBy /\ due[head] > now + EarlyBy
Sleep ==
  /\ pc = "loop" /\ NeedSleep
  /\ now' = due[head] - EarlyBy /\ lastTime' = now'
  \* CancelPrompt: time never passes while a started, stop-requested operation is uncompleted
  /\ promptOk' = (promptOk /\ \A x \in Ops : (armB[x] /\ stopB[x]) => fired[x] # "none")
  /\ lastSite' = "sleep"
  /\ UNCHANGED <<scn, head, next, pp, due, cbReg, stopFlag, pc, todo, cur,
                 origDue, armB, armE, stopB, fired, fireNow, fireCount, fireSeq, freed, mustPrec, orderOk, bad>>
Pop ==
  /\ pc = "loop" /\ ~NeedSleep
  /\ IF head = 0 THEN pc' = "done" /\ UNCHANGED <<head, pp, cur, lastTime>>
     ELSE /\ lastTime' = (IF due[head] > lastTime THEN now ELSE lastTime)
          /\ cur' = head /\ head' = next[head]
          /\ pp' = [o \in OpsAll |-> IF next[head] # 0 /\ o = next[head] THEN 0 ELSE pp[o]]   \* item->prevPtr_ stays stale
          /\ pc' = "popped"
  /\ lastSite' = "pop"
  /\ UNCHANGED <<scn, now, next, due, cbReg, stopFlag, todo, hist, bad>>
\* item->execute(): callback_.destruct(); set_done if stop requested else set_value; the receiver frees the
\* operation and then runs the scenario's on[item] script
Execute ==
  /\ pc = "popped"
  /\ LET x == cur
         ch == IF stopFlag[x] THEN "done" ELSE "value" IN
     /\ cbReg' = [cbReg EXCEPT ![x] = FALSE]
     /\ fired' = [fired EXCEPT ![x] = ch] /\ fireNow' = [fireNow EXCEPT ![x] = now]
     /\ fireCount' = [fireCount EXCEPT ![x] = @ + 1]
     /\ fireSeq' = Append(fireSeq, <<x, ch>>)
     /\ freed' = [freed EXCEPT ![x] = TRUE]
     /\ bad' = (IF freed[x] THEN "touch-freed" ELSE bad)
     /\ orderOk' = (orderOk /\ (ch = "value" => \A y \in mustPrec[x] : fired[y] # "none" \/ stopB[y]))
     /\ todo' = scn.on[x]
  /\ pc' = "prog" /\ lastSite' = "exec"
  /\ UNCHANGED <<scn, now, lastTime, head, next, pp, due, stopFlag, cur, origDue, armB, armE, stopB, mustPrec, promptOk>>

Next == Prog \/ Sleep \/ Pop \/ Execute
Spec == Init /\ [][Next]_<<vars, lastSite>>

\* ------------------------------------------------------------------ properties
ListConsistent ==
  LET c == TheChain IN
  /\ Len(c) <= 4
  /\ \A i, j \in 1..Len(c) : i # j => c[i] # c[j]
  /\ \A i \in 1..Len(c) : pp[c[i]] = (IF i = 1 THEN 0 ELSE c[i - 1])
  /\ \A i \in 2..Len(c) : due[c[i - 1]] <= due[c[i]]
NeverEarly == \A x \in OpsAll : fired[x] = "value" => fireNow[x] >= origDue[x]
DueOrder == orderOk
CancelPrompt == promptOk
ExactlyOnce ==
  /\ \A x \in OpsAll : fireCount[x] <= 1
  /\ pc = "done" => \A x \in Ops : armE[x] => fireCount[x] = 1
NoReferenceAfterCompletion ==
  /\ bad # "touch-freed"
  /\ \A x \in OpsAll : freed[x] => (~InChain(x) /\ ~cbReg[x])
NoIndeterminateRead == bad # "indet-read"
=============================================================================
