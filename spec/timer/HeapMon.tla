------------------------------ MODULE HeapMon ------------------------------
(***************************************************************************)
(* Monitor for unifex::intrusive_heap: after every insert / remove / pop   *)
(* on the real container the harness reports the list it finds by walking  *)
(* from top() through the Next links (`order`), whether every Prev link is *)
(* the exact inverse (`links`), and pop's result.  The monitor keeps the   *)
(* mathematical contents: a sequence sorted by key, a new item going behind*)
(* every item whose key is <= its own (so equal keys stay in insertion     *)
(* order), and requires order/membership/result to agree with it.          *)
(* Events: Reset | HeapOp(op, item, key, res, order, links)                *)
(***************************************************************************)
EXTENDS Integers, Sequences, TLC, TraceIO
VARIABLES l, ord, keys
vars == <<l, ord, keys>>
Init == l = 1 /\ ord = <<>> /\ keys = [i \in 1..8 |-> 0] /\ TrackInit
E == Log[l]
RECURSIVE Ins(_, _, _)
Ins(s, i, k) == IF s = <<>> THEN <<i>>
                ELSE IF k[Head(s)] <= k[i] THEN <<Head(s)>> \o Ins(Tail(s), i, k)
                ELSE <<i>> \o s
Has(s, i) == \E k \in 1..Len(s) : s[k] = i
AsSeq(t) == [k \in 1..Len(t) |-> t[k]]
Reset == /\ E.e = "Reset" /\ ord' = <<>> /\ keys' = [i \in 1..8 |-> 0]
Insert == /\ E.e = "HeapOp" /\ E.op = "insert" /\ ~Has(ord, E.item)
          /\ keys' = [keys EXCEPT ![E.item] = E.key]
          /\ ord' = Ins(ord, E.item, keys')
          /\ AsSeq(E.order) = ord' /\ E.links = 1
Remove == /\ E.e = "HeapOp" /\ E.op = "remove" /\ Has(ord, E.item)
          /\ ord' = SelectSeq(ord, LAMBDA x : x # E.item)
          /\ AsSeq(E.order) = ord' /\ E.links = 1 /\ UNCHANGED keys
Pop == /\ E.e = "HeapOp" /\ E.op = "pop" /\ ord # <<>>
       /\ E.res = Head(ord) /\ ord' = Tail(ord)
       /\ AsSeq(E.order) = ord' /\ E.links = 1 /\ UNCHANGED keys
Next == l <= Len(Log) /\ l' = l + 1 /\ (Reset \/ Insert \/ Remove \/ Pop)
Spec == Init /\ [][Next]_vars
Track == TrackAt(l, TRUE)
Report == ReportTrace
=============================================================================
