SPECIFICATION Spec
CONSTANTS Scenarios <- Scn  MaxNow <- MaxNowC  FreeTick <- FreeTickC  Mut <- MutC
INVARIANTS ListConsistent NeverEarly DueOrder CancelPrompt ExactlyOnce NoOverdueAtQuiescence NoReferenceAfterCompletion
VIEW View
ACTION_CONSTRAINT EdgeLog
CHECK_DEADLOCK FALSE
