------------------------------ MODULE ClockMon ------------------------------
(***************************************************************************)
(* Monitor for monotonic_clock::time_point arithmetic (C07: "time_point    *)
(* arithmetic is exact and totally ordered").  One event per call of a real*)
(* operator:                                                               *)
(*   ClockOp op=from  s q r  -> rs rns   from_seconds_and_nanoseconds(s, q*10^9 + r) *)
(*   ClockOp op=add|sub  as ans d -> rs rns        tp += / -= d ticks (100 ns)       *)
(*   ClockOp op=addns|subns  as ans nq nr -> rs rns   tp += / -= nanoseconds(nq*10^9 + nr) *)
(*   ClockOp op=cmp  as ans bs bns -> diff lt gt le ge eq ne                         *)
(* Rules (representation-independent, see ClockMath):                      *)
(*   ClockCanonical  every produced time_point has |ns| < 10^9, sign-consistent with seconds *)
(*   Exact           the result denotes exactly the instant operand (+/-) d ticks;            *)
(*                   a - b is within one tick of the true difference, exact if that is whole  *)
(*   TotalOrder      <, >, <=, >=, ==, != agree with the order of the denoted instants        *)
(***************************************************************************)
EXTENDS ClockMath, Sequences, TLC, TraceIO
VARIABLES l
Init == l = 1 /\ TrackInit
E == Log[l]
Bool(x) == x = 1
Small(x) == -2000000000 < x /\ x < 2000000000
OkFrom == LET y == <<E.rs, E.rns>> IN Small(E.rs) /\ Small(E.rns) /\ Canon(y) /\ SameInstant(<<E.s + E.q, E.r>>, y)
OkAdd(sign) == LET y == <<E.rs, E.rns>> a == <<E.as, E.ans>> IN
               Small(E.rs) /\ Small(E.rns) /\ Canon(y) /\ SameInstant(PlusTicks(a, sign * E.d), y)
\* tp +/- a std::chrono::nanoseconds duration given as nq * 10^9 + nr
OkAddNs(sign) == LET y == <<E.rs, E.rns>> IN
               Small(E.rs) /\ Small(E.rns) /\ Canon(y) /\ SameInstant(<<E.as + sign * E.nq, E.ans + sign * E.nr>>, y)
OkCmp == LET a == <<E.as, E.ans>> b == <<E.bs, E.bns>>
             e == E.diff - (a[1] - b[1]) * K
             lt == Before(a, b) gt == Before(b, a) IN
         /\ -2 * K < e /\ e < 2 * K
         /\ LET err == e * U - (a[2] - b[2]) IN -U < err /\ err < U
         /\ Bool(E.lt) = lt /\ Bool(E.gt) = gt /\ Bool(E.le) = ~gt /\ Bool(E.ge) = ~lt
         /\ Bool(E.eq) = SameInstant(a, b) /\ Bool(E.ne) = ~SameInstant(a, b)
         /\ E.lt \in {0, 1} /\ E.gt \in {0, 1} /\ E.le \in {0, 1} /\ E.ge \in {0, 1} /\ E.eq \in {0, 1} /\ E.ne \in {0, 1}
Step == /\ l <= Len(Log) /\ l' = l + 1
        /\ \/ E.e = "Reset"
           \/ E.e = "ClockOp" /\ E.op = "from" /\ OkFrom
           \/ E.e = "ClockOp" /\ E.op = "add" /\ OkAdd(1)
           \/ E.e = "ClockOp" /\ E.op = "sub" /\ OkAdd(-1)
           \/ E.e = "ClockOp" /\ E.op = "addns" /\ OkAddNs(1)
           \/ E.e = "ClockOp" /\ E.op = "subns" /\ OkAddNs(-1)
           \/ E.e = "ClockOp" /\ E.op = "cmp" /\ OkCmp
Spec == Init /\ [][Step]_l
Track == TrackAt(l, TRUE)
Report == ReportTrace
=============================================================================
