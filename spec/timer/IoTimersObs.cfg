SPECIFICATION Spec
CONSTANTS Scenarios <- Scn  MaxNow <- MaxNowC  FreeTick <- FreeTickC  Mut <- MutC
INVARIANTS HeapSorted NeverEarly DueOrder CancelPrompt ExactlyOnce NoOverdueAtQuiescence NoReferenceAfterCompletion
VIEW View
CONSTRAINT ObsLog
CHECK_DEADLOCK FALSE
