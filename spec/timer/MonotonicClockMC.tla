---- MODULE MonotonicClockMC ----
(* exhaustive instance at a small base: B = 12 ns per second, U = 3 ns per tick (K = 4) *)
EXTENDS MonotonicClock, IOUtils
BC == 12
UC == 3
SR == -3..3
CanonTps == {tp \in SR \X ((1 - BC)..(BC - 1)) : ~(tp[1] < 0 /\ tp[2] > 0) /\ ~(tp[1] > 0 /\ tp[2] < 0)}
DR == -9..9
CasesC == [op : {"from"}, s : SR, q : -3..3, r : (1 - BC)..(BC - 1)]
          \cup [op : {"add", "sub"}, a : CanonTps, d : DR]
          \cup [op : {"cmp"}, a : CanonTps, b : CanonTps]
NormOffC == IF IOEnv.NORMOFF = "1" THEN 1 ELSE 0
====
