SPECIFICATION Spec
CONSTANTS B <- BC  U <- UC  Cases <- CasesC  UseVal = FALSE  NormOff = 0
INVARIANTS ClockCanonical AddSubInverse
CONSTRAINT Export
CHECK_DEADLOCK FALSE
