SPECIFICATION Spec
CONSTANTS B <- BC  U <- UC  Cases <- CasesC  UseVal = TRUE  NormOff <- NormOffC
INVARIANTS ClockCanonical Exact TotalOrder AddSubInverse MonitorMathSound
CHECK_DEADLOCK FALSE
