------------------------- MODULE TimedSingleThread -------------------------
(***************************************************************************)
(* Implementation-shaped specification of unifex::timed_single_thread_     *)
(* context (include/unifex/timed_single_thread_context.hpp,                *)
(* source/timed_single_thread_context.cpp).                                *)
(*                                                                         *)
(* State = abstract content of the real fields: head_, and per operation   *)
(* next_, prevNextPtr_ (encoded: -1 = nullptr i.e. "dequeued", 0 = &head_, *)
(* q > 0 = &q->next_), dueTime_; the timer thread's position in run() and  *)
(* the condition variable (waiting / timed deadline / notified); the stop  *)
(* source of each operation abstracted to (stop flag, cancel callback      *)
(* registered, callback executing) -- the protocol behind that abstraction *)
(* is property C03's subject.                                              *)
(* One action per mutex-protected block (= stretch between two schedule    *)
(* points of the conformance harness: pthread_mutex_lock, _unlock and      *)
(* pthread_cond_(clock)wait seams).                                        *)
(* Threads: 0 = the context's timer thread (run()), 1 and 3 = clients      *)
(* starting their operations (scn.owner) in index order (schedule_at /     *)
(* schedule_after; their start() calls may overlap), 2 = remote thread B   *)
(* issuing one request_stop() on one operation's stop source.              *)
(* `now` is the abstract steady_clock (ticks); Tick is free (FreeTick) or  *)
(* happens only when no thread can move (the harness's clock).             *)
(***************************************************************************)
EXTENDS Integers, Sequences, FiniteSets, TLC

CONSTANTS Scenarios,  \* records [id, at, due, kind, stop, stopAt]; at/due/kind sequences of equal length <= 4
          MaxNow,     \* clock bound (must exceed every due / arrival time of the scenarios)
          FreeTick,   \* number of ticks that may happen while some thread can still move (0: time passes only at quiescence)
          Mut         \* "none" = the code as written; other values = seeded design mutations (spec self-test)

OpsAll == 1..4
Null == -1

VARIABLES scn, now, fticks,
          head, next, pnp, due,          \* head_, next_, prevNextPtr_, dueTime_
          cbReg,                         \* [op -> BOOLEAN] cancelCallback_ constructed and registered
          cbRun,                         \* op whose cancel callback is executing on thread B (0 = none)
          stopFlag,                      \* [op -> BOOLEAN] stop requested on the op's stop source
          apc, ai,                       \* arming clients: [Armers -> pc], [Armers -> current op, 0 = none]
          bpc,                           \* remote stopper B
          tpc, tcur, ttimed, tdl, tsig,  \* timer thread: pc, dequeued task, wait_until?, deadline, notified
          \* ---- history variables (properties only)
          origDue, armB, armE, stopB, stopE, fired, fireNow, fireCount, fireSeq, freed, mustPrec, orderOk, bad,
          \* ---- export only (hidden by VIEW)
          lastT, lastSite
vars == <<scn, now, fticks, head, next, pnp, due, cbReg, cbRun, stopFlag, apc, ai, bpc, tpc, tcur, ttimed, tdl, tsig,
          origDue, armB, armE, stopB, stopE, fired, fireNow, fireCount, fireSeq, freed, mustPrec, orderOk, bad>>
View == vars

N == Len(scn.due)
Ops == 1..N
S == scn.stop
Armers == {1, 3}
\* next operation (index >= i) that client a starts; 0 = none.  scn.owner[i] \in Armers
RECURSIVE NextOwned(_, _)
NextOwned(a, i) == IF i > N THEN 0 ELSE IF scn.owner[i] = a THEN i ELSE NextOwned(a, i + 1)

Init ==
  /\ scn \in Scenarios
  /\ now = 0 /\ fticks = 0 /\ head = 0
  /\ next = [o \in OpsAll |-> 0] /\ pnp = [o \in OpsAll |-> Null] /\ due = [o \in OpsAll |-> 0]
  /\ cbReg = [o \in OpsAll |-> FALSE] /\ cbRun = 0 /\ stopFlag = [o \in OpsAll |-> FALSE]
  /\ ai = [a \in Armers |-> NextOwned(a, 1)]
  /\ apc = [a \in Armers |-> IF NextOwned(a, 1) = 0 THEN "done" ELSE "sleep"]
  /\ bpc = IF scn.stop = 0 THEN "done" ELSE "sleep"
  /\ tpc = "wait" /\ tcur = 0 /\ ttimed = FALSE /\ tdl = 0 /\ tsig = FALSE
  /\ origDue = [o \in OpsAll |-> 0]
  /\ armB = [o \in OpsAll |-> FALSE] /\ armE = [o \in OpsAll |-> FALSE]
  /\ stopB = [o \in OpsAll |-> FALSE] /\ stopE = [o \in OpsAll |-> FALSE]
  /\ fired = [o \in OpsAll |-> "none"] /\ fireNow = [o \in OpsAll |-> 0] /\ fireCount = [o \in OpsAll |-> 0]
  /\ fireSeq = <<>> /\ freed = [o \in OpsAll |-> FALSE]
  /\ mustPrec = [o \in OpsAll |-> {}] /\ orderOk = TRUE /\ bad = FALSE
  /\ lastT = 9 /\ lastSite = ""

\* ------------------------------------------------------------------ the sorted intrusive list
\* enqueue(): `task->dueTime_ < head_->dueTime_` -> head insert + notify, else scan while next->due <= task->due
RECURSIVE ScanFrom(_, _, _, _)
ScanFrom(q, op, nx, d) ==
  IF nx[q] # 0 /\ (IF Mut = "scanlt" THEN d[nx[q]] < d[op] ELSE d[nx[q]] <= d[op])
  THEN ScanFrom(nx[q], op, nx, d) ELSE q
Enq(op, h, nx, pp, d) ==
  IF h = 0 \/ d[op] < d[h]
  THEN [head |-> op, next |-> [nx EXCEPT ![op] = h],
        pnp |-> [p \in OpsAll |-> IF p = op THEN 0 ELSE IF p = h THEN op ELSE pp[p]],
        notify |-> (Mut # "nonotify")]
  ELSE LET q == ScanFrom(h, op, nx, d) IN
       [head |-> h, next |-> [nx EXCEPT ![op] = nx[q], ![q] = op],
        pnp |-> [p \in OpsAll |-> IF p = op THEN q ELSE IF nx[q] # 0 /\ p = nx[q] THEN op ELSE pp[p]],
        notify |-> FALSE]
DoEnq(op) ==
  LET e == Enq(op, head, next, pnp, due) IN
  /\ head' = e.head /\ next' = e.next /\ pnp' = e.pnp
  /\ tsig' = IF e.notify /\ tpc = "wait" THEN TRUE ELSE tsig     \* notify_one without a waiter is lost
  /\ bad' = (bad \/ freed[op])

RECURSIVE Chain(_, _)
Chain(o, n) == IF o = 0 \/ n = 0 THEN <<>> ELSE <<o>> \o Chain(next[o], n - 1)
TheChain == Chain(head, 5)
InChain(o) == \E k \in 1..Len(TheChain) : TheChain[k] = o

\* ------------------------------------------------------------------ enabledness / quiescence
AEnOf(a) == (apc[a] \notin {"sleep", "done"}) \/ (apc[a] = "sleep" /\ now >= scn.at[ai[a]])
AEn == \E a \in Armers : AEnOf(a)
BEn == (bpc \notin {"sleep", "done"}) \/ (bpc = "sleep" /\ now >= scn.stopAt)
TWake == tpc = "wait" /\ (tsig \/ (ttimed /\ now >= tdl))
TEn == tpc = "relock" \/ (tpc = "exec" /\ cbRun # tcur) \/ TWake
Quiescent == ~AEn /\ ~BEn /\ ~TEn
AllDone == (\A a \in Armers : apc[a] = "done") /\ bpc = "done" /\ tpc = "wait" /\ ~TWake /\ \A x \in Ops : fired[x] # "none"

hist == <<origDue, armB, armE, stopB, stopE, fired, fireNow, fireCount, fireSeq, freed, mustPrec, orderOk>>
listv == <<head, next, pnp>>
tv == <<tpc, tcur, ttimed, tdl>>

\* ------------------------------------------------------------------ arming clients (threads 1 and 3): start() of their operations
\* at_op::start(): cancelCallback_.construct(token, cancel_callback{this}); context_->enqueue(this)
\* after_op::start(): dueTime_ = now() + duration_ first.
AConstruct(a) ==
  /\ apc[a] = "sleep" /\ ai[a] # 0 /\ now >= scn.at[ai[a]]
  /\ LET x == ai[a]
         d == IF scn.kind[x] = "after" THEN now + scn.due[x] ELSE scn.due[x] IN
     /\ due' = [due EXCEPT ![x] = d] /\ origDue' = [origDue EXCEPT ![x] = d]
     /\ armB' = [armB EXCEPT ![x] = TRUE]
     /\ mustPrec' = [mustPrec EXCEPT ![x] = {y \in Ops : armE[y] /\ origDue[y] <= d}]
     /\ IF stopFlag[x]
        THEN /\ apc' = [apc EXCEPT ![a] = "icb"] /\ UNCHANGED cbReg   \* stop already requested: callback runs inline in construct
        ELSE /\ apc' = [apc EXCEPT ![a] = "enq"] /\ cbReg' = [cbReg EXCEPT ![x] = TRUE]
  /\ lastT' = a /\ lastSite' = "timer.sleep"
  /\ UNCHANGED <<scn, now, fticks, listv, cbRun, stopFlag, ai, bpc, tv, tsig,
                 armE, stopB, stopE, fired, fireNow, fireCount, fireSeq, freed, orderOk, bad>>

\* the body of cancel_callback::operator() under the mutex, run by thread `who` (1, 3: inline in construct; 2: request_stop)
SetPc(who, pc) == IF who = 2 THEN bpc' = pc /\ UNCHANGED apc ELSE apc' = [apc EXCEPT ![who] = pc] /\ UNCHANGED bpc
CbBody(x, requeuePc, endPc, who) ==
  /\ bad' = (bad \/ freed[x])
  /\ IF now < due[x] /\ Mut # "nocancelrewrite"
     THEN /\ due' = [due EXCEPT ![x] = now]
          /\ IF pnp[x] # Null
             THEN \* still queued: remove; requeued afterwards outside the lock
                  /\ head' = IF pnp[x] = 0 THEN next[x] ELSE head
                  /\ next' = IF pnp[x] = 0 THEN next ELSE [next EXCEPT ![pnp[x]] = next[x]]
                  /\ pnp' = [p \in OpsAll |-> IF p = x THEN Null
                                               ELSE IF next[x] # 0 /\ p = next[x] THEN pnp[x] ELSE pnp[p]]
                  /\ SetPc(who, requeuePc)
             ELSE /\ UNCHANGED listv
                  /\ SetPc(who, endPc)
     ELSE /\ UNCHANGED <<due, listv>>
          /\ SetPc(who, endPc)

AIcb(a) ==
  /\ apc[a] = "icb"
  /\ CbBody(ai[a], "icbEnd", "icbEnd", a)      \* prevNextPtr_ is nullptr before the first enqueue: never requeues
  /\ lastT' = a /\ lastSite' = "timer.lock"
  /\ UNCHANGED <<scn, now, fticks, cbReg, cbRun, stopFlag, ai, tv, tsig, hist>>
AIcbEnd(a) ==
  /\ apc[a] = "icbEnd" /\ apc' = [apc EXCEPT ![a] = "enq"]
  /\ lastT' = a /\ lastSite' = "timer.unlock"
  /\ UNCHANGED <<scn, now, fticks, listv, due, cbReg, cbRun, stopFlag, ai, bpc, tv, tsig, hist, bad>>
AEnq(a) ==
  /\ apc[a] = "enq" /\ DoEnq(ai[a]) /\ apc' = [apc EXCEPT ![a] = "armEnd"]
  /\ lastT' = a /\ lastSite' = "timer.lock"
  /\ UNCHANGED <<scn, now, fticks, due, cbReg, cbRun, stopFlag, ai, bpc, tv, hist>>
AArmEnd(a) ==
  /\ apc[a] = "armEnd"
  /\ LET me == ai[a] IN
     /\ armE' = [armE EXCEPT ![me] = TRUE]
     \* ordering obligations created by the end of this submission (see TimerMon): operations already submitted
     \* (possibly still inside their own start() on the other client) and not yet due must not value-complete
     \* before this one if this one is due strictly earlier
     /\ mustPrec' = [x \in OpsAll |->
           IF x \in Ops /\ x # me /\ armB[x] /\ fired[x] = "none" /\ now < origDue[x] /\ origDue[me] < origDue[x]
           THEN mustPrec[x] \cup {me} ELSE mustPrec[x]]
     /\ ai' = [ai EXCEPT ![a] = NextOwned(a, me + 1)]
     /\ apc' = [apc EXCEPT ![a] = IF NextOwned(a, me + 1) = 0 THEN "done" ELSE "sleep"]
  /\ lastT' = a /\ lastSite' = "timer.unlock"
  /\ UNCHANGED <<scn, now, fticks, listv, due, cbReg, cbRun, stopFlag, bpc, tv, tsig,
                 origDue, armB, stopB, stopE, fired, fireNow, fireCount, fireSeq, freed, orderOk, bad>>

\* ------------------------------------------------------------------ remote stopper B: request_stop() on op S
BReq ==
  /\ bpc = "sleep" /\ now >= scn.stopAt
  /\ stopB' = [stopB EXCEPT ![S] = TRUE] /\ stopFlag' = [stopFlag EXCEPT ![S] = TRUE]
  /\ IF cbReg[S]
     THEN /\ cbRun' = S /\ bpc' = "cb" /\ UNCHANGED stopE
     ELSE /\ UNCHANGED cbRun /\ bpc' = "done" /\ stopE' = [stopE EXCEPT ![S] = TRUE]
  /\ lastT' = 2 /\ lastSite' = "timer.sleep"
  /\ UNCHANGED <<scn, now, fticks, listv, due, cbReg, apc, ai, tv, tsig,
                 origDue, armB, armE, fired, fireNow, fireCount, fireSeq, freed, mustPrec, orderOk, bad>>
BCb ==
  /\ bpc = "cb"
  /\ CbBody(S, "cbU", "end", 2)
  /\ lastT' = 2 /\ lastSite' = "timer.lock"
  /\ UNCHANGED <<scn, now, fticks, cbReg, cbRun, stopFlag, ai, tv, tsig, hist>>
BCbU ==
  /\ bpc = "cbU" /\ bpc' = (IF Mut = "norequeue" THEN "end" ELSE "requeue")
  /\ lastT' = 2 /\ lastSite' = "timer.unlock"
  /\ UNCHANGED <<scn, now, fticks, listv, due, cbReg, cbRun, stopFlag, apc, ai, tv, tsig, hist, bad>>
BRequeue ==
  /\ bpc = "requeue" /\ DoEnq(S) /\ bpc' = "end"
  /\ lastT' = 2 /\ lastSite' = "timer.lock"
  /\ UNCHANGED <<scn, now, fticks, due, cbReg, cbRun, stopFlag, apc, ai, tv, hist>>
BEnd ==
  /\ bpc = "end" /\ bpc' = "done" /\ cbRun' = 0
  /\ stopE' = [stopE EXCEPT ![S] = TRUE]
  /\ lastT' = 2 /\ lastSite' = "timer.unlock"
  /\ UNCHANGED <<scn, now, fticks, listv, due, cbReg, stopFlag, apc, ai, tv, tsig,
                 origDue, armB, armE, stopB, fired, fireNow, fireCount, fireSeq, freed, mustPrec, orderOk, bad>>

\* ------------------------------------------------------------------ the timer thread: run()
\* one evaluation of the loop body under the mutex
TopBody ==
  IF head # 0
  THEN IF due[head] <= now + (IF Mut = "early" THEN 1 ELSE 0)
       THEN \* ready: dequeue, flag as dequeued, unlock
            /\ tcur' = head /\ tpc' = "exec"
            /\ head' = next[head]
            /\ pnp' = [p \in OpsAll |-> IF p = head THEN Null ELSE IF next[head] # 0 /\ p = next[head] THEN 0 ELSE pnp[p]]
            /\ UNCHANGED <<next, ttimed, tdl, tsig>>
       ELSE /\ tpc' = "wait" /\ ttimed' = TRUE /\ tdl' = due[head] /\ tsig' = FALSE   \* cv_.wait_until(lock, nextDueTime)
            /\ UNCHANGED <<listv, tcur>>
  ELSE /\ tpc' = "wait" /\ ttimed' = FALSE /\ tsig' = FALSE /\ UNCHANGED <<listv, tcur, tdl>>  \* cv_.wait(lock)
TWakeTop ==
  /\ TWake /\ TopBody
  /\ lastT' = 0 /\ lastSite' = "timer.cvwait"
  /\ UNCHANGED <<scn, now, fticks, due, cbReg, cbRun, stopFlag, apc, ai, bpc, hist, bad>>
TTop ==
  /\ tpc = "relock" /\ TopBody
  /\ lastT' = 0 /\ lastSite' = "timer.lock"
  /\ UNCHANGED <<scn, now, fticks, due, cbReg, cbRun, stopFlag, apc, ai, bpc, hist, bad>>
\* task->execute(): cancelCallback_.destruct() (waits for a callback executing on another thread), then
\* set_done if stop was requested else set_value; the harness receiver frees the operation state
TExec ==
  /\ tpc = "exec" /\ cbRun # tcur
  /\ LET x == tcur
         ch == IF stopFlag[x] THEN "done" ELSE "value" IN
     /\ cbReg' = [cbReg EXCEPT ![x] = FALSE]
     /\ fired' = [fired EXCEPT ![x] = ch] /\ fireNow' = [fireNow EXCEPT ![x] = now]
     /\ fireCount' = [fireCount EXCEPT ![x] = @ + 1]
     /\ fireSeq' = Append(fireSeq, <<x, ch>>)
     /\ freed' = [freed EXCEPT ![x] = TRUE]
     /\ bad' = (bad \/ freed[x])
     /\ orderOk' = (orderOk /\ (ch = "value" => \A y \in mustPrec[x] : fired[y] # "none" \/ stopB[y]))
  /\ tpc' = "relock"
  /\ lastT' = 0 /\ lastSite' = "timer.unlock"
  /\ UNCHANGED <<scn, now, fticks, listv, due, cbRun, stopFlag, apc, ai, bpc, tcur, ttimed, tdl, tsig,
                 origDue, armB, armE, stopB, stopE, mustPrec>>

Tick ==
  /\ now < MaxNow /\ ~AllDone /\ (Quiescent \/ fticks < FreeTick)
  /\ now' = now + 1 /\ fticks' = (IF Quiescent THEN fticks ELSE fticks + 1)
  /\ lastT' = -1 /\ lastSite' = "tick"
  /\ UNCHANGED <<scn, listv, due, cbReg, cbRun, stopFlag, apc, ai, bpc, tv, tsig, hist, bad>>

Next == (\E a \in Armers : AConstruct(a) \/ AIcb(a) \/ AIcbEnd(a) \/ AEnq(a) \/ AArmEnd(a)) \/ BReq \/ BCb \/ BCbU \/ BRequeue \/ BEnd
        \/ TWakeTop \/ TTop \/ TExec \/ Tick
Spec == Init /\ [][Next]_<<vars, lastT, lastSite>>

\* ------------------------------------------------------------------ properties (C07 for this context)
\* structural: the list reachable from head_ is duplicate-free, sorted, back-links exact, non-members flagged dequeued
ListConsistent ==
  LET c == TheChain IN
  /\ Len(c) <= 4
  /\ \A i, j \in 1..Len(c) : i # j => c[i] # c[j]
  /\ \A i \in 1..Len(c) : pnp[c[i]] = (IF i = 1 THEN 0 ELSE c[i - 1])
  /\ \A i \in 2..Len(c) : due[c[i - 1]] <= due[c[i]]
  /\ \A o \in OpsAll : ~InChain(o) => pnp[o] = Null
NeverEarly == \A x \in OpsAll : fired[x] = "value" => fireNow[x] >= origDue[x]
DueOrder == orderOk
\* an operation whose stop request has returned and whose start() has returned has completed whenever nothing can
\* move without time passing (= it does not wait for its due time)
CancelPrompt == Quiescent => \A x \in Ops : (stopE[x] /\ armE[x]) => fired[x] # "none"
ExactlyOnce ==
  /\ \A x \in OpsAll : fireCount[x] <= 1
  /\ (Quiescent /\ now = MaxNow) => \A x \in Ops : (armE[x] /\ origDue[x] <= MaxNow) => fireCount[x] = 1
NoOverdueAtQuiescence == Quiescent => \A x \in Ops : (armE[x] /\ fired[x] = "none") => now < due[x]
NoReferenceAfterCompletion ==
  /\ ~bad                                                     \* no field of a completed (freed) operation is touched
  /\ \A x \in OpsAll : freed[x] => (~InChain(x) /\ ~cbReg[x] /\ cbRun # x)
  /\ \A x \in OpsAll : (InChain(x) /\ pnp[x] > 0) => ~freed[pnp[x]]
=============================================================================
