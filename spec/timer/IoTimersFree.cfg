SPECIFICATION Spec
CONSTANTS Scenarios <- Scn  MaxNow <- MaxNowC  FreeTick <- FreeTickC  Mut <- MutC
INVARIANTS HeapSorted NeverEarly ExactlyOnce NoReferenceAfterCompletion
VIEW View
CHECK_DEADLOCK FALSE
