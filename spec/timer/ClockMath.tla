------------------------------ MODULE ClockMath ------------------------------
(***************************************************************************)
(* Pure operators shared by MonotonicClock (transcription + properties)    *)
(* and ClockMon (monitor).  A time_point is a pair <<seconds, nanoseconds>>*)
(* B = nanoseconds per second (10^9 in the code), U = nanoseconds per      *)
(* duration tick (monotonic_clock::duration is 100 ns), K = B / U.         *)
(***************************************************************************)
EXTENDS Integers
CONSTANTS B, U
K == B \div U
\* C++ integer division truncates toward zero
TruncDiv(a, b) == IF a >= 0 THEN a \div b ELSE -((-a) \div b)

\* ---- transcription of include/unifex/linux/monotonic_clock.hpp ------------------------------------
\* time_point::normalize();  NormOff is 0 in the code (a seeded mutation of the spec uses 1)
NormalizeM(s, ns, off) ==
  LET extra == TruncDiv(ns - off, B)
      s1 == s + extra
      n1 == ns - extra * B IN
  IF s1 < 0 /\ n1 > 0 THEN <<s1 + 1, n1 - B>>
  ELSE IF s1 > 0 /\ n1 < 0 THEN <<s1 - 1, n1 + B>>
  ELSE <<s1, n1>>
Normalize(s, ns) == NormalizeM(s, ns, 0)
FromSN(s, ns) == Normalize(s, ns)                       \* from_seconds_and_nanoseconds
\* operator+= / -= with a monotonic_clock::duration of d ticks:
\*   wholeSeconds = duration_cast<seconds>(d) (truncating), remainderNanoseconds = duration_cast<ns>(d - wholeSeconds)
Whole(d) == TruncDiv(d, K)
RemNs(d) == (d - Whole(d) * K) * U
AddDur(tp, d) == Normalize(tp[1] + Whole(d), tp[2] + RemNs(d))
SubDur(tp, d) == Normalize(tp[1] - Whole(d), tp[2] - RemNs(d))
\* operator-(time_point, time_point) -> duration ticks
Diff(a, b) == (a[1] - b[1]) * K + TruncDiv(a[2] - b[2], U)
Less(a, b) == IF a[1] = b[1] THEN a[2] < b[2] ELSE a[1] < b[1]     \* operator<
Equal(a, b) == a[1] = b[1] /\ a[2] = b[2]                          \* operator==

\* ---- representation-independent mathematics (used by the monitor; never multiplies seconds by B) --
\* canonical form of the code: |ns| < B and seconds/nanoseconds never of opposite sign
Canon(tp) == /\ -B < tp[2] /\ tp[2] < B
             /\ ~(tp[1] < 0 /\ tp[2] > 0) /\ ~(tp[1] > 0 /\ tp[2] < 0)
\* floor form: the unique <<s, r>> with 0 <= r < B denoting the same instant (TLA+ \div and % are floor-based)
Floor(tp) == <<tp[1] + (tp[2] \div B), tp[2] % B>>
SameInstant(x, y) == Floor(x) = Floor(y)
Before(x, y) == LET fx == Floor(x) fy == Floor(y) IN fx[1] < fy[1] \/ (fx[1] = fy[1] /\ fx[2] < fy[2])
\* the instant tp + d ticks, as an (unnormalised) pair, using floor split of d
PlusTicks(tp, d) == <<tp[1] + (d \div K), tp[2] + (d % K) * U>>
=============================================================================
