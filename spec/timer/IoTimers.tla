------------------------------ MODULE IoTimers ------------------------------
(***************************************************************************)
(* Implementation-shaped specification of schedule_at / schedule_after on  *)
(* io_epoll_context and io_uring_context                                   *)
(* (include/unifex/linux/io_{epoll,uring}_context.hpp schedule_at_sender:: *)
(* operation, source/linux/io_{epoll,uring}_context.cpp run_impl,          *)
(* schedule_at_impl, remove_timer, update_timers).                         *)
(*                                                                         *)
(* State: timers_ (the intrusive_heap, here its mathematical content: a    *)
(* stably sorted sequence -- the pointer level is IntrusiveHeap.tla), per  *)
(* operation state_ (bit 1 timer_elapsed_flag, bit 2 cancel_pending_flag), *)
(* execute_, queue membership (enqueued_), localQueue_, remoteQueue_ with  *)
(* its inactive mark and the eventfd wake-up, timersAreDirty_,             *)
(* currentDueTime_, the kernel timer (timerfd / IORING_OP_TIMEOUT as one   *)
(* re-armable absolute timer), and the position of the I/O thread in       *)
(* run_impl.  The stop source of each operation is abstracted to (stop     *)
(* flag, callback registered, callback executing) as in TimedSingleThread. *)
(* Threads: the I/O thread; client A (remote start() of the operations     *)
(* with arm = 0, in index order); remote stopper B (request_stop on op S;  *)
(* the fetch_add election against update_timers is two separate steps on   *)
(* either side).  Completions run scripts on[x] on the I/O thread: local   *)
(* start() of further operations and local request_stop().                 *)
(* Time passes only when nothing can move (the harness records an          *)
(* execution only if every submission was inserted before the next due     *)
(* time), plus up to FreeTick ticks at arbitrary points.                   *)
(***************************************************************************)
EXTENDS Integers, Sequences, FiniteSets, TLC
CONSTANTS Scenarios,   \* [id, due, arm, on, stop, stopAt]
          MaxNow, FreeTick,
          Mut          \* "none" | seeded design mutations (spec self-test)
OpsAll == 1..4
None == -100
VARIABLES scn, now, fticks,
          heap, state, exe, where, localQ, remoteQ, batch,
          inactive, rsub, evRemote, evTimer, ktimer, dirty, curDue,
          iopc, ret, unow, icur, todo,
          cbReg, cbRun, stopFlag,
          ai, bpc,
          armB, armE, stopB, stopE, fired, fireNow, fireCount, fireSeq, freed, mustPrec, orderOk, bad,
          lastT, lastSite
ctxv == <<heap, state, exe, where, localQ, remoteQ, batch, inactive, rsub, evRemote, evTimer, ktimer, dirty, curDue>>
iov == <<iopc, ret, unow, icur, todo>>
stopv == <<cbReg, cbRun, stopFlag>>
hist == <<armB, armE, stopB, stopE, fired, fireNow, fireCount, fireSeq, freed, mustPrec, orderOk>>
vars == <<scn, now, fticks, ctxv, iov, stopv, ai, bpc, hist, bad>>
View == vars
N == Len(scn.due)
Ops == 1..N
S == scn.stop
due == scn.due
Elapsed(x) == state[x] % 2 = 1
CancelPending(x) == state[x] >= 2

Init ==
  /\ scn \in Scenarios
  /\ now = 0 /\ fticks = 0
  /\ heap = <<>> /\ state = [o \in OpsAll |-> 0] /\ exe = [o \in OpsAll |-> "none"] /\ where = [o \in OpsAll |-> "none"]
  /\ localQ = <<>> /\ remoteQ = <<>> /\ batch = <<>>
  /\ inactive = FALSE /\ rsub = FALSE /\ evRemote = FALSE /\ evTimer = FALSE /\ ktimer = None /\ dirty = FALSE /\ curDue = None
  /\ iopc = "top" /\ ret = "run" /\ unow = 0 /\ icur = 0 /\ todo = <<>>
  /\ cbReg = [o \in OpsAll |-> FALSE] /\ cbRun = 0 /\ stopFlag = [o \in OpsAll |-> FALSE]
  /\ ai = 1
  /\ bpc = IF scn.stop = 0 \/ scn.stopAt = None THEN "done" ELSE "sleep"
  /\ armB = [o \in OpsAll |-> FALSE] /\ armE = [o \in OpsAll |-> FALSE]
  /\ stopB = [o \in OpsAll |-> FALSE] /\ stopE = [o \in OpsAll |-> FALSE]
  /\ fired = [o \in OpsAll |-> "none"] /\ fireNow = [o \in OpsAll |-> 0] /\ fireCount = [o \in OpsAll |-> 0]
  /\ fireSeq = <<>> /\ freed = [o \in OpsAll |-> FALSE] /\ mustPrec = [o \in OpsAll |-> {}]
  /\ orderOk = TRUE /\ bad = "ok"
  /\ lastT = 9 /\ lastSite = ""

\* ------------------------------------------------------------------ helpers
RECURSIVE Ins(_, _)
Ins(s, x) == IF s = <<>> THEN <<x>>
             ELSE IF (IF Mut = "scanlt" THEN due[Head(s)] < due[x] ELSE due[Head(s)] <= due[x])
                  THEN <<Head(s)>> \o Ins(Tail(s), x)
                  ELSE <<x>> \o s
Rem(s, x) == SelectSeq(s, LAMBDA y : y # x)
InSeq(s, x) == \E k \in 1..Len(s) : s[k] = x
Top(s) == IF s = <<>> THEN 0 ELSE Head(s)
Touch(x) == IF freed[x] THEN "touch-freed" ELSE bad
\* next operation client A starts remotely (arm = 0), in index order
RECURSIVE NextRemote(_)
NextRemote(i) == IF i > N THEN 0 ELSE IF scn.arm[i] = 0 THEN i ELSE NextRemote(i + 1)
ACur == NextRemote(ai)

\* ordering obligations (see TimerMon): sync = insertion finished when start() returns (local start on the I/O thread)
ArmBeginPrec(x, sync) == {y \in Ops : armE[y] /\ due[y] <= due[x] /\ (scn.arm[y] # 0 \/ ~sync)}
ArmEndPrec(y) == [x \in OpsAll |->
   IF x \in Ops /\ x # y /\ armB[x] /\ fired[x] = "none" /\ now < due[x] /\ due[y] < due[x]
   THEN mustPrec[x] \cup {y} ELSE mustPrec[x]]

\* completion delivered to the receiver (which frees the operation state)
FireUpd(x, ch) ==
  /\ fired' = [fired EXCEPT ![x] = ch] /\ fireNow' = [fireNow EXCEPT ![x] = now]
  /\ fireCount' = [fireCount EXCEPT ![x] = @ + 1] /\ fireSeq' = Append(fireSeq, <<x, ch>>)
  /\ freed' = [freed EXCEPT ![x] = TRUE]
  /\ orderOk' = (orderOk /\ (ch = "value" => \A y \in mustPrec[x] : fired[y] # "none" \/ stopB[y]))

\* ------------------------------------------------------------------ client A: start_remote()
AArm ==
  /\ ACur # 0
  /\ LET x == ACur IN
     /\ armB' = [armB EXCEPT ![x] = TRUE] /\ armE' = [armE EXCEPT ![x] = TRUE]
     /\ mustPrec' = [ArmEndPrec(x) EXCEPT ![x] = ArmBeginPrec(x, FALSE)]
     /\ exe' = [exe EXCEPT ![x] = "osc"]
     /\ remoteQ' = Append(remoteQ, x) /\ where' = [where EXCEPT ![x] = "remote"]
     /\ IF inactive THEN inactive' = FALSE /\ evRemote' = TRUE ELSE UNCHANGED <<inactive, evRemote>>
     /\ ai' = x + 1
  /\ lastT' = 1 /\ lastSite' = "arm"
  /\ UNCHANGED <<scn, now, fticks, heap, state, localQ, batch, rsub, evTimer, ktimer, dirty, curDue, iov, stopv, bpc,
                 stopB, stopE, fired, fireNow, fireCount, fireSeq, freed, orderOk, bad>>

\* ------------------------------------------------------------------ remote stopper B
BReq ==
  /\ bpc = "sleep" /\ now >= scn.stopAt
  /\ stopB' = [stopB EXCEPT ![S] = TRUE] /\ stopFlag' = [stopFlag EXCEPT ![S] = TRUE]
  /\ IF cbReg[S] THEN cbRun' = S /\ bpc' = "fa" /\ UNCHANGED stopE
     ELSE UNCHANGED cbRun /\ bpc' = "done" /\ stopE' = [stopE EXCEPT ![S] = TRUE]
  /\ lastT' = 2 /\ lastSite' = "req"
  /\ UNCHANGED <<scn, now, fticks, ctxv, iov, cbReg, ai, armB, armE, fired, fireNow, fireCount, fireSeq, freed, mustPrec, orderOk, bad>>
\* request_stop_remote(): state_.fetch_add(cancel_pending_flag)
BFa ==
  /\ bpc = "fa"
  /\ state' = [state EXCEPT ![S] = @ + 2]
  /\ bpc' = IF ~Elapsed(S) THEN "sched" ELSE "end"
  /\ bad' = Touch(S)
  /\ lastT' = 2 /\ lastSite' = "stop_fa"
  /\ UNCHANGED <<scn, now, fticks, heap, exe, where, localQ, remoteQ, batch, inactive, rsub, evRemote, evTimer, ktimer, dirty, curDue,
                 iov, stopv, ai, hist>>
\* won the election: execute_ = remove_timer_from_queue_and_complete_with_done; schedule_remote(this)
BSched ==
  /\ bpc = "sched"
  /\ exe' = [exe EXCEPT ![S] = "rmd"]
  /\ remoteQ' = Append(remoteQ, S) /\ where' = [where EXCEPT ![S] = "remote"]
  /\ bad' = (IF freed[S] THEN "touch-freed" ELSE IF where[S] # "none" THEN "double-enqueue" ELSE bad)
  /\ IF inactive THEN inactive' = FALSE /\ evRemote' = TRUE ELSE UNCHANGED <<inactive, evRemote>>
  /\ bpc' = "end"
  /\ lastT' = 2 /\ lastSite' = "stop_won"
  /\ UNCHANGED <<scn, now, fticks, heap, state, localQ, batch, rsub, evTimer, ktimer, dirty, curDue, iov, stopv, ai, hist>>
BEnd ==
  /\ bpc = "end" /\ bpc' = "done" /\ cbRun' = 0 /\ stopE' = [stopE EXCEPT ![S] = TRUE]
  /\ lastT' = 2 /\ lastSite' = "stop_ret"
  /\ UNCHANGED <<scn, now, fticks, ctxv, iov, cbReg, stopFlag, ai,
                 armB, armE, stopB, fired, fireNow, fireCount, fireSeq, freed, mustPrec, orderOk, bad>>

\* ------------------------------------------------------------------ the I/O thread: run_impl
\* start_local() up to (not including) stopCallback_.construct
StartLocal(x, back, w0) ==
  IF stopFlag[x]
  THEN \* stop already requested: execute_ = complete_with_done; schedule_local(this)
       /\ exe' = [exe EXCEPT ![x] = "done"] /\ localQ' = Append(localQ, x) /\ where' = [w0 EXCEPT ![x] = "local"]
       /\ iopc' = back /\ UNCHANGED <<heap, dirty, icur, ret>>
  ELSE /\ exe' = [exe EXCEPT ![x] = "mv"]
       /\ heap' = Ins(heap, x) /\ dirty' = (dirty \/ Top(Ins(heap, x)) = x)
       /\ icur' = x /\ ret' = back /\ iopc' = "startcb"
       /\ where' = w0 /\ UNCHANGED localQ
\* request_stop_local(): stopCallback_.destruct(); execute_ = complete_with_done; if not elapsed: remove_timer + schedule_local
StopLocalUpd(x) ==
  /\ exe' = [exe EXCEPT ![x] = "done"]
  /\ IF ~Elapsed(x)
     THEN /\ heap' = Rem(heap, x) /\ dirty' = (dirty \/ Top(heap) = x)
          /\ IF Mut = "nolocalresched" THEN UNCHANGED <<localQ, where>>
             ELSE localQ' = Append(localQ, x) /\ where' = [where EXCEPT ![x] = "local"]
     ELSE UNCHANGED <<heap, dirty, localQ, where>>

IoTop ==
  /\ iopc = "top"
  /\ IF localQ # <<>> THEN batch' = localQ /\ localQ' = <<>> /\ iopc' = "run"
     ELSE iopc' = "upd" /\ UNCHANGED <<batch, localQ>>
  /\ lastT' = 0 /\ lastSite' = "top"
  /\ UNCHANGED <<scn, now, fticks, heap, state, exe, where, remoteQ, inactive, rsub, evRemote, evTimer, ktimer, dirty, curDue,
                 ret, unow, icur, todo, stopv, ai, bpc, hist, bad>>
\* execute_pending_local: one item of the batch
IoRun ==
  /\ iopc = "run"
  /\ IF batch = <<>>
     THEN /\ iopc' = "upd"
          /\ UNCHANGED <<ctxv, ret, unow, icur, todo, stopv, hist, bad>>
     ELSE LET x == Head(batch)  e == exe[x] IN
          /\ e \in {"osc", "done"} \/ cbRun # x              \* stopCallback_.destruct() waits for a running callback
          /\ batch' = Tail(batch)
          /\ bad' = Touch(x)
          /\ CASE e = "osc" ->
                  /\ StartLocal(x, "run", [where EXCEPT ![x] = "none"])
                  /\ UNCHANGED <<state, remoteQ, inactive, rsub, evRemote, evTimer, ktimer, curDue, unow, todo, stopv, hist>>
               [] e = "mv" ->
                  /\ cbReg' = [cbReg EXCEPT ![x] = FALSE]
                  /\ FireUpd(x, IF stopFlag[x] THEN "done" ELSE "value")
                  /\ exe' = [exe EXCEPT ![x] = "none"] /\ where' = [where EXCEPT ![x] = "none"]
                  /\ todo' = scn.on[x] /\ iopc' = (IF scn.on[x] = <<>> THEN "run" ELSE "script")
                  /\ UNCHANGED <<heap, state, localQ, remoteQ, inactive, rsub, evRemote, evTimer, ktimer, dirty, curDue,
                                 ret, unow, icur, cbRun, stopFlag, armB, armE, stopB, stopE, mustPrec>>
               [] e = "done" ->
                  /\ FireUpd(x, "done")
                  /\ exe' = [exe EXCEPT ![x] = "none"] /\ where' = [where EXCEPT ![x] = "none"]
                  /\ todo' = scn.on[x] /\ iopc' = (IF scn.on[x] = <<>> THEN "run" ELSE "script")
                  /\ UNCHANGED <<heap, state, localQ, remoteQ, inactive, rsub, evRemote, evTimer, ktimer, dirty, curDue,
                                 ret, unow, icur, stopv, armB, armE, stopB, stopE, mustPrec>>
               [] e = "rmd" ->
                  /\ cbReg' = [cbReg EXCEPT ![x] = FALSE]
                  /\ IF ~Elapsed(x) THEN heap' = Rem(heap, x) /\ dirty' = (dirty \/ Top(heap) = x)
                     ELSE UNCHANGED <<heap, dirty>>
                  /\ FireUpd(x, "done")
                  /\ exe' = [exe EXCEPT ![x] = "none"] /\ where' = [where EXCEPT ![x] = "none"]
                  /\ todo' = scn.on[x] /\ iopc' = (IF scn.on[x] = <<>> THEN "run" ELSE "script")
                  /\ UNCHANGED <<state, localQ, remoteQ, inactive, rsub, evRemote, evTimer, ktimer, curDue,
                                 ret, unow, icur, cbRun, stopFlag, armB, armE, stopB, stopE, mustPrec>>
  /\ lastT' = 0 /\ lastSite' = "run"
  /\ UNCHANGED <<scn, now, fticks, ai, bpc>>
\* stopCallback_.construct(token, cancel_callback{*this}) at the end of start_local()
IoStartCb ==
  /\ iopc = "startcb"
  /\ LET x == icur IN
     /\ IF stopFlag[x]
        THEN StopLocalUpd(x) /\ UNCHANGED cbReg               \* runs the callback inline: request_stop_local()
        ELSE cbReg' = [cbReg EXCEPT ![x] = TRUE] /\ UNCHANGED <<heap, dirty, localQ, where, exe>>
     /\ bad' = Touch(x)
     \* a local start() is complete here (ArmEnd of the script's arm)
     /\ IF ret = "script"
        THEN armE' = [armE EXCEPT ![x] = TRUE] /\ mustPrec' = ArmEndPrec(x)
        ELSE UNCHANGED <<armE, mustPrec>>
  /\ iopc' = ret
  /\ lastT' = 0 /\ lastSite' = "start_cb"
  /\ UNCHANGED <<scn, now, fticks, state, remoteQ, batch, inactive, rsub, evRemote, evTimer, ktimer, curDue,
                 ret, unow, icur, todo, cbRun, stopFlag, ai, bpc,
                 armB, stopB, stopE, fired, fireNow, fireCount, fireSeq, freed, orderOk>>
\* a completion's script: local start() / local request_stop()
IoScript ==
  /\ iopc = "script"
  /\ IF todo = <<>>
     THEN iopc' = "run" /\ UNCHANGED <<ctxv, ret, unow, icur, todo, stopv, hist, bad>>
     ELSE LET a == Head(todo)  y == a[2] IN
          /\ todo' = Tail(todo)
          /\ IF a[1] = "arm"
             THEN /\ armB' = [armB EXCEPT ![y] = TRUE]
                  /\ StartLocal(y, "script", where)
                  /\ IF stopFlag[y]
                     THEN armE' = [armE EXCEPT ![y] = TRUE] /\ mustPrec' = [ArmEndPrec(y) EXCEPT ![y] = ArmBeginPrec(y, TRUE)]
                     ELSE UNCHANGED armE /\ mustPrec' = [mustPrec EXCEPT ![y] = ArmBeginPrec(y, TRUE)]
                  /\ bad' = Touch(y)
                  /\ UNCHANGED <<state, remoteQ, batch, inactive, rsub, evRemote, evTimer, ktimer, curDue, unow, stopv,
                                 stopB, stopE, fired, fireNow, fireCount, fireSeq, freed, orderOk>>
             ELSE /\ stopB' = [stopB EXCEPT ![y] = TRUE] /\ stopE' = [stopE EXCEPT ![y] = TRUE]
                  /\ stopFlag' = [stopFlag EXCEPT ![y] = TRUE]
                  /\ IF cbReg[y]
                     THEN /\ cbReg' = [cbReg EXCEPT ![y] = FALSE] /\ StopLocalUpd(y) /\ bad' = Touch(y)
                     ELSE UNCHANGED <<cbReg, heap, dirty, localQ, where, exe, bad>>
                  /\ UNCHANGED <<iopc, state, remoteQ, batch, inactive, rsub, evRemote, evTimer, ktimer, curDue, ret, unow, icur, cbRun,
                                 armB, armE, fired, fireNow, fireCount, fireSeq, freed, mustPrec, orderOk>>
  /\ lastT' = 0 /\ lastSite' = "script"
  /\ UNCHANGED <<scn, now, fticks, ai, bpc>>
\* if (timersAreDirty_) update_timers(): read now
IoUpd ==
  /\ iopc = "upd"
  /\ IF dirty THEN unow' = now /\ iopc' = "reap" ELSE iopc' = "remote" /\ UNCHANGED unow
  /\ lastT' = 0 /\ lastSite' = "upd"
  /\ UNCHANGED <<scn, now, fticks, ctxv, ret, icur, todo, stopv, ai, bpc, hist, bad>>
\* while (!timers_.empty() && top()->dueTime_ <= now) item = timers_.pop()
IoReap ==
  /\ iopc = "reap"
  /\ IF heap # <<>> /\ due[Head(heap)] <= unow + (IF Mut = "early" THEN 1 ELSE 0)
     THEN icur' = Head(heap) /\ heap' = Tail(heap) /\ iopc' = "reapfa"
     ELSE iopc' = "upd2" /\ UNCHANGED <<icur, heap>>
  /\ lastT' = 0 /\ lastSite' = "reap"
  /\ UNCHANGED <<scn, now, fticks, state, exe, where, localQ, remoteQ, batch, inactive, rsub, evRemote, evTimer, ktimer, dirty, curDue,
                 ret, unow, todo, stopv, ai, bpc, hist, bad>>
\* item->state_.fetch_add(timer_elapsed_flag); cancel pending => the remote thread completes it, else schedule_local(item)
IoReapFa ==
  /\ iopc = "reapfa"
  /\ LET x == icur IN
     /\ state' = [state EXCEPT ![x] = @ + 1]
     /\ bad' = (IF freed[x] THEN "touch-freed" ELSE IF ~CancelPending(x) /\ where[x] # "none" THEN "double-enqueue" ELSE bad)
     /\ IF CancelPending(x) /\ Mut # "noelection"
        THEN UNCHANGED <<localQ, where>>
        ELSE localQ' = Append(localQ, x) /\ where' = [where EXCEPT ![x] = "local"]
  /\ iopc' = "reap"
  /\ lastT' = 0 /\ lastSite' = "elapse_fa"
  /\ UNCHANGED <<scn, now, fticks, heap, exe, remoteQ, batch, inactive, rsub, evRemote, evTimer, ktimer, dirty, curDue,
                 ret, unow, icur, todo, stopv, ai, bpc, hist>>
\* the second half of update_timers: (re)arm or cancel the kernel timer
IoUpd2 ==
  /\ iopc = "upd2"
  /\ IF heap = <<>>
     THEN IF curDue # None THEN curDue' = None /\ ktimer' = None /\ dirty' = FALSE
          ELSE UNCHANGED <<curDue, ktimer, dirty>>
     ELSE LET e == due[Head(heap)] IN
          IF curDue # None
          THEN IF e < curDue THEN ktimer' = e /\ curDue' = e /\ dirty' = FALSE
               ELSE dirty' = FALSE /\ UNCHANGED <<ktimer, curDue>>
          ELSE IF Mut = "nosubmit" THEN dirty' = FALSE /\ UNCHANGED <<ktimer, curDue>>
               ELSE ktimer' = e /\ curDue' = e /\ dirty' = FALSE
  /\ iopc' = "remote"
  /\ lastT' = 0 /\ lastSite' = "upd2"
  /\ UNCHANGED <<scn, now, fticks, heap, state, exe, where, localQ, remoteQ, batch, inactive, rsub, evRemote, evTimer,
                 ret, unow, icur, todo, stopv, ai, bpc, hist, bad>>
\* try_schedule_local_remote_queue_contents()
IoRemote ==
  /\ iopc = "remote"
  /\ IF rsub THEN iopc' = "wait" /\ UNCHANGED <<localQ, remoteQ, where, inactive, rsub>>
     ELSE IF remoteQ = <<>>
          THEN inactive' = TRUE /\ rsub' = TRUE /\ iopc' = "wait" /\ UNCHANGED <<localQ, remoteQ, where>>
          ELSE /\ localQ' = localQ \o remoteQ /\ remoteQ' = <<>>
               /\ where' = [o \in OpsAll |-> IF InSeq(remoteQ, o) THEN "local" ELSE where[o]]
               /\ iopc' = "top" /\ UNCHANGED <<inactive, rsub>>
  /\ lastT' = 0 /\ lastSite' = "remote"
  /\ UNCHANGED <<scn, now, fticks, heap, state, exe, batch, evRemote, evTimer, ktimer, dirty, curDue,
                 ret, unow, icur, todo, stopv, ai, bpc, hist, bad>>
\* acquire_completion_queue_items(): epoll_wait(timeout 0 if the local queue is not empty, else blocking)
IoWaitEnabled == localQ # <<>> \/ evRemote \/ evTimer
IoWait ==
  /\ iopc = "wait" /\ IoWaitEnabled
  /\ IF evRemote THEN evRemote' = FALSE /\ rsub' = FALSE ELSE UNCHANGED <<evRemote, rsub>>
  /\ IF evTimer THEN evTimer' = FALSE /\ curDue' = None /\ dirty' = TRUE ELSE UNCHANGED <<evTimer, curDue, dirty>>
  /\ iopc' = "top"
  /\ lastT' = 0 /\ lastSite' = "wait"
  /\ UNCHANGED <<scn, now, fticks, heap, state, exe, where, localQ, remoteQ, batch, inactive, ktimer,
                 ret, unow, icur, todo, stopv, ai, bpc, hist, bad>>
\* the kernel: the armed absolute timer expires
KernelFire ==
  /\ ktimer # None /\ now >= ktimer
  /\ evTimer' = TRUE /\ ktimer' = None
  /\ lastT' = 8 /\ lastSite' = "kernel"
  /\ UNCHANGED <<scn, now, fticks, heap, state, exe, where, localQ, remoteQ, batch, inactive, rsub, evRemote, dirty, curDue,
                 iov, stopv, ai, bpc, hist, bad>>

AEn == ACur # 0
BEn == (bpc \notin {"sleep", "done"}) \/ (bpc = "sleep" /\ now >= scn.stopAt)
IoEn == \/ iopc \in {"top", "startcb", "script", "upd", "reap", "reapfa", "upd2", "remote"}
        \/ (iopc = "run" /\ (batch = <<>> \/ exe[Head(batch)] \in {"osc", "done"} \/ cbRun # Head(batch)))
        \/ (iopc = "wait" /\ IoWaitEnabled)
KEn == ktimer # None /\ now >= ktimer
Quiescent == ~AEn /\ ~BEn /\ ~IoEn /\ ~KEn
AllDone == Quiescent /\ bpc = "done" /\ \A x \in Ops : fired[x] # "none"
Tick ==
  /\ now < MaxNow /\ ~AllDone /\ (Quiescent \/ fticks < FreeTick)
  /\ now' = now + 1 /\ fticks' = (IF Quiescent THEN fticks ELSE fticks + 1)
  /\ lastT' = -1 /\ lastSite' = "tick"
  /\ UNCHANGED <<scn, ctxv, iov, stopv, ai, bpc, hist, bad>>

Next == AArm \/ BReq \/ BFa \/ BSched \/ BEnd
        \/ IoTop \/ IoRun \/ IoStartCb \/ IoScript \/ IoUpd \/ IoReap \/ IoReapFa \/ IoUpd2 \/ IoRemote \/ IoWait
        \/ KernelFire \/ Tick
Spec == Init /\ [][Next]_<<vars, lastT, lastSite>>

\* ------------------------------------------------------------------ properties (C07 for the I/O contexts)
HeapSorted == \A k \in 2..Len(heap) : due[heap[k - 1]] <= due[heap[k]]
NeverEarly == \A x \in OpsAll : fired[x] = "value" => fireNow[x] >= due[x]
DueOrder == orderOk
CancelPrompt == Quiescent => \A x \in Ops : (stopE[x] /\ armE[x]) => fired[x] # "none"
ExactlyOnce ==
  /\ \A x \in OpsAll : fireCount[x] <= 1
  /\ (Quiescent /\ now = MaxNow) => \A x \in Ops : (armE[x] /\ (due[x] <= MaxNow \/ stopE[x])) => fireCount[x] = 1
NoOverdueAtQuiescence == Quiescent => \A x \in Ops : (armE[x] /\ fired[x] = "none") => now < due[x]
NoReferenceAfterCompletion ==
  /\ bad = "ok"
  /\ \A x \in OpsAll : freed[x] => (~InSeq(heap, x) /\ ~InSeq(localQ, x) /\ ~InSeq(remoteQ, x) /\ ~InSeq(batch, x)
                                     /\ ~cbReg[x] /\ cbRun # x)
=============================================================================
