---- MODULE MonotonicClockEdges ----
(* boundary operands at the real base (B = 10^9, U = 100): every case is exported with the result of the     *)
(* transcription as one line {case, expect}; the driver makes one call of the real operator per line.        *)
(* Only overflow-free formulas are evaluated here (UseVal = FALSE); |q| <= 1 keeps q * B + r within 32 bits. *)
EXTENDS MonotonicClock, Json, IOUtils
BC == 1000000000
UC == 100
KC == 10000000
SR == {-2, -1, 0, 1, 2}
Mag == IF IOEnv.CLKSIZE = "small" THEN {0, 1, 100, 999999900, 999999999}
       ELSE {0, 1, 99, 100, 101, 499999950, 999999899, 999999900, 999999901, 999999999}
NsR == Mag \cup {-m : m \in Mag}
CanonTps == {tp \in SR \X NsR : ~(tp[1] < 0 /\ tp[2] > 0) /\ ~(tp[1] > 0 /\ tp[2] < 0)}
DMag == IF IOEnv.CLKSIZE = "small" THEN {0, 1, 9999999, 10000000, 10000001, 20000000}
        ELSE {0, 1, 2, 5, 9999999, 10000000, 10000001, 19999999, 20000000, 20000001}
DR == DMag \cup {-m : m \in DMag}
CasesC == [op : {"from"}, s : SR, q : {-1, 0, 1}, r : NsR]
          \cup [op : {"add", "sub"}, a : CanonTps, d : DR]
          \cup [op : {"cmp"}, a : CanonTps, b : CanonTps]
Export ==
  Serialize(ToJson([case |-> c, expect |-> Result]) \o "\n", IOEnv.EDGES,
     [format |-> "TXT", charset |-> "UTF-8", openOptions |-> <<"WRITE", "CREATE", "APPEND">>]).exitValue = 0
====
