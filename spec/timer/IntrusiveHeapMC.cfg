SPECIFICATION Spec
CONSTANTS KeyVecs <- KeyVecsC  Mut <- MutC
INVARIANTS SameAsMath Sorted LinksExact NoIndetRead
VIEW View
ACTION_CONSTRAINT EdgeLog
CHECK_DEADLOCK FALSE
