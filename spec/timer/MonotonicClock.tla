---------------------------- MODULE MonotonicClock ----------------------------
(***************************************************************************)
(* linuxos::monotonic_clock::time_point arithmetic: the transcription      *)
(* (ClockMath: Normalize, AddDur, SubDur, Diff, Less, Equal) checked        *)
(* against integer semantics Val(tp) = seconds * B + nanoseconds for every *)
(* case of the finite case sets (exhaustive at a small base B; boundary    *)
(* operands at B = 10^9, where only overflow-free formulas are evaluated). *)
(* One state per case; no transitions.                                     *)
(***************************************************************************)
EXTENDS ClockMath, Sequences, TLC
CONSTANTS Cases,       \* set of records: [op |-> "from", s, q, r] | [op |-> "add"/"sub", a, d] | [op |-> "cmp", a, b]
          UseVal,      \* TRUE: evaluate the Val-based properties (needs seconds * B within 32 bits)
          NormOff      \* 0 = the code; 1 = seeded off-by-one at the carry boundary (spec self-test)
VARIABLE c
Init == c \in Cases
Next == UNCHANGED c
Spec == Init /\ [][Next]_c
Val(tp) == tp[1] * B + tp[2]
Norm(s, ns) == NormalizeM(s, ns, NormOff)
AddD(tp, d) == Norm(tp[1] + Whole(d), tp[2] + RemNs(d))
SubD(tp, d) == Norm(tp[1] - Whole(d), tp[2] - RemNs(d))
\* result of the case under the transcription (what the real operator is expected to return)
Result ==
  CASE c.op = "from" -> Norm(c.s, c.q * B + c.r)
    [] c.op = "add" -> AddD(c.a, c.d)
    [] c.op = "sub" -> SubD(c.a, c.d)
    [] c.op = "cmp" -> <<Diff(c.a, c.b), IF Less(c.a, c.b) THEN 1 ELSE 0, IF Equal(c.a, c.b) THEN 1 ELSE 0>>
\* ---- properties
ClockCanonical ==
  /\ c.op \in {"from", "add", "sub"} => Canon(Result)
  /\ (UseVal /\ c.op \in {"from", "add", "sub"} /\ Val(Result) >= 0) => (0 <= Result[2] /\ Result[2] < B /\ Result[1] >= 0)
Exact == UseVal =>
  /\ c.op = "from" => Val(Result) = c.s * B + c.q * B + c.r
  /\ c.op = "add" => Val(Result) = Val(c.a) + c.d * U
  /\ c.op = "sub" => Val(Result) = Val(c.a) - c.d * U
  /\ c.op = "cmp" => LET dv == Val(c.a) - Val(c.b) e == Result[1] * U - dv IN
                     /\ -U < e /\ e < U /\ (dv % U = 0 => e = 0)
TotalOrder == (UseVal /\ c.op = "cmp") =>
  /\ (Result[2] = 1) <=> (Val(c.a) < Val(c.b))
  /\ (Result[3] = 1) <=> (Val(c.a) = Val(c.b))
  /\ (Less(c.a, c.b) \/ Less(c.b, c.a) \/ Equal(c.a, c.b))
  /\ ~(Less(c.a, c.b) /\ Less(c.b, c.a))
AddSubInverse == (c.op \in {"add", "sub"}) =>
  /\ SubD(AddD(c.a, c.d), c.d) = c.a
  /\ AddD(SubD(c.a, c.d), c.d) = c.a
  /\ Diff(AddD(c.a, c.d), c.a) = c.d
\* the monitor's overflow-free mathematics agrees with Val
MonitorMathSound == UseVal =>
  /\ c.op = "cmp" => /\ SameInstant(c.a, c.b) <=> (Val(c.a) = Val(c.b))
                     /\ Before(c.a, c.b) <=> (Val(c.a) < Val(c.b))
  /\ c.op = "add" => Val(PlusTicks(c.a, c.d)) = Val(c.a) + c.d * U
  /\ c.op = "sub" => Val(PlusTicks(c.a, -c.d)) = Val(c.a) - c.d * U
  /\ c.op = "from" => SameInstant(<<c.s + c.q, c.r>>, <<c.s, c.q * B + c.r>>)
=============================================================================
