---- MODULE TimedSingleThreadMC ----
(* Model-checking instance: scenarios come from a JSON file shared with the C++ driver; every explored *)
(* transition is exported (ACTION_CONSTRAINT) for behaviour generation when IOEnv.EDGES is non-empty.   *)
EXTENDS TimedSingleThread, Json, IOUtils, TLCExt
Scn == LET q == JsonDeserialize(IOEnv.SCENARIOS) IN {q[i] : i \in 1..Len(q)}   \* parsed once
MaxNowC == 6
FreeTickC == IF IOEnv.FREETICK = "0" THEN 0 ELSE IF IOEnv.FREETICK = "1" THEN 1 ELSE IF IOEnv.FREETICK = "2" THEN 2 ELSE 99
MutC == IOEnv.MUT
EdgeLog ==
  LET rec == [s |-> <<TLCFP(vars), TLCFP(<<vars, 1>>)>>, t |-> <<TLCFP(vars'), TLCFP(<<vars', 1>>)>>,
              th |-> lastT', site |-> lastSite', scn |-> scn.id, obs |-> fireSeq']
  IN (IOEnv.EDGES # "") =>
     Serialize(ToJson(rec) \o "\n", IOEnv.EDGES,
        [format |-> "TXT", charset |-> "UTF-8", openOptions |-> <<"WRITE", "CREATE", "APPEND">>]).exitValue = 0
====
