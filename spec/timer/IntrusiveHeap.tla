---------------------------- MODULE IntrusiveHeap ----------------------------
(***************************************************************************)
(* Pointer-level transcription of unifex::intrusive_heap                   *)
(* (include/unifex/detail/intrusive_heap.hpp): a doubly linked list kept   *)
(* in ascending order of the items' sort key (the timer heap of            *)
(* io_epoll_context and io_uring_context).  head / next[i] / prev[i] with  *)
(* 0 = nullptr; Indet = link never written (items are not initialised by   *)
(* the container's users before insert()).  Actions = the public member    *)
(* functions insert, remove, pop on items with fixed keys.                 *)
(* Ghost `ord` = the mathematical contents: a sequence kept sorted by      *)
(* stable insertion (a new item goes behind every item with key <= its).   *)
(***************************************************************************)
EXTENDS Integers, Sequences, FiniteSets, TLC
CONSTANTS KeyVecs,      \* set of key vectors <<k1,..,kN>>
          Mut           \* "none" | seeded mutations (spec self-test)
Indet == -2
VARIABLES kv, head, next, prev, ord, bad, lastOp, lastItem, lastRes
vars == <<kv, head, next, prev, ord, bad>>
View == vars
N == Len(kv)
Items == 1..N
InOrd(i) == \E k \in 1..Len(ord) : ord[k] = i
Init == /\ kv \in KeyVecs /\ head = 0
        /\ next = [i \in 1..4 |-> Indet] /\ prev = [i \in 1..4 |-> Indet]
        /\ ord = <<>> /\ bad = "ok" /\ lastOp = "" /\ lastItem = 0 /\ lastRes = 0
RECURSIVE ScanFrom(_, _)
ScanFrom(q, i) ==
  IF next[q] # 0 /\ (IF Mut = "scanlt" THEN kv[next[q]] < kv[i] ELSE kv[next[q]] <= kv[i])
  THEN ScanFrom(next[q], i) ELSE q
\* stable sorted insertion into the ghost
RECURSIVE InsSorted(_, _)
InsSorted(s, i) == IF s = <<>> THEN <<i>>
                   ELSE IF kv[Head(s)] <= kv[i] THEN <<Head(s)>> \o InsSorted(Tail(s), i)
                   ELSE <<i>> \o s
Insert(i) ==
  /\ ~InOrd(i)
  /\ IF head = 0
     THEN head' = i /\ next' = [next EXCEPT ![i] = 0] /\ prev' = [prev EXCEPT ![i] = 0]
     ELSE IF kv[i] < kv[head]
     THEN /\ next' = [next EXCEPT ![i] = head]
          /\ prev' = [prev EXCEPT ![i] = 0, ![head] = i]
          /\ head' = i
     ELSE LET a == ScanFrom(head, i)  b == next[a] IN
          /\ next' = [next EXCEPT ![i] = b, ![a] = i]
          /\ prev' = IF b # 0 /\ Mut # "noprevfix" THEN [prev EXCEPT ![i] = a, ![b] = i] ELSE [prev EXCEPT ![i] = a]
          /\ UNCHANGED head
  /\ ord' = InsSorted(ord, i)
  /\ lastOp' = "insert" /\ lastItem' = i /\ lastRes' = 0 /\ UNCHANGED <<kv, bad>>
Remove(i) ==
  /\ InOrd(i)
  /\ LET p == prev[i]  n == next[i] IN
     /\ bad' = (IF p = Indet \/ n = Indet THEN "indet-read" ELSE bad)
     \* the removed item's own links are stale from now on and never read before insert() rewrites them:
     \* modelled as Indet again (a read would be flagged)
     /\ IF p # 0 THEN next' = [next EXCEPT ![p] = n, ![i] = Indet] /\ UNCHANGED head
        ELSE head' = n /\ next' = [next EXCEPT ![i] = Indet]
     /\ prev' = IF n # 0 /\ n # Indet THEN [prev EXCEPT ![n] = p, ![i] = Indet] ELSE [prev EXCEPT ![i] = Indet]
  /\ ord' = SelectSeq(ord, LAMBDA x : x # i)
  /\ lastOp' = "remove" /\ lastItem' = i /\ lastRes' = 0 /\ UNCHANGED kv
Pop ==
  /\ head # 0
  /\ head' = next[head]
  /\ prev' = IF next[head] # 0 THEN [prev EXCEPT ![next[head]] = 0, ![head] = Indet] ELSE [prev EXCEPT ![head] = Indet]
  /\ next' = [next EXCEPT ![head] = Indet]                  \* stale, see Remove
  /\ ord' = Tail(ord)
  /\ lastOp' = "pop" /\ lastItem' = 0 /\ lastRes' = head /\ UNCHANGED <<kv, bad>>
Next == (\E i \in Items : Insert(i) \/ Remove(i)) \/ Pop
Spec == Init /\ [][Next]_<<vars, lastOp, lastItem, lastRes>>
RECURSIVE Chain(_, _)
Chain(o, n) == IF o = 0 \/ o = Indet \/ n = 0 THEN <<>> ELSE <<o>> \o Chain(next[o], n - 1)
TheChain == Chain(head, 6)
\* ---- properties
SameAsMath == TheChain = ord                                       \* order and membership
Sorted == \A k \in 2..Len(TheChain) : kv[TheChain[k - 1]] <= kv[TheChain[k]]
LinksExact == /\ Len(TheChain) <= 4
              /\ \A k \in 1..Len(TheChain) : prev[TheChain[k]] = (IF k = 1 THEN 0 ELSE TheChain[k - 1])
              /\ (Len(TheChain) > 0 => next[TheChain[Len(TheChain)]] = 0)
NoIndetRead == bad = "ok"
=============================================================================
