SPECIFICATION Spec
CONSTANTS Scenarios <- Scn  InitLinks <- InitLinksC  Mut <- MutC
INVARIANTS NoIndeterminateRead
VIEW View
CHECK_DEADLOCK FALSE
