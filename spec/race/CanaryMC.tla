---- MODULE CanaryMC ----
(* Model-checking instance: scenarios from the JSON file shared with the C++ driver; every transition exported. *)
EXTENDS Canary, Json, IOUtils, TLCExt
ScnSeq == JsonDeserialize(IOEnv.SCENARIOS)
Scn == {ScnSeq[i] : i \in 1..Len(ScnSeq)}
EdgeLog ==
  LET rec == [s |-> <<TLCFP(vars), TLCFP(<<vars, 1>>)>>, t |-> <<TLCFP(vars'), TLCFP(<<vars', 1>>)>>,
              th |-> lastT', pc |-> lastPc', scn |-> scn.id, done |-> AllDone', bad |-> bad', obs |-> [x |-> 0]]
  IN Serialize(ToJson(rec) \o "\n", IOEnv.EDGES,
        [format |-> "TXT", charset |-> "UTF-8", openOptions |-> <<"WRITE", "CREATE", "APPEND">>]).exitValue = 0
====
