--------------------------- MODULE DetachOnCancel ---------------------------
(***************************************************************************)
(* Implementation-shaped specification of unifex::detach_on_cancel          *)
(* (include/unifex/detach_on_cancel.hpp: operation_state::type start,       *)
(* detached_state::request_stop / try_get_op, the tagged parentOp_ word)     *)
(* together with the harness child operation of engines/race/driver.cpp.     *)
(*                                                                           *)
(* Threads: 1 = S runs unifex::start(op); 2 = A completes the child with a   *)
(* value; 3 = B calls request_stop() on the receiver's stop source.          *)
(* Scenario field child: "ignore" (ignores the stop request, A completes it) *)
(* | "stopcb" (also registers a stop callback on the detached stop source    *)
(* and completes with done from inside it) | "sync" (completes in start()).  *)
(* pc labels "h_*", "d_*", "spin_wait*" are schedule points ("race.<label>");*)
(* other labels are internal continuations of the same atomic stretch.       *)
(***************************************************************************)
EXTENDS Naturals, Sequences, FiniteSets, TLC
CONSTANT Scenarios
VARIABLES scn,
          par,         \* parentOp_ : [ptr |-> 0|1, cnt |-> 0..2]
          cbReg,       \* op.callback_ : "none" | "reg" | "inline" | "gone"
          cbRunBy,     \* thread executing the receiver-token callback (0 = nobody)
          srcStopped,  \* request_stop() called on the receiver's source
          dsStopped,   \* request_stop() called on detached_state::stopSource_
          opAlive,     \* operation_state::type not yet destroyed by the receiver
          dsAlive,     \* detached_state (with the child operation inside) not yet freed
          own,         \* op.state_ unique_ptr: "op" | "released" | "reset"
          slot,        \* harness child: "unpub" | "armed" | "taken"
          ccb,         \* child's own stop callback: "none" | "reg" | "gone"
          ccbRunBy,
          pc, stk, loc,
          cnt,         \* [nsb, nse, ccb, cfreed, compl]
          compBy, bad, lastT, lastPc
vars == <<scn, par, cbReg, cbRunBy, srcStopped, dsStopped, opAlive, dsAlive, own, slot, ccb, ccbRunBy, pc, stk, loc, cnt, compBy, bad>>
ghosts == <<lastT, lastPc>>
Thr == {1, 2, 3}
Internal(l) == l \in {"i_cstart", "i_ccb", "i_done", "a_ret", "b_cbret", "s_end", "i_get2", "i_cret", "i_reqret", "i_ccbret"}
Init == /\ scn \in Scenarios
        /\ par = [ptr |-> 1, cnt |-> 1] /\ cbReg = "none" /\ cbRunBy = 0 /\ srcStopped = FALSE /\ dsStopped = FALSE
        /\ opAlive = TRUE /\ dsAlive = TRUE /\ own = "op" /\ slot = "unpub" /\ ccb = "none" /\ ccbRunBy = 0
        /\ pc = [t \in Thr |-> IF t = 1 THEN "h_s0" ELSE IF t = 2 THEN (IF scn.a = 1 THEN "h_a0" ELSE "done")
                                ELSE (IF scn.b = 1 THEN "h_b0" ELSE "done")]
        /\ stk = [t \in Thr |-> <<>>] /\ loc = [t \in Thr |-> [ptr |-> 0, cnt |-> 0, ch |-> ""]]
        /\ cnt = [nsb |-> 0, nse |-> 0, ccb |-> 0, cfreed |-> 0, compl |-> 0]
        /\ compBy = <<0, "">> /\ bad = "ok" /\ lastT = 0 /\ lastPc = ""
Goto(t, l) == pc' = [pc EXCEPT ![t] = l] /\ UNCHANGED stk
Call(t, target, ret) == pc' = [pc EXCEPT ![t] = target] /\ stk' = [stk EXCEPT ![t] = <<ret>> \o @]
Return(t) == pc' = [pc EXCEPT ![t] = Head(stk[t])] /\ stk' = [stk EXCEPT ![t] = Tail(@)]
TouchDs(msg) == IF dsAlive THEN bad ELSE msg
TouchOp(msg) == IF opAlive THEN bad ELSE msg

\* ------------------------------------------------------------ S: tag_invoke(start, op)
HS0 == /\ pc[1] = "h_s0"
       /\ IF srcStopped THEN /\ cbReg' = "inline" /\ Call(1, "d_load", "i_cstart")
                        ELSE /\ cbReg' = "reg" /\ Goto(1, "i_cstart")
       /\ UNCHANGED <<scn, par, cbRunBy, srcStopped, dsStopped, opAlive, dsAlive, own, slot, ccb, ccbRunBy, loc, cnt, compBy, bad>>
\* unifex::start(childOp)  (childOp was read before the callback was constructed)
ICStart == /\ pc[1] = "i_cstart"
           /\ bad' = TouchDs("start() starts a child operation that was already freed")
           /\ cnt' = [cnt EXCEPT !.nsb = @ + 1]
           /\ IF scn.child = "sync"
              THEN /\ slot' = "taken" /\ loc' = [loc EXCEPT ![1].ch = "value"] /\ Goto(1, "i_ccb")
              ELSE /\ slot' = "armed" /\ UNCHANGED loc
                   /\ Goto(1, IF scn.child = "stopcb" THEN "i_done" ELSE "h_cs")
           /\ UNCHANGED <<scn, par, cbReg, cbRunBy, srcStopped, dsStopped, opAlive, dsAlive, own, ccb, ccbRunBy, stk, compBy>>
\* child "stopcb": construct the child's stop callback on the detached source; inline if already stopped
IDone == /\ pc[1] = "i_done"
         /\ IF dsStopped
            THEN /\ slot' = "taken" /\ ccb' = "gone" /\ loc' = [loc EXCEPT ![1].ch = "done"] /\ Goto(1, "i_ccb")
            ELSE /\ ccb' = "reg" /\ UNCHANGED <<slot, loc>> /\ Goto(1, "h_cs")
         /\ UNCHANGED <<scn, par, cbReg, cbRunBy, srcStopped, dsStopped, opAlive, dsAlive, own, ccbRunBy, stk, cnt, compBy, bad>>
\* the child calls its receiver (any thread): CComplBegin, then _receiver::set_xxx -> try_get_op
ICcb(t) == /\ pc[t] = "i_ccb" /\ cnt' = [cnt EXCEPT !.ccb = @ + 1]
           /\ Call(t, "d_get", IF t = 1 THEN (IF scn.child = "sync" THEN "i_cret" ELSE "h_cs") ELSE IF t = 2 THEN "a_ret" ELSE "i_ccbret")
           /\ UNCHANGED <<scn, par, cbReg, cbRunBy, srcStopped, dsStopped, opAlive, dsAlive, own, slot, ccb, ccbRunBy, loc, compBy, bad>>
\* the child's start() returns
HCs == /\ pc[1] = "h_cs" /\ cnt' = [cnt EXCEPT !.nse = @ + 1] /\ Goto(1, "done")
       /\ UNCHANGED <<scn, par, cbReg, cbRunBy, srcStopped, dsStopped, opAlive, dsAlive, own, slot, ccb, ccbRunBy, loc, compBy, bad>>

ICRet == /\ pc[1] = "i_cret" /\ cnt' = [cnt EXCEPT !.nse = @ + 1] /\ Goto(1, "done")
         /\ UNCHANGED <<scn, par, cbReg, cbRunBy, srcStopped, dsStopped, opAlive, dsAlive, own, slot, ccb, ccbRunBy, loc, compBy, bad>>

\* ------------------------------------------------------------ try_get_op()  (thread t, from the child's completion)
DGet(t) ==
  /\ pc[t] = "d_get" /\ bad' = TouchDs("try_get_op touches a freed detached_state")
  /\ par' = [par EXCEPT !.cnt = IF @ > 0 THEN @ - 1 ELSE 0]
  /\ loc' = [loc EXCEPT ![t].ptr = par.ptr, ![t].cnt = par.cnt]
  /\ IF par.cnt # 1 THEN /\ Return(t) /\ UNCHANGED <<dsAlive, cnt>>       \* lost the race with the stop callback
     ELSE IF par.ptr = 1 THEN /\ Goto(t, "d_getcb") /\ UNCHANGED <<dsAlive, cnt>>
     ELSE /\ dsAlive' = FALSE /\ cnt' = [cnt EXCEPT !.cfreed = @ + 1] /\ Return(t)   \* delete this
  /\ UNCHANGED <<scn, cbReg, cbRunBy, srcStopped, dsStopped, opAlive, own, slot, ccb, ccbRunBy, compBy>>
\* ptr->callback_.destruct() (waits while the callback runs on another thread), then the receiver is completed:
\* it destroys the operation, whose unique_ptr frees the detached state with the child
DGetCb(t) ==
  /\ pc[t] \in {"d_getcb", "spin_wait"}
  /\ IF cbReg = "reg" /\ cbRunBy \notin {0, t}
     THEN /\ pc[t] = "d_getcb" /\ Goto(t, "spin_wait") /\ UNCHANGED <<cbReg, opAlive, dsAlive, cnt, compBy, bad, own>>
     ELSE /\ bad' = TouchOp("try_get_op destructs the callback of a destroyed operation")
          /\ cbReg' = "gone" /\ opAlive' = FALSE /\ compBy' = <<t, loc[t].ch>>
          /\ dsAlive' = (IF own = "op" THEN FALSE ELSE dsAlive)
          /\ cnt' = [cnt EXCEPT !.compl = @ + 1, !.cfreed = IF own = "op" THEN @ + 1 ELSE @]
          /\ UNCHANGED own /\ Return(t)
  /\ UNCHANGED <<scn, par, cbRunBy, srcStopped, dsStopped, slot, ccb, ccbRunBy, loc>>
\* d_getcb is not a hook site: make it internal by giving it priority (see Internal2)

\* ------------------------------------------------------------ request_stop()  (the receiver-token callback)
DLoad(t) == /\ pc[t] = "d_load" /\ bad' = TouchDs("request_stop touches a freed detached_state")
            /\ loc' = [loc EXCEPT ![t].ptr = par.ptr, ![t].cnt = par.cnt]
            /\ IF par.cnt = 0 THEN Return(t) ELSE Goto(t, "d_cas")
            /\ UNCHANGED <<scn, par, cbReg, cbRunBy, srcStopped, dsStopped, opAlive, dsAlive, own, slot, ccb, ccbRunBy, cnt, compBy>>
DCas(t) == /\ pc[t] = "d_cas" /\ bad' = TouchDs("request_stop touches a freed detached_state")
           /\ IF par.ptr = loc[t].ptr /\ par.cnt = loc[t].cnt
              THEN /\ par' = [ptr |-> 0, cnt |-> 2] /\ Goto(t, "d_req")
              ELSE /\ UNCHANGED par /\ Return(t)
           /\ UNCHANGED <<scn, cbReg, cbRunBy, srcStopped, dsStopped, opAlive, dsAlive, own, slot, ccb, ccbRunBy, loc, cnt, compBy>>
\* stopSource_.request_stop(): runs the child's stop callback if it is registered
DReq(t) == /\ pc[t] = "d_req" /\ bad' = TouchDs("request_stop touches a freed detached_state")
           /\ dsStopped' = TRUE
           /\ IF ccb = "reg" /\ ccbRunBy = 0
              THEN /\ ccbRunBy' = t
                   /\ IF slot = "armed"
                      THEN /\ slot' = "taken" /\ ccb' = "gone" /\ loc' = [loc EXCEPT ![t].ch = "done"] /\ Goto(t, "i_ccb")
                      ELSE /\ UNCHANGED <<slot, ccb, loc>> /\ Goto(t, "i_ccbret")
              ELSE /\ UNCHANGED <<ccbRunBy, slot, ccb, loc>> /\ Goto(t, "d_sub")
           /\ UNCHANGED <<scn, par, cbReg, cbRunBy, srcStopped, opAlive, dsAlive, own, stk, cnt, compBy>>
ICcbRet(t) == /\ pc[t] = "i_ccbret" /\ ccbRunBy' = 0 /\ Goto(t, "d_sub")
              /\ UNCHANGED <<scn, par, cbReg, cbRunBy, srcStopped, dsStopped, opAlive, dsAlive, own, slot, ccb, loc, cnt, compBy, bad>>
\* refCount = fetch_sub(1); op->callback_.destruct(); reset or release op->state_; set_done(receiver)
DSub(t) == /\ pc[t] = "d_sub"
           /\ bad' = IF ~dsAlive THEN "request_stop touches a freed detached_state"
                     ELSE IF ~opAlive THEN "request_stop touches a destroyed operation" ELSE bad
           /\ par' = [par EXCEPT !.cnt = IF @ > 0 THEN @ - 1 ELSE 0]
           /\ cbReg' = "gone"
           /\ IF par.cnt = 1 THEN /\ own' = "reset" /\ dsAlive' = FALSE /\ cnt' = [cnt EXCEPT !.cfreed = @ + 1, !.compl = @ + 1]
                             ELSE /\ own' = "released" /\ UNCHANGED dsAlive /\ cnt' = [cnt EXCEPT !.compl = @ + 1]
           /\ opAlive' = FALSE /\ compBy' = <<t, "done">>
           /\ Return(t)
           /\ UNCHANGED <<scn, cbRunBy, srcStopped, dsStopped, slot, ccb, ccbRunBy, loc>>

\* ------------------------------------------------------------ A: the child completes with a value
HA0 == /\ pc[2] = "h_a0" /\ Goto(2, IF slot = "unpub" THEN "h_await" ELSE "h_a1")
       /\ UNCHANGED <<scn, par, cbReg, cbRunBy, srcStopped, dsStopped, opAlive, dsAlive, own, slot, ccb, ccbRunBy, loc, cnt, compBy, bad>>
HAwait == /\ pc[2] = "h_await" /\ slot # "unpub" /\ Goto(2, "h_a1")
          /\ UNCHANGED <<scn, par, cbReg, cbRunBy, srcStopped, dsStopped, opAlive, dsAlive, own, slot, ccb, ccbRunBy, loc, cnt, compBy, bad>>
HA1 == /\ pc[2] = "h_a1"
       /\ IF slot = "armed"
          THEN /\ slot' = "taken" /\ loc' = [loc EXCEPT ![2].ch = "value"]
               /\ Goto(2, IF scn.child = "stopcb" THEN "h_cdereg" ELSE "i_ccb")
          ELSE /\ UNCHANGED <<slot, loc>> /\ Goto(2, "done")
       /\ UNCHANGED <<scn, par, cbReg, cbRunBy, srcStopped, dsStopped, opAlive, dsAlive, own, ccb, ccbRunBy, stk, cnt, compBy, bad>>
\* the child destroys its own stop callback before completing (waits while it runs on another thread)
HCDereg == /\ pc[2] \in {"h_cdereg", "spin_wait2"}
           /\ IF ccb = "reg" /\ ccbRunBy \notin {0, 2}
              THEN /\ pc[2] = "h_cdereg" /\ Goto(2, "spin_wait2") /\ UNCHANGED ccb
              ELSE /\ ccb' = "gone" /\ Goto(2, "i_ccb")
           /\ UNCHANGED <<scn, par, cbReg, cbRunBy, srcStopped, dsStopped, opAlive, dsAlive, own, slot, ccbRunBy, loc, cnt, compBy, bad>>
ARet == /\ pc[2] = "a_ret" /\ Goto(2, "done")
        /\ UNCHANGED <<scn, par, cbReg, cbRunBy, srcStopped, dsStopped, opAlive, dsAlive, own, slot, ccb, ccbRunBy, loc, cnt, compBy, bad>>

\* ------------------------------------------------------------ B: request_stop() on the receiver's source
HB0 == /\ pc[3] = "h_b0" /\ srcStopped' = TRUE
       /\ IF cbReg = "reg" /\ cbRunBy = 0 THEN /\ cbRunBy' = 3 /\ Call(3, "d_load", "b_cbret")
                                          ELSE /\ UNCHANGED cbRunBy /\ Goto(3, "done")
       /\ UNCHANGED <<scn, par, cbReg, dsStopped, opAlive, dsAlive, own, slot, ccb, ccbRunBy, loc, cnt, compBy, bad>>
BCbRet == /\ pc[3] = "b_cbret" /\ cbRunBy' = 0 /\ Goto(3, "done")
          /\ UNCHANGED <<scn, par, cbReg, srcStopped, dsStopped, opAlive, dsAlive, own, slot, ccb, ccbRunBy, loc, cnt, compBy, bad>>

Step(t) == \/ (t = 1 /\ (HS0 \/ ICStart \/ IDone \/ HCs \/ ICRet))
           \/ (t = 2 /\ (HA0 \/ HAwait \/ HA1 \/ HCDereg \/ ARet))
           \/ (t = 3 /\ (HB0 \/ BCbRet))
           \/ ICcb(t) \/ DGet(t) \/ DGetCb(t) \/ DLoad(t) \/ DCas(t) \/ DReq(t) \/ ICcbRet(t) \/ DSub(t)
Internal2(l) == Internal(l) \/ l = "d_getcb"
PcOf(t) == IF Internal2(pc[t]) THEN "" ELSE IF pc[t] = "spin_wait2" THEN "spin_wait" ELSE pc[t]
Sched(t) == bad = "ok" /\ (\A u \in Thr : Internal2(pc[u]) => u = t)
Next == \E t \in Thr : Sched(t) /\ Step(t) /\ lastT' = t /\ lastPc' = PcOf(t)
Spec == Init /\ [][Next]_<<vars, ghosts>>
FairSpec == Spec /\ \A t \in Thr : WF_<<vars, ghosts>>(Sched(t) /\ Step(t) /\ lastT' = t /\ lastPc' = PcOf(t))
View == vars
AllDone == \A t \in Thr : pc[t] = "done"
\* ---- the property formulas of C19 for this component
ExactlyOneCompleter == cnt.compl <= 1 /\ (AllDone => cnt.compl = 1)
AbandonedChildFreedExactlyOnce == cnt.cfreed <= 1 /\ (AllDone => (cnt.cfreed = 1 /\ ~dsAlive))
\* a stop request that has returned on a started operation whose child had not begun to complete has completed it
DetachCompletesDoneAtOnce == (pc[3] = "done" /\ scn.b = 1 /\ pc[1] = "done" /\ cnt.ccb = 0) => (cnt.compl = 1 /\ compBy[2] = "done")
ChildNotFreedBeforeItFinishes == (cnt.cfreed = 1 /\ cnt.nsb = 1) => cnt.ccb = 1
NoTouchAfterWinner == bad = "ok"
NoStuck == (bad = "ok" /\ ~AllDone) => ENABLED Next
Terminates == <>(AllDone \/ bad # "ok")
=============================================================================
