SPECIFICATION Spec
CONSTANTS Scenarios <- Scn
INVARIANTS ExactlyOneCompleter StopHookAtMostOnceAndOnlyWhileRunning LateSafeCallbackIsNoOp NoStuck
VIEW View

CHECK_DEADLOCK FALSE
