SPECIFICATION FairSpec
CONSTANTS Scenarios <- Scn
PROPERTY Terminates
CHECK_DEADLOCK FALSE
