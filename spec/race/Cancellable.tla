--------------------------- MODULE Cancellable ---------------------------
(***************************************************************************)
(* Implementation-shaped specification of unifex::cancellable<> / try_complete *)
(* (include/unifex/cancellable.hpp: _op::stop_type::start, _op::type::start,   *)
(* _op::stop_callback, try_complete) together with the harness nested          *)
(* operation of engines/race/driver.cpp.                                       *)
(*                                                                             *)
(* Threads: 1 = S runs unifex::start(op); 2 = A is the foreign thread on which *)
(* the nested operation completes naturally; 3 = B calls request_stop() on the *)
(* receiver's stop source.                                                     *)
(*                                                                             *)
(* pc labels "h_*", "c_*", "spin_wait" are the schedule points (harness /      *)
(* cancellable.hpp hook sites "race.<label>"); one action = the code between   *)
(* two schedule points.  Other labels are internal continuations of the same   *)
(* step: a thread at an internal label has priority (Next), so the sequence    *)
(* visible-step + internal steps is atomic exactly like the real code between  *)
(* two hooks.                                                                  *)
(*                                                                             *)
(* Scenario fields: mode "normal"|"early" (StopsEarly), nested "async"|"sync"  *)
(* (nested start() completes inline), arb "slot" (an external exchange decides *)
(* who calls try_complete, as the library's own users do) | "tc" (natural      *)
(* completion and stop() hook both call try_complete and its result decides),  *)
(* a, b = 1 if thread A / B takes part.                                        *)
(***************************************************************************)
EXTENDS Naturals, Sequences, FiniteSets, TLC
CONSTANT Scenarios
VARIABLES scn,
          st,          \* state_ : subset of {"stopped","started","completed"}
          flag,        \* the stack-local sync_complete of stop_type::start()
          flagPtr,     \* sync_complete_ member points to the frame of start()
          frameAlive,  \* S is still inside stop_type::start()
          opAlive,     \* the operation state has not been destroyed by the receiver
          cbReg,       \* stop callback: "none" | "reg" | "inline" | "gone"
          cbRunBy,     \* thread executing the stop callback (0 = nobody)
          srcStopped,  \* request_stop() has been called on the source
          slot,        \* harness: "unpub"|"armed"|"firing"|"taken"|"fired"|"cancelled"
          pc, stk,     \* per thread label and return stack
          old,         \* per thread: value returned by its last fetch_or
          tcr,         \* per thread: result of its last try_complete
          cnt,         \* [nsb, nse, nstop, compl, tctrue]
          compBy,      \* <<thread, channel>> of the completion
          bad,         \* "ok" or the first touch of a destroyed object
          hookBad,     \* stop() hook invoked outside its window
          lastT, lastPc
vars == <<scn, st, flag, flagPtr, frameAlive, opAlive, cbReg, cbRunBy, srcStopped, slot, pc, stk, old, tcr, cnt, compBy, bad, hookBad>>
ghosts == <<lastT, lastPc>>
Thr == {1, 2, 3}
Internal(l) == l \in {"i_reg", "i_afterreg", "i_nstart", "ns_sync_ret", "ns_stop", "ns_stop_ret", "a_ret", "b_cbret", "s_end", "s_end_nt"}

Init == /\ scn \in Scenarios
        /\ st = {} /\ flag = FALSE /\ flagPtr = FALSE /\ frameAlive = FALSE /\ opAlive = TRUE
        /\ cbReg = "none" /\ cbRunBy = 0 /\ srcStopped = FALSE /\ slot = "unpub"
        /\ pc = [t \in Thr |-> IF t = 1 THEN "h_s0" ELSE IF t = 2 THEN (IF scn.a = 1 THEN "h_a0" ELSE "done")
                                ELSE (IF scn.b = 1 THEN "h_b0" ELSE "done")]
        /\ stk = [t \in Thr |-> <<>>] /\ old = [t \in Thr |-> {}] /\ tcr = [t \in Thr |-> FALSE]
        /\ cnt = [nsb |-> 0, nse |-> 0, nstop |-> 0, compl |-> 0, tctrue |-> 0]
        /\ compBy = <<0, "">> /\ bad = "ok" /\ hookBad = FALSE
        /\ lastT = 0 /\ lastPc = ""

Goto(t, l) == pc' = [pc EXCEPT ![t] = l] /\ UNCHANGED stk
Call(t, target, ret) == pc' = [pc EXCEPT ![t] = target] /\ stk' = [stk EXCEPT ![t] = <<ret>> \o @]
Return(t) == pc' = [pc EXCEPT ![t] = Head(stk[t])] /\ stk' = [stk EXCEPT ![t] = Tail(@)]
Touch(msg) == bad' = IF opAlive THEN bad ELSE msg
\* thread S is inside the nested_op().stop() call made by stop_type::start() itself
FromStart(t) == t = 1 /\ \E i \in 1..Len(stk[1]) : stk[1][i] = "s_end"
TouchT(t, msg) == Touch(IF FromStart(t) THEN "start(): in its stop() hook call, " \o msg ELSE msg)
\* the receiver's completion function: it destroys the operation state
CompleteVars(t, ch) == /\ compBy' = <<t, ch>> /\ opAlive' = FALSE
IncCompl == cnt' = [cnt EXCEPT !.compl = @ + 1]

\* ------------------------------------------------------------ thread S
HS0 == /\ pc[1] = "h_s0" /\ Goto(1, "i_reg")
       /\ UNCHANGED <<scn, st, flag, flagPtr, frameAlive, opAlive, cbReg, cbRunBy, srcStopped, slot, old, tcr, cnt, compBy, bad, hookBad>>
\* type::start(): construct the stop callback; it runs inline if stop was already requested
IReg == /\ pc[1] = "i_reg"
        /\ IF srcStopped THEN /\ cbReg' = "inline" /\ Call(1, "c_stopped", "i_afterreg")
                         ELSE /\ cbReg' = "reg" /\ Goto(1, "i_afterreg")
        /\ UNCHANGED <<scn, st, flag, flagPtr, frameAlive, opAlive, cbRunBy, srcStopped, slot, old, tcr, cnt, compBy, bad, hookBad>>
IAfterReg == /\ pc[1] = "i_afterreg"
             /\ Goto(1, IF scn.mode = "early" THEN "c_early" ELSE "i_nstart")
             /\ UNCHANGED <<scn, st, flag, flagPtr, frameAlive, opAlive, cbReg, cbRunBy, srcStopped, slot, old, tcr, cnt, compBy, bad, hookBad>>
\* StopsEarly: if (state_.load() & stopped) { nested_op().stop(); return; }
CEarly == /\ pc[1] = "c_early" /\ Touch("type::start() loads state_ of a destroyed op")
          /\ IF "stopped" \in st THEN Call(1, "ns_stop", "s_end_nt") ELSE Goto(1, "i_nstart")
          /\ UNCHANGED <<scn, st, flag, flagPtr, frameAlive, opAlive, cbReg, cbRunBy, srcStopped, slot, old, tcr, cnt, compBy, hookBad>>
\* stop_type::start(): sync_complete_ = &sync_complete; unifex::start(nested_op())
INStart == /\ pc[1] = "i_nstart"
           /\ flagPtr' = TRUE /\ frameAlive' = TRUE
           /\ cnt' = [cnt EXCEPT !.nsb = @ + 1]
           /\ IF scn.nested = "sync"
              THEN /\ slot' = "taken" /\ Call(1, "c_completed", "ns_sync_ret")
              ELSE /\ slot' = "armed" /\ Goto(1, "h_ns")
           /\ UNCHANGED <<scn, st, flag, opAlive, cbReg, cbRunBy, srcStopped, old, tcr, compBy, bad, hookBad>>
NsSyncRet == /\ pc[1] = "ns_sync_ret"
             /\ IF tcr[1] THEN CompleteVars(1, "value") /\ cnt' = [cnt EXCEPT !.compl = @ + 1, !.nse = @ + 1]
                          ELSE /\ cnt' = [cnt EXCEPT !.nse = @ + 1] /\ UNCHANGED <<compBy, opAlive>>
             /\ Goto(1, "c_chk")
             /\ UNCHANGED <<scn, st, flag, flagPtr, frameAlive, cbReg, cbRunBy, srcStopped, slot, old, tcr, bad, hookBad>>
\* the asynchronous nested start() returns
HNs == /\ pc[1] = "h_ns" /\ cnt' = [cnt EXCEPT !.nse = @ + 1] /\ Goto(1, "c_chk")
       /\ UNCHANGED <<scn, st, flag, flagPtr, frameAlive, opAlive, cbReg, cbRunBy, srcStopped, slot, old, tcr, compBy, bad, hookBad>>
\* if (sync_complete.load()) return;      (stack access only)
CChk == /\ pc[1] = "c_chk"
        /\ Goto(1, IF flag THEN "s_end" ELSE "c_started")
        /\ UNCHANGED <<scn, st, flag, flagPtr, frameAlive, opAlive, cbReg, cbRunBy, srcStopped, slot, old, tcr, cnt, compBy, bad, hookBad>>
\* state = this->state_.fetch_or(started)
CStarted == /\ pc[1] = "c_started" /\ Touch("start() executes state_.fetch_or(started) on a destroyed op")
            /\ old' = [old EXCEPT ![1] = st] /\ st' = st \cup {"started"}
            \* (the wait loop has a schedule point only if the flag is still false)
            /\ Goto(1, IF st = {"stopped"} THEN "c_sstop" ELSE IF "completed" \in st /\ ~flag THEN "c_spin" ELSE "s_end")
            /\ UNCHANGED <<scn, flag, flagPtr, frameAlive, opAlive, cbReg, cbRunBy, srcStopped, slot, tcr, cnt, compBy, hookBad>>
\* this->nested_op().stop()   from start()
CSStop == /\ pc[1] = "c_sstop" /\ Call(1, "ns_stop", "s_end")
          /\ UNCHANGED <<scn, st, flag, flagPtr, frameAlive, opAlive, cbReg, cbRunBy, srcStopped, slot, old, tcr, cnt, compBy, bad, hookBad>>
\* while (!sync_complete.load()) {}
CSpin == /\ pc[1] = "c_spin" /\ flag /\ Goto(1, "s_end")
         /\ UNCHANGED <<scn, st, flag, flagPtr, frameAlive, opAlive, cbReg, cbRunBy, srcStopped, slot, old, tcr, cnt, compBy, bad, hookBad>>
SEnd == /\ pc[1] \in {"s_end", "s_end_nt"} /\ frameAlive' = FALSE /\ Goto(1, "done")
        /\ UNCHANGED <<scn, st, flag, flagPtr, opAlive, cbReg, cbRunBy, srcStopped, slot, old, tcr, cnt, compBy, bad, hookBad>>

\* ------------------------------------------------------------ the nested operation's stop() hook (any thread)
NsStop(t) ==
  /\ pc[t] = "ns_stop" /\ TouchT(t, "stop() hook runs on a destroyed nested operation")
  /\ cnt' = [cnt EXCEPT !.nstop = @ + 1]
  \* (a hook invocation on an already destroyed operation is reported through `bad`, which is terminal)
  /\ hookBad' = (hookBad \/ (opAlive /\ (cnt.compl > 0 \/ cnt.nstop > 0
                  \/ (scn.mode = "normal" /\ cnt.nse = 0) \/ (scn.mode = "early" /\ cnt.nsb > 0 /\ cnt.nse = 0))))
  /\ IF scn.arb = "slot"
     THEN IF slot \in {"armed", "unpub"}
          THEN /\ slot' = "taken" /\ Call(t, "c_completed", "ns_stop_ret")
          ELSE /\ UNCHANGED slot /\ Return(t)
     ELSE /\ UNCHANGED slot /\ Call(t, "c_completed", "ns_stop_ret")
  /\ UNCHANGED <<scn, st, flag, flagPtr, frameAlive, opAlive, cbReg, cbRunBy, srcStopped, old, tcr, compBy>>
NsStopRet(t) ==
  /\ pc[t] = "ns_stop_ret"
  /\ IF ~tcr[t] THEN /\ Return(t) /\ UNCHANGED <<slot, cnt, compBy, opAlive>>
     ELSE IF scn.arb = "tc" /\ slot = "firing" THEN /\ Goto(t, "h_fire") /\ UNCHANGED <<slot, cnt, compBy, opAlive>>
     ELSE /\ slot' = (IF scn.arb = "tc" /\ slot = "armed" THEN "cancelled" ELSE slot)
          /\ CompleteVars(t, "done") /\ IncCompl /\ Return(t)
  /\ UNCHANGED <<scn, st, flag, flagPtr, frameAlive, cbReg, cbRunBy, srcStopped, old, tcr, bad, hookBad>>
\* arb = "tc": the stop() hook won try_complete while the natural completion is in flight: wait for it
HFire(t) == /\ pc[t] = "h_fire" /\ slot # "firing" /\ CompleteVars(t, "done") /\ IncCompl /\ Return(t)
            /\ UNCHANGED <<scn, st, flag, flagPtr, frameAlive, cbReg, cbRunBy, srcStopped, slot, old, tcr, bad, hookBad>>

\* ------------------------------------------------------------ try_complete(self) (any thread)
CCompleted(t) ==
  /\ pc[t] = "c_completed" /\ TouchT(t, "try_complete touches a destroyed op")
  /\ old' = [old EXCEPT ![t] = st] /\ st' = st \cup {"completed"}
  /\ IF "completed" \in st THEN /\ tcr' = [tcr EXCEPT ![t] = FALSE] /\ Return(t)
     ELSE /\ UNCHANGED tcr /\ Goto(t, IF "started" \in st THEN "c_cleanup" ELSE "c_flag")
  /\ UNCHANGED <<scn, flag, flagPtr, frameAlive, opAlive, cbReg, cbRunBy, srcStopped, slot, cnt, compBy, hookBad>>
\* if (auto* flag = stop_self->sync_complete_) flag->store(true)
CFlag(t) ==
  /\ pc[t] = "c_flag"
  /\ bad' = IF ~opAlive THEN "try_complete reads sync_complete_ of a destroyed op"
            ELSE IF flagPtr /\ ~frameAlive THEN "try_complete writes the dead stack frame of start()" ELSE bad
  /\ flag' = (flag \/ flagPtr)
  /\ Goto(t, "c_cleanup")
  /\ UNCHANGED <<scn, st, flagPtr, frameAlive, opAlive, cbReg, cbRunBy, srcStopped, slot, old, tcr, cnt, compBy, hookBad>>
\* (*cleanup_)(self): destroy the stop callback; its destructor waits while the callback runs on another thread
CCleanup(t) ==
  /\ pc[t] = "c_cleanup" /\ TouchT(t, "cleanup touches a destroyed op")
  /\ IF cbReg = "reg" /\ cbRunBy \notin {0, t}
     THEN /\ Goto(t, "spin_wait") /\ UNCHANGED <<cbReg, tcr, cnt>>
     ELSE /\ cbReg' = (IF cbReg = "none" THEN "none" ELSE "gone")
          /\ tcr' = [tcr EXCEPT ![t] = TRUE] /\ cnt' = [cnt EXCEPT !.tctrue = @ + 1] /\ Return(t)
  /\ UNCHANGED <<scn, st, flag, flagPtr, frameAlive, opAlive, cbRunBy, srcStopped, slot, old, compBy, hookBad>>
SpinWait(t) ==
  /\ pc[t] = "spin_wait" /\ cbRunBy \in {0, t}
  /\ cbReg' = "gone" /\ tcr' = [tcr EXCEPT ![t] = TRUE] /\ cnt' = [cnt EXCEPT !.tctrue = @ + 1] /\ Return(t)
  /\ UNCHANGED <<scn, st, flag, flagPtr, frameAlive, opAlive, cbRunBy, srcStopped, slot, old, compBy, bad, hookBad>>

\* ------------------------------------------------------------ the stop callback (thread B, or S inline)
CStopped(t) ==
  /\ pc[t] = "c_stopped" /\ Touch("stop callback touches a destroyed op")
  /\ old' = [old EXCEPT ![t] = st] /\ st' = st \cup {"stopped"}
  /\ IF st = {"started"} THEN Goto(t, "c_cstop") ELSE Return(t)
  /\ UNCHANGED <<scn, flag, flagPtr, frameAlive, opAlive, cbReg, cbRunBy, srcStopped, slot, tcr, cnt, compBy, hookBad>>
CCStop(t) == /\ pc[t] = "c_cstop" /\ pc' = [pc EXCEPT ![t] = "ns_stop"] /\ UNCHANGED stk   \* returns to the callback's caller
             /\ UNCHANGED <<scn, st, flag, flagPtr, frameAlive, opAlive, cbReg, cbRunBy, srcStopped, slot, old, tcr, cnt, compBy, bad, hookBad>>

\* ------------------------------------------------------------ thread A: natural completion
HA0 == /\ pc[2] = "h_a0"
       /\ Goto(2, IF slot = "unpub" /\ cnt.compl = 0 THEN "h_await" ELSE "h_a1")
       /\ UNCHANGED <<scn, st, flag, flagPtr, frameAlive, opAlive, cbReg, cbRunBy, srcStopped, slot, old, tcr, cnt, compBy, bad, hookBad>>
HAwait == /\ pc[2] = "h_await" /\ (slot # "unpub" \/ cnt.compl > 0) /\ Goto(2, "h_a1")
          /\ UNCHANGED <<scn, st, flag, flagPtr, frameAlive, opAlive, cbReg, cbRunBy, srcStopped, slot, old, tcr, cnt, compBy, bad, hookBad>>
HA1 == /\ pc[2] = "h_a1"
       /\ IF slot = "armed"
          THEN /\ slot' = (IF scn.arb = "tc" THEN "firing" ELSE "taken") /\ Call(2, "c_completed", "a_ret")
          ELSE /\ UNCHANGED slot /\ Goto(2, "done")
       /\ UNCHANGED <<scn, st, flag, flagPtr, frameAlive, opAlive, cbReg, cbRunBy, srcStopped, old, tcr, cnt, compBy, bad, hookBad>>
ARet == /\ pc[2] = "a_ret"
        /\ IF tcr[2] THEN CompleteVars(2, "value") /\ IncCompl ELSE UNCHANGED <<cnt, compBy, opAlive>>
        /\ slot' = (IF scn.arb = "tc" THEN "fired" ELSE slot)
        /\ Goto(2, "done")
        /\ UNCHANGED <<scn, st, flag, flagPtr, frameAlive, cbReg, cbRunBy, srcStopped, old, tcr, bad, hookBad>>

\* ------------------------------------------------------------ thread B: request_stop()
HB0 == /\ pc[3] = "h_b0" /\ srcStopped' = TRUE
       /\ IF cbReg = "reg" /\ cbRunBy = 0
          THEN /\ cbRunBy' = 3 /\ Call(3, "c_stopped", "b_cbret")
          ELSE /\ UNCHANGED cbRunBy /\ Goto(3, "done")
       /\ UNCHANGED <<scn, st, flag, flagPtr, frameAlive, opAlive, cbReg, slot, old, tcr, cnt, compBy, bad, hookBad>>
BCbRet == /\ pc[3] = "b_cbret" /\ cbRunBy' = 0 /\ Goto(3, "done")
          /\ UNCHANGED <<scn, st, flag, flagPtr, frameAlive, opAlive, cbReg, srcStopped, slot, old, tcr, cnt, compBy, bad, hookBad>>

Step(t) == \/ (t = 1 /\ (HS0 \/ IReg \/ IAfterReg \/ CEarly \/ INStart \/ NsSyncRet \/ HNs \/ CChk \/ CStarted \/ CSStop \/ CSpin \/ SEnd))
           \/ (t = 2 /\ (HA0 \/ HAwait \/ HA1 \/ ARet))
           \/ (t = 3 /\ (HB0 \/ BCbRet))
           \/ NsStop(t) \/ NsStopRet(t) \/ HFire(t) \/ CCompleted(t) \/ CFlag(t) \/ CCleanup(t) \/ SpinWait(t)
           \/ CStopped(t) \/ CCStop(t)
PcOf(t) == IF Internal(pc[t]) THEN "" ELSE pc[t]
\* bad states are terminal (the real execution dies there); a thread inside an atomic stretch has priority
Sched(t) == bad = "ok" /\ (\A u \in Thr : Internal(pc[u]) => u = t)
Next == \E t \in Thr : Sched(t) /\ Step(t) /\ lastT' = t /\ lastPc' = PcOf(t)
Spec == Init /\ [][Next]_<<vars, ghosts>>
FairSpec == Spec /\ \A t \in Thr : WF_<<vars, ghosts>>(Sched(t) /\ Step(t) /\ lastT' = t /\ lastPc' = PcOf(t))
View == vars

AllDone == \A t \in Thr : pc[t] = "done"
\* ---- the property formulas of C19 for this component
ExactlyOneCompleter == cnt.compl <= 1 /\ cnt.tctrue <= 1 /\ (AllDone => cnt.compl = 1)
StopHookAtMostOnceAndOnlyWhileRunning == cnt.nstop <= 1 /\ ~hookBad
SkipStartIsEitherOr == (scn.mode = "early" /\ cnt.nstop = 1 /\ cnt.nsb = 1) => cnt.nse = 1
NoTouchAfterWinner == bad = "ok"
NoStuck == (bad = "ok" /\ ~AllDone) => ENABLED Next
Terminates == <>(AllDone \/ bad # "ok")
=============================================================================
