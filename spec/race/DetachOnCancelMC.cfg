SPECIFICATION Spec
CONSTANTS Scenarios <- Scn
INVARIANTS ExactlyOneCompleter AbandonedChildFreedExactlyOnce DetachCompletesDoneAtOnce ChildNotFreedBeforeItFinishes NoTouchAfterWinner NoStuck
VIEW View
ACTION_CONSTRAINT EdgeLog
CHECK_DEADLOCK FALSE
