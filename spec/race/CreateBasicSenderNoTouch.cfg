SPECIFICATION Spec
CONSTANTS Scenarios <- Scn
INVARIANTS NoTouchAfterWinner
VIEW View
CHECK_DEADLOCK FALSE
