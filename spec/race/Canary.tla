------------------------------ MODULE Canary ------------------------------
(***************************************************************************)
(* Implementation-shaped specification of unifex::canary / canary::watcher  *)
(* / guard (include/unifex/canary.hpp): the two tagged pointers              *)
(* canary::watcher_ (cw) and watcher::canary_ (wc), watcher::state_ (ws),    *)
(* both destructors at single-atomic granularity, alive() and ~guard().      *)
(* Threads: 1 = C destroys the canary (and frees the object it lives in);    *)
(* 2 = W optionally calls alive(), uses the guarded object while the guard   *)
(* is held, releases the guard, then destroys (and frees) the watcher.       *)
(* pc labels "h_*", "k_*" are schedule points ("race.<label>").              *)
(***************************************************************************)
EXTENDS Naturals, Sequences, TLC
CONSTANT Scenarios
VARIABLES scn,
          cw,          \* canary::watcher_  : "null" | "w" | "w_locked"
          wc,          \* watcher::canary_  : "null" | "c" | "c_locked"
          ws,          \* watcher::state_   : "alive" | "guarded" | "dead" | "done"
          aliveC, aliveW,   \* storage of the two objects still valid
          pc, guard,   \* guard: "unset" | "held" | "null" | "released"
          cde,         \* the canary's destructor has returned
          bad, lastT, lastPc
vars == <<scn, cw, wc, ws, aliveC, aliveW, pc, guard, cde, bad>>
ghosts == <<lastT, lastPc>>
Thr == {1, 2}
TouchC == IF aliveC THEN bad ELSE "touched the destroyed canary"
TouchW == IF aliveW THEN bad ELSE "touched the destroyed watcher"
Init == /\ scn \in Scenarios
        /\ cw = "w" /\ wc = "c" /\ ws = "alive" /\ aliveC = TRUE /\ aliveW = TRUE
        /\ pc = [t \in Thr |-> IF t = 1 THEN "h_c0" ELSE "h_w0"]
        /\ guard = "unset" /\ cde = FALSE /\ bad = "ok" /\ lastT = 0 /\ lastPc = ""
Go(t, l) == pc' = [pc EXCEPT ![t] = l]
\* ---------------- thread W ----------------
HW0 == /\ pc[2] = "h_w0" /\ Go(2, IF scn.guard = 1 THEN "k_alive" ELSE "k_w1")
       /\ UNCHANGED <<scn, cw, wc, ws, aliveC, aliveW, guard, cde, bad>>
KAlive == /\ pc[2] = "k_alive" /\ bad' = TouchW          \* alive(): CAS alive -> guarded
          /\ IF ws = "alive" THEN /\ ws' = "guarded" /\ guard' = "held" /\ Go(2, "h_guse")
                             ELSE /\ UNCHANGED ws /\ guard' = "null" /\ Go(2, "k_w1")
          /\ UNCHANGED <<scn, cw, wc, aliveC, aliveW, cde>>
\* while the guard is held the guarded object (the canary's owner) is used
HGuse == /\ pc[2] = "h_guse"
         /\ bad' = IF ~aliveC \/ cde THEN "guard held but the canary's destructor has returned" ELSE bad
         /\ Go(2, "k_gdone")
         /\ UNCHANGED <<scn, cw, wc, ws, aliveC, aliveW, guard, cde>>
KGDone == /\ pc[2] = "k_gdone" /\ bad' = TouchW /\ ws' = "done" /\ guard' = "released" /\ Go(2, "k_w1")
          /\ UNCHANGED <<scn, cw, wc, aliveC, aliveW, cde>>
KW1 == /\ pc[2] = "k_w1" /\ bad' = TouchW                \* c = canary_.load(); lock it or wait
       /\ IF wc = "null" THEN /\ aliveW' = FALSE /\ Go(2, "done") /\ UNCHANGED wc
          ELSE IF wc = "c_locked" THEN /\ Go(2, "k_wspin") /\ UNCHANGED <<wc, aliveW>>
          ELSE /\ wc' = "c_locked" /\ Go(2, "k_w3") /\ UNCHANGED aliveW
       /\ UNCHANGED <<scn, cw, ws, aliveC, guard, cde>>
KWSpin == /\ pc[2] = "k_wspin" /\ wc = "null" /\ bad' = TouchW /\ aliveW' = FALSE /\ Go(2, "done")
          /\ UNCHANGED <<scn, cw, wc, ws, aliveC, guard, cde>>
KW3 == /\ pc[2] \in {"k_w3", "k_wspin2"} /\ bad' = TouchC       \* CAS c->watcher_ : this -> null
       /\ IF cw = "w_locked" THEN /\ pc[2] = "k_w3" /\ Go(2, "k_wspin2") /\ UNCHANGED cw
                             ELSE /\ cw' = "null" /\ Go(2, "k_w4")
       /\ UNCHANGED <<scn, wc, ws, aliveC, aliveW, guard, cde>>
KW4 == /\ pc[2] = "k_w4" /\ bad' = TouchW /\ wc' = "null" /\ aliveW' = FALSE /\ Go(2, "done")
       /\ UNCHANGED <<scn, cw, ws, aliveC, guard, cde>>
\* ---------------- thread C ----------------
HC0 == /\ pc[1] = "h_c0" /\ Go(1, "k_c1") /\ UNCHANGED <<scn, cw, wc, ws, aliveC, aliveW, guard, cde, bad>>
CEnd == /\ aliveC' = FALSE /\ cde' = TRUE /\ Go(1, "done")
KC1 == /\ pc[1] = "k_c1" /\ bad' = TouchC                \* w = watcher_.load(); lock own pointer
       /\ IF cw = "null" THEN /\ CEnd /\ UNCHANGED cw
                         ELSE /\ cw' = "w_locked" /\ Go(1, "k_c3") /\ UNCHANGED <<aliveC, cde>>
       /\ UNCHANGED <<scn, wc, ws, aliveW, guard>>
KC3 == /\ pc[1] = "k_c3" /\ bad' = TouchW                \* CAS w->canary_ : this -> this|1
       /\ IF wc = "c" THEN /\ wc' = "c_locked" /\ Go(1, "k_c4")
                      ELSE /\ UNCHANGED wc /\ Go(1, "k_c3b")      \* the watcher holds it: back off
       /\ UNCHANGED <<scn, cw, ws, aliveC, aliveW, guard, cde>>
KC3b == /\ pc[1] = "k_c3b" /\ bad' = TouchC /\ cw' = "w" /\ Go(1, "k_cspin")     \* unlock watcher_, then wait
        /\ UNCHANGED <<scn, wc, ws, aliveC, aliveW, guard, cde>>
KCSpin == /\ pc[1] = "k_cspin" /\ cw = "null" /\ bad' = TouchC /\ CEnd
          /\ UNCHANGED <<scn, cw, wc, ws, aliveW, guard>>
KC4 == /\ pc[1] = "k_c4" /\ bad' = TouchW                \* old = w->state_.exchange(dead)
       /\ ws' = "dead" /\ Go(1, IF ws = "guarded" THEN "k_gspin" ELSE "k_c5")
       /\ UNCHANGED <<scn, cw, wc, aliveC, aliveW, guard, cde>>
KGSpin == /\ pc[1] = "k_gspin" /\ ws # "dead" /\ bad' = TouchW /\ Go(1, "k_c5")
          /\ UNCHANGED <<scn, cw, wc, ws, aliveC, aliveW, guard, cde>>
KC5 == /\ pc[1] = "k_c5" /\ bad' = TouchW /\ wc' = "null" /\ Go(1, "k_c6")
       /\ UNCHANGED <<scn, cw, ws, aliveC, aliveW, guard, cde>>
KC6 == /\ pc[1] = "k_c6" /\ bad' = TouchC /\ cw' = "null" /\ CEnd
       /\ UNCHANGED <<scn, wc, ws, aliveW, guard>>
Step(t) == \/ (t = 2 /\ (HW0 \/ KAlive \/ HGuse \/ KGDone \/ KW1 \/ KWSpin \/ KW3 \/ KW4))
           \/ (t = 1 /\ (HC0 \/ KC1 \/ KC3 \/ KC3b \/ KCSpin \/ KC4 \/ KGSpin \/ KC5 \/ KC6))
PcOf(t) == pc[t]
Sched(t) == bad = "ok"
Next == \E t \in Thr : Sched(t) /\ Step(t) /\ lastT' = t /\ lastPc' = PcOf(t)
Spec == Init /\ [][Next]_<<vars, ghosts>>
FairSpec == Spec /\ \A t \in Thr : WF_<<vars, ghosts>>(Sched(t) /\ Step(t) /\ lastT' = t /\ lastPc' = PcOf(t))
View == vars
AllDone == \A t \in Thr : pc[t] = "done"
\* ---- the property formulas of C19 for this component
NoTouchOfDeadObject == bad = "ok"
\* the canary's destructor returns only while no guard is held
DestructorBlocksWhileGuardHeld == guard = "held" => ~cde
\* alive() reports dead once the canary's destructor has marked the watcher
CanaryReportsDeadAfterDestruction == (cde /\ guard = "held") => FALSE
NoStuck == (bad = "ok" /\ ~AllDone) => ENABLED Next
Terminates == <>(AllDone \/ bad # "ok")
=============================================================================
