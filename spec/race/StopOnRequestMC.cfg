SPECIFICATION Spec
CONSTANTS Scenarios <- Scn
INVARIANTS ExactlyOneCompleter CompletesIffStopped DoneOnlyAfterStop ErrorOnlyIfThrew AllCallbacksGoneAtCompletion NoTouchAfterWinner NoStuck
VIEW View
ACTION_CONSTRAINT EdgeLog
CHECK_DEADLOCK FALSE
