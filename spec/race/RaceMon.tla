------------------------------ MODULE RaceMon ------------------------------
(***************************************************************************)
(* The C19 monitor: the most permissive behaviour over API-level events of *)
(* ONE operation built with a cancel wrapper that still satisfies the      *)
(* property statement.  Evaluated by TLC on ndjson logs recorded from the  *)
(* real code (executions separated by Reset).  Nothing here mentions       *)
(* internal steps or schedule points.                                      *)
(*                                                                         *)
(* Every event has e (name), t (logical thread), r (int), ch (string).     *)
(*  Reset(comp, mode)      new execution; comp = canc|doc|sor|canary|cbs   *)
(*  StartBegin/StartEnd    unifex::start(op) called / returned             *)
(*  NStartBegin/NStartEnd  the user's start() hook (nested op / child /    *)
(*                         body) entered / returned                        *)
(*  NStop(r)               the user's stop() hook entered (r=1: its own    *)
(*                         members were already clobbered)                 *)
(*  Try(r)                 try_complete returned r                         *)
(*  Complete(ch)           the receiver got set_value/set_error/set_done   *)
(*  OpFreed                the receiver has destroyed the operation state  *)
(*  ReqBegin/ReqEnd        request_stop() on a stop source of the op       *)
(*  CComplBegin(ch)        doc: the child calls its receiver               *)
(*  ChildFreed             doc: the child operation's destructor ran       *)
(*  CbCtor(r)/CbDtor(r)    sor: stop callback r constructed / destroyed    *)
(*  CbThrow(r)             sor: construction of callback r threw           *)
(*  CDtorBegin/CDtorEnd, WDtorBegin/WDtorEnd, Alive(r), GuardUse,          *)
(*  GuardRelease           canary                                          *)
(*  BodyCb / Late(r)       cbs: the body's callback() entered / a safe     *)
(*                         callback returned, r=1 if the body ran          *)
(*  Quiescent(r)           all threads finished; r = harness' own count of *)
(*                         completions                                     *)
(***************************************************************************)
EXTENDS Naturals, Sequences, FiniteSets, TLC, TraceIO
VARIABLES l, comp, mode, c
vars == <<l, comp, mode, c>>
Zero == [sb |-> 0, se |-> 0, nsb |-> 0, nse |-> 0, nstop |-> 0, tryT |-> 0, compl |-> 0, freed |-> 0,
         reqB |-> 0, reqE |-> 0, q |-> 0, ch |-> "",
         ccb |-> 0, cfreed |-> 0,
         ncons |-> 0, ndest |-> 0, threw |-> 0, bodycb |-> 0,
         cdb |-> 0, cde |-> 0, wdb |-> 0, wde |-> 0, guard |-> 0, aliveN |-> 0,
         late |-> 0]
Init == l = 1 /\ comp = "" /\ mode = "" /\ c = Zero /\ TrackInit
E == Log[l]
Is(e) == l <= Len(Log) /\ E.e = e /\ l' = l + 1
Keep == UNCHANGED <<comp, mode>>
\* end-of-execution obligations, checked when a Reset (or the end of the log) is consumed
Closed == comp = "" \/ c.q = 1
Reset == /\ Is("Reset") /\ Closed
         /\ comp' = E.comp /\ mode' = E.mode /\ c' = Zero

IsOp == comp \in {"canc", "doc", "sor", "cbs"}
StartBegin == /\ Is("StartBegin") /\ IsOp /\ c.sb = 0 /\ c.compl = 0
              /\ c' = [c EXCEPT !.sb = 1] /\ Keep
StartEnd == /\ Is("StartEnd") /\ IsOp /\ c.sb = 1 /\ c.se = 0
            \* detach_on_cancel completes with done at once: a stop request that has returned, on a started
            \* operation whose child had not begun to complete, has completed the receiver
            /\ (comp = "doc" /\ c.reqE > 0) => (c.compl = 1 \/ c.ccb = 1)
            /\ c' = [c EXCEPT !.se = 1] /\ Keep
\* the user's start() hook: at most once, only inside start(), never after the completion,
\* and in the skip-start mode never after the stop() hook
\* (detach_on_cancel: the hook is the child's start(); a child abandoned by a stop request that preceded start() is
\* still started, after the receiver was completed with done)
NStartBegin == /\ Is("NStartBegin") /\ IsOp /\ c.sb = 1 /\ c.se = 0 /\ c.nsb = 0
               /\ (comp # "doc") => c.compl = 0
               /\ c.nstop = 0
               /\ c' = [c EXCEPT !.nsb = 1] /\ Keep
NStartEnd == /\ Is("NStartEnd") /\ c.nsb = 1 /\ c.nse = 0
             /\ c' = [c EXCEPT !.nse = 1] /\ Keep
\* the user's stop() hook: at most once, only for an operation that was started (its start() hook has returned)
\* and has not completed -- or instead of start() in the skip-start mode; its own state is intact
NStop == /\ Is("NStop") /\ comp \in {"canc", "cbs"}
         /\ c.nstop = 0 /\ c.compl = 0 /\ c.freed = 0 /\ c.sb = 1
         /\ IF mode = "early" THEN (c.nse = 1 \/ c.nsb = 0) ELSE c.nse = 1
         /\ c.reqB > 0
         /\ E.r = 0
         \* create_basic_sender: not after the body's callback() has accepted the completion
         /\ (comp = "cbs") => c.bodycb = 0
         /\ c' = [c EXCEPT !.nstop = 1] /\ Keep
\* try_complete: at most one caller is told to complete, nobody calls it on a completed operation
Try == /\ Is("Try") /\ comp = "canc" /\ c.compl = 0
       /\ (E.r = 1) => c.tryT = 0
       /\ c' = [c EXCEPT !.tryT = IF E.r = 1 THEN 1 ELSE @] /\ Keep
\* exactly one completion of the receiver
Complete == /\ Is("Complete") /\ IsOp /\ c.sb = 1 /\ c.compl = 0
            /\ (comp = "canc") => c.tryT = 1
            /\ (comp = "canc" /\ E.ch = "done") => c.reqB > 0
            /\ (comp = "doc" /\ c.ccb = 0) => (E.ch = "done" /\ c.reqB > 0)
            /\ (comp = "sor") => \/ (E.ch = "done" /\ c.reqB > 0 /\ c.ncons = c.ndest)
                                 \/ (E.ch = "error" /\ c.threw = 1 /\ c.ncons = c.ndest)
            /\ c' = [c EXCEPT !.compl = 1, !.ch = E.ch] /\ Keep
OpFreed == /\ Is("OpFreed") /\ c.compl = 1 /\ c.freed = 0
           /\ c' = [c EXCEPT !.freed = 1] /\ Keep
ReqBegin == /\ Is("ReqBegin") /\ c' = [c EXCEPT !.reqB = @ + 1] /\ Keep
ReqEnd == /\ Is("ReqEnd") /\ c.reqB > c.reqE
          /\ (comp = "doc" /\ c.se = 1) => (c.compl = 1 \/ c.ccb = 1)
          /\ c' = [c EXCEPT !.reqE = @ + 1] /\ Keep
\* ---- detach_on_cancel: the (possibly abandoned) child
CComplBegin == /\ Is("CComplBegin") /\ comp = "doc" /\ c.ccb = 0 /\ c.nsb = 1 /\ c.cfreed = 0
               /\ c' = [c EXCEPT !.ccb = 1] /\ Keep
ChildFreed == /\ Is("ChildFreed") /\ comp = "doc" /\ c.cfreed = 0
              /\ (c.nsb = 1) => c.ccb = 1            \* a started child is never freed before it finishes
              /\ c' = [c EXCEPT !.cfreed = 1] /\ Keep
\* ---- stop_on_request: callbacks
CbCtor == /\ Is("CbCtor") /\ comp = "sor" /\ c.compl = 0 /\ c.sb = 1 /\ c.se = 0
          /\ c' = [c EXCEPT !.ncons = @ + 1] /\ Keep
CbThrow == /\ Is("CbThrow") /\ comp = "sor" /\ c.compl = 0 /\ c' = [c EXCEPT !.threw = 1] /\ Keep
CbDtor == /\ Is("CbDtor") /\ comp = "sor" /\ c.freed = 0 /\ c.ndest < c.ncons
          /\ c' = [c EXCEPT !.ndest = @ + 1] /\ Keep
\* ---- canary
CDtorBegin == /\ Is("CDtorBegin") /\ comp = "canary" /\ c.cdb = 0 /\ c' = [c EXCEPT !.cdb = 1] /\ Keep
\* the canary's destructor returns only when no guard is held
CDtorEnd == /\ Is("CDtorEnd") /\ c.cdb = 1 /\ c.cde = 0 /\ c.guard # 1
            /\ c' = [c EXCEPT !.cde = 1] /\ Keep
WDtorBegin == /\ Is("WDtorBegin") /\ comp = "canary" /\ c.wdb = 0 /\ c.guard # 1 /\ c' = [c EXCEPT !.wdb = 1] /\ Keep
WDtorEnd == /\ Is("WDtorEnd") /\ c.wdb = 1 /\ c.wde = 0 /\ c' = [c EXCEPT !.wde = 1] /\ Keep
\* alive() is true only while the canary's destructor has not returned; false only once destruction has begun
\* (the guard is single-use: after one guard cycle the watcher reports dead)
Alive == /\ Is("Alive") /\ comp = "canary" /\ c.wdb = 0
         /\ (E.r = 1) => (c.cde = 0 /\ c.guard = 0)
         /\ (E.r = 0) => (c.cdb = 1 \/ c.aliveN > 0)
         /\ c' = [c EXCEPT !.aliveN = @ + 1, !.guard = IF E.r = 1 THEN 1 ELSE @] /\ Keep
GuardUse == /\ Is("GuardUse") /\ c.guard = 1 /\ c.cde = 0 /\ E.r = 0 /\ UNCHANGED c /\ Keep
GuardRelease == /\ Is("GuardRelease") /\ c.guard = 1 /\ c.cde = 0 /\ c' = [c EXCEPT !.guard = 2] /\ Keep
\* ---- create_basic_sender: the body's callback() runs at most once, only for a started, not yet completed operation:
\* a safe callback invoked after the completion is a no-op.  Late(r) = a safe callback returned, r=1 if the body ran.
BodyCb == /\ Is("BodyCb") /\ comp = "cbs" /\ c.bodycb = 0 /\ c.compl = 0 /\ c.freed = 0 /\ c.nse = 1 /\ c.nstop = 0
          /\ c' = [c EXCEPT !.bodycb = 1] /\ Keep
Late == /\ Is("Late") /\ comp = "cbs"
        /\ (E.r = 1) => c.bodycb = 1
        /\ c' = [c EXCEPT !.late = @ + 1] /\ Keep
\* ---- end of an execution: every thread has finished
Quiescent == /\ Is("Quiescent") /\ c.q = 0
             /\ IsOp => (c.sb = 1 /\ c.se = 1 /\ c.compl = 1 /\ c.freed = 1 /\ E.r = 1 /\ c.nse = c.nsb)
             /\ (comp = "doc") => c.cfreed = 1
             /\ (comp = "sor") => c.ncons = c.ndest
             /\ (comp = "canary") => (c.cde = 1 /\ c.wde = 1 /\ c.guard # 1)
             /\ c' = [c EXCEPT !.q = 1] /\ Keep
Next == Reset \/ StartBegin \/ StartEnd \/ NStartBegin \/ NStartEnd \/ NStop \/ Try \/ Complete \/ OpFreed
        \/ ReqBegin \/ ReqEnd \/ CComplBegin \/ ChildFreed \/ CbCtor \/ CbThrow \/ CbDtor
        \/ CDtorBegin \/ CDtorEnd \/ WDtorBegin \/ WDtorEnd \/ Alive \/ GuardUse \/ GuardRelease \/ BodyCb \/ Late \/ Quiescent
Spec == Init /\ [][Next]_vars
Track == TrackAt(l, Closed)
Report == ReportTrace
=============================================================================
