SPECIFICATION Spec
CONSTANTS Scenarios <- Scn
INVARIANTS ExactlyOneCompleter StopHookAtMostOnceAndOnlyWhileRunning SkipStartIsEitherOr NoStuck
VIEW View
ACTION_CONSTRAINT EdgeLog
CHECK_DEADLOCK FALSE
