---- MODULE DetachOnCancelLive ----
EXTENDS DetachOnCancel, Json, IOUtils
ScnSeq == JsonDeserialize(IOEnv.SCENARIOS)
Scn == {ScnSeq[i] : i \in 1..Len(ScnSeq)}
====
