---- MODULE CanaryLive ----
EXTENDS Canary, Json, IOUtils
ScnSeq == JsonDeserialize(IOEnv.SCENARIOS)
Scn == {ScnSeq[i] : i \in 1..Len(ScnSeq)}
====
