SPECIFICATION Spec
CONSTANTS Scenarios <- Scn
INVARIANTS ExactlyOneCompleter StopHookAtMostOnceAndOnlyWhileRunning LateSafeCallbackIsNoOp NoStuck
VIEW View
ACTION_CONSTRAINT EdgeLog
CHECK_DEADLOCK FALSE
