SPECIFICATION Spec
CONSTANTS Scenarios <- Scn
INVARIANTS NoTouchOfDeadObject DestructorBlocksWhileGuardHeld CanaryReportsDeadAfterDestruction NoStuck
VIEW View
ACTION_CONSTRAINT EdgeLog
CHECK_DEADLOCK FALSE
