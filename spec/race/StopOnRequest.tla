--------------------------- MODULE StopOnRequest ---------------------------
(***************************************************************************)
(* Implementation-shaped specification of unifex::stop_on_request           *)
(* (include/unifex/stop_on_request.hpp: _op::type start / constructCallbacks *)
(* / request_stop / complete, callbackState_ INIT -> ALL_CONSTRUCTED |        *)
(* AT_LEAST_ONE_CALLED) with two stop sources: 0 = the receiver's token,     *)
(* 1 = one external token.  Threads: 1 = S runs unifex::start(op);           *)
(* 2 / 3 = request_stop() on source 0 / 1.  Scenario field throwAt: index of *)
(* the callback whose construction throws (9 = none).                        *)
(* pc labels "h_*", "r_*", "spin_wait*" are schedule points; the others are  *)
(* internal continuations of the same atomic stretch.                        *)
(***************************************************************************)
EXTENDS Naturals, Sequences, FiniteSets, TLC
CONSTANT Scenarios
VARIABLES scn, state, reg, runBy, srcStopped, opAlive, pc, stk, cur, cnt, compBy, bad, lastT, lastPc
vars == <<scn, state, reg, runBy, srcStopped, opAlive, pc, stk, cur, cnt, compBy, bad>>
ghosts == <<lastT, lastPc>>
Thr == {1, 2, 3}
Cb == {0, 1}
Internal(l) == l \in {"i_next", "i_unwind", "i_cmp1", "i_cmp0", "i_cmpdone", "i_cbret", "i_err"}
Init == /\ scn \in Scenarios
        /\ state = "INIT" /\ reg = [i \in Cb |-> "none"] /\ runBy = [i \in Cb |-> 0] /\ srcStopped = [i \in Cb |-> FALSE]
        /\ opAlive = TRUE
        /\ pc = [t \in Thr |-> IF t = 1 THEN "h_s0" ELSE IF t = 2 THEN (IF scn.b0 = 1 THEN "h_b0" ELSE "done")
                                ELSE (IF scn.b1 = 1 THEN "h_b1" ELSE "done")]
        /\ stk = [t \in Thr |-> <<>>] /\ cur = 0
        /\ cnt = [compl |-> 0, ncons |-> 0, ndest |-> 0, threw |-> 0]
        /\ compBy = <<0, "">> /\ bad = "ok" /\ lastT = 0 /\ lastPc = ""
Goto(t, l) == pc' = [pc EXCEPT ![t] = l] /\ UNCHANGED stk
Call(t, target, ret) == pc' = [pc EXCEPT ![t] = target] /\ stk' = [stk EXCEPT ![t] = <<ret>> \o @]
Return(t) == pc' = [pc EXCEPT ![t] = Head(stk[t])] /\ stk' = [stk EXCEPT ![t] = Tail(@)]
Touch(msg) == bad' = IF opAlive THEN bad ELSE msg

\* ------------------------------------------------------------ S: start()
HS0 == /\ pc[1] = "h_s0" /\ Goto(1, "h_cb0")
       /\ UNCHANGED <<scn, state, reg, runBy, srcStopped, opAlive, cur, cnt, compBy, bad>>
\* construct callback i (0 = receiverStopCallback_, 1 = stopCallbacks_[0]); may throw; runs inline if already stopped
HCb(i) == /\ pc[1] = (IF i = 0 THEN "h_cb0" ELSE "h_cb1") /\ Touch("start() constructs a callback in a destroyed op")
          /\ IF scn.throwAt = i
             THEN /\ cnt' = [cnt EXCEPT !.threw = 1] /\ cur' = i /\ Goto(1, "i_unwind") /\ UNCHANGED reg
             ELSE /\ cnt' = [cnt EXCEPT !.ncons = @ + 1] /\ cur' = i
                  /\ IF srcStopped[i] THEN /\ reg' = [reg EXCEPT ![i] = "inline"] /\ Call(1, "r_xchg", "i_next")
                                      ELSE /\ reg' = [reg EXCEPT ![i] = "reg"] /\ Goto(1, "i_next")
          /\ UNCHANGED <<scn, state, runBy, srcStopped, opAlive, compBy>>
INext == /\ pc[1] = "i_next" /\ Goto(1, IF cur = 0 THEN "h_cb1" ELSE "r_cas")
         /\ UNCHANGED <<scn, state, reg, runBy, srcStopped, opAlive, cur, cnt, compBy, bad>>
\* exception unwinding: destroy the callbacks constructed so far (here: at most callback 0), then the catch block
IUnwind == /\ pc[1] \in {"i_unwind", "spin_wait_u"}
           /\ IF cur = 1 /\ reg[0] = "reg" /\ runBy[0] \notin {0, 1}
              THEN /\ pc[1] = "i_unwind" /\ Goto(1, "spin_wait_u") /\ UNCHANGED <<reg, cnt>>
              ELSE /\ reg' = [reg EXCEPT ![0] = IF cur = 1 THEN "gone" ELSE @]
                   /\ cnt' = [cnt EXCEPT !.ndest = IF cur = 1 THEN @ + 1 ELSE @]
                   /\ Goto(1, "r_load")
           /\ UNCHANGED <<scn, state, runBy, srcStopped, opAlive, cur, compBy, bad>>
\* catch (...): done if a stop request was seen, otherwise the error
RLoad == /\ pc[1] = "r_load" /\ Touch("start() loads callbackState_ of a destroyed op")
         /\ cnt' = [cnt EXCEPT !.compl = @ + 1] /\ opAlive' = FALSE
         /\ compBy' = <<1, IF state = "ONE" THEN "done" ELSE "error">>
         /\ Goto(1, "done")
         /\ UNCHANGED <<scn, state, reg, runBy, srcStopped, cur>>
\* compare_exchange(INIT -> ALL_CONSTRUCTED_NOT_CALLED); on failure complete() on behalf of the callback
RCas == /\ pc[1] = "r_cas" /\ Touch("start() touches callbackState_ of a destroyed op")
        /\ IF state = "INIT" THEN /\ state' = "ALL" /\ Goto(1, "done")
                             ELSE /\ UNCHANGED state /\ Call(1, "i_cmp1", "done")
        /\ UNCHANGED <<scn, reg, runBy, srcStopped, opAlive, cur, cnt, compBy>>

\* ------------------------------------------------------------ complete(): destroy callback 1, callback 0, set_done
Destroy(t, i, from, spin, next) ==
  /\ pc[t] \in {from, spin}
  /\ IF reg[i] = "reg" /\ runBy[i] \notin {0, t}
     THEN /\ pc[t] = from /\ Goto(t, spin) /\ UNCHANGED <<reg, cnt, bad>>
     ELSE /\ Touch("complete() destroys a callback of a destroyed op")
          /\ reg' = [reg EXCEPT ![i] = "gone"]
          /\ cnt' = [cnt EXCEPT !.ndest = IF reg[i] \in {"reg", "inline"} THEN @ + 1 ELSE @] /\ Goto(t, next)
  /\ UNCHANGED <<scn, state, runBy, srcStopped, opAlive, cur, compBy>>
ICmp1(t) == Destroy(t, 1, "i_cmp1", "spin_wait_1", "i_cmp0")
ICmp0(t) == Destroy(t, 0, "i_cmp0", "spin_wait_0", "i_cmpdone")
ICmpDone(t) == /\ pc[t] = "i_cmpdone" /\ cnt' = [cnt EXCEPT !.compl = @ + 1] /\ opAlive' = FALSE /\ compBy' = <<t, "done">>
               /\ Return(t)
               /\ UNCHANGED <<scn, state, reg, runBy, srcStopped, cur, bad>>

\* ------------------------------------------------------------ request_stop() (a cancel_callback on thread t)
RXchg(t) == /\ pc[t] = "r_xchg" /\ Touch("request_stop() touches a destroyed op")
            /\ state' = "ONE"
            /\ IF state = "ALL" THEN (pc' = [pc EXCEPT ![t] = "i_cmp1"] /\ UNCHANGED stk) ELSE Return(t)
            /\ UNCHANGED <<scn, reg, runBy, srcStopped, opAlive, cur, cnt, compBy>>
\* ------------------------------------------------------------ B0 / B1: request_stop() on source i
HB(i) == LET t == i + 2 IN
         /\ pc[t] = (IF i = 0 THEN "h_b0" ELSE "h_b1") /\ srcStopped' = [srcStopped EXCEPT ![i] = TRUE]
         /\ IF reg[i] = "reg" /\ runBy[i] = 0
            THEN /\ runBy' = [runBy EXCEPT ![i] = t] /\ Call(t, "r_xchg", "i_cbret")
            ELSE /\ UNCHANGED runBy /\ Goto(t, "done")
         /\ UNCHANGED <<scn, state, reg, opAlive, cur, cnt, compBy, bad>>
ICbRet(t) == /\ pc[t] = "i_cbret" /\ t \in {2, 3} /\ runBy' = [runBy EXCEPT ![t - 2] = 0] /\ Goto(t, "done")
             /\ UNCHANGED <<scn, state, reg, srcStopped, opAlive, cur, cnt, compBy, bad>>

Step(t) == \/ (t = 1 /\ (HS0 \/ HCb(0) \/ HCb(1) \/ INext \/ IUnwind \/ RLoad \/ RCas))
           \/ (t = 2 /\ HB(0)) \/ (t = 3 /\ HB(1))
           \/ ICmp1(t) \/ ICmp0(t) \/ ICmpDone(t) \/ RXchg(t) \/ ICbRet(t)
PcOf(t) == IF Internal(pc[t]) THEN ""
           ELSE IF pc[t] \in {"spin_wait_u", "spin_wait_1", "spin_wait_0"} THEN "spin_wait"
           ELSE IF pc[t] \in {"h_cb0", "h_cb1"} THEN "h_cb" ELSE pc[t]
Sched(t) == bad = "ok" /\ (\A u \in Thr : Internal(pc[u]) => u = t)
Next == \E t \in Thr : Sched(t) /\ Step(t) /\ lastT' = t /\ lastPc' = PcOf(t)
Spec == Init /\ [][Next]_<<vars, ghosts>>
FairSpec == Spec /\ \A t \in Thr : WF_<<vars, ghosts>>(Sched(t) /\ Step(t) /\ lastT' = t /\ lastPc' = PcOf(t))
View == vars
AllDone == \A t \in Thr : pc[t] = "done"
AnyStop == srcStopped[0] \/ srcStopped[1]
\* ---- the property formulas of C19 for this component
ExactlyOneCompleter == cnt.compl <= 1
\* it completes iff a stop was requested (or construction threw); and never before every callback is gone
CompletesIffStopped == AllDone => (cnt.compl = 1 <=> (AnyStop \/ cnt.threw = 1))
DoneOnlyAfterStop == (cnt.compl = 1 /\ compBy[2] = "done") => AnyStop
ErrorOnlyIfThrew == (cnt.compl = 1 /\ compBy[2] = "error") => cnt.threw = 1
AllCallbacksGoneAtCompletion == cnt.compl = 1 => cnt.ncons = cnt.ndest
NoTouchAfterWinner == bad = "ok"
NoStuck == (bad = "ok" /\ ~AllDone) => ENABLED Next
Terminates == <>(AllDone \/ bad # "ok")
=============================================================================
