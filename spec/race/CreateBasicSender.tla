--------------------------- MODULE CreateBasicSender ---------------------------
(***************************************************************************)
(* Implementation-shaped specification of unifex::create_basic_sender's      *)
(* operation state (include/unifex/create_basic_sender.hpp: _op start /       *)
(* start_impl / callback_impl / complete, _stop_callback, _state phase_,      *)
(* safe callbacks = weak_ptr to safe_cb_holder_) with the recursive mutex as  *)
(* atomic blocks, and the harness body of engines/race/driver.cpp (start()    *)
(* hands a copy of safe_callback<int>(op) to thread A; stop() calls           *)
(* op.set_done(); callback() calls op.set_value()).                           *)
(* Threads: 1 = S unifex::start(op); 2 = A invokes the safe callback twice    *)
(* (the second call is certainly late); 3 = B request_stop().                 *)
(* pc labels "h_*", "b_*", "spin_wait*" are schedule points.  Scenario field  *)
(* lk = 1: the sender is built with the harness lock factory, which has a     *)
(* schedule point (race.h_lock) in front of every lock acquisition; with      *)
(* lk = 0 (default recursive mutex) the "h_lock_*" labels are internal        *)
(* continuations.  Scenario field mut = 1 is a SPEC-LEVEL MUTATION used only  *)
(* by CreateBasicSenderMut.cfg: the stop callback tests finished() before it  *)
(* takes the lock and does not re-check under the lock.                       *)
(***************************************************************************)
EXTENDS Naturals, Sequences, FiniteSets, TLC
CONSTANT Scenarios
VARIABLES scn,
          phase,       \* "starting" | "started" | "stopped_early" | "completed_normally"
          holder,      \* safe_cb_holder_ is set
          strong,      \* threads that hold a shared_ptr obtained from weak_.lock()
          opAlive, cbReg, cbRunBy, srcStopped, published,
          pend,        \* the completion stored in the receiver wrapper
          willComplete,\* per thread: its locked block returned completed = true
          acall,       \* which of A's two calls is in progress
          hookBad,     \* the body's stop() ran for an operation whose completion was already accepted
          pc, cnt, compBy, bad, lastT, lastPc
vars == <<scn, phase, holder, strong, opAlive, cbReg, cbRunBy, srcStopped, published, pend, willComplete, acall, hookBad, pc, cnt, compBy, bad>>
ghosts == <<lastT, lastPc>>
Thr == {1, 2, 3}
Finished == phase \in {"stopped_early", "completed_normally"}
Init == /\ scn \in Scenarios
        /\ phase = "starting" /\ holder = FALSE /\ strong = {} /\ opAlive = TRUE /\ cbReg = "none" /\ cbRunBy = 0
        /\ srcStopped = FALSE /\ published = FALSE /\ pend = "" /\ willComplete = [t \in Thr |-> FALSE] /\ acall = 1 /\ hookBad = FALSE
        /\ pc = [t \in Thr |-> IF t = 1 THEN "h_s0" ELSE IF t = 2 THEN (IF scn.a = 1 THEN "h_a0" ELSE "done")
                                ELSE (IF scn.b = 1 THEN "h_b0" ELSE "done")]
        /\ cnt = [nsb |-> 0, nstop |-> 0, bodycb |-> 0, compl |-> 0, lateRan |-> 0]
        /\ compBy = <<0, "">> /\ bad = "ok" /\ lastT = 0 /\ lastPc = ""
Go(t, l) == pc' = [pc EXCEPT ![t] = l]
Touch(msg) == bad' = IF opAlive THEN bad ELSE msg
\* complete(): stop_.destruct() (waits while the stop callback runs on another thread), then the receiver is completed
Blocked(t) == cbReg = "reg" /\ cbRunBy \notin {0, t}
DoComplete(t) == /\ cbReg' = "gone" /\ opAlive' = FALSE /\ cnt' = [cnt EXCEPT !.compl = @ + 1] /\ compBy' = <<t, pend>>

\* ------------------------------------------------------------ S
HS0 == /\ pc[1] = "h_s0"                      \* start_impl: stop_.construct(...): the callback runs inline if stop was requested
       /\ IF srcStopped THEN /\ cbReg' = "inline" /\ Go(1, "h_lock_i")
                        ELSE /\ cbReg' = "reg" /\ Go(1, "b_start")
       /\ UNCHANGED <<scn, phase, pend, holder, strong, opAlive, cbRunBy, srcStopped, published, willComplete, acall, hookBad, cnt, compBy, bad>>
\* the inline stop callback's locked block (the operation has not started: set_done, start_impl completes)
HLockI == /\ pc[1] = "h_lock_i" /\ phase' = "stopped_early" /\ pend' = "done" /\ Go(1, "b_start")
          /\ UNCHANGED <<scn, holder, strong, opAlive, cbReg, cbRunBy, srcStopped, published, willComplete, acall, hookBad, cnt, compBy, bad>>
BStart == /\ pc[1] = "b_start" /\ Go(1, "h_lock_s")
          /\ UNCHANGED <<scn, phase, pend, holder, strong, opAlive, cbReg, cbRunBy, srcStopped, published, willComplete, acall, hookBad, cnt, compBy, bad>>
HLockS == /\ pc[1] = "h_lock_s" /\ Touch("start() locks a destroyed operation")   \* { lock; set_started; body.start; completed? }
          /\ IF phase = "starting"
             THEN /\ phase' = "started" /\ published' = TRUE /\ holder' = TRUE /\ cnt' = [cnt EXCEPT !.nsb = @ + 1]
                  /\ UNCHANGED willComplete
             ELSE /\ UNCHANGED <<phase, published, cnt>> /\ holder' = FALSE        \* stopped before start: completed
                  /\ willComplete' = [willComplete EXCEPT ![1] = TRUE]
          /\ Go(1, "b_stcmp")
          /\ UNCHANGED <<scn, strong, opAlive, cbReg, cbRunBy, srcStopped, pend, acall, hookBad, compBy>>
BStCmp == /\ pc[1] \in {"b_stcmp", "spin_wait_s"}
          /\ IF ~willComplete[1] THEN /\ pc[1] = "b_stcmp" /\ Go(1, "done") /\ UNCHANGED <<cbReg, opAlive, cnt, compBy, bad>>
             ELSE IF Blocked(1) THEN /\ pc[1] = "b_stcmp" /\ Go(1, "spin_wait_s") /\ UNCHANGED <<cbReg, opAlive, cnt, compBy, bad>>
             ELSE /\ Touch("start() completes a destroyed operation") /\ DoComplete(1) /\ Go(1, "done")
          /\ UNCHANGED <<scn, hookBad, phase, holder, strong, cbRunBy, srcStopped, published, pend, willComplete, acall>>
\* ------------------------------------------------------------ A: a safe callback
HA0 == /\ pc[2] = "h_a0" /\ Go(2, IF ~published /\ cnt.compl = 0 THEN "h_await" ELSE IF published THEN "h_a1" ELSE "done")
       /\ UNCHANGED <<scn, hookBad, phase, holder, strong, opAlive, cbReg, cbRunBy, srcStopped, published, pend, willComplete, acall, cnt, compBy, bad>>
HAwait == /\ pc[2] = "h_await" /\ (published \/ cnt.compl > 0) /\ Go(2, IF published THEN "h_a1" ELSE "done")
          /\ UNCHANGED <<scn, hookBad, phase, holder, strong, opAlive, cbReg, cbRunBy, srcStopped, published, pend, willComplete, acall, cnt, compBy, bad>>
AfterCall == IF acall = 1 THEN "h_a2" ELSE "done"
\* operator(): ptr = weak_.lock()
HACall == /\ pc[2] = (IF acall = 1 THEN "h_a1" ELSE "h_a2")
          /\ IF holder THEN /\ strong' = strong \cup {2} /\ Go(2, "b_cb") /\ UNCHANGED acall
                       ELSE /\ UNCHANGED strong /\ Go(2, AfterCall) /\ acall' = 2      \* expired: no-op
          /\ UNCHANGED <<scn, hookBad, phase, holder, opAlive, cbReg, cbRunBy, srcStopped, published, pend, willComplete, cnt, compBy, bad>>
BCb == /\ pc[2] = "b_cb" /\ Go(2, "h_lock_a")
       /\ UNCHANGED <<scn, phase, pend, holder, strong, opAlive, cbReg, cbRunBy, srcStopped, published, willComplete, acall, hookBad, cnt, compBy, bad>>
\* callback_impl: { lock; finished? ; body.callback -> set_value ; completed? }
HLockA == /\ pc[2] = "h_lock_a" /\ Touch("safe callback: callback_impl locks the mutex of a destroyed operation")
          /\ IF Finished
             THEN /\ strong' = strong \ {2} /\ Go(2, AfterCall) /\ acall' = 2
                  /\ UNCHANGED <<phase, pend, holder, willComplete, cnt>>
             ELSE /\ phase' = "completed_normally" /\ pend' = "value" /\ holder' = FALSE
                  /\ willComplete' = [willComplete EXCEPT ![2] = TRUE]
                  /\ cnt' = [cnt EXCEPT !.bodycb = @ + 1, !.lateRan = IF cnt.compl > 0 THEN @ + 1 ELSE @]
                  /\ Go(2, "b_cmp") /\ UNCHANGED <<strong, acall>>
          /\ UNCHANGED <<scn, opAlive, cbReg, cbRunBy, srcStopped, published, hookBad, compBy>>
BCmp == /\ pc[2] \in {"b_cmp", "spin_wait_a"}
        /\ IF Blocked(2) THEN /\ pc[2] = "b_cmp" /\ Go(2, "spin_wait_a") /\ UNCHANGED <<cbReg, opAlive, cnt, compBy, bad, strong, acall>>
           ELSE /\ Touch("safe callback completes a destroyed operation") /\ DoComplete(2)
                /\ strong' = strong \ {2} /\ Go(2, AfterCall) /\ acall' = 2
        /\ UNCHANGED <<scn, hookBad, phase, holder, cbRunBy, srcStopped, published, pend, willComplete>>
\* ------------------------------------------------------------ B: request_stop() -> _stop_callback
HB0 == /\ pc[3] = "h_b0" /\ srcStopped' = TRUE
       /\ IF cbReg = "reg" /\ cbRunBy = 0 /\ ~(scn.mut = 1 /\ Finished)       \* mut: unlocked finished() fast path
          THEN /\ cbRunBy' = 3 /\ Go(3, "h_lock_b")
          ELSE /\ Go(3, "done") /\ UNCHANGED cbRunBy
       /\ UNCHANGED <<scn, phase, pend, holder, willComplete, cnt, bad, strong, opAlive, cbReg, published, acall, hookBad, compBy>>
\* _stop_callback: { lock; finished? return; not_started? set_done, return; body.stop -> set_done; completed? }
HLockB == /\ pc[3] = "h_lock_b" /\ Touch("stop callback locks a destroyed operation")
          /\ IF Finished /\ scn.mut = 0
             THEN /\ cbRunBy' = 0 /\ Go(3, "done") /\ UNCHANGED <<phase, pend, holder, willComplete, cnt, hookBad>>
             ELSE IF phase = "starting"
             THEN /\ phase' = "stopped_early" /\ pend' = "done" /\ cbRunBy' = 0 /\ Go(3, "done")
                  /\ UNCHANGED <<holder, willComplete, cnt, hookBad>>
             ELSE /\ hookBad' = (hookBad \/ Finished)
                  /\ phase' = (IF Finished THEN phase ELSE "completed_normally")
                  /\ pend' = (IF Finished THEN pend ELSE "done") /\ holder' = FALSE
                  /\ willComplete' = [willComplete EXCEPT ![3] = TRUE] /\ cnt' = [cnt EXCEPT !.nstop = @ + 1]
                  /\ UNCHANGED cbRunBy /\ Go(3, "b_scmp")
          /\ UNCHANGED <<scn, strong, opAlive, cbReg, srcStopped, published, acall, compBy>>
BSCmp == /\ pc[3] = "b_scmp" /\ Touch("stop callback completes a destroyed operation") /\ DoComplete(3)
         /\ cbRunBy' = 0 /\ Go(3, "done")
         /\ UNCHANGED <<scn, hookBad, phase, holder, strong, srcStopped, published, pend, willComplete, acall>>
Step(t) == \/ (t = 1 /\ (HS0 \/ HLockI \/ BStart \/ HLockS \/ BStCmp))
           \/ (t = 2 /\ (HA0 \/ HAwait \/ HACall \/ BCb \/ HLockA \/ BCmp)) \/ (t = 3 /\ (HB0 \/ HLockB \/ BSCmp))
LockLabel(l) == l \in {"h_lock_i", "h_lock_s", "h_lock_a", "h_lock_b"}
Internal(t) == scn.lk = 0 /\ LockLabel(pc[t])
PcOf(t) == IF pc[t] \in {"spin_wait_s", "spin_wait_a"} THEN "spin_wait"
           ELSE IF LockLabel(pc[t]) THEN (IF scn.lk = 0 THEN "" ELSE "h_lock") ELSE pc[t]
Sched(t) == bad = "ok" /\ (\A u \in Thr : Internal(u) => u = t)
Next == \E t \in Thr : Sched(t) /\ Step(t) /\ lastT' = t /\ lastPc' = PcOf(t)
Spec == Init /\ [][Next]_<<vars, ghosts>>
FairSpec == Spec /\ \A t \in Thr : WF_<<vars, ghosts>>(Sched(t) /\ Step(t) /\ lastT' = t /\ lastPc' = PcOf(t))
View == vars
AllDone == \A t \in Thr : pc[t] = "done"
\* ---- the property formulas of C19 for this component
ExactlyOneCompleter == cnt.compl <= 1 /\ (AllDone => cnt.compl = 1)
StopHookAtMostOnceAndOnlyWhileRunning == cnt.nstop <= 1 /\ (cnt.nstop = 1 => cnt.nsb = 1) /\ ~hookBad
LateSafeCallbackIsNoOp == cnt.lateRan = 0 /\ cnt.bodycb <= 1
NoTouchAfterWinner == bad = "ok"
NoStuck == (bad = "ok" /\ ~AllDone) => ENABLED Next
Terminates == <>(AllDone \/ bad # "ok")
=============================================================================
