----------------------------- MODULE MutexMon -----------------------------
(***************************************************************************)
(* The C15 monitor: the most permissive behaviour over API-level events of *)
(* one async_mutex (v1 or the cancellable v2) that still satisfies the     *)
(* property statement.  Evaluated by TLC on an ndjson log recorded from    *)
(* the real code (many executions, separated by Reset).                    *)
(* Events (fields e, a = lock attempt, t = thread, r = result):            *)
(*   Reset(r = mutex version)                                              *)
(*   LockStart(a)  just before start() of an async_lock() operation        *)
(*   StartEnd(a)   start() has returned                                    *)
(*   Acquired(a)   the receiver got set_value (logged after the grant)     *)
(*   Done(a)       the receiver got set_done                               *)
(*   TryLock(a,r)  try_lock() returned r                                   *)
(*   Unlock(a)     the owner a is about to call unlock() (logged before)   *)
(*   Stop(a)       request_stop() on a's stop source is about to be called *)
(*   Probe(r)      every thread has finished; a fresh try_lock returned r  *)
(* Logged ownership intervals are sub-intervals of the real ones, so an    *)
(* overlap in the log is an overlap in reality.                            *)
(*                                                                         *)
(* PROP switch (environment variable PROP, default "C15"):                 *)
(*  "C15"  mutual exclusion / exactly-once / cancelled never owns / FIFO / *)
(*         no lost waiter / lock not leaked (the rules described above)    *)
(*  "C11"  only the scheduler-affinity clause for the cancellable mutex    *)
(*         (is_always_scheduler_affine): every harness thread t is a       *)
(*         context with its own recording manual scheduler, drained only   *)
(*         by t; the receiver of an attempt started by t reports that      *)
(*         scheduler.  If the attempt was started on t and every stop      *)
(*         request for it was issued on t, its completion (Acquired or     *)
(*         Done) must be delivered on t - even when the unlock that grants *)
(*         the lock runs on a foreign thread.                              *)
(***************************************************************************)
EXTENDS Naturals, Sequences, FiniteSets, TLC, TraceIO
Att == 1..6
Prop == IF "PROP" \in DOMAIN IOEnv THEN IOEnv.PROP ELSE "C15"
P15 == Prop = "C15"
VARIABLES l,         \* next line of the log
          ver,       \* 1 | 2
          phase,     \* [Att -> "idle"|"started"|"own"|"done"|"released"|"failed"]
          ended,     \* [Att -> BOOLEAN]  start() has returned
          stopped,   \* [Att -> BOOLEAN]  a stop request has been issued
          pred,      \* [Att -> SUBSET Att] attempts that were queued (start returned, still waiting) when a's start began
          holder,    \* 0 | the attempt that owns the mutex
          probe,     \* 2 not probed yet | result (0,1) of the final fresh try_lock
          startT,    \* [Att -> thread (= context) on which the attempt was started, 0 = not started]
          stopT      \* [Att -> set of threads that issued a stop request for the attempt]
vars == <<l, ver, phase, ended, stopped, pred, holder, probe, startT, stopT>>
E == Log[l]
Is(e) == l <= Len(Log) /\ E.e = e /\ l' = l + 1
Fresh(v, p) == /\ ver' = v /\ phase' = [a \in Att |-> "idle"] /\ ended' = [a \in Att |-> FALSE]
               /\ stopped' = [a \in Att |-> FALSE] /\ pred' = [a \in Att |-> {}] /\ holder' = 0 /\ probe' = p
               /\ startT' = [a \in Att |-> 0] /\ stopT' = [a \in Att |-> {}]
Init == /\ l = 1 /\ ver = 1 /\ phase = [a \in Att |-> "idle"] /\ ended = [a \in Att |-> FALSE]
        /\ stopped = [a \in Att |-> FALSE] /\ pred = [a \in Att |-> {}] /\ holder = 0 /\ probe = 1
        /\ startT = [a \in Att |-> 0] /\ stopT = [a \in Att |-> {}] /\ TrackInit
\* end-of-execution obligations (all threads have finished, every owner has unlocked):
\*  no holder, every lock attempt ended in Acquired or Done (none is lost), the lock is not leaked (fresh try_lock succeeds)
Closed == P15 => /\ holder = 0
                 /\ \A a \in Att : phase[a] \notin {"started", "own"}
                 /\ probe = 1
\* C11: the completion of an attempt that was started on context startT[a] and only stopped from there arrives there
Affine(a, t) == (Prop = "C11" /\ ver = 2 /\ stopT[a] \subseteq {startT[a]}) => t = startT[a]
Reset == /\ Is("Reset") /\ Closed /\ Fresh(E.r, 2)
LockStart == /\ Is("LockStart") /\ phase[E.a] = "idle" /\ probe = 2
             /\ phase' = [phase EXCEPT ![E.a] = "started"]
             /\ pred' = [pred EXCEPT ![E.a] = {b \in Att : phase[b] = "started" /\ ended[b]}]
             /\ startT' = [startT EXCEPT ![E.a] = E.t]
             /\ UNCHANGED <<ver, ended, stopped, holder, probe, stopT>>
StartEnd == /\ Is("StartEnd") /\ phase[E.a] # "idle" /\ ~ended[E.a]
            /\ ended' = [ended EXCEPT ![E.a] = TRUE]
            /\ UNCHANGED <<ver, phase, stopped, pred, holder, probe, startT, stopT>>
\* mutual exclusion; each attempt completes at most once; a cancelled (Done) attempt never owns;
\* v2: FIFO among waiters - whoever was already queued when a's start began (and has not been stopped) is served first
Acquired == /\ Is("Acquired")
            /\ P15 => (phase[E.a] = "started" /\ holder = 0)
            /\ (P15 /\ ver = 2 /\ ended[E.a]) => \A b \in pred[E.a] : phase[b] # "started" \/ stopped[b]
            /\ Affine(E.a, E.t)
            /\ phase' = [phase EXCEPT ![E.a] = "own"] /\ holder' = E.a
            /\ UNCHANGED <<ver, ended, stopped, pred, probe, startT, stopT>>
Done == /\ Is("Done")
        /\ P15 => (phase[E.a] = "started" /\ stopped[E.a] /\ ver = 2)
        /\ Affine(E.a, E.t)
        /\ phase' = [phase EXCEPT ![E.a] = "done"]
        /\ UNCHANGED <<ver, ended, stopped, pred, holder, probe, startT, stopT>>
TryLock == /\ Is("TryLock") /\ phase[E.a] = "idle" /\ probe = 2
           /\ IF E.r = 1 THEN /\ (P15 => holder = 0) /\ holder' = E.a /\ phase' = [phase EXCEPT ![E.a] = "own"]
                         ELSE /\ holder' = holder /\ phase' = [phase EXCEPT ![E.a] = "failed"]
           /\ UNCHANGED <<ver, ended, stopped, pred, probe, startT, stopT>>
Unlock == /\ Is("Unlock")
          /\ P15 => (phase[E.a] = "own" /\ holder = E.a)
          /\ holder' = 0 /\ phase' = [phase EXCEPT ![E.a] = "released"]
          /\ UNCHANGED <<ver, ended, stopped, pred, probe, startT, stopT>>
Stop == /\ Is("Stop") /\ stopped' = [stopped EXCEPT ![E.a] = TRUE]
        /\ stopT' = [stopT EXCEPT ![E.a] = @ \cup {E.t}]
        /\ UNCHANGED <<ver, phase, ended, pred, holder, probe, startT>>
Probe == /\ Is("Probe") /\ probe = 2 /\ probe' = E.r
         /\ UNCHANGED <<ver, phase, ended, stopped, pred, holder, startT, stopT>>
Next == Reset \/ LockStart \/ StartEnd \/ Acquired \/ Done \/ TryLock \/ Unlock \/ Stop \/ Probe
Spec == Init /\ [][Next]_vars
Track == TrackAt(l, Closed)
Report == ReportTrace
=============================================================================
