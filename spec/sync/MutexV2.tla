------------------------------ MODULE MutexV2 ------------------------------
(***************************************************************************)
(* Implementation-shaped specification of unifex::v2::async_mutex          *)
(* (include/unifex/v2/async_mutex.hpp, source/async_mutex_v2.cpp) wrapped  *)
(* in cancellable<lock_raw_sender, StopsEarly = true>                      *)
(* (include/unifex/cancellable.hpp) and completing through                 *)
(* completion_forwarder (schedule on get_scheduler(receiver)).             *)
(*   locked  : locked_                                                     *)
(*   queue   : queue_ as the abstract list (push_back / pop_front /        *)
(*             try_remove / empty atomic: justified by                     *)
(*             prim/AtomicIntrusiveList, checked separately)               *)
(*   cs[a]   : cancellable state_ bits  {"stopped","started","completed"}  *)
(*   nst, cancelled, flagSet/syncFlag (sync_complete_ / the stack flag)    *)
(*   stopReq, reg, cbBy : the attempt's inplace_stop_source, whether the   *)
(*             cancellable's stop callback is registered, who runs it      *)
(* TwoPhase (default FALSE, overridden in MutexV2TwoPhase.cfg): the waiter  *)
(*   list is not the atomic sequence assumed above but prim/AbstractList,  *)
(*   the specification that prim/AtomicIntrusiveList is shown to refine    *)
(*   (prim/AtomicIntrusiveListRef): push_back = link (hidden) ... publish, *)
(*   pop_front = claim ... unlink (null only if nothing is linked; waits   *)
(*   for a hidden or claimed head), try_remove = claim ... unlink or fail  *)
(*   (not linked / claimed), empty() = nothing visible from the head (it   *)
(*   may say "empty" while a push_back is in flight, and "not empty" while *)
(*   the last item is claimed).  The extra labels v2.push2 / v2.pop2 /     *)
(*   v2.remove2 are interleaving points inside the list operations.  All   *)
(*   invariants are re-checked under this weaker list.                     *)
(* pc[t] is the schedule point a thread is parked at ("mutex.<pc>" hooks); *)
(* labels starting with "_" are continuations inside one stretch: while a  *)
(* thread is at such a label no other thread moves (Next), so a stretch    *)
(* between two schedule points is atomic exactly as under the controller.  *)
(* SchedKind: "plain"  = the receiver's scheduler completes inline with    *)
(*                       set_value,                                        *)
(*            "inline" = unifex::inline_scheduler, whose schedule()        *)
(*                       completes with set_done when the receiver's stop  *)
(*                       token has stop requested.                         *)
(*            "rec"    = (C11 clause) every harness thread is a context   *)
(*                       with a recording manual scheduler: schedule()     *)
(*                       enqueues the completion in sq[owner thread] and   *)
(*                       only the owner delivers it (while it waits for    *)
(*                       the outcome); doneBy[a] records the delivering    *)
(*                       thread (AffineCompletion).                        *)
(* st[a]: 0 idle, 1 started, 2 owns, 3 done, 4 unlocked, 5 try_lock failed *)
(***************************************************************************)
EXTENDS Naturals, Sequences, FiniteSets, TLC
CONSTANTS Threads, Att, Scenarios
VARIABLES scn, locked, queue, cs, nst, cancelled, flagSet, syncFlag, stopReq, reg, cbBy,
          pc, ip, cur, ret, tcFail, st, cnt, owned, ended, pushSeq, popSeq,
          sq, doneBy, hiddenQ, claimQ,
          lastT, lastPc
vars == <<scn, locked, queue, cs, nst, cancelled, flagSet, syncFlag, stopReq, reg, cbBy,
          pc, ip, cur, ret, tcFail, st, cnt, owned, ended, pushSeq, popSeq, sq, doneBy, hiddenQ, claimQ>>
View == vars
TwoPhase == FALSE
SchedKind == IF scn.sched = 1 THEN "inline" ELSE IF scn.sched = 2 THEN "rec" ELSE "plain"
\* the thread (= context) that starts attempt a
Owner(a) == CHOOSE t \in Threads : \E i \in 1..Len(scn.prog[t]) : scn.prog[t][i] = <<"lock", a>>
ProgOf(t) == scn.prog[t]
OpK(t) == ProgOf(t)[ip[t]][1]
OpA(t) == ProgOf(t)[ip[t]][2]
Silent(l) == l \in {"_opEnd", "_afterNested", "_cbEnd", "_cleanup", "_fwd", "_nstop"}
RECURSIVE Dispatch(_, _, _)
Dispatch(t, i, s) ==
  IF i > Len(ProgOf(t)) THEN <<"finished", i>>
  ELSE LET k == ProgOf(t)[i][1]  a == ProgOf(t)[i][2] IN
       IF k = "lock" THEN <<"h.lock", i>>
       ELSE IF k = "try" THEN <<"h.try", i>>
       ELSE IF k = "stop" THEN <<"h.stop", i>>
       ELSE IF k = "unlock" THEN (IF s[a] = 1 THEN <<"h.wait", i>> ELSE IF s[a] = 2 THEN <<"h.unlock", i>> ELSE Dispatch(t, i + 1, s))
       ELSE Dispatch(t, i + 1, s)
Init ==
  /\ scn \in Scenarios
  /\ locked = FALSE /\ queue = <<>>
  /\ cs = [a \in Att |-> {}] /\ nst = [a \in Att |-> FALSE] /\ cancelled = [a \in Att |-> FALSE]
  /\ flagSet = [a \in Att |-> FALSE] /\ syncFlag = [a \in Att |-> FALSE]
  /\ stopReq = [a \in Att |-> FALSE] /\ reg = [a \in Att |-> "none"] /\ cbBy = [a \in Att |-> 0]
  /\ pc = [t \in Threads |-> Dispatch(t, 1, [a \in Att |-> 0])[1]]
  /\ ip = [t \in Threads |-> Dispatch(t, 1, [a \in Att |-> 0])[2]]
  /\ cur = [t \in Threads |-> 0] /\ ret = [t \in Threads |-> "_opEnd"] /\ tcFail = [t \in Threads |-> "_opEnd"]
  /\ st = [a \in Att |-> 0] /\ cnt = [a \in Att |-> 0] /\ owned = [a \in Att |-> FALSE] /\ ended = [a \in Att |-> FALSE]
  /\ pushSeq = <<>> /\ popSeq = <<>>
  /\ sq = [t \in Threads |-> <<>>] /\ doneBy = [a \in Att |-> 0]
  /\ hiddenQ = {} /\ claimQ = [t \in Threads |-> 0]
  /\ lastT = 0 /\ lastPc = ""
Go(t, l) == pc' = [pc EXCEPT ![t] = l] /\ UNCHANGED ip
Mutex == <<locked, queue>>
Canc == <<cs, nst, cancelled, flagSet, syncFlag>>
Stops == <<stopReq, reg, cbBy>>
Loc == <<cur, ret, tcFail>>
Hist == <<st, cnt, owned, ended, pushSeq, popSeq>>
Rec == <<sq, doneBy>>
Tp == <<hiddenQ, claimQ>>

\* ------------------------------------------------------------ harness level
HLock(t) == /\ pc[t] = "h.lock"                         \* connect; LockStart; start(): cancellable::type::start()
            /\ st' = [st EXCEPT ![OpA(t)] = 1] /\ Go(t, "c.reg")
            /\ UNCHANGED <<Mutex, Canc, Stops, Loc, cnt, owned, ended, pushSeq, popSeq>>
HTry(t) == /\ pc[t] = "h.try" /\ Go(t, "v2.try") /\ UNCHANGED <<Mutex, Canc, Stops, Loc, Hist>>
\* the harness waits for the outcome of its attempt; with the recording scheduler it is also the event loop of its
\* context: it delivers the completions that were scheduled onto it
Outcome(a) == IF cancelled[a] THEN 3 ELSE 2
RECURSIVE Deliver(_, _)
Deliver(s, q) == IF q = <<>> THEN s ELSE Deliver([s EXCEPT ![Head(q)] = Outcome(Head(q))], Tail(q))
InSeq(q, a) == \E i \in 1..Len(q) : q[i] = a
\* deliver the completions in q (all of them were scheduled onto t's context) and park at the op number i
DrainDispatch(t, i, q) ==
  LET s2 == Deliver(st, q)
      d == Dispatch(t, i, s2) IN
  /\ st' = s2 /\ pc' = [pc EXCEPT ![t] = d[1]] /\ ip' = [ip EXCEPT ![t] = d[2]]
  /\ doneBy' = [a \in Att |-> IF InSeq(q, a) THEN t ELSE doneBy[a]]
  /\ owned' = [a \in Att |-> owned[a] \/ (InSeq(q, a) /\ ~cancelled[a])]
  /\ cnt' = [a \in Att |-> cnt[a] + IF InSeq(q, a) THEN 1 ELSE 0]
  /\ sq' = IF q = <<>> THEN sq ELSE [sq EXCEPT ![t] = <<>>]
HWait(t) == /\ pc[t] = "h.wait" /\ (st[OpA(t)] # 1 \/ sq[t] # <<>>)
            /\ DrainDispatch(t, ip[t], sq[t])
            /\ UNCHANGED <<Mutex, Canc, Stops, Loc, ended, pushSeq, popSeq>>
HUnlock(t) == /\ pc[t] = "h.unlock"                     \* unlock() = process_queue()
              /\ st' = [st EXCEPT ![OpA(t)] = 4] /\ ret' = [ret EXCEPT ![t] = "_opEnd"] /\ Go(t, "v2.pop")
              /\ UNCHANGED <<Mutex, Canc, Stops, cur, tcFail, cnt, owned, ended, pushSeq, popSeq>>
\* request_stop(): the source runs the registered callback on this thread (a callback that is not registered yet
\* will run inline in its constructor; one that has been deregistered does not run)
HStop(t) == /\ pc[t] = "h.stop"
            /\ stopReq' = [stopReq EXCEPT ![OpA(t)] = TRUE]
            /\ IF reg[OpA(t)] = "reg" /\ ~stopReq[OpA(t)]
               THEN /\ cbBy' = [cbBy EXCEPT ![OpA(t)] = t] /\ reg' = [reg EXCEPT ![OpA(t)] = "running"] /\ Go(t, "c.stopped")
               ELSE /\ UNCHANGED <<cbBy, reg>> /\ Go(t, "_opEnd")
            /\ UNCHANGED <<Mutex, Canc, Loc, Hist>>
\* the current op is finished.  A thread that arrives at "wait for my attempt" first delivers what is already queued on
\* its context (harness: while (st == 1) { if (!drainOwn()) SPIN; }), in the same stretch
OpEnd(t) == /\ pc[t] = "_opEnd"
            /\ ended' = IF OpK(t) = "lock" THEN [ended EXCEPT ![OpA(t)] = TRUE] ELSE ended
            /\ LET d0 == Dispatch(t, ip[t] + 1, st) IN
               DrainDispatch(t, d0[2], IF d0[1] = "h.wait" THEN sq[t] ELSE <<>>)
            /\ UNCHANGED <<Mutex, Canc, Stops, Loc, pushSeq, popSeq>>

\* ------------------------------------------------------------ cancellable<..., StopsEarly>::type::start()
CReg(t) == /\ pc[t] = "c.reg"                           \* construct the stop callback
           /\ IF stopReq[OpA(t)]
              THEN /\ cbBy' = [cbBy EXCEPT ![OpA(t)] = t] /\ reg' = [reg EXCEPT ![OpA(t)] = "inline"] /\ Go(t, "c.stopped")
              ELSE /\ reg' = [reg EXCEPT ![OpA(t)] = "reg"] /\ UNCHANGED cbBy /\ Go(t, "c.early")
           /\ UNCHANGED <<Mutex, Canc, stopReq, Loc, Hist>>
CStopped(t) == /\ pc[t] = "c.stopped"                   \* stop_callback: fetch_or(stopped); state == started -> nested.stop()
               /\ cs' = [cs EXCEPT ![OpA(t)] = @ \cup {"stopped"}]
               /\ IF cs[OpA(t)] = {"started"}
                  THEN /\ cur' = [cur EXCEPT ![t] = OpA(t)] /\ ret' = [ret EXCEPT ![t] = "_cbEnd"] /\ Go(t, "_nstop")
                  ELSE /\ UNCHANGED <<cur, ret>> /\ Go(t, "_cbEnd")
               /\ UNCHANGED <<Mutex, nst, cancelled, flagSet, syncFlag, Stops, tcFail, Hist>>
CbEnd(t) == /\ pc[t] = "_cbEnd"                         \* the callback returns (callbackCompleted_ = true)
            /\ cbBy' = [cbBy EXCEPT ![OpA(t)] = 0]
            /\ reg' = [reg EXCEPT ![OpA(t)] = IF @ = "running" THEN "ran" ELSE @]
            /\ Go(t, IF OpK(t) = "lock" THEN "c.early" ELSE "_opEnd")
            /\ UNCHANGED <<Mutex, Canc, stopReq, Loc, Hist>>
CEarly(t) == /\ pc[t] = "c.early"                       \* StopsEarly: state_ & stopped -> nested.stop(); else stop_type::start()
             /\ IF "stopped" \in cs[OpA(t)]
                THEN /\ cur' = [cur EXCEPT ![t] = OpA(t)] /\ ret' = [ret EXCEPT ![t] = "_opEnd"] /\ Go(t, "_nstop")
                     /\ UNCHANGED <<flagSet, nst>>
                ELSE /\ flagSet' = [flagSet EXCEPT ![OpA(t)] = TRUE]      \* sync_complete_ = &sync_complete
                     /\ nst' = [nst EXCEPT ![OpA(t)] = TRUE]              \* nested start(): started_ = true; try_lock()
                     /\ UNCHANGED <<cur, ret>> /\ Go(t, "v2.try")
             /\ UNCHANGED <<Mutex, cs, cancelled, syncFlag, Stops, tcFail, Hist>>
\* after unifex::start(nested_op()) returned: sync_complete.load()
AfterNested(t) == /\ pc[t] = "_afterNested"
                  /\ Go(t, IF syncFlag[OpA(t)] THEN "_opEnd" ELSE "c.started")
                  /\ UNCHANGED <<Mutex, Canc, Stops, Loc, Hist>>
CStarted(t) == /\ pc[t] = "c.started"                   \* fetch_or(started)
               /\ cs' = [cs EXCEPT ![OpA(t)] = @ \cup {"started"}]
               /\ IF cs[OpA(t)] = {"stopped"}
                  THEN /\ cur' = [cur EXCEPT ![t] = OpA(t)] /\ ret' = [ret EXCEPT ![t] = "_opEnd"] /\ Go(t, "_nstop")
                  ELSE /\ UNCHANGED <<cur, ret>>
                       /\ Go(t, IF "completed" \in cs[OpA(t)] /\ ~syncFlag[OpA(t)] THEN "c.syncspin" ELSE "_opEnd")
               /\ UNCHANGED <<Mutex, nst, cancelled, flagSet, syncFlag, Stops, tcFail, Hist>>
CSyncSpin(t) == /\ pc[t] = "c.syncspin" /\ syncFlag[OpA(t)] /\ Go(t, "_opEnd")
                /\ UNCHANGED <<Mutex, Canc, Stops, Loc, Hist>>

\* ------------------------------------------------------------ v2::async_mutex
V2Try(t) ==
  /\ pc[t] = "v2.try"                                   \* locked_.exchange(true)
  /\ locked' = TRUE
  /\ IF OpK(t) = "try"
     THEN /\ st' = [st EXCEPT ![OpA(t)] = IF locked THEN 5 ELSE 2]
          /\ owned' = [owned EXCEPT ![OpA(t)] = ~locked]
          /\ Go(t, "_opEnd") /\ UNCHANGED <<Loc, pushSeq>>
     ELSE /\ UNCHANGED <<st, owned>>
          /\ IF locked THEN /\ Go(t, "v2.push") /\ UNCHANGED <<Loc, pushSeq>>
             ELSE /\ cur' = [cur EXCEPT ![t] = OpA(t)] /\ ret' = [ret EXCEPT ![t] = "_afterNested"]
                  /\ tcFail' = [tcFail EXCEPT ![t] = "_afterNested"] /\ Go(t, "c.completed") /\ UNCHANGED pushSeq
  /\ UNCHANGED <<queue, Canc, Stops, cnt, ended, popSeq>>
V2Push(t) == /\ pc[t] = "v2.push"                       \* queue_.push_back(this); fence
             /\ queue' = Append(queue, OpA(t)) /\ pushSeq' = Append(pushSeq, OpA(t))
             /\ IF TwoPhase THEN hiddenQ' = hiddenQ \cup {OpA(t)} /\ Go(t, "v2.push2")
                            ELSE UNCHANGED hiddenQ /\ Go(t, "v2.xchg")
             /\ UNCHANGED <<locked, Canc, Stops, Loc, st, cnt, owned, ended, popSeq, claimQ>>
V2Push2(t) == /\ pc[t] = "v2.push2" /\ hiddenQ' = hiddenQ \ {OpA(t)} /\ Go(t, "v2.xchg")      \* publish
              /\ UNCHANGED <<Mutex, Canc, Stops, Loc, Hist, claimQ>>
V2Xchg(t) == /\ pc[t] = "v2.xchg"                       \* if (!locked_.exchange(true)) process_queue()
             /\ locked' = TRUE /\ ret' = [ret EXCEPT ![t] = "_afterNested"]
             /\ Go(t, IF locked THEN "_afterNested" ELSE "v2.pop")
             /\ UNCHANGED <<queue, Canc, Stops, cur, tcFail, Hist>>
ClaimedQ(a) == \E u \in Threads : claimQ[u] = a
V2Pop(t) == /\ pc[t] = "v2.pop"                         \* w = queue_.pop_front()
            /\ IF queue = <<>>
               THEN /\ UNCHANGED <<cur, queue, popSeq, claimQ>> /\ Go(t, "v2.rel")
               ELSE IF TwoPhase
               THEN /\ Head(queue) \notin hiddenQ /\ ~ClaimedQ(Head(queue))      \* else it waits for the head link
                    /\ claimQ' = [claimQ EXCEPT ![t] = Head(queue)] /\ cur' = [cur EXCEPT ![t] = Head(queue)]
                    /\ UNCHANGED <<queue, popSeq>> /\ Go(t, "v2.pop2")
               ELSE /\ cur' = [cur EXCEPT ![t] = Head(queue)] /\ queue' = Tail(queue)
                    /\ popSeq' = Append(popSeq, Head(queue)) /\ Go(t, "v2.resume") /\ UNCHANGED claimQ
            /\ UNCHANGED <<locked, Canc, Stops, ret, tcFail, st, cnt, owned, ended, pushSeq, hiddenQ>>
V2Pop2(t) == /\ pc[t] = "v2.pop2"                       \* unlink the claimed head
             /\ queue' = SelectSeq(queue, LAMBDA x : x # claimQ[t]) /\ popSeq' = Append(popSeq, claimQ[t])
             /\ claimQ' = [claimQ EXCEPT ![t] = 0] /\ Go(t, "v2.resume")
             /\ UNCHANGED <<locked, Canc, Stops, Loc, st, cnt, owned, ended, pushSeq, hiddenQ>>
V2Resume(t) == /\ pc[t] = "v2.resume"                   \* resume_: if (try_complete(op)) forward else mutex_.unlock()
               /\ tcFail' = [tcFail EXCEPT ![t] = "v2.pop"] /\ Go(t, "c.completed")
               /\ UNCHANGED <<Mutex, Canc, Stops, cur, ret, Hist>>
V2Rel(t) == /\ pc[t] = "v2.rel" /\ locked' = FALSE /\ Go(t, "v2.empty")      \* locked_.store(false); fence
            /\ UNCHANGED <<queue, Canc, Stops, Loc, Hist>>
\* what the relaxed load of head_ sees: the items in front of the first push_back still in flight
RECURSIVE UpToHiddenQ(_)
UpToHiddenQ(q) == IF q = <<>> \/ Head(q) \in hiddenQ THEN <<>> ELSE <<Head(q)>> \o UpToHiddenQ(Tail(q))
VisibleQ == UpToHiddenQ(queue)
V2Empty(t) == /\ pc[t] = "v2.empty"                     \* if (queue_.empty()) return
              /\ Go(t, IF VisibleQ = <<>> THEN ret[t] ELSE "v2.reacq")
              /\ UNCHANGED <<Mutex, Canc, Stops, Loc, Hist>>
V2Reacq(t) == /\ pc[t] = "v2.reacq"                     \* if (locked_.exchange(true)) return; else loop
              /\ locked' = TRUE /\ Go(t, IF locked THEN ret[t] ELSE "v2.pop")
              /\ UNCHANGED <<queue, Canc, Stops, Loc, Hist>>
\* nested op.stop()
NStop(t) == /\ pc[t] = "_nstop"
            /\ IF ~nst[cur[t]]
               THEN /\ cancelled' = [cancelled EXCEPT ![cur[t]] = TRUE]       \* StopsEarly: never enqueued
                    /\ tcFail' = [tcFail EXCEPT ![t] = ret[t]] /\ Go(t, "c.completed")
               ELSE /\ UNCHANGED <<cancelled, tcFail>> /\ Go(t, "v2.remove")
            /\ UNCHANGED <<Mutex, cs, nst, flagSet, syncFlag, Stops, cur, ret, Hist>>
InQ(a) == \E i \in 1..Len(queue) : queue[i] = a
V2Remove(t) == /\ pc[t] = "v2.remove"                   \* if (queue_.try_remove(this)) { cancelled_ = true; try_complete... }
               /\ IF InQ(cur[t]) /\ ~ClaimedQ(cur[t])
                  THEN IF TwoPhase
                       THEN /\ claimQ' = [claimQ EXCEPT ![t] = cur[t]] /\ Go(t, "v2.remove2")
                            /\ UNCHANGED <<queue, cancelled, tcFail>>
                       ELSE /\ queue' = SelectSeq(queue, LAMBDA x : x # cur[t])
                            /\ cancelled' = [cancelled EXCEPT ![cur[t]] = TRUE]
                            /\ tcFail' = [tcFail EXCEPT ![t] = ret[t]] /\ Go(t, "c.completed") /\ UNCHANGED claimQ
                  ELSE /\ UNCHANGED <<queue, cancelled, tcFail, claimQ>> /\ Go(t, ret[t])
               /\ UNCHANGED <<locked, cs, nst, flagSet, syncFlag, Stops, cur, ret, Hist, hiddenQ>>
V2Remove2(t) == /\ pc[t] = "v2.remove2"                 \* unlink the claimed item
                /\ queue' = SelectSeq(queue, LAMBDA x : x # cur[t]) /\ claimQ' = [claimQ EXCEPT ![t] = 0]
                /\ cancelled' = [cancelled EXCEPT ![cur[t]] = TRUE]
                /\ tcFail' = [tcFail EXCEPT ![t] = ret[t]] /\ Go(t, "c.completed")
                /\ UNCHANGED <<locked, cs, nst, flagSet, syncFlag, Stops, cur, ret, Hist, hiddenQ>>
\* try_complete(cur)
CCompleted(t) == /\ pc[t] = "c.completed"               \* fetch_or(completed)
                 /\ IF "completed" \in cs[cur[t]]
                    THEN /\ UNCHANGED cs /\ Go(t, tcFail[t])
                    ELSE /\ cs' = [cs EXCEPT ![cur[t]] = @ \cup {"completed"}]
                         /\ Go(t, IF "started" \notin cs[cur[t]] THEN "c.flag" ELSE "_cleanup")
                 /\ UNCHANGED <<Mutex, nst, cancelled, flagSet, syncFlag, Stops, Loc, Hist>>
CFlag(t) == /\ pc[t] = "c.flag"                         \* if (sync_complete_) sync_complete_->store(true)
            /\ syncFlag' = [syncFlag EXCEPT ![cur[t]] = flagSet[cur[t]]] /\ Go(t, "_cleanup")
            /\ UNCHANGED <<Mutex, cs, nst, cancelled, flagSet, Stops, Loc, Hist>>
\* cleanup_: destroy the stop callback; waits while the callback runs on another thread
Cleanup(t) == /\ pc[t] = "_cleanup"
              /\ IF cbBy[cur[t]] \notin {0, t}
                 THEN /\ Go(t, "spin_wait") /\ UNCHANGED reg
                 ELSE /\ reg' = [reg EXCEPT ![cur[t]] = "dead"] /\ Go(t, "_fwd")
              /\ UNCHANGED <<Mutex, Canc, stopReq, cbBy, Loc, Hist>>
SpinWait(t) == /\ pc[t] = "spin_wait" /\ cbBy[cur[t]] \in {0, t}
               /\ reg' = [reg EXCEPT ![cur[t]] = "dead"] /\ Go(t, "_fwd")
               /\ UNCHANGED <<Mutex, Canc, stopReq, cbBy, Loc, Hist>>
\* forwardingOp_.start(): schedule on the receiver's scheduler, then forward_set_value()
Fwd(t) == /\ pc[t] = "_fwd"
          /\ LET a == cur[t]
                 dn == cancelled[a] \/ (SchedKind = "inline" /\ stopReq[a]) IN
             IF SchedKind = "rec"
             THEN /\ sq' = [sq EXCEPT ![Owner(a)] = Append(@, a)] /\ UNCHANGED <<st, owned, cnt, doneBy>>
             ELSE /\ st' = [st EXCEPT ![a] = IF dn THEN 3 ELSE 2]
                  /\ owned' = [owned EXCEPT ![a] = @ \/ ~dn]
                  /\ cnt' = [cnt EXCEPT ![a] = @ + 1]
                  /\ doneBy' = [doneBy EXCEPT ![a] = t] /\ UNCHANGED sq
          /\ Go(t, ret[t])
          /\ UNCHANGED <<Mutex, Canc, Stops, Loc, ended, pushSeq, popSeq>>

Step(t) == \/ /\ \/ HLock(t) \/ HTry(t) \/ HUnlock(t) \/ HStop(t)
                 \/ CReg(t) \/ CStopped(t) \/ CbEnd(t) \/ CEarly(t) \/ AfterNested(t) \/ CStarted(t) \/ CSyncSpin(t)
                 \/ V2Try(t) \/ V2Xchg(t) \/ V2Resume(t) \/ V2Rel(t) \/ V2Empty(t) \/ V2Reacq(t)
                 \/ NStop(t) \/ CCompleted(t) \/ CFlag(t) \/ Cleanup(t) \/ SpinWait(t)
              /\ UNCHANGED <<Rec, Tp>>
           \/ (HWait(t) \/ Fwd(t) \/ OpEnd(t)) /\ UNCHANGED Tp
           \/ (V2Push(t) \/ V2Push2(t) \/ V2Pop(t) \/ V2Pop2(t) \/ V2Remove(t) \/ V2Remove2(t)) /\ UNCHANGED Rec
StepF(t) == Step(t) /\ lastT' = t /\ lastPc' = pc[t] /\ UNCHANGED scn
AllDone == \A t \in Threads : pc[t] = "finished"
InStretch == \E t \in Threads : Silent(pc[t])
Next == \/ \E t \in Threads : (InStretch => Silent(pc[t])) /\ StepF(t)
        \/ AllDone /\ UNCHANGED vars /\ lastT' = 0 /\ lastPc' = ""
Spec == Init /\ [][Next]_<<vars, lastT, lastPc>>
FairSpec == Spec /\ \A t \in Threads : WF_<<vars, lastT, lastPc>>((InStretch => Silent(pc[t])) /\ StepF(t))

\* ---------------------------------------------------------------- properties
Owners == {a \in Att : st[a] = 2}
MutualExclusion == Cardinality(Owners) <= 1
OwnerImpliesLocked == Owners # {} => locked
EachLockOnce == \A a \in Att : cnt[a] <= 1
\* a waiter completed with done was stopped and never owned the mutex
CancelledNeverOwns == \A a \in Att : st[a] = 3 => (stopReq[a] /\ ~owned[a])
\* done is delivered only to an attempt that was cancelled while not holding the lock (fails for SchedKind = "inline")
DoneOnlyIfCancelled == \A a \in Att : st[a] = 3 => cancelled[a]
\* grants through the queue respect the order of push_back (FIFO)
Idx(s, x) == CHOOSE i \in 1..Len(s) : s[i] = x
FIFOGrant == \A i, j \in 1..Len(popSeq) : i < j => Idx(pushSeq, popSeq[i]) < Idx(pushSeq, popSeq[j])
\* terminal form of "no lost waiter" / "lock not leaked" (TLC's deadlock check covers the blocked form)
\* C11 clause (is_always_scheduler_affine): a completion is delivered on the context that started the attempt
\* (with "plain"/"inline" schedulers a completion runs inline wherever the grant happens, so this is stated for "rec")
AffineCompletion == SchedKind = "rec" => \A a \in Att : doneBy[a] # 0 => doneBy[a] = Owner(a)
Terminal == AllDone => /\ ~locked /\ queue = <<>> /\ \A t \in Threads : sq[t] = <<>> /\ claimQ[t] = 0
                       /\ hiddenQ = {}
                       /\ \A a \in Att : st[a] \in {0, 3, 4, 5}
\* a waiter obtained by pop_front has not been completed by anybody else: the "already completed by stop" branch of
\* resume_ (which releases the lock again) is never taken, because stop() completes only a waiter it removed itself
PoppedNotCompleted == \A t \in Threads : (pc[t] = "c.completed" /\ tcFail[t] = "v2.pop") => "completed" \notin cs[cur[t]]
Terminates == <>AllDone
=============================================================================
