SPECIFICATION Spec
CONSTANTS Threads = {1, 2, 3}  Rounds = 1  RmwDrains = TRUE  FenceStart = TRUE  FenceUnlock = TRUE
INVARIANTS MutualExclusion AtRest
CHECK_DEADLOCK TRUE
