SPECIFICATION Spec
CONSTANTS Threads <- T  Att <- A  Scenarios <- Scn
INVARIANTS AffineCompletion MutualExclusion EachLockOnce Terminal
VIEW View
ACTION_CONSTRAINT EdgeLog
CHECK_DEADLOCK TRUE
