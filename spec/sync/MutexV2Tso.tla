----------------------------- MODULE MutexV2Tso -----------------------------
(***************************************************************************)
(* Store-buffer variant of the Dekker core of unifex::v2::async_mutex      *)
(* (design-level result only; NOT bound to the code by replay - the        *)
(* conformance harness executes sequentially consistent interleavings).    *)
(*                                                                         *)
(* The mutex avoids lost wake-ups with a Dekker pattern between locked_    *)
(* and queue_:                                                             *)
(*   start():          queue_.push_back(this); FENCE(seq_cst);             *)
(*                     if (!locked_.exchange(true)) process_queue();       *)
(*   process_queue():  w = queue_.pop_front(); if (w) { resume; return; }  *)
(*                     locked_.store(false, release); FENCE(seq_cst);      *)
(*                     if (queue_.empty()) return;                         *)
(*                     if (locked_.exchange(true)) return;   (loop)        *)
(* "at least one side sees the other".  This module keeps only that core   *)
(* (no cancellation, abstract FIFO list) and adds per-thread FIFO store    *)
(* buffers:                                                                *)
(*   - a plain (release) store is appended to the issuing thread's buffer  *)
(*     and reaches memory later (Flush); these are locked_.store(false)    *)
(*     and the final link store of push_back that publishes the node;      *)
(*   - a load reads the thread's own newest buffered value, else memory    *)
(*     (queue_.empty() is a relaxed load of head_);                        *)
(*   - a seq_cst fence waits until the own buffer is empty;                *)
(*   - a read-modify-write (locked_.exchange, the link locks inside        *)
(*     pop_front/push_back) acts on memory.  RmwDrains = TRUE: it first    *)
(*     drains the own buffer (x86-TSO: LOCK-prefixed instructions are      *)
(*     full barriers).  RmwDrains = FALSE: it only drains the own buffered *)
(*     stores to the same location (coherence), i.e. an acq_rel RMW as in  *)
(*     the C++ model / on weaker hardware, which does not order the        *)
(*     earlier push with the later read of locked_ for a third party.      *)
(*                                                                         *)
(* Results (TLC, Threads = {1,2,3}, Rounds = 1; the all-fences weak case  *)
(* also with Threads = {1,2}, Rounds = 2 (MutexV2TsoR2.cfg);               *)
(* MutualExclusion + deadlock freedom = no lost wake-up):                  *)
(*   RmwDrains FenceStart FenceUnlock                                      *)
(*     TRUE      TRUE       TRUE     holds            (MutexV2Tso.cfg)     *)
(*     TRUE      TRUE       FALSE    LOST WAKE-UP     (…NoUnlockFence.cfg) *)
(*        the unlocker's locked_=false is still buffered when it reads     *)
(*        queue_ empty; the waiter pushes, its exchange still reads true   *)
(*     TRUE      FALSE      TRUE     holds  (on x86 the exchange itself    *)
(*        drains the buffer, the start() fence is redundant THERE)         *)
(*                                                    (…NoStartFence.cfg)  *)
(*     FALSE     TRUE       TRUE     holds            (…Weak.cfg)          *)
(*     FALSE     FALSE      TRUE     LOST WAKE-UP  (…WeakNoStartFence.cfg) *)
(*        the waiter's push is still buffered when its exchange reads      *)
(*        locked_ = true; the unlocker then stores false, fences, reads    *)
(*        queue_ empty and leaves                                          *)
(* So the fence in process_queue() is needed already on x86-TSO, the fence *)
(* in start() is needed as soon as an RMW is not a full barrier; with both *)
(* fences the core is correct under both buffer models.                    *)
(***************************************************************************)
EXTENDS Naturals, Sequences, FiniteSets, TLC
CONSTANTS Threads, Rounds, RmwDrains, FenceStart, FenceUnlock
VARIABLES lockedMem,   \* locked_ in memory
          qmem,        \* queue_ in memory: waiters in FIFO order
          buf,         \* [Threads -> Seq(<<"locked", FALSE>> | <<"push", t>>)] store buffers
          pc, caller,  \* caller[t]: "lock" | "unlock" - who called process_queue
          granted,     \* [Threads -> BOOLEAN] resume_ ran for the waiter (it owns the mutex)
          round
vars == <<lockedMem, qmem, buf, pc, caller, granted, round>>
Init == /\ lockedMem = FALSE /\ qmem = <<>> /\ buf = [t \in Threads |-> <<>>]
        /\ pc = [t \in Threads |-> "try"] /\ caller = [t \in Threads |-> "lock"]
        /\ granted = [t \in Threads |-> FALSE] /\ round = [t \in Threads |-> 1]
Has(t, loc) == \E i \in 1..Len(buf[t]) : buf[t][i][1] = loc
\* an RMW on location loc may proceed
RmwOk(t, loc) == IF RmwDrains THEN buf[t] = <<>> ELSE ~Has(t, loc)
Go(t, l) == pc' = [pc EXCEPT ![t] = l]
Flush(t) == /\ buf[t] # <<>>
            /\ LET e == Head(buf[t]) IN
               IF e[1] = "locked" THEN lockedMem' = e[2] /\ UNCHANGED qmem
                                  ELSE qmem' = Append(qmem, e[2]) /\ UNCHANGED lockedMem
            /\ buf' = [buf EXCEPT ![t] = Tail(@)] /\ UNCHANGED <<pc, caller, granted, round>>
\* ---- start()
Try(t) == /\ pc[t] = "try" /\ RmwOk(t, "locked")                       \* try_lock(): locked_.exchange(true)
          /\ lockedMem' = TRUE /\ Go(t, IF lockedMem THEN "push" ELSE "cs")
          /\ UNCHANGED <<qmem, buf, caller, granted, round>>
Push(t) == /\ pc[t] = "push" /\ RmwOk(t, "push")                       \* push_back: lock the tail link (RMW), publish with a plain store
           /\ buf' = [buf EXCEPT ![t] = Append(@, <<"push", t>>)] /\ Go(t, IF FenceStart THEN "fenceS" ELSE "xchg")
           /\ UNCHANGED <<lockedMem, qmem, caller, granted, round>>
FenceS(t) == /\ pc[t] = "fenceS" /\ buf[t] = <<>> /\ Go(t, "xchg") /\ UNCHANGED <<lockedMem, qmem, buf, caller, granted, round>>
Xchg(t) == /\ pc[t] = "xchg" /\ RmwOk(t, "locked")
           /\ lockedMem' = TRUE /\ caller' = [caller EXCEPT ![t] = "lock"]
           /\ Go(t, IF lockedMem THEN "wait" ELSE "pop")
           /\ UNCHANGED <<qmem, buf, granted, round>>
Wait(t) == /\ pc[t] = "wait" /\ granted[t] /\ Go(t, "cs") /\ UNCHANGED <<lockedMem, qmem, buf, caller, granted, round>>
\* ---- unlock()
Unlock(t) == /\ pc[t] = "cs" /\ granted' = [granted EXCEPT ![t] = FALSE] /\ caller' = [caller EXCEPT ![t] = "unlock"]
             /\ Go(t, "pop") /\ UNCHANGED <<lockedMem, qmem, buf, round>>
\* ---- process_queue()
Ret(t) == IF caller[t] = "lock" THEN "wait" ELSE "next"
Pop(t) == /\ pc[t] = "pop" /\ RmwOk(t, "push")                         \* pop_front locks head_ (RMW) and reads memory
          /\ IF qmem # <<>>
             THEN /\ granted' = [granted EXCEPT ![Head(qmem)] = TRUE] /\ qmem' = Tail(qmem) /\ Go(t, Ret(t))
             ELSE /\ UNCHANGED <<granted, qmem>> /\ Go(t, "rel")
          /\ UNCHANGED <<lockedMem, buf, caller, round>>
Rel(t) == /\ pc[t] = "rel"                                             \* locked_.store(false, release)
          /\ buf' = [buf EXCEPT ![t] = Append(@, <<"locked", FALSE>>)] /\ Go(t, IF FenceUnlock THEN "fenceU" ELSE "empty")
          /\ UNCHANGED <<lockedMem, qmem, caller, granted, round>>
FenceU(t) == /\ pc[t] = "fenceU" /\ buf[t] = <<>> /\ Go(t, "empty") /\ UNCHANGED <<lockedMem, qmem, buf, caller, granted, round>>
Empty(t) == /\ pc[t] = "empty"                                         \* queue_.empty(): relaxed load (own buffer first)
            /\ Go(t, IF qmem = <<>> /\ ~Has(t, "push") THEN Ret(t) ELSE "reacq")
            /\ UNCHANGED <<lockedMem, qmem, buf, caller, granted, round>>
Reacq(t) == /\ pc[t] = "reacq" /\ RmwOk(t, "locked")
            /\ lockedMem' = TRUE /\ Go(t, IF lockedMem THEN Ret(t) ELSE "pop")
            /\ UNCHANGED <<qmem, buf, caller, granted, round>>
NextRound(t) == /\ pc[t] = "next"
                /\ IF round[t] < Rounds THEN round' = [round EXCEPT ![t] = @ + 1] /\ Go(t, "try")
                                        ELSE UNCHANGED round /\ Go(t, "done")
                /\ UNCHANGED <<lockedMem, qmem, buf, caller, granted>>
\* a thread that took the fast path owns the mutex without a grant
Step(t) == Flush(t) \/ Try(t) \/ Push(t) \/ FenceS(t) \/ Xchg(t) \/ Wait(t) \/ Unlock(t)
           \/ Pop(t) \/ Rel(t) \/ FenceU(t) \/ Empty(t) \/ Reacq(t) \/ NextRound(t)
AllDone == \A t \in Threads : pc[t] = "done" /\ buf[t] = <<>>
Next == (\E t \in Threads : Step(t)) \/ (AllDone /\ UNCHANGED vars)
Spec == Init /\ [][Next]_vars
MutualExclusion == Cardinality({t \in Threads : pc[t] = "cs"}) <= 1
\* deadlock freedom (CHECK_DEADLOCK) = no lost wake-up; at rest the lock is free
AtRest == AllDone => (~lockedMem /\ qmem = <<>>)
=============================================================================
