SPECIFICATION FairSpec
CONSTANTS Threads <- T  Att <- A  Scenarios <- Scn
PROPERTY Terminates
CHECK_DEADLOCK TRUE
