SPECIFICATION Spec
CONSTANTS Threads <- T  Att <- A  Scenarios <- Scn  TwoPhase <- TpOn
INVARIANTS MutualExclusion OwnerImpliesLocked EachLockOnce CancelledNeverOwns DoneOnlyIfCancelled FIFOGrant Terminal PoppedNotCompleted AffineCompletion
VIEW View
ACTION_CONSTRAINT EdgeLog
CHECK_DEADLOCK TRUE
