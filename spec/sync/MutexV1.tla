------------------------------ MODULE MutexV1 ------------------------------
(***************************************************************************)
(* Implementation-shaped specification of unifex::v1::async_mutex          *)
(* (include/unifex/v1/async_mutex.hpp, source/async_mutex_v1.cpp) over     *)
(* detail/atomic_intrusive_queue.hpp.                                      *)
(*   atomicQueue_  : lock word and LIFO inbox merged (inactive = unlocked) *)
(*   pendingQueue_ : FIFO batch owned by whoever holds the lock            *)
(* One action per stretch of code between two schedule points of the real  *)
(* code; pc[t] is the name of the schedule point the thread is parked at   *)
(* (UNIFEX_VERIF_YIELD sites "mutex.<pc>").  Threads run scenario programs *)
(* over the public API exactly like the C++ driver:                        *)
(*   <<"lock",a>>   connect + start an async_lock() as attempt a           *)
(*   <<"unlock",a>> wait for a's outcome; if a owns the mutex, unlock()    *)
(*   <<"try",a>>    try_lock() as attempt a                                *)
(* st[a]: 0 idle, 1 started, 2 owns, 4 unlocked, 5 try_lock failed         *)
(***************************************************************************)
EXTENDS Naturals, Sequences, FiniteSets, TLC, AtomicIntrusiveQueue
CONSTANTS Threads, Att, Scenarios
VARIABLES scn, head, pending, pc, ip, old, st, cnt,
          lastT, lastPc           \* export only (hidden by VIEW)
vars == <<scn, head, pending, pc, ip, old, st, cnt>>
View == vars
ProgOf(t) == scn.prog[t]
OpK(t) == ProgOf(t)[ip[t]][1]
OpA(t) == ProgOf(t)[ip[t]][2]
\* the schedule point at which thread t parks when it is about to execute op number i (given attempt states s)
RECURSIVE Dispatch(_, _, _)
Dispatch(t, i, s) ==
  IF i > Len(ProgOf(t)) THEN <<"finished", i>>
  ELSE LET k == ProgOf(t)[i][1]  a == ProgOf(t)[i][2] IN
       IF k = "lock" THEN <<"h.lock", i>>
       ELSE IF k = "try" THEN <<"h.try", i>>
       ELSE IF k = "unlock" THEN (IF s[a] = 1 THEN <<"h.wait", i>> ELSE IF s[a] = 2 THEN <<"h.unlock", i>> ELSE Dispatch(t, i + 1, s))
       ELSE Dispatch(t, i + 1, s)
Init ==
  /\ scn \in Scenarios
  /\ head = QInactive /\ pending = <<>>
  /\ st = [a \in Att |-> 0] /\ cnt = [a \in Att |-> 0]
  /\ old = [t \in Threads |-> QInactive]
  /\ pc = [t \in Threads |-> Dispatch(t, 1, [a \in Att |-> 0])[1]]
  /\ ip = [t \in Threads |-> Dispatch(t, 1, [a \in Att |-> 0])[2]]
  /\ lastT = 0 /\ lastPc = ""
Go(t, l) == pc' = [pc EXCEPT ![t] = l] /\ UNCHANGED ip
\* the current op is finished: park at the first schedule point of the next one
Fin(t, s) == LET d == Dispatch(t, ip[t] + 1, s) IN pc' = [pc EXCEPT ![t] = d[1]] /\ ip' = [ip EXCEPT ![t] = d[2]]
Grant(s, a) == [s EXCEPT ![a] = 2]

\* ---- async_lock(): start() -> try_enqueue -> enqueue_or_mark_active
HLock(t) == /\ pc[t] = "h.lock"
            /\ st' = [st EXCEPT ![OpA(t)] = 1] /\ Go(t, "q.eoma")
            /\ UNCHANGED <<head, pending, old, cnt>>
QEoma(t) == /\ pc[t] = "q.eoma"                    \* oldValue = head_.load()
            /\ old' = [old EXCEPT ![t] = head] /\ Go(t, "q.eoma.cas")
            /\ UNCHANGED <<head, pending, st, cnt>>
QEomaCas(t) ==                                     \* compare_exchange(oldValue, newValue)
  /\ pc[t] = "q.eoma.cas"
  /\ IF head = old[t]
     THEN /\ head' = QEomaNew(old[t], OpA(t))
          /\ IF old[t].inact
             THEN /\ st' = Grant(st, OpA(t)) /\ cnt' = [cnt EXCEPT ![OpA(t)] = @ + 1]     \* acquired synchronously: set_value inline
                  /\ Fin(t, Grant(st, OpA(t)))
             ELSE /\ UNCHANGED <<st, cnt>> /\ Fin(t, st)                                   \* enqueued; start() returns
          /\ UNCHANGED old
     ELSE /\ old' = [old EXCEPT ![t] = head] /\ Go(t, "q.eoma.cas") /\ UNCHANGED <<head, st, cnt>>
  /\ UNCHANGED pending
\* ---- try_lock(): try_mark_active
HTry(t) == /\ pc[t] = "h.try" /\ Go(t, "q.tma") /\ UNCHANGED <<head, pending, old, st, cnt>>
QTma(t) == /\ pc[t] = "q.tma"
           /\ IF QTryMarkActiveOk(head)
              THEN /\ head' = QEmpty /\ st' = Grant(st, OpA(t)) /\ Fin(t, Grant(st, OpA(t)))
              ELSE /\ UNCHANGED head /\ st' = [st EXCEPT ![OpA(t)] = 5] /\ Fin(t, [st EXCEPT ![OpA(t)] = 5])
           /\ UNCHANGED <<pending, old, cnt>>
\* ---- the harness waits for the outcome of its attempt (await)
HWait(t) == /\ pc[t] = "h.wait" /\ st[OpA(t)] # 1
            /\ LET d == Dispatch(t, ip[t], st) IN pc' = [pc EXCEPT ![t] = d[1]] /\ ip' = [ip EXCEPT ![t] = d[2]]
            /\ UNCHANGED <<head, pending, old, st, cnt>>
\* ---- unlock()
HUnlock(t) == /\ pc[t] = "h.unlock"
              /\ st' = [st EXCEPT ![OpA(t)] = 4]
              /\ Go(t, IF pending = <<>> THEN "q.tmi" ELSE "v1.resume")
              /\ UNCHANGED <<head, pending, old, cnt>>
QTmi(t) == /\ pc[t] = "q.tmi"                      \* try_mark_inactive: oldValue = head_.load()
           /\ old' = [old EXCEPT ![t] = head]
           /\ Go(t, IF head = QEmpty THEN "q.tmi.cas" ELSE "q.xchg")
           /\ UNCHANGED <<head, pending, st, cnt>>
QTmiCas(t) == /\ pc[t] = "q.tmi.cas"               \* CAS(nullptr -> inactive)
              /\ IF head = QEmpty THEN /\ head' = QInactive /\ Fin(t, st)
                                  ELSE /\ UNCHANGED head /\ Go(t, "q.xchg")
              /\ UNCHANGED <<pending, old, st, cnt>>
QXchg(t) == /\ pc[t] = "q.xchg"                    \* exchange(nullptr); make_reversed
            /\ pending' = QRev(head.st) /\ head' = QEmpty /\ Go(t, "v1.resume")
            /\ UNCHANGED <<old, st, cnt>>
V1Resume(t) == /\ pc[t] = "v1.resume" /\ pending # <<>>    \* pop_front; item->resume_(item) -> set_value on this thread
               /\ pending' = Tail(pending)
               /\ st' = Grant(st, Head(pending)) /\ cnt' = [cnt EXCEPT ![Head(pending)] = @ + 1]
               /\ Fin(t, Grant(st, Head(pending)))
               /\ UNCHANGED <<head, old>>
Step(t) == \/ HLock(t) \/ QEoma(t) \/ QEomaCas(t) \/ HTry(t) \/ QTma(t) \/ HWait(t)
           \/ HUnlock(t) \/ QTmi(t) \/ QTmiCas(t) \/ QXchg(t) \/ V1Resume(t)
AllDone == \A t \in Threads : pc[t] = "finished"
StepF(t) == Step(t) /\ lastT' = t /\ lastPc' = pc[t] /\ UNCHANGED scn
Next == \/ \E t \in Threads : StepF(t)
        \/ AllDone /\ UNCHANGED vars /\ lastT' = 0 /\ lastPc' = ""
Spec == Init /\ [][Next]_<<vars, lastT, lastPc>>
FairSpec == Spec /\ \A t \in Threads : WF_<<vars, lastT, lastPc>>(StepF(t))

\* ---------------------------------------------------------------- properties
Owners == {a \in Att : st[a] = 2}
MutualExclusion == Cardinality(Owners) <= 1
\* the lock word agrees with ownership: unlocked (inactive) only when nobody owns, nobody is in unlock's hand-over, nothing pending
InUnlock(t) == pc[t] \in {"q.tmi", "q.tmi.cas", "q.xchg", "v1.resume"}
LockWordConsistent == /\ head.inact => (Owners = {} /\ pending = <<>> /\ \A t \in Threads : ~InUnlock(t))
                      /\ ~head.inact => Cardinality(Owners) + Cardinality({t \in Threads : InUnlock(t)}) = 1
TryLockSucceedsOnlyWhenFree == \A t \in Threads : (pc[t] = "q.tma" /\ QTryMarkActiveOk(head)) => Owners = {}
EachLockOnce == \A a \in Att : cnt[a] <= 1
XchgNonEmpty == \A t \in Threads : (pc[t] = "q.xchg") => (~head.inact /\ head.st # <<>>)
\* waiters are exactly the started attempts that sit in the inbox or the pending batch
Waiting == {a \in Att : st[a] = 1}
InQueues == {head.st[i] : i \in 1..Len(head.st)} \cup {pending[i] : i \in 1..Len(pending)}
NoWaiterOutsideQueues == \A a \in Waiting : a \in InQueues \/ \E t \in Threads : pc[t] \in {"q.eoma", "q.eoma.cas"} /\ OpA(t) = a
\* terminal form of "no lost waiter" and "lock not leaked" (TLC's deadlock check covers the blocked form)
Terminal == AllDone => /\ head = QInactive /\ pending = <<>>
                       /\ \A a \in Att : st[a] \in {0, 4, 5}
Terminates == <>AllDone
=============================================================================
