SPECIFICATION Spec
CONSTANTS Threads <- T  Att <- A  Scenarios <- Scn
INVARIANTS MutualExclusion LockWordConsistent TryLockSucceedsOnlyWhenFree EachLockOnce XchgNonEmpty NoWaiterOutsideQueues Terminal
VIEW View
ACTION_CONSTRAINT EdgeLog
CHECK_DEADLOCK TRUE
