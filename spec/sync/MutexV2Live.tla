---- MODULE MutexV2Live ----
EXTENDS MutexV2, Json, IOUtils
T == {1, 2, 3}
A == 1..6
ScnSeq == JsonDeserialize(IOEnv.SCENARIOS)
Scn == {ScnSeq[i] : i \in 1..Len(ScnSeq)}
====
