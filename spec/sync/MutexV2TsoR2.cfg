SPECIFICATION Spec
CONSTANTS Threads = {1, 2}  Rounds = 2  RmwDrains = FALSE  FenceStart = TRUE  FenceUnlock = TRUE
INVARIANTS MutualExclusion AtRest
CHECK_DEADLOCK TRUE
