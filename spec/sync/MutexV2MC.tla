---- MODULE MutexV2MC ----
(* Model-checking instance of MutexV2: scenarios come from a JSON file shared with the C++ driver;   *)
(* every explored transition is exported (ACTION_CONSTRAINT) for behaviour generation.              *)
EXTENDS MutexV2, Json, IOUtils, TLCExt
T == {1, 2, 3}
A == 1..6
TpOn == TRUE
ScnSeq == JsonDeserialize(IOEnv.SCENARIOS)
Scn == {ScnSeq[i] : i \in 1..Len(ScnSeq)}
EdgeLog ==
  LET rec == [s |-> <<TLCFP(vars), TLCFP(<<vars, 1>>)>>, t |-> <<TLCFP(vars'), TLCFP(<<vars', 1>>)>>,
              th |-> lastT', pc |-> IF Silent(lastPc') THEN "" ELSE lastPc', scn |-> scn.id, done |-> AllDone', obs |-> [st |-> st']]
  IN (lastT' # 0 /\ IOEnv.EDGES # "") =>
     Serialize(ToJson(rec) \o "\n", IOEnv.EDGES,
        [format |-> "TXT", charset |-> "UTF-8", openOptions |-> <<"WRITE", "CREATE", "APPEND">>]).exitValue = 0
====
