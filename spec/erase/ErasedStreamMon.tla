-------------------------- MODULE ErasedStreamMon --------------------------
(***************************************************************************)
(* C18 monitor for type_erased_stream.  One execution = the same consumer  *)
(* script run on a stream directly (Run plain) and through                 *)
(* type_erase<Val>() (Run erased).  Events                                 *)
(*   Reset  Run(mode)  Call(a, nested)  EndRun(ok)  Done                   *)
(*   VNew(id, how, from, c, over) VDtor(id)   tracked value objects        *)
(*   OpNew(id, kind, over)  OpDtor(id)        operation states of the      *)
(*                                            wrapped stream               *)
(*   Deliver(ch, id, c, rc)  the consumer is completed; for a value: id of *)
(*        the live object the reference designates (0 = none), its content *)
(*        c and the content rc the consumer read after moving it.          *)
(* Accepted are exactly the logs in which                                  *)
(*  - every value object is constructed on free storage, moved / copied    *)
(*    only from a live object, destroyed exactly once (never id 0) and     *)
(*    dead at the end of its run;                                          *)
(*  - a delivered value designates a LIVE object whose content is what the *)
(*    consumer then reads;                                                 *)
(*  - wrapped operations are constructed on free storage, one at a time,   *)
(*    destroyed exactly once, all dead at the end of the run; in the       *)
(*    erased run the wrapped operation is already destroyed when its       *)
(*    completion reaches the consumer (the consumer may call next() again  *)
(*    from there and the wrapper re-uses the storage);                     *)
(*  - every next()/cleanup() call is completed exactly once by EndRun;     *)
(*  - the erased run delivers the same completions (channel, value /       *)
(*    error code) in the same order as the plain run.                      *)
(***************************************************************************)
EXTENDS Integers, Sequences, FiniteSets, TLC, TraceIO
VARIABLES l, ph, vals, ops, open, pobs, k
vars == <<l, ph, vals, ops, open, pobs, k>>
Init == l = 1 /\ ph = "idle" /\ vals = <<>> /\ ops = <<>> /\ open = 0 /\ pobs = <<>> /\ k = 1 /\ TrackInit
E == Log[l]
Is(e) == l <= Len(Log) /\ E.e = e /\ l' = l + 1
LiveVal(id) == IF id \in DOMAIN vals THEN vals[id].live ELSE FALSE
LiveOps == {i \in DOMAIN ops : ops[i].live}

Reset == /\ Is("Reset") /\ ph = "idle"
         /\ ph' = "between" /\ vals' = <<>> /\ ops' = <<>> /\ open' = 0 /\ pobs' = <<>> /\ k' = 1
Run == /\ Is("Run") /\ ph = "between"
       /\ IF E.mode = "plain" THEN pobs = <<>> ELSE TRUE
       /\ ph' = E.mode /\ open' = 0 /\ k' = 1
       /\ UNCHANGED <<vals, ops, pobs>>
InRun == ph \in {"plain", "erased"}
Call == /\ Is("Call") /\ InRun
        /\ open' = IF E.a \in {"N", "K"} THEN open + 1 ELSE open
        /\ UNCHANGED <<ph, vals, ops, pobs, k>>
VNew == /\ Is("VNew") /\ InRun
        /\ E.id \notin DOMAIN vals /\ E.over = 0
        /\ E.how \in {"move", "copy"} => (LiveVal(E.from) /\ vals[E.from].c = E.c)
        /\ vals' = vals @@ (E.id :> [live |-> TRUE, c |-> E.c])
        /\ UNCHANGED <<ph, ops, open, pobs, k>>
VDtor == /\ Is("VDtor") /\ InRun
         /\ LiveVal(E.id)                                  \* exactly once, never an address that holds no live value
         /\ vals' = [vals EXCEPT ![E.id].live = FALSE]
         /\ UNCHANGED <<ph, ops, open, pobs, k>>
OpNew == /\ Is("OpNew") /\ InRun
         /\ E.id \notin DOMAIN ops /\ E.over = 0 /\ LiveOps = {}
         /\ ops' = ops @@ (E.id :> [live |-> TRUE, kind |-> E.kind])
         /\ UNCHANGED <<ph, vals, open, pobs, k>>
OpDtor == /\ Is("OpDtor") /\ InRun
          /\ E.id \in DOMAIN ops /\ ops[E.id].live
          /\ ops' = [ops EXCEPT ![E.id].live = FALSE]
          /\ UNCHANGED <<ph, vals, open, pobs, k>>
Deliver == /\ Is("Deliver") /\ InRun /\ open > 0
           /\ E.ch = "v" => (LiveVal(E.id) /\ vals[E.id].c = E.c /\ E.rc = E.c)
           /\ open' = open - 1
           /\ IF ph = "plain" THEN pobs' = Append(pobs, <<E.ch, E.rc>>) /\ k' = k
              ELSE /\ k <= Len(pobs) /\ pobs[k] = <<E.ch, E.rc>>      \* same completion as the wrapped stream
                   /\ LiveOps = {}                                    \* wrapped operation already destroyed
                   /\ k' = k + 1 /\ pobs' = pobs
           /\ UNCHANGED <<ph, vals, ops>>
EndRun == /\ Is("EndRun") /\ InRun
          /\ E.ok = 1 /\ open = 0 /\ LiveOps = {} /\ \A i \in DOMAIN vals : ~vals[i].live
          /\ (ph = "erased" => k = Len(pobs) + 1)                     \* none lost
          /\ ph' = "between"
          /\ UNCHANGED <<vals, ops, open, pobs, k>>
Done == /\ Is("Done") /\ ph = "between" /\ E.vals = 0 /\ E.ops = 0
        /\ ph' = "idle"
        /\ UNCHANGED <<vals, ops, open, pobs, k>>
Next == Reset \/ Run \/ Call \/ VNew \/ VDtor \/ OpNew \/ OpDtor \/ Deliver \/ EndRun \/ Done
Spec == Init /\ [][Next]_vars
Closed == ph = "idle"
Track == TrackAt(l, Closed)
Report == ReportTrace
=============================================================================
