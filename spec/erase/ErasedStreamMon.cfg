SPECIFICATION Spec
CHECK_DEADLOCK FALSE
CONSTRAINT Track
POSTCONDITION Report
