SPECIFICATION SpecMC
CONSTANTS Wr = {1,2,3}  MaxOps = 5  Fams = {"objT","objF","uniq"}  Bug = "guardOnRequire"
INVARIANTS TypeOK NoBad NoLeak StorageDocumented Destructible AbsAgrees OpMovesOnly
VIEW View
CHECK_DEADLOCK FALSE
