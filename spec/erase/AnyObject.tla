----------------------------- MODULE AnyObject -----------------------------
(***************************************************************************)
(* Implementation-shaped model of libunifex's type-erasing wrappers (C18): *)
(*   objT / objF  basic_any_object<20, 8, RequireNoexceptMove = T / F, A>  *)
(*                (include/unifex/any_object.hpp,                          *)
(*                 detail/any_heap_allocated_storage.hpp)                  *)
(*   uniq         any_unique (always heap, allocator aware, move-only)     *)
(*   ref          any_ref    (non-owning reference, shallow equality)      *)
(*   sched        any_scheduler     (any_unique of a scheduler, copyable)  *)
(*   sref         any_scheduler_ref (any_ref of a scheduler)               *)
(* The state of a wrapper is what the real object stores: a vtable         *)
(* (`vt`: which concrete type the entries were instantiated for, inline    *)
(* or heap-storage flavour, or the `invalid_obj` table) and the raw        *)
(* storage (`st`: no object / a payload object / a pointer to a heap       *)
(* block / a pointer to an external object).  Every API call is one        *)
(* action that performs the same sequence of vtable calls and placement    *)
(* constructions as the C++ code; the helper operators flag a destructor   *)
(* run on storage without object, a construction over a live object and a  *)
(* deallocation of a block that is not allocated in `bad`.                 *)
(* `abs` is the API-level reading of the history (what the user thinks the *)
(* wrapper contains); it is what the monitor EraseMon reconstructs from a  *)
(* recorded log.                                                           *)
(***************************************************************************)
EXTENDS Integers, Sequences, FiniteSets, TLC

CONSTANTS Wr,       \* wrapper identities (1..3)
          MaxOps,   \* bound on the length of the operation history
          Fams,     \* families explored: subset of {"objT","objF","uniq","ref","sched","sref"}
          Bug       \* "none", or a seeded design error used to check that the invariants are not vacuous

VARIABLES fam, vt, st, heap, ext, bad, abs, n, last
vars == <<fam, vt, st, heap, ext, bad, abs, n, last>>
\* The state graph is explored modulo the payload kind *class* (stored inline / inline with throwing move / on the heap)
\* and modulo the allocator tag of heap blocks: no action distinguishes two kinds of one class or two tags, so every
\* path of the quotient graph is a behaviour.  The history counter and the op/observation record are ghosts.
KC(k) == CASE k \in {"SN", "EX"} -> "i" [] k \in {"LG", "OA"} -> "h" [] OTHER -> k
OC(o) == [o EXCEPT !.k = KC(o.k)]
View == <<fam, [w \in Wr |-> [vt[w] EXCEPT !.k = KC(@)]], [w \in Wr |-> [st[w] EXCEPT !.o = OC(@)]],
          [b \in DOMAIN heap |-> [used |-> heap[b].used, o |-> OC(heap[b].o)]], ext, bad,
          [w \in Wr |-> [abs[w] EXCEPT !.o = OC(@)]]>>

\* ---------------------------------------------------------------- payload types
PKinds == {"SN", "EX", "ST", "LG", "OA"}   \* small nothrow / exactly buffer-sized / small throwing-move / just too large / over-aligned
SKinds == {"S1", "S2"}                      \* two scheduler types
BufSize == 20
BufAlign == 8
SizeOf == [SN |-> 12, EX |-> 20, ST |-> 12, LG |-> 24, OA |-> 16, S1 |-> 12, S2 |-> 12]
AlignOf == [SN |-> 4, EX |-> 4, ST |-> 4, LG |-> 4, OA |-> 16, S1 |-> 4, S2 |-> 4]
Nothrow(k) == k # "ST"
Own == {"objT", "objF", "uniq"}
RefF == {"ref", "sref"}
\* any_object.hpp can_be_stored_inplace_v
InPlace(k) == /\ fam \in {"objT", "objF"}
              /\ SizeOf[k] <= BufSize /\ AlignOf[k] <= BufAlign
              /\ (fam = "objF" \/ Nothrow(k))

P(k, v) == [k |-> k, v |-> v, a |-> 0, m |-> FALSE]
NoP == [k |-> "", v |-> 0, a |-> 0, m |-> FALSE]
\* what the CPO get_code() returns for a payload object (the real payloads add 1000 * <number of their type>, which the
\* kind-class quotient below cannot predict; the driver strips it before comparing, the monitor EraseMon checks it)
Code(o) == o.v * 10 + o.a + (IF o.m THEN 500 ELSE 0)
TypeNo(k) == IF k = "S1" THEN 1 ELSE IF k = "S2" THEN 2 ELSE 0

Blocks == 1..5
Exts == 1..4
NoneVt == [t |-> "none", k |-> ""]
InvVt == [t |-> "inv", k |-> ""]
Empty == [t |-> "empty", o |-> NoP, b |-> 0]
ObjSlot(o) == [t |-> "obj", o |-> o, b |-> 0]
Ptr(b) == [t |-> "ptr", o |-> NoP, b |-> b]
ExtRef(e) == [t |-> "ext", o |-> NoP, b |-> e]
FreeBlk == [used |-> FALSE, tag |-> 0, o |-> NoP]
Z == [ctor |-> 0, move |-> 0, copy |-> 0, dtor |-> 0, alloc |-> 0, free |-> 0]
NoAbs == [t |-> "none", o |-> NoP, e |-> 0]
ValAbs(o) == [t |-> "val", o |-> o, e |-> 0]
MfAbs == [t |-> "mf", o |-> NoP, e |-> 0]
InvAbs == [t |-> "inv", o |-> NoP, e |-> 0]
RefAbs(e) == [t |-> "ref", o |-> NoP, e |-> e]

\* ---------------------------------------------------------------- machine-state helpers
M0 == [vt |-> vt, st |-> st, heap |-> heap, ext |-> ext, bad |-> bad, c |-> Z, exc |-> 0, res |-> 0]
Cnt(m, f) == [m EXCEPT !.c[f] = @ + 1]
Flag(m, s) == IF m.bad = "" THEN [m EXCEPT !.bad = s] ELSE m
NewB(m) == CHOOSE b \in Blocks : ~m.heap[b].used /\ \A c \in Blocks : c < b => m.heap[c].used

\* placement-new of payload o into the inline buffer of w
PutInl(m, w, o) ==
  LET m1 == IF m.st[w].t = "obj" THEN Flag(m, "object constructed over a live object") ELSE m
  IN [m1 EXCEPT !.st[w] = ObjSlot(o)]
\* overwrite the buffer of w with a pointer
PutPtr(m, w, b) ==
  LET m1 == IF m.st[w].t = "obj" THEN Flag(m, "pointer stored over a live object") ELSE m
  IN [m1 EXCEPT !.st[w] = Ptr(b)]
\* ~state() + deallocate(allocCopy, state_)
HeapDel(m, b) ==
  IF b \in Blocks /\ m.heap[b].used
  THEN Cnt(Cnt([m EXCEPT !.heap[b] = FreeBlk], "dtor"), "free")
  ELSE Flag(m, "destroy/deallocate of a heap block that is not allocated")

\* vtable entry _destroy_cpo of wrapper w
VDestroy(m, w) ==
  CASE m.vt[w].t = "inl" ->
         IF m.st[w].t = "obj" THEN Cnt([m EXCEPT !.st[w] = Empty], "dtor")
         ELSE Flag(m, "destructor run on inline storage that holds no object")
    [] m.vt[w].t = "heap" ->
         IF m.st[w].t # "ptr" THEN Flag(m, "heap-storage destructor run on storage that holds no pointer")
         ELSE IF m.st[w].b = 0 THEN [m EXCEPT !.st[w] = Empty]
         ELSE [HeapDel(m, m.st[w].b) EXCEPT !.st[w] = Empty]
    [] m.vt[w].t \in {"inv", "ref"} -> m
    [] OTHER -> Flag(m, "call through the vtable of a wrapper that does not exist")

\* vtable entry _move_construct_cpo of wrapper s, constructing into the raw storage of d
VMove(m, d, s, fault) ==
  CASE m.vt[s].t = "inl" ->
         IF m.st[s].t # "obj" THEN Flag(m, "move from inline storage that holds no object")
         ELSE IF fault = "move" /\ m.vt[s].k = "ST" THEN [m EXCEPT !.exc = 1000 + m.st[s].o.v]
         ELSE LET o == m.st[s].o
                  m1 == PutInl(m, d, o)
              IN Cnt([m1 EXCEPT !.st[s] = ObjSlot([o EXCEPT !.m = TRUE])], "move")
    [] m.vt[s].t = "heap" ->
         IF m.st[s].t # "ptr" THEN Flag(m, "move from heap storage that holds no pointer")
         ELSE LET m1 == PutPtr(m, d, m.st[s].b)
              IN IF Bug = "srcNotNulled" THEN m1 ELSE [m1 EXCEPT !.st[s] = Ptr(0)]
    [] m.vt[s].t = "inv" -> m
    [] OTHER -> Flag(m, "move through the vtable of a wrapper that does not exist")

\* construct a payload of kind k / value v as the content of w: inline, or in a fresh heap block obtained from
\* the allocator `tag`.  via = "inplace": constructed from arguments (fault "ctor": that constructor throws);
\* via = "value": move-constructed from a temporary the caller made (fault "move": the move constructor throws);
\* via = "copy": copy-constructed from a const lvalue of the caller (fault "copy": the copy constructor throws; the payload
\* types' copy constructors are not noexcept, their move constructors are - except ST's).
MakeIn(m, w, k, v, via, tag, fault) ==
  LET o == P(k, v)
      inpl == InPlace(k)
      throws == \/ via = "inplace" /\ fault = "ctor"
                \/ via = "value" /\ fault = "move" /\ k = "ST"
                \/ via = "copy" /\ fault = "copy"
      m1 == IF via \in {"value", "copy"} THEN Cnt(m, "ctor") ELSE m
      m2 == IF inpl THEN m1 ELSE Cnt(m1, "alloc")
      m3 == IF throws THEN (IF inpl THEN m2 ELSE Cnt(m2, "free"))       \* scope_guard / catch: deallocate, rethrow
            ELSE LET m3a == Cnt(m2, IF via = "value" THEN "move" ELSE IF via = "copy" THEN "copy" ELSE "ctor")
                     b == NewB(m)
                 IN IF inpl THEN PutInl(m3a, w, o)
                    ELSE PutPtr([m3a EXCEPT !.heap[b] = [used |-> TRUE, tag |-> tag, o |-> o]], w, b)
      m4 == IF via \in {"value", "copy"} THEN Cnt(m3, "dtor") ELSE m3
  IN [m4 EXCEPT !.exc = IF throws THEN 1000 + v ELSE 0]

VtFor(k) == IF InPlace(k) THEN [t |-> "inl", k |-> k] ELSE [t |-> "heap", k |-> k]

\* the payload object a CPO invoked on w reaches
Invocable(m, w) == \/ m.vt[w].t = "inl" /\ m.st[w].t = "obj"
                   \/ m.vt[w].t = "heap" /\ m.st[w].t = "ptr" /\ m.st[w].b \in Blocks /\ m.heap[m.st[w].b].used
                   \/ m.vt[w].t = "ref" /\ m.st[w].t = "ext"
Target(m, w) == CASE m.vt[w].t = "inl" -> m.st[w].o
                  [] m.vt[w].t = "heap" -> m.heap[m.st[w].b].o
                  [] OTHER -> m.ext[m.st[w].b]
SetTarget(m, w, o) == CASE m.vt[w].t = "inl" -> [m EXCEPT !.st[w].o = o]
                        [] m.vt[w].t = "heap" -> [m EXCEPT !.heap[m.st[w].b].o = o]
                        [] OTHER -> [m EXCEPT !.ext[m.st[w].b] = o]

UsedVals == {st[w].o.v : w \in Wr} \cup {heap[b].o.v : b \in Blocks}
NewVal == CHOOSE v \in 1..5 : v \notin UsedVals /\ \A u \in 1..5 : u < v => u \in UsedVals

\* wrappers are interchangeable: a new wrapper is always created in the lowest-numbered free slot
IsLowFree(w) == vt[w].t = "none" /\ \A u \in Wr : u < w => vt[u].t # "none"

NoOp == [k |-> "", w |-> 0, s |-> 0, kind |-> "", via |-> "", tag |-> 0, fault |-> "none", cpo |-> "", val |-> 0]
\* (\E x \in {e} forces TLC to evaluate e once; operator arguments and LET definitions are re-evaluated on every use)
Commit(mx, op, ax) == \E m \in {mx}, a \in {ax} :
  /\ vt' = m.vt /\ st' = m.st /\ heap' = m.heap /\ ext' = m.ext /\ bad' = m.bad /\ abs' = a
  /\ n' = n + 1 /\ fam' = fam
  /\ last' = [op |-> op, exc |-> m.exc, res |-> m.res, c |-> m.c]

\* ---------------------------------------------------------------- owning wrappers: any_object / any_unique
Construct(w, k, via, tag, fault) ==
  /\ fam \in Own /\ IsLowFree(w) /\ k \in PKinds
  /\ IF fam = "uniq" THEN tag \in {9, 1, 2}                 \* 9 = plain new/delete, 1,2 = allocator_arg with that allocator
     ELSE tag \in {0, 1} /\ (InPlace(k) /\ tag = 1 => k = "SN")  \* 0 = DefaultAllocator
  /\ fault \in {"none"} \cup (IF via = "inplace" THEN {"ctor"} ELSE {}) \cup (IF via = "value" /\ k = "ST" THEN {"move"} ELSE {})
                       \cup (IF via = "copy" THEN {"copy"} ELSE {})
  /\ fault = "ctor" => tag \in {0, 9} /\ k \in {"SN", "LG"}
  /\ via = "copy" => tag \in {0, 9} /\ k \in {"SN", "LG"}
  /\ \E v \in {NewVal}, m0 \in {M0} : \E m2 \in {MakeIn([m0 EXCEPT !.vt[w] = VtFor(k)], w, k, v, via, tag, fault)} :
     \E m3 \in {IF m2.exc # 0 THEN [m2 EXCEPT !.vt[w] = NoneVt, !.st[w] = Empty] ELSE m2} :
        Commit(m3, [NoOp EXCEPT !.k = "construct", !.w = w, !.kind = k, !.via = via, !.tag = tag, !.fault = fault, !.val = v],
               IF m2.exc # 0 THEN abs ELSE [abs EXCEPT ![w] = ValAbs(P(k, v))])

\* API-level reading of "move the content of s": value keeps, source becomes moved-from
AbsMoved(a, w, s) == [a EXCEPT ![w] = a[s], ![s] = IF a[s].t = "val" THEN MfAbs ELSE a[s]]

MoveC(w, s, fault) ==
  /\ fam \in Own \cup {"sched"} /\ w # s /\ IsLowFree(w) /\ vt[s].t # "none"
  /\ fault \in {"none"} \cup (IF vt[s] = [t |-> "inl", k |-> "ST"] /\ st[s].t = "obj" THEN {"move"} ELSE {})
  /\ \E m1 \in {[M0 EXCEPT !.vt[w] = vt[s]]} : \E m2 \in {VMove(m1, w, s, fault)} :
     \E m3 \in {IF m2.exc # 0 THEN [m2 EXCEPT !.vt[w] = NoneVt, !.st[w] = Empty] ELSE m2} :
        Commit(m3, [NoOp EXCEPT !.k = "movec", !.w = w, !.s = s, !.fault = fault],
               IF m2.exc # 0 THEN abs ELSE AbsMoved(abs, w, s))

MoveA(w, s, fault) ==
  /\ fam \in Own \cup {"sched"} /\ vt[w].t # "none" /\ vt[s].t # "none"
  /\ fault \in {"none"} \cup (IF w # s /\ vt[s] = [t |-> "inl", k |-> "ST"] /\ st[s].t = "obj" THEN {"move"} ELSE {})
  /\ \E m0 \in {M0} : \E m1 \in {IF Bug = "noDestroyOnAssign" THEN [m0 EXCEPT !.st[w] = Empty] ELSE VDestroy(m0, w)} :
     \E m2 \in {IF fam = "objF" /\ Bug # "noInvalid" THEN [m1 EXCEPT !.vt[w] = InvVt] ELSE m1} :
     \E m3 \in {VMove(m2, w, s, fault)} :
     \E m4 \in {IF m3.exc = 0 THEN [m3 EXCEPT !.vt[w] = m3.vt[s]] ELSE m3} :
     \E op \in {[NoOp EXCEPT !.k = "movea", !.w = w, !.s = s, !.fault = fault]} :
        IF w = s THEN Commit(M0, op, abs)
        ELSE Commit(m4, op, IF m3.exc # 0 THEN [abs EXCEPT ![w] = InvAbs] ELSE AbsMoved(abs, w, s))

\* operator=(T&& value).  Inline overload: the invalid_obj vtable is installed iff constructing value_type from the argument
\* may throw (!is_nothrow_constructible_v<value_type, T>: a throwing move for an rvalue, always for a const lvalue of the
\* payload types) - independent of RequireNoexceptMove; heap overload: always.
MayThrowFrom(k, via) == via = "copy" \/ ~Nothrow(k)
AssignValue(w, k, via, fault) ==
  /\ fam \in {"objT", "objF"} /\ vt[w].t # "none" /\ k \in PKinds /\ via \in {"value", "copy"}
  /\ via = "copy" => k \in {"SN", "EX", "LG"}
  /\ fault \in {"none"} \cup (IF via = "value" /\ k = "ST" THEN {"move"} ELSE {}) \cup (IF via = "copy" THEN {"copy"} ELSE {})
  /\ \E v \in {NewVal}, m0 \in {M0} : \E m1 \in {VDestroy(m0, w)} :
     \E m2 \in {IF CASE Bug = "noInvalid" -> FALSE
                      [] Bug = "guardOnRequire" -> ~InPlace(k) \/ fam = "objF"
                      [] OTHER -> ~InPlace(k) \/ MayThrowFrom(k, via)
                 THEN [m1 EXCEPT !.vt[w] = InvVt] ELSE m1} :
     \E m3 \in {MakeIn(m2, w, k, v, via, 0, fault)} :
     \E m4 \in {IF m3.exc = 0 THEN [m3 EXCEPT !.vt[w] = VtFor(k)] ELSE m3} :
        Commit(m4, [NoOp EXCEPT !.k = "assign", !.w = w, !.kind = k, !.via = via, !.fault = fault, !.val = v],
               [abs EXCEPT ![w] = IF m3.exc # 0 THEN InvAbs ELSE ValAbs(P(k, v))])

Swap(w, s) ==
  /\ fam \in {"uniq", "ref"} /\ w < s /\ vt[w].t # "none" /\ vt[s].t # "none"
  /\ Commit([M0 EXCEPT !.vt[w] = vt[s], !.vt[s] = vt[w], !.st[w] = st[s], !.st[s] = st[w]],
            [NoOp EXCEPT !.k = "swap", !.w = w, !.s = s], [abs EXCEPT ![w] = abs[s], ![s] = abs[w]])

Invoke(w, cpo) ==
  /\ fam \in Own \cup {"ref"} /\ Invocable(M0, w)
  /\ cpo \in {"get", "add", "snd", "ovl", "thr"}
  /\ \E m0 \in {M0} : \E o \in {Target(m0, w)} : \E o2 \in {IF cpo = "add" THEN [o EXCEPT !.a = 1] ELSE o} :
     \E m1 \in {SetTarget(m0, w, o2)} :
     LET m2 == CASE cpo = "get" -> [m1 EXCEPT !.res = Code(o)]
                 [] cpo = "add" -> [m1 EXCEPT !.res = Code(o2)]
                 [] cpo = "snd" -> [m1 EXCEPT !.res = Code(o) + 70000]
                 [] cpo = "ovl" -> [m1 EXCEPT !.res = Code(o) + 300000]
                 [] OTHER -> [m1 EXCEPT !.exc = 20000 + Code(o)]
         a2 == IF cpo = "add" /\ abs[w].t = "val" THEN [abs EXCEPT ![w].o.a = 1] ELSE abs
     IN Commit(m2, [NoOp EXCEPT !.k = "invoke", !.w = w, !.cpo = cpo], a2)

Destroy(w) ==
  /\ vt[w].t # "none"
  /\ \E m1 \in {VDestroy(M0, w)} :
        Commit([m1 EXCEPT !.vt[w] = NoneVt, !.st[w] = Empty], [NoOp EXCEPT !.k = "destroy", !.w = w], [abs EXCEPT ![w] = NoAbs])

\* ---------------------------------------------------------------- any_ref / any_scheduler_ref
Bind(w, e) ==
  /\ fam \in RefF /\ IsLowFree(w) /\ e \in Exts /\ ext[e].k # ""
  /\ Commit([M0 EXCEPT !.vt[w] = [t |-> "ref", k |-> ext[e].k], !.st[w] = ExtRef(e)],
            [NoOp EXCEPT !.k = "bind", !.w = w, !.s = e], [abs EXCEPT ![w] = RefAbs(e)])
CopyRef(w, s) ==
  /\ fam \in RefF /\ vt[s].t # "none" /\ (vt[w].t = "none" => IsLowFree(w))
  /\ Commit([M0 EXCEPT !.vt[w] = vt[s], !.st[w] = st[s]],
            [NoOp EXCEPT !.k = IF vt[w].t = "none" THEN "copyc" ELSE "copya", !.w = w, !.s = s], [abs EXCEPT ![w] = abs[s]])
EqRef(w, s, deep) ==
  /\ fam \in RefF /\ vt[w].t # "none" /\ vt[s].t # "none" /\ (deep => fam = "sref")
  /\ LET a == ext[st[w].b]
         b == ext[st[s].b]
         r == IF deep THEN a.k = b.k /\ a.v = b.v ELSE st[w].b = st[s].b
     IN Commit([M0 EXCEPT !.res = IF r THEN 1 ELSE 0], [NoOp EXCEPT !.k = IF deep THEN "deepeq" ELSE "eq", !.w = w, !.s = s], abs)

\* ---------------------------------------------------------------- any_scheduler (owning, copyable) and the scheduler API
SConstruct(w, k, key) ==
  /\ fam = "sched" /\ IsLowFree(w) /\ k \in SKinds /\ key \in {1, 2}
  /\ LET b == NewB(M0)
         m1 == [M0 EXCEPT !.vt[w] = [t |-> "heap", k |-> k], !.heap[b] = [used |-> TRUE, tag |-> 9, o |-> P(k, key)], !.st[w] = Ptr(b)]
     IN Commit([m1 EXCEPT !.c = [Z EXCEPT !.ctor = 1, !.move = 1, !.dtor = 1, !.alloc = 1]],
               [NoOp EXCEPT !.k = "construct", !.w = w, !.kind = k, !.val = key, !.via = "value", !.tag = 9], [abs EXCEPT ![w] = ValAbs(P(k, key))])
\* copy construction / assignment: _copy_as makes a new heap-allocated scheduler, then the old content (if any) dies
SCopy(w, s) ==
  /\ fam = "sched" /\ Invocable(M0, s) /\ (vt[w].t = "none" => IsLowFree(w))
  /\ \E m0 \in {M0} : \E o \in {Target(m0, s)}, b \in {NewB(m0)} :
     \E m1 \in {[m0 EXCEPT !.heap[b] = [used |-> TRUE, tag |-> 9, o |-> o], !.c = [Z EXCEPT !.copy = 1, !.move = 1, !.dtor = 1, !.alloc = 1]]} :
     \E m2 \in {IF vt[w].t = "none" THEN m1 ELSE VDestroy(m1, w)} :
     \E m3 \in {PutPtr([m2 EXCEPT !.vt[w] = vt[s]], w, b)} :
        Commit(m3, [NoOp EXCEPT !.k = IF vt[w].t = "none" THEN "copyc" ELSE "copya", !.w = w, !.s = s], [abs EXCEPT ![w] = abs[s]])
SEq(w, s) ==
  /\ fam = "sched" /\ Invocable(M0, w) /\ Invocable(M0, s)
  /\ LET a == Target(M0, w)
         b == Target(M0, s)
     IN Commit([M0 EXCEPT !.res = IF a.k = b.k /\ a.v = b.v THEN 1 ELSE 0], [NoOp EXCEPT !.k = "eq", !.w = w, !.s = s], abs)
\* schedule() + connect + start: the schedule sender holds a copy of the any_scheduler (any_scheduler.hpp "TODO This does a
\* dynamic allocation"); any_scheduler_ref's sender holds a copy of the reference
Sched(w) ==
  /\ fam \in {"sched", "sref"} /\ Invocable(M0, w)
  /\ Commit([M0 EXCEPT !.res = Code(Target(M0, w)),
                       !.c = IF fam = "sched" THEN [Z EXCEPT !.copy = 1, !.move = 1, !.dtor = 2, !.alloc = 1, !.free = 1] ELSE Z],
            [NoOp EXCEPT !.k = "sched", !.w = w], abs)
GetType(w) ==
  /\ fam \in {"sched", "sref"} /\ Invocable(M0, w)
  /\ Commit([M0 EXCEPT !.res = TypeNo(Target(M0, w).k)], [NoOp EXCEPT !.k = "type", !.w = w], abs)

\* ---------------------------------------------------------------- behaviours
ExtInit(f) == CASE f = "ref" -> [e \in Exts |-> IF e = 1 THEN P("SN", 1) ELSE IF e = 2 THEN P("LG", 2) ELSE NoP]
                [] f = "sref" -> [e \in Exts |-> CASE e = 1 -> P("S1", 1) [] e = 2 -> P("S1", 1) [] e = 3 -> P("S2", 1) [] OTHER -> P("S1", 2)]
                [] OTHER -> [e \in Exts |-> NoP]
Init == /\ fam \in Fams
        /\ vt = [w \in Wr |-> NoneVt] /\ st = [w \in Wr |-> Empty]
        /\ heap = [b \in Blocks |-> FreeBlk] /\ ext = ExtInit(fam)
        /\ bad = "" /\ abs = [w \in Wr |-> NoAbs] /\ n = 0
        /\ last = [op |-> NoOp, exc |-> 0, res |-> 0, c |-> Z]

Next == /\ n < MaxOps
        /\ \/ \E w \in Wr, k \in PKinds, via \in {"inplace", "value", "copy"}, tag \in {0, 1, 2, 9}, f \in {"none", "ctor", "move", "copy"} : Construct(w, k, via, tag, f)
           \/ \E w \in Wr, s \in Wr, f \in {"none", "move"} : MoveC(w, s, f) \/ MoveA(w, s, f)
           \/ \E w \in Wr, k \in PKinds, via \in {"value", "copy"}, f \in {"none", "move", "copy"} : AssignValue(w, k, via, f)
           \/ \E w \in Wr, s \in Wr : Swap(w, s) \/ CopyRef(w, s) \/ SCopy(w, s) \/ SEq(w, s) \/ EqRef(w, s, TRUE) \/ EqRef(w, s, FALSE)
           \/ \E w \in Wr, cpo \in {"get", "add", "snd", "ovl", "thr"} : Invoke(w, cpo)
           \/ \E w \in Wr : Destroy(w) \/ Sched(w) \/ GetType(w)
           \/ \E w \in Wr, e \in Exts : Bind(w, e)
           \/ \E w \in Wr, k \in SKinds, key \in {1, 2} : SConstruct(w, k, key)
Spec == Init /\ [][Next]_vars

\* ---------------------------------------------------------------- properties
\* WrappedDestroyedExactlyOnce (no double destruction, no construction over a live object, no touching of freed blocks)
NoBad == bad = ""
\* ... and no leak: every allocated block is owned by exactly one existing wrapper; a wrapper that does not exist owns nothing
Owners(b) == {w \in Wr : vt[w].t = "heap" /\ st[w].t = "ptr" /\ st[w].b = b}
NoLeak == /\ \A b \in Blocks : heap[b].used => Cardinality(Owners(b)) = 1
          /\ \A w \in Wr : vt[w].t = "none" => st[w] = Empty
          /\ \A w \in Wr : st[w].t = "obj" => vt[w].t = "inl"
\* StorageLocationIsTheDocumentedOne + the vtable matches what the storage holds
StorageDocumented ==
  \A w \in Wr :
    /\ vt[w].t = "inl" => st[w].t = "obj" /\ st[w].o.k = vt[w].k /\ InPlace(vt[w].k)
    /\ vt[w].t = "heap" => st[w].t = "ptr" /\ ~InPlace(vt[w].k)
                            /\ (st[w].b # 0 => st[w].b \in Blocks /\ heap[st[w].b].used /\ heap[st[w].b].o.k = vt[w].k)
    /\ vt[w].t = "ref" => st[w].t = "ext" /\ ext[st[w].b].k = vt[w].k
    /\ vt[w].t = "inv" => st[w].t = "empty"
\* SourceUsableOrDestructible: whatever state a wrapper is left in, destroying it is safe
Destructible == \A w \in Wr : vt[w].t # "none" => VDestroy(M0, w).bad = ""
\* InvokeReachesWrapped: the API-level content of a wrapper is the object the vtable dispatch reaches
AbsAgrees ==
  \A w \in Wr :
    /\ abs[w].t = "none" <=> vt[w].t = "none"
    /\ abs[w].t = "val" => Invocable(M0, w) /\ Target(M0, w) = abs[w].o
    /\ abs[w].t = "ref" => Invocable(M0, w) /\ st[w].b = abs[w].e
    /\ abs[w].t = "inv" => vt[w].t = "inv"
    /\ abs[w].t = "mf" => (vt[w].t = "heap" /\ st[w].b = 0) \/ (vt[w].t = "inl" /\ st[w].o.m)
\* MoveTransfersWithoutCopy / copies only where documented (any_scheduler is copyable)
OpMovesOnly ==
  LET o == last.op IN
  /\ fam # "sched" => last.c.copy = (IF o.via = "copy" /\ last.exc = 0 THEN 1 ELSE 0)   \* only the copy the caller asked for
  /\ o.k \in {"movec", "movea", "swap"} => last.c.copy = 0 /\ last.c.move <= 1 /\ last.c.ctor = 0
  /\ (o.k \in {"movec", "movea", "swap"} /\ fam \in {"uniq", "sched"}) => last.c.move = 0
  /\ fam \in RefF => last.c = Z
HeapNotMoved == [][(last'.op.k \in {"movec", "movea"} /\ vt[last'.op.s].t = "heap") => last'.c.move = 0]_vars
\* AllocatorRoundTrip: allocations minus deallocations of a call = change in the number of blocks in use
UsedBlocks == Cardinality({b \in Blocks : heap[b].used})
AllocBalanced == [][UsedBlocks' - UsedBlocks = last'.c.alloc - last'.c.free]_vars
\* ExceptionsPropagateUnchanged: a call reports an exception iff the payload threw, and after a failed construction
\* the wrapper does not exist, after a failed assignment it is invalid-but-destructible and the source is untouched
ExceptionsPropagate ==
  [][LET o == last'.op IN
     /\ (last'.exc # 0) <=> (o.fault # "none" \/ o.cpo = "thr")
     /\ (last'.exc # 0 /\ o.k \in {"construct", "movec"}) => vt'[o.w].t = "none"
     /\ (last'.exc # 0 /\ o.k \in {"movea", "assign"}) => vt'[o.w].t = "inv"
     /\ (last'.exc # 0 /\ o.k \in {"movea", "movec"}) => st'[o.s] = st[o.s] /\ vt'[o.s] = vt[o.s]
     /\ last'.exc # 0 => UsedBlocks' <= UsedBlocks]_vars
TypeOK == /\ n \in 0..MaxOps /\ fam \in Fams /\ bad \in STRING
=============================================================================
