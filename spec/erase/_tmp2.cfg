SPECIFICATION Spec
CONSTANTS Wr = {1,2}  MaxOps = 3  Fams = {"objT"}  Bug = "none"
INVARIANTS TypeOK NoBad NoLeak StorageDocumented Destructible AbsAgrees OpMovesOnly
VIEW View
CHECK_DEADLOCK FALSE
