SPECIFICATION SpecMC
CONSTANTS Wr = {1,2,3}  MaxOps = 4  Fams = {"objF"}  Bug = "none"
INVARIANTS TypeOK NoBad NoLeak StorageDocumented Destructible AbsAgrees OpMovesOnly
PROPERTIES HeapNotMoved AllocBalanced ExceptionsPropagate
VIEW View
ACTION_CONSTRAINT EdgeLog
POSTCONDITION Flush
CHECK_DEADLOCK FALSE
