SPECIFICATION SpecMC
CONSTANTS MaxItems = 1  Kinds = {"opval", "tmp"}  Timings = {"inline", "async"}  Endings = {"done"}  Cleanups = {"done"}
          Reacts = {TRUE, FALSE}  Toks = {"src"}  Mut = "fwdRef"
INVARIANTS NoBad NoneLost SameInner CleanEnd RefCountOK DestroyedBeforeForward
VIEW View

CHECK_DEADLOCK FALSE
