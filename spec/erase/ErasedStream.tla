---------------------------- MODULE ErasedStream ----------------------------
(***************************************************************************)
(* type_erased_stream (include/unifex/type_erased_stream.hpp, C18): the    *)
(* erased wrapper around a stream is observationally transparent.          *)
(* One consumer script (N next, K cleanup, X request stop, C complete the  *)
(* pending asynchronous operation of the wrapped stream, nN / nK = the     *)
(* consumer calls next / cleanup again from inside set_value) drives two   *)
(* instances in lock step:                                                 *)
(*   P  the wrapped stream used directly (one atomic step per action), and *)
(*   E  the erased wrapper around an identical stream I, with the steps of *)
(*      the header as single actions (stack `stk` of frames = C++ call     *)
(*      chain):                                                            *)
(*   connect  next_sender::_op: refCount_ = 1, stop callback on the        *)
(*            receiver's token (runs inline when stop was already          *)
(*            requested: request_stop())                                   *)
(*   start    start_next: activate_union_member(next_) with                *)
(*            connect(next(stream_), next_receiver_wrapper), start it; the *)
(*            wrapped operation sees the wrapper's own inplace_stop_token  *)
(*            (default token when the receiver's token cannot stop)        *)
(*   complete next_receiver_wrapper::set_value: the values are copied out  *)
(*            of the wrapped operation (by-value lambda parameters) ...    *)
(*   deact    ... deactivate_union_member(next_) destroys the wrapped      *)
(*            operation (and the value stored in it) ...                   *)
(*   forward  ... receiver_.set_value(copies): refCount_.fetch_sub == 1    *)
(*            decides who delivers; the consumer is completed (delivery    *)
(*            point; it may call next / cleanup again from there)          *)
(*   unwind   the by-value copies die when the lambda returns              *)
(*   rs1/rs2  request_stop(): refCount_.fetch_add, stopSource_.request_    *)
(*            stop() (the wrapped operation may complete with done inside),*)
(*            then receiver_.set_done() -> conditional delivery            *)
(*   kconnect / kstart / cdeact / cforward : the cleanup operation.        *)
(* Plain observations wait in `lagq` until the wrapper delivers the same   *)
(* completion (no history in the state: the graph is small and every path  *)
(* is a script).  Mut = "fwdRef" is the seeded design error: references    *)
(* are forwarded after the wrapped operation was destroyed.                *)
(***************************************************************************)
EXTENDS Integers, Sequences, FiniteSets, TLC
CONSTANTS MaxItems, Kinds, Timings, Endings, Cleanups, Reacts, Toks, Mut
VARIABLES cfg, P, I, E, stk, lagq, stopped, bad, last
vars == <<cfg, P, I, E, stk, lagq, stopped, bad, last>>
View == <<cfg, P, I, E, stk, lagq, stopped, bad>>

NoOut == [ch |-> "", v |-> 0]
Out(ch, v) == [ch |-> ch, v |-> v]
S0 == [i |-> 0, pend |-> "none", term |-> FALSE, cleaned |-> FALSE]
\* ---- the wrapped stream: n items, then done / error; cleanup completes with done / error; a pending next reacts to a stop
\* request (or to a token that is already stopped when it starts) by completing with done, if cfg.reacts
NextOutcome(s) == IF s.i < cfg.n THEN Out("v", s.i + 1) ELSE IF cfg.end = "done" THEN Out("d", 0) ELSE Out("e", 900)
CleanOutcome == IF cfg.cl = "done" THEN Out("d", 0) ELSE Out("e", 901)
AfterNext(s, o) == [s EXCEPT !.i = IF o.ch = "v" THEN @ + 1 ELSE @, !.pend = "none", !.term = (o.ch # "v")]
\* result of starting next(): <<new state, outcome or NoOut when it stays pending>>
StartNext(s, stopSeen) ==
  IF cfg.reacts /\ stopSeen THEN <<AfterNext(s, Out("d", 0)), Out("d", 0)>>
  ELSE IF cfg.tm = "inline" THEN <<AfterNext(s, NextOutcome(s)), NextOutcome(s)>>
  ELSE <<[s EXCEPT !.pend = "next"], NoOut>>
StartCleanup(s) ==
  IF cfg.tm = "inline" THEN <<[s EXCEPT !.cleaned = TRUE], CleanOutcome>>
  ELSE <<[s EXCEPT !.pend = "cleanup"], NoOut>>
Complete(s) == IF s.pend = "next" THEN <<AfterNext(s, NextOutcome(s)), NextOutcome(s)>>
               ELSE <<[s EXCEPT !.pend = "none", !.cleaned = TRUE], CleanOutcome>>
StopPending(s) == IF s.pend = "next" /\ cfg.reacts THEN <<AfterNext(s, Out("d", 0)), Out("d", 0)>> ELSE <<s, NoOut>>

E0 == [outer |-> "none", rc |-> 0, ss |-> FALSE, inner |-> "none", ov |-> FALSE, copies |-> 0]
Frame(pc, o, obj) == [pc |-> pc, out |-> o, obj |-> obj]
Top == stk[Len(stk)]
Pop == SubSeq(stk, 1, Len(stk) - 1)
Repl(f) == Append(Pop, f)
Flag(s) == IF bad = "" THEN s ELSE bad
Obs(o) == IF o.ch = "" THEN <<>> ELSE <<o>>

Init == /\ cfg \in [n : 0..MaxItems, kind : Kinds, tm : Timings, end : Endings, cl : Cleanups, reacts : Reacts, tok : Toks]
        /\ P = S0 /\ I = S0 /\ E = E0 /\ stk = <<>> /\ lagq = <<>> /\ stopped = FALSE /\ bad = ""
        /\ last = [ext |-> "", pobs |-> NoOut, eobs |-> NoOut, alive |-> TRUE]
Ext(l, po) == last' = [ext |-> l, pobs |-> po, eobs |-> NoOut, alive |-> TRUE]
Internal == last' = [ext |-> "", pobs |-> NoOut, eobs |-> NoOut, alive |-> TRUE]

\* a consumer action is taken at quiescence, or (nested) at the delivery point of a value
Quiet == stk = <<>>
AtDelivery == stk # <<>> /\ Top.pc = "delivered" /\ Top.out.ch = "v"
Where(nested) == IF nested THEN AtDelivery ELSE Quiet
Under(nested, f) == IF nested THEN Append(Repl([Top EXCEPT !.pc = "unwind"]), f) ELSE <<f>>

ExtN(nested) ==
  /\ Where(nested) /\ ~P.term /\ P.pend = "none" /\ ~P.cleaned
  /\ LET r == StartNext(P, stopped) IN P' = r[1] /\ lagq' = lagq \o Obs(r[2]) /\ Ext(IF nested THEN "nN" ELSE "N", r[2])
  /\ stk' = Under(nested, Frame("connect", NoOut, ""))
  /\ UNCHANGED <<cfg, I, E, stopped, bad>>
ExtK(nested) ==
  /\ Where(nested) /\ P.pend = "none" /\ ~P.cleaned
  /\ LET r == StartCleanup(P) IN P' = r[1] /\ lagq' = lagq \o Obs(r[2]) /\ Ext(IF nested THEN "nK" ELSE "K", r[2])
  /\ stk' = Under(nested, Frame("kconnect", NoOut, ""))
  /\ UNCHANGED <<cfg, I, E, stopped, bad>>
ExtX ==
  /\ Quiet /\ cfg.tok = "src" /\ ~stopped /\ ~P.cleaned
  /\ stopped' = TRUE
  /\ LET r == StopPending(P) IN P' = r[1] /\ lagq' = lagq \o Obs(r[2]) /\ Ext("X", r[2])
  /\ stk' = IF E.outer = "next" THEN <<Frame("rs1", NoOut, "")>> ELSE <<>>      \* the cancel_callback of the erased next operation
  /\ UNCHANGED <<cfg, I, E, bad>>
ExtC ==
  /\ Quiet /\ P.pend # "none"
  /\ LET r == Complete(P) IN P' = r[1] /\ lagq' = lagq \o Obs(r[2]) /\ Ext("C", r[2])
  /\ LET q == Complete(I) IN
       /\ I' = q[1]
       /\ stk' = <<Frame(IF I.pend = "next" THEN "complete" ELSE "cdeact", q[2], "")>>
       /\ E' = IF I.pend = "next" /\ q[2].ch = "v" /\ cfg.kind = "opval" THEN [E EXCEPT !.ov = TRUE] ELSE E
       /\ bad' = IF I.pend = "none" THEN Flag("wrapper has nothing pending when the wrapped stream has") ELSE bad
  /\ UNCHANGED <<cfg, stopped>>

\* the consumer is completed: it must be the completion the plain stream produced next
Deliver(o, aliveObj) ==
  /\ lagq' = IF lagq # <<>> THEN Tail(lagq) ELSE lagq
  /\ bad' = IF lagq = <<>> THEN Flag("the wrapper completes the consumer although the wrapped stream did not (duplicate completion)")
            ELSE IF Head(lagq) # o THEN Flag("the wrapper delivers a different completion than the wrapped stream")
            ELSE IF ~aliveObj THEN Flag("a value is delivered by reference after the object was destroyed")
            ELSE bad
  /\ last' = [ext |-> "", pobs |-> NoOut, eobs |-> o, alive |-> aliveObj]

Step ==
  /\ stk # <<>>
  /\ LET f == Top IN
     CASE f.pc = "connect" ->
            /\ E' = [E EXCEPT !.outer = "next", !.rc = 1, !.ss = (stopped /\ cfg.tok = "src")]
            /\ bad' = IF E.outer # "none" THEN Flag("two erased operations at once") ELSE bad
            /\ stk' = Repl(Frame("start", NoOut, "")) /\ Internal /\ UNCHANGED <<I, lagq>>
       [] f.pc = "start" ->
            LET r == StartNext(I, E.ss) IN
            /\ I' = r[1]
            /\ E' = [E EXCEPT !.inner = "next", !.ov = (r[2].ch = "v" /\ cfg.kind = "opval")]
            /\ bad' = IF E.inner # "none" THEN Flag("wrapped operation constructed over a live one in the union storage") ELSE bad
            /\ stk' = IF r[2].ch = "" THEN Pop ELSE Repl(Frame("complete", r[2], ""))
            /\ Internal /\ UNCHANGED lagq
       [] f.pc = "complete" ->
            /\ IF f.out.ch # "v" THEN E' = E /\ stk' = Repl(Frame("deact", f.out, ""))
               ELSE IF Mut = "fwdRef" THEN E' = E /\ stk' = Repl(Frame("deact", f.out, IF cfg.kind = "opval" THEN "ov" ELSE "tmp"))
               ELSE E' = [E EXCEPT !.copies = @ + 1] /\ stk' = Repl(Frame("deact", f.out, "copy"))
            /\ Internal /\ UNCHANGED <<I, lagq, bad>>
       [] f.pc = "deact" ->
            /\ E' = [E EXCEPT !.inner = "none", !.ov = FALSE]
            /\ bad' = IF E.inner # "next" THEN Flag("wrapped next operation destroyed twice / not active") ELSE bad
            /\ stk' = Repl(Frame("forward", f.out, f.obj)) /\ Internal /\ UNCHANGED <<I, lagq>>
       [] f.pc \in {"forward", "rsfwd"} ->          \* next_receiver::set_*: if (op_->complete()) deliver
            IF E.rc = 1
            THEN /\ E' = [E EXCEPT !.rc = 0, !.outer = "none"]
                 /\ Deliver(f.out, f.obj # "ov" \/ E.ov)
                 /\ stk' = Repl(Frame("delivered", f.out, f.obj)) /\ UNCHANGED I
            ELSE /\ E' = [E EXCEPT !.rc = @ - 1]
                 /\ stk' = Repl(Frame("unwind", f.out, f.obj)) /\ Internal /\ UNCHANGED <<I, lagq, bad>>
       [] f.pc = "delivered" -> stk' = Repl(Frame("unwind", f.out, f.obj)) /\ Internal /\ UNCHANGED <<I, E, lagq, bad>>
       [] f.pc = "unwind" ->
            /\ E' = IF f.obj = "copy" THEN [E EXCEPT !.copies = @ - 1] ELSE E
            /\ stk' = Pop /\ Internal /\ UNCHANGED <<I, lagq, bad>>
       [] f.pc = "rs1" ->                           \* request_stop(): fetch_add, stopSource_.request_stop()
            LET r == StopPending(I) IN
            /\ I' = r[1]
            /\ E' = [E EXCEPT !.rc = @ + 1, !.ss = TRUE]
            /\ stk' = IF r[2].ch = "" THEN Repl(Frame("rsfwd", Out("d", 0), ""))
                      ELSE Append(Repl(Frame("rsfwd", Out("d", 0), "")), Frame("complete", r[2], ""))
            /\ Internal /\ UNCHANGED <<lagq, bad>>
       [] f.pc = "kconnect" ->
            /\ E' = [E EXCEPT !.outer = "cleanup"]
            /\ bad' = IF E.outer # "none" THEN Flag("two erased operations at once") ELSE bad
            /\ stk' = Repl(Frame("kstart", NoOut, "")) /\ Internal /\ UNCHANGED <<I, lagq>>
       [] f.pc = "kstart" ->
            LET r == StartCleanup(I) IN
            /\ I' = r[1]
            /\ E' = [E EXCEPT !.inner = "cleanup"]
            /\ bad' = IF E.inner # "none" THEN Flag("wrapped cleanup operation constructed over a live operation in the union storage") ELSE bad
            /\ stk' = IF r[2].ch = "" THEN Pop ELSE Repl(Frame("cdeact", r[2], ""))
            /\ Internal /\ UNCHANGED lagq
       [] f.pc = "cdeact" ->
            /\ E' = [E EXCEPT !.inner = "none"]
            /\ bad' = IF E.inner # "cleanup" THEN Flag("wrapped cleanup operation destroyed twice / not active") ELSE bad
            /\ stk' = Repl(Frame("cforward", f.out, "")) /\ Internal /\ UNCHANGED <<I, lagq>>
       [] f.pc = "cforward" ->
            /\ E' = [E EXCEPT !.outer = "none"]
            /\ Deliver(f.out, TRUE) /\ stk' = Pop /\ UNCHANGED I
       [] OTHER -> FALSE
  /\ UNCHANGED <<cfg, P, stopped>>

Next == ExtN(FALSE) \/ ExtN(TRUE) \/ ExtK(FALSE) \/ ExtK(TRUE) \/ ExtX \/ ExtC \/ Step
Spec == Init /\ [][Next]_vars

\* ---------------------------------------------------------------- properties
\* same completions in the same order, none duplicated, every value alive when delivered, wrapped operations destroyed once
NoBad == bad = ""
\* none lost: whenever the wrapper is quiescent it has delivered everything the wrapped stream has produced
NoneLost == Quiet => lagq = <<>>
\* the wrapped stream inside the wrapper went through the same protocol as the plain one
SameInner == Quiet => I = P
\* at the end: no wrapped operation left in the union storage, no copy alive, no erased operation outstanding
Finished == P.cleaned /\ Quiet
CleanEnd == Finished => E.inner = "none" /\ E.copies = 0 /\ E.outer = "none" /\ ~E.ov
RefCountOK == E.rc \in 0..2 /\ E.copies \in 0..4
\* the wrapped operation is destroyed before its completion is forwarded (this is what makes the re-entrant next() legal)
DestroyedBeforeForward == (stk # <<>> /\ Top.pc \in {"forward", "delivered", "cforward"}) => E.inner = "none"
=============================================================================
