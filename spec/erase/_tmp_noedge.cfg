SPECIFICATION Spec
CONSTANTS Wr = {1,2,3}  MaxOps = 5  Fams = {"objT"}  Bug = "none"
INVARIANTS TypeOK NoBad NoLeak StorageDocumented Destructible AbsAgrees OpMovesOnly
PROPERTIES HeapNotMoved AllocBalanced ExceptionsPropagate
VIEW View
CHECK_DEADLOCK FALSE
