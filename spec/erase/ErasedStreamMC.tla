--------------------------- MODULE ErasedStreamMC ---------------------------
(* Model-checking instance of ErasedStream; every explored transition is exported (buffered in TLC register 3, written in *)
(* batches to IOEnv.EDGES.<k>; -workers 1) for script generation.                                                         *)
EXTENDS ErasedStream, Json, IOUtils, TLCExt
Key(v) == <<TLCFP(v), TLCFP(<<v, 1>>)>>
EdgeLog ==
  LET rec == [s |-> Key(View), t |-> Key(View'), cfg |-> cfg, ext |-> last'.ext, pobs |-> last'.pobs, eobs |-> last'.eobs,
              fin |-> Finished']
      buf == Append(TLCGet(3), rec)
  IN IF Len(buf) >= 1000 THEN ndJsonSerialize(IOEnv.EDGES \o "." \o ToString(TLCGet(4)), buf) /\ TLCSet(3, <<>>) /\ TLCSet(4, TLCGet(4) + 1)
     ELSE TLCSet(3, buf)
InitMC == Init /\ TLCSet(3, <<>>) /\ TLCSet(4, 0)
SpecMC == InitMC /\ [][Next]_vars
Flush == ndJsonSerialize(IOEnv.EDGES \o "." \o ToString(TLCGet(4)), TLCGet(3))
=============================================================================
