------------------------------ MODULE EraseMon ------------------------------
(***************************************************************************)
(* The C18 monitor for the type-erasing wrappers: the most permissive      *)
(* behaviour over API-level events that still satisfies the property.      *)
(* It is evaluated by TLC on the ndjson log recorded by the driver from    *)
(* the real any_object / any_unique / any_ref / any_scheduler(_ref).       *)
(* Alphabet                                                                *)
(*   Reset(fam, bsz, bal)  Ready  Quiesce  Done           execution frame  *)
(*   Op(k, w, s, kind, via, cpo, val) ... End(exc, res)   one API call     *)
(*   Ctor/Move/Copy(id, from, val, lk, ln, sz, al, nt, kd, over)  Dtor(id) *)
(*        tracked payload special members; lk/ln = where the object lives  *)
(*        ("w",k inside wrapper k; "b",n inside heap block n; "x" else),   *)
(*        over = id of a live object the construction overlaps             *)
(*   Alloc/Free(blk, tag, bytes)   counting allocator / class new-delete   *)
(*   Throw(code)  Call(id, cpo)  Sched(ty, code)   emitted by the payload  *)
(* The monitor keeps the API-level reading `cont` of what each wrapper     *)
(* holds and accepts exactly the logs in which                             *)
(*  - every payload object is constructed once on free storage, destroyed  *)
(*    exactly once (never an address that holds no live object), wrapped   *)
(*    objects and moved-from remainders die when their wrapper is          *)
(*    destroyed / assigned over, nothing a wrapper owns survives Quiesce,  *)
(*    and a reference wrapper never destroys its referent;                 *)
(*  - no call copies the payload (only any_scheduler's documented copy     *)
(*    operations do, and construct / assign from a const lvalue copies it  *)
(*    exactly once), moving a wrapper moves the payload at most            *)
(*    once and never when it is heap-stored (any_unique: never);           *)
(*  - after a successful construct / assign the wrapped object lives in    *)
(*    the wrapper iff size <= buffer /\ align <= buffer alignment /\       *)
(*    (nothrow move \/ not required), otherwise in a live heap block;      *)
(*  - every Free matches a live Alloc with the same tag and size, nothing  *)
(*    stays allocated after a failed call or after Quiesce;                *)
(*  - a CPO invoked through a wrapper reaches the object the wrapper       *)
(*    holds (Call.id) and returns what that object returns;                *)
(*  - End.exc is the code of the exception the payload threw in this call  *)
(*    (0 if none); a failed construction leaves no wrapper;                *)
(*  - equality / type / schedule of any_scheduler(_ref) and any_ref agree  *)
(*    with the wrapped objects.                                            *)
(***************************************************************************)
EXTENDS Integers, Sequences, FiniteSets, TLC, TraceIO
Wr == 1..3
VARIABLES l, fam, cfg, ph, objs, blks, cont, xa, op, oc
vars == <<l, fam, cfg, ph, objs, blks, cont, xa, op, oc>>

NoneC == [t |-> "none", k |-> "", v |-> 0, a |-> 0, id |-> 0]
NoOp == [k |-> ""]
ZeroOc == [ctor |-> 0, move |-> 0, copy |-> 0, thrown |-> 0, sched |-> -1, call |-> -1, new |-> 0, from |-> 0,
           obase |-> {}, bbase |-> {}]
Init == /\ l = 1 /\ fam = "" /\ cfg = [bsz |-> 0, bal |-> 0] /\ ph = "idle"
        /\ objs = <<>> /\ blks = <<>> /\ cont = [w \in Wr |-> NoneC] /\ xa = <<>>
        /\ op = NoOp /\ oc = ZeroOc /\ TrackInit
E == Log[l]
Is(e) == l <= Len(Log) /\ E.e = e /\ l' = l + 1
InOp == op.k # ""
Own == {"objT", "objF", "uniq"}
RefF == {"ref", "sref"}
TypeNo(k) == IF k = "S1" THEN 1 ELSE IF k = "S2" THEN 2 ELSE 0
KindNo(k) == CASE k = "SN" -> 1 [] k = "EX" -> 2 [] k = "ST" -> 3 [] k = "LG" -> 4 [] k = "OA" -> 5 [] k = "S1" -> 6 [] k = "S2" -> 7 [] OTHER -> 0
\* what get_code() of a payload of type k holding (v, a) returns: a CPO dispatched through the vtable of another type gives another number
Code(c) == KindNo(c.k) * 1000 + c.v * 10 + c.a
Content(w) == IF cont[w].t = "ref"
              THEN [k |-> objs[cont[w].id].kd, v |-> objs[cont[w].id].val, a |-> xa[cont[w].id]]
              ELSE [k |-> cont[w].k, v |-> cont[w].v, a |-> cont[w].a]
Owned(w) == IF cont[w].t = "ref" THEN 0 ELSE cont[w].id      \* a reference wrapper owns nothing
Dead(id) == IF id = 0 THEN TRUE ELSE ~objs[id].live
\* objects constructed / blocks allocated during the current call
NewObjs == DOMAIN objs \ oc.obase
NewBlks == DOMAIN blks \ oc.bbase
OnlySurvivor(id) == \A i \in NewObjs : i = id \/ ~objs[i].live
NothingSurvives == (\A i \in NewObjs : ~objs[i].live) /\ (\A b \in NewBlks : ~blks[b].live)
\* documented storage location (any_object.hpp can_be_stored_inplace_v; any_unique / any_scheduler: always heap)
InPl(o) == /\ fam \in {"objT", "objF"} /\ o.sz <= cfg.bsz /\ o.al <= cfg.bal /\ (fam = "objF" \/ o.nt = 1)
Placed(id, w) == LET o == objs[id] IN
                 IF InPl(o) THEN o.lk = "w" /\ o.ln = w
                 ELSE o.lk = "b" /\ o.ln \in DOMAIN blks /\ blks[o.ln].live

Reset == /\ Is("Reset") /\ ph = "idle"
         /\ fam' = E.fam /\ cfg' = [bsz |-> E.bsz, bal |-> E.bal] /\ ph' = "setup"
         /\ objs' = <<>> /\ blks' = <<>> /\ cont' = [w \in Wr |-> NoneC] /\ xa' = <<>> /\ op' = NoOp /\ oc' = ZeroOc
Ready == /\ Is("Ready") /\ ph = "setup" /\ ph' = "run"
         /\ UNCHANGED <<fam, cfg, objs, blks, cont, xa, op, oc>>

\* ---------------------------------------------------------------- payload special members
NewObj(ext) == [live |-> TRUE, val |-> E.val, lk |-> E.lk, ln |-> E.ln, sz |-> E.sz, al |-> E.al, nt |-> E.nt, kd |-> E.kd, ext |-> ext]
Fresh == E.id \notin DOMAIN objs /\ E.over = 0
Ctor == /\ Is("Ctor") /\ Fresh
        /\ \/ ph = "setup"
           \/ ph = "run" /\ InOp /\ op.k \in {"construct", "assign"} /\ fam \notin RefF
        /\ objs' = objs @@ (E.id :> NewObj(ph = "setup"))
        /\ xa' = IF ph = "setup" THEN xa @@ (E.id :> 0) ELSE xa
        /\ oc' = [oc EXCEPT !.ctor = @ + 1, !.new = E.id]
        /\ UNCHANGED <<fam, cfg, ph, blks, cont, op>>
Move == /\ Is("Move") /\ Fresh /\ ph = "run" /\ InOp /\ fam # "ref"
        /\ E.from \in DOMAIN objs /\ objs[E.from].live /\ ~objs[E.from].ext
        /\ objs[E.from].lk # "b"                                   \* a heap-stored object is never moved
        /\ \/ op.k \in {"construct", "assign"}                      \* from the caller's temporary
           \/ op.k \in {"movec", "movea"} /\ fam \in {"objT", "objF"} /\ oc.move = 0
           \/ fam = "sched" /\ op.k \in {"copyc", "copya", "sched"}
           \/ fam = "sref" /\ op.k = "sched"
        /\ objs' = objs @@ (E.id :> NewObj(FALSE))
        /\ oc' = [oc EXCEPT !.move = @ + 1, !.new = E.id, !.from = E.from]
        /\ UNCHANGED <<fam, cfg, ph, blks, cont, xa, op>>
\* only any_scheduler's copy construction / copy assignment / schedule() copy the wrapped scheduler (schedulers are
\* cheap copyable handles: the number of copies is not constrained, every copy is a copy of the wrapped scheduler)
\* The owning wrappers copy only when the caller hands them a const lvalue (construct / assign with via = "copy"): once,
\* from that lvalue.
Copy == /\ Is("Copy") /\ Fresh /\ ph = "run" /\ InOp
        /\ E.from \in DOMAIN objs /\ objs[E.from].live
        /\ \/ /\ \/ fam = "sched" /\ op.k \in {"copyc", "copya", "sched"}
                 \/ fam = "sref" /\ op.k = "sched"
              /\ objs[E.from].val = Content(IF op.k = "sched" THEN op.w ELSE op.s).v
              /\ objs[E.from].kd = Content(IF op.k = "sched" THEN op.w ELSE op.s).k
           \/ /\ fam \in Own /\ op.k \in {"construct", "assign"} /\ op.via = "copy" /\ oc.copy = 0
              /\ E.from \in NewObjs /\ objs[E.from].lk = "x"
        /\ objs' = objs @@ (E.id :> NewObj(FALSE))
        /\ oc' = [oc EXCEPT !.copy = @ + 1, !.new = E.id]
        /\ UNCHANGED <<fam, cfg, ph, blks, cont, xa, op>>
Dtor == /\ Is("Dtor")
        /\ E.id \in DOMAIN objs /\ objs[E.id].live                   \* exactly once, and only of a live object
        /\ \/ ph = "run" /\ ~objs[E.id].ext /\ (fam \notin RefF \/ (fam = "sref" /\ InOp /\ op.k = "sched"))
              \* (an implementation may destroy the moved-from remainder eagerly in a move construction)
              /\ (InOp => (op.k \in {"construct", "assign", "movea", "destroy", "copyc", "copya", "sched"} \/ (op.k = "movec" /\ E.id = oc.from)))
           \/ ph = "quiesced" /\ objs[E.id].ext
        /\ objs' = [objs EXCEPT ![E.id].live = FALSE]
        /\ UNCHANGED <<fam, cfg, ph, blks, cont, xa, op, oc>>

\* ---------------------------------------------------------------- allocator
Alloc == /\ Is("Alloc") /\ E.blk \notin DOMAIN blks /\ ph = "run" /\ InOp /\ fam \notin RefF
         /\ \/ op.k \in {"construct", "assign"}
            \/ fam = "sched" /\ op.k \in {"copyc", "copya", "sched"}
         /\ blks' = blks @@ (E.blk :> [live |-> TRUE, tag |-> E.tag, bytes |-> E.bytes])
         /\ UNCHANGED <<fam, cfg, ph, objs, cont, xa, op, oc>>
Free == /\ Is("Free") /\ ph = "run"
        /\ E.blk \in DOMAIN blks /\ blks[E.blk].live
        /\ blks[E.blk].tag = E.tag /\ blks[E.blk].bytes = E.bytes      \* same allocator, same size
        /\ InOp => op.k \in {"construct", "assign", "movea", "destroy", "copyc", "copya", "sched"}
        /\ blks' = [blks EXCEPT ![E.blk].live = FALSE]
        /\ UNCHANGED <<fam, cfg, ph, objs, cont, xa, op, oc>>

\* ---------------------------------------------------------------- what the payload reports from inside a call
Throw == /\ Is("Throw") /\ InOp /\ oc.thrown = 0
         /\ oc' = [oc EXCEPT !.thrown = E.code]
         /\ UNCHANGED <<fam, cfg, ph, objs, blks, cont, xa, op>>
Call == /\ Is("Call") /\ InOp /\ op.k = "invoke" /\ oc.call = -1 /\ E.cpo = op.cpo
        /\ oc' = [oc EXCEPT !.call = E.id]
        /\ UNCHANGED <<fam, cfg, ph, objs, blks, cont, xa, op>>
Sched == /\ Is("Sched") /\ InOp /\ op.k = "sched" /\ oc.sched = -1
         /\ E.ty = TypeNo(Content(op.w).k)
         /\ oc' = [oc EXCEPT !.sched = E.code]
         /\ UNCHANGED <<fam, cfg, ph, objs, blks, cont, xa, op>>

\* ---------------------------------------------------------------- API calls
Has(w) == cont[w].t # "none"
Usable(w) == cont[w].t \in {"val", "ref"}
OpBegin ==
  /\ Is("Op") /\ ph = "run" /\ ~InOp
  /\ CASE E.k \in {"construct", "bind"} -> ~Has(E.w)
       [] E.k \in {"movec", "copyc"} -> ~Has(E.w) /\ Has(E.s) /\ E.w # E.s
       [] E.k \in {"movea", "copya", "swap"} -> Has(E.w) /\ Has(E.s)
       [] E.k \in {"assign", "destroy"} -> Has(E.w)
       [] E.k = "invoke" -> Usable(E.w) \/ (cont[E.w].t = "mf" /\ cont[E.w].id # 0)
       [] E.k \in {"sched", "type"} -> Usable(E.w)
       [] E.k \in {"eq", "deepeq"} -> Usable(E.w) /\ Usable(E.s)
       [] OTHER -> FALSE
  /\ op' = E /\ oc' = [ZeroOc EXCEPT !.obase = DOMAIN objs, !.bbase = DOMAIN blks]
  /\ UNCHANGED <<fam, cfg, ph, objs, blks, cont, xa>>

W == op.w
S == op.s
Val(k, v, id) == [t |-> "val", k |-> k, v |-> v, a |-> 0, id |-> id]
Mf(id) == [t |-> "mf", k |-> "", v |-> 0, a |-> 0, id |-> id]
Inv == [t |-> "inv", k |-> "", v |-> 0, a |-> 0, id |-> 0]
\* content of destination / source after the content of s moved to w
MovedCont ==
  LET src == cont[S] IN
  CASE src.t = "val" -> IF oc.move = 1 THEN [cont EXCEPT ![W] = [src EXCEPT !.id = oc.new], ![S] = Mf(src.id)]
                        ELSE [cont EXCEPT ![W] = src, ![S] = Mf(0)]
    [] src.t = "mf" -> [cont EXCEPT ![W] = Mf(IF oc.move = 1 THEN oc.new ELSE 0)]
    [] OTHER -> [cont EXCEPT ![W] = src]
MoveOk ==
  LET src == cont[S] IN
  /\ oc.copy = 0 /\ oc.ctor = 0
  /\ fam \in {"uniq", "sched"} => oc.move = 0
  /\ oc.move = 1 => /\ oc.from = src.id /\ src.id # 0
                    /\ objs[oc.new].live /\ objs[oc.new].lk = "w" /\ objs[oc.new].ln = W
  /\ src.t = "inv" => oc.move = 0
ConstructOk ==
  /\ oc.new # 0 /\ objs[oc.new].live /\ objs[oc.new].val = op.val /\ objs[oc.new].kd = op.kind
  /\ Placed(oc.new, W) /\ OnlySurvivor(oc.new)
  /\ oc.copy = (IF op.via = "copy" THEN 1 ELSE 0)   \* (how often a *value argument* is moved on its way in is not constrained)
InvokeOk ==
  LET c == cont[W]
      o == Content(W)
      o1 == [o EXCEPT !.a = 1]
  IN /\ oc.call = c.id                                  \* the vtable dispatch reached the object this wrapper holds
     /\ Usable(W) =>
          CASE op.cpo = "get" -> E.exc = 0 /\ E.res = Code(o)
            [] op.cpo = "add" -> E.exc = 0 /\ E.res = Code(o1)
            [] op.cpo = "snd" -> E.exc = 0 /\ E.res = Code(o) + 70000
            [] op.cpo = "ovl" -> E.exc = 0 /\ E.res = Code(o) + 300000
            [] op.cpo = "thr" -> E.exc = 20000 + Code(o)
            [] OTHER -> FALSE
EqK(a, b) == a.k = b.k /\ a.v = b.v

OpEnd ==
  /\ Is("End") /\ InOp
  /\ E.exc = oc.thrown                                   \* exceptions propagate unchanged, none is invented
  /\ op' = NoOp /\ oc' = ZeroOc
  /\ UNCHANGED <<fam, cfg, ph, objs, blks>>
  /\ CASE op.k = "construct" ->
            IF E.exc = 0 THEN ConstructOk /\ cont' = [cont EXCEPT ![W] = Val(op.kind, op.val, oc.new)] /\ xa' = xa
            ELSE NothingSurvives /\ UNCHANGED <<cont, xa>>
       [] op.k = "assign" ->
            /\ Dead(Owned(W)) /\ xa' = xa
            /\ IF E.exc = 0 THEN ConstructOk /\ cont' = [cont EXCEPT ![W] = Val(op.kind, op.val, oc.new)]
               ELSE NothingSurvives /\ cont' = [cont EXCEPT ![W] = Inv]
       [] op.k = "movec" ->
            /\ xa' = xa
            /\ IF E.exc = 0 THEN MoveOk /\ cont' = MovedCont ELSE NothingSurvives /\ cont' = cont
       [] op.k = "movea" ->
            /\ xa' = xa
            /\ IF W = S THEN oc.move = 0 /\ oc.copy = 0 /\ NothingSurvives /\ cont' = cont /\ E.exc = 0
               ELSE /\ Dead(Owned(W))
                    /\ IF E.exc = 0 THEN MoveOk /\ cont' = MovedCont ELSE NothingSurvives /\ cont' = [cont EXCEPT ![W] = Inv]
       [] op.k = "swap" -> E.exc = 0 /\ cont' = [cont EXCEPT ![W] = cont[S], ![S] = cont[W]] /\ xa' = xa
       [] op.k = "invoke" ->
            /\ InvokeOk
            /\ IF op.cpo = "add" /\ cont[W].t = "val" THEN cont' = [cont EXCEPT ![W].a = 1] /\ xa' = xa
               ELSE IF op.cpo = "add" /\ cont[W].t = "ref" THEN xa' = [xa EXCEPT ![cont[W].id] = 1] /\ cont' = cont
               ELSE UNCHANGED <<cont, xa>>
       [] op.k = "destroy" -> E.exc = 0 /\ Dead(Owned(W)) /\ cont' = [cont EXCEPT ![W] = NoneC] /\ xa' = xa
       [] op.k = "bind" ->
            /\ E.exc = 0 /\ S \in DOMAIN objs /\ objs[S].ext /\ objs[S].live
            /\ cont' = [cont EXCEPT ![W] = [t |-> "ref", k |-> "", v |-> 0, a |-> 0, id |-> S]] /\ xa' = xa
       [] op.k \in {"copyc", "copya"} ->
            /\ E.exc = 0 /\ xa' = xa
            /\ IF fam \in RefF THEN cont' = [cont EXCEPT ![W] = cont[S]]
               ELSE /\ oc.copy >= 1 /\ objs[oc.new].live /\ objs[oc.new].lk = "b" /\ OnlySurvivor(oc.new)
                    /\ objs[oc.new].val = cont[S].v /\ objs[oc.new].kd = cont[S].k
                    /\ (op.k = "copya" => Dead(Owned(W)))
                    /\ cont' = [cont EXCEPT ![W] = [cont[S] EXCEPT !.id = oc.new]]
       [] op.k = "eq" ->
            /\ E.exc = 0 /\ UNCHANGED <<cont, xa>>
            /\ E.res = IF (IF fam \in RefF THEN cont[W].id = cont[S].id ELSE EqK(Content(W), Content(S))) THEN 1 ELSE 0
       [] op.k = "deepeq" ->
            /\ E.exc = 0 /\ UNCHANGED <<cont, xa>>
            /\ E.res = IF EqK(Content(W), Content(S)) THEN 1 ELSE 0
       [] op.k = "sched" ->
            /\ E.exc = 0 /\ UNCHANGED <<cont, xa>>
            /\ E.res = Code(Content(W)) /\ oc.sched = E.res /\ NothingSurvives
       [] op.k = "type" -> E.exc = 0 /\ E.res = TypeNo(Content(W).k) /\ UNCHANGED <<cont, xa>>
       [] OTHER -> FALSE

\* the harness destroyed every wrapper: nothing a wrapper owned is alive, every block went back to its allocator
Quiesce == /\ Is("Quiesce") /\ ph = "run" /\ ~InOp
           /\ \A i \in DOMAIN objs : objs[i].live => objs[i].ext
           /\ \A b \in DOMAIN blks : ~blks[b].live
           /\ ph' = "quiesced"
           /\ UNCHANGED <<fam, cfg, objs, blks, cont, xa, op, oc>>
Done == /\ Is("Done") /\ ph = "quiesced"
        /\ \A i \in DOMAIN objs : ~objs[i].live
        /\ E.live = 0 /\ E.blocks = 0
        /\ ph' = "idle"
        /\ UNCHANGED <<fam, cfg, objs, blks, cont, xa, op, oc>>

Next == Reset \/ Ready \/ Ctor \/ Move \/ Copy \/ Dtor \/ Alloc \/ Free \/ Throw \/ Call \/ Sched \/ OpBegin \/ OpEnd \/ Quiesce \/ Done
Spec == Init /\ [][Next]_vars
Closed == ph = "idle"
Track == TrackAt(l, Closed)
Report == ReportTrace
=============================================================================
