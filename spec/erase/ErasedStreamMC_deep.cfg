SPECIFICATION SpecMC
CONSTANTS MaxItems = 3  Kinds = {"opval", "tmp"}  Timings = {"inline", "async"}  Endings = {"done", "err"}  Cleanups = {"done", "err"}
          Reacts = {TRUE, FALSE}  Toks = {"src", "none"}  Mut = "none"
INVARIANTS NoBad NoneLost SameInner CleanEnd RefCountOK DestroyedBeforeForward
VIEW View
ACTION_CONSTRAINT EdgeLog
POSTCONDITION Flush
CHECK_DEADLOCK FALSE
