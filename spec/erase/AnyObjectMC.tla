---------------------------- MODULE AnyObjectMC ----------------------------
(* Model-checking instance of AnyObject: bounds are literal constants of the .cfg files; every            *)
(* explored transition is exported with the      *)
(* expected observation (ACTION_CONSTRAINT EdgeLog) for behaviour generation.                          *)
EXTENDS AnyObject, Json, IOUtils, TLCExt
Key(v) == <<TLCFP(v), TLCFP(<<v, 1>>)>>
WState(w) == CASE vt[w].t = "heap" /\ st[w].b = 0 -> "null"
               [] OTHER -> vt[w].t
Obs == [exc |-> last.exc, res |-> last.res, c |-> last.c,
        ws |-> [w \in Wr |-> [t |-> WState(w), code |-> IF Invocable(M0, w) THEN Code(Target(M0, w)) ELSE 0,
                               inl |-> IF st[w].t = "obj" THEN 1 ELSE 0]],
        blk |-> Cardinality({b \in Blocks : heap[b].used}),
        bad |-> bad]
EdgeLog ==
  LET rec == [s |-> Key(View), t |-> Key(View'), fam |-> fam, op |-> last'.op, obs |-> Obs']
  IN Serialize(ToJson(rec) \o "\n", IOEnv.EDGES,
        [format |-> "TXT", charset |-> "UTF-8", openOptions |-> <<"WRITE", "CREATE", "APPEND">>]).exitValue = 0
=============================================================================
