---------------------------- MODULE AnyObjectMC ----------------------------
(* Model-checking instance of AnyObject: bounds are literal constants of the .cfg files; every            *)
(* explored transition is exported with the      *)
(* expected observation (ACTION_CONSTRAINT EdgeLog) for behaviour generation.                          *)
EXTENDS AnyObject, Json, IOUtils, TLCExt
Key(v) == <<TLCFP(v), TLCFP(<<v, 1>>)>>
WState(w) == CASE vt[w].t = "heap" /\ st[w].b = 0 -> "null"
               [] OTHER -> vt[w].t
Obs == [exc |-> last.exc, res |-> last.res, c |-> last.c,
        ws |-> [w \in Wr |-> [t |-> WState(w), code |-> IF Invocable(M0, w) THEN Code(Target(M0, w)) ELSE 0,
                               inl |-> IF st[w].t = "obj" THEN 1 ELSE 0]],
        blk |-> Cardinality({b \in Blocks : heap[b].used}),
        bad |-> bad]
\* edges are buffered in TLC register 3 and written in batches to files IOEnv.EDGES.<k> (k in register 4); -workers 1
EdgeLog ==
  LET rec == [s |-> Key(View), t |-> Key(View'), fam |-> fam, op |-> last'.op, obs |-> Obs']
      buf == Append(TLCGet(3), rec)
  IN IF Len(buf) >= 1000 THEN ndJsonSerialize(IOEnv.EDGES \o "." \o ToString(TLCGet(4)), buf) /\ TLCSet(3, <<>>) /\ TLCSet(4, TLCGet(4) + 1)
     ELSE TLCSet(3, buf)
InitMC == Init /\ TLCSet(3, <<>>) /\ TLCSet(4, 0)
SpecMC == InitMC /\ [][Next]_vars
Flush == ndJsonSerialize(IOEnv.EDGES \o "." \o ToString(TLCGet(4)), TLCGet(3))
=============================================================================
