SPECIFICATION Spec
CONSTANTS Wr <- WrC  MaxOps <- MaxOpsC  Fams <- FamsC  Bug <- BugC
INVARIANTS TypeOK NoBad NoLeak StorageDocumented Destructible AbsAgrees OpMovesOnly
PROPERTIES HeapNotMoved AllocBalanced ExceptionsPropagate
VIEW View
ACTION_CONSTRAINT EdgeLog
CHECK_DEADLOCK FALSE
