SPECIFICATION FairSpec
CONSTANTS Threads <- T  Cbs <- C  Scenarios <- Scn
PROPERTY Terminates
CHECK_DEADLOCK TRUE
