--------------------------- MODULE StopTokenMon ---------------------------
(***************************************************************************)
(* The C03 monitor: the most permissive behaviour over API-level events of *)
(* one stop source that still satisfies the property statement.  It is     *)
(* evaluated by TLC on an ndjson log recorded from the real code (many     *)
(* executions, separated by Reset).  It says nothing about internal steps. *)
(* Events: Reg/Exec/Dereg/Req Begin-End with callback c, thread t, result  *)
(* r (request_stop()'s return value), Query (a stop_requested() sample).   *)
(***************************************************************************)
EXTENDS Naturals, Sequences, FiniteSets, TLC, TraceIO
Cbs == 1..3
Thr == 0..3
VARIABLES l,          \* next line of the log
          phase,      \* [Cbs -> "none"|"registering"|"registered"|"deregistering"|"gone"]
          owner,      \* [Cbs -> thread that is registering / deregistering]
          execCount, execOpenBy,
          reqOpen,    \* [thread -> nesting depth of request_stop() calls] (re-entrant calls from callbacks)
          reqBegun, reqEnded, falseSeen,
          mustInline, \* [Cbs -> BOOLEAN] a request_stop() had returned before registration began
          owed,       \* [thread -> set of callbacks registered before this thread's request began]
          qTrue,      \* a stop_requested() sample has returned true
          unsub,      \* "none" | "begun" | "ended": the token adapter's unsubscribe() (deregistration of the forwarding callback)
          fused       \* this execution requests stop through upstream sources of a fused source / token adapter:
                      \* request_stop()'s return value on the monitored source is then not observable (r = -1)
vars == <<l, phase, owner, execCount, execOpenBy, reqOpen, reqBegun, reqEnded, falseSeen, mustInline, owed, qTrue, fused, unsub>>
Fresh == /\ phase = [c \in Cbs |-> "none"] /\ owner = [c \in Cbs |-> 0]
         /\ execCount = [c \in Cbs |-> 0] /\ execOpenBy = [c \in Cbs |-> 0]
         /\ reqOpen = [t \in Thr |-> 0] /\ reqBegun = FALSE /\ reqEnded = FALSE /\ falseSeen = FALSE
         /\ mustInline = [c \in Cbs |-> FALSE] /\ owed = [t \in Thr |-> {}] /\ qTrue = FALSE /\ fused = FALSE /\ unsub = "none"
Init == l = 1 /\ Fresh /\ TrackInit
E == Log[l]
Is(e) == l <= Len(Log) /\ E.e = e /\ l' = l + 1
\* end-of-execution obligations, checked when a Reset (or the end of the log) is consumed
Closed == /\ \A c \in Cbs : execOpenBy[c] = 0
          /\ \A t \in Thr : reqOpen[t] = 0
          /\ (reqEnded /\ ~fused) => falseSeen
          /\ \A c \in Cbs : phase[c] \notin {"registering", "deregistering"}
Reset == /\ Is("Reset") /\ Closed
         /\ phase' = [c \in Cbs |-> "none"] /\ owner' = [c \in Cbs |-> 0]
         /\ execCount' = [c \in Cbs |-> 0] /\ execOpenBy' = [c \in Cbs |-> 0]
         /\ reqOpen' = [t \in Thr |-> 0] /\ reqBegun' = FALSE /\ reqEnded' = FALSE /\ falseSeen' = FALSE
         /\ mustInline' = [c \in Cbs |-> FALSE] /\ owed' = [t \in Thr |-> {}] /\ qTrue' = FALSE
         /\ fused' = (E.fused = 1) /\ unsub' = "none"
RegBegin == /\ Is("RegBegin") /\ phase[E.c] = "none"
            /\ phase' = [phase EXCEPT ![E.c] = "registering"] /\ owner' = [owner EXCEPT ![E.c] = E.t]
            /\ mustInline' = [mustInline EXCEPT ![E.c] = reqEnded]
            /\ UNCHANGED <<execCount, execOpenBy, reqOpen, reqBegun, reqEnded, falseSeen, owed, qTrue, fused, unsub>>
RegEnd == /\ Is("RegEnd") /\ phase[E.c] = "registering" /\ owner[E.c] = E.t
          /\ mustInline[E.c] => execCount[E.c] = 1            \* late registration ran inline
          /\ execOpenBy[E.c] # E.t                              \* an inline execution has returned
          /\ phase' = [phase EXCEPT ![E.c] = "registered"]
          /\ UNCHANGED <<owner, execCount, execOpenBy, reqOpen, reqBegun, reqEnded, falseSeen, mustInline, owed, qTrue, fused, unsub>>
ExecBegin == /\ Is("ExecBegin")
             /\ execCount[E.c] = 0                             \* at most once
             /\ reqBegun                                       \* only if stop was requested
             /\ (unsub = "ended" /\ fused) => phase[E.c] = "registering"   \* nothing is forwarded after unsubscribe() returned
             /\ \/ phase[E.c] = "registering" /\ E.t = owner[E.c]          \* inline in the constructor
                \/ phase[E.c] \in {"registered", "deregistering"} /\ reqOpen[E.t] > 0
             /\ execCount' = [execCount EXCEPT ![E.c] = 1] /\ execOpenBy' = [execOpenBy EXCEPT ![E.c] = E.t]
             /\ UNCHANGED <<phase, owner, reqOpen, reqBegun, reqEnded, falseSeen, mustInline, owed, qTrue, fused, unsub>>
ExecEnd == /\ Is("ExecEnd") /\ execOpenBy[E.c] = E.t
           /\ execOpenBy' = [execOpenBy EXCEPT ![E.c] = 0]
           /\ UNCHANGED <<phase, owner, execCount, reqOpen, reqBegun, reqEnded, falseSeen, mustInline, owed, qTrue, fused, unsub>>
DeregBegin == /\ Is("DeregBegin") /\ phase[E.c] = "registered"
              /\ phase' = [phase EXCEPT ![E.c] = "deregistering"] /\ owner' = [owner EXCEPT ![E.c] = E.t]
              /\ UNCHANGED <<execCount, execOpenBy, reqOpen, reqBegun, reqEnded, falseSeen, mustInline, owed, qTrue, fused, unsub>>
DeregEnd == /\ Is("DeregEnd") /\ phase[E.c] = "deregistering" /\ owner[E.c] = E.t
            /\ execOpenBy[E.c] \in {0, E.t}                   \* not running on another thread
            /\ phase' = [phase EXCEPT ![E.c] = "gone"]         \* ExecBegin is impossible from now on
            /\ UNCHANGED <<owner, execCount, execOpenBy, reqOpen, reqBegun, reqEnded, falseSeen, mustInline, owed, qTrue, fused, unsub>>
ReqBegin == /\ Is("ReqBegin")
            /\ reqOpen' = [reqOpen EXCEPT ![E.t] = @ + 1] /\ reqBegun' = TRUE
            /\ owed' = IF reqOpen[E.t] = 0
                       THEN [owed EXCEPT ![E.t] = {c \in Cbs : phase[c] = "registered" /\ execCount[c] = 0}]
                       ELSE owed
            /\ UNCHANGED <<phase, owner, execCount, execOpenBy, reqEnded, falseSeen, mustInline, qTrue, fused, unsub>>
ReqEnd == /\ Is("ReqEnd") /\ reqOpen[E.t] > 0
          /\ IF E.r = 0
             THEN /\ ~falseSeen                                \* exactly one caller is the first
                  \* every callback registered before this request began and not being deregistered ran
                  /\ \A c \in owed[E.t] : execCount[c] = 1 \/ phase[c] \in {"deregistering", "gone"}
                  /\ falseSeen' = TRUE
             ELSE /\ UNCHANGED falseSeen
          /\ reqOpen' = [reqOpen EXCEPT ![E.t] = @ - 1]
          /\ reqEnded' = (reqEnded \/ E.r # 0 - 1 \/ unsub = "none")   \* an upstream request that ends after unsubscribe() began may not have been forwarded
          /\ UNCHANGED <<phase, owner, execCount, execOpenBy, reqBegun, mustInline, owed, qTrue, fused, unsub>>
\* stop_requested(): false before any request began, true once any request returned, never reverts
Query == /\ Is("Query")
         /\ (E.r = 1) => reqBegun
         /\ (E.r = 0) => (~reqEnded /\ ~qTrue)
         /\ qTrue' = (qTrue \/ E.r = 1)
         /\ UNCHANGED <<phase, owner, execCount, execOpenBy, reqOpen, reqBegun, reqEnded, falseSeen, mustInline, owed, fused, unsub>>
\* unsubscribe() of the adapter: once it has returned, the forwarding callback is not running - hence no callback of
\* this source is executing on another thread on behalf of an upstream request
UnsubBegin == /\ Is("UnsubBegin") /\ unsub = "none" /\ unsub' = "begun"
              /\ UNCHANGED <<phase, owner, execCount, execOpenBy, reqOpen, reqBegun, reqEnded, falseSeen, mustInline, owed, qTrue, fused>>
UnsubEnd == /\ Is("UnsubEnd") /\ unsub = "begun" /\ unsub' = "ended"
            /\ \A c \in Cbs : execOpenBy[c] \in {0, E.t}
            /\ UNCHANGED <<phase, owner, execCount, execOpenBy, reqOpen, reqBegun, reqEnded, falseSeen, mustInline, owed, qTrue, fused>>
Next == UnsubBegin \/ UnsubEnd \/ Reset \/ RegBegin \/ RegEnd \/ ExecBegin \/ ExecEnd \/ DeregBegin \/ DeregEnd \/ ReqBegin \/ ReqEnd \/ Query
Spec == Init /\ [][Next]_vars
Track == TrackAt(l, Closed)
Report == ReportTrace
=============================================================================
