SPECIFICATION Spec
CONSTANTS Threads <- T  Cbs <- C  Scenarios <- Scn
INVARIANTS ExecAtMostOnce NoBadAccess OneFirstRequester ListConsistent NoDestroyedInList TerminalExec ExecOnlyIfRequested
PROPERTY StopMonotone
VIEW View
ACTION_CONSTRAINT EdgeLog
CHECK_DEADLOCK TRUE
