---- MODULE StopTokenLive ----
EXTENDS StopToken, Json, IOUtils
T == {1, 2, 3}
C == {1, 2, 3}
ScnSeq == JsonDeserialize(IOEnv.SCENARIOS)
Scn == {ScnSeq[i] : i \in 1..Len(ScnSeq)}
====
