---------------------------- MODULE StopToken ----------------------------
(***************************************************************************)
(* Implementation-shaped specification of unifex::inplace_stop_source /    *)
(* inplace_stop_callback (source/inplace_stop_token.cpp).                  *)
(*                                                                         *)
(* State: the abstract content of state_ (stop_requested / locked bits),   *)
(* the intrusive callback list, and per callback the fields the protocol   *)
(* uses (prevPtr_ as link status, source_ == nullptr after inline          *)
(* execution, callbackCompleted_, removedDuringCallback_ as a pointer to a *)
(* requester frame, notifyingThreadId_).                                   *)
(*                                                                         *)
(* One action per stretch of code between two schedule points of the real  *)
(* code (UNIFEX_VERIF_YIELD sites stop.q1..q4, stop.d12 and the harness's  *)
(* API-entry points r0/q0/d0); spin loops are awaits (disabled actions).   *)
(* Threads execute scenario programs over the public API; callback bodies  *)
(* are themselves scenario programs, executed as nested frames, so         *)
(* re-entrancy (deregister self / another callback / request_stop /        *)
(* register from inside a callback) is part of the state space.            *)
(***************************************************************************)
EXTENDS Naturals, Sequences, FiniteSets, TLC

CONSTANTS Threads, Cbs, Scenarios
\* a scenario: [id |-> n, prog |-> <<Seq(op)>> per thread, body |-> <<Seq(op)>> per callback]
\* op: <<"reg", c>> | <<"dereg", c>> | <<"req">> | <<"up", i>>
\* <<"up", i>> is request_stop() on upstream source i of a fused_stop_source / inplace_stop_token_adapter: the
\* upstream's single forwarding callback calls request_stop() on this source (the upstream's own protocol is the
\* same module instantiated with one callback and is abstracted here to "the first request on upstream i forwards")

VARIABLES scn,        \* chosen scenario
          state,      \* SUBSET {"stop","locked"}            state_
          list,       \* registered callbacks, head first    callbacks_
          link,       \* [Cbs -> {"none","listed","dequeued"}]  prevPtr_ / membership
          srcNull,    \* [Cbs -> BOOLEAN]  source_ == nullptr (registration ran the callback inline)
          completed,  \* [Cbs -> BOOLEAN]  callbackCompleted_
          rdptr,      \* [Cbs -> <<thread, depth>>]  removedDuringCallback_ target (<<0,0>> = null)
          notifier,   \* notifyingThreadId_ (0 = unset)
          frames,     \* [Threads -> Seq(frame)], head = innermost call
          \* history variables for the properties
          upReq,      \* [1..2 -> BOOLEAN] stop already requested on upstream source i (fused scenarios)
          exec,       \* [Cbs -> Nat] times the callback body was entered
          running,    \* [Cbs -> thread executing it, 0 = none]
          destroyed,  \* [Cbs -> BOOLEAN] destructor returned
          reqRet,     \* sequence of request_stop() return values in order of return
          bad,        \* "ok" or the name of a memory-safety / protocol breach
          lastT, lastPc   \* export only (hidden by VIEW)
vars == <<scn, state, list, link, srcNull, completed, rdptr, notifier, frames, upReq,
          exec, running, destroyed, reqRet, bad>>
ghosts == <<lastT, lastPc>>

Prog(code) == [op |-> "prog", code |-> code, i |-> 1, c |-> 0, pc |-> "", rd |-> FALSE]
Fr(op, c, pc) == [op |-> op, code |-> <<>>, i |-> 0, c |-> c, pc |-> pc, rd |-> FALSE]
Top(t) == Head(frames[t])
Pop(t) == [frames EXCEPT ![t] = Tail(@)]
SetTop(t, f) == [frames EXCEPT ![t] = <<f>> \o Tail(@)]
PushOn(t, f, newTop) == [frames EXCEPT ![t] = <<f, newTop>> \o Tail(@)]
Remove(s, c) == SelectSeq(s, LAMBDA x : x # c)
\* registration of c still in progress on thread t (its constructor is on t's stack)
UnderConstruction(t, c) == \E k \in 1..Len(frames[t]) : frames[t][k].op = "reg" /\ frames[t][k].c = c

Init ==
  /\ scn \in Scenarios
  /\ state = {} /\ list = <<>> /\ notifier = 0
  /\ link = [c \in Cbs |-> "none"] /\ srcNull = [c \in Cbs |-> FALSE]
  /\ completed = [c \in Cbs |-> FALSE] /\ rdptr = [c \in Cbs |-> <<0, 0>>]
  /\ frames = [t \in Threads |-> <<Prog(scn.prog[t])>>]
  /\ upReq = [i \in 1..2 |-> FALSE]
  /\ exec = [c \in Cbs |-> 0] /\ running = [c \in Cbs |-> 0]
  /\ destroyed = [c \in Cbs |-> FALSE] /\ reqRet = <<>> /\ bad = "ok"
  /\ lastT = 0 /\ lastPc = ""

\* ---- program frames: fetch next op or return (silent steps) ----
ProgStep(t) ==
  /\ frames[t] # <<>> /\ Top(t).op = "prog"
  /\ LET f == Top(t) IN
     IF f.i > Len(f.code) THEN frames' = Pop(t) /\ UNCHANGED upReq
     ELSE LET o == f.code[f.i]  g == [f EXCEPT !.i = @ + 1] IN
          IF (o[1] = "dereg" /\ UnderConstruction(t, o[2])) \/ o[1] = "unsub"
          THEN frames' = SetTop(t, g) /\ UNCHANGED upReq   \* destroying a registration inside its own constructor is not a legal use;
                                                         \* "unsub" (adapter unsubscribe) only concerns the upstream source
          ELSE IF o[1] = "up"
          THEN IF upReq[o[2]] THEN frames' = SetTop(t, g) /\ UNCHANGED upReq      \* upstream already stopped: returns at once
               ELSE /\ upReq' = [upReq EXCEPT ![o[2]] = TRUE]
                    /\ frames' = PushOn(t, Fr("req", 0, "q0"), g)                 \* the forwarding callback calls request_stop()
          ELSE /\ UNCHANGED upReq
               /\ frames' = PushOn(t,
                      IF o[1] = "req" THEN Fr("req", 0, "q0")
                      ELSE Fr(o[1], o[2], IF o[1] = "reg" THEN "r0" ELSE "d0"),
                      g)
  /\ UNCHANGED <<scn, state, list, link, srcNull, completed, rdptr, notifier,
                 exec, running, destroyed, reqRet, bad>>

\* ---- inplace_stop_callback constructor / try_add_callback ----
RegStep(t) ==
  /\ frames[t] # <<>> /\ Top(t).op = "reg"
  /\ LET f == Top(t)  c == f.c IN
     CASE f.pc = "r0" ->
            IF "stop" \in state THEN     \* stop already requested: run inline, source_ = nullptr
              /\ srcNull' = [srcNull EXCEPT ![c] = TRUE]
              /\ exec' = [exec EXCEPT ![c] = @ + 1]
              /\ running' = [running EXCEPT ![c] = t]
              /\ frames' = PushOn(t, Prog(scn.body[c]), [f EXCEPT !.pc = "r1"])
              /\ UNCHANGED <<state, list, link>>
            ELSE
              /\ state = {}                     \* try_lock_unless_stop_requested spins while locked
              /\ list' = <<c>> \o list /\ link' = [link EXCEPT ![c] = "listed"]
              /\ frames' = Pop(t)
              /\ UNCHANGED <<state, srcNull, exec, running>>
       [] f.pc = "r1" ->                 \* inline execution returned
            /\ running' = [running EXCEPT ![c] = 0]
            /\ frames' = Pop(t)
            /\ UNCHANGED <<state, list, link, srcNull, exec>>
  /\ UNCHANGED <<scn, completed, rdptr, notifier, destroyed, reqRet, bad, upReq>>

\* ---- request_stop ----
ReqStep(t) ==
  /\ frames[t] # <<>> /\ Top(t).op = "req"
  /\ LET f == Top(t)  depth == Len(frames[t]) IN
     CASE f.pc = "q0" ->
            IF "stop" \in state THEN
              /\ reqRet' = Append(reqRet, TRUE) /\ frames' = Pop(t)
              /\ UNCHANGED <<state, list, link, completed, rdptr, notifier, exec, running, bad>>
            ELSE
              /\ state = {}
              /\ state' = {"stop", "locked"} /\ notifier' = t
              /\ frames' = SetTop(t, [f EXCEPT !.pc = "q1"])
              /\ UNCHANGED <<list, link, completed, rdptr, exec, running, reqRet, bad>>
       [] f.pc = "q1" ->                 \* holding the lock
            IF list = <<>> THEN
              /\ state' = {"stop"} /\ reqRet' = Append(reqRet, FALSE) /\ frames' = Pop(t)
              /\ UNCHANGED <<list, link, completed, rdptr, notifier, exec, running, bad>>
            ELSE LET cb == Head(list) IN
              /\ list' = Tail(list) /\ link' = [link EXCEPT ![cb] = "dequeued"]
              /\ state' = {"stop"}                             \* unlock
              /\ rdptr' = [rdptr EXCEPT ![cb] = <<t, depth>>]
              /\ frames' = SetTop(t, [f EXCEPT !.pc = "q2", !.c = cb, !.rd = FALSE])
              /\ bad' = IF destroyed[cb] THEN "popped-destroyed" ELSE bad
              /\ UNCHANGED <<completed, notifier, exec, running, reqRet>>
       [] f.pc = "q2" ->                 \* callback->execute()
            /\ exec' = [exec EXCEPT ![f.c] = @ + 1]
            /\ running' = [running EXCEPT ![f.c] = t]
            /\ bad' = IF destroyed[f.c] THEN "exec-after-destroy" ELSE bad
            /\ frames' = PushOn(t, Prog(scn.body[f.c]), [f EXCEPT !.pc = "q3"])
            /\ UNCHANGED <<state, list, link, completed, rdptr, notifier, reqRet>>
       [] f.pc = "q3" ->                 \* body returned
            /\ running' = [running EXCEPT ![f.c] = 0]
            /\ IF f.rd THEN UNCHANGED <<completed, rdptr, bad>>
               ELSE /\ completed' = [completed EXCEPT ![f.c] = TRUE]
                    /\ rdptr' = [rdptr EXCEPT ![f.c] = <<0, 0>>]
                    /\ bad' = IF destroyed[f.c] THEN "touch-after-destroy" ELSE bad
            /\ frames' = SetTop(t, [f EXCEPT !.pc = "q4"])
            /\ UNCHANGED <<state, list, link, notifier, exec, reqRet>>
       [] f.pc = "q4" ->                 \* lock()
            /\ "locked" \notin state
            /\ state' = state \cup {"locked"}
            /\ frames' = SetTop(t, [f EXCEPT !.pc = "q1"])
            /\ UNCHANGED <<list, link, completed, rdptr, notifier, exec, running, reqRet, bad>>
  /\ UNCHANGED <<scn, srcNull, destroyed, upReq>>

\* ---- ~inplace_stop_callback / remove_callback ----
SetRd(fs, d) == \* set the rd flag of the frame at depth d (counted from the bottom)
  LET k == Len(fs) - d + 1 IN [fs EXCEPT ![k].rd = TRUE]

DeregStep(t) ==
  /\ frames[t] # <<>> /\ Top(t).op = "dereg"
  /\ LET f == Top(t)  c == f.c IN
     CASE f.pc = "d0" ->
            IF srcNull[c] \/ link[c] = "none" THEN     \* source_ == nullptr or never registered: nothing to do
              /\ destroyed' = [destroyed EXCEPT ![c] = TRUE]
              /\ bad' = IF running[c] \notin {0, t} THEN "destroyed-while-running" ELSE bad
              /\ frames' = Pop(t) /\ UNCHANGED <<list, link>>
            ELSE
              /\ "locked" \notin state                 \* lock(); critical section; unlock
              /\ IF link[c] = "listed"
                 THEN /\ list' = Remove(list, c) /\ link' = [link EXCEPT ![c] = "none"]
                      /\ destroyed' = [destroyed EXCEPT ![c] = TRUE]
                      /\ frames' = Pop(t) /\ UNCHANGED bad
                 ELSE /\ frames' = SetTop(t, [f EXCEPT !.pc = IF t = notifier THEN "d1" ELSE "d2"])
                      /\ UNCHANGED <<list, link, destroyed, bad>>
       [] f.pc = "d2" ->                 \* spin until the other thread finished the callback
            /\ completed[c]
            /\ destroyed' = [destroyed EXCEPT ![c] = TRUE]
            /\ bad' = IF running[c] \notin {0, t} THEN "destroyed-while-running" ELSE bad
            /\ frames' = Pop(t) /\ UNCHANGED <<list, link>>
  /\ UNCHANGED <<scn, state, srcNull, completed, rdptr, notifier, exec, running, reqRet, upReq>>

\* same thread as the notifier: tell the requester frame that the callback object is gone
DeregD1(t) ==
  /\ frames[t] # <<>> /\ Top(t).op = "dereg" /\ Top(t).pc = "d1"
  /\ LET c == Top(t).c IN
     /\ frames' = IF rdptr[c][1] = t
                  THEN [frames EXCEPT ![t] = SetRd(Tail(@), rdptr[c][2])]
                  ELSE Pop(t)
     /\ destroyed' = [destroyed EXCEPT ![c] = TRUE]
  /\ UNCHANGED <<scn, state, list, link, srcNull, completed, rdptr, notifier,
                 exec, running, reqRet, bad, upReq>>

Step(t) == \/ ProgStep(t) \/ RegStep(t) \/ ReqStep(t)
           \/ (frames[t] # <<>> /\ Top(t).pc # "d1" /\ DeregStep(t)) \/ DeregD1(t)

AllDone == \A t \in Threads : frames[t] = <<>>
\* the schedule-point name at which thread t is parked before this step ("" = silent step)
PcOf(t) == IF Top(t).op = "prog" THEN "" ELSE IF Top(t).pc = "r1" THEN "" ELSE Top(t).pc
Next == \/ \E t \in Threads : Step(t) /\ lastT' = t /\ lastPc' = PcOf(t)
        \/ (AllDone /\ UNCHANGED vars /\ UNCHANGED ghosts)
Spec == Init /\ [][Next]_<<vars, ghosts>>
View == vars
FairSpec == Spec /\ \A t \in Threads : WF_<<vars, ghosts>>(Step(t) /\ lastT' = t /\ lastPc' = PcOf(t))

\* ---- properties (C03) ----
ExecAtMostOnce == \A c \in Cbs : exec[c] <= 1
NoBadAccess == bad = "ok"
OneFirstRequester == Cardinality({i \in 1..Len(reqRet) : reqRet[i] = FALSE}) <= 1
ListConsistent == \A c \in Cbs : (link[c] = "listed") <=> (\E i \in 1..Len(list) : list[i] = c)
NoDestroyedInList == \A i \in 1..Len(list) : ~destroyed[list[i]]
\* terminal: a callback still registered when stop was requested must have run; exactly one first requester
TerminalExec ==
  AllDone => /\ (reqRet # <<>> => Cardinality({i \in 1..Len(reqRet) : reqRet[i] = FALSE}) = 1)
             /\ \A c \in Cbs : ~(link[c] = "listed" /\ "stop" \in state)
             /\ "locked" \notin state
\* a callback that ran was registered; a callback registered after a completed request ran inline
ExecOnlyIfRequested == \A c \in Cbs : exec[c] > 0 => "stop" \in state
StopMonotone == [][("stop" \in state) => ("stop" \in state')]_vars
Terminates == <>AllDone
=============================================================================
