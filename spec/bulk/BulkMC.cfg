SPECIFICATION Spec
CONSTANTS Scenarios <- Scn
INVARIANTS EachIndexExactlyOnce NoNextAfterTerminal NoOverlapBeyondPolicy EndHasTerminal
PROPERTY NoNextAfterTerminalA
ACTION_CONSTRAINT Export
CHECK_DEADLOCK TRUE
