SPECIFICATION Spec
CONSTANTS Lengths <- LengthsC  Variants <- VariantsC  PosMode <- PosModeC
INVARIANTS RepairedArithmeticHolds FindIfIsFirst
ACTION_CONSTRAINT Export
CHECK_DEADLOCK FALSE
