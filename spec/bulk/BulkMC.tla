---- MODULE BulkMC ----
(* Model-checking instance of Bulk: scenarios come from a JSON file shared with the C++ driver (IOEnv.BK_SCENARIOS); *)
(* every finished behaviour is appended to IOEnv.BK_CASES as one JSON line                                            *)
(* {id, counts (calls per layer), terminal, eff (policy seen by the source), stopReq} = expected observation.         *)
EXTENDS Bulk, Json, IOUtils
Scn == LET q == JsonDeserialize(IOEnv.BK_SCENARIOS) IN {q[k] : k \in 1..Len(q)}
Export ==
  (Ended' /\ ~Ended) =>
    Serialize(ToJson([id |-> sc'.id, counts |-> [j \in Layers(sc'.stages) |-> cnt'[j]], terminal |-> terminal',
                      eff |-> EffPolicy(sc'.stages), stopReq |-> stopReq']) \o "\n", IOEnv.BK_CASES,
       [format |-> "TXT", charset |-> "UTF-8", openOptions |-> <<"WRITE", "CREATE", "APPEND">>]).exitValue = 0
====
