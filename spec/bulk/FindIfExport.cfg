SPECIFICATION Spec
CONSTANTS MaxN <- MaxNC  Variants <- VariantsC  PosMode <- PosModeC
INVARIANTS FindIfIsFirst
ACTION_CONSTRAINT Export
CHECK_DEADLOCK FALSE
