SPECIFICATION Spec
CONSTANTS Lengths <- LengthsC  Variants <- VariantsC  PosMode <- PosModeC
INVARIANTS ChunksPartition PredicateOnlyInRange Terminates FindIfIsFirst
CHECK_DEADLOCK FALSE
