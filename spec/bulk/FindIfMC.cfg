SPECIFICATION Spec
CONSTANTS MaxN <- MaxNC  Variants <- VariantsC  PosMode <- PosModeC
INVARIANTS ChunksPartition PredicateOnlyInRange Terminates FindIfIsFirst
CHECK_DEADLOCK FALSE
