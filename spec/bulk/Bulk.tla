-------------------------------- MODULE Bulk --------------------------------
(***************************************************************************)
(* C17, first half: bulk_schedule(sched, n) calls set_next for every index *)
(* 0..n-1 exactly once (fewer only if it then completes with done after a  *)
(* stop request), never after its terminal signal, never overlapping       *)
(* beyond what the receiver's execution policy permits; bulk_transform,    *)
(* bulk_join and indexed_for preserve this.                                *)
(*                                                                         *)
(* Implementation-shaped transcription of                                  *)
(*   include/unifex/bulk_schedule.hpp  _schedule_receiver::set_value       *)
(*       (stop_possible ? chunked loop with a stop poll in front of every  *)
(*        bulk_cancellation_chunk_size indices : plain loop; then          *)
(*        set_value; the vectorisable and the sequenced loop bodies are    *)
(*        the same sequence of set_next calls),                            *)
(*   include/unifex/bulk_transform.hpp tfx_receiver (set_next = invoke the *)
(*        function, pass its result on; terminal signals forwarded;        *)
(*        get_execution_policy = meet of the function's and the downstream *)
(*        receiver's policy),                                              *)
(*   include/unifex/bulk_join.hpp join_receiver (set_next swallowed,       *)
(*        policy par_unseq, terminal signals forwarded),                   *)
(*   include/unifex/indexed_for.hpp (loop over the range, then set_value). *)
(* A pipeline is  source -> stage 1 -> ... -> stage k  with stages          *)
(*   [k |-> "tf", ret |-> "rev"|"id"|"void", pol |-> P]   bulk_transform   *)
(*   [k |-> "many", pol |-> P]      a many-receiver (the harness')         *)
(*   [k |-> "join"]                 bulk_join + a plain receiver           *)
(* Stage j is "layer j": the bag visited[j] counts the values it was       *)
(* called with ("rev" maps v to n-1-v; after a "void" function the next    *)
(* layer sees no value and the call number stands for it).                 *)
(* The environment: the kind of stop token the final receiver offers and   *)
(* the moment of the stop request (never / before start / inside the       *)
(* set_next call of index stopAfter), chosen in Init.                      *)
(***************************************************************************)
EXTENDS Integers, Sequences, FiniteSets, TLC

CONSTANTS Scenarios   \* set of [shape, stages, n, tok ("never"|"inert"|"live"), stopAfter (-2 never, -1 before start, k)]

VARIABLES sc, pc, i, blockEnd, visited, cnt, terminal, nterm, stopReq, lateNext
vars == <<sc, pc, i, blockEnd, visited, cnt, terminal, nterm, stopReq, lateNext>>

CancelChunk == 16     \* unifex::bulk_cancellation_chunk_size
Lo(a, b) == IF a < b THEN a ELSE b

Seq_ == [par |-> FALSE, unseq |-> FALSE]
Unseq == [par |-> FALSE, unseq |-> TRUE]
Par == [par |-> TRUE, unseq |-> FALSE]
ParUnseq == [par |-> TRUE, unseq |-> TRUE]
Meet(p, q) == [par |-> p.par /\ q.par, unseq |-> p.unseq /\ q.unseq]
Leq(p, q) == (p.par => q.par) /\ (p.unseq => q.unseq)

\* the policy the receiver chain presents to stage j's upstream (get_execution_policy of the receiver at stage j)
RECURSIVE PolicyAt(_, _)
PolicyAt(st, j) ==
  IF st[j].k = "many" THEN st[j].pol
  ELSE IF st[j].k = "join" THEN ParUnseq
  ELSE Meet(st[j].pol, PolicyAt(st, j + 1))
EffPolicy(st) == PolicyAt(st, 1)            \* what bulk_schedule's _schedule_receiver sees
Layers(st) == {j \in 1..Len(st) : st[j].k # "join"}

IsFor == sc.shape \in {"IFseq", "IFpar"}    \* indexed_for: no bulk_schedule, no stop handling
StopPossible == sc.tok = "live"             \* !is_stop_never_possible_v<token> && token.stop_possible()

Init == /\ sc \in Scenarios
        /\ pc = "idle" /\ i = 0 /\ blockEnd = 0
        /\ visited = [j \in Layers(sc.stages) |-> [v \in 0..(sc.n - 1) |-> 0]]
        /\ cnt = [j \in Layers(sc.stages) |-> 0]
        /\ terminal = "none" /\ nterm = 0 /\ stopReq = FALSE /\ lateNext = FALSE

\* the harness requests stop before start()
EarlyStop == /\ pc = "idle" /\ sc.tok = "live" /\ sc.stopAfter = -1 /\ ~stopReq
             /\ stopReq' = TRUE
             /\ UNCHANGED <<sc, pc, i, blockEnd, visited, cnt, terminal, nterm, lateNext>>

\* start(): schedule() on the scheduler; its completion runs _schedule_receiver::set_value
Start == /\ pc = "idle" /\ (sc.tok = "live" /\ sc.stopAfter = -1 => stopReq)
         /\ pc' = IF IsFor THEN "loop" ELSE IF StopPossible THEN "poll" ELSE "loop"
         /\ blockEnd' = sc.n
         /\ UNCHANGED <<sc, i, visited, cnt, terminal, nterm, stopReq, lateNext>>

\* for (chunk_start = 0; chunk_start < count_; chunk_start += 16) { if (stop_requested()) { set_done; return; } ...
Poll == /\ pc = "poll"
        /\ IF i >= sc.n THEN pc' = "value" /\ UNCHANGED blockEnd
           ELSE IF stopReq THEN pc' = "done" /\ UNCHANGED blockEnd
           ELSE pc' = "loop" /\ blockEnd' = Lo(i + CancelChunk, sc.n)
        /\ UNCHANGED <<sc, i, visited, cnt, terminal, nterm, stopReq, lateNext>>

\* one set_next(receiver_, i): runs through all stages synchronously
RECURSIVE Through(_, _, _, _, _)
\* returns <<visited', cnt'>> after value v (or -1 = no value) enters stage j
Through(st, j, v, vis, c) ==
  IF j > Len(st) \/ st[j].k = "join" THEN <<vis, c>>
  ELSE LET val == IF v = -1 THEN c[j] ELSE v
           vis2 == [vis EXCEPT ![j][val] = @ + 1]
           c2 == [c EXCEPT ![j] = @ + 1]
       IN IF st[j].k = "many" THEN <<vis2, c2>>
          ELSE Through(st, j + 1,
                       CASE st[j].ret = "rev" -> sc.n - 1 - val
                         [] st[j].ret = "id" -> val
                         [] OTHER -> -1,
                       vis2, c2)

NextCall == /\ pc = "loop" /\ i < blockEnd
            /\ LET r == Through(sc.stages, 1, i, visited, cnt)
               IN visited' = r[1] /\ cnt' = r[2]
            /\ lateNext' = (lateNext \/ terminal # "none")
            /\ stopReq' = (stopReq \/ (sc.tok = "live" /\ sc.stopAfter = i))
            /\ i' = i + 1
            /\ UNCHANGED <<sc, pc, blockEnd, terminal, nterm>>

LoopEnd == /\ pc = "loop" /\ i >= blockEnd
           /\ pc' = IF ~IsFor /\ StopPossible THEN "poll" ELSE "value"
           /\ UNCHANGED <<sc, i, blockEnd, visited, cnt, terminal, nterm, stopReq, lateNext>>

\* unifex::set_value / set_done (std::move(receiver_)): forwarded through every stage to the final receiver
Terminal == /\ pc \in {"value", "done"}
            /\ terminal' = pc /\ nterm' = nterm + 1
            /\ pc' = "end"
            /\ UNCHANGED <<sc, i, blockEnd, visited, cnt, stopReq, lateNext>>

Finished == pc = "end" /\ UNCHANGED vars     \* so that TLC's deadlock check means: stuck before the terminal signal
Next == EarlyStop \/ Start \/ Poll \/ NextCall \/ LoopEnd \/ Terminal \/ Finished
Spec == Init /\ [][Next]_vars
FairSpec == Spec /\ WF_vars(EarlyStop \/ Start \/ Poll \/ NextCall \/ LoopEnd \/ Terminal)

-----------------------------------------------------------------------------
All1 == \A j \in Layers(sc.stages) : \A v \in 0..(sc.n - 1) : visited[j][v] = 1
EachIndexExactlyOnce ==
  /\ \A j \in Layers(sc.stages) : \A v \in 0..(sc.n - 1) : visited[j][v] <= 1
  /\ terminal = "value" => All1
  /\ terminal = "done" => stopReq               \* fewer only if then done after a stop request
  /\ nterm <= 1
NoNextAfterTerminal == ~lateNext
NoNextAfterTerminalA == [][terminal # "none" => visited' = visited]_vars
\* the policy offered to the source never exceeds what any function / the final receiver permits;
\* the transcribed source runs all calls one after the other on one thread, which every policy permits
NoOverlapBeyondPolicy ==
  \A j \in 1..Len(sc.stages) : sc.stages[j].k # "join" => Leq(EffPolicy(sc.stages), sc.stages[j].pol)
EndHasTerminal == pc = "end" => terminal # "none"
Completes == <>(pc = "end")
Ended == pc = "end"
=============================================================================
