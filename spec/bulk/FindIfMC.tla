---- MODULE FindIfMC ----
(* Model-checking instance of FindIf.  IOEnv: FI_MAXN, FI_NMOD, FI_NPHASE (lengths), FI_VARIANT ("orig" | "fixed" | "both"),  *)
(* FI_POS ("none" | "few" | "all"), FI_CASES (file; every finished behaviour is appended as one JSON line            *)
(* {var, n, m, pol, calls, result, oob, div} = input, expected predicate calls, expected result).           *)
EXTENDS FindIf, Json, IOUtils
MaxNC == atoi(IOEnv.FI_MAXN)
NModC == atoi(IOEnv.FI_NMOD)        \* 1 = every length 0..FI_MAXN; k > 1 = lengths <= 64 and those = FI_NPHASE mod k
NPhaseC == atoi(IOEnv.FI_NPHASE)
LengthsC == {k \in 0..MaxNC : NModC = 1 \/ k <= 64 \/ k % NModC = NPhaseC}
VariantsC == IF IOEnv.FI_VARIANT = "both" THEN {"orig", "fixed"} ELSE {IOEnv.FI_VARIANT}
PosModeC == IOEnv.FI_POS
Export ==
  (Ended' /\ ~Ended) =>
    Serialize(ToJson([var |-> var', n |-> n', m |-> M', pol |-> pol', calls |-> calls', result |-> result',
                      oob |-> OutOfRange', div |-> (pc' = "diverged")]) \o "\n", IOEnv.FI_CASES,
       [format |-> "TXT", charset |-> "UTF-8", openOptions |-> <<"WRITE", "CREATE", "APPEND">>]).exitValue = 0
====
