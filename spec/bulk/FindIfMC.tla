---- MODULE FindIfMC ----
(* Model-checking instance of FindIf.  IOEnv: FI_MAXN (lengths 0..FI_MAXN), FI_VARIANT ("orig" | "fixed"),  *)
(* FI_POS ("few" | "all"), FI_CASES (file; every finished behaviour is appended as one JSON line            *)
(* {var, n, m, pol, calls, result, oob, div} = input, expected predicate calls, expected result).           *)
EXTENDS FindIf, Json, IOUtils
MaxNC == atoi(IOEnv.FI_MAXN)
VariantsC == {IOEnv.FI_VARIANT}
PosModeC == IOEnv.FI_POS
Export ==
  (Ended' /\ ~Ended) =>
    Serialize(ToJson([var |-> var', n |-> n', m |-> M', pol |-> pol', calls |-> calls', result |-> result',
                      oob |-> OutOfRange', div |-> (pc' = "diverged")]) \o "\n", IOEnv.FI_CASES,
       [format |-> "TXT", charset |-> "UTF-8", openOptions |-> <<"WRITE", "CREATE", "APPEND">>]).exitValue = 0
====
