------------------------------ MODULE BulkMon ------------------------------
(***************************************************************************)
(* The C17 monitor.  It reads an ndjson log recorded from the real code    *)
(* (many executions, each  Reset .. End) and states only what the property *)
(* states.  It is a deterministic automaton over the log: it never blocks  *)
(* on a rule, it collects the names of the violated rules per execution    *)
(* and prints "verdict {x, rules}" (JSON) at the execution's End event (a  *)
(* rejected execution = one with a verdict line).  This form is used       *)
(* because one defect typically rejects hundreds of executions (one per    *)
(* range length) and all of them must be identified in one TLC run.        *)
(* The log as a whole is "accepted" (TraceIO) iff every line was consumed, *)
(* i.e. iff the log is well-formed.                                        *)
(*                                                                         *)
(* Alphabet                                                                *)
(*  Reset{x}                 new execution x                               *)
(*  Cfg{kind,n,layers,m}     kind "bulk": n indices, `layers` observation  *)
(*                           layers (functions / many-receiver);           *)
(*                           kind "find_if": range length n, m = positions *)
(*                           where the predicate holds                     *)
(*  Policy{who,L,par,unseq}  who "eff": policy the receiver chain offers   *)
(*                           to the bulk source; who "part": policy        *)
(*                           declared by the participant of layer L        *)
(*  StopReq{}                the harness is about to request stop          *)
(*  Next{L,v,t,oo,os}        layer L called with value v on thread t while *)
(*                           oo calls of that layer were open on other     *)
(*                           threads and os on the same thread             *)
(*  Terminal{ch,t,open}      completion signal at the final receiver,      *)
(*                           `open` Next calls still running               *)
(*  Pred{lo,hi,t}            predicate called on the elements at offsets   *)
(*                           lo..hi from the range's begin (address-based) *)
(*  PredOutOfRange{off}, PredCap{}   guard events of the harness: call on  *)
(*                           a non-element / more calls than the cap       *)
(*  Result{pos}              position find_if returned (n = end)           *)
(*  End{}                    end of the execution (after the context was   *)
(*                           drained)                                      *)
(* Rules (names appear in verdicts)                                        *)
(*  IndexRange, IndexTwice, MissingIndex (at Terminal value, every layer), *)
(*  DoneWithoutStop (done/error needs an earlier StopReq),                 *)
(*  NextAfterTerminal, TerminalTwice, TerminalConcurrent, NoTerminal,      *)
(*  OverlapBeyondPolicy (oo>0 needs par, os>0 needs unseq of that layer's  *)
(*  participant), PolicyExceeds (eff policy not below every participant's),*)
(*  PredOutOfRange, WrongResult (pos # first match or end), ResultCount,   *)
(*  NotValue (find_if without a stop request must complete with a value).  *)
(***************************************************************************)
EXTENDS Integers, Sequences, FiniteSets, TLC, TraceIO

MaxLayer == 4
LayerIds == 1..MaxLayer
NoPol == [par |-> TRUE, unseq |-> TRUE]
VARIABLES l, x, kind, n, nl, m, visited, part, eff, stopSeen, nterm, termCh, nres, bad
vars == <<l, x, kind, n, nl, m, visited, part, eff, stopSeen, nterm, termCh, nres, bad>>

Fresh(xx) == /\ x' = xx /\ kind' = "none" /\ n' = 0 /\ nl' = 0 /\ m' = {}
             /\ visited' = [j \in LayerIds |-> {}] /\ part' = [j \in LayerIds |-> NoPol] /\ eff' = [par |-> FALSE, unseq |-> FALSE]
             /\ stopSeen' = FALSE /\ nterm' = 0 /\ termCh' = "none" /\ nres' = 0 /\ bad' = {}
Init == /\ l = 1 /\ x = -1 /\ kind = "none" /\ n = 0 /\ nl = 0 /\ m = {}
        /\ visited = [j \in LayerIds |-> {}] /\ part = [j \in LayerIds |-> NoPol] /\ eff = [par |-> FALSE, unseq |-> FALSE]
        /\ stopSeen = FALSE /\ nterm = 0 /\ termCh = "none" /\ nres = 0 /\ bad = {}
        /\ TrackInit
E == Log[l]
Is(e) == l <= Len(Log) /\ E.e = e /\ l' = l + 1
Flag(c, name) == IF c THEN {name} ELSE {}
MinOf(S) == CHOOSE a \in S : \A b \in S : a <= b
First == IF m = {} THEN n ELSE MinOf(m)
Leq(p, q) == (p.par => q.par) /\ (p.unseq => q.unseq)

Reset == Is("Reset") /\ Fresh(E.x)
Cfg == /\ Is("Cfg")
       /\ kind' = E.kind /\ n' = E.n /\ nl' = E.layers
       /\ m' = {E.m[k] : k \in 1..Len(E.m)}
       /\ UNCHANGED <<x, visited, part, eff, stopSeen, nterm, termCh, nres, bad>>
Policy == /\ Is("Policy")
          /\ IF E.who = "eff" THEN eff' = [par |-> E.par, unseq |-> E.unseq] /\ UNCHANGED part
             ELSE part' = [part EXCEPT ![E.L] = [par |-> E.par, unseq |-> E.unseq]] /\ UNCHANGED eff
          /\ UNCHANGED <<x, kind, n, nl, m, visited, stopSeen, nterm, termCh, nres, bad>>
StopReq == /\ Is("StopReq") /\ stopSeen' = TRUE
           /\ UNCHANGED <<x, kind, n, nl, m, visited, part, eff, nterm, termCh, nres, bad>>
NextEv == /\ Is("Next")
          /\ visited' = [visited EXCEPT ![E.L] = @ \cup {E.v}]
          /\ bad' = bad \cup Flag(E.v < 0 \/ E.v >= n, "IndexRange")
                        \cup Flag(E.v \in visited[E.L], "IndexTwice")
                        \cup Flag(nterm > 0, "NextAfterTerminal")
                        \cup Flag((E.oo > 0 /\ ~part[E.L].par) \/ (E.os > 0 /\ ~part[E.L].unseq), "OverlapBeyondPolicy")
          /\ UNCHANGED <<x, kind, n, nl, m, part, eff, stopSeen, nterm, termCh, nres>>
Terminal == /\ Is("Terminal")
            /\ nterm' = nterm + 1 /\ termCh' = E.ch
            /\ bad' = bad \cup Flag(nterm > 0, "TerminalTwice")
                          \cup Flag(E.open > 0, "TerminalConcurrent")
                          \cup Flag(kind = "bulk" /\ E.ch = "value" /\ \E j \in 1..nl : visited[j] # 0..(n - 1), "MissingIndex")
                          \cup Flag(kind = "bulk" /\ E.ch # "value" /\ ~stopSeen, "DoneWithoutStop")
                          \cup Flag(kind = "find_if" /\ E.ch # "value" /\ ~stopSeen, "NotValue")
            /\ UNCHANGED <<x, kind, n, nl, m, visited, part, eff, stopSeen, nres>>
Pred == /\ Is("Pred")
        /\ bad' = bad \cup Flag(E.lo < 0 \/ E.hi >= n \/ E.hi < E.lo, "PredOutOfRange")
                      \cup Flag(nterm > 0, "NextAfterTerminal")
        /\ UNCHANGED <<x, kind, n, nl, m, visited, part, eff, stopSeen, nterm, termCh, nres>>
Guard == /\ (Is("PredOutOfRange") \/ Is("PredCap"))
         /\ bad' = bad \cup {"PredOutOfRange"}
         /\ UNCHANGED <<x, kind, n, nl, m, visited, part, eff, stopSeen, nterm, termCh, nres>>
Result == /\ Is("Result")
          /\ nres' = nres + 1
          /\ bad' = bad \cup Flag(~stopSeen /\ E.pos # First, "WrongResult")
                        \cup Flag(stopSeen /\ E.pos # First /\ E.pos # n, "WrongResult")
          /\ UNCHANGED <<x, kind, n, nl, m, visited, part, eff, stopSeen, nterm, termCh>>
End == /\ Is("End")
       /\ LET fin == bad \cup Flag(nterm = 0, "NoTerminal")
                         \cup Flag(kind = "bulk" /\ \E j \in 1..nl : ~Leq(eff, part[j]), "PolicyExceeds")
                         \cup Flag(kind = "find_if" /\ termCh = "value" /\ nres # 1, "ResultCount")
          IN /\ bad' = fin
             /\ (fin # {} => PrintT("verdict " \o ToJson([x |-> x, rules |-> fin])))
       /\ UNCHANGED <<x, kind, n, nl, m, visited, part, eff, stopSeen, nterm, termCh, nres>>
Next == Reset \/ Cfg \/ Policy \/ StopReq \/ NextEv \/ Terminal \/ Pred \/ Guard \/ Result \/ End
Spec == Init /\ [][Next]_vars
Track == TrackAt(l, TRUE)
Report == ReportTrace
=============================================================================
