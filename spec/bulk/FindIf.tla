------------------------------- MODULE FindIf -------------------------------
(***************************************************************************)
(* C17, second half: find_if returns the first element of the range that   *)
(* satisfies the predicate, or end, evaluating the predicate only on       *)
(* elements of the range.                                                  *)
(*                                                                         *)
(* (i)  First(M, n): the abstract function (M = set of positions at which  *)
(*      the predicate holds, n = length of the range; result n = "end").   *)
(* (ii) an implementation-shaped transcription of include/unifex/          *)
(*      find_if.hpp, find_if_helper:                                       *)
(*        - sequenced_policy overload: one loop over [begin, end);         *)
(*        - parallel_policy overload: num_chunks / chunk_size integer      *)
(*          arithmetic exactly as the code computes it, bulk_schedule over *)
(*          num_chunks indices (stop polled every                          *)
(*          bulk_cancellation_chunk_size = 16 indices because              *)
(*          let_value_with_stop_source makes the token stop-possible),     *)
(*          per-chunk [chunk_begin, chunk_end), perChunkState, found flag, *)
(*          request_stop on the first hit of a chunk, final scan of        *)
(*          perChunkState in chunk order.                                  *)
(*      Everything is sequential: the default bulk_schedule runs all       *)
(*      set_next calls in index order on the one thread that the           *)
(*      scheduler's schedule() operation completes on.                     *)
(*                                                                         *)
(* Variant selects the chunk arithmetic:                                   *)
(*   "orig"  chunk_size = (distance + num_chunks) / num_chunks,            *)
(*           chunk_begin = begin + chunk_size * index,                     *)
(*           chunk_end = index < num_chunks - 1 ? chunk_begin + chunk_size *)
(*                                              : end                      *)
(*   "fixed" chunk_size = (distance + num_chunks - 1) / num_chunks,        *)
(*           chunk_begin = begin + min(chunk_size * index, distance),      *)
(*           chunk_end   = begin + min(chunk_size * (index+1), distance)   *)
(*           (the repair proposed in engines/bulk/proposed_findings.json). *)
(*                                                                         *)
(* One step of the parallel overload = one chunk (one call of the          *)
(* bulk_transform function); the predicate calls of a chunk are recorded   *)
(* as one interval <<lo, hi>> (called on lo, lo+1, .., hi in this order).  *)
(* A chunk whose begin lies behind its end never terminates in the code    *)
(* (`it != chunk_end_it` with it > chunk_end_it): pc = "diverged", and the *)
(* interval is <<lo, Inf>>.  Predicate values outside the range are taken  *)
(* as FALSE (they are whatever memory holds).                              *)
(***************************************************************************)
EXTENDS Integers, Sequences, FiniteSets, TLC

CONSTANTS Lengths,    \* set of range lengths explored
          Variants,   \* subset of {"orig", "fixed"} explored in this run
          PosMode     \* "none" (no match only) | "few" | "all": which chunk boundaries get match positions

VARIABLES var,        \* chunk arithmetic variant of this behaviour
          n,          \* std::distance(begin_it, end_it)
          M,          \* positions at which the predicate holds (subset of 0..n-1)
          pol,        \* "seq" | "par"
          pc,
          idx,        \* bulk_schedule's loop variable i (chunk index)
          blockEnd,   \* end of bulk_schedule's current cancellation block (chunk_end there)
          stopReq,    \* stopSource.request_stop() was called
          found,      \* state.found_flag
          perChunk,   \* sequence of <<chunk index, position>>: entries of perChunkState that are not end_it
          calls,      \* sequence of <<lo, hi>>: predicate called on lo..hi
          result      \* position returned (n = end_it), -1 = none yet
vars == <<var, n, M, pol, pc, idx, blockEnd, stopReq, found, perChunk, calls, result>>

MaxNumChunks == 32
MinChunkSize == 4
CancelChunk == 16          \* unifex::bulk_cancellation_chunk_size
Inf == 1000000000

MinOf(S) == CHOOSE x \in S : \A y \in S : x <= y
Lo(a, b) == IF a < b THEN a ELSE b

-----------------------------------------------------------------------------
(* (i) the abstract function *)
First(MM, nn) == IF MM = {} THEN nn ELSE MinOf(MM)

-----------------------------------------------------------------------------
(* (ii) the chunk arithmetic, integer for integer as in the code *)
NumChunks(nn) == IF (nn \div MaxNumChunks) > MinChunkSize
                 THEN MaxNumChunks
                 ELSE (nn + MinChunkSize) \div MinChunkSize
ChunkSize(v, nn) == IF v = "orig"
                    THEN (nn + NumChunks(nn)) \div NumChunks(nn)
                    ELSE (nn + NumChunks(nn) - 1) \div NumChunks(nn)
CBegin(v, nn, i) == IF v = "orig"
                    THEN ChunkSize(v, nn) * i
                    ELSE Lo(ChunkSize(v, nn) * i, nn)
CEnd(v, nn, i) == IF v = "orig"
                  THEN (IF i < NumChunks(nn) - 1 THEN CBegin(v, nn, i) + ChunkSize(v, nn) ELSE nn)
                  ELSE Lo(ChunkSize(v, nn) * (i + 1), nn)

-----------------------------------------------------------------------------
(* inputs: every length; first match at none / first / last / chunk boundaries -1,0,+1 *)
(* (boundaries of both arithmetic variants, so that all variants see the same inputs)  *)
ChunkSel(nn) == IF PosMode = "all" THEN 0..(NumChunks(nn) - 1)
                ELSE {0, 1, 2, 15, 16, 17, NumChunks(nn) - 2, NumChunks(nn) - 1} \cap (0..(NumChunks(nn) - 1))
Pos(nn) == ({0, nn - 1} \cup {CBegin(v, nn, i) + d : v \in {"orig", "fixed"}, i \in ChunkSel(nn), d \in {-1, 0, 1}})
           \cap (0..(nn - 1))
MatchSets(nn) == IF PosMode = "none" THEN {{}} ELSE
                 {{}} \cup {{p} : p \in Pos(nn)} \cup {{p, nn - 1} : p \in Pos(nn)}
                 \cup (IF PosMode = "all" THEN {{p, Lo(p + ChunkSize("fixed", nn), nn - 1)} : p \in Pos(nn)} ELSE {})
                 \cup (IF nn <= 40 /\ nn > 0 THEN {0..(nn - 1)} ELSE {})

Init == /\ var \in Variants
        /\ n \in Lengths
        /\ M \in MatchSets(n)
        /\ pol \in {"seq", "par"}
        /\ pc = "start" /\ idx = 0 /\ blockEnd = 0 /\ stopReq = FALSE /\ found = FALSE
        /\ perChunk = <<>> /\ calls = <<>> /\ result = -1

-----------------------------------------------------------------------------
\* sequenced_policy overload: for (it = begin; it != end; ++it) if (pred(elem at it)) return it; return end
SeqLoop == /\ pc = "start" /\ pol = "seq"
           /\ calls' = IF n = 0 THEN <<>> ELSE <<<<0, IF M = {} THEN n - 1 ELSE MinOf(M)>>>>
           /\ result' = IF M = {} THEN n ELSE MinOf(M)
           /\ pc' = "done"
           /\ UNCHANGED <<var, n, M, pol, idx, blockEnd, stopReq, found, perChunk>>

(* parallel_policy overload *)
ParStart == /\ pc = "start" /\ pol = "par"
            /\ pc' = "poll"
            /\ UNCHANGED <<var, n, M, pol, idx, blockEnd, stopReq, found, perChunk, calls, result>>

\* bulk_schedule: for (chunk_start = 0; chunk_start < count; chunk_start += 16) { if (stop_requested) set_done ...
Poll == /\ pc = "poll"
        /\ IF idx >= NumChunks(n) \/ stopReq
           THEN pc' = "scan" /\ UNCHANGED blockEnd      \* set_value, or set_done -> let_done -> just()
           ELSE pc' = "chunk" /\ blockEnd' = Lo(idx + CancelChunk, NumChunks(n))
        /\ UNCHANGED <<var, n, M, pol, idx, stopReq, found, perChunk, calls, result>>

\* the bulk_transform function for index idx
Chunk == /\ pc = "chunk"
         /\ LET cb == CBegin(var, n, idx)
                ce == CEnd(var, n, idx)
                hits == {p \in M : cb <= p /\ p < ce}
            IN IF cb > ce
               THEN /\ calls' = Append(calls, <<cb, Inf>>)
                    /\ pc' = "diverged"
                    /\ UNCHANGED <<idx, stopReq, found, perChunk>>
               ELSE /\ IF cb = ce
                       THEN UNCHANGED <<calls, stopReq, found, perChunk>>
                       ELSE IF hits # {}
                            THEN /\ calls' = Append(calls, <<cb, MinOf(hits)>>)
                                 /\ perChunk' = Append(perChunk, <<idx, MinOf(hits)>>)
                                 /\ found' = TRUE /\ stopReq' = TRUE
                            ELSE /\ calls' = Append(calls, <<cb, ce - 1>>)
                                 /\ UNCHANGED <<stopReq, found, perChunk>>
                    /\ idx' = idx + 1
                    /\ pc' = IF idx + 1 = blockEnd THEN "poll" ELSE "chunk"
         /\ UNCHANGED <<var, n, M, pol, blockEnd, result>>

\* then(...): for (auto it : state.perChunkState) if (it != end_it) return it; return end_it
Scan == /\ pc = "scan"
        /\ result' = IF perChunk = <<>> THEN n
                     ELSE LET k == CHOOSE k \in 1..Len(perChunk) : \A j \in 1..Len(perChunk) : perChunk[k][1] <= perChunk[j][1]
                          IN perChunk[k][2]
        /\ pc' = "done"
        /\ UNCHANGED <<var, n, M, pol, idx, blockEnd, stopReq, found, perChunk, calls>>

Next == SeqLoop \/ ParStart \/ Poll \/ Chunk \/ Scan
Spec == Init /\ [][Next]_vars

-----------------------------------------------------------------------------
(* properties *)
Ended == pc \in {"done", "diverged"}
\* evaluating the predicate only on elements of the range
PredicateOnlyInRange == \A k \in 1..Len(calls) : calls[k][1] >= 0 /\ calls[k][2] < n
\* the chunk loop terminates
Terminates == pc # "diverged"
\* refinement Chunked => First
FindIfIsFirst == pc = "done" => result = First(M, n)
\* design-level arithmetic fact behind both: the chunks partition [0, n)
ChunksPartition ==
  (pc = "poll" /\ idx = 0) =>
     /\ CBegin(var, n, 0) = 0
     /\ CEnd(var, n, NumChunks(n) - 1) = n
     /\ \A i \in 0..(NumChunks(n) - 1) : CBegin(var, n, i) <= CEnd(var, n, i) /\ CEnd(var, n, i) <= n
     /\ \A i \in 1..(NumChunks(n) - 1) : CBegin(var, n, i) = CEnd(var, n, i - 1)
\* the three arithmetic properties asserted of the repaired arithmetic only (runs that explore both variants at once)
RepairedArithmeticHolds == var = "fixed" => (ChunksPartition /\ PredicateOnlyInRange /\ Terminates)
OutOfRange == \E k \in 1..Len(calls) : calls[k][1] < 0 \/ calls[k][2] >= n
=============================================================================
