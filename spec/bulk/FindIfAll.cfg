SPECIFICATION Spec
CONSTANTS Lengths <- LengthsC  Variants <- VariantsC  PosMode <- PosModeC
INVARIANTS ChunksPartition PredicateOnlyInRange Terminates FindIfIsFirst
ACTION_CONSTRAINT Export
CHECK_DEADLOCK FALSE
