---- MODULE BulkLive ----
EXTENDS Bulk, Json, IOUtils
Scn == LET q == JsonDeserialize(IOEnv.BK_SCENARIOS) IN {q[k] : k \in 1..Len(q)}
====
