SPECIFICATION FairSpec
CONSTANTS Scenarios <- Scn
PROPERTY Completes
CHECK_DEADLOCK FALSE
