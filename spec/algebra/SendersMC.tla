---- MODULE SendersMC ----
(* Model-checking instance of Senders: shapes come from the catalogue JSON shared with the C++  *)
(* generator; every explored transition is exported for behaviour generation.                    *)
EXTENDS Senders, Json, IOUtils, TLCExt
ShapeSeq == JsonDeserialize(IOEnv.SHAPES)
ShapesC == {ShapeSeq[i] : i \in 1..Len(ShapeSeq)}
LeafModesC == {[inl |-> TRUE, ch |-> "v", onStop |-> "ignore"],
               [inl |-> TRUE, ch |-> "e", onStop |-> "ignore"],
               [inl |-> TRUE, ch |-> "d", onStop |-> "ignore"],
               [inl |-> FALSE, ch |-> "v", onStop |-> "ignore"],
               [inl |-> FALSE, ch |-> "v", onStop |-> "done"]}
ThrowC == IOEnv.ALLOW_THROW = "1"
StopInC == IOEnv.ALLOW_STOPIN = "1"
Obs(T) == [root |-> T.rootDone, starts |-> T.leafStarts, seen |-> T.stopSeen, fn |-> T.fnCalls]
EnvRec == [l \in Leaves \cup SchedLeaves |-> EnvOf(l)]
EdgeLog ==
  LET sq == (S.stack = <<>>)
      rec == [s |-> <<TLCFP(vars), TLCFP(<<vars, 1>>)>>, t |-> <<TLCFP(vars'), TLCFP(<<vars', 1>>)>>,
              sq |-> sq, tq |-> (S'.stack = <<>>),
              ext |-> IF sq THEN [k |-> S'.cur[1], n |-> S'.cur[2],
                                   ch |-> IF S'.cur[1] = "L" THEN Head(S'.stack).r.ch ELSE ""]
                      ELSE [k |-> "", n |-> 0, ch |-> ""],
              cfg |-> IF sq /\ ~S.everStarted /\ ~S.req[0]
                      THEN [shape |-> cfg.shape.id, mode |-> [l \in DOMAIN cfg.mode |-> cfg.mode[l]],
                            throwAt |-> cfg.throwAt, stopIn |-> cfg.stopIn,
                            leaves |-> Leaves, env |-> [l \in Leaves |-> EnvOf(l)]]
                      ELSE [shape |-> 0],
              obs |-> IF S'.stack = <<>> THEN Obs(S') ELSE [root |-> <<>>]]
  IN Serialize(ToJson(rec) \o "\n", IOEnv.EDGES,
        [format |-> "TXT", charset |-> "UTF-8", openOptions |-> <<"WRITE", "CREATE", "APPEND">>]).exitValue = 0
====
