----------------------------- MODULE FanOutRace -----------------------------
(***************************************************************************)
(* The completer election of the fan-out algorithms at atomic-step         *)
(* granularity: when_all / when_all_range (refCount_, doneOrError_) and    *)
(* stop_when (activeOpCount_), with the cancel callback registered on the  *)
(* receiver's stop token racing the completion of the last child.          *)
(*                                                                         *)
(* Threads: one completer per child (children complete from foreign        *)
(* threads; a child may instead complete with done from inside the inner   *)
(* stop source's callback, i.e. on whichever thread requests the inner     *)
(* stop), and one external stopper that runs request_stop() on the         *)
(* receiver's source.  The receiver's stop source is abstracted to the     *)
(* protocol proved by spec/stop: a callback is dequeued before it runs;    *)
(* deregistration by another thread blocks until the running callback has  *)
(* returned; deregistration from inside the callback returns at once.      *)
(*                                                                         *)
(* Algo = "when_all": N children, delivery when refCount_ drops to 0.      *)
(* Algo = "stop_when": 2 children (source, trigger), same election on      *)
(* activeOpCount_; every child completion also requests the inner stop.    *)
(* BailOut = FALSE removes the "fetch_add(1) == 0 => return" test of the   *)
(* cancel callback (a spec-level mutation that must violate the            *)
(* invariants; it documents that they are not vacuous).                    *)
(***************************************************************************)
EXTENDS Naturals, FiniteSets, Sequences, TLC

CONSTANTS Algo, N, BailOut,
          StopReactive   \* set of children that complete with done from inside the inner stop callback

Children == 1..N
X == N + 1                         \* the external stopper thread
Threads == 1..(N + 1)

VARIABLES cnt,        \* refCount_ / activeOpCount_
          doe,        \* doneOrError_ (when_all)
          innerReq,   \* inner stopSource_.stop_requested()
          cb,         \* outer cancel callback: "reg" | "running" | "ran" | "gone"
          cbThread,   \* thread executing the callback (0 = none)
          childSt,    \* [Children -> "running" | "completing" | "done"]
          delivered,  \* number of times the receiver has been completed
          opAlive,    \* FALSE once the receiver was completed (it may destroy the operation)
          bad,        \* "ok" | description of a touch after completion
          pc,         \* [Threads -> program counter]
          ret         \* [Threads -> continuation after a nested 'elem' / 'reqinner' routine]
vars == <<cnt, doe, innerReq, cb, cbThread, childSt, delivered, opAlive, bad, pc, ret>>

Init ==
  /\ cnt = N /\ doe = FALSE /\ innerReq = FALSE /\ cb = "reg" /\ cbThread = 0
  /\ childSt = [c \in Children |-> "running"]
  /\ delivered = 0 /\ opAlive = TRUE /\ bad = "ok"
  /\ pc = [t \in Threads |-> IF t = X THEN "x_req" ELSE "c_wait"]
  /\ ret = [t \in Threads |-> "end"]

Touch(what) == IF opAlive THEN bad ELSE what   \* every access to a member of the operation asserts it is alive

\* ---- a child completes from its own thread (any channel; chError = it is an error/done completion) ----
ChildBegin(c, isFail) ==
  /\ pc[c] = "c_wait" /\ childSt[c] = "running"
  /\ childSt' = [childSt EXCEPT ![c] = "completing"]
  /\ pc' = [pc EXCEPT ![c] = IF Algo = "stop_when" THEN "reqinner" ELSE IF isFail THEN "xchg" ELSE "sub"]
  /\ ret' = [ret EXCEPT ![c] = "sub"]
  /\ UNCHANGED <<cnt, doe, innerReq, cb, cbThread, delivered, opAlive, bad>>

\* doneOrError_.exchange(true): the first failure requests the inner stop
Xchg(t) ==
  /\ pc[t] = "xchg"
  /\ bad' = Touch("doneOrError_ touched after completion")
  /\ doe' = TRUE
  /\ pc' = [pc EXCEPT ![t] = IF doe THEN "sub" ELSE "reqinner"]
  /\ UNCHANGED <<cnt, innerReq, cb, cbThread, childSt, delivered, opAlive, ret>>

\* stopSource_.request_stop(): children that react to stop complete with done inline on this thread,
\* each going through its own element_complete (modelled as a nested decrement without delivery check
\* being skipped: the nested completion may itself be the last one)
ReqInner(t) ==
  /\ pc[t] = "reqinner"
  /\ bad' = Touch("stopSource_ touched after completion")
  /\ innerReq' = TRUE
  /\ LET R == {c \in StopReactive : childSt[c] = "running"} IN
     IF innerReq \/ R = {} THEN
        /\ pc' = [pc EXCEPT ![t] = ret[t]] /\ UNCHANGED <<childSt, cnt, delivered, opAlive, cb, cbThread>>
     ELSE \* one reactive child completes inline now (it re-enters request_stop as a no-op and decrements)
        LET c == CHOOSE c \in R : TRUE IN
        /\ childSt' = [childSt EXCEPT ![c] = "done"]
        /\ IF cnt = 1
           THEN \* that nested completion is the last owner: it deregisters the callback and delivers
                /\ cnt' = 0 /\ delivered' = delivered + 1 /\ opAlive' = FALSE
                /\ cb' = IF cb = "reg" THEN "gone" ELSE cb
                /\ UNCHANGED cbThread
           ELSE /\ cnt' = cnt - 1 /\ UNCHANGED <<delivered, opAlive, cb, cbThread>>
        /\ pc' = pc        \* stay in reqinner until no reactive child is left
  /\ UNCHANGED <<doe, ret>>

\* element_complete(): fetch_sub; the thread that moves the count to 0 owns delivery
Sub(t) ==
  /\ pc[t] = "sub"
  /\ bad' = Touch("refCount_ touched after completion")
  /\ cnt' = cnt - 1
  /\ IF t \in Children THEN childSt' = [childSt EXCEPT ![t] = "done"] ELSE UNCHANGED childSt
  /\ pc' = [pc EXCEPT ![t] = IF cnt = 1 THEN "dereg" ELSE IF t = X THEN "x_cbret" ELSE "end"]
  /\ UNCHANGED <<doe, innerReq, cb, cbThread, delivered, opAlive, ret>>

\* stopCallback_.destruct(): blocks while the callback runs on another thread
Dereg(t) ==
  /\ pc[t] = "dereg"
  /\ ~(cb = "running" /\ cbThread # t)
  /\ bad' = Touch("stopCallback_ touched after completion")
  /\ cb' = IF cb = "reg" THEN "gone" ELSE cb
  /\ pc' = [pc EXCEPT ![t] = "deliver"]
  /\ UNCHANGED <<cnt, doe, innerReq, cbThread, childSt, delivered, opAlive, ret>>

Deliver(t) ==
  /\ pc[t] = "deliver"
  /\ bad' = Touch("receiver_ used after completion")
  /\ delivered' = delivered + 1 /\ opAlive' = FALSE
  /\ pc' = [pc EXCEPT ![t] = IF t = X THEN "x_cbret" ELSE "end"]
  /\ UNCHANGED <<cnt, doe, innerReq, cb, cbThread, childSt, ret>>

\* ---- the external stopper: request_stop() on the receiver's source runs the cancel callback if registered ----
XReq ==
  /\ pc[X] = "x_req"
  /\ IF cb = "reg"
     THEN /\ cb' = "running" /\ cbThread' = X /\ pc' = [pc EXCEPT ![X] = "x_add"]
     ELSE /\ pc' = [pc EXCEPT ![X] = "end"] /\ UNCHANGED <<cb, cbThread>>
  /\ UNCHANGED <<cnt, doe, innerReq, childSt, delivered, opAlive, bad, ret>>

\* cancel callback: refCount_.fetch_add(1) == 0 => deliver_result already owned by someone else
XAdd ==
  /\ pc[X] = "x_add"
  /\ bad' = Touch("refCount_ touched after completion (cancel callback)")
  /\ cnt' = cnt + 1
  /\ pc' = [pc EXCEPT ![X] = IF BailOut /\ cnt = 0 THEN "x_cbret" ELSE "reqinner"]
  /\ ret' = [ret EXCEPT ![X] = "sub"]
  /\ UNCHANGED <<doe, innerReq, cb, cbThread, childSt, delivered, opAlive>>

XCbRet ==
  /\ pc[X] = "x_cbret"
  /\ cb' = (IF cb = "running" THEN "ran" ELSE cb)
  /\ cbThread' = 0
  /\ pc' = [pc EXCEPT ![X] = "end"]
  /\ UNCHANGED <<cnt, doe, innerReq, childSt, delivered, opAlive, bad, ret>>

Next == \/ \E c \in Children, f \in BOOLEAN : ChildBegin(c, f)
        \/ \E t \in Threads : Xchg(t) \/ ReqInner(t) \/ Sub(t) \/ Dereg(t) \/ Deliver(t)
        \/ XReq \/ XAdd \/ XCbRet
        \/ ((\A t \in Threads : pc[t] \in {"end", "c_wait"}) /\ UNCHANGED vars)
Spec == Init /\ [][Next]_vars
FairSpec == Spec /\ WF_vars(Next)

\* ---- properties (C01, and the lifetime clause of C02) ----
ExactlyOneDeliverer == delivered <= 1
NoTouchAfterCompletion == bad = "ok"
\* no lost completion: when every child has completed and no thread is inside the protocol, the receiver is completed
NoLostCompletion ==
  ((\A c \in Children : childSt[c] = "done") /\ (\A t \in Threads : pc[t] \in {"end", "c_wait"})) => delivered = 1
DeliveryOnlyAfterAllChildren == delivered > 0 => \A c \in Children : childSt[c] = "done"
CallbackGoneAtCompletion == delivered > 0 => cb # "reg"
CountNonNegative == cnt >= 0
=============================================================================
