SPECIFICATION Spec
CONSTANTS Algo = "when_all"  N = 2  BailOut = FALSE  StopReactive = {}
INVARIANTS ExactlyOneDeliverer NoTouchAfterCompletion NoLostCompletion DeliveryOnlyAfterAllChildren CallbackGoneAtCompletion CountNonNegative
CHECK_DEADLOCK TRUE
