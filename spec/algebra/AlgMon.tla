------------------------------- MODULE AlgMon -------------------------------
(***************************************************************************)
(* Monitor over the API-level event log of one sender operation tree       *)
(* (engine alg): CompletionMon (C01), AliveMon (C02) and the registration  *)
(* part of StopPropagationMon (C04) of DESIGN.md Appendix A.  It knows     *)
(* nothing about the shape: it accepts exactly the logs in which           *)
(*  C01  the outer receiver is completed at most once, only after start()  *)
(*       began, never when never started, and is completed once every      *)
(*       started leaf has completed and no context has work left;          *)
(*  C02  every child operation state that was constructed is destroyed     *)
(*       exactly once and never while that child is still running, every   *)
(*       tracked object is destroyed exactly once (End.live = End.bad = 0),*)
(*       every allocation is returned to the allocator it came from, and   *)
(*       nothing is connected, started or invoked after the completion     *)
(*       signal was delivered;                                             *)
(*  C04  no stop callback is still registered on the receiver's token when *)
(*       the receiver is completed, and no leaf observes a stop request    *)
(*       after the receiver was completed.                                 *)
(*  C20  (async-stack builds) the calling thread's async stack root is     *)
(*       restored at every quiescent point.                                *)
(* IOEnv.PROP selects the rule set ("ALL" = every rule).                   *)
(***************************************************************************)
EXTENDS Naturals, Sequences, FiniteSets, TLC, TraceIO
On(p) == IOEnv.PROP = p \/ IOEnv.PROP = "ALL"
LeafIds == 0..24
Tags == 0..9
VARIABLES l, started, startOpen, connectThrew, rootCount, afterRoot, leafLive, leafRunning, allocs
vars == <<l, started, startOpen, connectThrew, rootCount, afterRoot, leafLive, leafRunning, allocs>>
Fresh == /\ started = FALSE /\ startOpen = FALSE /\ connectThrew = FALSE /\ rootCount = 0 /\ afterRoot = FALSE
         /\ leafLive = [i \in LeafIds |-> 0] /\ leafRunning = [i \in LeafIds |-> FALSE]
         /\ allocs = [t \in Tags |-> 0]
Init == l = 1 /\ Fresh /\ TrackInit
E == Log[l]
Is(e) == l <= Len(Log) /\ E.e = e /\ l' = l + 1
Keep(vs) == UNCHANGED vs
Closed == TRUE    \* end-of-execution obligations are carried by the End event
Reset == /\ Is("Reset")
         /\ started' = FALSE /\ startOpen' = FALSE /\ connectThrew' = FALSE /\ rootCount' = 0 /\ afterRoot' = FALSE
         /\ leafLive' = [i \in LeafIds |-> 0] /\ leafRunning' = [i \in LeafIds |-> FALSE]
         /\ allocs' = [t \in Tags |-> 0]
Connect == Is("Connect") /\ UNCHANGED <<started, startOpen, connectThrew, rootCount, afterRoot, leafLive, leafRunning, allocs>>
ConnectThrew == Is("ConnectThrew") /\ connectThrew' = TRUE
                /\ UNCHANGED <<started, startOpen, rootCount, afterRoot, leafLive, leafRunning, allocs>>
LeafConnect == /\ Is("LeafConnect")
               /\ On("C02") => ~afterRoot
               /\ leafLive' = [leafLive EXCEPT ![E.l] = @ + 1]
               /\ UNCHANGED <<started, startOpen, connectThrew, rootCount, afterRoot, leafRunning, allocs>>
LeafOpDtor == /\ Is("LeafOpDtor")
              /\ On("C02") => (E.running = 0 /\ leafLive[E.l] > 0 /\ ~leafRunning[E.l])
              /\ leafLive' = [leafLive EXCEPT ![E.l] = IF @ > 0 THEN @ - 1 ELSE 0]
              /\ UNCHANGED <<started, startOpen, connectThrew, rootCount, afterRoot, leafRunning, allocs>>
StartBegin == /\ Is("StartBegin") /\ ~started
              /\ started' = TRUE /\ startOpen' = TRUE
              /\ UNCHANGED <<connectThrew, rootCount, afterRoot, leafLive, leafRunning, allocs>>
StartEnd == /\ Is("StartEnd") /\ startOpen' = FALSE
            /\ UNCHANGED <<started, connectThrew, rootCount, afterRoot, leafLive, leafRunning, allocs>>
LeafStart == /\ Is("LeafStart")
             /\ On("C01") => started
             /\ On("C02") => (~afterRoot /\ leafLive[E.l] > 0)
             /\ leafRunning' = [leafRunning EXCEPT ![E.l] = TRUE]
             /\ UNCHANGED <<started, startOpen, connectThrew, rootCount, afterRoot, leafLive, allocs>>
LeafStopSeen == /\ Is("LeafStopSeen")
                /\ On("C04") => ~afterRoot
                /\ On("C02") => leafRunning[E.l]
                /\ UNCHANGED <<started, startOpen, connectThrew, rootCount, afterRoot, leafLive, leafRunning, allocs>>
LeafComplete == /\ Is("LeafComplete")
                /\ leafRunning' = [leafRunning EXCEPT ![E.l] = FALSE]
                /\ UNCHANGED <<started, startOpen, connectThrew, rootCount, afterRoot, leafLive, allocs>>
SchedStart == /\ Is("SchedStart")
              /\ On("C02") => ~afterRoot
              /\ UNCHANGED <<started, startOpen, connectThrew, rootCount, afterRoot, leafLive, leafRunning, allocs>>
FnCall == /\ Is("Fn")
          /\ On("C02") => ~afterRoot
          /\ UNCHANGED <<started, startOpen, connectThrew, rootCount, afterRoot, leafLive, leafRunning, allocs>>
RootComplete == /\ Is("RootComplete")
                /\ On("C01") => (started /\ rootCount = 0)
                /\ On("C04") => E.regs = 0
                /\ rootCount' = rootCount + 1 /\ afterRoot' = TRUE
                /\ UNCHANGED <<started, startOpen, connectThrew, leafLive, leafRunning, allocs>>
Other == /\ (Is("OpDestroy") \/ Is("ExtStop"))
         /\ UNCHANGED <<started, startOpen, connectThrew, rootCount, afterRoot, leafLive, leafRunning, allocs>>
QuiescentEv == /\ Is("Quiescent")
               /\ On("C01") => ((started /\ ~connectThrew /\ E.pending = 0) => rootCount = 1)
               /\ On("C20") => E.asr = 0       \* async-stack roots are restored at every quiescent point
               /\ UNCHANGED <<started, startOpen, connectThrew, rootCount, afterRoot, leafLive, leafRunning, allocs>>
\* an allocation on an allocator nobody installed (e.g. a moved-from one, tag -2) is a C12 violation, not an evaluation error
Alloc == /\ Is("Alloc") /\ (On("C12") => E.tag \in Tags)
         /\ allocs' = IF E.tag \in Tags THEN [allocs EXCEPT ![E.tag] = @ + 1] ELSE allocs
         /\ UNCHANGED <<started, startOpen, connectThrew, rootCount, afterRoot, leafLive, leafRunning>>
Free == /\ Is("Free")
        /\ On("C12") => (E.tag \in Tags /\ allocs[E.tag] > 0)
        /\ allocs' = IF E.tag \in Tags THEN [allocs EXCEPT ![E.tag] = IF @ > 0 THEN @ - 1 ELSE 0] ELSE allocs
        /\ UNCHANGED <<started, startOpen, connectThrew, rootCount, afterRoot, leafLive, leafRunning>>
EndEv == /\ Is("End")
         /\ On("C01") => ((started /\ ~connectThrew) => E.rootCompletions = 1) /\ (~started => E.rootCompletions = 0)
         /\ On("C02") => (E.live = 0 /\ E.bad = 0 /\ \A i \in LeafIds : leafLive[i] = 0)
         /\ On("C12") => \A t \in Tags : allocs[t] = 0
         /\ UNCHANGED <<started, startOpen, connectThrew, rootCount, afterRoot, leafLive, leafRunning, allocs>>
Next == \/ Reset \/ Connect \/ ConnectThrew \/ LeafConnect \/ LeafOpDtor \/ StartBegin \/ StartEnd \/ LeafStart
        \/ LeafStopSeen \/ LeafComplete \/ SchedStart \/ FnCall \/ RootComplete \/ Other \/ QuiescentEv \/ Alloc \/ Free \/ EndEv
Spec == Init /\ [][Next]_vars
Track == TrackAt(l, Closed)
Report == ReportTrace
=============================================================================
