---- MODULE SendersMacro ----
(* Macro-step instance of Senders: one transition = one external action followed by the whole   *)
(* internal cascade up to the next quiescent state.  Same reachable quiescent states as Senders  *)
(* (the cascade is deterministic); used to export behaviours for replay on the real adaptors.    *)
EXTENDS Senders, Json, IOUtils, TLCExt
ShapeSeq == JsonDeserialize(IOEnv.SHAPES)
ShapesC == {ShapeSeq[i] : i \in 1..Len(ShapeSeq)}
LeafModesC == {[inl |-> TRUE, ch |-> "v", onStop |-> "ignore"],
               [inl |-> TRUE, ch |-> "e", onStop |-> "ignore"],
               [inl |-> TRUE, ch |-> "d", onStop |-> "ignore"],
               [inl |-> FALSE, ch |-> "v", onStop |-> "ignore"],
               [inl |-> FALSE, ch |-> "v", onStop |-> "done"]}
ThrowC == IOEnv.ALLOW_THROW = "1"
StopInC == IOEnv.ALLOW_STOPIN = "1"
MacroNext ==
  /\ UNCHANGED cfg
  /\ \/ EnStart(S) /\ S' = RunToQuiescence(ApplyStart(S))
     \/ EnStop(S) /\ S' = RunToQuiescence(ApplyStop(S))
     \/ \E l \in Leaves, ch \in {"v", "e", "d"} : EnCompleteLeaf(S, l) /\ S' = RunToQuiescence(ApplyCompleteLeaf(S, l, ch))
     \/ \E c \in Ctxs : EnRunCtx(S, c) /\ S' = RunToQuiescence(ApplyRunCtx(S, c))
     \/ \E q \in Nodes : EnInnerStop(S, q) /\ S' = RunToQuiescence(ApplyInnerStop(S, q))
MacroSpec == Init /\ [][MacroNext]_vars
Obs(T) == [root |-> T.rootDone, starts |-> T.leafStarts, seen |-> T.stopSeen, fn |-> T.fnCalls]
\* the external action is recoverable from S'.cur; the leaf channel from the leaf's completion... carried in lastCh
EdgeLog ==
  LET rec == [s |-> <<TLCFP(vars), TLCFP(<<vars, 1>>)>>, t |-> <<TLCFP(vars'), TLCFP(<<vars', 1>>)>>,
              ext |-> [k |-> S'.cur[1], n |-> S'.cur[2], ch |-> S'.lastCh],
              cfg |-> IF ~S.everStarted /\ ~S.req[0]
                      THEN [shape |-> cfg.shape.id, mode |-> {[l |-> l, m |-> cfg.mode[l]] : l \in DOMAIN cfg.mode},
                            throwAt |-> cfg.throwAt, stopIn |-> cfg.stopIn,
                            env |-> {[l |-> l, e |-> EnvOf(l)] : l \in Leaves}]
                      ELSE [shape |-> 0],
              obs |-> Obs(S')]
  IN Serialize(ToJson(rec) \o "\n", IOEnv.EDGES,
        [format |-> "TXT", charset |-> "UTF-8", openOptions |-> <<"WRITE", "CREATE", "APPEND">>]).exitValue = 0
====
