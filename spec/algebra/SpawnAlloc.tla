----------------------------- MODULE SpawnAlloc -----------------------------
(***************************************************************************)
(* Allocator clause of C12 for the spawn functions: spawn_detached and     *)
(* spawn_future obtain the memory for the spawned operation from exactly   *)
(* the allocator they are given (function form or piped form), return it   *)
(* to the same allocator, and the spawned sender's receiver answers        *)
(* get_allocator with it - so that a nested allocate() and a leaf below    *)
(* see it too.                                                             *)
(*                                                                         *)
(* A case fixes the form of the call, the allocator tag and the outcome of *)
(* the spawned leaf.  Blocks are (tag, purpose) pairs; the model allocates *)
(* the spawn block, starts the operation (nested allocate() takes a second *)
(* block from the allocator visible there), completes and frees.  Every    *)
(* state is exported with the expected observation.                        *)
(***************************************************************************)
EXTENDS Naturals, FiniteSets, Sequences, TLC
CONSTANTS Forms, Tags, Channels
VARIABLES c, phase, live, history, leafAlloc
vars == <<c, phase, live, history, leafAlloc>>
Init == /\ c \in [form : Forms, tag : Tags, ch : Channels]
        /\ phase = "init" /\ live = {} /\ history = <<>> /\ leafAlloc = 0 - 1
\* the allocator handed to the spawn function is the one visible below it
Visible == c.tag
Spawn == /\ phase = "init" /\ phase' = "spawned"
         /\ live' = live \cup {<<Visible, "spawn">>} /\ history' = Append(history, <<"alloc", Visible>>)
         /\ UNCHANGED <<c, leafAlloc>>
Start == /\ phase = "spawned" /\ phase' = "running"
         /\ live' = live \cup {<<Visible, "allocate">>} /\ history' = Append(history, <<"alloc", Visible>>)
         /\ leafAlloc' = Visible /\ UNCHANGED c
\* completion: the nested allocate() block is returned first, then the spawn block (detached: by the operation itself;
\* future: when the future is consumed/dropped - here: dropped right after the spawn)
Complete == /\ phase = "running" /\ phase' = "done"
            /\ live' = {} /\ history' = history \o << <<"free", Visible>>, <<"free", Visible>> >>
            /\ UNCHANGED <<c, leafAlloc>>
Next == Spawn \/ Start \/ Complete \/ (phase = "done" /\ UNCHANGED vars)
Spec == Init /\ [][Next]_vars
OnlyTheGivenAllocator == \A i \in 1..Len(history) : history[i][2] = c.tag
AllocatorRoundTrip == phase = "done" => live = {} /\ Cardinality({i \in 1..Len(history) : history[i][1] = "alloc"}) = Cardinality({i \in 1..Len(history) : history[i][1] = "free"})
LeafSeesIt == phase \in {"running", "done"} => leafAlloc = c.tag
=============================================================================
