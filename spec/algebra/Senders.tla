------------------------------ MODULE Senders ------------------------------
(***************************************************************************)
(* Operational semantics of libunifex sender expression trees.             *)
(*                                                                         *)
(* A configuration cfg (chosen in Init, constant afterwards) fixes a       *)
(* *shape* - a tree of adaptor nodes over controllable leaves - the        *)
(* behaviour mode of every leaf (completes inline in start() with a given  *)
(* channel | completes later, reacting to a stop request by completing     *)
(* with done or by ignoring it), an optional throwing callable and an      *)
(* optional leaf that requests stop on the outer source inside its start().*)
(*                                                                         *)
(* The state S is one record.  Nested C++ calls are modelled by a *signal  *)
(* stack* (S.stack, head = innermost call): start(n), complete(k, r) (child*)
(* k delivers result r to its parent), reqstop(s) (request_stop on stop    *)
(* source s), cbloop(s)/runcb(c) (the stop source running its callbacks),  *)
(* elem(q) (when_all/stop_when reference-count decrement), leafinl(n).     *)
(* Internal actions pop one signal; external actions (Start, CompleteLeaf,  *)
(* RequestStop, RunCtx) are enabled only when the stack is empty, so       *)
(* inline completions propagate depth-first exactly as nested calls do.    *)
(*                                                                         *)
(* Each adaptor's rule is written from doc/api_reference.md; where the     *)
(* reference is silent (result precedence of when_all under a stop request,*)
(* order in which children are started) the rule follows the code.         *)
(* Payloads are provenance lists: the id of the producing leaf followed by *)
(* the ids of the functions applied, so "arrives unmodified" and "function *)
(* ran exactly when..." are visible in the value.                          *)
(***************************************************************************)
EXTENDS Integers, Sequences, FiniteSets, TLC

CONSTANTS Shapes,       \* set of shape records (from the catalogue JSON)
          LeafModes,    \* set of leaf mode records allowed
          AllowThrow,   \* BOOLEAN: explore one throwing callable per behaviour
          AllowStopIn   \* BOOLEAN: explore a stop request issued inside a leaf's start()

VARIABLES cfg, S
vars == <<cfg, S>>

\* ------------------------------------------------------------------ static structure
Shape == cfg.shape
N == Len(Shape.kind)
Nodes == 1..N
Kind(n) == Shape.kind[n]
Kids(n) == Shape.kids[n]
Par(n) == Shape.par[n]          \* 0 for the root
Arg(n) == Shape.arg[n]          \* integer parameter (context id, retry/repeat budget, query value)
Root == Shape.root
Never == N + 1                  \* the stop source behind unstoppable_token
Sources == 0..(N + 1)
LeafKinds == {"leaf", "leafv"}
Leaves == {n \in Nodes : Kind(n) \in LeafKinds}
SchedLeaves == {n \in Nodes : Kind(n) = "sched"}
OwnsSource(n) == Kind(n) \in {"when_all", "when_all_range", "when_any", "stop_when"}     \* reference-counted fan-out with an own stop source
HasSource(n) == OwnsSource(n) \/ Kind(n) = "lvwss"                       \* ... plus let_value_with_stop_source
FnKinds == {"then", "thenv", "upon_error", "upon_done", "let_value", "let_error", "let_done",
            "retry_when", "repeat_effect_until", "just_from", "defer"}
FnNodes == {n \in Nodes : Kind(n) \in FnKinds}
Ctxs == {Arg(n) : n \in SchedLeaves}
Idx(q, k) == CHOOSE i \in 1..Len(Kids(q)) : Kids(q)[i] = k
RECURSIVE Desc(_)
Desc(n) == UNION {{Kids(n)[i]} \cup Desc(Kids(n)[i]) : i \in 1..Len(Kids(n))}
\* the stop source whose token the receiver given to node n exposes
RECURSIVE TokenOf(_)
TokenOf(n) == LET q == Par(n) IN
              IF q = 0 THEN 0
              ELSE IF HasSource(q) THEN q
              ELSE IF Kind(q) = "unstoppable" THEN Never
              ELSE TokenOf(q)
\* does a request on source s reach (through forwarding callbacks) the token seen by node n ?
RECURSIVE Reaches(_, _)
Reaches(s, t) == IF t = s THEN TRUE
                 ELSE IF t = 0 \/ t = Never THEN FALSE
                 ELSE Reaches(s, TokenOf(t))
\* environment visible through the receiver given to node n (C12): inherited unchanged except at the documented
\* replacers; any_sender_of<...> (declared without query CPOs) forwards none of scheduler / allocator / custom query
RECURSIVE SchedOf(_)
SchedOf(n) == LET q == Par(n) IN
              IF q = 0 THEN 0 ELSE IF Kind(q) = "wsched" THEN Arg(q)
              ELSE IF Kind(q) = "any" THEN 0 - 1 ELSE SchedOf(q)
RECURSIVE QueryOf(_)
QueryOf(n) == LET q == Par(n) IN
              IF q = 0 THEN 0 ELSE IF Kind(q) = "wqv" THEN Arg(q)
              ELSE IF Kind(q) = "any" THEN 0 - 1 ELSE QueryOf(q)
RECURSIVE AllocOf(_)
AllocOf(n) == LET q == Par(n) IN
              IF q = 0 THEN 0 ELSE IF Kind(q) = "walloc" THEN Arg(q)
              ELSE IF Kind(q) = "any" THEN 0 - 1 ELSE AllocOf(q)
EnvOf(n) == [sched |-> SchedOf(n), query |-> QueryOf(n), alloc |-> AllocOf(n),
             stoppable |-> (TokenOf(n) # Never)]

\* ------------------------------------------------------------------ values
NONE == [ch |-> "none", p |-> <<>>]
Val(p) == [ch |-> "v", p |-> p]
Err(p) == [ch |-> "e", p |-> p]
Done == [ch |-> "d", p |-> <<>>]
Thrown(q) == Err(<<0 - q>>)
Sig(k, n, r) == [k |-> k, n |-> n, r |-> r]
Mode(l) == cfg.mode[l]

\* ------------------------------------------------------------------ state helpers
Repl(T, frames) == [T EXCEPT !.stack = frames \o Tail(@)]   \* replace the popped head by new frames
ReqOf(T, s) == IF s = Never THEN FALSE ELSE T.req[s]
Dereg(T, s, c) == IF s = Never THEN T ELSE [T EXCEPT !.cbs[s] = SelectSeq(@, LAMBDA x : x # c)]
\* registration of node c's stop callback on source s: runs inline if stop was already requested
RegFrames(T, s, c) == IF ReqOf(T, s) THEN <<Sig("runcb", c, NONE)>> ELSE <<>>
Reg(T, s, c) == IF s = Never \/ ReqOf(T, s) THEN T ELSE [T EXCEPT !.cbs[s] = <<c>> \o @]
ResetSub(T, k) ==    \* a re-connected subtree gets fresh operation states (iter is NOT reset: the retry / repeat
                     \* budgets are counters owned by the user's callables, which outlive the operation states)
  LET D == {k} \cup Desc(k) IN
  [T EXCEPT !.st = [n \in Nodes |-> IF n \in D THEN "idle" ELSE T.st[n]],
            !.cnt = [n \in Nodes |-> IF n \in D THEN 0 ELSE T.cnt[n]],
            !.doe = [n \in Nodes |-> IF n \in D THEN NONE ELSE T.doe[n]],
            !.first = [n \in Nodes |-> IF n \in D THEN NONE ELSE T.first[n]],
            !.compl = [n \in Nodes |-> IF n \in D THEN 0 ELSE T.compl[n]],
            !.slot = [n \in Nodes |-> IF n \in D THEN [i \in 1..Len(Kids(n)) |-> NONE] ELSE T.slot[n]],
            !.req = [s \in Sources |-> IF s \in D THEN FALSE ELSE T.req[s]]]
Concat(T, q) == LET RECURSIVE C(_)
                    C(i) == IF i > Len(Kids(q)) THEN <<>> ELSE T.slot[q][i].p \o C(i + 1)
                IN C(1)

InitS ==
  [st |-> [n \in Nodes |-> "idle"],
   stack |-> <<>>,
   req |-> [s \in Sources |-> FALSE],
   cbs |-> [s \in Sources |-> <<>>],
   cnt |-> [n \in Nodes |-> 0],
   slot |-> [n \in Nodes |-> [i \in 1..Len(Kids(n)) |-> NONE]],
   doe |-> [n \in Nodes |-> NONE],
   first |-> [n \in Nodes |-> NONE],
   iter |-> [n \in Nodes |-> 0],
   compl |-> [n \in Nodes |-> 0],        \* completions of the current instance of node n
   stopSeen |-> {},                      \* leaves (current instance) whose stop callback ran
   ctxq |-> [c \in Ctxs |-> <<>>],       \* manual scheduler queues
   cur |-> <<"-", 0>>, lastCh |-> "",                         \* context of the running cascade
   everStarted |-> FALSE,
   \* histories (observable through the harness)
   rootDone |-> <<>>,                    \* [r, ctx, regs] per completion delivered to the outer receiver
   fnCalls |-> <<>>,                     \* <<node, payload seen>> per user callable invocation
   leafStarts |-> <<>>]                  \* [l, ctx, stopped] per leaf/schedule start

Init ==
  /\ \E sh \in Shapes :
       LET lv == {n \in 1..Len(sh.kind) : sh.kind[n] \in LeafKinds}
           fn == {n \in 1..Len(sh.kind) : sh.kind[n] \in FnKinds} IN
       \E m \in [lv -> LeafModes] :
       \E th \in (IF AllowThrow THEN {0} \cup fn ELSE {0}) :
       \E si \in (IF AllowStopIn THEN {0} \cup lv ELSE {0}) :
          cfg = [shape |-> sh, mode |-> m, throwAt |-> th, stopIn |-> si]
  /\ S = InitS

\* ------------------------------------------------------------------ internal steps
\* user callable of node q applied (or throwing)
CallFn(T, q, p) == [T EXCEPT !.fnCalls = Append(@, <<q, p>>)]

DoStart(T, n) ==
  LET T0 == [T EXCEPT !.st[n] = "started", !.compl[n] = 0]
      t == TokenOf(n)
      K == Kind(n) IN
  CASE K \in LeafKinds ->
         LET T1 == [T0 EXCEPT !.leafStarts = Append(@, [l |-> n, ctx |-> T.cur, stopped |-> ReqOf(T, t)]),
                              !.stopSeen = @ \ {n}] IN
         Repl(Reg(T1, t, n),
              RegFrames(T, t, n)
              \o (IF cfg.stopIn = n THEN <<Sig("reqstop", 0, NONE)>> ELSE <<>>)
              \o (IF Mode(n).inl THEN <<Sig("leafinl", n, NONE)>> ELSE <<>>))
    [] K = "sched" ->
         Repl([T0 EXCEPT !.ctxq[Arg(n)] = Append(@, n),
                         !.leafStarts = Append(@, [l |-> n, ctx |-> T.cur, stopped |-> ReqOf(T, t)])], <<>>)
    [] K = "just" -> Repl(T0, <<Sig("complete", n, Val(<<n>>))>>)
    [] K = "justv" -> Repl(T0, <<Sig("complete", n, Val(<<>>))>>)
    [] K = "just_error" -> Repl(T0, <<Sig("complete", n, Err(<<n>>))>>)
    [] K = "just_done" -> Repl(T0, <<Sig("complete", n, Done)>>)
    [] K = "just_void_or_done" -> Repl(T0, <<Sig("complete", n, IF Arg(n) = 1 THEN Val(<<>>) ELSE Done)>>)
    [] K = "just_from" ->
         Repl(CallFn(T0, n, <<>>), <<Sig("complete", n, IF cfg.throwAt = n THEN Thrown(n) ELSE Val(<<n>>))>>)
    [] K = "defer" ->     \* (let_value_with invokes its function at connect time: an identity node here)
         IF cfg.throwAt = n THEN Repl(CallFn(T0, n, <<>>), <<Sig("complete", n, Thrown(n))>>)
         ELSE Repl(CallFn(T0, n, <<>>), <<Sig("start", Kids(n)[1], NONE)>>)
    [] K = "variant" -> Repl(T0, <<Sig("start", Kids(n)[Arg(n)], NONE)>>)
    [] K = "lvwss" ->       \* let_value_with_stop_source: own source, fused with the receiver's token while running
         LET T1 == [T0 EXCEPT !.req[n] = FALSE] IN
         Repl(Reg(T1, t, n), RegFrames(T, t, n) \o <<Sig("start", Kids(n)[1], NONE)>>)
    [] K = "stop_if_requested" ->
         Repl(T0, <<Sig("complete", n, IF ReqOf(T, t) THEN Done ELSE Val(<<>>))>>)
    [] K = "when_all_range" /\ Len(Kids(n)) = 0 -> Repl(T0, <<Sig("complete", n, Val(<<>>))>>)   \* empty range: immediate value
    [] OwnsSource(n) ->
         LET T1 == [T0 EXCEPT !.cnt[n] = Len(Kids(n)), !.req[n] = FALSE, !.doe[n] = NONE, !.first[n] = NONE,
                              !.slot[n] = [i \in 1..Len(Kids(n)) |-> NONE]] IN
         Repl(Reg(T1, t, n),
              RegFrames(T, t, n) \o [i \in 1..Len(Kids(n)) |-> Sig("start", Kids(n)[i], NONE)])
    [] OTHER -> Repl(T0, <<Sig("start", Kids(n)[1], NONE)>>)

\* an inline leaf completes inside start() unless its stop callback already completed it
DoLeafInl(T, n) ==
  IF T.st[n] = "started"
  THEN Repl(Dereg(T, TokenOf(n), n),
            <<Sig("complete", n, CASE Mode(n).ch = "v" -> Val(IF Kind(n) = "leafv" THEN <<>> ELSE <<n>>)
                                   [] Mode(n).ch = "e" -> Err(<<n>>)
                                   [] OTHER -> Done)>>)
  ELSE Repl(T, <<>>)

DoComplete(T, k, r) ==
  LET T0 == [T EXCEPT !.st[k] = "done", !.compl[k] = @ + 1]
      q == Par(k) IN
  IF q = 0 THEN
    Repl([T0 EXCEPT !.rootDone = Append(@, [r |-> r, ctx |-> T.cur, regs |-> Len(T.cbs[0])])], <<>>)
  ELSE
    LET K == Kind(q)
        i == Idx(q, k)
        Fwd == Repl(T0, <<Sig("complete", q, r)>>)
        Throws == cfg.throwAt = q IN
    CASE K = "then" ->
           IF r.ch = "v"
           THEN IF Throws THEN Repl(CallFn(T0, q, r.p), <<Sig("complete", q, Thrown(q))>>)
                ELSE Repl(CallFn(T0, q, r.p), <<Sig("complete", q, Val(r.p \o <<q>>))>>)
           ELSE Fwd
      [] K = "thenv" ->
           IF r.ch = "v"
           THEN IF Throws THEN Repl(CallFn(T0, q, r.p), <<Sig("complete", q, Thrown(q))>>)
                ELSE Repl(CallFn(T0, q, r.p), <<Sig("complete", q, Val(<<>>))>>)
           ELSE Fwd
      [] K = "upon_error" ->
           IF r.ch = "e"
           THEN IF Throws THEN Repl(CallFn(T0, q, r.p), <<Sig("complete", q, Thrown(q))>>)
                ELSE Repl(CallFn(T0, q, r.p), <<Sig("complete", q, Val(r.p \o <<q>>))>>)
           ELSE Fwd
      [] K = "upon_done" ->
           IF r.ch = "d"
           THEN IF Throws THEN Repl(CallFn(T0, q, <<>>), <<Sig("complete", q, Thrown(q))>>)
                ELSE Repl(CallFn(T0, q, <<>>), <<Sig("complete", q, Val(<<q>>))>>)
           ELSE Fwd
      [] K \in {"let_value", "let_error", "let_done"} ->
           LET trig == (K = "let_value" /\ r.ch = "v") \/ (K = "let_error" /\ r.ch = "e")
                       \/ (K = "let_done" /\ r.ch = "d") IN
           IF i = 1 /\ trig
           THEN IF Throws THEN Repl(CallFn(T0, q, r.p), <<Sig("complete", q, Thrown(q))>>)
                ELSE Repl(CallFn(T0, q, r.p), <<Sig("start", Kids(q)[2], NONE)>>)
           ELSE Fwd
      [] K = "finally" ->
           IF i = 1
           THEN Repl([T0 EXCEPT !.slot[q][1] = r], <<Sig("start", Kids(q)[2], NONE)>>)
           ELSE Repl(T0, <<Sig("complete", q, IF r.ch = "v" THEN T0.slot[q][1] ELSE r)>>)
      [] K = "sequence" ->
           IF i < Len(Kids(q)) /\ r.ch = "v"
           THEN Repl(T0, <<Sig("start", Kids(q)[i + 1], NONE)>>)
           ELSE Fwd
      [] K \in {"when_all", "when_all_range"} ->
           IF r.ch = "v"
           THEN Repl([T0 EXCEPT !.slot[q][i] = r], <<Sig("elem", q, NONE)>>)
           ELSE IF T0.doe[q] = NONE
                THEN Repl([T0 EXCEPT !.doe[q] = r], <<Sig("reqstop", q, NONE), Sig("elem", q, NONE)>>)
                ELSE Repl(T0, <<Sig("elem", q, NONE)>>)
      [] K = "when_any" ->
           IF T0.first[q] = NONE
           THEN Repl([T0 EXCEPT !.first[q] = r], <<Sig("reqstop", q, NONE), Sig("elem", q, NONE)>>)
           ELSE Repl(T0, <<Sig("elem", q, NONE)>>)
      [] K = "stop_when" ->
           Repl(IF i = 1 THEN [T0 EXCEPT !.slot[q][1] = r] ELSE T0,
                <<Sig("reqstop", q, NONE), Sig("elem", q, NONE)>>)
      [] K = "retry_when" ->
           IF i = 1 THEN
             IF r.ch = "e"
             THEN IF Throws THEN Repl(CallFn(T0, q, r.p), <<Sig("complete", q, Thrown(q))>>)
                  ELSE IF T0.iter[q] >= Arg(q)             \* handler rethrows the error
                  THEN Repl(CallFn(T0, q, r.p), <<Sig("complete", q, r)>>)
                  ELSE Repl(ResetSub([CallFn(T0, q, r.p) EXCEPT !.iter[q] = @ + 1], Kids(q)[2]),
                            <<Sig("start", Kids(q)[2], NONE)>>)
             ELSE Fwd
           ELSE IF r.ch = "v"
                THEN Repl(ResetSub(T0, Kids(q)[1]), <<Sig("start", Kids(q)[1], NONE)>>)
                ELSE Fwd
      [] K = "repeat_effect_until" ->
           IF r.ch = "v"
           THEN IF Throws THEN Repl(CallFn(T0, q, <<>>), <<Sig("complete", q, Thrown(q))>>)
                ELSE IF T0.iter[q] >= Arg(q)               \* predicate returns true
                THEN Repl(CallFn(T0, q, <<>>), <<Sig("complete", q, Val(<<>>))>>)
                ELSE Repl(ResetSub([CallFn(T0, q, <<>>) EXCEPT !.iter[q] = @ + 1], Kids(q)[1]),
                          <<Sig("start", Kids(q)[1], NONE)>>)
           ELSE Fwd
      [] K = "lvwss" -> Repl(Dereg(T0, TokenOf(q), q), <<Sig("complete", q, r)>>)
      [] K = "done_as_optional" ->
           IF r.ch = "d" THEN Repl(T0, <<Sig("complete", q, Val(<<0>>))>>) ELSE Fwd
      [] OTHER -> Fwd     \* mat (dematerialize o materialize), into_variant, unstoppable, wqv, wsched, walloc, any

\* element_complete / notify_*_complete: the last one deregisters the stop callback and delivers
DoElem(T, q) ==
  LET T0 == [T EXCEPT !.cnt[q] = @ - 1] IN
  IF T.cnt[q] = 1
  THEN Repl(Dereg(T0, TokenOf(q), q),
            <<Sig("complete", q,
                CASE Kind(q) = "stop_when" -> T.slot[q][1]
                  [] Kind(q) = "when_any" -> T.first[q]
                  \* when_all_range does not consult the receiver's stop token when it delivers
                  [] Kind(q) = "when_all_range" -> IF T.doe[q] # NONE THEN T.doe[q] ELSE Val(Concat(T, q))
                  [] OTHER -> IF ReqOf(T, TokenOf(q)) THEN Done
                              ELSE IF T.doe[q] # NONE THEN T.doe[q]
                              ELSE Val(Concat(T, q)))>>)
  ELSE Repl(T0, <<>>)

DoReqStop(T, s) ==
  IF s = Never \/ T.req[s] THEN Repl(T, <<>>)
  ELSE Repl([T EXCEPT !.req[s] = TRUE], <<Sig("cbloop", s, NONE)>>)

DoCbLoop(T, s) ==
  IF T.cbs[s] = <<>> THEN Repl(T, <<>>)
  ELSE Repl([T EXCEPT !.cbs[s] = Tail(@)], <<Sig("runcb", Head(T.cbs[s]), NONE), Sig("cbloop", s, NONE)>>)

DoRunCb(T, c) ==
  IF Kind(c) \in LeafKinds
  THEN LET T0 == [T EXCEPT !.stopSeen = @ \cup {c}] IN
       IF Mode(c).onStop = "done" /\ T.st[c] = "started" /\ ~Mode(c).inl
       THEN Repl(T0, <<Sig("complete", c, Done)>>)
       ELSE Repl(T0, <<>>)
  ELSE IF Kind(c) = "lvwss" THEN Repl(T, <<Sig("reqstop", c, NONE)>>)
  ELSE \* cancel callback of when_all / when_any / stop_when
       IF T.cnt[c] = 0 THEN Repl(T, <<>>)
       ELSE Repl([T EXCEPT !.cnt[c] = @ + 1], <<Sig("reqstop", c, NONE), Sig("elem", c, NONE)>>)

\* one internal step as a function of the state
StepOf(T) ==
  LET top == Head(T.stack) IN
  CASE top.k = "start" -> DoStart(T, top.n)
    [] top.k = "leafinl" -> DoLeafInl(T, top.n)
    [] top.k = "complete" -> DoComplete(T, top.n, top.r)
    [] top.k = "elem" -> DoElem(T, top.n)
    [] top.k = "reqstop" -> DoReqStop(T, top.n)
    [] top.k = "cbloop" -> DoCbLoop(T, top.n)
    [] top.k = "runcb" -> DoRunCb(T, top.n)

Internal ==
  /\ S.stack # <<>>
  /\ S' = StepOf(S)
  /\ UNCHANGED cfg

\* the whole cascade up to the next quiescent state (used by the macro-step instance)
RECURSIVE RunToQuiescence(_)
RunToQuiescence(T) == IF T.stack = <<>> THEN T ELSE RunToQuiescence(StepOf(T))

\* ------------------------------------------------------------------ external actions
Quiescent == S.stack = <<>>
LeafResult(l, ch) == CASE ch = "v" -> Val(IF Kind(l) = "leafv" THEN <<>> ELSE <<l>>)
                       [] ch = "e" -> Err(<<l>>)
                       [] OTHER -> Done
\* enabling conditions and effects as functions of a quiescent state T (shared with the macro-step instance)
EnStart(T) == ~T.everStarted
ApplyStart(T) == [T EXCEPT !.stack = <<Sig("start", Root, NONE)>>, !.cur = <<"S", 0>>, !.lastCh = "", !.everStarted = TRUE]
EnCompleteLeaf(T, l) == T.st[l] = "started" /\ ~Mode(l).inl
ApplyCompleteLeaf(T, l, ch) ==
  [Dereg(T, TokenOf(l), l) EXCEPT !.stack = <<Sig("complete", l, LeafResult(l, ch))>>, !.cur = <<"L", l>>, !.lastCh = ch]
EnStop(T) == ~T.req[0] /\ cfg.stopIn = 0
ApplyStop(T) == [T EXCEPT !.stack = <<Sig("reqstop", 0, NONE)>>, !.cur = <<"X", 0>>, !.lastCh = ""]
EnRunCtx(T, c) == T.ctxq[c] # <<>>
\* drain one item of a manual scheduler context: the schedule operation completes on that context
ApplyRunCtx(T, c) ==
  LET n == Head(T.ctxq[c]) IN
  [T EXCEPT !.ctxq[c] = Tail(@), !.cur = <<"C", c>>, !.lastCh = "",
            !.stack = IF T.st[n] = "started"
                      THEN <<Sig("complete", n, IF ReqOf(T, TokenOf(n)) THEN Done ELSE Val(<<>>))>>
                      ELSE <<>>]

\* user code requests stop on the source handed out by let_value_with_stop_source
EnInnerStop(T, q) == Kind(q) = "lvwss" /\ T.st[q] = "started" /\ ~T.req[q]
ApplyInnerStop(T, q) == [T EXCEPT !.stack = <<Sig("reqstop", q, NONE)>>, !.cur = <<"I", q>>, !.lastCh = ""]
ExtInnerStop(q) == Quiescent /\ EnInnerStop(S, q) /\ S' = ApplyInnerStop(S, q) /\ UNCHANGED cfg

ExtStart == Quiescent /\ EnStart(S) /\ S' = ApplyStart(S) /\ UNCHANGED cfg
ExtCompleteLeaf(l, ch) == Quiescent /\ EnCompleteLeaf(S, l) /\ S' = ApplyCompleteLeaf(S, l, ch) /\ UNCHANGED cfg
ExtStop == Quiescent /\ EnStop(S) /\ S' = ApplyStop(S) /\ UNCHANGED cfg
ExtRunCtx(c) == Quiescent /\ EnRunCtx(S, c) /\ S' = ApplyRunCtx(S, c) /\ UNCHANGED cfg

External == \/ ExtStart \/ ExtStop
            \/ \E l \in Leaves, ch \in {"v", "e", "d"} : ExtCompleteLeaf(l, ch)
            \/ \E c \in Ctxs : ExtRunCtx(c)
            \/ \E q \in Nodes : ExtInnerStop(q)
Next == Internal \/ External
Spec == Init /\ [][Next]_vars
\* fairness only on internal cascades and on draining contexts: leaves and the stop request are the environment's
FairSpec == Spec /\ WF_vars(Internal) /\ \A c \in 1..3 : WF_vars(c \in Ctxs /\ ExtRunCtx(c))

\* ------------------------------------------------------------------ properties
RootStarted == S.st[Root] # "idle" \/ S.rootDone # <<>>
NothingPending == /\ \A l \in Leaves : S.st[l] # "started"
                  /\ \A c \in Ctxs : S.ctxq[c] = <<>>
\* C01
CompletedAtMostOnce == Len(S.rootDone) <= 1
NodeCompletesAtMostOnce == \A n \in Nodes : S.compl[n] <= 1
NoCompletionBeforeStart == S.rootDone # <<>> => S.everStarted
NeverStartedNeverCompletes == (\A n \in Nodes : S.compl[n] > 0 => S.st[n] # "idle")
NoLostCompletion == (Quiescent /\ S.everStarted /\ NothingPending) => Len(S.rootDone) = 1
\* C04
NoRegistrationAtCompletion == \A i \in 1..Len(S.rootDone) : S.rootDone[i].regs = 0
StopReachesRunningLeaves ==
  Quiescent => \A s \in Sources \ {Never} : S.req[s] =>
                 \A l \in Leaves : (S.st[l] = "started" /\ Reaches(s, TokenOf(l))) => l \in S.stopSeen
LosersAreStopped ==
  Quiescent => \A q \in Nodes :
     (/\ S.st[q] = "started" /\ OwnsSource(q)
      /\ \/ (Kind(q) \in {"when_all", "when_all_range"} /\ S.doe[q] # NONE) \/ (Kind(q) = "when_any" /\ S.first[q] # NONE)
         \/ (Kind(q) = "stop_when" /\ S.cnt[q] < 2)) => S.req[q]
\* C05: a sequenced successor starts only after its predecessor finished
SequencedStepsDoNotOverlap ==
  \A q \in Nodes :
     Kind(q) \in {"sequence", "let_value", "let_error", "let_done", "finally", "retry_when"} =>
        \A i \in 2..Len(Kids(q)) : S.st[Kids(q)[i]] = "started" =>
            \A j \in 1..(i - 1) : S.st[Kids(q)[j]] # "started"
\* C11: via/on are sequence/finally over a manual-context schedule: anything that a schedule completion
\* starts or completes runs on that context (cur = "C" during that cascade) - checked on the histories by the harness
Termination == <>(Quiescent /\ (S.everStarted => (NothingPending => Len(S.rootDone) = 1)))
=============================================================================
