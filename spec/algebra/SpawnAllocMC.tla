---- MODULE SpawnAllocMC ----
EXTENDS SpawnAlloc, Json, IOUtils, TLCExt
FormsC == {"detached_fn", "detached_pipe", "future_fn", "future_pipe"}
TagsC == {3, 4}
ChannelsC == {"v", "d"}
EdgeLog ==
  (phase' = "done" /\ phase # "done") =>
     Serialize(ToJson([form |-> c.form, tag |-> c.tag, ch |-> c.ch, allocs |-> Len(SelectSeq(history', LAMBDA h : h[1] = "alloc")),
                       frees |-> Len(SelectSeq(history', LAMBDA h : h[1] = "free")), leafAlloc |-> leafAlloc']) \o "\n", IOEnv.EDGES,
        [format |-> "TXT", charset |-> "UTF-8", openOptions |-> <<"WRITE", "CREATE", "APPEND">>]).exitValue = 0
====
