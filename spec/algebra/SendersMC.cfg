SPECIFICATION Spec
CONSTANTS Shapes <- ShapesC  LeafModes <- LeafModesC  AllowThrow <- ThrowC  AllowStopIn <- StopInC
INVARIANTS CompletedAtMostOnce NodeCompletesAtMostOnce NoCompletionBeforeStart NeverStartedNeverCompletes NoLostCompletion NoRegistrationAtCompletion StopReachesRunningLeaves LosersAreStopped SequencedStepsDoNotOverlap
CHECK_DEADLOCK FALSE
