SPECIFICATION MacroSpec
CONSTANTS Shapes <- ShapesC  LeafModes <- LeafModesC  AllowThrow <- ThrowC  AllowStopIn <- StopInC
INVARIANTS CompletedAtMostOnce NodeCompletesAtMostOnce NoCompletionBeforeStart NoLostCompletion NoRegistrationAtCompletion StopReachesRunningLeaves LosersAreStopped SequencedStepsDoNotOverlap
ACTION_CONSTRAINT EdgeLog
CHECK_DEADLOCK FALSE
