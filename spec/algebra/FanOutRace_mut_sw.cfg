SPECIFICATION Spec
CONSTANTS Algo = "stop_when"  N = 2  BailOut = FALSE  StopReactive = {}
INVARIANTS ExactlyOneDeliverer NoTouchAfterCompletion NoLostCompletion DeliveryOnlyAfterAllChildren CallbackGoneAtCompletion CountNonNegative
CHECK_DEADLOCK TRUE
