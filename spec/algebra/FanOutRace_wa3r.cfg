SPECIFICATION Spec
CONSTANTS Algo = "when_all"  N = 3  BailOut = TRUE  StopReactive = {2, 3}
INVARIANTS ExactlyOneDeliverer NoTouchAfterCompletion NoLostCompletion DeliveryOnlyAfterAllChildren CallbackGoneAtCompletion CountNonNegative
CHECK_DEADLOCK TRUE
