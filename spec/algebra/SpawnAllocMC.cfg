SPECIFICATION Spec
CONSTANTS Forms <- FormsC  Tags <- TagsC  Channels <- ChannelsC
INVARIANTS OnlyTheGivenAllocator AllocatorRoundTrip LeafSeesIt
ACTION_CONSTRAINT EdgeLog
CHECK_DEADLOCK FALSE
