SPECIFICATION Spec
CONSTANTS Algo = "when_all"  N = 2  BailOut = TRUE  StopReactive = {2}
INVARIANTS ExactlyOneDeliverer NoTouchAfterCompletion NoLostCompletion DeliveryOnlyAfterAllChildren CallbackGoneAtCompletion CountNonNegative
CHECK_DEADLOCK TRUE
