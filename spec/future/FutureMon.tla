----------------------------- MODULE FutureMon -----------------------------
(***************************************************************************)
(* The C09 monitor: the most permissive behaviour over API-level events of *)
(* spawn_future / spawn_detached that still satisfies the property.  It is *)
(* evaluated by TLC on an ndjson log recorded from the real code (many     *)
(* executions, separated by Reset).  Nothing here refers to state_, the    *)
(* event, CAS order or which thread frees the block.                       *)
(*                                                                         *)
(* Events (fields e, f = future/spawn id, ch, v, t, r):                    *)
(*  SpawnBegin(f, v=injected fault, r=scope closed 0|1|2) SpawnEnd(f,r=threw)*)
(*  DetachBegin/DetachEnd (same, spawn_detached)                           *)
(*  Alloc(v=allocator tag, r=block) Free(v=tag of the deallocating allocator, r=block) *)
(*  OpCreated(f) OpDestroyed(f) (the spawned operation state, which lives inside the shared block)  *)
(*  OpStart(f) OpStopSeen(f) OpCompleteBegin(f,ch,v,r=stop visible to the op) OpCompleteEnd(f) *)
(*  FutConnectBegin/End(f) FutStartBegin/End(f) FutStopBegin/End(f)        *)
(*  FutDropBegin/End(f) (future or its unstarted operation destroyed; move-assigned over) *)
(*  FutComplete(f,ch,v)  Joined(r)  End(v=live tracked values, r=bad value events) *)
(*  Terminate, ChildExit(r=exit code) (spawn_detached error run in a child)*)
(***************************************************************************)
EXTENDS Naturals, Sequences, FiniteSets, TLC, TraceIO
F == {1, 2}
VARIABLES l, sp, kind, closed, fault, nalloc, opLife, opStarted, opPh, opCh, opV,
          conn, start, stop, drop, opEndBeforeAwait, stopBeforeOpEnd, done,
          live, joined, ended, term, child
vars == <<l, sp, kind, closed, fault, nalloc, opLife, opStarted, opPh, opCh, opV, conn, start, stop, drop,
          opEndBeforeAwait, stopBeforeOpEnd, done, live, joined, ended, term, child>>
per == <<sp, kind, closed, fault, nalloc, opLife, opStarted, opPh, opCh, opV, conn, start, stop, drop,
         opEndBeforeAwait, stopBeforeOpEnd, done>>
Fresh == /\ sp = [f \in F |-> "none"] /\ kind = [f \in F |-> "fut"] /\ closed = [f \in F |-> 0]
         /\ fault = [f \in F |-> 0] /\ nalloc = [f \in F |-> 0] /\ opLife = [f \in F |-> "none"] /\ opStarted = [f \in F |-> FALSE]
         /\ opPh = [f \in F |-> "none"] /\ opCh = [f \in F |-> "none"] /\ opV = [f \in F |-> 0]
         /\ conn = [f \in F |-> "none"] /\ start = [f \in F |-> "none"] /\ stop = [f \in F |-> "none"]
         /\ drop = [f \in F |-> "none"] /\ opEndBeforeAwait = [f \in F |-> FALSE]
         /\ stopBeforeOpEnd = [f \in F |-> FALSE] /\ done = [f \in F |-> 0]
         /\ live = {} /\ joined = FALSE /\ ended = FALSE /\ term = FALSE /\ child = FALSE
Init == l = 1 /\ Fresh /\ TrackInit
E == Log[l]
Is(e) == l <= Len(Log) /\ E.e = e /\ l' = l + 1
Up(fn, v) == [fn EXCEPT ![E.f] = v]
\* end-of-execution obligations: the execution reached its End event (or the child's exit was reported)
Closed == ended \/ child \/ (\A f \in F : sp[f] = "none")
Reset == /\ Is("Reset") /\ Closed
         /\ sp' = [f \in F |-> "none"] /\ kind' = [f \in F |-> "fut"] /\ closed' = [f \in F |-> 0]
         /\ fault' = [f \in F |-> 0] /\ nalloc' = [f \in F |-> 0] /\ opLife' = [f \in F |-> "none"] /\ opStarted' = [f \in F |-> FALSE]
         /\ opPh' = [f \in F |-> "none"] /\ opCh' = [f \in F |-> "none"] /\ opV' = [f \in F |-> 0]
         /\ conn' = [f \in F |-> "none"] /\ start' = [f \in F |-> "none"] /\ stop' = [f \in F |-> "none"]
         /\ drop' = [f \in F |-> "none"] /\ opEndBeforeAwait' = [f \in F |-> FALSE]
         /\ stopBeforeOpEnd' = [f \in F |-> FALSE] /\ done' = [f \in F |-> 0]
         /\ live' = {} /\ joined' = FALSE /\ ended' = FALSE /\ term' = FALSE /\ child' = FALSE
Keep(vs) == UNCHANGED vs
SpawnBegin(k, e) ==
  /\ Is(e) /\ sp[E.f] = "none" /\ ~ended
  /\ sp' = Up(sp, "begun") /\ kind' = Up(kind, k) /\ closed' = Up(closed, E.r) /\ fault' = Up(fault, E.v)
  /\ UNCHANGED <<nalloc, opLife, opStarted, opPh, opCh, opV, conn, start, stop, drop, opEndBeforeAwait, stopBeforeOpEnd, done, live, joined, ended, term, child>>
\* strong guarantee: an injected failure propagates and leaves nothing behind; without a failure nothing is thrown
SpawnEnd(e) ==
  /\ Is(e) /\ sp[E.f] = "begun"
  /\ (E.r = 1) <=> (fault[E.f] # 0)
  /\ (E.r = 1) => (~opStarted[E.f] /\ ~\E b \in live : b[1] = E.f)
  /\ sp' = Up(sp, IF E.r = 1 THEN "threw" ELSE "ok")
  /\ UNCHANGED <<kind, closed, fault, nalloc, opLife, opStarted, opPh, opCh, opV, conn, start, stop, drop, opEndBeforeAwait, stopBeforeOpEnd, done, live, joined, ended, term, child>>
\* one shared block per spawn, allocated during the spawn call, from the allocator handed to it
Alloc == /\ Is("Alloc") /\ E.v \in F /\ sp[E.v] = "begun" /\ nalloc[E.v] = 0 /\ <<E.v, E.r>> \notin live
         /\ live' = live \cup {<<E.v, E.r>>} /\ nalloc' = [nalloc EXCEPT ![E.v] = 1]
         /\ UNCHANGED <<sp, kind, closed, fault, opLife, opStarted, opPh, opCh, opV, conn, start, stop, drop, opEndBeforeAwait, stopBeforeOpEnd, done, joined, ended, term, child>>
\* freed at most once, through an allocator equal to the one it came from
\* ... and only after the operation state that lives inside the block has been destroyed completely
Free == /\ Is("Free") /\ <<E.v, E.r>> \in live
        /\ E.v \in F => opLife[E.v] \in {"none", "dead"}
        /\ live' = live \ {<<E.v, E.r>>}
        /\ UNCHANGED <<sp, kind, closed, fault, nalloc, opLife, opStarted, opPh, opCh, opV, conn, start, stop, drop, opEndBeforeAwait, stopBeforeOpEnd, done, joined, ended, term, child>>
\* the operation is started (inside the spawn call) only in an open scope and only if the spawn succeeds
OpStart == /\ Is("OpStart") /\ sp[E.f] = "begun" /\ closed[E.f] = 0 /\ fault[E.f] = 0 /\ ~opStarted[E.f]
           /\ opStarted' = Up(opStarted, TRUE)
           /\ UNCHANGED <<sp, kind, closed, fault, nalloc, opLife, opPh, opCh, opV, conn, start, stop, drop, opEndBeforeAwait, stopBeforeOpEnd, done, live, joined, ended, term, child>>
OpCreated == /\ Is("OpCreated") /\ sp[E.f] = "begun" /\ opLife[E.f] = "none" /\ opLife' = Up(opLife, "alive")
             /\ UNCHANGED <<sp, kind, closed, fault, nalloc, opStarted, opPh, opCh, opV, conn, start, stop, drop, opEndBeforeAwait, stopBeforeOpEnd, done, live, joined, ended, term, child>>
OpDestroyed == /\ Is("OpDestroyed") /\ opLife[E.f] = "alive" /\ opLife' = Up(opLife, "dead")
               /\ UNCHANGED <<sp, kind, closed, fault, nalloc, opStarted, opPh, opCh, opV, conn, start, stop, drop, opEndBeforeAwait, stopBeforeOpEnd, done, live, joined, ended, term, child>>
OpStopSeen == /\ Is("OpStopSeen") /\ UNCHANGED <<per, live, joined, ended, term, child>>
\* dropping the future, or cancelling the awaited future, before the operation completes => the operation sees stop
OpCompleteBegin ==
  /\ Is("OpCompleteBegin") /\ opStarted[E.f] /\ opPh[E.f] = "none"
  /\ (kind[E.f] = "fut" /\ (drop[E.f] = "ended" \/ (stop[E.f] = "ended" /\ start[E.f] = "ended"))) => E.r = 1
  /\ opPh' = Up(opPh, "begun") /\ opCh' = Up(opCh, E.ch) /\ opV' = Up(opV, E.v)
  /\ UNCHANGED <<sp, kind, closed, fault, nalloc, opLife, opStarted, conn, start, stop, drop, opEndBeforeAwait, stopBeforeOpEnd, done, live, joined, ended, term, child>>
OpCompleteEnd == /\ Is("OpCompleteEnd") /\ opPh[E.f] = "begun" /\ opPh' = Up(opPh, "ended")
                 /\ UNCHANGED <<sp, kind, closed, fault, nalloc, opLife, opStarted, opCh, opV, conn, start, stop, drop, opEndBeforeAwait, stopBeforeOpEnd, done, live, joined, ended, term, child>>
FutConnectBegin == /\ Is("FutConnectBegin") /\ sp[E.f] = "ok" /\ kind[E.f] = "fut" /\ conn[E.f] = "none" /\ drop[E.f] = "none"
                   /\ conn' = Up(conn, "begun") /\ opEndBeforeAwait' = Up(opEndBeforeAwait, opPh[E.f] = "ended")
                   /\ UNCHANGED <<sp, kind, closed, fault, nalloc, opLife, opStarted, opPh, opCh, opV, start, stop, drop, stopBeforeOpEnd, done, live, joined, ended, term, child>>
FutConnectEnd == /\ Is("FutConnectEnd") /\ conn[E.f] = "begun" /\ conn' = Up(conn, "ended")
                 /\ UNCHANGED <<sp, kind, closed, fault, nalloc, opLife, opStarted, opPh, opCh, opV, start, stop, drop, opEndBeforeAwait, stopBeforeOpEnd, done, live, joined, ended, term, child>>
FutStartBegin == /\ Is("FutStartBegin") /\ conn[E.f] = "ended" /\ start[E.f] = "none" /\ drop[E.f] = "none" /\ start' = Up(start, "begun")
                 /\ UNCHANGED <<sp, kind, closed, fault, nalloc, opLife, opStarted, opPh, opCh, opV, conn, stop, drop, opEndBeforeAwait, stopBeforeOpEnd, done, live, joined, ended, term, child>>
FutStartEnd == /\ Is("FutStartEnd") /\ start[E.f] = "begun" /\ start' = Up(start, "ended")
               /\ UNCHANGED <<sp, kind, closed, fault, nalloc, opLife, opStarted, opPh, opCh, opV, conn, stop, drop, opEndBeforeAwait, stopBeforeOpEnd, done, live, joined, ended, term, child>>
FutStopBegin == /\ Is("FutStopBegin") /\ stop[E.f] = "none" /\ stop' = Up(stop, "begun")
                /\ stopBeforeOpEnd' = Up(stopBeforeOpEnd, opPh[E.f] # "ended")
                /\ UNCHANGED <<sp, kind, closed, fault, nalloc, opLife, opStarted, opPh, opCh, opV, conn, start, drop, opEndBeforeAwait, done, live, joined, ended, term, child>>
FutStopEnd == /\ Is("FutStopEnd") /\ stop[E.f] = "begun" /\ stop' = Up(stop, "ended")
              /\ UNCHANGED <<sp, kind, closed, fault, nalloc, opLife, opStarted, opPh, opCh, opV, conn, start, drop, opEndBeforeAwait, stopBeforeOpEnd, done, live, joined, ended, term, child>>
FutDropBegin == /\ Is("FutDropBegin") /\ sp[E.f] = "ok" /\ drop[E.f] = "none" /\ start[E.f] = "none" /\ drop' = Up(drop, "begun")
                /\ UNCHANGED <<sp, kind, closed, fault, nalloc, opLife, opStarted, opPh, opCh, opV, conn, start, stop, opEndBeforeAwait, stopBeforeOpEnd, done, live, joined, ended, term, child>>
FutDropEnd == /\ Is("FutDropEnd") /\ drop[E.f] = "begun" /\ drop' = Up(drop, "ended")
              /\ UNCHANGED <<sp, kind, closed, fault, nalloc, opLife, opStarted, opPh, opCh, opV, conn, start, stop, opEndBeforeAwait, stopBeforeOpEnd, done, live, joined, ended, term, child>>
\* the heart of C09
FutComplete ==
  /\ Is("FutComplete") /\ start[E.f] # "none" /\ done[E.f] = 0
  /\ E.ch \in {"value", "error"} =>
        (closed[E.f] = 0 /\ opPh[E.f] # "none" /\ opCh[E.f] = E.ch /\ opV[E.f] = E.v)
  /\ E.ch = "done" =>
        /\ \/ closed[E.f] # 0
           \/ opPh[E.f] # "none" /\ opCh[E.f] = "done"
           \/ stop[E.f] # "none" /\ stopBeforeOpEnd[E.f]
        \* a result already available when the future is awaited is delivered even if stop has been requested
        /\ ~(opEndBeforeAwait[E.f] /\ opCh[E.f] # "done")
  /\ done' = Up(done, 1)
  /\ UNCHANGED <<sp, kind, closed, fault, nalloc, opLife, opStarted, opPh, opCh, opV, conn, start, stop, drop, opEndBeforeAwait, stopBeforeOpEnd, live, joined, ended, term, child>>
Joined == /\ Is("Joined") /\ joined' = (E.r = 1) /\ UNCHANGED <<per, live, ended, term, child>>
\* quiescence: every block freed (exactly once, see Free), every tracked value destroyed exactly once, no scope
\* reference leaked, every awaited future completed, nothing half-done
End == /\ Is("End") /\ ~ended
       /\ live = {} /\ E.v = 0 /\ E.r = 0 /\ joined
       /\ \A f \in F : /\ start[f] # "none" => done[f] = 1
                       /\ sp[f] # "begun" /\ opPh[f] # "begun" /\ opLife[f] # "alive"
                       /\ conn[f] # "begun" /\ start[f] # "begun" /\ stop[f] # "begun" /\ drop[f] # "begun"
                       /\ (sp[f] = "ok" /\ closed[f] = 0 /\ kind[f] = "fut") => opStarted[f]
       /\ ended' = TRUE /\ UNCHANGED <<per, live, joined, term, child>>
\* spawn_detached: std::terminate() only while delivering an error completion
Terminate == /\ Is("Terminate") /\ ~term
             /\ \E f \in F : kind[f] = "det" /\ opPh[f] = "begun" /\ opCh[f] = "error"
             /\ term' = TRUE /\ UNCHANGED <<per, live, joined, ended, child>>
ChildExit == /\ Is("ChildExit") /\ ~child /\ kind[E.f] = "det"
             /\ \/ E.r = 73 /\ term
                \/ E.r = 0 /\ ended /\ ~term
             /\ child' = TRUE /\ UNCHANGED <<per, live, joined, ended, term>>
Next == \/ Reset \/ SpawnBegin("fut", "SpawnBegin") \/ SpawnEnd("SpawnEnd")
        \/ SpawnBegin("det", "DetachBegin") \/ SpawnEnd("DetachEnd")
        \/ Alloc \/ Free \/ OpCreated \/ OpDestroyed \/ OpStart \/ OpStopSeen \/ OpCompleteBegin \/ OpCompleteEnd
        \/ FutConnectBegin \/ FutConnectEnd \/ FutStartBegin \/ FutStartEnd \/ FutStopBegin \/ FutStopEnd
        \/ FutDropBegin \/ FutDropEnd \/ FutComplete \/ Joined \/ End \/ Terminate \/ ChildExit
Spec == Init /\ [][Next]_vars
Track == TrackAt(l, Closed)
Report == ReportTrace
=============================================================================
