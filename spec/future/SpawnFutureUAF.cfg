SPECIFICATION Spec
CONSTANTS Scenarios <- Scn
INVARIANTS NoAccessAfterDelete
VIEW View
CHECK_DEADLOCK TRUE
