SPECIFICATION Spec
CONSTANTS Scenarios <- Scn  MutDestroyAfterHandover = FALSE
INVARIANTS NoAccessAfterDelete
VIEW View
CHECK_DEADLOCK TRUE
