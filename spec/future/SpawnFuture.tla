---------------------------- MODULE SpawnFuture ----------------------------
(***************************************************************************)
(* Implementation-shaped model of include/unifex/spawn_future.hpp: the     *)
(* heap state shared by a spawned operation and its future<>.              *)
(*                                                                         *)
(* S.st      state_  (init/abandoned/value/error/done/complete)            *)
(* S.evt     evt_ signalled;  S.waiter  the future's wait op is enqueued   *)
(* S.opStop  stopSource_.stop_requested (what the spawned op sees)         *)
(* S.rcvStop stop requested on the awaiting receiver's token               *)
(* S.cb      the future's stop callback (registered at CONNECT time by     *)
(*           let_value_with's state factory; destroyed by the scope's      *)
(*           nest receiver just before the awaiting receiver is completed, *)
(*           or when an unstarted operation is destroyed)                  *)
(* S.slot    values_/error_ union member;  S.heap the block is allocated   *)
(*                                                                         *)
(* Threads: A completes the spawned operation (complete()), B owns the     *)
(* future (connect/start | drop | connect+destroy unstarted), C requests   *)
(* stop on the awaiting receiver's token (runs abandon() as a callback).   *)
(* Every thread is a stack of frames; the top frame names the next atomic  *)
(* stretch of code, which starts at the schedule point (hook) of the same  *)
(* name: future.<frame>.  Silent frames (no hook in the code) are urgent.  *)
(* Leaf mode "inline": the spawned operation completes with done from      *)
(* inside its stop callback (re-entrant complete() under request_stop()).  *)
(***************************************************************************)
EXTENDS Naturals, Sequences, FiniteSets, TLC
CONSTANTS Scenarios,
          MutDestroyAfterHandover   \* spec-level mutation (non-vacuity of NestedOpDeadBeforeFree): negotiate_deletion()
                                    \* destroys the nested operation only after the abandoned->complete hand-over
VARIABLES scn, stk, S, lastT, lastPc
vars == <<scn, stk, S, lastT, lastPc>>
View == <<scn, stk, S>>
A == 1
B == 2
C == 3
T == {A, B, C}
Silent == {"b_wait", "b_destroy", "drop_spin", "fut_deliver", "cb_ret"}
Results == {"value", "error", "done"}

S0 == [st |-> "init", evt |-> FALSE, waiter |-> FALSE, opStop |-> FALSE, rcvStop |-> FALSE,
       cb |-> "none", cbBy |-> 0, heap |-> TRUE, frees |-> 0,
       slot |-> "empty", slotCt |-> 0, slotDt |-> 0, opDes |-> 0,
       ld |-> "none", dst |-> "none", claimed |-> FALSE, cch |-> "none",
       opSt |-> "alive", early |-> FALSE,
       opPh |-> "none", futRes |-> "none", started |-> FALSE, bad |-> FALSE, term |-> FALSE,
       gOpEndBeforeAwait |-> FALSE, gStopBeforeOpEnd |-> FALSE, gReq |-> FALSE, gStopOK |-> TRUE]

Init == /\ scn \in Scenarios
        /\ stk = [t \in T |-> CASE t = A -> <<"a_begin">>
                               [] t = B -> IF scn.b = "drop" THEN <<"b_drop">> ELSE <<"b_connect">>
                               [] OTHER -> IF scn.stop THEN <<"c_stop">> ELSE <<>>]
        /\ S = S0 /\ lastT = 0 /\ lastPc = ""

Busy(t) == stk[t] # <<>>
Top(t) == stk[t][1]
Pop(t) == [stk EXCEPT ![t] = Tail(@)]
Repl(t, f) == [stk EXCEPT ![t] = <<f>> \o Tail(@)]
Repl2(t, f, g) == [stk EXCEPT ![t] = <<f, g>> \o Tail(@)]       \* f on top, g below, rest below
Halt(t) == [stk EXCEPT ![t] = <<>>]

Do(t, nstk, nS) == stk' = nstk /\ S' = nS /\ lastT' = t /\ lastPc' = Top(t) /\ UNCHANGED scn
\* an access to a field of the shared block: a touch after the block was freed is the bad event
Touch(t, nstk, nS) == IF S.heap THEN Do(t, nstk, nS) ELSE Do(t, Halt(t), [S EXCEPT !.bad = TRUE])
\* the nested operation state (S.opSt: alive -> dying -> dead) lives inside the shared block: freeing the block while it
\* is alive or being destroyed is the `early` event
Free(s) == [s EXCEPT !.heap = FALSE, !.frees = @ + 1, !.early = @ \/ s.opSt # "dead"]
\* scn.nest = "v2": the scope's nest receiver destroys the wrapped operation (the leaf) before it forwards the completion,
\* what destruct_op() destroys later is an empty shell; scn.nest = "id": nest() returns the sender itself, the spawned
\* operation state directly contains the leaf, which dies in destruct_op().  Either way the leaf's destructor has a
\* schedule point (h_opdtor) after which it touches its own members.
IdNest == scn.nest = "id"
Dying(s) == [s EXCEPT !.opSt = "dying"]
KillSlot(s, state) == IF state \in {"value", "error"} THEN [s EXCEPT !.slot = "dead", !.slotDt = @ + 1] ELSE s
\* the leaf reacting to a stop request: in inline mode it completes with done right there
StopLeaf(s) == [s EXCEPT !.opStop = TRUE]
InlineFires == scn.leaf = "inline" /\ ~S.claimed
Claim(s, ch) == [s EXCEPT !.claimed = TRUE, !.cch = ch, !.opPh = "begun", !.gStopOK = (s.gReq => s.opStop)]

At(t, f) == Busy(t) /\ Top(t) = f
\* the leaf completing inline (from its stop callback) on thread t, returning to frame f afterwards
Fire(t, f) == IF IdNest THEN Repl2(t, "complete_cas", f) ELSE [stk EXCEPT ![t] = <<"h_opdtor", "complete_cas", f>> \o Tail(@)]
FireS(s) == IF IdNest THEN s ELSE Dying(s)

\* ------------------------------------------------------------ thread A / complete()
a_begin(t) == /\ At(t, "a_begin")
              /\ IF S.claimed THEN Do(t, Pop(t), S)
                 ELSE IF IdNest THEN Do(t, Repl(t, "complete_cas"), Claim(S, scn.ch))
                 ELSE Do(t, Repl2(t, "h_opdtor", "complete_cas"), Dying(Claim(S, scn.ch)))
\* destruct_op(): in id mode it runs the leaf's destructor up to its schedule point
DtorThen(t, f) == IF IdNest THEN Repl2(t, "h_opdtor", f) ELSE Repl(t, f)
DtorBegun(s) == IF IdNest THEN Dying(s) ELSE s
h_opdtor(t) == /\ At(t, "h_opdtor") /\ Touch(t, Pop(t), [S EXCEPT !.opSt = "dead"])
complete_cas(t) ==
  /\ At(t, "complete_cas")
  /\ CASE S.st = "init" ->
            Touch(t, DtorThen(t, "complete_set"),
                  DtorBegun([S EXCEPT !.st = S.cch, !.opDes = @ + 1,
                            !.slot = IF S.cch \in {"value", "error"} THEN "full" ELSE @,
                            !.slotCt = IF S.cch \in {"value", "error"} THEN @ + 1 ELSE @]))
       [] S.st = "abandoned" /\ MutDestroyAfterHandover -> Touch(t, Repl(t, "neg_cas"), S)
       [] S.st = "abandoned" /\ ~MutDestroyAfterHandover -> Touch(t, DtorThen(t, "neg_cas"), DtorBegun([S EXCEPT !.opDes = @ + 1]))
       [] S.st = "complete" -> Touch(t, DtorThen(t, "neg_delete"), DtorBegun([S EXCEPT !.opDes = @ + 1]))
       [] OTHER -> Touch(t, Halt(t), [S EXCEPT !.term = TRUE])
complete_set(t) ==
  /\ At(t, "complete_set")
  /\ IF S.waiter THEN Touch(t, Repl(t, "fut_load"), [S EXCEPT !.evt = TRUE, !.waiter = FALSE, !.opPh = "ended"])
     ELSE Touch(t, Pop(t), [S EXCEPT !.evt = TRUE, !.opPh = "ended"])
neg_cas(t) ==
  /\ At(t, "neg_cas")
  /\ CASE S.st = "abandoned" /\ MutDestroyAfterHandover ->
            Touch(t, IF IdNest THEN Repl(t, "h_opdtor") ELSE Pop(t), DtorBegun([S EXCEPT !.st = "complete", !.opPh = "ended", !.opDes = @ + 1]))
       [] S.st = "abandoned" /\ ~MutDestroyAfterHandover -> Touch(t, Pop(t), [S EXCEPT !.st = "complete", !.opPh = "ended"])
       [] S.st # "abandoned" /\ MutDestroyAfterHandover -> Touch(t, DtorThen(t, "neg_delete"), DtorBegun([S EXCEPT !.opDes = @ + 1]))
       [] OTHER -> Touch(t, Repl(t, "neg_delete"), S)
neg_delete(t) == /\ At(t, "neg_delete") /\ Touch(t, Pop(t), [Free(S) EXCEPT !.opPh = "ended"])

\* ------------------------------------------------------------ the future's continuation (after evt_)
fut_load(t) ==
  /\ At(t, "fut_load")
  /\ CASE S.st = "abandoned" -> Touch(t, Repl(t, "fut_cas"), [S EXCEPT !.ld = "abandoned"])
       [] S.st = "init" -> Touch(t, Halt(t), [S EXCEPT !.term = TRUE])
       [] OTHER -> Touch(t, Repl(t, "fut_delete"), [S EXCEPT !.ld = S.st])
fut_cas(t) ==
  /\ At(t, "fut_cas")
  /\ IF S.st = "abandoned" THEN Touch(t, Repl(t, "fut_deliver"), [S EXCEPT !.st = "complete"])
     ELSE Touch(t, Repl(t, "fut_delete"), [S EXCEPT !.ld = S.st])
fut_delete(t) == /\ At(t, "fut_delete") /\ Touch(t, Repl(t, "fut_deliver"), Free(KillSlot(S, S.ld)))
\* the nest receiver destroys the future's operation (deregistering the stop callback: blocks while the
\* callback runs on another thread), then completes the awaiting receiver
\* (with an identity scope there is no nest receiver: the callback stays registered until B destroys the operation)
fut_deliver(t) ==
  /\ At(t, "fut_deliver")
  /\ IdNest \/ ~(S.cb = "run" /\ S.cbBy # t)
  /\ Do(t, Pop(t), [S EXCEPT !.cb = IF IdNest THEN @ ELSE "gone", !.futRes = IF S.ld \in {"value", "error"} THEN S.ld ELSE "done"])

\* ------------------------------------------------------------ thread B
AfterConnect == IF scn.b = "await" THEN "b_start" ELSE "b_opdrop"
b_connect(t) ==
  /\ At(t, "b_connect")
  /\ IF S.rcvStop
     THEN Do(t, [stk EXCEPT ![t] = <<"abandon_cas", "cb_ret", AfterConnect>> \o Tail(@)], [S EXCEPT !.cb = "run", !.cbBy = t, !.gOpEndBeforeAwait = (S.opPh = "ended")])
     ELSE Do(t, Repl(t, AfterConnect), [S EXCEPT !.cb = "reg", !.gOpEndBeforeAwait = (S.opPh = "ended")])
b_start(t) ==
  /\ At(t, "b_start")
  /\ IF S.evt THEN Touch(t, Repl2(t, "fut_load", "b_wait"), [S EXCEPT !.started = TRUE])
     ELSE Touch(t, Repl(t, "b_wait"), [S EXCEPT !.started = TRUE, !.waiter = TRUE])
b_wait(t) == /\ At(t, "b_wait") /\ S.futRes # "none" /\ Do(t, Repl(t, "b_destroy"), S)
\* B destroys the completed operation (deregisters the stop callback if it is still registered)
b_destroy(t) == /\ At(t, "b_destroy") /\ ~(S.cb = "run" /\ S.cbBy # t) /\ Do(t, Pop(t), [S EXCEPT !.cb = "gone"])
\* destroying a connected, unstarted operation: stop callback deregistered, then the op handle drops
b_opdrop(t) ==
  /\ At(t, "b_opdrop")
  /\ ~(S.cb = "run" /\ S.cbBy # t)
  /\ Do(t, Repl(t, "drop_load"), [S EXCEPT !.cb = "gone"])
b_drop(t) == /\ At(t, "b_drop") /\ Do(t, Repl(t, "drop_load"), S)
drop_load(t) ==
  /\ At(t, "drop_load")
  /\ CASE S.st = "init" -> Touch(t, Repl(t, "drop_stop"), S)
       [] S.st \in Results -> Touch(t, Repl(t, "drop_spin"), [S EXCEPT !.dst = S.st])
       [] OTHER -> Touch(t, Halt(t), [S EXCEPT !.term = TRUE])          \* default: std::terminate()
drop_stop(t) ==
  /\ At(t, "drop_stop")
  /\ IF InlineFires THEN Touch(t, Fire(t, "drop_cas"), FireS(Claim(StopLeaf(S), "done")))
     ELSE Touch(t, Repl(t, "drop_cas"), StopLeaf(S))
drop_cas(t) ==
  /\ At(t, "drop_cas")
  /\ IF S.st = "init" THEN Touch(t, Pop(t), [S EXCEPT !.st = "complete", !.gReq = TRUE])
     ELSE Touch(t, Repl(t, "drop_spin"), [S EXCEPT !.dst = S.st])
drop_spin(t) == /\ At(t, "drop_spin") /\ (~S.heap \/ S.evt) /\ Touch(t, Repl(t, "drop_delete"), S)
drop_delete(t) == /\ At(t, "drop_delete") /\ Touch(t, Pop(t), Free(KillSlot(S, S.dst)))

\* ------------------------------------------------------------ thread C / abandon()
c_stop(t) ==
  /\ At(t, "c_stop")
  /\ IF S.cb = "reg"
     THEN Do(t, Repl2(t, "abandon_cas", "cb_ret"), [S EXCEPT !.rcvStop = TRUE, !.cb = "run", !.cbBy = t, !.gStopBeforeOpEnd = (S.opPh # "ended")])
     ELSE Do(t, Pop(t), [S EXCEPT !.rcvStop = TRUE, !.gStopBeforeOpEnd = (S.opPh # "ended")])
abandon_cas(t) ==
  /\ At(t, "abandon_cas")
  /\ IF S.st = "init" THEN Touch(t, Repl(t, "abandon_stop"), [S EXCEPT !.st = "abandoned"])
     ELSE Touch(t, Pop(t), S)
abandon_stop(t) ==
  /\ At(t, "abandon_stop")
  /\ IF InlineFires THEN Touch(t, Fire(t, "abandon_set"), FireS(Claim(StopLeaf(S), "done")))
     ELSE Touch(t, Repl(t, "abandon_set"), StopLeaf(S))
abandon_set(t) ==
  /\ At(t, "abandon_set")
  /\ IF S.waiter THEN Touch(t, Repl(t, "fut_load"), [S EXCEPT !.evt = TRUE, !.waiter = FALSE, !.gReq = S.started \/ @])
     ELSE Touch(t, Pop(t), [S EXCEPT !.evt = TRUE, !.gReq = S.started \/ @])
cb_ret(t) == /\ At(t, "cb_ret") /\ Do(t, Pop(t), [S EXCEPT !.cb = IF @ = "run" THEN "reg" ELSE @])

\* ------------------------------------------------------------ composition
SilentStep(t) == b_wait(t) \/ b_destroy(t) \/ drop_spin(t) \/ fut_deliver(t) \/ cb_ret(t)
VisibleStep(t) == a_begin(t) \/ h_opdtor(t) \/ complete_cas(t) \/ complete_set(t) \/ neg_cas(t) \/ neg_delete(t)
                  \/ fut_load(t) \/ fut_cas(t) \/ fut_delete(t)
                  \/ b_connect(t) \/ b_start(t) \/ b_opdrop(t) \/ b_drop(t)
                  \/ drop_load(t) \/ drop_stop(t) \/ drop_cas(t) \/ drop_delete(t)
                  \/ c_stop(t) \/ abandon_cas(t) \/ abandon_stop(t) \/ abandon_set(t)
SilentEnabled(t) == Busy(t) /\ CASE Top(t) = "b_wait" -> S.futRes # "none"
                                  [] Top(t) = "b_destroy" -> ~(S.cb = "run" /\ S.cbBy # t)
                                  [] Top(t) = "drop_spin" -> (~S.heap \/ S.evt)
                                  [] Top(t) = "fut_deliver" -> (IdNest \/ ~(S.cb = "run" /\ S.cbBy # t))
                                  [] Top(t) = "cb_ret" -> TRUE
                                  [] OTHER -> FALSE
Urgent == \E t \in T : SilentEnabled(t)
Stopped == S.bad \/ S.term
Quiescent == \A t \in T : ~Busy(t)
Next == \/ ~Stopped /\ \E t \in T : SilentStep(t)
        \/ ~Stopped /\ ~Urgent /\ \E t \in T : VisibleStep(t)
        \/ (Stopped \/ Quiescent) /\ UNCHANGED vars
Spec == Init /\ [][Next]_vars
FairSpec == Spec /\ WF_vars(Next)

\* ------------------------------------------------------------ properties
TypeOK == /\ S.st \in {"init", "abandoned", "value", "error", "done", "complete"}
          /\ S.frees \in 0..2 /\ S.slotCt \in 0..2 /\ S.slotDt \in 0..2
NoAccessAfterDelete == ~S.bad
NoTerminate == ~S.term
DeleterCalledAtMostOnce == S.frees <= 1
ResultDestroyedAtMostOnce == S.slotDt <= S.slotCt /\ S.slotCt <= 1
Clean == Quiescent /\ ~Stopped
DeleterCalledExactlyOnce == Clean => (S.frees = 1 /\ ~S.heap)
ResultDestroyedExactlyOnce == Clean => (S.slotCt = S.slotDt)
OpDestroyedExactlyOnce == Clean => (S.opDes = 1 /\ S.opSt = "dead")
\* the shared block is never freed while the operation state inside it is alive or being destroyed
NestedOpDeadBeforeFree == ~S.early
FutureCompletes == (Clean /\ scn.b = "await") => S.futRes # "none"
FutureResultMatches == S.futRes \in {"value", "error"} => (S.futRes = S.cch /\ S.opPh # "none")
DoneOnlyIfDoneOrCancelledEarly ==
  S.futRes = "done" => (S.cch = "done" \/ (S.rcvStop /\ S.gStopBeforeOpEnd))
AvailableResultWinsOverStop ==
  (S.futRes # "none" /\ S.gOpEndBeforeAwait) => S.futRes = S.cch
DropOrCancelRequestsStop == S.gStopOK
\* liveness (FairSpec): every execution reaches quiescence (or one of the two recorded defects)
Terminates == <>(Quiescent \/ Stopped)
=============================================================================
