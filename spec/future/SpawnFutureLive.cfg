SPECIFICATION FairSpec
CONSTANTS Scenarios <- Scn
PROPERTY Terminates
