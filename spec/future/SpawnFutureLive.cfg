SPECIFICATION FairSpec
CONSTANTS Scenarios <- Scn  MutDestroyAfterHandover = FALSE
PROPERTY Terminates
