SPECIFICATION Spec
CONSTANTS Scenarios <- Scn
INVARIANTS TypeOK DeleterCalledAtMostOnce ResultDestroyedAtMostOnce DeleterCalledExactlyOnce ResultDestroyedExactlyOnce OpDestroyedExactlyOnce FutureCompletes FutureResultMatches DoneOnlyIfDoneOrCancelledEarly AvailableResultWinsOverStop DropOrCancelRequestsStop
VIEW View
ACTION_CONSTRAINT EdgeLog
CHECK_DEADLOCK TRUE
