SPECIFICATION Spec
CONSTANTS Scenarios <- Scn  MutDestroyAfterHandover = FALSE
INVARIANTS TypeOK DeleterCalledAtMostOnce ResultDestroyedAtMostOnce DeleterCalledExactlyOnce ResultDestroyedExactlyOnce OpDestroyedExactlyOnce FutureCompletes FutureResultMatches DoneOnlyIfDoneOrCancelledEarly AvailableResultWinsOverStop DropOrCancelRequestsStop NestedOpDeadBeforeFree
VIEW View
ACTION_CONSTRAINT EdgeLog
CHECK_DEADLOCK TRUE
