SPECIFICATION Spec
CONSTANTS Scenarios <- Scn  MutDestroyAfterHandover = TRUE
INVARIANTS NestedOpDeadBeforeFree
VIEW View
CHECK_DEADLOCK TRUE
