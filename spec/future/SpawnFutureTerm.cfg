SPECIFICATION Spec
CONSTANTS Scenarios <- Scn  MutDestroyAfterHandover = FALSE
INVARIANTS NoTerminate
VIEW View
CHECK_DEADLOCK TRUE
