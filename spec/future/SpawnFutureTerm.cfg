SPECIFICATION Spec
CONSTANTS Scenarios <- Scn
INVARIANTS NoTerminate
VIEW View
CHECK_DEADLOCK TRUE
