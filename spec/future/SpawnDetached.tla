---------------------------- MODULE SpawnDetached ----------------------------
(***************************************************************************)
(* include/unifex/spawn_detached.hpp: allocate -> construct (nest+connect, *)
(* guarded by a scope_guard that deallocates) -> start; the receiver's     *)
(* set_value/set_done destroy+deallocate the block, set_error terminates.  *)
(* Sequential; the environment chooses the injected fault, whether the     *)
(* scope is closed and how the operation completes.                        *)
(***************************************************************************)
EXTENDS Naturals
CONSTANTS Faults, Channels
VARIABLES scn, pc, blk, frees, started, term, threw
vars == <<scn, pc, blk, frees, started, term, threw>>
Init == /\ scn \in [fault : Faults, closed : BOOLEAN, ch : Channels]
        /\ pc = "alloc" /\ blk = "none" /\ frees = 0 /\ started = FALSE /\ term = FALSE /\ threw = FALSE
Allocate == /\ pc = "alloc"
            /\ IF scn.fault = "alloc" THEN /\ threw' = TRUE /\ pc' = "end" /\ UNCHANGED blk
               ELSE /\ blk' = "live" /\ pc' = "construct" /\ UNCHANGED threw
            /\ UNCHANGED <<scn, frees, started, term>>
\* traits::construct(op, nest(sender, scope), ...): nest() or connect() may throw -> the guard deallocates
Construct == /\ pc = "construct"
             /\ IF scn.fault \in {"nest", "connect"} /\ ~(scn.closed /\ scn.fault = "connect")
                THEN /\ blk' = "freed" /\ frees' = frees + 1 /\ threw' = TRUE /\ pc' = "end"
                ELSE /\ pc' = "start" /\ UNCHANGED <<blk, frees, threw>>
             /\ UNCHANGED <<scn, started, term>>
\* a closed scope: the nest sender completes with done from start() -> destroy + deallocate
Start == /\ pc = "start"
         /\ IF scn.closed THEN /\ blk' = "freed" /\ frees' = frees + 1 /\ pc' = "end" /\ UNCHANGED started
            ELSE /\ started' = TRUE /\ pc' = "running" /\ UNCHANGED <<blk, frees>>
         /\ UNCHANGED <<scn, term, threw>>
Complete == /\ pc = "running"
            /\ IF scn.ch = "error" THEN /\ term' = TRUE /\ pc' = "end" /\ UNCHANGED <<blk, frees>>
               ELSE /\ blk' = "freed" /\ frees' = frees + 1 /\ pc' = "end" /\ UNCHANGED term
            /\ UNCHANGED <<scn, started, threw>>
Next == Allocate \/ Construct \/ Start \/ Complete \/ (pc = "end" /\ UNCHANGED vars)
Spec == Init /\ [][Next]_vars
TerminateOnlyOnError == term => (scn.ch = "error" /\ started)
StrongGuaranteeOnThrow == threw => (blk # "live" /\ ~started /\ scn.fault # "none")
ThrowIffFault == (pc = "end" /\ scn.fault # "none" /\ ~(scn.closed /\ scn.fault = "connect")) => threw
FreedExactlyOnce == (pc = "end" /\ ~term /\ ~threw) => (blk = "freed" /\ frees = 1)
AtMostOneFree == frees <= 1
ClosedNeverStarts == scn.closed => ~started
=============================================================================
