---- MODULE SpawnDetachedMC ----
EXTENDS SpawnDetached
F == {"none", "alloc", "nest", "connect"}
Ch == {"value", "error", "done"}
====
