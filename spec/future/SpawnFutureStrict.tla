---- MODULE SpawnFutureStrict ----
(* Same model, lifetime invariants switched on: NoAccessAfterDelete (no field of the shared block is   *)
(* touched after the block was freed) and NoTerminate (drop() never reaches its std::terminate()).     *)
EXTENDS SpawnFuture, Json, IOUtils
ScnSeq == JsonDeserialize(IOEnv.SCENARIOS)
Scn == {ScnSeq[i] : i \in 1..Len(ScnSeq)}
====
