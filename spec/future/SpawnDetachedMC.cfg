SPECIFICATION Spec
CONSTANTS Faults <- F  Channels <- Ch
INVARIANTS TerminateOnlyOnError StrongGuaranteeOnThrow ThrowIffFault FreedExactlyOnce AtMostOneFree ClosedNeverStarts
CHECK_DEADLOCK TRUE
