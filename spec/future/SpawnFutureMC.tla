---- MODULE SpawnFutureMC ----
(* Model-checking instance of SpawnFuture: scenarios come from a JSON file shared with the C++ driver; *)
(* every explored transition is exported (ACTION_CONSTRAINT) for behaviour generation.                 *)
EXTENDS SpawnFuture, Json, IOUtils, TLCExt
ScnSeq == JsonDeserialize(IOEnv.SCENARIOS)
Scn == {ScnSeq[i] : i \in 1..Len(ScnSeq)}
EdgeLog ==
  LET rec == [s |-> <<TLCFP(View), TLCFP(<<View, 1>>)>>, t |-> <<TLCFP(View'), TLCFP(<<View', 1>>)>>,
              th |-> lastT', pc |-> lastPc', scn |-> scn.id,
              obs |-> [res |-> S'.futRes, bad |-> S'.bad, term |-> S'.term, frees |-> S'.frees, st |-> S'.st]]
  IN (vars' # vars) =>
     Serialize(ToJson(rec) \o "\n", IOEnv.EDGES,
        [format |-> "TXT", charset |-> "UTF-8", openOptions |-> <<"WRITE", "CREATE", "APPEND">>]).exitValue = 0
====
