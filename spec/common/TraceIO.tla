------------------------------ MODULE TraceIO ------------------------------
(* Shared plumbing of the trace-validation (monitor) modules.                          *)
(* The recorded ndjson log is read once; register 1 tracks the longest matched prefix, *)
(* register 2 whether some behaviour of the monitor consumed the whole log and ended   *)
(* in a state satisfying the end-of-execution obligations.  Run with -workers 1.       *)
EXTENDS Naturals, Sequences, TLC, Json, IOUtils
Log == ndJsonDeserialize(IOEnv.TRACEFILE)
TrackInit == TLCSet(1, 1) /\ TLCSet(2, FALSE)
TrackAt(l, closed) ==
  /\ TLCSet(1, IF l > TLCGet(1) THEN l ELSE TLCGet(1))
  /\ IF l = Len(Log) + 1 /\ closed THEN TLCSet(2, TRUE) ELSE TRUE
ReportTrace == PrintT(<<"trace-validation accepted", TLCGet(2), "prefix", TLCGet(1) - 1, "of", Len(Log)>>)
=============================================================================
