----------------------- MODULE AtomicIntrusiveQueue -----------------------
(***************************************************************************)
(* include/unifex/detail/atomic_intrusive_queue.hpp as pure operators over *)
(* the abstract content of head_: either the "producer inactive" sentinel  *)
(* or a LIFO chain of items (newest first).  The multi-step operations     *)
(* (load ; CAS loops) are sequenced by the client specification, which     *)
(* keeps the loaded snapshot as a thread-local; this module only says what *)
(* each atomic access does.  Used by sync/MutexV1 (inactive = unlocked).   *)
(* AtomicIntrusiveQueueMC checks the queue protocol on its own.            *)
(***************************************************************************)
EXTENDS Naturals, Sequences
QInactive == [inact |-> TRUE, st |-> <<>>]        \* head_ == producer_inactive_value()
QEmpty    == [inact |-> FALSE, st |-> <<>>]       \* head_ == nullptr
QPush(h, item) == [inact |-> FALSE, st |-> <<item>> \o h.st]     \* item->next = old; head_ = item
RECURSIVE QRev(_)
QRev(s) == IF s = <<>> THEN <<>> ELSE Append(QRev(Tail(s)), Head(s))   \* intrusive_queue::make_reversed
\* try_mark_active(): CAS(inactive -> nullptr)
QTryMarkActiveOk(h) == h = QInactive
\* enqueue_or_mark_active(item): one CAS attempt against the snapshot `old`
QEomaNew(old, item) == IF old.inact THEN QEmpty ELSE QPush(old, item)
\* try_mark_inactive(): load; if nullptr then CAS(nullptr -> inactive)
\* try_mark_inactive_or_dequeue_all(): ... else exchange(nullptr) and reverse
=============================================================================
