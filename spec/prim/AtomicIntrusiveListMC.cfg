SPECIFICATION Spec
CONSTANTS KillNodes = FALSE Items = {1,2,3}  Threads = {1,2,3}  ProgSet <- All
INVARIANTS NoDeadAccess PopXorRemove AtRest NoItemLost SentinelBack MappingAtRest
PROPERTY Refines
CHECK_DEADLOCK TRUE
