SPECIFICATION Spec
CONSTANTS KillNodes = TRUE Items = {1,2,3}  Threads = {1,2,3}  ProgSet <- KillSet
INVARIANTS NoDeadAccess
CHECK_DEADLOCK TRUE
