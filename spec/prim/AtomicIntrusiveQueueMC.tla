---- MODULE AtomicIntrusiveQueueMC ----
(* The producer/consumer protocol of atomic_intrusive_queue on its own: N producers call              *)
(* enqueue_or_mark_active(item) (load ; CAS loop); whoever flips inactive -> active is the consumer,   *)
(* handles its own item and then drains with try_mark_inactive_or_dequeue_all() (load ; CAS ; exchange)*)
(* until it manages to mark the queue inactive.  Checked: one consumer at a time, every item handled   *)
(* exactly once, batches in enqueue (CAS) order, inactive at rest.                                     *)
EXTENDS AtomicIntrusiveQueue, FiniteSets, TLC
Prod == {1, 2, 3}
VARIABLES head, pc, old, batch, handled, casOrder
vars == <<head, pc, old, batch, handled, casOrder>>
Init == /\ head = QInactive /\ pc = [p \in Prod |-> "ld"] /\ old = [p \in Prod |-> QInactive]
        /\ batch = [p \in Prod |-> <<>>] /\ handled = <<>> /\ casOrder = <<>>
Ld(p) == /\ pc[p] = "ld" /\ old' = [old EXCEPT ![p] = head] /\ pc' = [pc EXCEPT ![p] = "cas"]
         /\ UNCHANGED <<head, batch, handled, casOrder>>
Cas(p) == /\ pc[p] = "cas"
          /\ IF head = old[p]
             THEN /\ head' = QEomaNew(old[p], p) /\ casOrder' = Append(casOrder, p)
                  /\ IF old[p].inact THEN /\ handled' = Append(handled, p) /\ pc' = [pc EXCEPT ![p] = "tmi"]
                                     ELSE /\ UNCHANGED handled /\ pc' = [pc EXCEPT ![p] = "done"]
                  /\ UNCHANGED old
             ELSE /\ old' = [old EXCEPT ![p] = head] /\ UNCHANGED <<head, pc, handled, casOrder>>
          /\ UNCHANGED batch
Tmi(p) == /\ pc[p] = "tmi" /\ old' = [old EXCEPT ![p] = head]
          /\ pc' = [pc EXCEPT ![p] = IF head = QEmpty THEN "tmicas" ELSE "xchg"]
          /\ UNCHANGED <<head, batch, handled, casOrder>>
TmiCas(p) == /\ pc[p] = "tmicas"
             /\ IF head = QEmpty THEN /\ head' = QInactive /\ pc' = [pc EXCEPT ![p] = "done"]
                                 ELSE /\ UNCHANGED head /\ pc' = [pc EXCEPT ![p] = "xchg"]
             /\ UNCHANGED <<old, batch, handled, casOrder>>
Xchg(p) == /\ pc[p] = "xchg" /\ batch' = [batch EXCEPT ![p] = QRev(head.st)] /\ head' = QEmpty
           /\ pc' = [pc EXCEPT ![p] = "run"] /\ UNCHANGED <<old, handled, casOrder>>
Run(p) == /\ pc[p] = "run"
          /\ IF batch[p] = <<>> THEN /\ pc' = [pc EXCEPT ![p] = "tmi"] /\ UNCHANGED <<batch, handled>>
             ELSE /\ handled' = Append(handled, Head(batch[p])) /\ batch' = [batch EXCEPT ![p] = Tail(@)] /\ UNCHANGED pc
          /\ UNCHANGED <<head, old, casOrder>>
AllDone == \A p \in Prod : pc[p] = "done"
Next == (\E p \in Prod : Ld(p) \/ Cas(p) \/ Tmi(p) \/ TmiCas(p) \/ Xchg(p) \/ Run(p)) \/ (AllDone /\ UNCHANGED vars)
Spec == Init /\ [][Next]_vars
Consumers == {p \in Prod : pc[p] \in {"tmi", "tmicas", "xchg", "run"}}
OneConsumer == Cardinality(Consumers) <= 1 /\ (head.inact => Consumers = {})
XchgNonEmpty == \A p \in Prod : pc[p] = "xchg" => (~head.inact /\ head.st # <<>>)
HandledOnce == \A i, j \in 1..Len(handled) : i # j => handled[i] # handled[j]
\* items are handled in the order of their successful CAS (FIFO)
HandledInCasOrder == \A i \in 1..Len(handled) : handled[i] = casOrder[i]
AtRest == AllDone => head = QInactive /\ Len(handled) = Cardinality(Prod)
====
