---------------------------- MODULE AbstractList ----------------------------
(***************************************************************************)
(* The abstract concurrent list that the clients of                        *)
(* detail/atomic_intrusive_list.hpp may assume (sync/MutexV2 for the       *)
(* cancellable mutex; the latch operations for v2::async_manual_reset_     *)
(* event).  prim/AtomicIntrusiveListRef checks with TLC that the           *)
(* single-atomic-access model prim/AtomicIntrusiveList implements this     *)
(* module under a refinement mapping.                                      *)
(*                                                                         *)
(* State: lists[l] (l = 0: the shared list, l > 0: the stack-local lists   *)
(* that latch_and_drain fills), latched (list 0), and per thread the       *)
(* pending call (op, arg), its result out and the item it has CLAIMED.     *)
(*                                                                         *)
(* Every operation takes effect in ONE atomic step, except that inserting  *)
(* and obtaining an item are two-phase:                                    *)
(*   push_back  : PushLink (the item becomes the last one: later pushes go *)
(*                behind it, try_remove / pop_front of its predecessor see *)
(*                it as successor) ... PushPublish (it becomes reachable   *)
(*                from the head; the call returns).  While an item is      *)
(*                HIDDEN, it and everything linked behind it is invisible  *)
(*                to empty(): empty() may answer "empty" although another  *)
(*                thread's push_back behind the hidden item has already    *)
(*                returned.  pop_front is not fooled: it answers null only *)
(*                if nothing is linked at all, and waits for a hidden head.*)
(*   push_front_unless_latched : PFrontLink ... PFrontPublish, likewise    *)
(*                (the hidden item is in front; the rest stays visible).   *)
(*   pop_front  : PopClaim (the head, if nobody else claimed it; an empty  *)
(*                list answers null at once) ... PopUnlink                 *)
(*   try_remove : RemClaim (the item is linked and unclaimed) ... RemUnlink*)
(*                or RemFail (the item is not linked, or somebody claimed  *)
(*                it: exactly one of pop_front / try_remove obtains it)    *)
(* Between claim and unlink the item is still linked: empty() answers      *)
(* "not empty", a pop_front of that list waits.  This is the strongest     *)
(* specification the real list satisfies: with an atomic pop_front a       *)
(* concurrent try_remove(x) = false followed by empty() = false would be   *)
(* impossible for a one-element list, yet the implementation does it       *)
(* (self is cleared before head_ is rewritten).                            *)
(* A result is out[t] = <<kind, value>>:                                   *)
(*   <<"push",1>> <<"pop", item | 0>> <<"remove", 0|1>> <<"empty", 0|1>>   *)
(*   <<"pfront", 0|1>> (0 = latched, not pushed) <<"drain", 0|1>> (1 = it  *)
(*   latched and moved the items) <<"unlatch", 0|1>> <<"islatched", 0|1>>  *)
(***************************************************************************)
EXTENDS Naturals, Sequences, FiniteSets
CONSTANTS Items, Threads, Lists
VARIABLES lists, latched, hidden, claim, op, arg, out
vars == <<lists, latched, hidden, claim, op, arg, out>>
None == <<"none", 0>>
B(b) == IF b THEN 1 ELSE 0
Init == /\ lists = [l \in Lists |-> <<>>] /\ latched = FALSE /\ hidden = {}
        /\ claim = [t \in Threads |-> 0] /\ op = [t \in Threads |-> "idle"]
        /\ arg = [t \in Threads |-> 0] /\ out = [t \in Threads |-> None]
In(s, x) == \E i \in 1..Len(s) : s[i] = x
Linked(x) == \E l \in Lists : In(lists[l], x)
Claimed(x) == \E t \in Threads : claim[t] = x
Without(s, x) == SelectSeq(s, LAMBDA y : y # x)
\* hidden: set of <<item, "b">> (push_back in flight) / <<item, "f">> (push_front_unless_latched in flight)
IsHidden(x) == <<x, "b">> \in hidden \/ <<x, "f">> \in hidden
\* what a lock-free reader of the head sees: skip a hidden item in front, stop at the first hidden item behind
RECURSIVE UpToHidden(_)
UpToHidden(s) == IF s = <<>> \/ IsHidden(Head(s)) THEN <<>> ELSE <<Head(s)>> \o UpToHidden(Tail(s))
Visible(s) == IF s # <<>> /\ <<Head(s), "f">> \in hidden THEN UpToHidden(Tail(s)) ELSE UpToHidden(s)
\* the step that produces the result may also be the step in which the call returns
Result(t, r) == /\ out' = [out EXCEPT ![t] = r]
                /\ \/ UNCHANGED <<op, arg>>
                   \/ claim'[t] = 0 /\ op' = [op EXCEPT ![t] = "idle"] /\ arg' = [arg EXCEPT ![t] = 0]
Call(t) == /\ op[t] = "idle"
           /\ \E k \in {"push", "pop", "remove", "pfront", "drain", "unlatch"} : op' = [op EXCEPT ![t] = k]
           /\ \E x \in Items \cup Lists : arg' = [arg EXCEPT ![t] = x]
           /\ out' = [out EXCEPT ![t] = None] /\ UNCHANGED <<lists, latched, hidden, claim>>
Return(t) == /\ op[t] # "idle" /\ out[t] # None /\ claim[t] = 0
             /\ op' = [op EXCEPT ![t] = "idle"] /\ arg' = [arg EXCEPT ![t] = 0]
             /\ UNCHANGED <<lists, latched, hidden, claim, out>>
Pending(t, k) == op[t] = k /\ out[t] = None
PushLink(t) == /\ Pending(t, "push") /\ arg[t] \in Items /\ ~Linked(arg[t])
               /\ lists' = [lists EXCEPT ![0] = Append(@, arg[t])] /\ hidden' = hidden \cup {<<arg[t], "b">>}
               /\ UNCHANGED <<latched, claim, op, arg, out>>
PushPublish(t) == /\ Pending(t, "push") /\ <<arg[t], "b">> \in hidden
                  /\ hidden' = hidden \ {<<arg[t], "b">>}
                  /\ Result(t, <<"push", 1>>) /\ UNCHANGED <<lists, latched, claim>>
PopNull(t) == /\ Pending(t, "pop") /\ claim[t] = 0 /\ arg[t] \in Lists /\ lists[arg[t]] = <<>>
              /\ Result(t, <<"pop", 0>>) /\ UNCHANGED <<lists, latched, hidden, claim>>
PopClaim(t) == /\ Pending(t, "pop") /\ claim[t] = 0 /\ arg[t] \in Lists /\ lists[arg[t]] # <<>>
               /\ ~Claimed(Head(lists[arg[t]])) /\ ~IsHidden(Head(lists[arg[t]]))
               /\ claim' = [claim EXCEPT ![t] = Head(lists[arg[t]])]
               /\ UNCHANGED <<lists, latched, hidden, op, arg, out>>
PopUnlink(t) == /\ Pending(t, "pop") /\ claim[t] # 0 /\ In(lists[arg[t]], claim[t])
                /\ lists' = [lists EXCEPT ![arg[t]] = Without(@, claim[t])]
                /\ claim' = [claim EXCEPT ![t] = 0]
                /\ Result(t, <<"pop", claim[t]>>) /\ UNCHANGED <<latched, hidden>>
RemClaim(t) == /\ Pending(t, "remove") /\ claim[t] = 0 /\ Linked(arg[t]) /\ ~Claimed(arg[t])
               /\ claim' = [claim EXCEPT ![t] = arg[t]]
               /\ UNCHANGED <<lists, latched, hidden, op, arg, out>>
RemUnlink(t) == /\ Pending(t, "remove") /\ claim[t] # 0 /\ claim[t] = arg[t]
                /\ lists' = [l \in Lists |-> Without(lists[l], arg[t])]
                /\ claim' = [claim EXCEPT ![t] = 0]
                /\ Result(t, <<"remove", 1>>) /\ UNCHANGED <<latched, hidden>>
RemFail(t) == /\ Pending(t, "remove") /\ claim[t] = 0 /\ (~Linked(arg[t]) \/ Claimed(arg[t]))
              /\ Result(t, <<"remove", 0>>) /\ UNCHANGED <<lists, latched, hidden, claim>>
PFrontLatched(t) == /\ Pending(t, "pfront") /\ arg[t] \in Items /\ latched /\ ~Linked(arg[t])
                    /\ Result(t, <<"pfront", 0>>) /\ UNCHANGED <<lists, latched, hidden, claim>>
PFrontLink(t) == /\ Pending(t, "pfront") /\ arg[t] \in Items /\ ~latched /\ ~Linked(arg[t])
                 /\ lists' = [lists EXCEPT ![0] = <<arg[t]>> \o @] /\ hidden' = hidden \cup {<<arg[t], "f">>}
                 /\ UNCHANGED <<latched, claim, op, arg, out>>
PFrontPublish(t) == /\ Pending(t, "pfront") /\ <<arg[t], "f">> \in hidden
                    /\ hidden' = hidden \ {<<arg[t], "f">>}
                    /\ Result(t, <<"pfront", 1>>) /\ UNCHANGED <<lists, latched, claim>>
LatchAndDrain(t) ==
  /\ Pending(t, "drain") /\ arg[t] \in Lists \ {0}
  /\ IF latched THEN /\ Result(t, <<"drain", 0>>) /\ UNCHANGED <<lists, latched>>
                ELSE /\ lists[arg[t]] = <<>> /\ latched' = TRUE
                     /\ lists' = [lists EXCEPT ![arg[t]] = lists[0], ![0] = <<>>]
                     /\ Result(t, <<"drain", 1>>)
  /\ UNCHANGED <<claim, hidden>>
Unlatch(t) == /\ Pending(t, "unlatch")
              /\ IF latched THEN /\ lists[0] = <<>> /\ latched' = FALSE /\ Result(t, <<"unlatch", 1>>)
                            ELSE /\ UNCHANGED latched /\ Result(t, <<"unlatch", 0>>)
              /\ UNCHANGED <<lists, claim, hidden>>
\* empty() / is_latched(): a single load; call, effect and return in one step
Instant(t) == /\ op[t] = "idle"
              /\ out' \in {[out EXCEPT ![t] = <<"empty", B(Visible(lists[0]) = <<>>)>>], [out EXCEPT ![t] = <<"islatched", B(latched)>>]}
              /\ UNCHANGED <<lists, latched, hidden, claim, op, arg>>
Next == \E t \in Threads : \/ Call(t) \/ Return(t) \/ PushLink(t) \/ PushPublish(t) \/ PopNull(t) \/ PopClaim(t) \/ PopUnlink(t)
                           \/ RemClaim(t) \/ RemUnlink(t) \/ RemFail(t) \/ PFrontLatched(t) \/ PFrontLink(t) \/ PFrontPublish(t)
                           \/ LatchAndDrain(t) \/ Unlatch(t) \/ Instant(t)
Spec == Init /\ [][Next]_vars
=============================================================================
