------------------------------ MODULE AtomicIntrusiveList -----------------------
(***************************************************************************)
(* source/atomic_intrusive_list.cpp, atomic_intrusive_list_impl<false>:    *)
(* push_back, pop_front, try_remove at single-atomic-access granularity    *)
(* (the operations v2::async_mutex uses).  Node 0 is the sentinel.  A link *)
(* is "head" or <<"rest", n>>; a link word holds (val, locked).            *)
(* KillNodes = TRUE models the worst case the callers permit: an item's    *)
(* storage dies right after the thread that obtained it (pop_front /       *)
(* successful try_remove) returns, since completing a waiter destroys its  *)
(* operation state; NoDeadAccess then fails (stale READ in                 *)
(* try_lock_checking - an out-of-scope observation for C15).  With         *)
(* KillNodes = FALSE the module checks the list protocol itself:           *)
(*   PopXorRemove   an item is obtained by exactly one of pop/try_remove   *)
(*   AtRest         no link lock held at rest; chain = live unobtained     *)
(*   NoItemLost     at rest every pushed item is in the chain or obtained  *)
(***************************************************************************)
EXTENDS Naturals, Sequences, FiniteSets, TLC
CONSTANTS KillNodes, Items, Threads, ProgSet    \* ProgSet: set of [Threads -> Seq(<<op, item>>)], op in {"push","pop","remove"}
Nodes == Items \cup {0}
NULL == <<"null", 0>>
HEAD == <<"head", 0>>
NilV == 99                                  \* the null link value (0 is the sentinel node)
VARIABLES Progs,      \* the chosen program
          headL,      \* [val, locked]
          restL,      \* [Nodes -> [val, locked]]
          self,       \* [Nodes -> link | NULL]
          alive,      \* [Items -> BOOLEAN]
          pc, ip, loc,\* per thread: label, program index, locals
          got,        \* [Items -> set of <<thread, how>>] who obtained the item
          bad
vars == <<Progs, headL, restL, self, alive, pc, ip, loc, got, bad>>
Rest(n) == <<"rest", n>>
LinkVal(l) == IF l = HEAD THEN headL ELSE restL[l[2]]
SetLink(l, v) == IF l = HEAD THEN /\ headL' = v /\ UNCHANGED restL
                 ELSE /\ restL' = [restL EXCEPT ![l[2]] = v] /\ UNCHANGED headL
NodeOfLink(l) == IF l = HEAD THEN 0 ELSE l[2]          \* the node whose storage holds the link
\* touching a field of item n (its self or its rest word) requires its storage to be alive
T(n) == IF n \in Items /\ ~alive[n] /\ bad = "ok" THEN "access to a destroyed node" ELSE bad
TL(l) == T(NodeOfLink(l))
L0 == [link |-> HEAD, exp |-> HEAD, val |-> 0, first |-> 0, second |-> 0, ret |-> "", item |-> 0]
Init == /\ Progs \in ProgSet
        /\ headL = [val |-> 0, locked |-> FALSE]
        /\ restL = [n \in Nodes |-> [val |-> NilV, locked |-> FALSE]]
        /\ self = [n \in Nodes |-> IF n = 0 THEN HEAD ELSE NULL]
        /\ alive = [i \in Items |-> TRUE]
        /\ pc = [t \in Threads |-> "next"] /\ ip = [t \in Threads |-> 1]
        /\ loc = [t \in Threads |-> L0]
        /\ got = [i \in Items |-> {}] /\ bad = "ok"
Go(t, l) == pc' = [pc EXCEPT ![t] = l]
Set(t, f, v) == loc' = [loc EXCEPT ![t][f] = v]
Keep == UNCHANGED <<headL, restL, self, alive, ip, got>>

NextOp(t) ==
  /\ pc[t] = "next" /\ ip[t] <= Len(Progs[t])
  /\ LET o == Progs[t][ip[t]] IN
     /\ ip' = [ip EXCEPT ![t] = @ + 1]
     /\ loc' = [loc EXCEPT ![t] = [L0 EXCEPT !.item = o[2]]]
     /\ Go(t, IF o[1] = "push" THEN "pb0" ELSE IF o[1] = "pop" THEN "pf1" ELSE "tr1")
  /\ UNCHANGED <<headL, restL, self, alive, got, bad>>

\* ---- try_lock_checking(link, monitored = node m's self, expected) ; result continues at okL / failL
TLC_a(t, m, okPrefix, failL) ==      \* first check of the monitored pointer
  /\ pc[t] = okPrefix \o "_a" /\ bad' = T(m)
  /\ IF self[m] # loc[t].exp THEN Go(t, failL) ELSE Go(t, okPrefix \o "_b")
  /\ UNCHANGED <<headL, restL, self, alive, ip, loc, got>>
TLC_b(t, m, okPrefix, failL) ==      \* load the link word (spins while locked unless monitored changed)
  /\ pc[t] = okPrefix \o "_b" /\ bad' = TL(loc[t].link)
  /\ IF LinkVal(loc[t].link).locked
     THEN /\ self[m] # loc[t].exp /\ Go(t, failL) /\ UNCHANGED loc
     ELSE /\ Set(t, "val", LinkVal(loc[t].link).val) /\ Go(t, okPrefix \o "_c")
  /\ UNCHANGED <<headL, restL, self, alive, ip, got>>
TLC_c(t, m, okPrefix, failL) ==      \* fence; re-check monitored
  /\ pc[t] = okPrefix \o "_c" /\ bad' = T(m)
  /\ IF self[m] # loc[t].exp THEN Go(t, failL) ELSE Go(t, okPrefix \o "_d")
  /\ UNCHANGED <<headL, restL, self, alive, ip, loc, got>>
TLC_d(t, okPrefix, okL) ==           \* CAS (val, unlocked) -> (val, locked)
  /\ pc[t] = okPrefix \o "_d" /\ bad' = TL(loc[t].link)
  /\ IF LinkVal(loc[t].link) = [val |-> loc[t].val, locked |-> FALSE]
     THEN /\ SetLink(loc[t].link, [val |-> loc[t].val, locked |-> TRUE]) /\ Go(t, okL)
     ELSE /\ UNCHANGED <<headL, restL>> /\ Go(t, okPrefix \o "_b")
  /\ UNCHANGED <<self, alive, ip, loc, got>>

\* ---- push_back(item)
PB0(t) == /\ pc[t] = "pb0" /\ restL' = [restL EXCEPT ![loc[t].item] = [val |-> 0, locked |-> FALSE]]
          /\ Go(t, "pb1") /\ UNCHANGED <<headL, self, alive, ip, loc, got, bad>>
PB1(t) == /\ pc[t] = "pb1" /\ loc' = [loc EXCEPT ![t].link = self[0], ![t].exp = self[0]]
          /\ Go(t, "pbk_a") /\ Keep /\ UNCHANGED bad
PB3(t) == /\ pc[t] = "pb3" /\ self' = [self EXCEPT ![loc[t].item] = loc[t].link] /\ Go(t, "pb4")
          /\ UNCHANGED <<headL, restL, alive, ip, loc, got, bad>>
PB4(t) == /\ pc[t] = "pb4" /\ self' = [self EXCEPT ![0] = Rest(loc[t].item)] /\ Go(t, "pb5")
          /\ UNCHANGED <<headL, restL, alive, ip, loc, got, bad>>
PB5(t) == /\ pc[t] = "pb5" /\ bad' = TL(loc[t].link)
          /\ SetLink(loc[t].link, [val |-> loc[t].item, locked |-> FALSE]) /\ Go(t, "next")
          /\ UNCHANGED <<self, alive, ip, loc, got>>

\* ---- pop_front
PF1(t) == /\ pc[t] = "pf1" /\ ~headL.locked
          /\ IF headL.val = 0 THEN /\ UNCHANGED headL /\ Go(t, "next")        \* empty: lock+unlock merged
             ELSE /\ headL' = [headL EXCEPT !.locked = TRUE] /\ Go(t, "pf3")
          /\ Set(t, "first", headL.val) /\ UNCHANGED <<restL, self, alive, ip, got, bad>>
PF3(t) == /\ pc[t] = "pf3" /\ bad' = T(loc[t].first) /\ ~restL[loc[t].first].locked
          /\ restL' = [restL EXCEPT ![loc[t].first].locked = TRUE]
          /\ Set(t, "second", restL[loc[t].first].val) /\ Go(t, "pf4")
          /\ UNCHANGED <<headL, self, alive, ip, got>>
PF4(t) == /\ pc[t] = "pf4" /\ bad' = T(loc[t].second)
          /\ self' = [self EXCEPT ![loc[t].second] = HEAD] /\ Go(t, "pf5")
          /\ UNCHANGED <<headL, restL, alive, ip, loc, got>>
PF5(t) == /\ pc[t] = "pf5" /\ bad' = T(loc[t].first)
          /\ self' = [self EXCEPT ![loc[t].first] = NULL] /\ Go(t, "pf6")
          /\ UNCHANGED <<headL, restL, alive, ip, loc, got>>
PF6(t) == /\ pc[t] = "pf6" /\ headL' = [val |-> loc[t].second, locked |-> FALSE] /\ Go(t, "pf7")
          /\ UNCHANGED <<restL, self, alive, ip, loc, got, bad>>
PF7(t) == /\ pc[t] = "pf7" /\ bad' = T(loc[t].first)
          /\ restL' = [restL EXCEPT ![loc[t].first] = [val |-> NilV, locked |-> FALSE]]
          /\ got' = [got EXCEPT ![loc[t].first] = @ \cup {<<t, "pop">>}] /\ Go(t, "kill")
          /\ Set(t, "item", loc[t].first) /\ UNCHANGED <<headL, self, alive, ip>>
\* the caller resumes the waiter, whose completion destroys the operation containing the node
Kill(t) == /\ pc[t] = "kill" /\ alive' = [alive EXCEPT ![loc[t].item] = ~KillNodes] /\ Go(t, "next")
           /\ UNCHANGED <<headL, restL, self, ip, loc, got, bad>>

\* ---- try_remove(item)  (called by the item's own stop(): the item is alive during the call)
TR1(t) == /\ pc[t] = "tr1"
          /\ IF self[loc[t].item] = NULL THEN /\ Go(t, "next") /\ UNCHANGED loc
             ELSE /\ loc' = [loc EXCEPT ![t].link = self[loc[t].item], ![t].exp = self[loc[t].item]] /\ Go(t, "trk_a")
          /\ Keep /\ UNCHANGED bad
TR3(t) == /\ pc[t] = "tr3"
          /\ IF self[loc[t].item] # loc[t].link
             THEN /\ bad' = TL(loc[t].link)
                  /\ SetLink(loc[t].link, [val |-> loc[t].val, locked |-> FALSE])
                  /\ Go(t, IF self[loc[t].item] = NULL THEN "next" ELSE "tr1")
             ELSE /\ UNCHANGED <<headL, restL, bad>> /\ Go(t, "tr4")
          /\ UNCHANGED <<self, alive, ip, loc, got>>
TR4(t) == /\ pc[t] = "tr4" /\ ~restL[loc[t].item].locked
          /\ restL' = [restL EXCEPT ![loc[t].item].locked = TRUE]
          /\ Set(t, "second", restL[loc[t].item].val) /\ Go(t, "tr5")
          /\ UNCHANGED <<headL, self, alive, ip, got, bad>>
TR5(t) == /\ pc[t] = "tr5" /\ bad' = T(loc[t].second)
          /\ self' = [self EXCEPT ![loc[t].second] = loc[t].link] /\ Go(t, "tr6")
          /\ UNCHANGED <<headL, restL, alive, ip, loc, got>>
TR6(t) == /\ pc[t] = "tr6" /\ self' = [self EXCEPT ![loc[t].item] = NULL] /\ Go(t, "tr7")
          /\ UNCHANGED <<headL, restL, alive, ip, loc, got, bad>>
TR7(t) == /\ pc[t] = "tr7" /\ bad' = TL(loc[t].link)
          /\ SetLink(loc[t].link, [val |-> loc[t].second, locked |-> FALSE]) /\ Go(t, "tr8")
          /\ UNCHANGED <<self, alive, ip, loc, got>>
TR8(t) == /\ pc[t] = "tr8"
          /\ restL' = [restL EXCEPT ![loc[t].item] = [val |-> NilV, locked |-> FALSE]]
          /\ got' = [got EXCEPT ![loc[t].item] = @ \cup {<<t, "remove">>}] /\ Go(t, "kill")
          /\ UNCHANGED <<headL, self, alive, ip, loc, bad>>

Step(t) == \/ NextOp(t) \/ PB0(t) \/ PB1(t) \/ PB3(t) \/ PB4(t) \/ PB5(t)
           \/ TLC_a(t, 0, "pbk", "pb1") \/ TLC_b(t, 0, "pbk", "pb1") \/ TLC_c(t, 0, "pbk", "pb1") \/ TLC_d(t, "pbk", "pb3")
           \/ PF1(t) \/ PF3(t) \/ PF4(t) \/ PF5(t) \/ PF6(t) \/ PF7(t) \/ Kill(t)
           \/ TR1(t) \/ TR3(t) \/ TR4(t) \/ TR5(t) \/ TR6(t) \/ TR7(t) \/ TR8(t)
           \/ TLC_a(t, loc[t].item, "trk", "tr1") \/ TLC_b(t, loc[t].item, "trk", "tr1")
           \/ TLC_c(t, loc[t].item, "trk", "tr1") \/ TLC_d(t, "trk", "tr3")
AllDone == \A t \in Threads : pc[t] = "next" /\ ip[t] > Len(Progs[t])
Next == (\E t \in Threads : Step(t) /\ UNCHANGED Progs) \/ (AllDone /\ UNCHANGED vars)
Spec == Init /\ [][Next]_vars

NoDeadAccess == bad = "ok"
PopXorRemove == \A i \in Items : Cardinality(got[i]) <= 1
RECURSIVE Walk(_, _)
Walk(n, k) == IF n = 0 \/ k = 0 THEN <<>> ELSE <<n>> \o Walk(restL[n].val, k - 1)
AtRest == AllDone => /\ ~headL.locked /\ \A n \in Nodes : ~restL[n].locked
                     /\ LET chain == Walk(headL.val, Cardinality(Items) + 1) IN
                        /\ \A i \in 1..Len(chain) : alive[chain[i]] /\ got[chain[i]] = {}
Pushed == {i \in Items : \E t \in Threads : \E k \in 1..Len(Progs[t]) : Progs[t][k] = <<"push", i>>}
NoItemLost == AllDone => LET chain == Walk(headL.val, Cardinality(Items) + 1) IN
                         \A i \in Pushed : (\E k \in 1..Len(chain) : chain[k] = i) # (got[i] # {})
\* the sentinel's back-pointer designates the last link at rest
SentinelBack == AllDone => LinkVal(self[0]).val = 0
=============================================================================
