------------------------- MODULE AtomicIntrusiveList -------------------------
(***************************************************************************)
(* source/atomic_intrusive_list.cpp at single-atomic-access granularity:   *)
(*   push_back, pop_front, try_remove, empty        (v2::async_mutex)      *)
(*   push_front_unless_latched, latch_and_drain, unlatch, is_latched,      *)
(*   pop_front of the drained stack-local list      (v2 manual reset event)*)
(* List 0 is the shared list (sentinel node S(0) = 10, latch sentinel      *)
(* LS = 20); lists 1, 2 are stack-local targets of latch_and_drain         *)
(* (sentinels 11, 12).  A link is <<"head", l>> or <<"rest", n>>; a link   *)
(* word lk[link] holds (val, locked) - the pointer and the per-link lock   *)
(* bit; self[n] is the node's back-pointer (the link that references it)   *)
(* or NULL.  NilV is the null pointer value.                               *)
(* lock(link) (TTAS loop) is one awaiting step; try_lock_checking is the   *)
(* four accesses tk_a..tk_d (monitored load, link load, monitored re-load  *)
(* after the fence, CAS).                                                  *)
(* out[t] is the value the current call returns (history variable, set in  *)
(* the step that determines it); prim/AtomicIntrusiveListRef maps this     *)
(* module onto prim/AbstractList.                                          *)
(* KillNodes = TRUE models the worst case the callers permit: an item's    *)
(* storage dies right after the thread that obtained it (pop_front /       *)
(* successful try_remove) returns, since completing a waiter destroys its  *)
(* operation state; NoDeadAccess then fails (stale READ in                 *)
(* try_lock_checking - an out-of-scope observation for C15/C16).  With     *)
(* KillNodes = FALSE the module checks the list protocol itself:           *)
(*   PopXorRemove   an item is obtained by at most one pop/try_remove      *)
(*   AtRest         no link lock held at rest; chains = live unobtained    *)
(*   NoItemLost     at rest every pushed item is in a chain xor obtained   *)
(*   SentinelBack   at rest each sentinel's back-pointer is the last link  *)
(***************************************************************************)
EXTENDS Naturals, Sequences, FiniteSets, TLC
CONSTANTS KillNodes, Items, Threads, ProgSet
\* ProgSet: set of [Threads -> Seq(<<op, x>>)]; op: "push" i | "pop" l | "remove" i | "empty" 0 |
\*          "pfront" i | "drain" l | "unlatch" 0 | "islatched" 0
Lists == {0, 1, 2}
S(l) == 10 + l
LS == 20
NilV == 99
Sent == {S(l) : l \in Lists} \cup {LS}
Nodes == Items \cup Sent
NULL == <<"null", 0>>
Hd(l) == <<"head", l>>
Rest(n) == <<"rest", n>>
Links == {Hd(l) : l \in Lists} \cup {Rest(n) : n \in Nodes}
VARIABLES Progs,      \* the chosen program
          lk,         \* [Links -> [val, locked]]
          self,       \* [Nodes -> link | NULL]
          alive,      \* [Items -> BOOLEAN]
          pc, ip, loc,\* per thread: label, program index, locals
          got,        \* [Items -> set of <<thread, how>>] who obtained the item
          out,        \* [Threads -> result of the current / last call]
          bad
vars == <<Progs, lk, self, alive, pc, ip, loc, got, out, bad>>
U(v) == [val |-> v, locked |-> FALSE]
K(v) == [val |-> v, locked |-> TRUE]
None == <<"none", 0>>
B(b) == IF b THEN 1 ELSE 0
NodeOfLink(l) == IF l[1] = "head" THEN 0 ELSE l[2]     \* the node whose storage holds the link (0: the list object)
\* touching a field of item n (its self or its rest word) requires its storage to be alive
T(n) == IF n \in Items /\ ~alive[n] /\ bad = "ok" THEN "access to a destroyed node" ELSE bad
TL(l) == T(NodeOfLink(l))
IsSentOf(l, n) == IF l = 0 THEN n \in {S(0), LS} ELSE n = S(l)
L0 == [link |-> Hd(0), exp |-> Hd(0), mon |-> 0, okL |-> "", failL |-> "", val |-> 0, first |-> 0, second |-> 0,
       item |-> 0, lst |-> 0, nul |-> FALSE]
Init == /\ Progs \in ProgSet
        /\ lk = [l \in Links |-> IF l[1] = "head" THEN U(S(l[2])) ELSE U(NilV)]
        /\ self = [n \in Nodes |-> IF n \in Sent \ {LS} THEN Hd(n - 10) ELSE NULL]
        /\ alive = [i \in Items |-> TRUE]
        /\ pc = [t \in Threads |-> "next"] /\ ip = [t \in Threads |-> 1]
        /\ loc = [t \in Threads |-> L0]
        /\ got = [i \in Items |-> {}] /\ out = [t \in Threads |-> None] /\ bad = "ok"
\* one step of thread t: new label, new link words, new back-pointers, new locals, new lifetime verdict
Stp(t, npc, nlk, nself, nloc, nbad) ==
  /\ pc' = [pc EXCEPT ![t] = npc] /\ lk' = nlk /\ self' = nself /\ loc' = [loc EXCEPT ![t] = nloc] /\ bad' = nbad
  /\ UNCHANGED <<alive, ip, got, out>>
StpO(t, npc, nlk, nself, nloc, nbad, r) ==
  /\ pc' = [pc EXCEPT ![t] = npc] /\ lk' = nlk /\ self' = nself /\ loc' = [loc EXCEPT ![t] = nloc] /\ bad' = nbad
  /\ out' = [out EXCEPT ![t] = r] /\ UNCHANGED <<alive, ip, got>>
StpG(t, npc, nlk, nloc, nbad, i, how) ==
  /\ pc' = [pc EXCEPT ![t] = npc] /\ lk' = nlk /\ loc' = [loc EXCEPT ![t] = nloc] /\ bad' = nbad
  /\ got' = [got EXCEPT ![i] = @ \cup {<<t, how>>}] /\ UNCHANGED <<self, alive, ip, out>>
L(t) == loc[t]
Instant(k) == k \in {"empty", "islatched"}
FirstLabel(k) == CASE k = "push" -> "pb0" [] k = "pop" -> "pf1" [] k = "remove" -> "tr1"
                   [] k = "pfront" -> "pu1" [] k = "drain" -> "ld1" [] k = "unlatch" -> "ul1"
NextOp(t) ==
  /\ pc[t] = "next" /\ ip[t] <= Len(Progs[t])
  /\ LET o == Progs[t][ip[t]] IN
     /\ ip' = [ip EXCEPT ![t] = @ + 1]
     /\ IF Instant(o[1])
        THEN /\ out' = [out EXCEPT ![t] = IF o[1] = "empty" THEN <<"empty", B(IsSentOf(0, lk[Hd(0)].val))>>
                                                            ELSE <<"islatched", B(lk[Hd(0)].val = LS)>>]
             /\ UNCHANGED <<pc, loc>>
        ELSE /\ out' = [out EXCEPT ![t] = None]
             /\ loc' = [loc EXCEPT ![t] = [L0 EXCEPT !.item = o[2], !.lst = o[2]]]
             /\ pc' = [pc EXCEPT ![t] = FirstLabel(o[1])]
  /\ UNCHANGED <<lk, self, alive, got, bad>>

\* ---- try_lock_checking(L.link, monitored = self[L.mon], expected = L.exp) ; continues at L.okL / L.failL
TK_a(t) == /\ pc[t] = "tk_a"
           /\ Stp(t, IF self[L(t).mon] # L(t).exp THEN L(t).failL ELSE "tk_b", lk, self, L(t), T(L(t).mon))
TK_b(t) == /\ pc[t] = "tk_b"        \* load the link word (spins while locked unless the monitored pointer changed)
           /\ IF lk[L(t).link].locked
              THEN /\ self[L(t).mon] # L(t).exp /\ Stp(t, L(t).failL, lk, self, L(t), TL(L(t).link))
              ELSE Stp(t, "tk_c", lk, self, [L(t) EXCEPT !.val = lk[L(t).link].val], TL(L(t).link))
TK_c(t) == /\ pc[t] = "tk_c"        \* fence; re-check monitored
           /\ Stp(t, IF self[L(t).mon] # L(t).exp THEN L(t).failL ELSE "tk_d", lk, self, L(t), T(L(t).mon))
TK_d(t) == /\ pc[t] = "tk_d"        \* CAS (val, unlocked) -> (val, locked)
           /\ IF lk[L(t).link] = U(L(t).val)
              THEN Stp(t, L(t).okL, [lk EXCEPT ![L(t).link] = K(L(t).val)], self, L(t), TL(L(t).link))
              ELSE Stp(t, "tk_b", lk, self, L(t), TL(L(t).link))
\* ---- push_back(item) on list 0
PB0(t) == /\ pc[t] = "pb0" /\ Stp(t, "pb1", [lk EXCEPT ![Rest(L(t).item)] = U(S(0))], self, L(t), bad)
PB1(t) == /\ pc[t] = "pb1"
          /\ Stp(t, "tk_a", lk, self, [L(t) EXCEPT !.link = self[S(0)], !.exp = self[S(0)], !.mon = S(0), !.okL = "pb3", !.failL = "pb1"], bad)
PB3(t) == /\ pc[t] = "pb3" /\ Stp(t, "pb4", lk, [self EXCEPT ![L(t).item] = L(t).link], L(t), bad)
\* HintAfterUnlock (default FALSE; overridden only in AtomicIntrusiveListHint.cfg) is a deliberately WRONG variant used as a
\* non-vacuity check: the tail hint sentinel_.self is swung after the predecessor link has been unlocked instead of inside its
\* critical section.  try_lock_checking's re-validation is then unsound (a second pusher takes the same link; a popper
\* resets the hint which the late store then points into the popped node) and TLC must refute NoItemLost / SentinelBack.
HintAfterUnlock == FALSE
PB4(t) == /\ pc[t] = "pb4"
          /\ IF HintAfterUnlock THEN Stp(t, "pb5", [lk EXCEPT ![L(t).link] = U(L(t).item)], self, L(t), TL(L(t).link))
                                ELSE Stp(t, "pb5", lk, [self EXCEPT ![S(0)] = Rest(L(t).item)], L(t), bad)
PB5(t) == /\ pc[t] = "pb5"
          /\ IF HintAfterUnlock THEN StpO(t, "next", lk, [self EXCEPT ![S(0)] = Rest(L(t).item)], L(t), bad, <<"push", 1>>)
                                ELSE StpO(t, "next", [lk EXCEPT ![L(t).link] = U(L(t).item)], self, L(t), TL(L(t).link), <<"push", 1>>)
\* ---- pop_front of list L.lst
PF1(t) == /\ pc[t] = "pf1" /\ ~lk[Hd(L(t).lst)].locked
          /\ LET f == lk[Hd(L(t).lst)].val IN
             IF IsSentOf(L(t).lst, f)                              \* empty: lock + unlock merged
             THEN StpO(t, "next", lk, self, L(t), bad, <<"pop", 0>>)
             ELSE Stp(t, "pf3", [lk EXCEPT ![Hd(L(t).lst)] = K(f)], self, [L(t) EXCEPT !.first = f], bad)
PF3(t) == /\ pc[t] = "pf3" /\ ~lk[Rest(L(t).first)].locked
          /\ Stp(t, "pf4", [lk EXCEPT ![Rest(L(t).first)].locked = TRUE], self,
                 [L(t) EXCEPT !.second = lk[Rest(L(t).first)].val], T(L(t).first))
PF4(t) == /\ pc[t] = "pf4" /\ Stp(t, "pf5", lk, [self EXCEPT ![L(t).second] = Hd(L(t).lst)], L(t), T(L(t).second))
PF5(t) == /\ pc[t] = "pf5" /\ Stp(t, "pf6", lk, [self EXCEPT ![L(t).first] = NULL], L(t), T(L(t).first))
PF6(t) == /\ pc[t] = "pf6"
          /\ StpO(t, "pf7", [lk EXCEPT ![Hd(L(t).lst)] = U(L(t).second)], self, L(t), bad, <<"pop", L(t).first>>)
PF7(t) == /\ pc[t] = "pf7"
          /\ StpG(t, "kill", [lk EXCEPT ![Rest(L(t).first)] = U(NilV)], [L(t) EXCEPT !.item = L(t).first], T(L(t).first), L(t).first, "pop")
\* the caller resumes the waiter, whose completion destroys the operation containing the node
Kill(t) == /\ pc[t] = "kill" /\ alive' = [alive EXCEPT ![L(t).item] = ~KillNodes] /\ pc' = [pc EXCEPT ![t] = "next"]
           /\ UNCHANGED <<lk, self, ip, loc, got, out, bad>>
\* ---- try_remove(item)  (called by the item's own stop(): the item is alive during the call)
TR1(t) == /\ pc[t] = "tr1"
          /\ IF self[L(t).item] = NULL
             THEN StpO(t, "next", lk, self, L(t), T(L(t).item), <<"remove", 0>>)
             ELSE Stp(t, "tk_a", lk, self, [L(t) EXCEPT !.link = self[L(t).item], !.exp = self[L(t).item], !.mon = L(t).item,
                                                        !.okL = "tr3", !.failL = "tr1"], T(L(t).item))
TR3(t) == /\ pc[t] = "tr3"          \* re-load item->self under the lock
          /\ IF self[L(t).item] = L(t).link THEN Stp(t, "tr4", lk, self, L(t), bad)
             ELSE Stp(t, "tr3u", lk, self, [L(t) EXCEPT !.nul = (self[L(t).item] = NULL)], bad)
TR3u(t) == /\ pc[t] = "tr3u"        \* unlock(*head_ptr, head_val); return false / retry
           /\ IF L(t).nul THEN StpO(t, "next", [lk EXCEPT ![L(t).link] = U(L(t).val)], self, L(t), TL(L(t).link), <<"remove", 0>>)
                          ELSE Stp(t, "tr1", [lk EXCEPT ![L(t).link] = U(L(t).val)], self, L(t), TL(L(t).link))
TR4(t) == /\ pc[t] = "tr4" /\ ~lk[Rest(L(t).item)].locked
          /\ Stp(t, "tr5", [lk EXCEPT ![Rest(L(t).item)].locked = TRUE], self, [L(t) EXCEPT !.second = lk[Rest(L(t).item)].val], bad)
TR5(t) == /\ pc[t] = "tr5" /\ Stp(t, "tr6", lk, [self EXCEPT ![L(t).second] = L(t).link], L(t), T(L(t).second))
TR6(t) == /\ pc[t] = "tr6" /\ Stp(t, "tr7", lk, [self EXCEPT ![L(t).item] = NULL], L(t), bad)
TR7(t) == /\ pc[t] = "tr7"
          /\ StpO(t, "tr8", [lk EXCEPT ![L(t).link] = U(L(t).second)], self, L(t), TL(L(t).link), <<"remove", 1>>)
TR8(t) == /\ pc[t] = "tr8" /\ StpG(t, "kill", [lk EXCEPT ![Rest(L(t).item)] = U(NilV)], L(t), bad, L(t).item, "remove")
\* ---- push_front_unless_latched(item) on list 0
PU1(t) == /\ pc[t] = "pu1" /\ ~lk[Hd(0)].locked
          /\ LET f == lk[Hd(0)].val IN
             IF f = LS THEN StpO(t, "next", lk, self, L(t), bad, <<"pfront", 0>>)
                       ELSE Stp(t, "pu2", [lk EXCEPT ![Hd(0)] = K(f)], self, [L(t) EXCEPT !.first = f], bad)
PU2(t) == /\ pc[t] = "pu2" /\ Stp(t, "pu3", [lk EXCEPT ![Rest(L(t).item)] = U(L(t).first)], self, L(t), bad)
PU3(t) == /\ pc[t] = "pu3" /\ Stp(t, "pu4", lk, [self EXCEPT ![L(t).first] = Rest(L(t).item)], L(t), T(L(t).first))
PU4(t) == /\ pc[t] = "pu4" /\ Stp(t, "pu5", lk, [self EXCEPT ![L(t).item] = Hd(0)], L(t), bad)
PU5(t) == /\ pc[t] = "pu5" /\ StpO(t, "next", [lk EXCEPT ![Hd(0)] = U(L(t).item)], self, L(t), bad, <<"pfront", 1>>)
\* ---- latch_and_drain(target = list L.lst) on list 0
LD1(t) == /\ pc[t] = "ld1" /\ ~lk[Hd(0)].locked
          /\ LET f == lk[Hd(0)].val IN
             IF f = LS THEN StpO(t, "next", lk, self, L(t), bad, <<"drain", 0>>)
                       ELSE Stp(t, IF f = S(0) THEN "lde2" ELSE "lda", [lk EXCEPT ![Hd(0)] = K(f)], self, [L(t) EXCEPT !.first = f], bad)
LDe2(t) == /\ pc[t] = "lde2" /\ Stp(t, "lde3", lk, [self EXCEPT ![S(0)] = NULL], L(t), bad)
LDe3(t) == /\ pc[t] = "lde3" /\ Stp(t, "lde4", lk, [self EXCEPT ![LS] = Hd(0)], L(t), bad)
LDe4(t) == /\ pc[t] = "lde4" /\ StpO(t, "next", [lk EXCEPT ![Hd(0)] = U(LS)], self, L(t), bad, <<"drain", 1>>)
LDa(t) == /\ pc[t] = "lda"          \* lock the sentinel's predecessor link (the last real node's rest)
          /\ Stp(t, "tk_a", lk, self, [L(t) EXCEPT !.link = self[S(0)], !.exp = self[S(0)], !.mon = S(0), !.okL = "ld5", !.failL = "lda"], bad)
LD5(t) == /\ pc[t] = "ld5" /\ Stp(t, "ld6", lk, [self EXCEPT ![S(0)] = NULL], L(t), bad)
LD6(t) == /\ pc[t] = "ld6" /\ Stp(t, "ld7", lk, [self EXCEPT ![LS] = Hd(0)], L(t), bad)
LD7(t) == /\ pc[t] = "ld7" /\ Stp(t, "ld8", lk, [self EXCEPT ![S(L(t).lst)] = L(t).link], L(t), bad)
LD8(t) == /\ pc[t] = "ld8" /\ Stp(t, "ld9", [lk EXCEPT ![Hd(L(t).lst)] = U(L(t).first)], self, L(t), bad)
LD9(t) == /\ pc[t] = "ld9" /\ Stp(t, "ld10", lk, [self EXCEPT ![L(t).first] = Hd(L(t).lst)], L(t), T(L(t).first))
LD10(t) == /\ pc[t] = "ld10" /\ Stp(t, "ld11", [lk EXCEPT ![L(t).link] = U(S(L(t).lst))], self, L(t), TL(L(t).link))
LD11(t) == /\ pc[t] = "ld11" /\ StpO(t, "next", [lk EXCEPT ![Hd(0)] = U(LS)], self, L(t), bad, <<"drain", 1>>)
\* ---- unlatch() on list 0
UL1(t) == /\ pc[t] = "ul1" /\ ~lk[Hd(0)].locked
          /\ IF lk[Hd(0)].val = LS THEN Stp(t, "ul2", [lk EXCEPT ![Hd(0)] = K(LS)], self, L(t), bad)
                                   ELSE StpO(t, "next", lk, self, L(t), bad, <<"unlatch", 0>>)
UL2(t) == /\ pc[t] = "ul2" /\ Stp(t, "ul3", lk, [self EXCEPT ![LS] = NULL], L(t), bad)
UL3(t) == /\ pc[t] = "ul3" /\ Stp(t, "ul4", lk, [self EXCEPT ![S(0)] = Hd(0)], L(t), bad)
UL4(t) == /\ pc[t] = "ul4" /\ StpO(t, "next", [lk EXCEPT ![Hd(0)] = U(S(0))], self, L(t), bad, <<"unlatch", 1>>)

Step(t) == \/ NextOp(t) \/ TK_a(t) \/ TK_b(t) \/ TK_c(t) \/ TK_d(t)
           \/ PB0(t) \/ PB1(t) \/ PB3(t) \/ PB4(t) \/ PB5(t)
           \/ PF1(t) \/ PF3(t) \/ PF4(t) \/ PF5(t) \/ PF6(t) \/ PF7(t) \/ Kill(t)
           \/ TR1(t) \/ TR3(t) \/ TR3u(t) \/ TR4(t) \/ TR5(t) \/ TR6(t) \/ TR7(t) \/ TR8(t)
           \/ PU1(t) \/ PU2(t) \/ PU3(t) \/ PU4(t) \/ PU5(t)
           \/ LD1(t) \/ LDe2(t) \/ LDe3(t) \/ LDe4(t) \/ LDa(t) \/ LD5(t) \/ LD6(t) \/ LD7(t) \/ LD8(t) \/ LD9(t) \/ LD10(t) \/ LD11(t)
           \/ UL1(t) \/ UL2(t) \/ UL3(t) \/ UL4(t)
AllDone == \A t \in Threads : pc[t] = "next" /\ ip[t] > Len(Progs[t])
Next == (\E t \in Threads : Step(t) /\ UNCHANGED Progs) \/ (AllDone /\ UNCHANGED vars)
Spec == Init /\ [][Next]_vars

\* ---------------------------------------------------------------- properties
NoDeadAccess == bad = "ok"
PopXorRemove == \A i \in Items : Cardinality(got[i]) <= 1
RECURSIVE Walk(_, _)
Walk(n, k) == IF n \in Sent \/ n = NilV \/ k = 0 THEN <<>> ELSE <<n>> \o Walk(lk[Rest(n)].val, k - 1)
Chain(l) == Walk(lk[Hd(l)].val, Cardinality(Items) + 1)
InChain(l, i) == \E k \in 1..Len(Chain(l)) : Chain(l)[k] = i
AtRest == AllDone => /\ \A l \in Links : ~lk[l].locked
                     /\ \A l \in Lists : \A k \in 1..Len(Chain(l)) : alive[Chain(l)[k]] /\ got[Chain(l)[k]] = {}
\* items whose insertion took effect
Pushed == {i \in Items : \E t \in Threads : \E k \in 1..Len(Progs[t]) : Progs[t][k] \in {<<"push", i>>, <<"pfront", i>>}}
NoItemLost == AllDone => \A i \in Items :
                 /\ Cardinality({l \in Lists : InChain(l, i)}) <= 1
                 /\ (got[i] # {}) => \A l \in Lists : ~InChain(l, i)
                 /\ (self[i] # NULL) <=> \E l \in Lists : InChain(l, i)
\* at rest a sentinel's back-pointer designates the link that points to it
SentinelBack == AllDone => \A n \in Sent : self[n] # NULL => lk[self[n]].val = n
=============================================================================
