---- MODULE AtomicIntrusiveListMC ----
EXTENDS AtomicIntrusiveListRef
\* ---- mutex family: list 0 only (push_back / pop_front / try_remove / empty)
\* 1: item 1 is pushed; then thread 1 pushes item 2 while thread 2 removes item 1 (cancellation of the last node)
P1 == <<  << <<"push", 1>>, <<"push", 2>> >>,  << <<"remove", 1>> >>, << <<"empty", 0>> >>  >>
\* 2: thread 1 pushes 1 then 2; thread 2 pops (unlock hands the lock to the first waiter)
P2 == <<  << <<"push", 1>>, <<"push", 2>> >>,  << <<"pop", 0>> >>, << >>  >>
\* 3: three threads: pushes, pops and a removal racing
P3 == <<  << <<"push", 1>>, <<"push", 2>> >>,  << <<"push", 3>>, <<"pop", 0>> >>, << <<"remove", 1>>, <<"pop", 0>> >>  >>
\* 4: pop racing with removal of the same (only) item, then a push
P4 == <<  << <<"push", 1>>, <<"remove", 1>>, <<"push", 2>> >>,  << <<"pop", 0>>, <<"pop", 0>> >>, << <<"empty", 0>>, <<"empty", 0>> >>  >>
\* 5: two removals of neighbours racing with a pop
P5 == <<  << <<"push", 1>>, <<"push", 2>>, <<"push", 3>>, <<"remove", 2>> >>,  << <<"remove", 3>> >>, << <<"pop", 0>> >>  >>
\* 6: pop / try_remove of the only item observed by empty()
P6 == <<  << <<"push", 1>>, <<"remove", 1>>, <<"empty", 0>> >>,  << <<"pop", 0>>, <<"empty", 0>> >>, << <<"empty", 0>>, <<"push", 2>>, <<"empty", 0>> >>  >>
\* ---- latch family (v2 manual reset event): push_front_unless_latched / latch_and_drain into a local list / pop_front
\*      of the local list / try_remove from whichever list holds the item / unlatch / is_latched
Q1 == <<  << <<"pfront", 1>>, <<"pfront", 2>>, <<"remove", 1>> >>,  << <<"drain", 1>>, <<"pop", 1>>, <<"pop", 1>>, <<"pop", 1>> >>,  << <<"islatched", 0>>, <<"islatched", 0>> >>  >>
Q2 == <<  << <<"pfront", 1>>, <<"remove", 1>> >>,  << <<"drain", 1>>, <<"pop", 1>> >>,  << <<"drain", 2>>, <<"pop", 2>>, <<"unlatch", 0>>, <<"pfront", 2>> >>  >>
Q3 == <<  << <<"pfront", 1>>, <<"pfront", 2>>, <<"remove", 2>> >>,  << <<"drain", 1>>, <<"pop", 1>>, <<"pop", 1>>, <<"unlatch", 0>> >>,  << <<"pfront", 3>>, <<"islatched", 0>>, <<"remove", 3>> >>  >>
Q4 == <<  << <<"pfront", 1>>, <<"remove", 1>>, <<"pfront", 2>>, <<"remove", 2>> >>,  << <<"drain", 1>>, <<"pop", 1>>, <<"pop", 1>> >>,  << <<"unlatch", 0>>, <<"islatched", 0>>, <<"drain", 2>>, <<"pop", 2>> >>  >>
\* 7: two concurrent pushers and a popper (the window of the tail hint)
P7 == <<  << <<"push", 1>> >>,  << <<"push", 2>> >>, << <<"pop", 0>>, <<"push", 3>> >>  >>
HintSet == {P7}
HintOn == TRUE
Small == {P1, P2, P4, Q2}
All == {P1, P2, P3, P4, P5, P6, P7, Q1, Q2, Q3, Q4}
KillSet == {P2}
====
