---- MODULE AtomicIntrusiveListMC ----
EXTENDS AtomicIntrusiveList
\* 1: item 1 is pushed; then thread 1 pushes item 2 while thread 2 removes item 1 (cancellation of the last node)
P1 == <<  << <<"push", 1>>, <<"push", 2>> >>,  << <<"remove", 1>> >>, << >>  >>
\* 2: thread 1 pushes 1 then 2; thread 2 pops (unlock hands the lock to the first waiter)
P2 == <<  << <<"push", 1>>, <<"push", 2>> >>,  << <<"pop", 0>> >>, << >>  >>
\* 3: three threads: pushes, pops and a removal racing
P3 == <<  << <<"push", 1>>, <<"push", 2>> >>,  << <<"push", 3>>, <<"pop", 0>> >>, << <<"remove", 1>>, <<"pop", 0>> >>  >>
\* 4: pop racing with removal of the same (only) item, then a push
P4 == <<  << <<"push", 1>>, <<"remove", 1>>, <<"push", 2>> >>,  << <<"pop", 0>>, <<"pop", 0>> >>, << >>  >>
\* 5: two removals of neighbours racing with a pop
P5 == <<  << <<"push", 1>>, <<"push", 2>>, <<"push", 3>>, <<"remove", 2>> >>,  << <<"remove", 3>> >>, << <<"pop", 0>> >>  >>
Small == {P1, P2, P4}
All == {P1, P2, P3, P4, P5}
KillSet == {P2}
====
