SPECIFICATION Spec
INVARIANTS OneConsumer XchgNonEmpty HandledOnce HandledInCasOrder AtRest
CHECK_DEADLOCK TRUE
