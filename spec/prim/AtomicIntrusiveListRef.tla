----------------------- MODULE AtomicIntrusiveListRef -----------------------
(***************************************************************************)
(* Refinement  AtomicIntrusiveList  =>  AbstractList  checked by TLC       *)
(* (PROPERTY Refines): every step of the single-atomic-access model either *)
(* leaves the abstract state unchanged or is one step of the abstract list *)
(* (same thread, same call, same result).  The refinement mapping:         *)
(*   lists[l]  the chain reachable from head l through the rest words      *)
(*             (lock bits ignored).  While a latch_and_drain has written   *)
(*             the target's head but not yet released the source head      *)
(*             (ld9..ld11) the chain is still list 0's and the target is   *)
(*             empty: the drain takes effect at the final unlock of the    *)
(*             source head, which is also when is_latched() turns true.    *)
(*             An insertion in flight is followed through the link it has  *)
(*             locked (push_back, pb5) / starts the chain (push_front, pu4 *)
(*             and pu5); such an item is in hidden.                        *)
(*   latched   head 0 points to the latch sentinel                         *)
(*   claim[t]  pop_front: from locking the head (pf1, non-empty) to the    *)
(*             store that rewrites the head (pf6); try_remove: from the    *)
(*             validated lock of the predecessor link (tr3) to the store   *)
(*             that rewrites it (tr7)                                      *)
(*   op, arg   the call in progress (idle between calls)                   *)
(*   out       the history variable out of the concrete module             *)
(* Linearisation points: push_back pb4 link (sentinel back-pointer swung)  *)
(* + pb5 publish (unlock of the predecessor link with the new node),       *)
(* push_front_unless_latched pu3 link + pu5 publish / pu1 (latched),       *)
(* pop_front pf1 (empty) | pf1 claim + pf6 unlink, try_remove tr1/tr3u     *)
(* (fail) | tr3 claim + tr7 unlink, latch_and_drain ld11 / lde4 / ld1      *)
(* (already latched), unlatch ul4 / ul1, empty and is_latched their load.  *)
(***************************************************************************)
EXTENDS AtomicIntrusiveList
DrainWin(t) == pc[t] \in {"ld9", "ld10", "ld11"}
Draining == \E t \in Threads : DrainWin(t)
DrainTgt == loc[CHOOSE t \in Threads : DrainWin(t)].lst
\* push_back in flight: linked behind its predecessor (tail swung at pb4) but the predecessor link not yet rewritten (pb5)
BackHidden(t) == pc[t] = "pb5"
\* push_front_unless_latched in flight: it is the old first node's predecessor (pu3) but head 0 not yet rewritten (pu5)
FrontHidden(t) == pc[t] \in {"pu4", "pu5"}
AbsHidden == {<<loc[t].item, "b">> : t \in {u \in Threads : BackHidden(u)}} \cup {<<loc[t].item, "f">> : t \in {u \in Threads : FrontHidden(u)}}
\* the successor designated by a link: a push_back in flight owns the link it locked
NextOf(link) == IF \E t \in Threads : BackHidden(t) /\ loc[t].link = link
                THEN loc[CHOOSE t \in Threads : BackHidden(t) /\ loc[t].link = link].item ELSE lk[link].val
RECURSIVE FullWalk(_, _)
FullWalk(n, k) == IF n \in Sent \/ n = NilV \/ k = 0 THEN <<>> ELSE <<n>> \o FullWalk(NextOf(Rest(n)), k - 1)
FullChain(l) == IF l = 0 /\ \E t \in Threads : FrontHidden(t)
                THEN FullWalk(loc[CHOOSE t \in Threads : FrontHidden(t)].item, Cardinality(Items) + 1)
                ELSE FullWalk(NextOf(Hd(l)), Cardinality(Items) + 1)
AbsLists == [l \in Lists |->
               IF l = 0 THEN (IF Draining THEN FullChain(DrainTgt) ELSE FullChain(0))
               ELSE IF \E t \in Threads : DrainWin(t) /\ loc[t].lst = l THEN <<>> ELSE FullChain(l)]
AbsLatched == lk[Hd(0)].val = LS
AbsClaim == [t \in Threads |-> IF pc[t] \in {"pf3", "pf4", "pf5", "pf6"} THEN loc[t].first
                               ELSE IF pc[t] \in {"tr4", "tr5", "tr6", "tr7"} THEN loc[t].item ELSE 0]
InCall(t) == pc[t] # "next"
AbsOp == [t \in Threads |-> IF InCall(t) THEN Progs[t][ip[t] - 1][1] ELSE "idle"]
AbsArg == [t \in Threads |-> IF InCall(t) THEN Progs[t][ip[t] - 1][2] ELSE 0]
Abs == INSTANCE AbstractList WITH lists <- AbsLists, latched <- AbsLatched, hidden <- AbsHidden, claim <- AbsClaim, op <- AbsOp, arg <- AbsArg, out <- out
AbsVars == <<AbsLists, AbsLatched, AbsHidden, AbsClaim, AbsOp, AbsArg, out>>
\* Abs!Spec, written so that TLC tests the (frequent) stuttering case first
Refines == Abs!Init /\ [][UNCHANGED AbsVars \/ Abs!Next]_vars
\* the mapping is meaningful: at rest the abstract lists are exactly the chains and nothing is claimed
MappingAtRest == AllDone => /\ \A l \in Lists : AbsLists[l] = Chain(l)
                            /\ \A t \in Threads : AbsClaim[t] = 0 /\ AbsOp[t] = "idle"
=============================================================================
