SPECIFICATION Spec
CONSTANTS KillNodes = FALSE Items = {1,2,3}  Threads = {1,2,3}  ProgSet <- HintSet  HintAfterUnlock <- HintOn
INVARIANTS PopXorRemove AtRest NoItemLost SentinelBack
CHECK_DEADLOCK TRUE
