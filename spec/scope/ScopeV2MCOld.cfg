\* used only when the header no longer contains the repair (regression): the historical variant as transcription, with
\* edge export, so that the guided replay drives the real code through the TLC counterexample
SPECIFICATION Spec
CONSTANTS Threads <- T  Items <- W  Joins <- J  Scenarios <- Scn  FirstCloserOnly = FALSE
INVARIANTS JoinOnlyAfterAllDone JoinOncePerStart CountExact AdmittedIffBeforeClose TerminalJoined
VIEW View
ACTION_CONSTRAINT EdgeLog
CHECK_DEADLOCK TRUE
