------------------------------ MODULE ScopeV2 ------------------------------
(***************************************************************************)
(* Implementation-shaped specification of unifex::v2::async_scope          *)
(* (include/unifex/v2/async_scope.hpp) together with the v1                *)
(* async_manual_reset_event its join() waits on                            *)
(* (source/async_manual_reset_event_v1.cpp).                               *)
(*                                                                         *)
(* State: opState_ as (open bit, count); evt_.state_ as (signalled, stack  *)
(* of waiting join operations); per nest sender / nest operation whether   *)
(* its scope_reference is non-null.  One action per stretch of code        *)
(* between two schedule points (UNIFEX_VERIF_YIELD sites scope.trs_load,   *)
(* scope.trs_cas, scope.rc_fsub, scope.es_fand, scope.ev_xchg,             *)
(* scope.ev_pop, scope.ev_w_load, scope.ev_w_cas and the harness's         *)
(* API-entry points scope.h.op / scope.h.wait).                            *)
(*                                                                         *)
(* Threads run scenario programs over the public API:                      *)
(*   <<"nest",w,0>>     s_w = scope.nest(leaf_w)                           *)
(*   <<"start",w,0>>    connect(std::move(s_w), recv_w) + start            *)
(*   <<"discard",w,0>>  destroy the unstarted s_w                          *)
(*   <<"copy",w,v>>     s_v = copy of s_w   (second try_record_start)      *)
(*   <<"lstart",w,v>>   connect(const& s_w, recv_v) + start (ditto)        *)
(*   <<"spawn",w,0>>    spawn_detached(leaf_w, scope)  (= nest + start)    *)
(*   <<"complete",w,0>> wait until leaf_w has been started (or w is known  *)
(*                      never to start), then complete the leaf            *)
(*   <<"join",j,0>>     connect + start scope.join() with an inline        *)
(*                      scheduler receiver                                 *)
(***************************************************************************)
EXTENDS Naturals, Sequences, FiniteSets, TLC

CONSTANTS Threads, Items, Joins, Scenarios,
          FirstCloserOnly   \* FALSE = the code as written; TRUE = proposed repair: end_scope() signals only if *it* cleared the open bit

VARIABLES scn,
          pi, pc,        \* per thread: index of the current op, schedule point it is parked at
          regS, regE,    \* per thread: the value loaded from opState_ / evt_.state_ (CAS expected value)
          iter,          \* per thread: waiters still to be completed by this thread's evt_.set()
          open, count,   \* opState_ : bit0, bits 1..
          evSig, evStack,\* evt_.state_ : signalled | stack of waiting joins (head = top)
          sref,          \* [Items -> BOOLEAN] the sender / operation of item w holds a non-null scope_reference
          ist,           \* [Items -> "none" | "sender" | "running" | "finished"]
          jst,           \* [Joins -> "none" | "begun" | "done"]
          \* history variables for the properties
          adm,           \* [Items -> 0 not (yet) | 1 admitted | 2 refused]
          started, fin,  \* leaf started / receiver completed or sender discarded
          mustAdmit,     \* the admitting call returned before any join began
          closeBegun, jdone, bad,
          lastT, lastPc  \* export only (hidden by VIEW)
vars == <<scn, pi, pc, regS, regE, iter, open, count, evSig, evStack, sref, ist, jst,
          adm, started, fin, mustAdmit, closeBegun, jdone, bad>>
ghosts == <<lastT, lastPc>>

Prog(t) == scn.prog[t]
Op(t) == Prog(t)[pi[t]]
Name(t) == Op(t)[1]
Direct == {"nest", "join", "spawn"}      \* ops that call a member of the scope object itself
PlannedJoins == {j \in Joins : \E t \in Threads : \E k \in 1..Len(Prog(t)) : Prog(t)[k][1] = "join" /\ Prog(t)[k][2] = j}
\* the harness destroys the scope when every planned join has completed and no thread is inside / still has a direct call
Freed == /\ PlannedJoins # {} /\ \A j \in PlannedJoins : jst[j] = "done"
         /\ \A t \in Threads : pc[t] = "end" \/ \A k \in pi[t]..Len(Prog(t)) : Prog(t)[k][1] \notin Direct
Touch == bad' = IF Freed THEN "scope-touched-after-destruction" ELSE bad

Init ==
  /\ scn \in Scenarios
  /\ pi = [t \in Threads |-> 1]
  /\ pc = [t \in Threads |-> IF Len(scn.prog[t]) = 0 THEN "end" ELSE "op"]
  /\ regS = [t \in Threads |-> <<TRUE, 0>>] /\ regE = [t \in Threads |-> <<FALSE, <<>>>>]
  /\ iter = [t \in Threads |-> <<>>]
  /\ open = TRUE /\ count = 0 /\ evSig = FALSE /\ evStack = <<>>
  /\ sref = [w \in Items |-> FALSE] /\ ist = [w \in Items |-> "none"] /\ jst = [j \in Joins |-> "none"]
  /\ adm = [w \in Items |-> 0] /\ started = [w \in Items |-> FALSE] /\ fin = [w \in Items |-> FALSE]
  /\ mustAdmit = [w \in Items |-> FALSE] /\ closeBegun = FALSE /\ jdone = [j \in Joins |-> 0] /\ bad = "ok"
  /\ lastT = 0 /\ lastPc = ""

Finish(t) == /\ pi' = [pi EXCEPT ![t] = @ + 1]
             /\ pc' = [pc EXCEPT ![t] = IF pi[t] + 1 > Len(Prog(t)) THEN "end" ELSE "op"]
Goto(t, l) == pc' = [pc EXCEPT ![t] = l] /\ pi' = pi

\* the item whose admission the current op decides
Tgt(t) == IF Name(t) \in {"copy", "lstart"} THEN Op(t)[3] ELSE Op(t)[2]
\* try_record_start returned `ok` (or was skipped because the source sender has no scope): the nest/copy/connect returns
Resolve(t, ok) ==
  LET w == Tgt(t)  run == Name(t) \in {"lstart", "spawn"} IN
  /\ adm' = [adm EXCEPT ![w] = IF ok THEN 1 ELSE 2]
  /\ sref' = [sref EXCEPT ![w] = ok]
  /\ ist' = [ist EXCEPT ![w] = IF run THEN (IF ok THEN "running" ELSE "finished") ELSE "sender"]
  /\ started' = [started EXCEPT ![w] = run /\ ok]
  /\ fin' = [fin EXCEPT ![w] = run /\ ~ok]
  /\ mustAdmit' = [mustAdmit EXCEPT ![w] = ~closeBegun]
  /\ Finish(t)
JoinDone(j) == /\ jst' = [jst EXCEPT ![j] = "done"] /\ jdone' = [jdone EXCEPT ![j] = @ + 1]
\* after evt_.set() returns: join() goes on to evt_.async_wait(), everything else is finished
AfterSet(t) == IF Name(t) = "join" THEN Goto(t, "ev_w_load") ELSE Finish(t)

\* the leaf of item w completes: nest_receiver::complete moves the scope reference out, destroys the leaf operation,
\* completes the harness receiver (WorkDone) and then drops the reference (record_completion)
CompleteLeaf(t, w) ==
  /\ fin' = [fin EXCEPT ![w] = TRUE] /\ ist' = [ist EXCEPT ![w] = "finished"] /\ sref' = [sref EXCEPT ![w] = FALSE]
  /\ Goto(t, "rc_fsub")
  /\ UNCHANGED <<scn, regS, regE, iter, open, count, evSig, evStack, jst, adm, started, mustAdmit, closeBegun, jdone, bad>>

StepOp(t) ==
  /\ pc[t] = "op"
  /\ LET o == Op(t)  n == o[1] IN
     CASE n \in {"nest", "spawn"} ->
            /\ Goto(t, "trs_load")
            /\ UNCHANGED <<scn, regS, regE, iter, open, count, evSig, evStack, sref, ist, jst, adm, started, fin, mustAdmit, closeBegun, jdone, bad>>
       [] n \in {"copy", "lstart"} ->
            IF sref[o[2]]
            THEN /\ Goto(t, "trs_load")
                 /\ UNCHANGED <<scn, regS, regE, iter, open, count, evSig, evStack, sref, ist, jst, adm, started, fin, mustAdmit, closeBegun, jdone, bad>>
            ELSE /\ Resolve(t, FALSE)
                 /\ UNCHANGED <<scn, regS, regE, iter, open, count, evSig, evStack, jst, closeBegun, jdone, bad>>
       [] n = "start" ->
            /\ ist' = [ist EXCEPT ![o[2]] = IF sref[o[2]] THEN "running" ELSE "finished"]
            /\ started' = [started EXCEPT ![o[2]] = sref[o[2]]]
            /\ fin' = [fin EXCEPT ![o[2]] = ~sref[o[2]]]
            /\ Finish(t)
            /\ UNCHANGED <<scn, regS, regE, iter, open, count, evSig, evStack, sref, jst, adm, mustAdmit, closeBegun, jdone, bad>>
       [] n = "discard" ->
            /\ fin' = [fin EXCEPT ![o[2]] = TRUE] /\ ist' = [ist EXCEPT ![o[2]] = "finished"]
            /\ sref' = [sref EXCEPT ![o[2]] = FALSE]
            /\ IF sref[o[2]] THEN Goto(t, "rc_fsub") ELSE Finish(t)
            /\ UNCHANGED <<scn, regS, regE, iter, open, count, evSig, evStack, jst, adm, started, mustAdmit, closeBegun, jdone, bad>>
       [] n = "complete" ->
            IF ist[o[2]] = "running" THEN CompleteLeaf(t, o[2])
            ELSE /\ IF ist[o[2]] = "finished" THEN Finish(t) ELSE Goto(t, "wait")
                 /\ UNCHANGED <<scn, regS, regE, iter, open, count, evSig, evStack, sref, ist, jst, adm, started, fin, mustAdmit, closeBegun, jdone, bad>>
       [] n = "join" ->
            /\ jst' = [jst EXCEPT ![o[2]] = "begun"] /\ closeBegun' = TRUE
            /\ Goto(t, "es_fand")
            /\ UNCHANGED <<scn, regS, regE, iter, open, count, evSig, evStack, sref, ist, adm, started, fin, mustAdmit, jdone, bad>>

\* harness spin: the leaf to be completed has not been started yet (await)
StepWait(t) ==
  /\ pc[t] = "wait"
  /\ LET w == Op(t)[2] IN
     /\ ist[w] \in {"running", "finished"}
     /\ IF ist[w] = "running" THEN CompleteLeaf(t, w)
        ELSE /\ Finish(t)
             /\ UNCHANGED <<scn, regS, regE, iter, open, count, evSig, evStack, sref, ist, jst, adm, started, fin, mustAdmit, closeBegun, jdone, bad>>

\* try_record_start: opState_.load; closed -> return false
StepTrsLoad(t) ==
  /\ pc[t] = "trs_load" /\ Touch
  /\ regS' = [regS EXCEPT ![t] = <<open, count>>]
  /\ IF ~open THEN Resolve(t, FALSE) ELSE
        Goto(t, "trs_cas") /\ UNCHANGED <<sref, ist, adm, started, fin, mustAdmit>>
  /\ UNCHANGED <<scn, regE, iter, open, count, evSig, evStack, jst, closeBegun, jdone>>
\* compare_exchange_weak(opState, opState + 2); failure reloads and re-tests the open bit
StepTrsCas(t) ==
  /\ pc[t] = "trs_cas" /\ Touch
  /\ IF <<open, count>> = regS[t]
     THEN count' = count + 1 /\ Resolve(t, TRUE) /\ UNCHANGED regS
     ELSE /\ regS' = [regS EXCEPT ![t] = <<open, count>>] /\ UNCHANGED count
          /\ IF ~open THEN Resolve(t, FALSE)
             ELSE Goto(t, "trs_cas") /\ UNCHANGED <<sref, ist, adm, started, fin, mustAdmit>>
  /\ UNCHANGED <<scn, regE, iter, open, evSig, evStack, jst, closeBegun, jdone>>
\* record_completion: fetch_sub(2); closed and last -> evt_.set()
StepRcFsub(t) ==
  /\ pc[t] = "rc_fsub" /\ Touch
  /\ count' = count - 1
  /\ IF ~open /\ count = 1 THEN Goto(t, "ev_xchg") ELSE Finish(t)
  /\ UNCHANGED <<scn, regS, regE, iter, open, evSig, evStack, sref, ist, jst, adm, started, fin, mustAdmit, closeBegun, jdone>>
\* end_scope: fetch_and(~1); count was 0 -> evt_.set(); then evt_.async_wait() is started
StepEsFand(t) ==
  /\ pc[t] = "es_fand" /\ Touch
  /\ open' = FALSE
  /\ IF count = 0 /\ (open \/ ~FirstCloserOnly) THEN Goto(t, "ev_xchg") ELSE Goto(t, "ev_w_load")
  /\ UNCHANGED <<scn, regS, regE, iter, count, evSig, evStack, sref, ist, jst, adm, started, fin, mustAdmit, closeBegun, jdone>>
\* async_manual_reset_event::set(): exchange(signalled); first setter completes the waiters one by one
StepEvXchg(t) ==
  /\ pc[t] = "ev_xchg" /\ Touch
  /\ evSig' = TRUE /\ evStack' = <<>>
  /\ IF evSig \/ evStack = <<>> THEN AfterSet(t) /\ UNCHANGED iter
     ELSE iter' = [iter EXCEPT ![t] = evStack] /\ Goto(t, "ev_pop")
  /\ UNCHANGED <<scn, regS, regE, open, count, sref, ist, jst, adm, started, fin, mustAdmit, closeBegun, jdone>>
StepEvPop(t) ==
  /\ pc[t] = "ev_pop"
  /\ JoinDone(Head(iter[t]))
  /\ iter' = [iter EXCEPT ![t] = Tail(@)]
  /\ IF Tail(iter[t]) = <<>> THEN AfterSet(t) ELSE Goto(t, "ev_pop")
  /\ UNCHANGED <<scn, regS, regE, open, count, evSig, evStack, sref, ist, adm, started, fin, mustAdmit, closeBegun, bad>>
\* start_or_wait: load; signalled -> complete inline
StepEvWLoad(t) ==
  /\ pc[t] = "ev_w_load" /\ Touch
  /\ regE' = [regE EXCEPT ![t] = <<evSig, evStack>>]
  /\ IF evSig THEN JoinDone(Op(t)[2]) /\ Finish(t)
     ELSE Goto(t, "ev_w_cas") /\ UNCHANGED <<jst, jdone>>
  /\ UNCHANGED <<scn, regS, iter, open, count, evSig, evStack, sref, ist, adm, started, fin, mustAdmit, closeBegun>>
\* compare_exchange_weak(top, &op): push; failure reloads and re-tests the signalled state
StepEvWCas(t) ==
  /\ pc[t] = "ev_w_cas" /\ Touch
  /\ IF <<evSig, evStack>> = regE[t]
     THEN evStack' = <<Op(t)[2]>> \o evStack /\ Finish(t) /\ UNCHANGED <<regE, jst, jdone>>
     ELSE /\ regE' = [regE EXCEPT ![t] = <<evSig, evStack>>] /\ UNCHANGED evStack
          /\ IF evSig THEN JoinDone(Op(t)[2]) /\ Finish(t)
             ELSE Goto(t, "ev_w_cas") /\ UNCHANGED <<jst, jdone>>
  /\ UNCHANGED <<scn, regS, iter, open, count, evSig, sref, ist, adm, started, fin, mustAdmit, closeBegun>>

Step(t) == \/ StepOp(t) \/ StepWait(t) \/ StepTrsLoad(t) \/ StepTrsCas(t) \/ StepRcFsub(t) \/ StepEsFand(t)
           \/ StepEvXchg(t) \/ StepEvPop(t) \/ StepEvWLoad(t) \/ StepEvWCas(t)
AllEnd == \A t \in Threads : pc[t] = "end"
Next == \/ \E t \in Threads : Step(t) /\ lastT' = t /\ lastPc' = pc[t]
        \/ (AllEnd /\ UNCHANGED vars /\ UNCHANGED ghosts)
Spec == Init /\ [][Next]_<<vars, ghosts>>
View == vars
FairSpec == Spec /\ \A t \in Threads : WF_<<vars, ghosts>>(Step(t) /\ lastT' = t /\ lastPc' = pc[t])

\* ---- properties (C08) ----
AllAdmittedFinished == \A w \in Items : adm[w] = 1 => fin[w]
\* a join receiver has completed => scope closed, count zero, every admitted item completed or discarded
JoinOnlyAfterAllDone == \A j \in Joins : jst[j] = "done" => (~open /\ count = 0 /\ AllAdmittedFinished)
JoinOncePerStart == \A j \in Joins : jdone[j] <= 1 /\ (jdone[j] = 1 => jst[j] = "done")
\* the count is exactly the number of live scope references
CountExact == count = Cardinality({w \in Items : sref[w]})
               + Cardinality({t \in Threads : pc[t] = "rc_fsub"})
\* admitted <=> the item holds/held a reference; refused items never start; admission before any join began succeeds
AdmittedIffBeforeClose == \A w \in Items : /\ (sref[w] => adm[w] = 1)
                                           /\ (adm[w] = 2 => ~started[w] /\ ist[w] # "running")
                                           /\ (mustAdmit[w] => adm[w] = 1)
NoTouchAfterDestruction == bad = "ok"
\* terminal: every begun join is done once all admitted work is finished; the event holds no waiter
TerminalJoined == AllEnd => (AllAdmittedFinished => (\A j \in Joins : jst[j] # "begun") /\ evStack = <<>>)
Terminates == <>AllEnd
=============================================================================
