------------------------------ MODULE ScopeV2 ------------------------------
(***************************************************************************)
(* Implementation-shaped specification of unifex::v2::async_scope          *)
(* (include/unifex/v2/async_scope.hpp) together with the v1                *)
(* async_manual_reset_event its join() waits on                            *)
(* (source/async_manual_reset_event_v1.cpp).                               *)
(*                                                                         *)
(* State: opState_ as (open bit, count); evt_.state_ as (signalled, stack  *)
(* of waiting join operations); per nest sender / nest operation whether   *)
(* its scope_reference is non-null.  One action per stretch of code        *)
(* between two schedule points (UNIFEX_VERIF_YIELD sites scope.trs_load,   *)
(* scope.trs_cas, scope.rc_fsub, scope.es_fand, scope.ev_xchg,             *)
(* scope.ev_pop, scope.ev_w_load, scope.ev_w_cas and the harness's         *)
(* API-entry points scope.h.op / scope.h.wait).                            *)
(*                                                                         *)
(* Threads run scenario programs over the public API:                      *)
(*   <<"nest",w,0>>     s_w = scope.nest(leaf_w)                           *)
(*   <<"start",w,0>>    connect(std::move(s_w), recv_w) + start            *)
(*   <<"discard",w,0>>  destroy the unstarted s_w                          *)
(*   <<"copy",w,v>>     s_v = copy of s_w   (second try_record_start)      *)
(*   <<"lstart",w,v>>   connect(const& s_w, recv_v) + start (ditto)        *)
(*   <<"spawn",w,0>>    spawn_detached(leaf_w, scope)  (= nest + start)    *)
(*   <<"complete",w,0>> wait until leaf_w has been started (or w is known  *)
(*                      never to start), then complete the leaf            *)
(*   <<"join",j,0>>     connect + start scope.join(); the receiver's       *)
(*                      scheduler is inline (scn.man = 0) or a manual      *)
(*                      run queue (scn.man = 1) served by                  *)
(*   <<"drain",0,0>>    wait until a join continuation is queued, run it   *)
(*   <<"fspawn",w,f>>   fut_f = spawn_future(leaf_w, scope): the future is *)
(*                      itself a nest sender (admission of f), then the    *)
(*                      operation is nested (admission of w) and started   *)
(*   <<"fstart",f,w>>   connect + start the future (completes once w has)  *)
(*   <<"fdrop",f,w>>    destroy the unconsumed future                      *)
(* The future's own protocol (state_ CAS, its private event) is C09's      *)
(* business and is abstracted to "result stored / future waiting"; what    *)
(* matters here is when its scope reference is dropped.                    *)
(*                                                                         *)
(* FirstCloserOnly = TRUE is the protocol /repo implements: end_scope()    *)
(* signals the join event only if this very call cleared the open bit.     *)
(* FirstCloserOnly = FALSE is the historical variant (every end_scope()    *)
(* that finds count == 0 signals); it is kept as a spec-level mutation     *)
(* that must violate NoTouchAfterDestruction (ScopeV2Old.cfg).             *)
(***************************************************************************)
EXTENDS Naturals, Sequences, FiniteSets, TLC

CONSTANTS Threads, Items, Joins, Scenarios, FirstCloserOnly

VARIABLES scn,
          pi, pc,        \* per thread: index of the current op, schedule point it is parked at
          sub,           \* per thread: fspawn is deciding the future's (0) or the operation's (1) admission
          pend,          \* per thread: scope references still to be dropped after the current record_completion
          regS, regE,    \* per thread: the value loaded from opState_ / evt_.state_ (CAS expected value)
          iter,          \* per thread: waiters still to be completed by this thread's evt_.set()
          open, count,   \* opState_ : bit0, bits 1..
          evSig, evStack,\* evt_.state_ : signalled | stack of waiting joins (head = top)
          jq,            \* manual scheduler: queued join continuations
          sref,          \* [Items -> BOOLEAN] the sender / operation of item w holds a non-null scope_reference
          ist,           \* [Items -> "none" | "sender" | "running" | "finished"]
          jst,           \* [Joins -> "none" | "begun" | "done"]
          fut,           \* [Items -> item of the future of a spawn_future'd operation, 0 = none]
          fwait,         \* [Items -> BOOLEAN] the future has been started and waits for its operation
          wres,          \* [Items -> BOOLEAN] the spawn_future'd operation has stored its result
          \* history variables for the properties
          adm,           \* [Items -> 0 not (yet) | 1 admitted | 2 refused]
          started, fin,  \* leaf started / receiver completed or sender discarded
          mustAdmit,     \* the admitting call returned before any join began
          closeBegun, jdone, bad,
          lastT, lastPc  \* export only (hidden by VIEW)
vars == <<scn, pi, pc, sub, pend, regS, regE, iter, open, count, evSig, evStack, jq, sref, ist, jst, fut, fwait, wres,
          adm, started, fin, mustAdmit, closeBegun, jdone, bad>>
ghosts == <<lastT, lastPc>>
\* groups for UNCHANGED clauses
regs == <<regS, regE, iter>>
word == <<open, count>>
evt == <<evSig, evStack>>
items == <<sref, ist, fut, fwait, wres, adm, started, fin, mustAdmit>>
joins == <<jst, jdone, jq>>

Prog(t) == scn.prog[t]
Op(t) == Prog(t)[pi[t]]
Name(t) == Op(t)[1]
Direct == {"nest", "join", "spawn", "fspawn"}      \* ops that call a member of the scope object itself
PlannedJoins == {j \in Joins : \E t \in Threads : \E k \in 1..Len(Prog(t)) : Prog(t)[k][1] = "join" /\ Prog(t)[k][2] = j}
\* the harness destroys the scope when every planned join has completed and no thread is inside / still has a direct call
Freed == /\ PlannedJoins # {} /\ \A j \in PlannedJoins : jst[j] = "done"
         /\ \A t \in Threads : pc[t] = "end" \/ \A k \in pi[t]..Len(Prog(t)) : Prog(t)[k][1] \notin Direct
Touch == bad' = IF Freed THEN "scope-touched-after-destruction" ELSE bad

Init ==
  /\ scn \in Scenarios
  /\ pi = [t \in Threads |-> 1]
  /\ pc = [t \in Threads |-> IF Len(scn.prog[t]) = 0 THEN "end" ELSE "op"]
  /\ sub = [t \in Threads |-> 0] /\ pend = [t \in Threads |-> 0]
  /\ regS = [t \in Threads |-> <<TRUE, 0>>] /\ regE = [t \in Threads |-> <<FALSE, <<>>>>]
  /\ iter = [t \in Threads |-> <<>>]
  /\ open = TRUE /\ count = 0 /\ evSig = FALSE /\ evStack = <<>> /\ jq = <<>>
  /\ sref = [w \in Items |-> FALSE] /\ ist = [w \in Items |-> "none"] /\ jst = [j \in Joins |-> "none"]
  /\ fut = [w \in Items |-> 0] /\ fwait = [w \in Items |-> FALSE] /\ wres = [w \in Items |-> FALSE]
  /\ adm = [w \in Items |-> 0] /\ started = [w \in Items |-> FALSE] /\ fin = [w \in Items |-> FALSE]
  /\ mustAdmit = [w \in Items |-> FALSE] /\ closeBegun = FALSE /\ jdone = [j \in Joins |-> 0] /\ bad = "ok"
  /\ lastT = 0 /\ lastPc = ""

FinishPc(t) == /\ pi' = [pi EXCEPT ![t] = @ + 1]
               /\ pc' = [pc EXCEPT ![t] = IF pi[t] + 1 > Len(Prog(t)) THEN "end" ELSE "op"]
Finish(t) == FinishPc(t) /\ UNCHANGED <<sub, pend>>
Goto(t, l) == pc' = [pc EXCEPT ![t] = l] /\ pi' = pi /\ UNCHANGED <<sub, pend>>
\* a record_completion is over: drop the next pending reference, else the op is finished
Next1(t) == IF pend[t] > 0
            THEN pc' = [pc EXCEPT ![t] = "rc_fsub"] /\ pi' = pi /\ pend' = [pend EXCEPT ![t] = @ - 1] /\ UNCHANGED sub
            ELSE Finish(t)

\* try_record_start returned `ok` (or was skipped because the source sender has no scope): the nest/copy/connect returns
Resolve(t, ok) ==
  LET n == Name(t)
      futPart == n = "fspawn" /\ sub[t] = 0
      w == IF n \in {"copy", "lstart"} \/ futPart THEN Op(t)[3] ELSE Op(t)[2]
      run == n \in {"lstart", "spawn"} \/ (n = "fspawn" /\ sub[t] = 1) IN
  /\ adm' = [adm EXCEPT ![w] = IF ok THEN 1 ELSE 2]
  /\ sref' = [sref EXCEPT ![w] = ok]
  /\ ist' = [ist EXCEPT ![w] = IF run THEN (IF ok THEN "running" ELSE "finished") ELSE "sender"]
  /\ started' = [started EXCEPT ![w] = run /\ ok]
  /\ fin' = [fin EXCEPT ![w] = run /\ ~ok]
  /\ mustAdmit' = [mustAdmit EXCEPT ![w] = ~closeBegun]
  /\ UNCHANGED fwait
  /\ IF futPart
     THEN \* future_t future{scope, op} done; now init_operation: nest(sender, scope)
          /\ pc' = [pc EXCEPT ![t] = "trs_load"] /\ pi' = pi /\ sub' = [sub EXCEPT ![t] = 1] /\ UNCHANGED <<pend, fut, wres>>
     ELSE IF n = "fspawn"
     THEN \* start(*op): the leaf runs, or (refused) set_done stores the result `done` at once
          /\ fut' = [fut EXCEPT ![w] = Op(t)[3]] /\ wres' = [wres EXCEPT ![w] = ~ok]
          /\ FinishPc(t) /\ sub' = [sub EXCEPT ![t] = 0] /\ UNCHANGED pend
     ELSE Finish(t) /\ UNCHANGED <<fut, wres>>
\* the join receiver's continuation is handed to its scheduler: inline -> it completes here; manual -> queued
JoinReady(j) == IF scn.man = 1
                THEN jq' = Append(jq, j) /\ UNCHANGED <<jst, jdone>>
                ELSE jst' = [jst EXCEPT ![j] = "done"] /\ jdone' = [jdone EXCEPT ![j] = @ + 1] /\ UNCHANGED jq
\* after evt_.set() returns: join() goes on to evt_.async_wait(), a record_completion is over
AfterSet(t) == IF Name(t) = "join" THEN Goto(t, "ev_w_load") ELSE Next1(t)

\* the leaf of item w completes: nest_receiver::complete moves the scope reference out, destroys the leaf operation,
\* completes the receiver (WorkDone) and then drops the reference (record_completion).  If w was spawn_future'd the
\* receiver stores the result and wakes a waiting future, which completes inline and drops *its* reference first.
CompleteLeaf(t, w) ==
  LET f == fut[w]  wake == f # 0 /\ fwait[f] IN
  /\ fin' = [x \in Items |-> fin[x] \/ x = w \/ (wake /\ x = f)]
  /\ ist' = [x \in Items |-> IF x = w \/ (wake /\ x = f) THEN "finished" ELSE ist[x]]
  /\ sref' = [x \in Items |-> sref[x] /\ x # w /\ ~(wake /\ x = f)]
  /\ wres' = [wres EXCEPT ![w] = f # 0]
  /\ fwait' = [x \in Items |-> fwait[x] /\ ~(wake /\ x = f)]
  /\ pc' = [pc EXCEPT ![t] = "rc_fsub"] /\ pi' = pi /\ UNCHANGED sub
  /\ pend' = [pend EXCEPT ![t] = IF wake THEN 1 ELSE 0]
  /\ UNCHANGED <<scn, regs, word, evt, joins, fut, adm, started, mustAdmit, closeBegun, bad>>

StepOp(t) ==
  /\ pc[t] = "op"
  /\ LET o == Op(t)  n == o[1] IN
     CASE n \in {"nest", "spawn", "fspawn"} ->
            /\ Goto(t, "trs_load")
            /\ UNCHANGED <<scn, regs, word, evt, joins, items, closeBegun, bad>>
       [] n \in {"copy", "lstart"} ->
            IF sref[o[2]]
            THEN /\ Goto(t, "trs_load")
                 /\ UNCHANGED <<scn, regs, word, evt, joins, items, closeBegun, bad>>
            ELSE /\ Resolve(t, FALSE)
                 /\ UNCHANGED <<scn, regs, word, evt, joins, closeBegun, bad>>
       [] n = "start" ->
            /\ ist' = [ist EXCEPT ![o[2]] = IF sref[o[2]] THEN "running" ELSE "finished"]
            /\ started' = [started EXCEPT ![o[2]] = sref[o[2]]]
            /\ fin' = [fin EXCEPT ![o[2]] = ~sref[o[2]]]
            /\ Finish(t)
            /\ UNCHANGED <<scn, regs, word, evt, joins, sref, fut, fwait, wres, adm, mustAdmit, closeBegun, bad>>
       [] n \in {"discard", "fdrop"} ->
            /\ fin' = [fin EXCEPT ![o[2]] = TRUE] /\ ist' = [ist EXCEPT ![o[2]] = "finished"]
            /\ sref' = [sref EXCEPT ![o[2]] = FALSE]
            /\ IF sref[o[2]] THEN Goto(t, "rc_fsub") ELSE Finish(t)
            /\ UNCHANGED <<scn, regs, word, evt, joins, fut, fwait, wres, adm, started, mustAdmit, closeBegun, bad>>
       [] n = "fstart" ->
            \* o[2] = the future's item, o[3] = its operation's item
            IF sref[o[2]] /\ wres[o[3]]
            THEN \* result already there: the future completes inline and drops its reference
                 /\ fin' = [fin EXCEPT ![o[2]] = TRUE] /\ ist' = [ist EXCEPT ![o[2]] = "finished"]
                 /\ sref' = [sref EXCEPT ![o[2]] = FALSE] /\ started' = [started EXCEPT ![o[2]] = TRUE]
                 /\ Goto(t, "rc_fsub")
                 /\ UNCHANGED <<scn, regs, word, evt, joins, fut, fwait, wres, adm, mustAdmit, closeBegun, bad>>
            ELSE IF sref[o[2]]
            THEN /\ fwait' = [fwait EXCEPT ![o[2]] = TRUE] /\ ist' = [ist EXCEPT ![o[2]] = "running"]
                 /\ started' = [started EXCEPT ![o[2]] = TRUE] /\ Finish(t)
                 /\ UNCHANGED <<scn, regs, word, evt, joins, sref, fut, wres, adm, fin, mustAdmit, closeBegun, bad>>
            ELSE \* refused future: done at once (and the shared state is dropped: no effect on the scope)
                 /\ fin' = [fin EXCEPT ![o[2]] = TRUE] /\ ist' = [ist EXCEPT ![o[2]] = "finished"] /\ Finish(t)
                 /\ UNCHANGED <<scn, regs, word, evt, joins, sref, fut, fwait, wres, adm, started, mustAdmit, closeBegun, bad>>
       [] n = "complete" ->
            IF ist[o[2]] = "running" THEN CompleteLeaf(t, o[2])
            ELSE /\ IF ist[o[2]] = "finished" THEN Finish(t) ELSE Goto(t, "wait")
                 /\ UNCHANGED <<scn, regs, word, evt, joins, items, closeBegun, bad>>
       [] n = "drain" ->
            IF jq # <<>>
            THEN /\ jst' = [jst EXCEPT ![Head(jq)] = "done"] /\ jdone' = [jdone EXCEPT ![Head(jq)] = @ + 1]
                 /\ jq' = Tail(jq) /\ Finish(t)
                 /\ UNCHANGED <<scn, regs, word, evt, items, closeBegun, bad>>
            ELSE /\ Goto(t, "wait")
                 /\ UNCHANGED <<scn, regs, word, evt, joins, items, closeBegun, bad>>
       [] n = "join" ->
            /\ jst' = [jst EXCEPT ![o[2]] = "begun"] /\ closeBegun' = TRUE
            /\ Goto(t, "es_fand")
            /\ UNCHANGED <<scn, regs, word, evt, jdone, jq, items, bad>>

\* harness spin (await): the leaf to be completed has not been started yet / no join continuation is queued yet
StepWait(t) ==
  /\ pc[t] = "wait"
  /\ IF Name(t) = "drain"
     THEN /\ jq # <<>>
          /\ jst' = [jst EXCEPT ![Head(jq)] = "done"] /\ jdone' = [jdone EXCEPT ![Head(jq)] = @ + 1]
          /\ jq' = Tail(jq) /\ Finish(t)
          /\ UNCHANGED <<scn, regs, word, evt, items, closeBegun, bad>>
     ELSE LET w == Op(t)[2] IN
          /\ ist[w] \in {"running", "finished"}
          /\ IF ist[w] = "running" THEN CompleteLeaf(t, w)
             ELSE /\ Finish(t)
                  /\ UNCHANGED <<scn, regs, word, evt, joins, items, closeBegun, bad>>

\* try_record_start: opState_.load; closed -> return false
StepTrsLoad(t) ==
  /\ pc[t] = "trs_load" /\ Touch
  /\ regS' = [regS EXCEPT ![t] = <<open, count>>]
  /\ IF ~open THEN Resolve(t, FALSE) ELSE Goto(t, "trs_cas") /\ UNCHANGED items
  /\ UNCHANGED <<scn, regE, iter, word, evt, joins, closeBegun>>
\* compare_exchange_weak(opState, opState + 2); failure reloads and re-tests the open bit
StepTrsCas(t) ==
  /\ pc[t] = "trs_cas" /\ Touch
  /\ IF <<open, count>> = regS[t]
     THEN count' = count + 1 /\ Resolve(t, TRUE) /\ UNCHANGED regS
     ELSE /\ regS' = [regS EXCEPT ![t] = <<open, count>>] /\ UNCHANGED count
          /\ IF ~open THEN Resolve(t, FALSE) ELSE Goto(t, "trs_cas") /\ UNCHANGED items
  /\ UNCHANGED <<scn, regE, iter, open, evt, joins, closeBegun>>
\* record_completion: fetch_sub(2); closed and last -> evt_.set()
StepRcFsub(t) ==
  /\ pc[t] = "rc_fsub" /\ Touch
  /\ count' = count - 1
  /\ IF ~open /\ count = 1 THEN Goto(t, "ev_xchg") ELSE Next1(t)
  /\ UNCHANGED <<scn, regs, open, evt, joins, items, closeBegun>>
\* end_scope: fetch_and(~1); this call closed the scope and the count was 0 -> evt_.set(); then evt_.async_wait()
StepEsFand(t) ==
  /\ pc[t] = "es_fand" /\ Touch
  /\ open' = FALSE
  /\ IF count = 0 /\ (open \/ ~FirstCloserOnly) THEN Goto(t, "ev_xchg") ELSE Goto(t, "ev_w_load")
  /\ UNCHANGED <<scn, regs, count, evt, joins, items, closeBegun>>
\* async_manual_reset_event::set(): exchange(signalled); first setter completes the waiters one by one
StepEvXchg(t) ==
  /\ pc[t] = "ev_xchg" /\ Touch
  /\ evSig' = TRUE /\ evStack' = <<>>
  /\ IF evSig \/ evStack = <<>> THEN AfterSet(t) /\ UNCHANGED iter
     ELSE iter' = [iter EXCEPT ![t] = evStack] /\ Goto(t, "ev_pop")
  /\ UNCHANGED <<scn, regS, regE, word, joins, items, closeBegun>>
StepEvPop(t) ==
  /\ pc[t] = "ev_pop"
  /\ JoinReady(Head(iter[t]))
  /\ iter' = [iter EXCEPT ![t] = Tail(@)]
  /\ IF Tail(iter[t]) = <<>> THEN AfterSet(t) ELSE Goto(t, "ev_pop")
  /\ UNCHANGED <<scn, regS, regE, word, evt, items, closeBegun, bad>>
\* start_or_wait: load; signalled -> resume inline
StepEvWLoad(t) ==
  /\ pc[t] = "ev_w_load" /\ Touch
  /\ regE' = [regE EXCEPT ![t] = <<evSig, evStack>>]
  /\ IF evSig THEN JoinReady(Op(t)[2]) /\ Finish(t)
     ELSE Goto(t, "ev_w_cas") /\ UNCHANGED joins
  /\ UNCHANGED <<scn, regS, iter, word, evt, items, closeBegun>>
\* compare_exchange_weak(top, &op): push; failure reloads and re-tests the signalled state
StepEvWCas(t) ==
  /\ pc[t] = "ev_w_cas" /\ Touch
  /\ IF <<evSig, evStack>> = regE[t]
     THEN evStack' = <<Op(t)[2]>> \o evStack /\ Finish(t) /\ UNCHANGED <<regE, joins>>
     ELSE /\ regE' = [regE EXCEPT ![t] = <<evSig, evStack>>] /\ UNCHANGED evStack
          /\ IF evSig THEN JoinReady(Op(t)[2]) /\ Finish(t)
             ELSE Goto(t, "ev_w_cas") /\ UNCHANGED joins
  /\ UNCHANGED <<scn, regS, iter, word, evSig, items, closeBegun>>

Step(t) == \/ StepOp(t) \/ StepWait(t) \/ StepTrsLoad(t) \/ StepTrsCas(t) \/ StepRcFsub(t) \/ StepEsFand(t)
           \/ StepEvXchg(t) \/ StepEvPop(t) \/ StepEvWLoad(t) \/ StepEvWCas(t)
AllEnd == \A t \in Threads : pc[t] = "end"
Next == \/ \E t \in Threads : Step(t) /\ lastT' = t /\ lastPc' = pc[t]
        \/ (AllEnd /\ UNCHANGED vars /\ UNCHANGED ghosts)
Spec == Init /\ [][Next]_<<vars, ghosts>>
View == vars
FairSpec == Spec /\ \A t \in Threads : WF_<<vars, ghosts>>(Step(t) /\ lastT' = t /\ lastPc' = pc[t])

\* ---- properties (C08) ----
AllAdmittedFinished == \A w \in Items : adm[w] = 1 => fin[w]
\* a join receiver has completed => scope closed, count zero, every admitted item (operations, nest senders and
\* still-unconsumed futures alike) completed or discarded
JoinOnlyAfterAllDone == \A j \in Joins : (jst[j] = "done" \/ \E i \in 1..Len(jq) : jq[i] = j)
                                         => (~open /\ count = 0 /\ AllAdmittedFinished)
JoinOncePerStart == \A j \in Joins : /\ jdone[j] <= 1 /\ (jdone[j] = 1 => jst[j] = "done")
                                     /\ Cardinality({i \in 1..Len(jq) : jq[i] = j}) + jdone[j] <= 1
\* the count is exactly the number of live scope references
CountExact == LET Sum(f) == f[1] + f[2] + f[3] IN
              count = Cardinality({w \in Items : sref[w]}) + Cardinality({t \in Threads : pc[t] = "rc_fsub"})
                      + Sum([t \in 1..3 |-> IF t \in Threads THEN pend[t] ELSE 0])
\* admitted <=> the item holds/held a reference; refused items never start; admission before any join began succeeds
AdmittedIffBeforeClose == \A w \in Items : /\ (sref[w] => adm[w] = 1)
                                           /\ (adm[w] = 2 => ~started[w] /\ ist[w] # "running")
                                           /\ (mustAdmit[w] => adm[w] = 1)
NoTouchAfterDestruction == bad = "ok"
\* terminal: every begun join is done once all admitted work is finished; the event holds no waiter
TerminalJoined == AllEnd => (AllAdmittedFinished => (\A j \in Joins : jst[j] # "begun") /\ evStack = <<>>)
Terminates == <>AllEnd
=============================================================================
