\* the transcription of /repo on scenario families that are not replayed step by step (futures)
SPECIFICATION Spec
CONSTANTS Threads <- T  Items <- W  Joins <- J  Scenarios <- Scn  FirstCloserOnly = TRUE
INVARIANTS JoinOnlyAfterAllDone JoinOncePerStart CountExact AdmittedIffBeforeClose TerminalJoined NoTouchAfterDestruction
VIEW View
CHECK_DEADLOCK TRUE
