SPECIFICATION FairSpec
CONSTANTS Threads <- T  Items <- W  Joins <- J  Scenarios <- Scn  FirstCloserOnly = TRUE
PROPERTY Terminates
CHECK_DEADLOCK TRUE
