\* spec-level mutation (non-vacuity of NoTouchAfterDestruction): the historical end_scope() that signals whenever it
\* finds count == 0 MUST violate the invariant
SPECIFICATION Spec
CONSTANTS Threads <- T  Items <- W  Joins <- J  Scenarios <- Scn  FirstCloserOnly = FALSE
INVARIANTS NoTouchAfterDestruction
VIEW View
CHECK_DEADLOCK TRUE
