SPECIFICATION FairSpec
CONSTANTS Threads <- T  Items <- W  Joins <- J  Scenarios <- Scn  FirstCloserOnly = FALSE
PROPERTY Terminates
CHECK_DEADLOCK TRUE
