---- MODULE ScopeV0MC ----
EXTENDS ScopeV0, Json, IOUtils, TLCExt
T == {1, 2, 3}
W == 1..4
J == {1, 2}
ScnSeq == JsonDeserialize(IOEnv.SCENARIOS)
Scn == {ScnSeq[i] : i \in 1..Len(ScnSeq)}
EdgeLog ==
  LET rec == [s |-> <<TLCFP(vars), TLCFP(<<vars, 1>>)>>, t |-> <<TLCFP(vars'), TLCFP(<<vars', 1>>)>>,
              th |-> lastT', pc |-> lastPc', scn |-> scn.id, done |-> AllEnd',
              obs |-> [adm |-> adm', jst |-> jst', bad |-> bad']]
  IN (lastT' # 0 /\ ~(AllEnd /\ AllEnd')) =>
     Serialize(ToJson(rec) \o "\n", IOEnv.EDGES,
        [format |-> "TXT", charset |-> "UTF-8", openOptions |-> <<"WRITE", "CREATE", "APPEND">>]).exitValue = 0
====
