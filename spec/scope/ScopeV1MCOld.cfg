\* regression mode: historical variant as transcription (see ScopeV2MCOld.cfg)
SPECIFICATION Spec
CONSTANTS Threads <- T  Items <- W  Joins <- J  Scenarios <- Scn  FirstCloserOnly = FALSE
INVARIANTS JoinOnlyAfterAllDone JoinOncePerStart CountExact AdmittedIffBeforeClose AttachArbitration StopDeliveredToOutstanding TerminalJoined TerminalAllCompleted
VIEW View
ACTION_CONSTRAINT EdgeLog
CHECK_DEADLOCK TRUE
