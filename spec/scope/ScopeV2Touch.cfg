SPECIFICATION Spec
CONSTANTS Threads <- T  Items <- W  Joins <- J  Scenarios <- Scn  FirstCloserOnly = FALSE
INVARIANTS NoTouchAfterDestruction
VIEW View
CHECK_DEADLOCK TRUE
