SPECIFICATION Spec
CONSTANTS Threads <- T  Items <- W  Joins <- J  Scenarios <- Scn  FirstCloserOnly = FALSE
INVARIANTS JoinOnlyAfterAllDone JoinOncePerStart CountExact AdmittedIffBeforeClose AttachArbitration StopDeliveredToOutstanding TerminalJoined TerminalAllCompleted
CHECK_DEADLOCK TRUE
