\* spec-level mutation: must violate NoTouchAfterDestruction (see ScopeV2Old.cfg)
SPECIFICATION Spec
CONSTANTS Threads <- T  Items <- W  Joins <- J  Scenarios <- Scn  FirstCloserOnly = FALSE
INVARIANTS NoTouchAfterDestruction
VIEW View
CHECK_DEADLOCK TRUE
