------------------------------ MODULE ScopeV1 ------------------------------
(***************************************************************************)
(* Implementation-shaped specification of unifex::v1::async_scope          *)
(* (include/unifex/v1/async_scope.hpp) = a v2::async_scope (see ScopeV2:   *)
(* packed open-bit + count word, join via the v1 manual reset event) plus  *)
(* a stop source; attach(s) = v2 nest(attach_sender(s)); the attach        *)
(* operation registers stokenCallback_ on the scope's stop token and       *)
(* receiverCallback_ on its receiver's stop token, owns a private stop     *)
(* source the nested operation listens to, and arbitrates "nested          *)
(* operation completed" against "a stop callback fired" with refcount_     *)
(* (1 -> 2 CAS in request_stop, fetch_sub in try_complete: the party that  *)
(* takes it from 1 to 0 deregisters both callbacks and completes the       *)
(* receiver).  request_stop() = end_scope(); stopSource_.request_stop();   *)
(* cleanup() = request_stop() then join() (a second end_scope()).          *)
(*                                                                         *)
(* Stop sources are coarse (C03's business): request_stop() sets the flag  *)
(* in one step and then runs the registered callbacks one by one, most     *)
(* recently registered first (each callback with its own schedule points); *)
(* a second requester returns at once; registration after the flag is set  *)
(* runs the callback inline; deregistration waits while the callback runs  *)
(* on another thread.  Each work item's receiver has its own stop source   *)
(* (op rstop).                                                             *)
(* Schedule points: those of ScopeV2 plus scope.v1_rs, scope.at_cas,       *)
(* scope.at_stop, scope.at_fsub, scope.at_cb2, scope.at_start, spin_wait   *)
(* (= dereg_wait).                                                         *)
(* Ops: ScopeV2's nest (= attach) / start / discard / copy / lstart /      *)
(* spawn (= spawn_detached) / complete / join (= complete()) plus          *)
(* <<"cleanup",j,0>>, <<"reqstop",0,0>> and <<"rstop",w,0>> (request stop  *)
(* on the stop source behind w's receiver).                                *)
(***************************************************************************)
EXTENDS Naturals, Sequences, FiniteSets, TLC

CONSTANTS Threads, Items, Joins, Scenarios,
          FirstCloserOnly   \* TRUE = the protocol /repo implements; FALSE = historical variant, spec-level mutation (see ScopeV2)

VARIABLES scn, pi, pc,
          ret,           \* per thread: pending continuations (innermost first): "cbloop" | "rstop_end" | a schedule point
          cbq,           \* per thread: callbacks its stopSource_.request_stop() still has to consider (in call order)
          cur,           \* per thread: the item whose attach operation it is working on
          phase,         \* per thread: cleanup() is in request_stop() (0) or in join() (1)
          side,          \* per thread: the attach callback it runs is stokenCallback_ (1) or receiverCallback_ (2)
          regS, regE, iter,
          setBy,         \* per thread: evt_.set() was called by end_scope ("es") or record_completion ("rc")
          open, count, evSig, evStack,
          stopReq,       \* scope stopSource_.stop_requested()
          regSeq,        \* items whose stokenCallback_ is registered, most recent first
          sref, ist,     \* ist: "none" | "sender" | "conn" (attach op started, leaf not yet) | "running" | "completing" | "finished"
          rc,            \* [Items -> 0..2] attach operation refcount_
          cbReg, cb2Reg, \* [Items -> BOOLEAN] stokenCallback_ / receiverCallback_ registered
          cbRun, cbRun2, \* [Items -> thread running that callback, 0 = none]
          opStop,        \* [Items -> BOOLEAN] attach operation's own stop source requested
          rStop,         \* [Items -> BOOLEAN] the receiver's stop source requested
          seen,          \* [Items -> BOOLEAN] the nested leaf has observed the stop request
          jst,
          adm, started, fin, mustAdmit, closeBegun, jdone,
          stopOpen, stopEnded,   \* scope request_stop() calls in flight / one has returned
          rOpen, rEnded,         \* per item: receiver-side request_stop() in flight / has returned
          bad,
          lastT, lastPc  \* export only (hidden by VIEW)
vars == <<scn, pi, pc, ret, cbq, cur, phase, side, regS, regE, iter, setBy, open, count, evSig, evStack, stopReq, regSeq,
          sref, ist, rc, cbReg, cb2Reg, cbRun, cbRun2, opStop, rStop, seen, jst, adm, started, fin, mustAdmit, closeBegun,
          jdone, stopOpen, stopEnded, rOpen, rEnded, bad>>
\* groups used in UNCHANGED clauses
regs == <<regS, regE, iter>>
word == <<open, count>>
evt == <<evSig, evStack>>
reg == <<cbReg, cb2Reg, regSeq>>
att == <<rc, opStop, rStop, seen>>
hist == <<adm, started, fin, mustAdmit, closeBegun>>
joins == <<jst, jdone>>
\* owned by the control helpers Goto / Return: pi pc ret cbq cur phase side cbRun stopOpen stopEnded rOpen rEnded

Prog(t) == scn.prog[t]
Op(t) == Prog(t)[pi[t]]
Name(t) == Op(t)[1]
Direct == {"nest", "join", "spawn", "cleanup", "reqstop"}
Closers == {"join", "cleanup"}
PlannedJoins == {j \in Joins : \E t \in Threads : \E k \in 1..Len(Prog(t)) : Prog(t)[k][1] \in Closers /\ Prog(t)[k][2] = j}
Freed == /\ PlannedJoins # {} /\ \A j \in PlannedJoins : jst[j] = "done"
         /\ \A t \in Threads : pc[t] = "end" \/ \A k \in pi[t]..Len(Prog(t)) : Prog(t)[k][1] \notin Direct
Touch == bad' = IF Freed THEN "scope-touched-after-destruction" ELSE bad
Remove(s, w) == SelectSeq(s, LAMBDA x : x # w)

Init ==
  /\ scn \in Scenarios
  /\ pi = [t \in Threads |-> 1]
  /\ pc = [t \in Threads |-> IF Len(scn.prog[t]) = 0 THEN "end" ELSE "op"]
  /\ ret = [t \in Threads |-> <<>>] /\ cbq = [t \in Threads |-> <<>>]
  /\ cur = [t \in Threads |-> 0] /\ phase = [t \in Threads |-> 0] /\ side = [t \in Threads |-> 1]
  /\ regS = [t \in Threads |-> <<TRUE, 0>>] /\ regE = [t \in Threads |-> <<FALSE, <<>>>>]
  /\ iter = [t \in Threads |-> <<>>] /\ setBy = [t \in Threads |-> "es"]
  /\ open = TRUE /\ count = 0 /\ evSig = FALSE /\ evStack = <<>> /\ stopReq = FALSE /\ regSeq = <<>>
  /\ sref = [w \in Items |-> FALSE] /\ ist = [w \in Items |-> "none"]
  /\ rc = [w \in Items |-> 0] /\ cbReg = [w \in Items |-> FALSE] /\ cb2Reg = [w \in Items |-> FALSE]
  /\ cbRun = [w \in Items |-> 0] /\ cbRun2 = [w \in Items |-> 0]
  /\ opStop = [w \in Items |-> FALSE] /\ rStop = [w \in Items |-> FALSE] /\ seen = [w \in Items |-> FALSE]
  /\ jst = [j \in Joins |-> "none"]
  /\ adm = [w \in Items |-> 0] /\ started = [w \in Items |-> FALSE] /\ fin = [w \in Items |-> FALSE]
  /\ mustAdmit = [w \in Items |-> FALSE] /\ closeBegun = FALSE /\ jdone = [j \in Joins |-> 0]
  /\ stopOpen = 0 /\ stopEnded = FALSE /\ rOpen = [w \in Items |-> 0] /\ rEnded = [w \in Items |-> FALSE]
  /\ bad = "ok" /\ lastT = 0 /\ lastPc = ""

\* ---- control helpers ----
FinishPc(t) == /\ pi' = [pi EXCEPT ![t] = @ + 1]
               /\ pc' = [pc EXCEPT ![t] = IF pi[t] + 1 > Len(Prog(t)) THEN "end" ELSE "op"]
GotoPc(t, l) == pc' = [pc EXCEPT ![t] = l] /\ pi' = pi
stopHist == <<stopOpen, stopEnded, rOpen, rEnded>>
Goto(t, l) == GotoPc(t, l) /\ UNCHANGED <<ret, cbq, cur, phase, side, cbRun, stopHist>>
GotoCur(t, l, w) == GotoPc(t, l) /\ cur' = [cur EXCEPT ![t] = w] /\ UNCHANGED <<ret, cbq, phase, side, cbRun, stopHist>>
\* stopSource_.request_stop() of the scope has returned on thread t
StopPartOver(t) ==
  /\ stopOpen' = stopOpen - 1 /\ stopEnded' = TRUE /\ UNCHANGED <<rOpen, rEnded>>
  /\ IF Name(t) = "cleanup" THEN GotoPc(t, "es_fand") /\ phase' = [phase EXCEPT ![t] = 1]
     ELSE FinishPc(t) /\ UNCHANGED phase
\* the current call returns: resume the innermost pending continuation; run0/reg0 = cbRun/cbReg as updated by this step
Return(t, run0, reg0) ==
  IF ret[t] = <<>>
  THEN FinishPc(t) /\ cbRun' = run0 /\ UNCHANGED <<ret, cbq, cur, phase, side, stopHist>>
  ELSE IF Head(ret[t]) = "cbloop"
  THEN LET live == SelectSeq(cbq[t], LAMBDA w : reg0[w]) IN
       IF live = <<>>
       THEN /\ cbRun' = run0 /\ cbq' = [cbq EXCEPT ![t] = <<>>] /\ ret' = [ret EXCEPT ![t] = Tail(@)]
            /\ UNCHANGED <<cur, side>> /\ StopPartOver(t)
       ELSE LET w == Head(live) IN
            /\ cbq' = [cbq EXCEPT ![t] = Tail(live)] /\ cur' = [cur EXCEPT ![t] = w] /\ side' = [side EXCEPT ![t] = 1]
            /\ cbRun' = [run0 EXCEPT ![w] = t] /\ GotoPc(t, "at_cas") /\ UNCHANGED <<ret, phase, stopHist>>
  ELSE IF Head(ret[t]) = "rstop_end"
  THEN \* the receiver's stop source request_stop() returns: op rstop is finished
       /\ FinishPc(t) /\ ret' = [ret EXCEPT ![t] = Tail(@)] /\ cbRun' = run0
       /\ rOpen' = [rOpen EXCEPT ![Op(t)[2]] = @ - 1] /\ rEnded' = [rEnded EXCEPT ![Op(t)[2]] = TRUE]
       /\ UNCHANGED <<cbq, cur, phase, side, stopOpen, stopEnded>>
  ELSE /\ GotoPc(t, Head(ret[t])) /\ ret' = [ret EXCEPT ![t] = Tail(@)] /\ cbRun' = run0
       /\ UNCHANGED <<cbq, cur, phase, side, stopHist>>
\* an attach stop callback returns
CbReturn(t, w) == IF side[t] = 1 THEN Return(t, [cbRun EXCEPT ![w] = 0], cbReg) /\ UNCHANGED cbRun2
                  ELSE Return(t, cbRun, cbReg) /\ cbRun2' = [cbRun2 EXCEPT ![w] = 0]
\* end_scope() has returned
AfterEs(t) == IF Name(t) = "join" \/ (Name(t) = "cleanup" /\ phase[t] = 1) THEN Goto(t, "ev_w_load") ELSE Goto(t, "v1_rs")
AfterSet(t) == IF setBy[t] = "rc" THEN Return(t, cbRun, cbReg) ELSE AfterEs(t)
JoinDone(j) == /\ jst' = [jst EXCEPT ![j] = "done"] /\ jdone' = [jdone EXCEPT ![j] = @ + 1]

Tgt(t) == IF Name(t) \in {"copy", "lstart"} THEN Op(t)[3] ELSE Op(t)[2]
\* start() of the nest operation of item w on thread t
\*  - with a scope reference: attach operation start: register stokenCallback_ (inline callback if stop already requested)
\*  - without: set_done
StartOp(t, w, has) ==
  IF has
  THEN /\ ist' = [ist EXCEPT ![w] = "conn"] /\ rc' = [rc EXCEPT ![w] = 1] /\ UNCHANGED <<fin, cb2Reg>>
       /\ IF stopReq
          THEN /\ GotoPc(t, "at_cas") /\ cur' = [cur EXCEPT ![t] = w] /\ ret' = [ret EXCEPT ![t] = <<"at_cb2">> \o @]
               /\ side' = [side EXCEPT ![t] = 1]
               /\ cbRun' = [cbRun EXCEPT ![w] = t] /\ UNCHANGED <<cbReg, regSeq, cbq, phase, stopHist>>
          ELSE /\ cbReg' = [cbReg EXCEPT ![w] = TRUE] /\ regSeq' = <<w>> \o regSeq /\ GotoCur(t, "at_cb2", w)
  ELSE /\ ist' = [ist EXCEPT ![w] = "finished"] /\ fin' = [fin EXCEPT ![w] = TRUE] /\ UNCHANGED <<rc, reg>>
       /\ Return(t, cbRun, cbReg)
\* try_record_start returned `ok` (or was skipped): nest/copy return a sender, spawn/lstart start the operation
Resolve(t, ok) ==
  LET w == Tgt(t)  run == Name(t) \in {"lstart", "spawn"} IN
  /\ adm' = [adm EXCEPT ![w] = IF ok THEN 1 ELSE 2]
  /\ sref' = [sref EXCEPT ![w] = ok]
  /\ mustAdmit' = [mustAdmit EXCEPT ![w] = ~closeBegun]
  /\ IF run THEN StartOp(t, w, ok)
     ELSE /\ ist' = [ist EXCEPT ![w] = "sender"] /\ UNCHANGED <<fin, rc, reg>> /\ Return(t, cbRun, cbReg)
\* the party that took refcount_ from 1 to 0: callbacks deregistered, receiver completed (nest_receiver::complete:
\* WorkDone), then the scope reference is dropped (record_completion)
CanDereg(t, w) == cbRun[w] \in {0, t} /\ cbRun2[w] \in {0, t}
DoComplete(t, w) ==
  /\ cbReg' = [cbReg EXCEPT ![w] = FALSE] /\ cb2Reg' = [cb2Reg EXCEPT ![w] = FALSE] /\ regSeq' = Remove(regSeq, w)
  /\ cbRun' = [cbRun EXCEPT ![w] = 0] /\ cbRun2' = [cbRun2 EXCEPT ![w] = 0]
  /\ fin' = [fin EXCEPT ![w] = TRUE] /\ ist' = [ist EXCEPT ![w] = "finished"] /\ sref' = [sref EXCEPT ![w] = FALSE]
  /\ GotoPc(t, "rc_fsub") /\ UNCHANGED <<ret, cbq, cur, phase, side, stopHist>>

StepOp(t) ==
  /\ pc[t] = "op"
  /\ LET o == Op(t)  n == o[1] IN
     CASE n \in {"nest", "spawn"} ->
            /\ Goto(t, "trs_load")
            /\ UNCHANGED <<scn, regs, setBy, word, evt, stopReq, reg, sref, ist, att, cbRun2, joins, hist, bad>>
       [] n \in {"copy", "lstart"} ->
            IF sref[o[2]]
            THEN /\ Goto(t, "trs_load")
                 /\ UNCHANGED <<scn, regs, setBy, word, evt, stopReq, reg, sref, ist, att, cbRun2, joins, hist, bad>>
            ELSE /\ Resolve(t, FALSE)
                 /\ UNCHANGED <<scn, regs, setBy, word, evt, stopReq, opStop, rStop, seen, cbRun2, joins, started, closeBegun, bad>>
       [] n = "start" ->
            /\ StartOp(t, o[2], sref[o[2]])
            /\ UNCHANGED <<scn, regs, setBy, word, evt, stopReq, sref, opStop, rStop, seen, cbRun2, joins, adm, started, mustAdmit, closeBegun, bad>>
       [] n = "discard" ->
            /\ fin' = [fin EXCEPT ![o[2]] = TRUE] /\ ist' = [ist EXCEPT ![o[2]] = "finished"]
            /\ sref' = [sref EXCEPT ![o[2]] = FALSE]
            /\ IF sref[o[2]] THEN Goto(t, "rc_fsub") ELSE Return(t, cbRun, cbReg)
            /\ UNCHANGED <<scn, regs, setBy, word, evt, stopReq, reg, att, cbRun2, joins, adm, started, mustAdmit, closeBegun, bad>>
       [] n = "complete" ->
            IF ist[o[2]] = "running"
            THEN /\ ist' = [ist EXCEPT ![o[2]] = "completing"] /\ GotoCur(t, "at_fsub", o[2])
                 /\ UNCHANGED <<scn, regs, setBy, word, evt, stopReq, reg, sref, att, cbRun2, joins, hist, bad>>
            ELSE /\ IF ist[o[2]] = "finished" THEN Return(t, cbRun, cbReg) ELSE Goto(t, "wait")
                 /\ UNCHANGED <<scn, regs, setBy, word, evt, stopReq, reg, sref, ist, att, cbRun2, joins, hist, bad>>
       [] n \in Closers ->
            /\ jst' = [jst EXCEPT ![o[2]] = "begun"] /\ closeBegun' = TRUE
            /\ GotoPc(t, "es_fand") /\ phase' = [phase EXCEPT ![t] = 0]
            /\ stopOpen' = IF n = "cleanup" THEN stopOpen + 1 ELSE stopOpen
            /\ UNCHANGED <<ret, cbq, cur, side, cbRun, stopEnded, rOpen, rEnded>>
            /\ UNCHANGED <<scn, regs, setBy, word, evt, stopReq, reg, sref, ist, att, cbRun2, jdone, adm, started, fin, mustAdmit, bad>>
       [] n = "reqstop" ->
            /\ closeBegun' = TRUE /\ stopOpen' = stopOpen + 1
            /\ GotoPc(t, "es_fand") /\ phase' = [phase EXCEPT ![t] = 0]
            /\ UNCHANGED <<ret, cbq, cur, side, cbRun, stopEnded, rOpen, rEnded>>
            /\ UNCHANGED <<scn, regs, setBy, word, evt, stopReq, reg, sref, ist, att, cbRun2, joins, adm, started, fin, mustAdmit, bad>>
       [] n = "rstop" ->
            \* request_stop() on the stop source behind item o[2]'s receiver: runs receiverCallback_ if it is registered
            /\ rStop' = [rStop EXCEPT ![o[2]] = TRUE]
            /\ IF cb2Reg[o[2]] /\ ~rStop[o[2]]
               THEN /\ GotoPc(t, "at_cas") /\ cur' = [cur EXCEPT ![t] = o[2]] /\ side' = [side EXCEPT ![t] = 2]
                    /\ ret' = [ret EXCEPT ![t] = <<"rstop_end">> \o @] /\ cbRun2' = [cbRun2 EXCEPT ![o[2]] = t]
                    /\ rOpen' = [rOpen EXCEPT ![o[2]] = @ + 1]
                    /\ UNCHANGED <<cbq, phase, cbRun, stopOpen, stopEnded, rEnded>>
               ELSE /\ FinishPc(t) /\ rEnded' = [rEnded EXCEPT ![o[2]] = TRUE]
                    /\ UNCHANGED <<ret, cbq, cur, phase, side, cbRun, cbRun2, stopOpen, stopEnded, rOpen>>
            /\ UNCHANGED <<scn, regs, setBy, word, evt, stopReq, reg, sref, ist, rc, opStop, seen, joins, hist, bad>>
StepWait(t) ==
  /\ pc[t] = "wait"
  /\ LET w == Op(t)[2] IN
     /\ ist[w] \in {"running", "finished"}
     /\ IF ist[w] = "running"
        THEN ist' = [ist EXCEPT ![w] = "completing"] /\ GotoCur(t, "at_fsub", w)
        ELSE Return(t, cbRun, cbReg) /\ UNCHANGED ist
  /\ UNCHANGED <<scn, regs, setBy, word, evt, stopReq, reg, sref, att, cbRun2, joins, hist, bad>>
StepTrsLoad(t) ==
  /\ pc[t] = "trs_load" /\ Touch
  /\ regS' = [regS EXCEPT ![t] = <<open, count>>]
  /\ IF ~open THEN Resolve(t, FALSE)
     ELSE Goto(t, "trs_cas") /\ UNCHANGED <<sref, ist, rc, reg, adm, fin, mustAdmit>>
  /\ UNCHANGED <<scn, regE, iter, setBy, word, evt, stopReq, opStop, rStop, seen, cbRun2, joins, started, closeBegun>>
StepTrsCas(t) ==
  /\ pc[t] = "trs_cas" /\ Touch
  /\ IF <<open, count>> = regS[t]
     THEN count' = count + 1 /\ Resolve(t, TRUE) /\ UNCHANGED regS
     ELSE /\ regS' = [regS EXCEPT ![t] = <<open, count>>] /\ UNCHANGED count
          /\ IF ~open THEN Resolve(t, FALSE)
             ELSE Goto(t, "trs_cas") /\ UNCHANGED <<sref, ist, rc, reg, adm, fin, mustAdmit>>
  /\ UNCHANGED <<scn, regE, iter, setBy, open, evt, stopReq, opStop, rStop, seen, cbRun2, joins, started, closeBegun>>
\* ---- attach operation ----
\* request_stop(): refcount_ 1 -> 2, else no-op (callback returns)
StepAtCas(t) ==
  /\ pc[t] = "at_cas"
  /\ LET w == cur[t] IN
     IF rc[w] = 1 THEN rc' = [rc EXCEPT ![w] = 2] /\ Goto(t, "at_stop") /\ UNCHANGED cbRun2
     ELSE UNCHANGED rc /\ CbReturn(t, w)
  /\ UNCHANGED <<scn, regs, setBy, word, evt, stopReq, reg, sref, ist, opStop, rStop, seen, joins, hist, bad>>
\* stopSource_.request_stop() of the attach operation: the nested leaf (if started) sees it
StepAtStop(t) ==
  /\ pc[t] = "at_stop"
  /\ LET w == cur[t] IN
     /\ opStop' = [opStop EXCEPT ![w] = TRUE]
     /\ seen' = [seen EXCEPT ![w] = @ \/ ist[w] \in {"running", "completing"}]
  /\ Goto(t, "at_fsub")
  /\ UNCHANGED <<scn, regs, setBy, word, evt, stopReq, reg, sref, ist, rc, rStop, cbRun2, joins, hist, bad>>
\* try_complete(): fetch_sub(1); 1 -> 0 makes this party the completer
StepAtFsub(t) ==
  /\ pc[t] = "at_fsub"
  /\ LET w == cur[t]  leafSide == Name(t) = "complete" IN
     /\ rc' = [rc EXCEPT ![w] = @ - 1]
     /\ IF rc[w] = 1
        THEN IF ~CanDereg(t, w)
             THEN Goto(t, "dereg_wait") /\ UNCHANGED <<reg, cbRun2, fin, ist, sref, bad>>     \* a callback runs elsewhere: destruct() waits
             ELSE DoComplete(t, w) /\ Touch
        ELSE /\ UNCHANGED <<reg, fin, sref, ist, bad>>
             /\ IF leafSide THEN Return(t, cbRun, cbReg) /\ UNCHANGED cbRun2      \* a stop callback will complete it
                ELSE CbReturn(t, w)
  /\ UNCHANGED <<scn, regs, setBy, word, evt, stopReq, opStop, rStop, seen, joins, adm, started, mustAdmit, closeBegun>>
StepDeregWait(t) ==
  /\ pc[t] = "dereg_wait"
  /\ CanDereg(t, cur[t])
  /\ DoComplete(t, cur[t]) /\ Touch
  /\ UNCHANGED <<scn, regs, setBy, word, evt, stopReq, att, joins, adm, started, mustAdmit, closeBegun>>
\* receiverCallback_ is registered (inline callback if the receiver's stop source is already stopped)
StepAtCb2(t) ==
  /\ pc[t] = "at_cb2"
  /\ LET w == cur[t] IN
     IF rStop[w]
     THEN /\ GotoPc(t, "at_cas") /\ side' = [side EXCEPT ![t] = 2] /\ ret' = [ret EXCEPT ![t] = <<"at_start">> \o @]
          /\ cbRun2' = [cbRun2 EXCEPT ![w] = t] /\ UNCHANGED <<cb2Reg, cbq, cur, phase, cbRun, stopHist>>
     ELSE cb2Reg' = [cb2Reg EXCEPT ![w] = TRUE] /\ Goto(t, "at_start") /\ UNCHANGED cbRun2
  /\ UNCHANGED <<scn, regs, setBy, word, evt, stopReq, cbReg, regSeq, sref, ist, att, joins, hist, bad>>
\* the nested leaf is started: it sees a stop request iff the attach operation's stop source is already stopped
StepAtStart(t) ==
  /\ pc[t] = "at_start"
  /\ LET w == cur[t] IN
     /\ ist' = [ist EXCEPT ![w] = "running"] /\ started' = [started EXCEPT ![w] = TRUE]
     /\ seen' = [seen EXCEPT ![w] = opStop[w]]
  /\ Return(t, cbRun, cbReg)
  /\ UNCHANGED <<scn, regs, setBy, word, evt, stopReq, reg, sref, rc, opStop, rStop, cbRun2, joins, adm, fin, mustAdmit, closeBegun, bad>>
\* ---- v2 scope ----
StepRcFsub(t) ==
  /\ pc[t] = "rc_fsub" /\ Touch
  /\ count' = count - 1
  /\ IF ~open /\ count = 1 THEN Goto(t, "ev_xchg") /\ setBy' = [setBy EXCEPT ![t] = "rc"]
     ELSE Return(t, cbRun, cbReg) /\ UNCHANGED setBy
  /\ UNCHANGED <<scn, regs, open, evt, stopReq, reg, sref, ist, att, cbRun2, joins, hist>>
StepEsFand(t) ==
  /\ pc[t] = "es_fand" /\ Touch
  /\ open' = FALSE
  /\ IF count = 0 /\ (open \/ ~FirstCloserOnly) THEN Goto(t, "ev_xchg") /\ setBy' = [setBy EXCEPT ![t] = "es"]
     ELSE AfterEs(t) /\ UNCHANGED setBy
  /\ UNCHANGED <<scn, regs, count, evt, stopReq, reg, sref, ist, att, cbRun2, joins, hist>>
\* stopSource_.request_stop(): first requester runs the registered callbacks, later ones return at once
StepRs(t) ==
  /\ pc[t] = "v1_rs" /\ Touch
  /\ stopReq' = TRUE
  /\ IF stopReq \/ regSeq = <<>>
     THEN UNCHANGED <<ret, cbq, cur, side, cbRun>> /\ StopPartOver(t)
     ELSE LET w == Head(regSeq) IN
          /\ ret' = [ret EXCEPT ![t] = <<"cbloop">> \o @] /\ cbq' = [cbq EXCEPT ![t] = Tail(regSeq)]
          /\ cur' = [cur EXCEPT ![t] = w] /\ side' = [side EXCEPT ![t] = 1] /\ cbRun' = [cbRun EXCEPT ![w] = t]
          /\ GotoPc(t, "at_cas") /\ UNCHANGED <<phase, stopHist>>
  /\ UNCHANGED <<scn, regs, setBy, word, evt, reg, sref, ist, att, cbRun2, joins, hist>>
StepEvXchg(t) ==
  /\ pc[t] = "ev_xchg" /\ Touch
  /\ evSig' = TRUE /\ evStack' = <<>>
  /\ IF evSig \/ evStack = <<>> THEN AfterSet(t) /\ UNCHANGED iter
     ELSE iter' = [iter EXCEPT ![t] = evStack] /\ Goto(t, "ev_pop")
  /\ UNCHANGED <<scn, regS, regE, setBy, word, stopReq, reg, sref, ist, att, cbRun2, joins, hist>>
StepEvPop(t) ==
  /\ pc[t] = "ev_pop"
  /\ JoinDone(Head(iter[t]))
  /\ iter' = [iter EXCEPT ![t] = Tail(@)]
  /\ IF Tail(iter[t]) = <<>> THEN AfterSet(t) ELSE Goto(t, "ev_pop")
  /\ UNCHANGED <<scn, regS, regE, setBy, word, evt, stopReq, reg, sref, ist, att, cbRun2, hist, bad>>
StepEvWLoad(t) ==
  /\ pc[t] = "ev_w_load" /\ Touch
  /\ regE' = [regE EXCEPT ![t] = <<evSig, evStack>>]
  /\ IF evSig THEN JoinDone(Op(t)[2]) /\ Return(t, cbRun, cbReg)
     ELSE Goto(t, "ev_w_cas") /\ UNCHANGED joins
  /\ UNCHANGED <<scn, regS, iter, setBy, word, evt, stopReq, reg, sref, ist, att, cbRun2, hist>>
StepEvWCas(t) ==
  /\ pc[t] = "ev_w_cas" /\ Touch
  /\ IF <<evSig, evStack>> = regE[t]
     THEN evStack' = <<Op(t)[2]>> \o evStack /\ Return(t, cbRun, cbReg) /\ UNCHANGED <<regE, joins>>
     ELSE /\ regE' = [regE EXCEPT ![t] = <<evSig, evStack>>] /\ UNCHANGED evStack
          /\ IF evSig THEN JoinDone(Op(t)[2]) /\ Return(t, cbRun, cbReg)
             ELSE Goto(t, "ev_w_cas") /\ UNCHANGED joins
  /\ UNCHANGED <<scn, regS, iter, setBy, word, evSig, stopReq, reg, sref, ist, att, cbRun2, hist>>

Step(t) == \/ StepOp(t) \/ StepWait(t) \/ StepTrsLoad(t) \/ StepTrsCas(t) \/ StepAtCas(t) \/ StepAtStop(t) \/ StepAtFsub(t)
           \/ StepDeregWait(t) \/ StepAtCb2(t) \/ StepAtStart(t) \/ StepRcFsub(t) \/ StepEsFand(t) \/ StepRs(t)
           \/ StepEvXchg(t) \/ StepEvPop(t) \/ StepEvWLoad(t) \/ StepEvWCas(t)
AllEnd == \A t \in Threads : pc[t] = "end"
ghosts == <<lastT, lastPc>>
Next == \/ \E t \in Threads : Step(t) /\ lastT' = t /\ lastPc' = pc[t]
        \/ (AllEnd /\ UNCHANGED vars /\ UNCHANGED ghosts)
Spec == Init /\ [][Next]_<<vars, ghosts>>
View == vars
FairSpec == Spec /\ \A t \in Threads : WF_<<vars, ghosts>>(Step(t) /\ lastT' = t /\ lastPc' = pc[t])

\* ---- properties (C08) ----
AllAdmittedFinished == \A w \in Items : adm[w] = 1 => fin[w]
JoinOnlyAfterAllDone == \A j \in Joins : jst[j] = "done" => (~open /\ count = 0 /\ AllAdmittedFinished)
JoinOncePerStart == \A j \in Joins : jdone[j] <= 1 /\ (jdone[j] = 1 => jst[j] = "done")
CountExact == count = Cardinality({w \in Items : sref[w]}) + Cardinality({t \in Threads : pc[t] = "rc_fsub"})
AdmittedIffBeforeClose == \A w \in Items : /\ (sref[w] => adm[w] = 1)
                                           /\ (adm[w] = 2 => ~started[w] /\ ist[w] \notin {"conn", "running", "completing"})
                                           /\ (mustAdmit[w] => adm[w] = 1)
\* exactly one party completes an attach operation: refcount_ never underflows, a finished item has refcount 0
AttachArbitration == \A w \in Items : rc[w] \in 0..2 /\ (ist[w] \in {"conn", "running"} => rc[w] >= 1)
\* once some stop request relevant to w (scope request_stop()/cleanup(), or the receiver's stop source) has returned and
\* none is in flight, a still running nested operation has seen the stop request
StopDeliveredToOutstanding ==
  \A w \in Items : ((stopEnded \/ rEnded[w]) /\ stopOpen = 0 /\ rOpen[w] = 0 /\ ist[w] = "running") => seen[w]
NoTouchAfterDestruction == bad = "ok"
TerminalJoined == AllEnd => (AllAdmittedFinished => (\A j \in Joins : jst[j] # "begun") /\ evStack = <<>>)
TerminalAllCompleted == AllEnd => \A w \in Items : ist[w] # "completing"      \* a completed leaf's receiver is completed by someone
Terminates == <>AllEnd
=============================================================================
