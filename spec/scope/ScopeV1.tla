------------------------------ MODULE ScopeV1 ------------------------------
(***************************************************************************)
(* Implementation-shaped specification of unifex::v1::async_scope          *)
(* (include/unifex/v1/async_scope.hpp) = a v2::async_scope (see ScopeV2:   *)
(* packed open-bit + count word, join via the v1 manual reset event) plus  *)
(* a stop source; attach(s) = v2 nest(attach_sender(s)); the attach        *)
(* operation registers a stop callback on the scope's stop token, owns a   *)
(* private stop source the nested operation listens to, and arbitrates     *)
(* "nested operation completed" against "stop callback fired" with         *)
(* refcount_ (1 -> 2 CAS in request_stop, fetch_sub in try_complete: the   *)
(* party that takes it from 1 to 0 deregisters the callbacks and completes *)
(* the receiver).  request_stop() = end_scope(); stopSource_.request_stop; *)
(* cleanup() = request_stop() then join() (a second end_scope()).          *)
(*                                                                         *)
(* The scope's stop source is coarse (C03's business): request_stop() sets *)
(* the flag in one step and then runs the registered attach callbacks one  *)
(* by one (each with its own schedule points); a second requester returns  *)
(* at once; registration after the flag is set runs the callback inline;   *)
(* deregistration waits while the callback runs on another thread.         *)
(* Schedule points: those of ScopeV2 plus scope.v1_rs, scope.at_cas,       *)
(* scope.at_stop, scope.at_fsub, scope.at_cb2, scope.at_start, spin_wait.  *)
(* Ops: ScopeV2's (nest = attach, spawn = spawn_detached, join =           *)
(* complete()) plus <<"cleanup",j,0>> and <<"reqstop",0,0>>.               *)
(***************************************************************************)
EXTENDS Naturals, Sequences, FiniteSets, TLC

CONSTANTS Threads, Items, Joins, Scenarios,
          FirstCloserOnly   \* FALSE = the code as written; TRUE = proposed repair (see ScopeV2)

VARIABLES scn, pi, pc, regS, regE, iter,
          ret,           \* per thread: pending continuations (innermost first): "cbloop" | a schedule point
          cbq,           \* per thread: callbacks its stopSource_.request_stop() still has to consider
          cur,           \* per thread: the item whose attach operation it is working on
          phase,         \* per thread: cleanup() is in request_stop() (0) or in join() (1)
          setBy,         \* per thread: evt_.set() was called by end_scope ("es") or record_completion ("rc")
          open, count, evSig, evStack,
          stopReq,       \* scope stopSource_.stop_requested()
          sref, ist,     \* ist: "none" | "sender" | "conn" (attach op started, leaf not yet) | "running" | "finished"
          rc,            \* [Items -> 0..2] attach operation refcount_
          cbReg,         \* [Items -> BOOLEAN] stokenCallback_ registered with the scope's stop source
          cbRun,         \* [Items -> thread running the attach stop callback, 0 = none]
          opStop,        \* [Items -> BOOLEAN] attach operation's own stop source requested
          seen,          \* [Items -> BOOLEAN] the nested leaf has observed the stop request
          jst,
          adm, started, fin, mustAdmit, closeBegun, jdone,
          delivered,     \* a stopSource_.request_stop() that ran the callbacks has returned
          bad
vars == <<scn, pi, pc, regS, regE, iter, ret, cbq, cur, phase, setBy, open, count, evSig, evStack, stopReq, sref, ist,
          rc, cbReg, cbRun, opStop, seen, jst, adm, started, fin, mustAdmit, closeBegun, jdone, delivered, bad>>
\* groups used in UNCHANGED clauses
ctl == <<pi, pc, ret, cbq, cur, phase>>          \* control state set by Finish/Goto/Return
word == <<open, count>>
evt == <<evSig, evStack>>
att == <<rc, cbReg, opStop, seen>>
hist == <<adm, started, fin, mustAdmit, closeBegun>>

Prog(t) == scn.prog[t]
Op(t) == Prog(t)[pi[t]]
Name(t) == Op(t)[1]
Direct == {"nest", "join", "spawn", "cleanup", "reqstop"}
Closers == {"join", "cleanup"}
PlannedJoins == {j \in Joins : \E t \in Threads : \E k \in 1..Len(Prog(t)) : Prog(t)[k][1] \in Closers /\ Prog(t)[k][2] = j}
Freed == /\ PlannedJoins # {} /\ \A j \in PlannedJoins : jst[j] = "done"
         /\ \A t \in Threads : pc[t] = "end" \/ \A k \in pi[t]..Len(Prog(t)) : Prog(t)[k][1] \notin Direct
Touch == bad' = IF Freed THEN "scope-touched-after-destruction" ELSE bad

Init ==
  /\ scn \in Scenarios
  /\ pi = [t \in Threads |-> 1]
  /\ pc = [t \in Threads |-> IF Len(scn.prog[t]) = 0 THEN "end" ELSE "op"]
  /\ regS = [t \in Threads |-> <<TRUE, 0>>] /\ regE = [t \in Threads |-> <<FALSE, <<>>>>]
  /\ iter = [t \in Threads |-> <<>>] /\ ret = [t \in Threads |-> <<>>] /\ cbq = [t \in Threads |-> {}]
  /\ cur = [t \in Threads |-> 0] /\ phase = [t \in Threads |-> 0] /\ setBy = [t \in Threads |-> "es"]
  /\ open = TRUE /\ count = 0 /\ evSig = FALSE /\ evStack = <<>> /\ stopReq = FALSE
  /\ sref = [w \in Items |-> FALSE] /\ ist = [w \in Items |-> "none"]
  /\ rc = [w \in Items |-> 0] /\ cbReg = [w \in Items |-> FALSE] /\ cbRun = [w \in Items |-> 0]
  /\ opStop = [w \in Items |-> FALSE] /\ seen = [w \in Items |-> FALSE]
  /\ jst = [j \in Joins |-> "none"]
  /\ adm = [w \in Items |-> 0] /\ started = [w \in Items |-> FALSE] /\ fin = [w \in Items |-> FALSE]
  /\ mustAdmit = [w \in Items |-> FALSE] /\ closeBegun = FALSE /\ jdone = [j \in Joins |-> 0]
  /\ delivered = FALSE /\ bad = "ok"

\* ---- control helpers (each fixes pi', pc', ret', cbq', cur', phase' and cbRun', delivered') ----
FinishPc(t) == /\ pi' = [pi EXCEPT ![t] = @ + 1]
               /\ pc' = [pc EXCEPT ![t] = IF pi[t] + 1 > Len(Prog(t)) THEN "end" ELSE "op"]
GotoPc(t, l) == pc' = [pc EXCEPT ![t] = l] /\ pi' = pi
\* plain jump inside the current call
Goto(t, l) == GotoPc(t, l) /\ UNCHANGED <<ret, cbq, cur, phase, cbRun, delivered>>
GotoCur(t, l, w) == GotoPc(t, l) /\ cur' = [cur EXCEPT ![t] = w] /\ UNCHANGED <<ret, cbq, phase, cbRun, delivered>>
\* the current call returns: resume the innermost pending continuation; run0/reg0 = cbRun/cbReg as updated by this step
Return(t, run0, reg0) ==
  IF ret[t] = <<>>
  THEN FinishPc(t) /\ cbRun' = run0 /\ UNCHANGED <<ret, cbq, cur, phase, delivered>>
  ELSE IF Head(ret[t]) = "cbloop"
  THEN LET live == {w \in cbq[t] : reg0[w]} IN
       IF live = {}
       THEN \* stopSource_.request_stop() returns; request_stop() is finished, cleanup() goes on to join()
            /\ delivered' = TRUE /\ cbRun' = run0
            /\ cbq' = [cbq EXCEPT ![t] = {}] /\ ret' = [ret EXCEPT ![t] = Tail(@)] /\ UNCHANGED cur
            /\ IF Name(t) = "cleanup" THEN GotoPc(t, "es_fand") /\ phase' = [phase EXCEPT ![t] = 1]
               ELSE FinishPc(t) /\ UNCHANGED phase
       ELSE \E w \in live :
            /\ cbq' = [cbq EXCEPT ![t] = live \ {w}] /\ cur' = [cur EXCEPT ![t] = w]
            /\ cbRun' = [run0 EXCEPT ![w] = t] /\ GotoPc(t, "at_cas") /\ UNCHANGED <<ret, phase, delivered>>
  ELSE /\ GotoPc(t, Head(ret[t])) /\ ret' = [ret EXCEPT ![t] = Tail(@)] /\ cbRun' = run0
       /\ UNCHANGED <<cbq, cur, phase, delivered>>
\* end_scope() has returned
AfterEs(t) == IF Name(t) = "join" \/ (Name(t) = "cleanup" /\ phase[t] = 1) THEN Goto(t, "ev_w_load") ELSE Goto(t, "v1_rs")
AfterSet(t) == IF setBy[t] = "rc" THEN Return(t, cbRun, cbReg) ELSE AfterEs(t)
JoinDone(j) == /\ jst' = [jst EXCEPT ![j] = "done"] /\ jdone' = [jdone EXCEPT ![j] = @ + 1]

Tgt(t) == IF Name(t) \in {"copy", "lstart"} THEN Op(t)[3] ELSE Op(t)[2]
\* start() of the nest operation of item w on thread t
\*  - with a scope reference: attach operation start: register stokenCallback_ (inline callback if stop already requested)
\*  - without: set_done
StartOp(t, w, has) ==
  IF has
  THEN /\ ist' = [ist EXCEPT ![w] = "conn"] /\ rc' = [rc EXCEPT ![w] = 1] /\ UNCHANGED fin
       /\ IF stopReq
          THEN /\ GotoPc(t, "at_cas") /\ cur' = [cur EXCEPT ![t] = w] /\ ret' = [ret EXCEPT ![t] = <<"at_cb2">> \o @]
               /\ cbRun' = [cbRun EXCEPT ![w] = t] /\ UNCHANGED <<cbReg, cbq, phase, delivered>>
          ELSE /\ cbReg' = [cbReg EXCEPT ![w] = TRUE] /\ GotoCur(t, "at_cb2", w)
  ELSE /\ ist' = [ist EXCEPT ![w] = "finished"] /\ fin' = [fin EXCEPT ![w] = TRUE] /\ UNCHANGED <<rc, cbReg>>
       /\ Return(t, cbRun, cbReg)
\* try_record_start returned `ok` (or was skipped): nest/copy return a sender, spawn/lstart start the operation
Resolve(t, ok) ==
  LET w == Tgt(t)  run == Name(t) \in {"lstart", "spawn"} IN
  /\ adm' = [adm EXCEPT ![w] = IF ok THEN 1 ELSE 2]
  /\ sref' = [sref EXCEPT ![w] = ok]
  /\ mustAdmit' = [mustAdmit EXCEPT ![w] = ~closeBegun]
  /\ IF run THEN StartOp(t, w, ok)
     ELSE /\ ist' = [ist EXCEPT ![w] = "sender"] /\ UNCHANGED <<fin, rc, cbReg>> /\ Return(t, cbRun, cbReg)
\* the party that took refcount_ from 1 to 0: callbacks deregistered, receiver completed (nest_receiver::complete:
\* WorkDone), then the scope reference is dropped (record_completion)
DoComplete(t, w) ==
  /\ cbReg' = [cbReg EXCEPT ![w] = FALSE] /\ cbRun' = [cbRun EXCEPT ![w] = 0]
  /\ fin' = [fin EXCEPT ![w] = TRUE] /\ ist' = [ist EXCEPT ![w] = "finished"] /\ sref' = [sref EXCEPT ![w] = FALSE]
  /\ GotoPc(t, "rc_fsub") /\ UNCHANGED <<ret, cbq, cur, phase, delivered>>

StepOp(t) ==
  /\ pc[t] = "op"
  /\ LET o == Op(t)  n == o[1] IN
     CASE n \in {"nest", "spawn"} ->
            /\ Goto(t, "trs_load")
            /\ UNCHANGED <<scn, regS, regE, iter, setBy, word, evt, stopReq, sref, ist, att, jst, hist, jdone, bad>>
       [] n \in {"copy", "lstart"} ->
            IF sref[o[2]]
            THEN /\ Goto(t, "trs_load")
                 /\ UNCHANGED <<scn, regS, regE, iter, setBy, word, evt, stopReq, sref, ist, att, jst, hist, jdone, bad>>
            ELSE /\ Resolve(t, FALSE)
                 /\ UNCHANGED <<scn, regS, regE, iter, setBy, word, evt, stopReq, opStop, seen, jst, started, closeBegun, jdone, bad>>
       [] n = "start" ->
            /\ StartOp(t, o[2], sref[o[2]])
            /\ UNCHANGED <<scn, regS, regE, iter, setBy, word, evt, stopReq, sref, opStop, seen, jst, adm, started, mustAdmit, closeBegun, jdone, bad>>
       [] n = "discard" ->
            /\ fin' = [fin EXCEPT ![o[2]] = TRUE] /\ ist' = [ist EXCEPT ![o[2]] = "finished"]
            /\ sref' = [sref EXCEPT ![o[2]] = FALSE]
            /\ IF sref[o[2]] THEN Goto(t, "rc_fsub") ELSE Return(t, cbRun, cbReg)
            /\ UNCHANGED <<scn, regS, regE, iter, setBy, word, evt, stopReq, att, jst, adm, started, mustAdmit, closeBegun, jdone, bad>>
       [] n = "complete" ->
            IF ist[o[2]] = "running"
            THEN /\ ist' = [ist EXCEPT ![o[2]] = "completing"] /\ GotoCur(t, "at_fsub", o[2])
                 /\ UNCHANGED <<scn, regS, regE, iter, setBy, word, evt, stopReq, sref, att, jst, hist, jdone, bad>>
            ELSE /\ IF ist[o[2]] = "finished" THEN Return(t, cbRun, cbReg) ELSE Goto(t, "wait")
                 /\ UNCHANGED <<scn, regS, regE, iter, setBy, word, evt, stopReq, sref, ist, att, jst, hist, jdone, bad>>
       [] n \in Closers ->
            /\ jst' = [jst EXCEPT ![o[2]] = "begun"] /\ closeBegun' = TRUE
            /\ GotoPc(t, "es_fand") /\ phase' = [phase EXCEPT ![t] = 0] /\ UNCHANGED <<ret, cbq, cur, cbRun, delivered>>
            /\ UNCHANGED <<scn, regS, regE, iter, setBy, word, evt, stopReq, sref, ist, att, adm, started, fin, mustAdmit, jdone, bad>>
       [] n = "reqstop" ->
            /\ closeBegun' = TRUE
            /\ GotoPc(t, "es_fand") /\ phase' = [phase EXCEPT ![t] = 0] /\ UNCHANGED <<ret, cbq, cur, cbRun, delivered>>
            /\ UNCHANGED <<scn, regS, regE, iter, setBy, word, evt, stopReq, sref, ist, att, jst, adm, started, fin, mustAdmit, jdone, bad>>
StepWait(t) ==
  /\ pc[t] = "wait"
  /\ LET w == Op(t)[2] IN
     /\ ist[w] \in {"running", "finished"}
     /\ IF ist[w] = "running"
        THEN ist' = [ist EXCEPT ![w] = "completing"] /\ GotoCur(t, "at_fsub", w)
        ELSE Return(t, cbRun, cbReg) /\ UNCHANGED ist
  /\ UNCHANGED <<scn, regS, regE, iter, setBy, word, evt, stopReq, sref, att, jst, hist, jdone, bad>>
StepTrsLoad(t) ==
  /\ pc[t] = "trs_load" /\ Touch
  /\ regS' = [regS EXCEPT ![t] = <<open, count>>]
  /\ IF ~open THEN Resolve(t, FALSE)
     ELSE Goto(t, "trs_cas") /\ UNCHANGED <<sref, ist, rc, cbReg, adm, fin, mustAdmit>>
  /\ UNCHANGED <<scn, regE, iter, setBy, word, evt, stopReq, opStop, seen, jst, started, closeBegun, jdone>>
StepTrsCas(t) ==
  /\ pc[t] = "trs_cas" /\ Touch
  /\ IF <<open, count>> = regS[t]
     THEN count' = count + 1 /\ Resolve(t, TRUE) /\ UNCHANGED regS
     ELSE /\ regS' = [regS EXCEPT ![t] = <<open, count>>] /\ UNCHANGED count
          /\ IF ~open THEN Resolve(t, FALSE)
             ELSE Goto(t, "trs_cas") /\ UNCHANGED <<sref, ist, rc, cbReg, adm, fin, mustAdmit>>
  /\ UNCHANGED <<scn, regE, iter, setBy, open, evt, stopReq, opStop, seen, jst, started, closeBegun, jdone>>
\* ---- attach operation ----
\* request_stop(): refcount_ 1 -> 2, else no-op (callback returns)
StepAtCas(t) ==
  /\ pc[t] = "at_cas"
  /\ LET w == cur[t] IN
     IF rc[w] = 1 THEN rc' = [rc EXCEPT ![w] = 2] /\ Goto(t, "at_stop")
     ELSE UNCHANGED rc /\ Return(t, [cbRun EXCEPT ![w] = 0], cbReg)
  /\ UNCHANGED <<scn, regS, regE, iter, setBy, word, evt, stopReq, sref, ist, cbReg, opStop, seen, jst, hist, jdone, bad>>
\* stopSource_.request_stop() of the attach operation: the nested leaf (if started) sees it
StepAtStop(t) ==
  /\ pc[t] = "at_stop"
  /\ LET w == cur[t] IN
     /\ opStop' = [opStop EXCEPT ![w] = TRUE]
     /\ seen' = [seen EXCEPT ![w] = @ \/ ist[w] \in {"running", "completing"}]
  /\ Goto(t, "at_fsub")
  /\ UNCHANGED <<scn, regS, regE, iter, setBy, word, evt, stopReq, sref, ist, rc, cbReg, jst, hist, jdone, bad>>
\* try_complete(): fetch_sub(1); 1 -> 0 makes this party the completer
StepAtFsub(t) ==
  /\ pc[t] = "at_fsub"
  /\ LET w == cur[t]  leafSide == Name(t) = "complete" IN
     /\ rc' = [rc EXCEPT ![w] = @ - 1]
     /\ IF rc[w] = 1
        THEN IF cbRun[w] \notin {0, t}
             THEN Goto(t, "dereg_wait") /\ UNCHANGED <<cbReg, fin, ist, sref, bad>>     \* callback running elsewhere: destruct() waits
             ELSE DoComplete(t, w) /\ Touch
        ELSE /\ UNCHANGED <<cbReg, fin, sref, bad>>
             /\ IF leafSide THEN UNCHANGED ist /\ Return(t, cbRun, cbReg)               \* the stop callback will complete it
                ELSE UNCHANGED ist /\ Return(t, [cbRun EXCEPT ![w] = 0], cbReg)         \* callback returns
  /\ UNCHANGED <<scn, regS, regE, iter, setBy, word, evt, stopReq, opStop, seen, jst, adm, started, mustAdmit, closeBegun, jdone>>
StepDeregWait(t) ==
  /\ pc[t] = "dereg_wait"
  /\ cbRun[cur[t]] \in {0, t}
  /\ DoComplete(t, cur[t]) /\ Touch
  /\ UNCHANGED <<scn, regS, regE, iter, setBy, word, evt, stopReq, rc, opStop, seen, jst, adm, started, mustAdmit, closeBegun, jdone>>
\* receiverCallback_ (the harness receiver is unstoppable): nothing to do
StepAtCb2(t) ==
  /\ pc[t] = "at_cb2" /\ Goto(t, "at_start")
  /\ UNCHANGED <<scn, regS, regE, iter, setBy, word, evt, stopReq, sref, ist, att, jst, hist, jdone, bad>>
\* the nested leaf is started: it sees a stop request iff the attach operation's stop source is already stopped
StepAtStart(t) ==
  /\ pc[t] = "at_start"
  /\ LET w == cur[t] IN
     /\ ist' = [ist EXCEPT ![w] = "running"] /\ started' = [started EXCEPT ![w] = TRUE]
     /\ seen' = [seen EXCEPT ![w] = opStop[w]]
  /\ Return(t, cbRun, cbReg)
  /\ UNCHANGED <<scn, regS, regE, iter, setBy, word, evt, stopReq, sref, rc, cbReg, opStop, jst, adm, fin, mustAdmit, closeBegun, jdone, bad>>
\* ---- v2 scope ----
StepRcFsub(t) ==
  /\ pc[t] = "rc_fsub" /\ Touch
  /\ count' = count - 1
  /\ IF ~open /\ count = 1 THEN Goto(t, "ev_xchg") /\ setBy' = [setBy EXCEPT ![t] = "rc"]
     ELSE Return(t, cbRun, cbReg) /\ UNCHANGED setBy
  /\ UNCHANGED <<scn, regS, regE, iter, open, evt, stopReq, sref, ist, att, jst, hist, jdone>>
StepEsFand(t) ==
  /\ pc[t] = "es_fand" /\ Touch
  /\ open' = FALSE
  /\ IF count = 0 /\ (open \/ ~FirstCloserOnly) THEN Goto(t, "ev_xchg") /\ setBy' = [setBy EXCEPT ![t] = "es"]
     ELSE AfterEs(t) /\ UNCHANGED setBy
  /\ UNCHANGED <<scn, regS, regE, iter, count, evt, stopReq, sref, ist, att, jst, hist, jdone>>
\* stopSource_.request_stop(): first requester runs the registered callbacks, later ones return at once
StepRs(t) ==
  /\ pc[t] = "v1_rs" /\ Touch
  /\ stopReq' = TRUE
  /\ IF stopReq
     THEN /\ UNCHANGED <<ret, cbq, cur, cbRun, delivered>>
          /\ IF Name(t) = "cleanup" THEN GotoPc(t, "es_fand") /\ phase' = [phase EXCEPT ![t] = 1]
             ELSE FinishPc(t) /\ UNCHANGED phase
     ELSE \* push the callback loop and enter it
          LET live == {w \in Items : cbReg[w]} IN
          IF live = {}
          THEN /\ delivered' = TRUE /\ UNCHANGED <<ret, cbq, cur, cbRun>>
               /\ IF Name(t) = "cleanup" THEN GotoPc(t, "es_fand") /\ phase' = [phase EXCEPT ![t] = 1]
                  ELSE FinishPc(t) /\ UNCHANGED phase
          ELSE \E w \in live :
               /\ ret' = [ret EXCEPT ![t] = <<"cbloop">> \o @] /\ cbq' = [cbq EXCEPT ![t] = live \ {w}]
               /\ cur' = [cur EXCEPT ![t] = w] /\ cbRun' = [cbRun EXCEPT ![w] = t]
               /\ GotoPc(t, "at_cas") /\ UNCHANGED <<phase, delivered>>
  /\ UNCHANGED <<scn, regS, regE, iter, setBy, word, evt, sref, ist, att, jst, hist, jdone>>
StepEvXchg(t) ==
  /\ pc[t] = "ev_xchg" /\ Touch
  /\ evSig' = TRUE /\ evStack' = <<>>
  /\ IF evSig \/ evStack = <<>> THEN AfterSet(t) /\ UNCHANGED iter
     ELSE iter' = [iter EXCEPT ![t] = evStack] /\ Goto(t, "ev_pop")
  /\ UNCHANGED <<scn, regS, regE, setBy, word, stopReq, sref, ist, att, jst, hist, jdone>>
StepEvPop(t) ==
  /\ pc[t] = "ev_pop"
  /\ JoinDone(Head(iter[t]))
  /\ iter' = [iter EXCEPT ![t] = Tail(@)]
  /\ IF Tail(iter[t]) = <<>> THEN AfterSet(t) ELSE Goto(t, "ev_pop")
  /\ UNCHANGED <<scn, regS, regE, setBy, word, evt, stopReq, sref, ist, att, hist, bad>>
StepEvWLoad(t) ==
  /\ pc[t] = "ev_w_load" /\ Touch
  /\ regE' = [regE EXCEPT ![t] = <<evSig, evStack>>]
  /\ IF evSig THEN JoinDone(Op(t)[2]) /\ Return(t, cbRun, cbReg)
     ELSE Goto(t, "ev_w_cas") /\ UNCHANGED <<jst, jdone>>
  /\ UNCHANGED <<scn, regS, iter, setBy, word, evt, stopReq, sref, ist, att, hist>>
StepEvWCas(t) ==
  /\ pc[t] = "ev_w_cas" /\ Touch
  /\ IF <<evSig, evStack>> = regE[t]
     THEN evStack' = <<Op(t)[2]>> \o evStack /\ Return(t, cbRun, cbReg) /\ UNCHANGED <<regE, jst, jdone>>
     ELSE /\ regE' = [regE EXCEPT ![t] = <<evSig, evStack>>] /\ UNCHANGED evStack
          /\ IF evSig THEN JoinDone(Op(t)[2]) /\ Return(t, cbRun, cbReg)
             ELSE Goto(t, "ev_w_cas") /\ UNCHANGED <<jst, jdone>>
  /\ UNCHANGED <<scn, regS, iter, setBy, word, evSig, stopReq, sref, ist, att, hist>>

Step(t) == \/ StepOp(t) \/ StepWait(t) \/ StepTrsLoad(t) \/ StepTrsCas(t) \/ StepAtCas(t) \/ StepAtStop(t) \/ StepAtFsub(t)
           \/ StepDeregWait(t) \/ StepAtCb2(t) \/ StepAtStart(t) \/ StepRcFsub(t) \/ StepEsFand(t) \/ StepRs(t)
           \/ StepEvXchg(t) \/ StepEvPop(t) \/ StepEvWLoad(t) \/ StepEvWCas(t)
AllEnd == \A t \in Threads : pc[t] = "end"
Next == (\E t \in Threads : Step(t)) \/ (AllEnd /\ UNCHANGED vars)
Spec == Init /\ [][Next]_vars
FairSpec == Spec /\ \A t \in Threads : WF_vars(Step(t))

\* ---- properties (C08) ----
AllAdmittedFinished == \A w \in Items : adm[w] = 1 => fin[w]
JoinOnlyAfterAllDone == \A j \in Joins : jst[j] = "done" => (~open /\ count = 0 /\ AllAdmittedFinished)
JoinOncePerStart == \A j \in Joins : jdone[j] <= 1 /\ (jdone[j] = 1 => jst[j] = "done")
CountExact == count = Cardinality({w \in Items : sref[w]}) + Cardinality({t \in Threads : pc[t] = "rc_fsub"})
AdmittedIffBeforeClose == \A w \in Items : /\ (sref[w] => adm[w] = 1)
                                           /\ (adm[w] = 2 => ~started[w] /\ ist[w] \notin {"conn", "running", "completing"})
                                           /\ (mustAdmit[w] => adm[w] = 1)
\* exactly one party completes an attach operation: refcount_ never underflows, a finished item has refcount 0
AttachArbitration == \A w \in Items : rc[w] \in 0..2 /\ (ist[w] \in {"conn", "running"} => rc[w] >= 1)
\* once a request_stop() that ran the callbacks has returned, every running nested operation has seen the stop request
StopDeliveredToOutstanding == delivered => \A w \in Items : ist[w] = "running" => seen[w]
NoTouchAfterDestruction == bad = "ok"
TerminalJoined == AllEnd => (AllAdmittedFinished => (\A j \in Joins : jst[j] # "begun") /\ evStack = <<>>)
TerminalAllCompleted == AllEnd => \A w \in Items : ist[w] # "completing"      \* a completed leaf's receiver is completed by someone
Terminates == <>AllEnd
=============================================================================
