SPECIFICATION Spec
CONSTANTS Threads <- T  Items <- W  Joins <- J  Scenarios <- Scn  FirstCloserOnly = FALSE
INVARIANTS NoTouchAfterDestruction
CHECK_DEADLOCK TRUE
