SPECIFICATION Spec
CONSTANTS Threads <- T  Items <- W  Joins <- J  Scenarios <- Scn  FirstCloserOnly = FALSE
INVARIANTS JoinOnlyAfterAllDone JoinOncePerStart CountExact AdmittedIffBeforeClose TerminalJoined
VIEW View
ACTION_CONSTRAINT EdgeLog
CHECK_DEADLOCK TRUE
