\* the transcription of /repo: all invariants, every transition exported for guided replay
SPECIFICATION Spec
CONSTANTS Threads <- T  Items <- W  Joins <- J  Scenarios <- Scn  FirstCloserOnly = TRUE
INVARIANTS JoinOnlyAfterAllDone JoinOncePerStart CountExact AdmittedIffBeforeClose TerminalJoined NoTouchAfterDestruction
VIEW View
ACTION_CONSTRAINT EdgeLog
CHECK_DEADLOCK TRUE
