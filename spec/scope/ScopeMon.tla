----------------------------- MODULE ScopeMon -----------------------------
(***************************************************************************)
(* The C08 monitor: the most permissive behaviour over API-level events of *)
(* one async_scope (v0, v1 or v2) that still satisfies the property        *)
(* statement.  Evaluated by TLC on an ndjson log recorded from the real    *)
(* code (many executions separated by Reset).  Nothing about internal      *)
(* steps, counters or which thread completes a join.                       *)
(*                                                                         *)
(* Events (fields e, w = work item, j = join, t = thread, r):              *)
(*  NestBegin(w) / NestEnd(w, r)   a call that tries to admit w into the   *)
(*        scope (nest, attach, copy of a nest sender, lvalue connect,      *)
(*        spawn_detached, v0 spawn); r = 1 admitted, 0 refused, 2 not      *)
(*        observable yet (lvalue connect; decided by what start() does)    *)
(*  LeafStart(w)        the nested operation itself was started            *)
(*  LeafFinish(w, r)    the harness is about to complete w's leaf; r = 1   *)
(*                      iff the leaf has seen a stop request               *)
(*  StopSeen(w)         w's leaf observed a stop request                   *)
(*  WorkDone(w, r)      w's receiver completed (r: 0 value, 1 done, 2      *)
(*                      error); for receiver-less work (spawn) emitted     *)
(*                      just before the leaf completes                     *)
(*  Discard(w)          an unstarted nest sender is about to be destroyed  *)
(*  JoinBegin(j, r)     start of join()/complete() (r = 0) or cleanup()    *)
(*                      (r = 1); JoinRet(j) start() returned;              *)
(*  JoinDone(j)         the join receiver completed                        *)
(*  ReqStopBegin/End    request_stop() on the scope                        *)
(*  RStopBegin/End(w)   request_stop() on the stop source behind w's       *)
(*                      receiver                                           *)
(*  FutDone(f, r)       the receiver of the started future f completed     *)
(*  FutDrop(f, r)       the unconsumed future f is about to be destroyed   *)
(*                      (r = its operation's item: that is asked to stop)  *)
(*  Quiescent           every driver thread has finished its program       *)
(***************************************************************************)
EXTENDS Naturals, Sequences, FiniteSets, TLC, TraceIO
Items == 1..7
Jns == 1..3
VARIABLES l,
          adm,        \* [Items -> 9 unknown item | 3 admitting call in progress | 0 refused | 1 admitted | 2 undecided]
          mustAdm,    \* [Items -> BOOLEAN] the admitting call returned before any join/cleanup/request_stop began
          mustRef,    \* [Items -> BOOLEAN] the admitting call began after a join/cleanup/request_stop call had returned
          closeEnded, \* some join()/complete()/cleanup() start() or request_stop() has returned (the scope is closed)
          started, fin,
          closeBegun, \* some join()/complete()/cleanup()/request_stop() has begun
          jBegun, jDone, jStop,  \* jStop: cleanup whose embedded request_stop has not been seen to return
          anyJoinDone,
          stopBegun, stopOpen, delivered,  \* delivered: some scope request_stop()/cleanup() stop part has returned
          rOpen, rEnded,  \* [Items -> ..] receiver-side request_stop() in flight / has returned
          perm,           \* [Items -> BOOLEAN] a stop request aimed at this item alone has begun (receiver's source, dropped future)
          quiescent
vars == <<l, adm, mustAdm, mustRef, closeEnded, started, fin, closeBegun, jBegun, jDone, jStop, anyJoinDone, stopBegun, stopOpen, delivered, rOpen, rEnded, perm, quiescent>>
Fresh == /\ adm = [w \in Items |-> 9] /\ mustAdm = [w \in Items |-> FALSE]
         /\ mustRef = [w \in Items |-> FALSE] /\ closeEnded = FALSE
         /\ started = [w \in Items |-> FALSE] /\ fin = [w \in Items |-> FALSE]
         /\ closeBegun = FALSE /\ jBegun = [j \in Jns |-> FALSE] /\ jDone = [j \in Jns |-> FALSE]
         /\ jStop = [j \in Jns |-> FALSE] /\ anyJoinDone = FALSE
         /\ stopBegun = FALSE /\ stopOpen = 0 /\ delivered = FALSE
         /\ rOpen = [w \in Items |-> 0] /\ rEnded = [w \in Items |-> FALSE] /\ perm = [w \in Items |-> FALSE]
Init == l = 1 /\ Fresh /\ quiescent = TRUE /\ TrackInit
E == Log[l]
Is(e) == l <= Len(Log) /\ E.e = e /\ l' = l + 1
\* work that the scope has admitted (or that has visibly started) and that has neither completed nor been discarded
Outstanding(w) == (adm[w] = 1 \/ started[w]) /\ ~fin[w]
Reset == /\ Is("Reset") /\ quiescent
         /\ adm' = [w \in Items |-> 9] /\ mustAdm' = [w \in Items |-> FALSE]
         /\ mustRef' = [w \in Items |-> FALSE] /\ closeEnded' = FALSE
         /\ started' = [w \in Items |-> FALSE] /\ fin' = [w \in Items |-> FALSE]
         /\ closeBegun' = FALSE /\ jBegun' = [j \in Jns |-> FALSE] /\ jDone' = [j \in Jns |-> FALSE]
         /\ jStop' = [j \in Jns |-> FALSE] /\ anyJoinDone' = FALSE
         /\ stopBegun' = FALSE /\ stopOpen' = 0 /\ delivered' = FALSE /\ quiescent' = FALSE
         /\ rOpen' = [w \in Items |-> 0] /\ rEnded' = [w \in Items |-> FALSE] /\ perm' = [w \in Items |-> FALSE]
NestBegin == /\ Is("NestBegin") /\ adm[E.w] = 9
             /\ adm' = [adm EXCEPT ![E.w] = 3] /\ mustRef' = [mustRef EXCEPT ![E.w] = closeEnded]
             /\ UNCHANGED <<rOpen, rEnded, perm, closeEnded, mustAdm, started, fin, closeBegun, jBegun, jDone, jStop, anyJoinDone, stopBegun, stopOpen, delivered, quiescent>>
NestEnd == /\ Is("NestEnd") /\ adm[E.w] = 3 /\ E.r \in {0, 1, 2}
           /\ (E.r = 1) => ~anyJoinDone          \* admitted work outstanding although a join has already completed
           /\ (E.r = 1) => ~mustRef[E.w]         \* work nested after the scope was closed is refused
           /\ (E.r = 0) => (closeBegun /\ ~started[E.w])   \* refused only if the scope was being closed; refused work never starts
           /\ adm' = [adm EXCEPT ![E.w] = IF started[E.w] THEN 1 ELSE E.r]
           /\ mustAdm' = [mustAdm EXCEPT ![E.w] = ~closeBegun]
           /\ UNCHANGED <<rOpen, rEnded, perm, mustRef, closeEnded, started, fin, closeBegun, jBegun, jDone, jStop, anyJoinDone, stopBegun, stopOpen, delivered, quiescent>>
LeafStart == /\ Is("LeafStart") /\ adm[E.w] \in {1, 2, 3} /\ ~started[E.w] /\ ~fin[E.w]
             /\ ~anyJoinDone                      \* the scope's work starts although a join has already completed
             /\ ~mustRef[E.w]                     \* work nested after the scope was closed never starts
             /\ started' = [started EXCEPT ![E.w] = TRUE]
             /\ adm' = [adm EXCEPT ![E.w] = IF @ = 2 THEN 1 ELSE @]
             /\ UNCHANGED <<rOpen, rEnded, perm, mustRef, closeEnded, mustAdm, fin, closeBegun, jBegun, jDone, jStop, anyJoinDone, stopBegun, stopOpen, delivered, quiescent>>
WorkDone == /\ Is("WorkDone") /\ ~fin[E.w] /\ adm[E.w] \in {0, 1, 2, 3}
            /\ ~started[E.w] => /\ E.r = 1                      \* never-started work completes with done
                                /\ adm[E.w] \in {0, 2}           \* admitted work is started by start()
                                /\ (adm[E.w] = 2 => ~mustAdm[E.w])
            /\ fin' = [fin EXCEPT ![E.w] = TRUE]
            /\ adm' = [adm EXCEPT ![E.w] = IF ~started[E.w] THEN 0 ELSE @]
            /\ UNCHANGED <<rOpen, rEnded, perm, mustRef, closeEnded, mustAdm, started, closeBegun, jBegun, jDone, jStop, anyJoinDone, stopBegun, stopOpen, delivered, quiescent>>
Discard == /\ Is("Discard") /\ adm[E.w] \in {0, 1} /\ ~started[E.w] /\ ~fin[E.w]
           /\ fin' = [fin EXCEPT ![E.w] = TRUE]
           /\ UNCHANGED <<rOpen, rEnded, perm, mustRef, closeEnded, adm, mustAdm, started, closeBegun, jBegun, jDone, jStop, anyJoinDone, stopBegun, stopOpen, delivered, quiescent>>
JoinBegin == /\ Is("JoinBegin") /\ ~jBegun[E.j]
             /\ jBegun' = [jBegun EXCEPT ![E.j] = TRUE] /\ closeBegun' = TRUE
             /\ jStop' = [jStop EXCEPT ![E.j] = (E.r = 1)]
             /\ stopOpen' = IF E.r = 1 THEN stopOpen + 1 ELSE stopOpen
             /\ stopBegun' = (stopBegun \/ E.r = 1)
             /\ UNCHANGED <<rOpen, rEnded, perm, mustRef, closeEnded, adm, mustAdm, started, fin, jDone, anyJoinDone, delivered, quiescent>>
\* a cleanup()'s embedded request_stop() has returned once its start() returned or its receiver completed
StopPartEnds(j) == /\ jStop' = [jStop EXCEPT ![j] = FALSE]
                   /\ stopOpen' = IF jStop[j] THEN stopOpen - 1 ELSE stopOpen
                   /\ delivered' = (delivered \/ jStop[j])
JoinRet == /\ Is("JoinRet") /\ jBegun[E.j] /\ StopPartEnds(E.j) /\ closeEnded' = TRUE
           /\ UNCHANGED <<rOpen, rEnded, perm, mustRef, adm, mustAdm, started, fin, closeBegun, jBegun, jDone, anyJoinDone, stopBegun, quiescent>>
JoinDone == /\ Is("JoinDone") /\ jBegun[E.j] /\ ~jDone[E.j]         \* only a started join, once
            /\ \A w \in Items : ~Outstanding(w)                      \* only after all admitted work has finished
            /\ jDone' = [jDone EXCEPT ![E.j] = TRUE] /\ anyJoinDone' = TRUE
            /\ StopPartEnds(E.j) /\ closeEnded' = TRUE
            /\ UNCHANGED <<rOpen, rEnded, perm, mustRef, adm, mustAdm, started, fin, closeBegun, jBegun, stopBegun, quiescent>>
ReqStopBegin == /\ Is("ReqStopBegin")
                /\ stopOpen' = stopOpen + 1 /\ stopBegun' = TRUE /\ closeBegun' = TRUE
                /\ UNCHANGED <<rOpen, rEnded, perm, mustRef, closeEnded, adm, mustAdm, started, fin, jBegun, jDone, jStop, anyJoinDone, delivered, quiescent>>
ReqStopEnd == /\ Is("ReqStopEnd") /\ stopOpen > 0
              /\ stopOpen' = stopOpen - 1 /\ delivered' = TRUE /\ closeEnded' = TRUE
              /\ UNCHANGED <<rOpen, rEnded, perm, mustRef, adm, mustAdm, started, fin, closeBegun, jBegun, jDone, jStop, anyJoinDone, stopBegun, quiescent>>
StopSeen == /\ Is("StopSeen") /\ (stopBegun \/ perm[E.w])               \* nobody else requests stop
            /\ UNCHANGED <<rOpen, rEnded, perm, mustRef, closeEnded, adm, mustAdm, started, fin, closeBegun, jBegun, jDone, jStop, anyJoinDone, stopBegun, stopOpen, delivered, quiescent>>
\* outstanding work sees the stop request: once some stop request relevant to the item (scope request_stop()/cleanup(),
\* or its receiver's stop source) has returned and none is in flight, a leaf that is still running has observed it
LeafFinish == /\ Is("LeafFinish") /\ started[E.w] /\ ~fin[E.w]
              /\ ((delivered \/ rEnded[E.w]) /\ stopOpen = 0 /\ rOpen[E.w] = 0) => E.r = 1
              /\ UNCHANGED <<rOpen, rEnded, perm, mustRef, closeEnded, adm, mustAdm, started, fin, closeBegun, jBegun, jDone, jStop, anyJoinDone, stopBegun, stopOpen, delivered, quiescent>>
RStopBegin == /\ Is("RStopBegin")
              /\ rOpen' = [rOpen EXCEPT ![E.w] = @ + 1] /\ perm' = [perm EXCEPT ![E.w] = TRUE]
              /\ UNCHANGED <<rEnded, mustRef, closeEnded, adm, mustAdm, started, fin, closeBegun, jBegun, jDone, jStop, anyJoinDone, stopBegun, stopOpen, delivered, quiescent>>
RStopEnd == /\ Is("RStopEnd") /\ rOpen[E.w] > 0
            /\ rOpen' = [rOpen EXCEPT ![E.w] = @ - 1] /\ rEnded' = [rEnded EXCEPT ![E.w] = TRUE]
            /\ UNCHANGED <<perm, mustRef, closeEnded, adm, mustAdm, started, fin, closeBegun, jBegun, jDone, jStop, anyJoinDone, stopBegun, stopOpen, delivered, quiescent>>
\* a future is a nest sender of the scope: consuming it (FutDone) or dropping it (FutDrop) finishes the item
FutDone == /\ Is("FutDone") /\ adm[E.w] \in {0, 1, 2} /\ ~fin[E.w]
           /\ (adm[E.w] = 0) => E.r = 1                       \* a refused future completes with done
           /\ fin' = [fin EXCEPT ![E.w] = TRUE]
           /\ UNCHANGED <<rOpen, rEnded, perm, mustRef, closeEnded, adm, mustAdm, started, closeBegun, jBegun, jDone, jStop, anyJoinDone, stopBegun, stopOpen, delivered, quiescent>>
FutDrop == /\ Is("FutDrop") /\ adm[E.w] \in {0, 1, 2} /\ ~fin[E.w]
           /\ fin' = [fin EXCEPT ![E.w] = TRUE] /\ perm' = [perm EXCEPT ![E.r] = TRUE]
           /\ UNCHANGED <<rOpen, rEnded, mustRef, closeEnded, adm, mustAdm, started, closeBegun, jBegun, jDone, jStop, anyJoinDone, stopBegun, stopOpen, delivered, quiescent>>
Skip == /\ l <= Len(Log) /\ E.e \in {"StartBegin", "ScopeFreed"} /\ l' = l + 1
        /\ UNCHANGED <<rOpen, rEnded, perm, mustRef, closeEnded, adm, mustAdm, started, fin, closeBegun, jBegun, jDone, jStop, anyJoinDone, stopBegun, stopOpen, delivered, quiescent>>
\* end of the execution: no call in flight; if all admitted work is finished every started join has completed
Quiescent == /\ Is("Quiescent") /\ ~quiescent
             /\ \A w \in Items : adm[w] # 3
             /\ stopOpen = 0 /\ \A w \in Items : rOpen[w] = 0
             /\ (\A w \in Items : ~Outstanding(w) /\ (adm[w] = 2 => fin[w])) => \A j \in Jns : jBegun[j] => jDone[j]
             /\ quiescent' = TRUE
             /\ UNCHANGED <<rOpen, rEnded, perm, mustRef, closeEnded, adm, mustAdm, started, fin, closeBegun, jBegun, jDone, jStop, anyJoinDone, stopBegun, stopOpen, delivered>>
Next == Reset \/ NestBegin \/ NestEnd \/ LeafStart \/ WorkDone \/ Discard \/ JoinBegin \/ JoinRet \/ JoinDone
        \/ ReqStopBegin \/ ReqStopEnd \/ RStopBegin \/ RStopEnd \/ FutDone \/ FutDrop \/ StopSeen \/ LeafFinish \/ Skip \/ Quiescent
Spec == Init /\ [][Next]_vars
Track == TrackAt(l, quiescent)
Report == ReportTrace
=============================================================================
