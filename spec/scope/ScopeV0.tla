------------------------------ MODULE ScopeV0 ------------------------------
(***************************************************************************)
(* Implementation-shaped specification of unifex::v0::async_scope          *)
(* (include/unifex/v0/async_scope.hpp): spawn() = connect into a heap      *)
(* operation, try_record_start, start (or destroy the unstarted            *)
(* operation); the receiver destroys + deletes the operation and calls     *)
(* record_done; complete()/cleanup()/request_stop() run end_of_scope();    *)
(* cleanup()/request_stop() additionally request stop on the scope's stop  *)
(* source, whose token the spawned work's receiver exposes.                *)
(*                                                                         *)
(* The stop source is modelled coarsely (its own protocol is C03's         *)
(* business): request_stop() is one step that sets the flag and runs the   *)
(* callbacks of all running leaves; a leaf started later sees the flag.    *)
(* Schedule points: scope.v0_trs_load, scope.v0_trs_cas, scope.v0_rd_fsub, *)
(* scope.v0_es_fand, scope.v0_rs, scope.ev_xchg, scope.ev_pop,             *)
(* scope.ev_w_load, scope.ev_w_cas, scope.h.op, scope.h.wait.              *)
(* Ops: <<"spawn",w,0>> <<"complete",w,0>> <<"join",j,0>> (= complete())   *)
(*      <<"cleanup",j,0>> <<"reqstop",0,0>>                                *)
(***************************************************************************)
EXTENDS Naturals, Sequences, FiniteSets, TLC

CONSTANTS Threads, Items, Joins, Scenarios,
          FirstCloserOnly   \* TRUE = the protocol /repo implements; FALSE = historical variant, spec-level mutation (see ScopeV2)

VARIABLES scn, pi, pc, regS, regE, iter,
          open, count, evSig, evStack,
          stopReq,       \* stopSource_.stop_requested()
          ist,           \* [Items -> "none" | "running" | "finished"]
          seen,          \* [Items -> BOOLEAN] the leaf has observed the stop request
          jst,
          adm, fin, mustAdmit, closeBegun, jdone,
          delivered,     \* some request_stop() on the stop source has returned
          bad,
          lastT, lastPc  \* export only (hidden by VIEW)
vars == <<scn, pi, pc, regS, regE, iter, open, count, evSig, evStack, stopReq, ist, seen, jst,
          adm, fin, mustAdmit, closeBegun, jdone, delivered, bad>>

Prog(t) == scn.prog[t]
Op(t) == Prog(t)[pi[t]]
Name(t) == Op(t)[1]
Direct == {"spawn", "join", "cleanup", "reqstop"}
Closers == {"join", "cleanup"}
PlannedJoins == {j \in Joins : \E t \in Threads : \E k \in 1..Len(Prog(t)) : Prog(t)[k][1] \in Closers /\ Prog(t)[k][2] = j}
Freed == /\ PlannedJoins # {} /\ \A j \in PlannedJoins : jst[j] = "done"
         /\ \A t \in Threads : pc[t] = "end" \/ \A k \in pi[t]..Len(Prog(t)) : Prog(t)[k][1] \notin Direct
Touch == bad' = IF Freed THEN "scope-touched-after-destruction" ELSE bad

Init ==
  /\ scn \in Scenarios
  /\ pi = [t \in Threads |-> 1]
  /\ pc = [t \in Threads |-> IF Len(scn.prog[t]) = 0 THEN "end" ELSE "op"]
  /\ regS = [t \in Threads |-> <<TRUE, 0>>] /\ regE = [t \in Threads |-> <<FALSE, <<>>>>]
  /\ iter = [t \in Threads |-> <<>>]
  /\ open = TRUE /\ count = 0 /\ evSig = FALSE /\ evStack = <<>> /\ stopReq = FALSE
  /\ ist = [w \in Items |-> "none"] /\ seen = [w \in Items |-> FALSE] /\ jst = [j \in Joins |-> "none"]
  /\ adm = [w \in Items |-> 0] /\ fin = [w \in Items |-> FALSE]
  /\ mustAdmit = [w \in Items |-> FALSE] /\ closeBegun = FALSE /\ jdone = [j \in Joins |-> 0]
  /\ delivered = FALSE /\ bad = "ok"
  /\ lastT = 0 /\ lastPc = ""

Finish(t) == /\ pi' = [pi EXCEPT ![t] = @ + 1]
             /\ pc' = [pc EXCEPT ![t] = IF pi[t] + 1 > Len(Prog(t)) THEN "end" ELSE "op"]
Goto(t, l) == pc' = [pc EXCEPT ![t] = l] /\ pi' = pi
\* spawn(): try_record_start returned ok -> start the operation (the leaf registers its stop callback), else destroy it
Resolve(t, ok) ==
  LET w == Op(t)[2] IN
  /\ adm' = [adm EXCEPT ![w] = IF ok THEN 1 ELSE 2]
  /\ ist' = [ist EXCEPT ![w] = IF ok THEN "running" ELSE "finished"]
  /\ seen' = [seen EXCEPT ![w] = ok /\ stopReq]
  /\ mustAdmit' = [mustAdmit EXCEPT ![w] = ~closeBegun]
  /\ Finish(t)
JoinDone(j) == /\ jst' = [jst EXCEPT ![j] = "done"] /\ jdone' = [jdone EXCEPT ![j] = @ + 1]
\* after end_of_scope()'s evt_.set(): request_stop()/cleanup() go on to the stop source, complete() to the wait
AfterSet(t) == IF Name(t) = "join" THEN Goto(t, "ev_w_load")
               ELSE IF Name(t) \in {"cleanup", "reqstop"} THEN Goto(t, "v0_rs") ELSE Finish(t)
CompleteLeaf(t, w) ==
  /\ fin' = [fin EXCEPT ![w] = TRUE] /\ ist' = [ist EXCEPT ![w] = "finished"]
  /\ Goto(t, "v0_rd_fsub")
  /\ UNCHANGED <<scn, regS, regE, iter, open, count, evSig, evStack, stopReq, seen, jst, adm, mustAdmit, closeBegun, jdone, delivered, bad>>

StepOp(t) ==
  /\ pc[t] = "op"
  /\ LET o == Op(t)  n == o[1] IN
     CASE n = "spawn" ->
            /\ Goto(t, "v0_trs_load")
            /\ UNCHANGED <<scn, regS, regE, iter, open, count, evSig, evStack, stopReq, ist, seen, jst, adm, fin, mustAdmit, closeBegun, jdone, delivered, bad>>
       [] n = "complete" ->
            IF ist[o[2]] = "running" THEN CompleteLeaf(t, o[2])
            ELSE /\ IF ist[o[2]] = "finished" THEN Finish(t) ELSE Goto(t, "wait")
                 /\ UNCHANGED <<scn, regS, regE, iter, open, count, evSig, evStack, stopReq, ist, seen, jst, adm, fin, mustAdmit, closeBegun, jdone, delivered, bad>>
       [] n \in Closers ->
            /\ jst' = [jst EXCEPT ![o[2]] = "begun"] /\ closeBegun' = TRUE
            /\ Goto(t, "v0_es_fand")
            /\ UNCHANGED <<scn, regS, regE, iter, open, count, evSig, evStack, stopReq, ist, seen, adm, fin, mustAdmit, jdone, delivered, bad>>
       [] n = "reqstop" ->
            /\ closeBegun' = TRUE /\ Goto(t, "v0_es_fand")
            /\ UNCHANGED <<scn, regS, regE, iter, open, count, evSig, evStack, stopReq, ist, seen, jst, adm, fin, mustAdmit, jdone, delivered, bad>>
StepWait(t) ==
  /\ pc[t] = "wait"
  /\ LET w == Op(t)[2] IN
     /\ ist[w] \in {"running", "finished"}
     /\ IF ist[w] = "running" THEN CompleteLeaf(t, w)
        ELSE /\ Finish(t)
             /\ UNCHANGED <<scn, regS, regE, iter, open, count, evSig, evStack, stopReq, ist, seen, jst, adm, fin, mustAdmit, closeBegun, jdone, delivered, bad>>
StepTrsLoad(t) ==
  /\ pc[t] = "v0_trs_load" /\ Touch
  /\ regS' = [regS EXCEPT ![t] = <<open, count>>]
  /\ IF ~open THEN Resolve(t, FALSE) ELSE Goto(t, "v0_trs_cas") /\ UNCHANGED <<ist, seen, adm, mustAdmit>>
  /\ UNCHANGED <<scn, regE, iter, open, count, evSig, evStack, stopReq, jst, fin, closeBegun, jdone, delivered>>
StepTrsCas(t) ==
  /\ pc[t] = "v0_trs_cas" /\ Touch
  /\ IF <<open, count>> = regS[t]
     THEN count' = count + 1 /\ Resolve(t, TRUE) /\ UNCHANGED regS
     ELSE /\ regS' = [regS EXCEPT ![t] = <<open, count>>] /\ UNCHANGED count
          /\ IF ~open THEN Resolve(t, FALSE) ELSE Goto(t, "v0_trs_cas") /\ UNCHANGED <<ist, seen, adm, mustAdmit>>
  /\ UNCHANGED <<scn, regE, iter, open, evSig, evStack, stopReq, jst, fin, closeBegun, jdone, delivered>>
StepRdFsub(t) ==
  /\ pc[t] = "v0_rd_fsub" /\ Touch
  /\ count' = count - 1
  /\ IF ~open /\ count = 1 THEN Goto(t, "ev_xchg") ELSE Finish(t)
  /\ UNCHANGED <<scn, regS, regE, iter, open, evSig, evStack, stopReq, ist, seen, jst, adm, fin, mustAdmit, closeBegun, jdone, delivered>>
StepEsFand(t) ==
  /\ pc[t] = "v0_es_fand" /\ Touch
  /\ open' = FALSE
  /\ IF count = 0 /\ (open \/ ~FirstCloserOnly) THEN Goto(t, "ev_xchg") ELSE AfterSet(t)
  /\ UNCHANGED <<scn, regS, regE, iter, count, evSig, evStack, stopReq, ist, seen, jst, adm, fin, mustAdmit, closeBegun, jdone, delivered>>
\* stopSource_.request_stop(): coarse - the flag is set and every running leaf's callback has run when it returns
StepRs(t) ==
  /\ pc[t] = "v0_rs" /\ Touch
  /\ stopReq' = TRUE /\ delivered' = TRUE
  /\ seen' = [w \in Items |-> seen[w] \/ ist[w] = "running"]
  /\ IF Name(t) = "cleanup" THEN Goto(t, "ev_w_load") ELSE Finish(t)
  /\ UNCHANGED <<scn, regS, regE, iter, open, count, evSig, evStack, ist, jst, adm, fin, mustAdmit, closeBegun, jdone>>
StepEvXchg(t) ==
  /\ pc[t] = "ev_xchg" /\ Touch
  /\ evSig' = TRUE /\ evStack' = <<>>
  /\ IF evSig \/ evStack = <<>> THEN AfterSet(t) /\ UNCHANGED iter
     ELSE iter' = [iter EXCEPT ![t] = evStack] /\ Goto(t, "ev_pop")
  /\ UNCHANGED <<scn, regS, regE, open, count, stopReq, ist, seen, jst, adm, fin, mustAdmit, closeBegun, jdone, delivered>>
StepEvPop(t) ==
  /\ pc[t] = "ev_pop"
  /\ JoinDone(Head(iter[t]))
  /\ iter' = [iter EXCEPT ![t] = Tail(@)]
  /\ IF Tail(iter[t]) = <<>> THEN AfterSet(t) ELSE Goto(t, "ev_pop")
  /\ UNCHANGED <<scn, regS, regE, open, count, evSig, evStack, stopReq, ist, seen, adm, fin, mustAdmit, closeBegun, delivered, bad>>
StepEvWLoad(t) ==
  /\ pc[t] = "ev_w_load" /\ Touch
  /\ regE' = [regE EXCEPT ![t] = <<evSig, evStack>>]
  /\ IF evSig THEN JoinDone(Op(t)[2]) /\ Finish(t) ELSE Goto(t, "ev_w_cas") /\ UNCHANGED <<jst, jdone>>
  /\ UNCHANGED <<scn, regS, iter, open, count, evSig, evStack, stopReq, ist, seen, adm, fin, mustAdmit, closeBegun, delivered>>
StepEvWCas(t) ==
  /\ pc[t] = "ev_w_cas" /\ Touch
  /\ IF <<evSig, evStack>> = regE[t]
     THEN evStack' = <<Op(t)[2]>> \o evStack /\ Finish(t) /\ UNCHANGED <<regE, jst, jdone>>
     ELSE /\ regE' = [regE EXCEPT ![t] = <<evSig, evStack>>] /\ UNCHANGED evStack
          /\ IF evSig THEN JoinDone(Op(t)[2]) /\ Finish(t) ELSE Goto(t, "ev_w_cas") /\ UNCHANGED <<jst, jdone>>
  /\ UNCHANGED <<scn, regS, iter, open, count, evSig, stopReq, ist, seen, adm, fin, mustAdmit, closeBegun, delivered>>

Step(t) == \/ StepOp(t) \/ StepWait(t) \/ StepTrsLoad(t) \/ StepTrsCas(t) \/ StepRdFsub(t) \/ StepEsFand(t) \/ StepRs(t)
           \/ StepEvXchg(t) \/ StepEvPop(t) \/ StepEvWLoad(t) \/ StepEvWCas(t)
AllEnd == \A t \in Threads : pc[t] = "end"
ghosts == <<lastT, lastPc>>
Next == \/ \E t \in Threads : Step(t) /\ lastT' = t /\ lastPc' = pc[t]
        \/ (AllEnd /\ UNCHANGED vars /\ UNCHANGED ghosts)
Spec == Init /\ [][Next]_<<vars, ghosts>>
View == vars
FairSpec == Spec /\ \A t \in Threads : WF_<<vars, ghosts>>(Step(t) /\ lastT' = t /\ lastPc' = pc[t])

AllAdmittedFinished == \A w \in Items : adm[w] = 1 => fin[w]
JoinOnlyAfterAllDone == \A j \in Joins : jst[j] = "done" => (~open /\ count = 0 /\ AllAdmittedFinished)
JoinOncePerStart == \A j \in Joins : jdone[j] <= 1 /\ (jdone[j] = 1 => jst[j] = "done")
CountExact == count = Cardinality({w \in Items : ist[w] = "running"}) + Cardinality({t \in Threads : pc[t] = "v0_rd_fsub"})
AdmittedIffBeforeClose == \A w \in Items : /\ (ist[w] = "running" => adm[w] = 1)
                                           /\ (mustAdmit[w] => adm[w] = 1)
\* once a request_stop() has returned every outstanding (running) operation has seen the stop request
StopDeliveredToOutstanding == delivered => \A w \in Items : ist[w] = "running" => seen[w]
NoTouchAfterDestruction == bad = "ok"
TerminalJoined == AllEnd => (AllAdmittedFinished => (\A j \in Joins : jst[j] # "begun") /\ evStack = <<>>)
Terminates == <>AllEnd
=============================================================================
