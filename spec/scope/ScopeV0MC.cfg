SPECIFICATION Spec
CONSTANTS Threads <- T  Items <- W  Joins <- J  Scenarios <- Scn  FirstCloserOnly = TRUE
INVARIANTS JoinOnlyAfterAllDone JoinOncePerStart CountExact AdmittedIffBeforeClose StopDeliveredToOutstanding TerminalJoined NoTouchAfterDestruction
VIEW View
ACTION_CONSTRAINT EdgeLog
CHECK_DEADLOCK TRUE
