SPECIFICATION Spec
CONSTANTS Threads <- T  Items <- W  Joins <- J  Scenarios <- Scn  FirstCloserOnly = FALSE
INVARIANTS JoinOnlyAfterAllDone JoinOncePerStart CountExact AdmittedIffBeforeClose StopDeliveredToOutstanding TerminalJoined
CHECK_DEADLOCK TRUE
