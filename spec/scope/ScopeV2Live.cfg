SPECIFICATION FairSpec
CONSTANTS Threads <- T  Items <- W  Joins <- J  Scenarios <- Scn  FirstCloserOnly = FALSE
INVARIANTS TerminalJoined
PROPERTY Terminates
CHECK_DEADLOCK TRUE
