---- MODULE ScopeV1MC ----
EXTENDS ScopeV1, Json, IOUtils
T == {1, 2, 3}
W == 1..4
J == {1, 2}
ScnSeq == JsonDeserialize(IOEnv.SCENARIOS)
Scn == {ScnSeq[i] : i \in 1..Len(ScnSeq)}
====
