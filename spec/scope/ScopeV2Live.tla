---- MODULE ScopeV2Live ----
(* Liveness instance: under weak fairness of every thread all programs terminate (no lost wake-up of a   *)
(* `complete` waiting for its leaf, no unbounded CAS retry), and TerminalJoined then gives "join does complete". *)
EXTENDS ScopeV2, Json, IOUtils
T == {1, 2, 3}
W == 1..6
J == {1, 2}
ScnSeq == JsonDeserialize(IOEnv.SCENARIOS)
Scn == {ScnSeq[i] : i \in 1..Len(ScnSeq)}
====
