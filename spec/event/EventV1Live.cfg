SPECIFICATION FairSpec
CONSTANTS Threads <- T  Waiters <- W  Scheds <- S  Scenarios <- Scn
PROPERTY Terminates
CHECK_DEADLOCK TRUE
