SPECIFICATION Spec
CONSTANTS Threads <- T  Waiters <- W  Scheds <- S  Scenarios <- Scn
INVARIANTS LatchedImpliesEmpty ResumedAtMostOnce CompletesOnlyIfSet DoneOnlyIfStopped NoLostWaiter CompletedNotListed EveryEarlierWaitResumedOnce NoStrandedWaiter StoppedWaitCompletes ListEmptyAtEnd
VIEW View
ACTION_CONSTRAINT EdgeLog
CHECK_DEADLOCK TRUE
