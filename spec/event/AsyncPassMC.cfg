SPECIFICATION Spec
CONSTANTS Threads <- T  Ents <- X  Scheds <- S  Scenarios <- Scn
INVARIANTS ScenarioRespectsPrecondition CompletedAtMostOnce PayloadToAtMostOneAcceptor CallValueIffAccepted AcceptValueIsSomePayload ArgsUntouchedOnCancel SuspendedIsInSlot AllCompleteAtEnd SlotIdleAtEnd
VIEW View
ACTION_CONSTRAINT EdgeLog
CHECK_DEADLOCK TRUE
