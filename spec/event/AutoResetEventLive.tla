---- MODULE AutoResetEventLive ----
EXTENDS AutoResetEvent, Json, IOUtils
T == {1, 2, 3}
N == {1, 2, 3}
S == {1, 2, 3}
ScnSeq == JsonDeserialize(IOEnv.SCENARIOS)
Scn == {ScnSeq[i] : i \in 1..Len(ScnSeq)}
====
