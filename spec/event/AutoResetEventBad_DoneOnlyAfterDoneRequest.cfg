SPECIFICATION Spec
CONSTANTS Threads <- T  Nexts <- N  Scheds <- S  Scenarios <- Scn  Variant = "notify_outside"
INVARIANTS DoneOnlyAfterDoneRequest
VIEW View
CHECK_DEADLOCK FALSE
