SPECIFICATION Spec
CONSTANTS Threads <- T  Nexts <- N  Scheds <- S  Scenarios <- Scn  Variant = "notify_outside"
VIEW View
ACTION_CONSTRAINT EdgeLog
CHECK_DEADLOCK FALSE
