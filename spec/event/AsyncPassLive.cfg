SPECIFICATION FairSpec
CONSTANTS Threads <- T  Ents <- X  Scheds <- S  Scenarios <- Scn
PROPERTY Terminates
CHECK_DEADLOCK TRUE
