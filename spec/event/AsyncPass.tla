---------------------------- MODULE AsyncPass ----------------------------
(***************************************************************************)
(* Implementation-shaped specification of unifex::async_pass               *)
(* (include/unifex/async_pass.hpp, source/async_pass.cpp) with the         *)
(* cancellable<> wrapper and the completion_forwarder.                     *)
(*                                                                         *)
(* slot = async_pass_base::state_, one tagged word:                        *)
(*   0 idle | 10+x = caller x waiting | 20+x = acceptor x waiting.         *)
(* call_or_suspend_raw / accept_or_suspend_raw / try_claim_* are CAS       *)
(* loops: sloc[t] is the thread's local copy `s`.  A successful claim      *)
(* transfers the payload (callerFn invokes the acceptor: the arguments are *)
(* moved into the acceptor's deferred-completion storage), then completes  *)
(* both sides through try_complete + completion_forwarder (a task on the   *)
(* receiver's scheduler, q[s]).  stop() = CAS(self -> 0); on success the   *)
(* operation completes as cancelled, also through the forwarder.           *)
(* try_complete destroys the operation's stop callback, which waits while  *)
(* that callback is executing on another thread ("pass.dereg_wait").       *)
(* Schedule points: "op", "pass.cos", "pass.aos", "pass.tca", "pass.tcc",  *)
(* "pass.claimed" (between a successful claiming CAS and the rendezvous),  *)
(* "pass.stop_cas", "canc.started".                                        *)
(***************************************************************************)
EXTENDS Integers, Sequences, FiniteSets, TLC

CONSTANTS Threads, Ents, Scheds, Scenarios
\* op: <<"call", x, p>> | <<"throw", x>> | <<"accept", x>> | <<"trycall", p>> | <<"tryaccept">> | <<"stop", x>>
\*     | <<"idle">> | <<"drain", s>>       payloads p > 0

VARIABLES scn, slot, sloc,
          kind,          \* [Ents -> ""|"c"|"t"|"a"]
          pay, moved,    \* caller's argument and whether it was moved from
          recv,          \* acceptor: 0 nothing | p payload | -1 exception | -2 deferred done
          canc,          \* cancelled_ (caller) / deferred done (acceptor)
          cs, cb, cbExec, src,
          pend,          \* per thread: continuation after waiting for a stop callback to finish
          pc, ip, q, fin, bad,
          \* history
          done, chan, phase,
          given,         \* [Ents -> Nat] how many acceptors (async or try_accept) received caller x's payload / exception
          lastT, lastPc, lastEv
vars == <<scn, slot, sloc, kind, pay, moved, recv, canc, cs, cb, cbExec, src, pend, pc, ip, q, fin, bad, done, chan, phase, given>>
ghosts == <<lastT, lastPc, lastEv>>

Ev(e, t, w, r, c, p, m) == [e |-> e, t |-> t, w |-> w, r |-> r, c |-> c, p |-> p, m |-> m]
Prog(t) == scn.prog[t]
Op(t) == Prog(t)[ip[t]]
SchedOf(x) == scn.sched[x]
Enq(qq, x) == [qq EXCEPT ![SchedOf(x)] = Append(@, x)]
Queued(x) == \E s \in Scheds : \E i \in 1..Len(q[s]) : q[s][i] = x
NoPend == [blk |-> 0, nxt |-> 0, ret |-> "", rv |-> 0]
IsCaller(s) == s > 10 /\ s < 20
IsAcceptor(s) == s > 20

Init ==
  /\ scn \in Scenarios
  /\ slot = 0 /\ sloc = [t \in Threads |-> 0]
  /\ kind = [x \in Ents |-> ""] /\ pay = [x \in Ents |-> 0] /\ moved = [x \in Ents |-> FALSE]
  /\ recv = [x \in Ents |-> 0] /\ canc = [x \in Ents |-> FALSE]
  /\ cs = [x \in Ents |-> {}] /\ cb = [x \in Ents |-> "none"] /\ cbExec = [x \in Ents |-> 0] /\ src = [x \in Ents |-> FALSE]
  /\ pend = [t \in Threads |-> NoPend]
  /\ pc = [t \in Threads |-> IF Len(scn.prog[t]) = 0 THEN "fin" ELSE "op"]
  /\ ip = [t \in Threads |-> 1]
  /\ q = [s \in Scheds |-> <<>>] /\ fin = FALSE /\ bad = "ok"
  /\ done = [x \in Ents |-> 0] /\ chan = [x \in Ents |-> 0] /\ phase = [x \in Ents |-> "no"]
  /\ given = [x \in Ents |-> 0]
  /\ lastT = 0 /\ lastPc = "" /\ lastEv = <<>>

Advance(t) == /\ ip' = [ip EXCEPT ![t] = @ + 1]
              /\ pc' = [pc EXCEPT ![t] = IF ip[t] + 1 > Len(Prog(t)) THEN "fin" ELSE "op"]
Stay(t, where) == /\ ip' = ip /\ pc' = [pc EXCEPT ![t] = where]

EndName(k) == IF k = "c" THEN "CallE" ELSE IF k = "t" THEN "ThrowE" ELSE "AccE"
\* channel and Done event of a delivered completion
ChanOf(x) == IF canc[x] THEN 2 ELSE IF kind[x] = "a" /\ recv[x] = -1 THEN 3 ELSE 1
DoneEv(t, x, s) == Ev("Done", t, x, ChanOf(x), s, IF kind[x] = "a" /\ ChanOf(x) = 1 THEN recv[x] ELSE 0,
                      IF kind[x] # "a" /\ moved[x] THEN 1 ELSE 0)
RECURSIVE Tasks(_, _)
Tasks(ss, qq) == IF ss = <<>> THEN <<>>
                 ELSE [i \in 1..Len(qq[Head(ss)]) |-> <<qq[Head(ss)][i], Head(ss)>>] \o Tasks(Tail(ss), qq)
SchedSeq == [i \in 1..Cardinality(Scheds) |-> i]
DrainList(s) == IF s = 0 THEN Tasks(SchedSeq, q) ELSE Tasks(<<s>>, q)
Count(dl, x) == Cardinality({i \in 1..Len(dl) : dl[i][1] = x})
DoneEvs(t, dl) == [i \in 1..Len(dl) |-> DoneEv(t, dl[i][1], dl[i][2])]

\* ---- async_call / async_throw / async_accept: cancellable start() up to the first load of state_
StartOp(t, x, k, p) ==
  /\ phase[x] = "no"
  /\ phase' = [phase EXCEPT ![x] = "starting"] /\ kind' = [kind EXCEPT ![x] = k] /\ pay' = [pay EXCEPT ![x] = p]
  /\ cb' = [cb EXCEPT ![x] = "reg"]
  /\ cs' = IF src[x] THEN [cs EXCEPT ![x] = @ \cup {"stopped"}] ELSE cs
  /\ sloc' = [sloc EXCEPT ![t] = slot]
  /\ Stay(t, IF k = "a" THEN "pass.aos" ELSE "pass.cos")
  /\ lastEv' = <<Ev(IF k = "c" THEN "CallB" ELSE IF k = "t" THEN "ThrowB" ELSE "AccB", t, x, -1, SchedOf(x), p, 0)>>
  /\ UNCHANGED <<slot, moved, recv, canc, cbExec, src, pend, q, bad, done, chan, given>>

\* payload transfer caller c -> acceptor a (callerFn(acceptor) / rethrow)
RecvAfter(c, a) == [recv EXCEPT ![a] = IF kind[c] = "c" THEN pay[c] ELSE -1]
MovedAfter(c) == IF kind[c] = "c" THEN [moved EXCEPT ![c] = TRUE] ELSE moved

\* complete the entities of `xs` (a sequence) in order through try_complete + forwarder, starting with the first;
\* the first one's stop callback may be executing on another thread -> wait
Finish(t, first, second, ret, rv, endEvs) ==
  /\ cs' = [x \in Ents |-> IF x = first \/ (x = second /\ cbExec[first] \in {0, t}) THEN cs[x] \cup {"completed"} ELSE cs[x]]
  /\ IF cbExec[first] \notin {0, t}
     THEN /\ pend' = [pend EXCEPT ![t] = [blk |-> first, nxt |-> second, ret |-> ret, rv |-> rv]]
          /\ Stay(t, "pass.dereg_wait") /\ lastEv' = <<>>
          /\ UNCHANGED <<cb, q>>
     ELSE /\ cb' = [x \in Ents |-> IF x = first \/ x = second THEN "gone" ELSE cb[x]]
          /\ q' = IF second # 0 THEN Enq(Enq(q, first), second) ELSE Enq(q, first)
          /\ pend' = pend
          /\ IF ret = "canc" THEN Stay(t, "canc.started") /\ lastEv' = <<>>
             ELSE Advance(t) /\ lastEv' = endEvs

\* a successful claiming CAS: the counterpart (still named by sloc[t]) has left the slot; schedule point "pass.claimed"
\* lies between the claim and the rendezvous (payload transfer + completion of both sides)
ClaimOnly(t) == slot' = 0 /\ Stay(t, "pass.claimed") /\ lastEv' = <<>>

Claimed(t) ==
  LET o == Op(t)
      s == sloc[t] IN
  /\ CASE o[1] \in {"call", "throw"} ->
            LET x == o[2]
                a == s - 20 IN
            /\ recv' = RecvAfter(x, a) /\ moved' = MovedAfter(x) /\ given' = [given EXCEPT ![x] = @ + 1]
            /\ Finish(t, a, x, "canc", 0, <<>>)
       [] o[1] = "accept" ->
            LET x == o[2]
                c == s - 10 IN
            /\ recv' = RecvAfter(c, x) /\ moved' = MovedAfter(c) /\ given' = [given EXCEPT ![c] = @ + 1]
            \* accept_op::start: try_complete(this) + forwarder first, then the caller's resume_
            /\ cs' = [cs EXCEPT ![x] = @ \cup {"completed"}, ![c] = @ \cup {"completed"}]
            /\ IF cbExec[c] \notin {0, t}
               THEN /\ cb' = [cb EXCEPT ![x] = "gone"] /\ q' = Enq(q, x)
                    /\ pend' = [pend EXCEPT ![t] = [blk |-> c, nxt |-> 0, ret |-> "canc", rv |-> 0]]
                    /\ Stay(t, "pass.dereg_wait") /\ lastEv' = <<>>
               ELSE /\ cb' = [cb EXCEPT ![x] = "gone", ![c] = "gone"] /\ q' = Enq(Enq(q, x), c)
                    /\ pend' = pend /\ Stay(t, "canc.started") /\ lastEv' = <<>>
       [] o[1] = "trycall" ->
            LET a == s - 20 IN
            /\ recv' = [recv EXCEPT ![a] = o[2]] /\ UNCHANGED <<moved, given>>
            /\ Finish(t, a, 0, "trycall", 1, <<Ev("TryCallE", t, 0, 1, 0, 0, 0)>>)
       [] o[1] = "tryaccept" ->
            LET c == s - 10
                rv == IF kind[c] = "c" THEN pay[c] ELSE -1 IN
            /\ moved' = MovedAfter(c) /\ given' = [given EXCEPT ![c] = @ + 1] /\ recv' = recv
            /\ Finish(t, c, 0, "tryacc", rv, <<Ev("TryAccE", t, 0, rv, 0, 0, 0)>>)
  /\ UNCHANGED <<slot, sloc, kind, pay, canc, cbExec, src, bad, done, chan, phase>>

Cos(t, x) ==
  LET s == sloc[t] IN
  IF IsAcceptor(s)
  THEN IF slot = s
       THEN /\ ClaimOnly(t)            \* the acceptor is out of the slot; the rendezvous follows ("pass.claimed")
            /\ UNCHANGED <<sloc, recv, moved, given, cs, cb, q, pend, bad, phase>>
       ELSE /\ sloc' = [sloc EXCEPT ![t] = slot] /\ Stay(t, "pass.cos") /\ lastEv' = <<>>
            /\ UNCHANGED <<slot, recv, moved, given, cs, cb, q, pend, bad, phase>>
  ELSE IF s = 0
  THEN IF slot = 0
       THEN /\ slot' = 10 + x /\ Stay(t, "canc.started") /\ lastEv' = <<>>
            /\ UNCHANGED <<sloc, recv, moved, given, cs, cb, q, pend, bad, phase>>
       ELSE /\ sloc' = [sloc EXCEPT ![t] = slot] /\ Stay(t, "pass.cos") /\ lastEv' = <<>>
            /\ UNCHANGED <<slot, recv, moved, given, cs, cb, q, pend, bad, phase>>
  ELSE /\ bad' = "terminate: two callers" /\ Advance(t) /\ lastEv' = <<>>
       /\ UNCHANGED <<slot, sloc, recv, moved, given, cs, cb, q, pend, phase>>

Aos(t, x) ==
  LET s == sloc[t] IN
  IF IsCaller(s)
  THEN IF slot = s
       THEN /\ ClaimOnly(t)
            /\ UNCHANGED <<sloc, recv, moved, given, cs, cb, q, pend, bad, phase>>
       ELSE /\ sloc' = [sloc EXCEPT ![t] = slot] /\ Stay(t, "pass.aos") /\ lastEv' = <<>>
            /\ UNCHANGED <<slot, recv, moved, given, cs, cb, q, pend, bad, phase>>
  ELSE IF s = 0
  THEN IF slot = 0
       THEN /\ slot' = 20 + x /\ Stay(t, "canc.started") /\ lastEv' = <<>>
            /\ UNCHANGED <<sloc, recv, moved, given, cs, cb, q, pend, bad, phase>>
       ELSE /\ sloc' = [sloc EXCEPT ![t] = slot] /\ Stay(t, "pass.aos") /\ lastEv' = <<>>
            /\ UNCHANGED <<slot, recv, moved, given, cs, cb, q, pend, bad, phase>>
  ELSE /\ bad' = "terminate: two acceptors" /\ Advance(t) /\ lastEv' = <<>>
       /\ UNCHANGED <<slot, sloc, recv, moved, given, cs, cb, q, pend, phase>>

DeregWait(t) ==
  LET p == pend[t] IN
  /\ cbExec[p.blk] = 0
  /\ cs' = IF p.nxt # 0 THEN [cs EXCEPT ![p.nxt] = @ \cup {"completed"}] ELSE cs
  /\ cb' = [x \in Ents |-> IF x = p.blk \/ x = p.nxt THEN "gone" ELSE cb[x]]
  /\ q' = IF p.nxt # 0 THEN Enq(Enq(q, p.blk), p.nxt) ELSE Enq(q, p.blk)
  /\ pend' = [pend EXCEPT ![t] = NoPend]
  /\ IF p.ret = "canc" THEN Stay(t, "canc.started") /\ lastEv' = <<>>
     ELSE Advance(t) /\ lastEv' = <<Ev(IF p.ret = "trycall" THEN "TryCallE" ELSE "TryAccE", t, 0, p.rv, 0, 0, 0)>>
  /\ UNCHANGED <<slot, sloc, kind, pay, moved, recv, canc, cbExec, src, bad, done, chan, phase, given>>

CancStarted(t, x) ==
  IF "completed" \in cs[x]
  THEN /\ phase' = [phase EXCEPT ![x] = "started"] /\ Advance(t)
       /\ lastEv' = <<Ev(EndName(kind[x]), t, x, -1, 0, 0, 0)>> /\ cs' = cs
  ELSE /\ cs' = [cs EXCEPT ![x] = @ \cup {"started"}]
       /\ IF cs[x] = {"stopped"}
          THEN Stay(t, "pass.stop_cas") /\ lastEv' = <<>> /\ phase' = phase
          ELSE /\ phase' = [phase EXCEPT ![x] = "started"] /\ Advance(t)
               /\ lastEv' = <<Ev(EndName(kind[x]), t, x, -1, 0, 0, 0)>>

StopOp(t, x) ==
  /\ src' = [src EXCEPT ![x] = TRUE]
  /\ IF cb[x] = "reg" /\ ~src[x]
     THEN /\ cs' = [cs EXCEPT ![x] = @ \cup {"stopped"}]
          /\ IF cs[x] = {"started"}
             THEN cbExec' = [cbExec EXCEPT ![x] = t] /\ Stay(t, "pass.stop_cas")
             ELSE cbExec' = cbExec /\ Advance(t)
     ELSE UNCHANGED <<cs, cbExec>> /\ Advance(t)
  /\ lastEv' = <<Ev("Stop", t, x, -1, 0, 0, 0)>>

\* nested stop(): CAS(self -> 0); on success complete as cancelled through the forwarder
StopCas(t, x) ==
  LET mine == (IF kind[x] = "a" THEN 20 ELSE 10) + x
      ok == slot = mine /\ "completed" \notin cs[x]
      isOwner == Op(t)[1] # "stop"
  IN
  /\ slot' = IF slot = mine THEN 0 ELSE slot
  /\ IF ok
     THEN /\ cs' = [cs EXCEPT ![x] = @ \cup {"completed"}] /\ cb' = [cb EXCEPT ![x] = "gone"]
          /\ canc' = [canc EXCEPT ![x] = TRUE] /\ q' = Enq(q, x)
          /\ recv' = IF kind[x] = "a" THEN [recv EXCEPT ![x] = -2] ELSE recv
     ELSE UNCHANGED <<cs, cb, canc, q, recv>>
  /\ cbExec' = IF isOwner THEN cbExec ELSE [cbExec EXCEPT ![x] = 0]
  /\ phase' = IF isOwner THEN [phase EXCEPT ![x] = "started"] ELSE phase
  /\ lastEv' = IF isOwner THEN <<Ev(EndName(kind[x]), t, x, -1, 0, 0, 0)>> ELSE <<>>
  /\ Advance(t)

TryCallOp(t, p) ==
  IF IsAcceptor(slot)
  THEN /\ sloc' = [sloc EXCEPT ![t] = slot] /\ Stay(t, "pass.tca")
       /\ lastEv' = <<Ev("TryCallB", t, 0, -1, 0, p, 0)>>
  ELSE /\ sloc' = sloc /\ Advance(t)
       /\ lastEv' = <<Ev("TryCallB", t, 0, -1, 0, p, 0), Ev("TryCallE", t, 0, 0, 0, 0, 0)>>
\* try_claim_acceptor: while (is_acceptor(s)) { CAS(s -> 0) }
Tca(t, p) ==
  LET s == sloc[t] IN
  IF slot = s
  THEN /\ ClaimOnly(t) /\ UNCHANGED <<sloc, recv, cs, cb, q, pend>>
  ELSE IF IsAcceptor(slot)
  THEN /\ sloc' = [sloc EXCEPT ![t] = slot] /\ Stay(t, "pass.tca") /\ lastEv' = <<>>
       /\ UNCHANGED <<slot, recv, cs, cb, q, pend>>
  ELSE /\ Advance(t) /\ lastEv' = <<Ev("TryCallE", t, 0, 0, 0, 0, 0)>>
       /\ UNCHANGED <<slot, sloc, recv, cs, cb, q, pend>>

TryAcceptOp(t) ==
  IF IsCaller(slot)
  THEN /\ sloc' = [sloc EXCEPT ![t] = slot] /\ Stay(t, "pass.tcc")
       /\ lastEv' = <<Ev("TryAccB", t, 0, -1, 0, 0, 0)>>
  ELSE /\ sloc' = sloc /\ Advance(t)
       /\ lastEv' = <<Ev("TryAccB", t, 0, -1, 0, 0, 0), Ev("TryAccE", t, 0, 0, 0, 0, 0)>>
Tcc(t) ==
  LET s == sloc[t] IN
  IF slot = s
  THEN /\ ClaimOnly(t) /\ UNCHANGED <<sloc, moved, given, cs, cb, q, pend>>
  ELSE IF IsCaller(slot)
  THEN /\ sloc' = [sloc EXCEPT ![t] = slot] /\ Stay(t, "pass.tcc") /\ lastEv' = <<>>
       /\ UNCHANGED <<slot, moved, given, cs, cb, q, pend>>
  ELSE /\ Advance(t) /\ lastEv' = <<Ev("TryAccE", t, 0, 0, 0, 0, 0)>>
       /\ UNCHANGED <<slot, sloc, moved, given, cs, cb, q, pend>>

IdleOp(t) ==
  /\ Advance(t)
  /\ lastEv' = <<Ev("IdleB", t, 0, -1, 0, 0, 0), Ev("IdleE", t, 0, IF slot = 0 THEN 1 ELSE 0, 0, 0, 0)>>

DrainOp(t, s) ==
  LET dl == DrainList(s) IN
  /\ q' = [x \in Scheds |-> IF s = 0 \/ x = s THEN <<>> ELSE q[x]]
  /\ done' = [x \in Ents |-> done[x] + Count(dl, x)]
  /\ chan' = [x \in Ents |-> IF Count(dl, x) > 0 THEN ChanOf(x) ELSE chan[x]]
  /\ Advance(t) /\ lastEv' = DoneEvs(t, dl)

Step(t) ==
  /\ ~fin /\ bad = "ok"
  /\ \/ /\ pc[t] = "op"
        /\ LET o == Op(t) IN
           \/ o[1] = "call" /\ StartOp(t, o[2], "c", o[3])
           \/ o[1] = "throw" /\ StartOp(t, o[2], "t", 0)
           \/ o[1] = "accept" /\ StartOp(t, o[2], "a", 0)
           \/ o[1] = "stop" /\ StopOp(t, o[2])
                /\ UNCHANGED <<slot, sloc, kind, pay, moved, recv, canc, cb, pend, q, bad, done, chan, phase, given>>
           \/ o[1] = "trycall" /\ TryCallOp(t, o[2])
                /\ UNCHANGED <<slot, kind, pay, moved, recv, canc, cs, cb, cbExec, src, pend, q, bad, done, chan, phase, given>>
           \/ o[1] = "tryaccept" /\ TryAcceptOp(t)
                /\ UNCHANGED <<slot, kind, pay, moved, recv, canc, cs, cb, cbExec, src, pend, q, bad, done, chan, phase, given>>
           \/ o[1] = "idle" /\ IdleOp(t)
                /\ UNCHANGED <<slot, sloc, kind, pay, moved, recv, canc, cs, cb, cbExec, src, pend, q, bad, done, chan, phase, given>>
           \/ o[1] = "drain" /\ DrainOp(t, o[2])
                /\ UNCHANGED <<slot, sloc, kind, pay, moved, recv, canc, cs, cb, cbExec, src, pend, bad, phase, given>>
     \/ pc[t] = "pass.cos" /\ Cos(t, Op(t)[2]) /\ UNCHANGED <<kind, pay, canc, cbExec, src, done, chan>>
     \/ pc[t] = "pass.aos" /\ Aos(t, Op(t)[2]) /\ UNCHANGED <<kind, pay, canc, cbExec, src, done, chan>>
     \/ pc[t] = "pass.claimed" /\ Claimed(t)
     \/ pc[t] = "pass.dereg_wait" /\ DeregWait(t)
     \/ pc[t] = "canc.started" /\ CancStarted(t, Op(t)[2])
          /\ UNCHANGED <<slot, sloc, kind, pay, moved, recv, canc, cb, cbExec, src, pend, q, bad, done, chan, given>>
     \/ pc[t] = "pass.stop_cas" /\ StopCas(t, Op(t)[2])
          /\ UNCHANGED <<sloc, kind, pay, moved, src, pend, bad, done, chan, given>>
     \/ pc[t] = "pass.tca" /\ Tca(t, Op(t)[2])
          /\ UNCHANGED <<kind, pay, moved, canc, cbExec, src, bad, done, chan, phase, given>>
     \/ pc[t] = "pass.tcc" /\ Tcc(t)
          /\ UNCHANGED <<kind, pay, recv, canc, cbExec, src, bad, done, chan, phase>>
  /\ UNCHANGED <<scn, fin>>

AllFin == \A t \in Threads : pc[t] = "fin"
\* main thread: drain, sample is_idle(), cancel whoever is still suspended in the slot, drain again
Final ==
  /\ (AllFin \/ bad # "ok") /\ ~fin
  /\ LET dl == DrainList(0)
         x == IF slot > 20 THEN slot - 20 ELSE IF slot > 10 THEN slot - 10 ELSE 0
         live == x # 0 /\ ~src[x] /\ bad = "ok"
     IN
     /\ q' = [s \in Scheds |-> <<>>]
     /\ done' = [y \in Ents |-> done[y] + Count(dl, y) + (IF live /\ y = x THEN 1 ELSE 0)]
     /\ chan' = [y \in Ents |-> IF Count(dl, y) > 0 THEN ChanOf(y) ELSE IF live /\ y = x THEN 2 ELSE chan[y]]
     /\ slot' = IF live THEN 0 ELSE slot
     /\ src' = [y \in Ents |-> src[y] \/ (live /\ y = x)]
     /\ canc' = [y \in Ents |-> canc[y] \/ (live /\ y = x)]
     /\ cs' = [y \in Ents |-> IF live /\ y = x THEN cs[y] \cup {"stopped", "completed"} ELSE cs[y]]
     /\ cb' = [y \in Ents |-> IF live /\ y = x THEN "gone" ELSE cb[y]]
     /\ lastEv' = DoneEvs(0, dl)
                  \o <<Ev("IdleB", 0, 0, -1, 0, 0, 0), Ev("IdleE", 0, 0, IF slot = 0 THEN 1 ELSE 0, 0, 0, 0),
                       Ev("Quiesce", 0, 0, -1, 0, 0, 0)>>
                  \o (IF live THEN <<Ev("Stop", 0, x, -1, 0, 0, 0),
                                     Ev("Done", 0, x, 2, SchedOf(x), 0, IF kind[x] # "a" /\ moved[x] THEN 1 ELSE 0)>> ELSE <<>>)
  /\ fin' = TRUE /\ lastT' = 0 /\ lastPc' = "final"
  /\ UNCHANGED <<scn, sloc, kind, pay, moved, recv, cbExec, pend, pc, ip, bad, phase, given>>

Next == \/ \E t \in Threads : Step(t) /\ lastT' = t /\ lastPc' = pc[t]
        \/ Final
        \/ (fin /\ UNCHANGED vars /\ UNCHANGED ghosts)
Spec == Init /\ [][Next]_<<vars, ghosts>>
View == vars
FairSpec == /\ Spec
            /\ \A t \in Threads : WF_<<vars, ghosts>>(Step(t) /\ lastT' = t /\ lastPc' = pc[t])
            /\ WF_<<vars, ghosts>>(Final)

\* ------------------------------------------------------------------ properties
Callers == {x \in Ents : kind[x] \in {"c", "t"}}
Acceptors == {x \in Ents : kind[x] = "a"}
ScenarioRespectsPrecondition == bad = "ok"
CompletedAtMostOnce ==
  \A x \in Ents : done[x] + Cardinality({<<s, i>> \in Scheds \X (1..4) : i <= Len(q[s]) /\ q[s][i] = x}) <= 1
\* each call's payload goes to at most one acceptor (exactly one if the call completes with value)
PayloadToAtMostOneAcceptor == \A x \in Ents : given[x] <= 1
CallValueIffAccepted == \A x \in Callers : (chan[x] = 1 => given[x] = 1) /\ (chan[x] = 2 => given[x] = 0)
AcceptValueIsSomePayload ==
  \A a \in Acceptors : chan[a] = 1 => (recv[a] > 0)
\* a cancelled call leaves its arguments untouched
ArgsUntouchedOnCancel == \A x \in Callers : canc[x] => ~moved[x]
\* a suspended operation is in the slot or completed/being completed
SuspendedIsInSlot ==
  \A x \in Ents : (phase[x] = "started" /\ "completed" \notin cs[x]) =>
     LET mine == (IF kind[x] = "a" THEN 20 ELSE 10) + x IN
     slot = mine \/ \E t \in Threads : pc[t] = "pass.claimed" /\ sloc[t] = mine
\* at quiescence
AllCompleteAtEnd == (fin /\ bad = "ok") => \A x \in Ents : phase[x] = "started" => done[x] = 1
SlotIdleAtEnd == (fin /\ bad = "ok") => slot = 0
Terminates == <>fin
=============================================================================
