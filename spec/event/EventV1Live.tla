---- MODULE EventV1Live ----
EXTENDS EventV1, Json, IOUtils
T == {1, 2, 3}
W == {1, 2, 3}
S == {1, 2, 3}
ScnSeq == JsonDeserialize(IOEnv.SCENARIOS)
Scn == {ScnSeq[i] : i \in 1..Len(ScnSeq)}
====
