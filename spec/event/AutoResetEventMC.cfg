SPECIFICATION Spec
CONSTANTS Threads <- T  Nexts <- N  Scheds <- S  Scenarios <- Scn  Variant = "ok"
INVARIANTS NoAssertion EachSetToAtMostOneNext DonePermanent InnerConsistentWhenFree DoneOnlyAfterDoneRequest NoStrandedNext NothingQueuedAtEnd MutexFreeAtEnd AllCompleteAtEnd
VIEW View
ACTION_CONSTRAINT EdgeLog
CHECK_DEADLOCK TRUE
