SPECIFICATION Spec
CONSTANTS Threads <- T  Nexts <- N  Scheds <- S  Scenarios <- Scn
INVARIANTS NoAssertion EachSetToAtMostOneNext DonePermanent InnerConsistent NoStrandedNext NothingQueuedAtEnd AllCompleteAtEnd
VIEW View
ACTION_CONSTRAINT EdgeLog
CHECK_DEADLOCK TRUE
