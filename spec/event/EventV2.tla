---------------------------- MODULE EventV2 ----------------------------
(***************************************************************************)
(* Implementation-shaped specification of unifex::v2::async_manual_reset_  *)
(* event (include/unifex/v2/async_manual_reset_event.hpp,                  *)
(* source/async_manual_reset_event_v2.cpp) together with the cancellable<> *)
(* wrapper its async_wait() returns (include/unifex/cancellable.hpp).      *)
(*                                                                         *)
(* The latchable atomic_intrusive_list is modelled at operation            *)
(* granularity (its link-lock protocol is the business of the list         *)
(* module): waiters_ = (latched, lst); set() = latch_and_drain into a      *)
(* stack-local list, then pop_front + resume_ one by one; start() =        *)
(* push_front_unless_latched; stop() = try_remove (works on the event's    *)
(* list and on a set()'s local list); reset() = unlatch; ready() =         *)
(* is_latched.  cancellable: state_ bits stopped/started/completed, the    *)
(* stop callback (registered in start(), destroyed by try_complete), the   *)
(* stack flag sync_complete.  A value completion is rescheduled onto the   *)
(* receiver's scheduler (queue q[s]); set_done from stop() is delivered    *)
(* inline by the stopping thread.                                          *)
(*                                                                         *)
(* List semantics assumed here: every list operation EventV2 uses          *)
(* (push_front_unless_latched, latch_and_drain, pop_front of the local     *)
(* list, try_remove, unlatch, is_latched) is ONE atomic step, and exactly  *)
(* one of pop_front / try_remove obtains a given item.  This is the        *)
(* abstract list spec/prim/AbstractList.tla restricted to what this client *)
(* can observe: AbstractList's two-phase insert (PFrontLink..PFrontPublish)*)
(* and two-phase obtain (PopClaim..PopUnlink, RemClaim..RemUnlink) differ  *)
(* from atomic steps only for empty() (never called by the event), for a   *)
(* try_remove of an item whose push has not returned (the event calls      *)
(* stop() only after start() returned), and for a pop_front that waits for *)
(* a claimed head (invisible: pop_front's result is the same).  That the   *)
(* real link-lock protocol (source/atomic_intrusive_list.cpp, incl. the    *)
(* latch operations) implements AbstractList is checked with TLC in        *)
(* spec/prim (AtomicIntrusiveListRef); it is not re-proved here.  The      *)
(* binding of the latch family to the real code at link-lock granularity   *)
(* is the `v2fine` scenario family of engines/event (schedule points       *)
(* mutex.l.* accepted; monitor + progress/crash oracle).                   *)
(* Schedule points: "op", "v2.start_push", "canc.started", "v2.set_pop",   *)
(* "v2.set_resume", "v2.stop_remove" (+ the spin in the stop callback's    *)
(* destructor, modelled as the await "v2.dereg_wait").                     *)
(***************************************************************************)
EXTENDS Integers, Sequences, FiniteSets, TLC

CONSTANTS Threads, Waiters, Scheds, Scenarios
\* op: <<"wait", w>> | <<"set">> | <<"reset">> | <<"ready">> | <<"drain", s>> | <<"stop", w>>

VARIABLES scn,
          latched, lst,   \* waiters_
          loc, cur,       \* per thread: set()'s local list / the waiter popped and about to be resumed
          cs,             \* [Waiters -> SUBSET {"stopped","started","completed"}]  cancellable state_
          cb,             \* [Waiters -> "none"|"reg"|"gone"]  stop callback
          cbExec,         \* [Waiters -> thread inside the stop callback, 0 = none]
          src,            \* [Waiters -> BOOLEAN] stop requested on the receiver's stop source
          pc, ip, q, fin,
          \* history
          done,           \* [Waiters -> Nat] completions delivered to the receiver
          chan,           \* [Waiters -> 0|1|2] channel of the completion (1 value, 2 done)
          phase, setAfter, sigSeen,
          lastT, lastPc, lastEv
vars == <<scn, latched, lst, loc, cur, cs, cb, cbExec, src, pc, ip, q, fin, done, chan, phase, setAfter, sigSeen>>
ghosts == <<lastT, lastPc, lastEv>>

Ev(e, t, w, r, c) == [e |-> e, t |-> t, w |-> w, r |-> r, c |-> c]
Prog(t) == scn.prog[t]
Op(t) == Prog(t)[ip[t]]
SchedOf(w) == scn.sched[w]
Enq(qq, w) == [qq EXCEPT ![SchedOf(w)] = Append(@, w)]
Queued(w) == \E s \in Scheds : \E i \in 1..Len(q[s]) : q[s][i] = w
Has(s, w) == \E i \in 1..Len(s) : s[i] = w
Without(s, w) == SelectSeq(s, LAMBDA x : x # w)

Init ==
  /\ scn \in Scenarios
  /\ latched = (scn.init = 1) /\ lst = <<>>
  /\ loc = [t \in Threads |-> <<>>] /\ cur = [t \in Threads |-> 0]
  /\ cs = [w \in Waiters |-> {}] /\ cb = [w \in Waiters |-> "none"] /\ cbExec = [w \in Waiters |-> 0]
  /\ src = [w \in Waiters |-> FALSE]
  /\ pc = [t \in Threads |-> IF Len(scn.prog[t]) = 0 THEN "fin" ELSE "op"]
  /\ ip = [t \in Threads |-> 1]
  /\ q = [s \in Scheds |-> <<>>] /\ fin = FALSE
  /\ done = [w \in Waiters |-> 0] /\ chan = [w \in Waiters |-> 0]
  /\ phase = [w \in Waiters |-> "no"]
  /\ setAfter = [w \in Waiters |-> FALSE] /\ sigSeen = [w \in Waiters |-> FALSE]
  /\ lastT = 0 /\ lastPc = "" /\ lastEv = <<>>

Advance(t) == /\ ip' = [ip EXCEPT ![t] = @ + 1]
              /\ pc' = [pc EXCEPT ![t] = IF ip[t] + 1 > Len(Prog(t)) THEN "fin" ELSE "op"]
Stay(t, where) == /\ ip' = ip /\ pc' = [pc EXCEPT ![t] = where]

RECURSIVE Tasks(_, _)
Tasks(ss, qq) == IF ss = <<>> THEN <<>>
                 ELSE [i \in 1..Len(qq[Head(ss)]) |-> <<qq[Head(ss)][i], Head(ss)>>] \o Tasks(Tail(ss), qq)
SchedSeq == [i \in 1..Cardinality(Scheds) |-> i]
DrainList(s) == IF s = 0 THEN Tasks(SchedSeq, q) ELSE Tasks(<<s>>, q)
Count(dl, w) == Cardinality({i \in 1..Len(dl) : dl[i][1] = w})
DoneEvs(t, dl) == [i \in 1..Len(dl) |-> Ev("Done", t, dl[i][1], 1, dl[i][2])]

\* ---- waiter: cancellable::type::start() up to the nested start()
WaitOp(t, w) ==
  /\ phase[w] = "no"
  /\ phase' = [phase EXCEPT ![w] = "starting"]
  /\ cb' = [cb EXCEPT ![w] = "reg"]
  /\ cs' = IF src[w] THEN [cs EXCEPT ![w] = @ \cup {"stopped"}] ELSE cs    \* callback runs inline in its constructor
  /\ Stay(t, "v2.start_push")
  /\ lastEv' = <<Ev("WaitB", t, w, -1, SchedOf(w))>>
  /\ UNCHANGED <<latched, lst, loc, cur, cbExec, src, q, done, chan, setAfter>>

\* nested start(): push_front_unless_latched, or complete via the fast path
StartPush(t, w) ==
  /\ IF latched
     THEN /\ cs' = [cs EXCEPT ![w] = @ \cup {"completed"}]
          /\ cb' = [cb EXCEPT ![w] = "gone"]
          /\ q' = Enq(q, w) /\ lst' = lst
     ELSE /\ lst' = <<w>> \o lst /\ UNCHANGED <<cs, cb, q>>
  /\ Stay(t, "canc.started") /\ lastEv' = <<>>
  /\ UNCHANGED <<latched, loc, cur, cbExec, src, done, chan, phase, setAfter>>

\* stop_type::start() after the nested start returned
CancStarted(t, w) ==
  IF "completed" \in cs[w]            \* sync_complete was set: return without touching the operation
  THEN /\ phase' = [phase EXCEPT ![w] = "started"] /\ Advance(t)
       /\ lastEv' = <<Ev("WaitE", t, w, -1, 0)>>
       /\ UNCHANGED <<latched, lst, loc, cur, cs, cb, cbExec, src, q, done, chan, setAfter>>
  ELSE /\ cs' = [cs EXCEPT ![w] = @ \cup {"started"}]
       /\ IF cs[w] = {"stopped"}
          THEN Stay(t, "v2.stop_remove") /\ lastEv' = <<>> /\ phase' = phase
          ELSE /\ phase' = [phase EXCEPT ![w] = "started"] /\ Advance(t)
               /\ lastEv' = <<Ev("WaitE", t, w, -1, 0)>>
       /\ UNCHANGED <<latched, lst, loc, cur, cb, cbExec, src, q, done, chan, setAfter>>

\* nested stop(): try_remove; on success try_complete + set_done inline.  Runs on the waiter's thread (stop requested
\* before `started`) or on the stopping thread inside the stop callback.
StopRemove(t, w) ==
  LET inl == Has(lst, w)
      inloc == \E u \in Threads : Has(loc[u], w)
      ok == inl \/ inloc
      isWaiter == Op(t)[1] = "wait"
  IN
  /\ lst' = Without(lst, w)
  /\ loc' = [u \in Threads |-> Without(loc[u], w)]
  /\ IF ok /\ "completed" \notin cs[w]
     THEN /\ cs' = [cs EXCEPT ![w] = @ \cup {"completed"}] /\ cb' = [cb EXCEPT ![w] = "gone"]
          /\ done' = [done EXCEPT ![w] = @ + 1] /\ chan' = [chan EXCEPT ![w] = 2]
          /\ lastEv' = <<Ev("Done", t, w, 2, 0)>> \o (IF isWaiter THEN <<Ev("WaitE", t, w, -1, 0)>> ELSE <<>>)
     ELSE /\ UNCHANGED <<cs, cb, done, chan>>
          /\ lastEv' = IF isWaiter THEN <<Ev("WaitE", t, w, -1, 0)>> ELSE <<>>
  /\ cbExec' = IF isWaiter THEN cbExec ELSE [cbExec EXCEPT ![w] = 0]
  /\ phase' = IF isWaiter THEN [phase EXCEPT ![w] = "started"] ELSE phase
  /\ Advance(t)
  /\ UNCHANGED <<latched, cur, src, q, setAfter>>

\* request_stop() on the waiter's stop source
StopOp(t, w) ==
  /\ src' = [src EXCEPT ![w] = TRUE]
  /\ IF cb[w] = "reg" /\ ~src[w]
     THEN /\ cs' = [cs EXCEPT ![w] = @ \cup {"stopped"}]
          /\ IF cs[w] = {"started"}
             THEN cbExec' = [cbExec EXCEPT ![w] = t] /\ Stay(t, "v2.stop_remove")
             ELSE cbExec' = cbExec /\ Advance(t)
     ELSE UNCHANGED <<cs, cbExec>> /\ Advance(t)
  /\ lastEv' = <<Ev("Stop", t, w, -1, 0)>>
  /\ UNCHANGED <<latched, lst, loc, cur, cb, q, done, chan, phase, setAfter>>

SetOp(t) ==
  /\ latched' = TRUE
  /\ IF latched THEN UNCHANGED <<lst, loc>> ELSE lst' = <<>> /\ loc' = [loc EXCEPT ![t] = lst]
  /\ setAfter' = [w \in Waiters |-> setAfter[w] \/ phase[w] = "started"]
  /\ Stay(t, "v2.set_pop") /\ lastEv' = <<Ev("SetB", t, 0, -1, 0)>>
  /\ UNCHANGED <<cur, cs, cb, cbExec, src, q, done, chan, phase>>

SetPop(t) ==
  /\ IF loc[t] = <<>>
     THEN Advance(t) /\ lastEv' = <<Ev("SetE", t, 0, -1, 0)>> /\ UNCHANGED <<loc, cur>>
     ELSE /\ cur' = [cur EXCEPT ![t] = Head(loc[t])] /\ loc' = [loc EXCEPT ![t] = Tail(@)]
          /\ Stay(t, "v2.set_resume") /\ lastEv' = <<>>
  /\ UNCHANGED <<latched, lst, cs, cb, cbExec, src, q, done, chan, phase, setAfter>>

\* resume_: try_complete (always the first completer: pop_front and try_remove exclude each other), then the stop
\* callback is destroyed - which waits while that callback is executing on another thread - then reschedule
SetResume(t) ==
  LET w == cur[t] IN
  /\ cs' = [cs EXCEPT ![w] = @ \cup {"completed"}]
  /\ IF cbExec[w] \notin {0, t}
     THEN Stay(t, "v2.dereg_wait") /\ UNCHANGED <<cb, q, cur>>
     ELSE /\ cb' = [cb EXCEPT ![w] = "gone"] /\ q' = Enq(q, w) /\ cur' = [cur EXCEPT ![t] = 0]
          /\ Stay(t, "v2.set_pop")
  /\ lastEv' = <<>>
  /\ UNCHANGED <<latched, lst, loc, cbExec, src, done, chan, phase, setAfter>>
DeregWait(t) ==
  LET w == cur[t] IN
  /\ cbExec[w] = 0
  /\ cb' = [cb EXCEPT ![w] = "gone"] /\ q' = Enq(q, w) /\ cur' = [cur EXCEPT ![t] = 0]
  /\ Stay(t, "v2.set_pop") /\ lastEv' = <<>>
  /\ UNCHANGED <<latched, lst, loc, cs, cbExec, src, done, chan, phase, setAfter>>

ResetOp(t) ==
  /\ latched' = FALSE /\ Advance(t)
  /\ lastEv' = <<Ev("RstB", t, 0, -1, 0), Ev("RstE", t, 0, -1, 0)>>
  /\ UNCHANGED <<lst, loc, cur, cs, cb, cbExec, src, q, done, chan, phase, setAfter>>
ReadyOp(t) ==
  /\ Advance(t)
  /\ lastEv' = <<Ev("RdyB", t, 0, -1, 0), Ev("RdyE", t, 0, IF latched THEN 1 ELSE 0, 0)>>
  /\ UNCHANGED <<latched, lst, loc, cur, cs, cb, cbExec, src, q, done, chan, phase, setAfter>>
DrainOp(t, s) ==
  LET dl == DrainList(s) IN
  /\ q' = [x \in Scheds |-> IF s = 0 \/ x = s THEN <<>> ELSE q[x]]
  /\ done' = [w \in Waiters |-> done[w] + Count(dl, w)]
  /\ chan' = [w \in Waiters |-> IF Count(dl, w) > 0 THEN 1 ELSE chan[w]]
  /\ Advance(t) /\ lastEv' = DoneEvs(t, dl)
  /\ UNCHANGED <<latched, lst, loc, cur, cs, cb, cbExec, src, phase, setAfter>>

Step(t) ==
  /\ ~fin
  /\ \/ /\ pc[t] = "op"
        /\ LET o == Op(t) IN
           \/ o[1] = "set" /\ SetOp(t)
           \/ o[1] = "reset" /\ ResetOp(t)
           \/ o[1] = "ready" /\ ReadyOp(t)
           \/ o[1] = "wait" /\ WaitOp(t, o[2])
           \/ o[1] = "stop" /\ StopOp(t, o[2])
           \/ o[1] = "drain" /\ DrainOp(t, o[2])
     \/ pc[t] = "v2.start_push" /\ StartPush(t, Op(t)[2])
     \/ pc[t] = "canc.started" /\ CancStarted(t, Op(t)[2])
     \/ pc[t] = "v2.stop_remove" /\ StopRemove(t, Op(t)[2])
     \/ pc[t] = "v2.set_pop" /\ SetPop(t)
     \/ pc[t] = "v2.set_resume" /\ SetResume(t)
     \/ pc[t] = "v2.dereg_wait" /\ DeregWait(t)
  /\ sigSeen' = [w \in Waiters |-> sigSeen[w] \/ (phase'[w] # "no" /\ (latched' \/ latched))]
  /\ UNCHANGED <<scn, fin>>

AllFin == \A t \in Threads : pc[t] = "fin"
\* main thread: drain, sample ready(), cancel the waits still registered (the list must be empty when the event dies)
Final ==
  /\ AllFin /\ ~fin
  /\ LET dl == DrainList(0)
         pend == {w \in Waiters : Has(lst, w) /\ ~src[w]}
         pseq == SelectSeq([i \in 1..Cardinality(Waiters) |-> i], LAMBDA w : w \in pend)
         RECURSIVE Canc(_)
         Canc(s) == IF s = <<>> THEN <<>> ELSE <<Ev("Stop", 0, Head(s), -1, 0), Ev("Done", 0, Head(s), 2, 0)>> \o Canc(Tail(s))
     IN
     /\ q' = [x \in Scheds |-> <<>>]
     /\ done' = [w \in Waiters |-> done[w] + Count(dl, w) + (IF w \in pend THEN 1 ELSE 0)]
     /\ chan' = [w \in Waiters |-> IF Count(dl, w) > 0 THEN 1 ELSE IF w \in pend THEN 2 ELSE chan[w]]
     /\ lst' = SelectSeq(lst, LAMBDA w : w \notin pend)
     /\ src' = [w \in Waiters |-> src[w] \/ w \in pend]
     /\ cs' = [w \in Waiters |-> IF w \in pend THEN cs[w] \cup {"stopped", "completed"} ELSE cs[w]]
     /\ cb' = [w \in Waiters |-> IF w \in pend THEN "gone" ELSE cb[w]]
     /\ lastEv' = DoneEvs(0, dl) \o <<Ev("RdyB", 0, 0, -1, 0), Ev("RdyE", 0, 0, IF latched THEN 1 ELSE 0, 0),
                                          Ev("Quiesce", 0, 0, -1, 0)>> \o Canc(pseq)
  /\ fin' = TRUE /\ lastT' = 0 /\ lastPc' = "final"
  /\ UNCHANGED <<scn, latched, loc, cur, cbExec, pc, ip, phase, setAfter, sigSeen>>

Next == \/ \E t \in Threads : Step(t) /\ lastT' = t /\ lastPc' = pc[t]
        \/ Final
        \/ (fin /\ UNCHANGED vars /\ UNCHANGED ghosts)
Spec == Init /\ [][Next]_<<vars, ghosts>>
View == vars
FairSpec == /\ Spec
            /\ \A t \in Threads : WF_<<vars, ghosts>>(Step(t) /\ lastT' = t /\ lastPc' = pc[t])
            /\ WF_<<vars, ghosts>>(Final)

\* ------------------------------------------------------------------ properties
InList(w) == Has(lst, w) \/ \E t \in Threads : Has(loc[t], w) \/ cur[t] = w
LatchedImpliesEmpty == latched => lst = <<>>
ResumedAtMostOnce ==
  \A w \in Waiters : done[w] + Cardinality({<<s, i>> \in Scheds \X (1..4) : i <= Len(q[s]) /\ q[s][i] = w}) <= 1
CompletesOnlyIfSet == \A w \in Waiters : (Queued(w) \/ chan[w] = 1) => sigSeen[w]
DoneOnlyIfStopped == \A w \in Waiters : chan[w] = 2 => src[w]
\* a registered, not yet completed wait is always reachable through a list (reset() never drops it)
NoLostWaiter == \A w \in Waiters : (phase[w] = "started" /\ "completed" \notin cs[w]) => InList(w)
CompletedNotListed == \A w \in Waiters : (Queued(w) \/ done[w] > 0) => ~InList(w)
EveryEarlierWaitResumedOnce == fin => \A w \in Waiters : (phase[w] = "started" /\ setAfter[w]) => done[w] = 1
NoStrandedWaiter == fin => (latched => \A w \in Waiters : phase[w] = "started" => done[w] = 1)
StoppedWaitCompletes == fin => \A w \in Waiters : (phase[w] = "started" /\ src[w]) => done[w] = 1
ListEmptyAtEnd == fin => lst = <<>> /\ \A t \in Threads : loc[t] = <<>>
Terminates == <>fin
=============================================================================
