----------------------------- MODULE PassMon -----------------------------
(***************************************************************************)
(* The C16 monitor for async_pass: the most permissive behaviour over      *)
(* API-level events of ONE async_pass<int> object that still satisfies the *)
(* property statement.  Every call (start of async_call / async_throw /    *)
(* async_accept, try_call, try_accept, is_idle) takes effect atomically at *)
(* a guessed moment between its Begin and End event; a requested stop      *)
(* takes effect at a guessed moment after the Stop event while the         *)
(* operation is suspended in the slot.  Abstract object: slot = 0 idle |   *)
(* 10+x caller x waiting | 20+x acceptor x waiting.                        *)
(*   - a call/throw meeting a waiting acceptor (or an accept / try_accept  *)
(*     meeting a waiting caller) rendezvous: the payload goes to exactly   *)
(*     that acceptor, both sides are owed a completion;                    *)
(*   - value completion of x only if x took part in a rendezvous; an       *)
(*     acceptor's value carries exactly its partner's payload (error if    *)
(*     the partner was async_throw);                                       *)
(*   - done only if x's stop took effect while x was suspended; the other  *)
(*     side stays as it was; a cancelled caller's argument was not moved;  *)
(*   - try_call / try_accept succeed iff the counterpart is waiting at     *)
(*     the moment they take effect; try_accept returns that payload;       *)
(*   - every completion is delivered in the context of the operation's own *)
(*     scheduler (c = scheduler given at the Begin event), at most once;   *)
(*   - at the end of an execution no call is open, every rendezvoused or   *)
(*     cancelled operation has completed, every stopped one has completed. *)
(* Events: Reset | CallB/ThrowB/AccB(t, w=x, p, c=scheduler) + CallE/      *)
(* ThrowE/AccE | TryCallB(t,p)/TryCallE(t,r) | TryAccB/TryAccE(t, r =      *)
(* payload | 0 none | -1 exception) | IdleB/IdleE(t,r) | Stop(w) |         *)
(* Done(w, r = 1 value | 2 done | 3 error, p = payload received,           *)
(* m = caller's argument moved-from, c = delivery context).                *)
(***************************************************************************)
EXTENDS Integers, Sequences, FiniteSets, TLC, TraceIO
Xs == 1..4
Thr == 0..3
None == [k |-> "none", w |-> 0, p |-> 0, lin |-> FALSE, rv |-> 0]
VARIABLES l, call, slot, kind, pay, recv, owed, cancelled, comp, begun, stopReq, sch
vars == <<l, call, slot, kind, pay, recv, owed, cancelled, comp, begun, stopReq, sch>>
Z == [x \in Xs |-> 0]
Init == /\ l = 1 /\ call = [t \in Thr |-> None] /\ slot = 0 /\ kind = [x \in Xs |-> ""] /\ pay = Z /\ recv = Z
        /\ owed = {} /\ cancelled = {} /\ comp = {} /\ begun = {} /\ stopReq = {} /\ sch = Z /\ TrackInit
E == Log[l]
Is(e) == l <= Len(Log) /\ E.e = e /\ l' = l + 1
Closed == /\ \A t \in Thr : call[t].k = "none"
          /\ owed = {} /\ cancelled \subseteq comp
          /\ (stopReq \cap begun) \subseteq comp
Reset == /\ Is("Reset") /\ Closed
         /\ call' = [t \in Thr |-> None] /\ slot' = 0 /\ kind' = [x \in Xs |-> ""] /\ pay' = Z /\ recv' = Z
         /\ owed' = {} /\ cancelled' = {} /\ comp' = {} /\ begun' = {} /\ stopReq' = {} /\ sch' = Z
\* ---- begin events
StartB(e, k) ==
  /\ Is(e) /\ call[E.t].k = "none" /\ E.w \in Xs /\ E.w \notin begun
  /\ call' = [call EXCEPT ![E.t] = [k |-> k, w |-> E.w, p |-> E.p, lin |-> FALSE, rv |-> 0]]
  /\ begun' = begun \cup {E.w} /\ kind' = [kind EXCEPT ![E.w] = k] /\ pay' = [pay EXCEPT ![E.w] = E.p]
  /\ sch' = [sch EXCEPT ![E.w] = E.c]
  /\ UNCHANGED <<slot, recv, owed, cancelled, comp, stopReq>>
TryB(e, k) ==
  /\ Is(e) /\ call[E.t].k = "none"
  /\ call' = [call EXCEPT ![E.t] = [k |-> k, w |-> 0, p |-> E.p, lin |-> FALSE, rv |-> 0]]
  /\ UNCHANGED <<slot, kind, pay, recv, owed, cancelled, comp, begun, stopReq, sch>>
\* ---- the guessed moment at which an open call takes effect
Given(c) == IF kind[c] = "c" THEN pay[c] ELSE -1
\* (a guess commutes with Begin/Stop events, so without loss it is made only right before an End or Done event)
LinPoint == l <= Len(Log) /\ E.e \in {"CallE", "ThrowE", "AccE", "TryCallE", "TryAccE", "IdleE", "Done"}
Lin(t) ==
  /\ LinPoint /\ call[t].k # "none" /\ ~call[t].lin
  /\ LET c == call[t] IN
     CASE c.k \in {"c", "t"} ->
            /\ ~(slot > 10 /\ slot < 20)                     \* (two suspended callers: excluded by the scenarios)
            /\ IF slot > 20
               THEN /\ recv' = [recv EXCEPT ![slot - 20] = Given(c.w)] /\ owed' = owed \cup {c.w, slot - 20} /\ slot' = 0
               ELSE /\ slot' = 10 + c.w /\ UNCHANGED <<recv, owed>>
            /\ call' = [call EXCEPT ![t].lin = TRUE]
       [] c.k = "a" ->
            /\ ~(slot > 20)
            /\ IF slot > 10
               THEN /\ recv' = [recv EXCEPT ![c.w] = Given(slot - 10)] /\ owed' = owed \cup {c.w, slot - 10} /\ slot' = 0
               ELSE /\ slot' = 20 + c.w /\ UNCHANGED <<recv, owed>>
            /\ call' = [call EXCEPT ![t].lin = TRUE]
       [] c.k = "trycall" ->
            IF slot > 20
            THEN /\ recv' = [recv EXCEPT ![slot - 20] = c.p] /\ owed' = owed \cup {slot - 20} /\ slot' = 0
                 /\ call' = [call EXCEPT ![t].lin = TRUE, ![t].rv = 1]
            ELSE /\ call' = [call EXCEPT ![t].lin = TRUE, ![t].rv = 0] /\ UNCHANGED <<slot, recv, owed>>
       [] c.k = "tryacc" ->
            IF slot > 10 /\ slot < 20
            THEN /\ owed' = owed \cup {slot - 10} /\ slot' = 0 /\ recv' = recv
                 /\ call' = [call EXCEPT ![t].lin = TRUE, ![t].rv = Given(slot - 10)]
            ELSE /\ call' = [call EXCEPT ![t].lin = TRUE, ![t].rv = 0] /\ UNCHANGED <<slot, recv, owed>>
       [] c.k = "idle" ->
            /\ call' = [call EXCEPT ![t].lin = TRUE, ![t].rv = IF slot = 0 THEN 1 ELSE 0] /\ UNCHANGED <<slot, recv, owed>>
  /\ UNCHANGED <<l, kind, pay, cancelled, comp, begun, stopReq, sch>>
\* a requested stop takes effect while the operation is suspended
LinStop(x) ==
  /\ LinPoint /\ x \in stopReq /\ slot = (IF kind[x] = "a" THEN 20 ELSE 10) + x
  /\ slot' = 0 /\ cancelled' = cancelled \cup {x}
  /\ UNCHANGED <<l, call, kind, pay, recv, owed, comp, begun, stopReq, sch>>
End(e, k) ==
  /\ Is(e) /\ call[E.t].k = k /\ call[E.t].lin
  /\ (k \in {"trycall", "tryacc", "idle"} => E.r = call[E.t].rv)
  /\ (k \in {"c", "t", "a"} => E.w = call[E.t].w)
  /\ call' = [call EXCEPT ![E.t] = None]
  /\ UNCHANGED <<slot, kind, pay, recv, owed, cancelled, comp, begun, stopReq, sch>>
Quiesce == Is("Quiesce") /\ Closed /\ UNCHANGED <<call, slot, kind, pay, recv, owed, cancelled, comp, begun, stopReq, sch>>
Stop == Is("Stop") /\ stopReq' = stopReq \cup {E.w} /\ UNCHANGED <<call, slot, kind, pay, recv, owed, cancelled, comp, begun, sch>>
Done ==
  /\ Is("Done") /\ E.w \in begun /\ E.w \notin comp
  /\ E.c = sch[E.w]                                                     \* on the operation's own scheduler
  /\ \/ /\ E.r = 1 /\ E.w \in owed
        /\ kind[E.w] = "a" => (recv[E.w] > 0 /\ E.p = recv[E.w])          \* exactly the partner's payload
     \/ E.r = 3 /\ E.w \in owed /\ kind[E.w] = "a" /\ recv[E.w] = -1       \* the partner was async_throw / try_throw
     \/ /\ E.r = 2 /\ E.w \in cancelled
        /\ kind[E.w] # "a" => E.m = 0                                      \* arguments untouched
  /\ comp' = comp \cup {E.w} /\ owed' = owed \ {E.w}
  /\ UNCHANGED <<call, slot, kind, pay, recv, cancelled, begun, stopReq, sch>>
Next == \/ Reset \/ Quiesce \/ StartB("CallB", "c") \/ StartB("ThrowB", "t") \/ StartB("AccB", "a")
        \/ TryB("TryCallB", "trycall") \/ TryB("TryAccB", "tryacc") \/ TryB("IdleB", "idle")
        \/ End("CallE", "c") \/ End("ThrowE", "t") \/ End("AccE", "a")
        \/ End("TryCallE", "trycall") \/ End("TryAccE", "tryacc") \/ End("IdleE", "idle")
        \/ Stop \/ Done
        \/ \E t \in Thr : Lin(t)
        \/ \E x \in Xs : LinStop(x)
Spec == Init /\ [][Next]_vars
Track == TrackAt(l, Closed)
Report == ReportTrace
=============================================================================
