------------------------- MODULE AutoResetEvent -------------------------
(***************************************************************************)
(* Implementation-shaped specification of unifex::async_auto_reset_event   *)
(* (include/unifex/async_auto_reset_event.hpp,                             *)
(* source/async_auto_reset_event.cpp).                                     *)
(*                                                                         *)
(* st = state_ (U unset / S set / D done), protected by mutex_: set(),     *)
(* set_done() and try_reset() are atomic (the driver takes no schedule     *)
(* point while the mutex is held).  ev = the inner v1 manual-reset event   *)
(* (0 unset, SIG signalled, n = the operation of next() n is the waiter).  *)
(* next() = register a stop callback (calls set_done()), async_wait on the *)
(* inner event (start_or_wait CAS loop, outside the mutex), and when woken *)
(* - on the receiver's scheduler - destroy the stop callback and           *)
(* try_reset(): S -> U + value, D -> done.                                 *)
(* The stream has one consumer: a thread executes `next n` by starting     *)
(* next() and then draining its scheduler until that next() completed (or  *)
(* every other thread has finished: it then leaves the next() pending).    *)
(* Schedule points: "op", "auto.wait", "v1.sow_cas", "auto.await" (spin),  *)
(* "auto.cont".                                                            *)
(***************************************************************************)
EXTENDS Integers, Sequences, FiniteSets, TLC

CONSTANTS Threads, Nexts, Scheds, Scenarios
\* op: <<"set">> | <<"setdone">> | <<"stop", n>> | <<"next", n>>
SIG == 99

VARIABLES scn, st, ev, cbk, src, q, pc, ip, top, fin, bad,
          res,        \* [Nexts -> 0 | 1 value | 2 done] completion delivered
          phase,      \* [Nexts -> "no"|"started"]
          effSets,    \* number of set() calls that found the event not done
          values,     \* number of next() value completions
          wasDone,    \* st has been D
          lastT, lastPc, lastEv
vars == <<scn, st, ev, cbk, src, q, pc, ip, top, fin, bad, res, phase, effSets, values, wasDone>>
ghosts == <<lastT, lastPc, lastEv>>

Ev(e, t, w, r, c) == [e |-> e, t |-> t, w |-> w, r |-> r, c |-> c]
Prog(t) == scn.prog[t]
Op(t) == Prog(t)[ip[t]]
SchedOf(n) == scn.sched[n]
Queued(n) == \E s \in Scheds : \E i \in 1..Len(q[s]) : q[s][i] = n
OthersFin(t) == \A u \in Threads \ {t} : pc[u] = "fin"

Init ==
  /\ scn \in Scenarios
  /\ st = (IF scn.init = 1 THEN "S" ELSE "U") /\ ev = (IF scn.init = 1 THEN SIG ELSE 0)
  /\ cbk = [n \in Nexts |-> "none"] /\ src = [n \in Nexts |-> FALSE]
  /\ q = [s \in Scheds |-> <<>>]
  /\ pc = [t \in Threads |-> IF Len(scn.prog[t]) = 0 THEN "fin" ELSE "op"]
  /\ ip = [t \in Threads |-> 1] /\ top = [t \in Threads |-> 0]
  /\ fin = FALSE /\ bad = "ok"
  /\ res = [n \in Nexts |-> 0] /\ phase = [n \in Nexts |-> "no"]
  /\ effSets = 0 /\ values = 0 /\ wasDone = FALSE
  /\ lastT = 0 /\ lastPc = "" /\ lastEv = <<>>

Advance(t) == /\ ip' = [ip EXCEPT ![t] = @ + 1]
              /\ pc' = [pc EXCEPT ![t] = IF ip[t] + 1 > Len(Prog(t)) THEN "fin" ELSE "op"]
Stay(t, where) == /\ ip' = ip /\ pc' = [pc EXCEPT ![t] = where]

\* inner event_.set(): exchange(SIG) and resume the waiter (schedule it on its receiver's scheduler)
InnerSet == /\ ev' = SIG
            /\ q' = IF ev \in Nexts THEN [q EXCEPT ![SchedOf(ev)] = Append(@, ev)] ELSE q

SetOp(t) ==
  /\ IF st # "D" THEN st' = "S" /\ InnerSet /\ effSets' = effSets + 1
     ELSE UNCHANGED <<st, ev, q, effSets>>
  /\ Advance(t) /\ lastEv' = <<Ev("SetB", t, 0, -1, 0), Ev("SetE", t, 0, -1, 0)>>
  /\ UNCHANGED <<cbk, src, top, bad, res, phase, values>>
SetDoneOp(t) ==
  /\ st' = "D" /\ InnerSet
  /\ Advance(t) /\ lastEv' = <<Ev("SdB", t, 0, -1, 0), Ev("SdE", t, 0, -1, 0)>>
  /\ UNCHANGED <<cbk, src, top, bad, res, phase, effSets, values>>
StopOp(t, n) ==
  /\ src' = [src EXCEPT ![n] = TRUE]
  /\ IF cbk[n] = "reg" /\ ~src[n] THEN st' = "D" /\ InnerSet ELSE UNCHANGED <<st, ev, q>>
  /\ Advance(t) /\ lastEv' = <<Ev("Stop", t, n, -1, 0)>>
  /\ UNCHANGED <<cbk, top, bad, res, phase, effSets, values>>

NextOp(t, n) ==
  /\ phase[n] = "no"
  /\ phase' = [phase EXCEPT ![n] = "started"]
  /\ cbk' = [cbk EXCEPT ![n] = "reg"]
  /\ IF src[n] THEN st' = "D" /\ InnerSet ELSE UNCHANGED <<st, ev, q>>     \* the callback runs inline
  /\ Stay(t, "auto.wait") /\ lastEv' = <<Ev("NextB", t, n, -1, SchedOf(n))>>
  /\ UNCHANGED <<src, top, bad, res, effSets, values>>
AutoWait(t, n) ==
  /\ top' = [top EXCEPT ![t] = ev] /\ Stay(t, "v1.sow_cas") /\ lastEv' = <<>>
  /\ UNCHANGED <<st, ev, cbk, src, q, bad, res, phase, effSets, values>>
\* after start() returned the consumer drains: a continuation that is already queued starts right away
SowCas(t, n) ==
  IF top[t] = SIG
  THEN /\ Stay(t, "auto.cont") /\ lastEv' = <<Ev("NextE", t, n, -1, 0)>>      \* scheduled and immediately dequeued
       /\ UNCHANGED <<st, ev, cbk, src, q, top, bad, res, phase, effSets, values>>
  ELSE IF ev = top[t]
  THEN /\ ev' = n /\ lastEv' = <<Ev("NextE", t, n, -1, 0)>>
       /\ IF OthersFin(t) THEN ip' = ip /\ pc' = [pc EXCEPT ![t] = "fin"] ELSE Stay(t, "auto.await")
       /\ UNCHANGED <<st, cbk, src, q, top, bad, res, phase, effSets, values>>
  ELSE /\ top' = [top EXCEPT ![t] = ev] /\ Stay(t, "v1.sow_cas") /\ lastEv' = <<>>
       /\ UNCHANGED <<st, ev, cbk, src, q, bad, res, phase, effSets, values>>
AutoAwait(t, n) ==
  /\ Queued(n) \/ OthersFin(t)
  /\ IF Queued(n)
     THEN /\ q' = [s \in Scheds |-> SelectSeq(q[s], LAMBDA x : x # n)] /\ Stay(t, "auto.cont")
     ELSE /\ q' = q /\ ip' = ip /\ pc' = [pc EXCEPT ![t] = "fin"]           \* give up: the next() stays pending
  /\ lastEv' = <<>>
  /\ UNCHANGED <<st, ev, cbk, src, top, bad, res, phase, effSets, values>>
\* the continuation: stopCallback.reset(); try_reset()
AutoCont(t, n) ==
  /\ cbk' = [cbk EXCEPT ![n] = "gone"]
  /\ IF st = "S"
     THEN /\ st' = "U" /\ ev' = (IF ev = SIG THEN 0 ELSE ev) /\ res' = [res EXCEPT ![n] = 1] /\ values' = values + 1
          /\ bad' = bad
     ELSE /\ res' = [res EXCEPT ![n] = 2] /\ UNCHANGED <<st, ev, values>>
          /\ bad' = IF st = "U" THEN "try_reset while unset" ELSE bad
  /\ Advance(t) /\ lastEv' = <<Ev("Done", t, n, res'[n], SchedOf(n))>>
  /\ UNCHANGED <<src, q, top, phase, effSets>>

Step(t) ==
  /\ ~fin
  /\ \/ /\ pc[t] = "op"
        /\ LET o == Op(t) IN
           \/ o[1] = "set" /\ SetOp(t)
           \/ o[1] = "setdone" /\ SetDoneOp(t)
           \/ o[1] = "stop" /\ StopOp(t, o[2])
           \/ o[1] = "next" /\ NextOp(t, o[2])
     \/ pc[t] = "auto.wait" /\ AutoWait(t, Op(t)[2])
     \/ pc[t] = "v1.sow_cas" /\ SowCas(t, Op(t)[2])
     \/ pc[t] = "auto.await" /\ AutoAwait(t, Op(t)[2])
     \/ pc[t] = "auto.cont" /\ AutoCont(t, Op(t)[2])
  /\ wasDone' = (wasDone \/ st' = "D")
  /\ UNCHANGED <<scn, fin>>

AllFin == \A t \in Threads : pc[t] = "fin"
\* main thread: Quiesce, then cancel the next() that is still pending (its operation must complete before it dies)
Final ==
  /\ AllFin /\ ~fin
  /\ LET n == ev IN
     IF n \in Nexts /\ ~src[n]
     THEN /\ st' = "D" /\ ev' = SIG /\ src' = [src EXCEPT ![n] = TRUE] /\ cbk' = [cbk EXCEPT ![n] = "gone"]
          /\ res' = [res EXCEPT ![n] = 2]
          /\ lastEv' = <<Ev("Quiesce", 0, 0, -1, 0), Ev("Stop", 0, n, -1, 0), Ev("Done", 0, n, 2, SchedOf(n))>>
     ELSE /\ UNCHANGED <<st, ev, src, cbk, res>> /\ lastEv' = <<Ev("Quiesce", 0, 0, -1, 0)>>
  /\ wasDone' = (wasDone \/ st' = "D")
  /\ fin' = TRUE /\ lastT' = 0 /\ lastPc' = "final"
  /\ UNCHANGED <<scn, q, pc, ip, top, bad, phase, effSets, values>>

Next == \/ \E t \in Threads : Step(t) /\ lastT' = t /\ lastPc' = pc[t]
        \/ Final
        \/ (fin /\ UNCHANGED vars /\ UNCHANGED ghosts)
Spec == Init /\ [][Next]_<<vars, ghosts>>
View == vars
FairSpec == /\ Spec
            /\ \A t \in Threads : WF_<<vars, ghosts>>(Step(t) /\ lastT' = t /\ lastPc' = pc[t])
            /\ WF_<<vars, ghosts>>(Final)

\* ------------------------------------------------------------------ properties
NoAssertion == bad = "ok"
\* each set() is handed to at most one next()
EachSetToAtMostOneNext == values <= effSets + (IF scn.init = 1 THEN 1 ELSE 0)
\* done is permanent
DonePermanent == wasDone => st = "D"
\* the inner event is signalled exactly when the state is not UNSET (outside the mutex-protected sections)
InnerConsistent == (ev = SIG) <=> (st # "U")
\* a next() is pending at quiescence only if the event is unset
NoStrandedNext == (AllFin /\ ~fin /\ \A s \in Scheds : q[s] = <<>>) => (ev \in Nexts => st = "U")
NothingQueuedAtEnd == AllFin => \A s \in Scheds : q[s] = <<>>
AllCompleteAtEnd == fin => \A n \in Nexts : phase[n] = "started" => res[n] # 0
Terminates == <>fin
=============================================================================
