------------------------- MODULE AutoResetEvent -------------------------
(***************************************************************************)
(* Implementation-shaped specification of unifex::async_auto_reset_event   *)
(* (include/unifex/async_auto_reset_event.hpp,                             *)
(* source/async_auto_reset_event.cpp).                                     *)
(*                                                                         *)
(* st = state_ (U unset / S set / D done) and mtx = mutex_ (0 free, t =    *)
(* held by thread t).  set(), set_done() and try_reset() are modelled as   *)
(* lock ; steps ; unlock, with the inner v1 manual-reset event as separate *)
(* state: ev (0 unset, SIG signalled, n = the operation of next() n is the *)
(* waiter).  The atomicity of state_ and event_ is therefore not assumed:  *)
(* it is the invariant InnerConsistentWhenFree, which holds because the    *)
(* inner event_.set()/reset() happen while the mutex is held.  The         *)
(* constant Variant = "notify_outside" is the seeded-bad design in which   *)
(* set()/set_done() call event_.set() after unlocking; TLC must refute it  *)
(* (AutoResetEventBad.cfg).                                                *)
(* next() = register a stop callback (calls set_done()), async_wait on the *)
(* inner event (start_or_wait CAS loop, outside the mutex), and when woken *)
(* - on the receiver's scheduler - destroy the stop callback (waits while  *)
(* it is executing on another thread) and try_reset(): S -> U + value,     *)
(* D -> done.                                                              *)
(* The stream has one consumer: a thread executes `next n` by starting     *)
(* next() and then draining its scheduler until that next() completed (or  *)
(* every other thread has finished: it then leaves the next() pending).    *)
(* Schedule points: "op"; the harness's cooperative mutex: "h.lock" (right *)
(* after acquiring), "h.mtx" (contended, spin), "h.unlock" (right after    *)
(* releasing); "ev_xchg" (entry of the inner set(), before its exchange;   *)
(* the library's site scope.ev_xchg), "v1.set_pop" (before resuming the    *)
(* waiter);                                                                *)
(* "auto.wait", "v1.sow_cas", "auto.await" (spin), "auto.cont",            *)
(* "auto.dereg_wait" (spin in the stop callback's destructor).             *)
(***************************************************************************)
EXTENDS Integers, Sequences, FiniteSets, TLC

CONSTANTS Threads, Nexts, Scheds, Scenarios, Variant
\* op: <<"set">> | <<"setdone">> | <<"stop", n>> | <<"next", n>>
SIG == 99

VARIABLES scn, st, ev, mtx,
          sec,        \* [Threads -> ""|"set"|"sd"|"stopsd"|"nextsd"|"reset"] the mutex section the thread is executing
          todo,       \* [Threads -> BOOLEAN] (bad variant) event_.set() still to be called after the unlock
          rv,         \* [Threads -> 0|1|2] try_reset()'s result (1 true -> value, 2 false -> done)
          cbk, cbExec, src, q, pc, ip, top, fin, bad,
          res,        \* [Nexts -> 0 | 1 value | 2 done] completion delivered
          phase,      \* [Nexts -> "no"|"started"]
          effSets,    \* number of set() calls that found the event not done
          values,     \* number of next() value completions
          wasDone,    \* st has been D
          doneReq,    \* a set_done() or a stop request has begun
          lastT, lastPc, lastEv
vars == <<scn, st, ev, mtx, sec, todo, rv, cbk, cbExec, src, q, pc, ip, top, fin, bad, res, phase, effSets, values,
          wasDone, doneReq>>
ghosts == <<lastT, lastPc, lastEv>>

Ev(e, t, w, r, c) == [e |-> e, t |-> t, w |-> w, r |-> r, c |-> c]
Prog(t) == scn.prog[t]
Op(t) == Prog(t)[ip[t]]
SchedOf(n) == scn.sched[n]
Queued(n) == \E s \in Scheds : \E i \in 1..Len(q[s]) : q[s][i] = n
OthersFin(t) == \A u \in Threads \ {t} : pc[u] = "fin"

Init ==
  /\ scn \in Scenarios
  /\ st = (IF scn.init = 1 THEN "S" ELSE "U") /\ ev = (IF scn.init = 1 THEN SIG ELSE 0)
  /\ mtx = 0 /\ sec = [t \in Threads |-> ""] /\ todo = [t \in Threads |-> FALSE] /\ rv = [t \in Threads |-> 0]
  /\ cbk = [n \in Nexts |-> "none"] /\ cbExec = [n \in Nexts |-> 0] /\ src = [n \in Nexts |-> FALSE]
  /\ q = [s \in Scheds |-> <<>>]
  /\ pc = [t \in Threads |-> IF Len(scn.prog[t]) = 0 THEN "fin" ELSE "op"]
  /\ ip = [t \in Threads |-> 1] /\ top = [t \in Threads |-> 0]
  /\ fin = FALSE /\ bad = "ok"
  /\ res = [n \in Nexts |-> 0] /\ phase = [n \in Nexts |-> "no"]
  /\ effSets = 0 /\ values = 0 /\ wasDone = FALSE /\ doneReq = FALSE
  /\ lastT = 0 /\ lastPc = "" /\ lastEv = <<>>

Advance(t) == /\ ip' = [ip EXCEPT ![t] = @ + 1]
              /\ pc' = [pc EXCEPT ![t] = IF ip[t] + 1 > Len(Prog(t)) THEN "fin" ELSE "op"]
Stay(t, where) == /\ ip' = ip /\ pc' = [pc EXCEPT ![t] = where]

\* ---- the mutex: std::lock_guard lock{mutex_}   (owns: mtx, sec, pc, ip)
TryLock(t, kind) ==
  /\ sec' = [sec EXCEPT ![t] = kind]
  /\ IF mtx = 0 THEN mtx' = t /\ Stay(t, "h.lock") ELSE mtx' = mtx /\ Stay(t, "h.mtx")
MtxSpin(t) ==
  /\ mtx = 0 /\ mtx' = t /\ Stay(t, "h.lock") /\ lastEv' = <<>>
  /\ UNCHANGED <<st, ev, sec, todo, rv, cbk, cbExec, src, q, top, bad, res, phase, effSets, values, doneReq>>

\* ---- what follows a finished section   (owns: pc, ip, lastEv, cbExec, res, sec)
After(t) ==
  /\ sec' = [sec EXCEPT ![t] = ""]
  /\ CASE sec[t] = "set" -> Advance(t) /\ lastEv' = <<Ev("SetE", t, 0, -1, 0)>> /\ UNCHANGED <<cbExec, res>>
       [] sec[t] = "sd" -> Advance(t) /\ lastEv' = <<Ev("SdE", t, 0, -1, 0)>> /\ UNCHANGED <<cbExec, res>>
       [] sec[t] = "stopsd" -> /\ Advance(t) /\ lastEv' = <<>> /\ res' = res
                               /\ cbExec' = [cbExec EXCEPT ![Op(t)[2]] = 0]           \* the stop callback returns
       [] sec[t] = "nextsd" -> Stay(t, "auto.wait") /\ lastEv' = <<>> /\ UNCHANGED <<cbExec, res>>
       [] sec[t] = "reset" -> LET n == Op(t)[2] IN
                              /\ Advance(t) /\ res' = [res EXCEPT ![n] = rv[t]] /\ cbExec' = cbExec
                              /\ lastEv' = <<Ev("Done", t, n, rv[t], SchedOf(n))>>

\* ---- API entries
SetOp(t) ==
  /\ TryLock(t, "set") /\ lastEv' = <<Ev("SetB", t, 0, -1, 0)>>
  /\ UNCHANGED <<st, ev, todo, rv, cbk, cbExec, src, q, top, bad, res, phase, effSets, values, doneReq>>
SetDoneOp(t) ==
  /\ TryLock(t, "sd") /\ lastEv' = <<Ev("SdB", t, 0, -1, 0)>> /\ doneReq' = TRUE
  /\ UNCHANGED <<st, ev, todo, rv, cbk, cbExec, src, q, top, bad, res, phase, effSets, values>>
\* request_stop() on next() n's stop source: the registered callback calls set_done() on this thread
StopOp(t, n) ==
  /\ src' = [src EXCEPT ![n] = TRUE] /\ doneReq' = TRUE
  /\ IF cbk[n] = "reg" /\ ~src[n]
     THEN cbExec' = [cbExec EXCEPT ![n] = t] /\ TryLock(t, "stopsd")
     ELSE Advance(t) /\ UNCHANGED <<cbExec, mtx, sec>>
  /\ lastEv' = <<Ev("Stop", t, n, -1, 0)>>
  /\ UNCHANGED <<st, ev, todo, rv, cbk, q, top, bad, res, phase, effSets, values>>
NextOp(t, n) ==
  /\ phase[n] = "no"
  /\ phase' = [phase EXCEPT ![n] = "started"]
  /\ cbk' = [cbk EXCEPT ![n] = "reg"]
  /\ IF src[n] THEN TryLock(t, "nextsd")                            \* the callback runs inline: set_done()
     ELSE Stay(t, "auto.wait") /\ UNCHANGED <<mtx, sec>>
  /\ lastEv' = <<Ev("NextB", t, n, -1, SchedOf(n))>>
  /\ UNCHANGED <<st, ev, todo, rv, cbExec, src, q, top, bad, res, effSets, values, doneReq>>

\* ---- inside the mutex ("h.lock" = just acquired)
\* event_.set() of the inner event: exchange(SIG); a waiter found there is resumed after the "v1.set_pop" point
Locked(t) ==
  LET k == sec[t]
      noop == k = "set" /\ st = "D"
      notify == ~noop /\ k # "reset"
  IN
  /\ st' = IF k = "reset" THEN (IF st = "S" THEN "U" ELSE st) ELSE IF noop THEN st ELSE IF k = "set" THEN "S" ELSE "D"
  /\ effSets' = IF k = "set" /\ ~noop THEN effSets + 1 ELSE effSets
  /\ rv' = IF k = "reset" THEN [rv EXCEPT ![t] = IF st = "S" THEN 1 ELSE 2] ELSE rv
  /\ values' = IF k = "reset" /\ st = "S" THEN values + 1 ELSE values
  /\ bad' = IF k = "reset" /\ st = "U" THEN "try_reset while unset" ELSE bad
  /\ ev' = IF k = "reset" /\ st = "S" /\ ev = SIG THEN 0 ELSE ev              \* event_.reset()
  /\ todo' = IF notify /\ Variant # "ok" THEN [todo EXCEPT ![t] = TRUE] ELSE todo
  /\ IF notify /\ Variant = "ok"
     THEN mtx' = mtx /\ Stay(t, "ev_xchg")          \* entering event_.set() with the mutex held
     ELSE mtx' = 0 /\ Stay(t, "h.unlock")
  /\ lastEv' = <<>>
  /\ UNCHANGED <<sec, cbk, cbExec, src, q, top, res, phase, doneReq>>

\* inner event_.set(): exchange(SIG)
Xchg(t) ==
  /\ ev' = SIG
  /\ IF ev \in Nexts
     THEN top' = [top EXCEPT ![t] = ev] /\ mtx' = mtx /\ Stay(t, "v1.set_pop") /\ lastEv' = <<>> /\ UNCHANGED <<sec, cbExec, res>>
     ELSE /\ top' = top
          /\ IF mtx = t THEN mtx' = 0 /\ Stay(t, "h.unlock") /\ lastEv' = <<>> /\ UNCHANGED <<sec, cbExec, res>>
             ELSE mtx' = mtx /\ After(t)
  /\ UNCHANGED <<st, todo, rv, cbk, src, q, bad, phase, effSets, values, doneReq>>

\* resume the popped waiter: schedule() on its receiver's scheduler
SetPop(t) ==
  /\ q' = [q EXCEPT ![SchedOf(top[t])] = Append(@, top[t])]
  /\ IF mtx = t
     THEN mtx' = 0 /\ Stay(t, "h.unlock") /\ lastEv' = <<>> /\ UNCHANGED <<sec, cbExec, res>>
     ELSE mtx' = mtx /\ After(t)
  /\ UNCHANGED <<st, ev, todo, rv, cbk, src, top, bad, phase, effSets, values, doneReq>>

\* just after the unlock
Unlocked(t) ==
  /\ IF todo[t]
     THEN /\ todo' = [todo EXCEPT ![t] = FALSE] /\ Stay(t, "ev_xchg") /\ lastEv' = <<>>   \* (bad variant) the late event_.set()
          /\ UNCHANGED <<sec, cbExec, res>>
     ELSE todo' = todo /\ After(t)
  /\ UNCHANGED <<st, ev, mtx, rv, cbk, src, q, top, bad, phase, effSets, values, doneReq>>

\* ---- next(): async_wait on the inner event
AutoWait(t, n) ==
  /\ top' = [top EXCEPT ![t] = ev] /\ Stay(t, "v1.sow_cas") /\ lastEv' = <<>>
  /\ UNCHANGED <<st, ev, mtx, sec, todo, rv, cbk, cbExec, src, q, bad, res, phase, effSets, values, doneReq>>
\* after start() returned the consumer drains: a continuation that is already queued starts right away
SowCas(t, n) ==
  /\ IF top[t] = SIG
     THEN /\ Stay(t, "auto.cont") /\ lastEv' = <<Ev("NextE", t, n, -1, 0)>>      \* scheduled and immediately dequeued
          /\ UNCHANGED <<ev, top>>
     ELSE IF ev = top[t]
     THEN /\ ev' = n /\ lastEv' = <<Ev("NextE", t, n, -1, 0)>> /\ top' = top
          /\ IF OthersFin(t) THEN ip' = ip /\ pc' = [pc EXCEPT ![t] = "fin"] ELSE Stay(t, "auto.await")
     ELSE /\ top' = [top EXCEPT ![t] = ev] /\ Stay(t, "v1.sow_cas") /\ lastEv' = <<>> /\ ev' = ev
  /\ UNCHANGED <<st, mtx, sec, todo, rv, cbk, cbExec, src, q, bad, res, phase, effSets, values, doneReq>>
AutoAwait(t, n) ==
  /\ Queued(n) \/ OthersFin(t)
  /\ IF Queued(n)
     THEN /\ q' = [s \in Scheds |-> SelectSeq(q[s], LAMBDA x : x # n)] /\ Stay(t, "auto.cont")
     ELSE /\ q' = q /\ ip' = ip /\ pc' = [pc EXCEPT ![t] = "fin"]           \* give up: the next() stays pending
  /\ lastEv' = <<>>
  /\ UNCHANGED <<st, ev, mtx, sec, todo, rv, cbk, cbExec, src, top, bad, res, phase, effSets, values, doneReq>>
\* the continuation: stopCallback.reset() - waits while the callback is executing on another thread - ; try_reset()
AutoCont(t, n) ==
  /\ IF cbExec[n] \notin {0, t}
     THEN Stay(t, "auto.dereg_wait") /\ UNCHANGED <<cbk, mtx, sec>>
     ELSE cbk' = [cbk EXCEPT ![n] = "gone"] /\ TryLock(t, "reset")
  /\ lastEv' = <<>>
  /\ UNCHANGED <<st, ev, todo, rv, cbExec, src, q, top, bad, res, phase, effSets, values, doneReq>>
DeregWait(t, n) ==
  /\ cbExec[n] = 0
  /\ cbk' = [cbk EXCEPT ![n] = "gone"] /\ TryLock(t, "reset") /\ lastEv' = <<>>
  /\ UNCHANGED <<st, ev, todo, rv, cbExec, src, q, top, bad, res, phase, effSets, values, doneReq>>

Step(t) ==
  /\ ~fin
  /\ \/ /\ pc[t] = "op"
        /\ LET o == Op(t) IN
           \/ o[1] = "set" /\ SetOp(t)
           \/ o[1] = "setdone" /\ SetDoneOp(t)
           \/ o[1] = "stop" /\ StopOp(t, o[2])
           \/ o[1] = "next" /\ NextOp(t, o[2])
     \/ pc[t] = "h.mtx" /\ MtxSpin(t)
     \/ pc[t] = "h.lock" /\ Locked(t)
     \/ pc[t] = "ev_xchg" /\ Xchg(t)
     \/ pc[t] = "v1.set_pop" /\ SetPop(t)
     \/ pc[t] = "h.unlock" /\ Unlocked(t)
     \/ pc[t] = "auto.wait" /\ AutoWait(t, Op(t)[2])
     \/ pc[t] = "v1.sow_cas" /\ SowCas(t, Op(t)[2])
     \/ pc[t] = "auto.await" /\ AutoAwait(t, Op(t)[2])
     \/ pc[t] = "auto.cont" /\ AutoCont(t, Op(t)[2])
     \/ pc[t] = "auto.dereg_wait" /\ DeregWait(t, Op(t)[2])
  /\ wasDone' = (wasDone \/ st' = "D")
  /\ UNCHANGED <<scn, fin>>

AllFin == \A t \in Threads : pc[t] = "fin"
\* main thread: Quiesce, then cancel the next() that is still pending (its operation must complete before it dies)
Final ==
  /\ AllFin /\ ~fin
  /\ LET n == ev IN
     IF n \in Nexts /\ ~src[n]
     THEN /\ st' = "D" /\ ev' = SIG /\ src' = [src EXCEPT ![n] = TRUE] /\ cbk' = [cbk EXCEPT ![n] = "gone"]
          /\ res' = [res EXCEPT ![n] = 2] /\ doneReq' = TRUE
          /\ lastEv' = <<Ev("Quiesce", 0, 0, -1, 0), Ev("Stop", 0, n, -1, 0), Ev("Done", 0, n, 2, SchedOf(n))>>
     ELSE /\ UNCHANGED <<st, ev, src, cbk, res, doneReq>> /\ lastEv' = <<Ev("Quiesce", 0, 0, -1, 0)>>
  /\ wasDone' = (wasDone \/ st' = "D")
  /\ fin' = TRUE /\ lastT' = 0 /\ lastPc' = "final"
  /\ UNCHANGED <<scn, mtx, sec, todo, rv, cbExec, q, pc, ip, top, bad, phase, effSets, values>>

Next == \/ \E t \in Threads : Step(t) /\ lastT' = t /\ lastPc' = pc[t]
        \/ Final
        \/ (fin /\ UNCHANGED vars /\ UNCHANGED ghosts)
Spec == Init /\ [][Next]_<<vars, ghosts>>
View == vars
FairSpec == /\ Spec
            /\ \A t \in Threads : WF_<<vars, ghosts>>(Step(t) /\ lastT' = t /\ lastPc' = pc[t])
            /\ WF_<<vars, ghosts>>(Final)

\* ------------------------------------------------------------------ properties
NoAssertion == bad = "ok"
\* each set() is handed to at most one next()
EachSetToAtMostOneNext == values <= effSets + (IF scn.init = 1 THEN 1 ELSE 0)
\* done is permanent
DonePermanent == wasDone => st = "D"
\* state_ and the inner event change atomically with respect to the mutex: whenever the mutex is free the inner event
\* is signalled exactly when state_ is not UNSET
InnerConsistentWhenFree == (mtx = 0) => ((ev = SIG) <=> (st # "U"))
\* next() completes with done only after set_done() or a stop request
DoneOnlyAfterDoneRequest == \A n \in Nexts : res[n] = 2 => doneReq
\* a next() is pending at quiescence only if the event is unset
NoStrandedNext == (AllFin /\ ~fin /\ \A s \in Scheds : q[s] = <<>>) => (ev \in Nexts => st = "U")
NothingQueuedAtEnd == AllFin => \A s \in Scheds : q[s] = <<>>
MutexFreeAtEnd == AllFin => mtx = 0
AllCompleteAtEnd == fin => \A n \in Nexts : phase[n] = "started" => res[n] # 0
Terminates == <>fin
=============================================================================
