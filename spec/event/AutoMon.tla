------------------------------ MODULE AutoMon ------------------------------
(***************************************************************************)
(* The C16 monitor for async_auto_reset_event: the most permissive         *)
(* behaviour over API-level events of ONE event object (single consumer)   *)
(* that still satisfies the property statement.  Abstract object:          *)
(* st = U unset | S set | D done.  set() / set_done() take effect          *)
(* atomically at a guessed moment between their Begin and End event; a     *)
(* requested stop of next() n takes effect (as set_done) at a guessed      *)
(* moment after Stop(n) while n is in flight; next() n consumes at a       *)
(* guessed moment between NextB(n) and Done(n), possible only when the     *)
(* event is not unset: S -> U and the completion is value, D -> done.      *)
(*   - each set() is handed to at most one next() (a value needs S);       *)
(*   - once done (set_done or cancellation) the event stays done: every    *)
(*     later consumption yields done;                                      *)
(*   - the completion is delivered on the consumer's scheduler, once;      *)
(*   - at Quiesce (all threads finished, schedulers drained) and at the    *)
(*     end a next() may be pending only if the event is unset; a next()    *)
(*     whose stop was requested has completed by the end.                  *)
(* Events: Reset(init) | SetB/SetE(t) | SdB/SdE(t) | NextB(t,w=n,          *)
(* c=scheduler) / NextE | Stop(w) | Done(w, r = 1 value | 2 done,          *)
(* c = context) | Quiesce.                                                 *)
(***************************************************************************)
EXTENDS Integers, Sequences, FiniteSets, TLC, TraceIO
Ns == 1..4
Thr == 0..3
None == [k |-> "none", lin |-> FALSE]
VARIABLES l, call, st, res, comp, begun, stopReq, stopLin, sch
vars == <<l, call, st, res, comp, begun, stopReq, stopLin, sch>>
Z == [n \in Ns |-> 0]
Init == /\ l = 1 /\ call = [t \in Thr |-> None] /\ st = "U" /\ res = Z /\ comp = {} /\ begun = {}
        /\ stopReq = {} /\ stopLin = {} /\ sch = Z /\ TrackInit
E == Log[l]
Is(e) == l <= Len(Log) /\ E.e = e /\ l' = l + 1
PendingOk == \A n \in begun \ comp : res[n] = 0 /\ st = "U"
Calm == /\ \A t \in Thr : call[t].k = "none" /\ PendingOk
Closed == Calm /\ (stopReq \cap begun) \subseteq comp
Reset == /\ Is("Reset") /\ Closed
         /\ call' = [t \in Thr |-> None] /\ st' = (IF E.init = 1 THEN "S" ELSE "U") /\ res' = Z /\ comp' = {} /\ begun' = {}
         /\ stopReq' = {} /\ stopLin' = {} /\ sch' = Z
Quiesce == Is("Quiesce") /\ Calm /\ UNCHANGED <<call, st, res, comp, begun, stopReq, stopLin, sch>>
Begin(e, k) == /\ Is(e) /\ call[E.t].k = "none" /\ call' = [call EXCEPT ![E.t] = [k |-> k, lin |-> FALSE]]
               /\ UNCHANGED <<st, res, comp, begun, stopReq, stopLin, sch>>
End(e, k) == /\ Is(e) /\ call[E.t].k = k /\ call[E.t].lin /\ call' = [call EXCEPT ![E.t] = None]
             /\ UNCHANGED <<st, res, comp, begun, stopReq, stopLin, sch>>
NextB == /\ Is("NextB") /\ E.w \in Ns /\ E.w \notin begun
         /\ begun' = begun \cup {E.w} /\ sch' = [sch EXCEPT ![E.w] = E.c]
         /\ UNCHANGED <<call, st, res, comp, stopReq, stopLin>>
NextE == Is("NextE") /\ E.w \in begun /\ UNCHANGED <<call, st, res, comp, begun, stopReq, stopLin, sch>>
Stop == Is("Stop") /\ stopReq' = stopReq \cup {E.w} /\ UNCHANGED <<call, st, res, comp, begun, stopLin, sch>>
\* guesses (they commute with Begin/Stop/NextB/NextE events, so they are made only right before an End, Done or Quiesce)
LinPoint == l <= Len(Log) /\ E.e \in {"SetE", "SdE", "Done", "Quiesce"}
Lin(t) == /\ LinPoint /\ call[t].k # "none" /\ ~call[t].lin
          /\ call' = [call EXCEPT ![t].lin = TRUE]
          /\ st' = IF call[t].k = "sd" THEN "D" ELSE IF st = "D" THEN "D" ELSE "S"
          /\ UNCHANGED <<l, res, comp, begun, stopReq, stopLin, sch>>
LinStop(n) == /\ LinPoint /\ n \in (stopReq \cap begun) \ (comp \cup stopLin)
              /\ st' = "D" /\ stopLin' = stopLin \cup {n}
              /\ UNCHANGED <<l, call, res, comp, begun, stopReq, sch>>
LinNext(n) == /\ LinPoint /\ n \in begun \ comp /\ res[n] = 0 /\ st # "U"
              /\ res' = [res EXCEPT ![n] = IF st = "S" THEN 1 ELSE 2]
              /\ st' = IF st = "S" THEN "U" ELSE "D"
              /\ UNCHANGED <<l, call, comp, begun, stopReq, stopLin, sch>>
Done == /\ Is("Done") /\ E.w \in begun \ comp
        /\ res[E.w] = E.r /\ E.r \in {1, 2} /\ E.c = sch[E.w]
        /\ comp' = comp \cup {E.w}
        /\ UNCHANGED <<call, st, res, begun, stopReq, stopLin, sch>>
Next == \/ Reset \/ Quiesce \/ Begin("SetB", "set") \/ Begin("SdB", "sd") \/ End("SetE", "set") \/ End("SdE", "sd")
        \/ NextB \/ NextE \/ Stop \/ Done
        \/ \E t \in Thr : Lin(t)
        \/ \E n \in Ns : LinStop(n) \/ LinNext(n)
Spec == Init /\ [][Next]_vars
Track == TrackAt(l, Closed)
Report == ReportTrace
=============================================================================
