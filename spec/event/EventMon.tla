----------------------------- MODULE EventMon -----------------------------
(***************************************************************************)
(* The C16 monitor for manual-reset events (v1 and v2): the most           *)
(* permissive behaviour over API-level events of ONE event object that     *)
(* still satisfies the property statement.  Evaluated by TLC on an ndjson  *)
(* log recorded from the real code (executions separated by Reset).        *)
(*                                                                         *)
(* The statement is read in interval-order form: every call (set, reset,   *)
(* ready, start of an async_wait) takes effect atomically at some moment   *)
(* between its Begin and End event; the monitor guesses that moment (Lin). *)
(* Abstract object: isSet, reg = waits registered while unset, owed =      *)
(* waits that were released (registered when a set() took effect, or       *)
(* started while set).                                                     *)
(*   - a wait completes with value only if it is owed (iff set), at most   *)
(*     once, on its own scheduler (c = the scheduler given at WaitB);      *)
(*   - set() releases every wait registered before it (reg -> owed);       *)
(*   - a wait started while set is owed without another set();             *)
(*   - reset() only changes isSet: released waits stay owed;               *)
(*   - done only for a wait whose stop was requested (cancellable v2);     *)
(*   - at the end of an execution (all threads finished, every scheduler   *)
(*     drained) nothing is owed, every stopped wait has completed, and no  *)
(*     call is open; hence: event set => no pending wait.  The same holds  *)
(*     at the Quiesce event, which the harness logs before it cancels the  *)
(*     waits that are still registered (v2 only).                          *)
(* Events: Reset(init) | SetB/SetE(t) | RstB/RstE(t) | RdyB/RdyE(t,r) |    *)
(* WaitB(t,w,c=scheduler) / WaitE(t,w) | Stop(w) | Done(w, r=1 value |     *)
(* 2 done | 3 error, c = context it was delivered in).                     *)
(***************************************************************************)
EXTENDS Integers, Sequences, FiniteSets, TLC, TraceIO
Ws == 1..4
Thr == 0..3
None == [k |-> "none", w |-> 0, lin |-> FALSE, rv |-> 0]
VARIABLES l, call, isSet, reg, owed, comp, begun, stopReq, sch
vars == <<l, call, isSet, reg, owed, comp, begun, stopReq, sch>>
Fresh(init) == /\ call' = [t \in Thr |-> None] /\ isSet' = init /\ reg' = {} /\ owed' = {} /\ comp' = {}
               /\ begun' = {} /\ stopReq' = {} /\ sch' = [w \in Ws |-> 0]
Init == /\ l = 1 /\ call = [t \in Thr |-> None] /\ isSet = FALSE /\ reg = {} /\ owed = {} /\ comp = {}
        /\ begun = {} /\ stopReq = {} /\ sch = [w \in Ws |-> 0] /\ TrackInit
E == Log[l]
Is(e) == l <= Len(Log) /\ E.e = e /\ l' = l + 1
Closed == /\ \A t \in Thr : call[t].k = "none"
          /\ owed = {}
          /\ (stopReq \cap begun) \subseteq comp
Reset == Is("Reset") /\ Closed /\ Fresh(E.init = 1)
Begin(e, kind) ==
  /\ Is(e) /\ call[E.t].k = "none"
  /\ call' = [call EXCEPT ![E.t] = [k |-> kind, w |-> E.w, lin |-> FALSE, rv |-> 0]]
SetB == Begin("SetB", "set") /\ UNCHANGED <<isSet, reg, owed, comp, begun, stopReq, sch>>
RstB == Begin("RstB", "rst") /\ UNCHANGED <<isSet, reg, owed, comp, begun, stopReq, sch>>
RdyB == Begin("RdyB", "rdy") /\ UNCHANGED <<isSet, reg, owed, comp, begun, stopReq, sch>>
WaitB == /\ Begin("WaitB", "wait") /\ E.w \in Ws /\ E.w \notin begun
         /\ begun' = begun \cup {E.w} /\ sch' = [sch EXCEPT ![E.w] = E.c]
         /\ UNCHANGED <<isSet, reg, owed, comp, stopReq>>
\* the guessed moment at which an open call takes effect.  A guess commutes with Begin/Stop events (they neither read
\* nor write the abstract object), so without loss it is made only right before an End or Done event.
LinPoint == l <= Len(Log) /\ E.e \in {"SetE", "RstE", "RdyE", "WaitE", "Done"}
Lin(t) ==
  /\ LinPoint /\ call[t].k # "none" /\ ~call[t].lin
  /\ LET c == call[t] IN
     /\ call' = [call EXCEPT ![t] = [c EXCEPT !.lin = TRUE, !.rv = IF isSet THEN 1 ELSE 0]]
     /\ CASE c.k = "set" -> isSet' = TRUE /\ owed' = owed \cup reg /\ reg' = {}
          [] c.k = "rst" -> isSet' = FALSE /\ UNCHANGED <<owed, reg>>
          [] c.k = "rdy" -> UNCHANGED <<isSet, owed, reg>>
          [] c.k = "wait" -> /\ UNCHANGED isSet
                             /\ IF c.w \in comp THEN UNCHANGED <<owed, reg>>      \* (stopped before it registered)
                                ELSE IF isSet THEN owed' = owed \cup {c.w} /\ reg' = reg
                                ELSE reg' = reg \cup {c.w} /\ owed' = owed
  /\ UNCHANGED <<l, comp, begun, stopReq, sch>>
End(e, kind) ==
  /\ Is(e) /\ call[E.t].k = kind /\ call[E.t].lin
  /\ (kind = "rdy" => E.r = call[E.t].rv)
  /\ (kind = "wait" => E.w = call[E.t].w)
  /\ call' = [call EXCEPT ![E.t] = None]
  /\ UNCHANGED <<isSet, reg, owed, comp, begun, stopReq, sch>>
\* all threads finished and every scheduler drained (logged before the harness cancels what is still registered)
Quiesce == Is("Quiesce") /\ Closed /\ UNCHANGED <<call, isSet, reg, owed, comp, begun, stopReq, sch>>
Stop == Is("Stop") /\ stopReq' = stopReq \cup {E.w} /\ UNCHANGED <<call, isSet, reg, owed, comp, begun, sch>>
Done == /\ Is("Done") /\ E.w \in begun /\ E.w \notin comp
        /\ \/ E.r = 1 /\ E.w \in owed /\ E.c = sch[E.w]
           \/ E.r = 2 /\ E.w \in stopReq
        /\ comp' = comp \cup {E.w} /\ owed' = owed \ {E.w} /\ reg' = reg \ {E.w}
        /\ UNCHANGED <<call, isSet, begun, stopReq, sch>>
Next == \/ Reset \/ Quiesce \/ SetB \/ RstB \/ RdyB \/ WaitB \/ Stop \/ Done
        \/ End("SetE", "set") \/ End("RstE", "rst") \/ End("RdyE", "rdy") \/ End("WaitE", "wait")
        \/ \E t \in Thr : Lin(t)
Spec == Init /\ [][Next]_vars
Track == TrackAt(l, Closed)
Report == ReportTrace
=============================================================================
