SPECIFICATION Spec
CONSTANTS Threads <- T  Waiters <- W  Scheds <- S  Scenarios <- Scn
INVARIANTS ResumedAtMostOnce NotBothQueuedAndLinked CompletesOnlyIfSet NoLostWaiter StackAcyclic EveryEarlierWaitResumedOnce NoStrandedWaiter PendingStillRegistered
VIEW View
ACTION_CONSTRAINT EdgeLog
CHECK_DEADLOCK TRUE
