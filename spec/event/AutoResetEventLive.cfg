SPECIFICATION FairSpec
CONSTANTS Threads <- T  Nexts <- N  Scheds <- S  Scenarios <- Scn  Variant = "ok"
PROPERTY Terminates
CHECK_DEADLOCK TRUE
