SPECIFICATION FairSpec
CONSTANTS Threads <- T  Nexts <- N  Scheds <- S  Scenarios <- Scn
PROPERTY Terminates
CHECK_DEADLOCK TRUE
