SPECIFICATION Spec
CONSTANTS Threads <- T  Nexts <- N  Scheds <- S  Scenarios <- Scn  Variant = "notify_outside"
INVARIANTS InnerConsistentWhenFree
VIEW View
CHECK_DEADLOCK FALSE
