---------------------------- MODULE EventV1 ----------------------------
(***************************************************************************)
(* Implementation-shaped specification of unifex::v1::async_manual_reset_  *)
(* event (include/unifex/v1/async_manual_reset_event.hpp,                  *)
(* source/async_manual_reset_event_v1.cpp) at CAS granularity.             *)
(*                                                                         *)
(* state_ is a Treiber stack word: 0 = nullptr (unset, no waiters),        *)
(* SIG = `this` (signalled), w \in Waiters = pointer to waiter w's         *)
(* operation (top of the waiter stack, linked through next_).              *)
(*   set()           exchange(SIG); if the old value was a stack, pop each *)
(*                   node (read next_ first) and set_value() it            *)
(*   start_or_wait() load; loop { top == SIG -> set_value(); return }      *)
(*                                { next_ = top; CAS(top -> op) }          *)
(*   reset()         CAS(SIG -> nullptr);   ready()  load == SIG           *)
(* set_value() starts schedule() on the receiver's scheduler: the          *)
(* completion is a task appended to that scheduler's queue (q[s]) and is   *)
(* delivered when some thread drains that scheduler.                       *)
(*                                                                         *)
(* One action per stretch between two schedule points of the real code:    *)
(* "op" (harness, before every API call), "v1.sow_cas" (top of the CAS     *)
(* loop body), "v1.set_pop" (top of the pop loop body).                    *)
(***************************************************************************)
EXTENDS Integers, Sequences, FiniteSets, TLC

CONSTANTS Threads, Waiters, Scheds, Scenarios
\* scenario: [id, init \in {0,1}, prog |-> <<Seq(op)>> per thread, sched |-> scheduler of each waiter]
\* op: <<"wait", w>> | <<"set">> | <<"reset">> | <<"ready">> | <<"drain", s>>  (s = 0: every scheduler)

SIG == 99

VARIABLES scn,
          st,        \* state_
          nxt,       \* [Waiters -> next_]
          pc, ip,    \* per thread: schedule point / index of the current op
          top,       \* per thread: local `top` (start_or_wait) or `op` (set)
          q,         \* [Scheds -> Seq(Waiters)]  completions scheduled, not yet delivered
          fin,       \* the main thread has drained everything after all threads finished
          \* history
          done,      \* [Waiters -> Nat] set_value deliveries to the receiver
          phase,     \* [Waiters -> "no"|"starting"|"started"]
          setAfter,  \* [Waiters -> BOOLEAN] a set() began after start() of w had returned
          sigSeen,   \* [Waiters -> BOOLEAN] state_ was SIG at some moment since start() of w began
          lastT, lastPc, lastEv   \* export only (hidden by VIEW)
vars == <<scn, st, nxt, pc, ip, top, q, fin, done, phase, setAfter, sigSeen>>
ghosts == <<lastT, lastPc, lastEv>>

Ev(e, t, w, r, c) == [e |-> e, t |-> t, w |-> w, r |-> r, c |-> c]
Prog(t) == scn.prog[t]
Op(t) == Prog(t)[ip[t]]
SchedOf(w) == scn.sched[w]
Enq(qq, w) == [qq EXCEPT ![SchedOf(w)] = Append(@, w)]
Queued(w) == \E s \in Scheds : \E i \in 1..Len(q[s]) : q[s][i] = w
RECURSIVE Chain(_)
Chain(h) == IF h \in Waiters THEN {h} \cup Chain(nxt[h]) ELSE {}
RECURSIVE ChainLen(_, _)
ChainLen(h, k) == IF h \in Waiters /\ k < 10 THEN ChainLen(nxt[h], k + 1) ELSE k

Init ==
  /\ scn \in Scenarios
  /\ st = IF scn.init = 1 THEN SIG ELSE 0
  /\ nxt = [w \in Waiters |-> 0]
  /\ pc = [t \in Threads |-> IF Len(scn.prog[t]) = 0 THEN "fin" ELSE "op"]
  /\ ip = [t \in Threads |-> 1]
  /\ top = [t \in Threads |-> 0]
  /\ q = [s \in Scheds |-> <<>>]
  /\ fin = FALSE
  /\ done = [w \in Waiters |-> 0]
  /\ phase = [w \in Waiters |-> "no"]
  /\ setAfter = [w \in Waiters |-> FALSE]
  /\ sigSeen = [w \in Waiters |-> FALSE]
  /\ lastT = 0 /\ lastPc = "" /\ lastEv = <<>>

Advance(t) == /\ ip' = [ip EXCEPT ![t] = @ + 1]
              /\ pc' = [pc EXCEPT ![t] = IF ip[t] + 1 > Len(Prog(t)) THEN "fin" ELSE "op"]
Stay(t, where) == /\ ip' = ip /\ pc' = [pc EXCEPT ![t] = where]

\* the tasks a drain of scheduler s (0 = all, in scheduler order) delivers, as <<w, s>> pairs
RECURSIVE Tasks(_, _)
Tasks(ss, qq) == IF ss = <<>> THEN <<>>
                 ELSE [i \in 1..Len(qq[Head(ss)]) |-> <<qq[Head(ss)][i], Head(ss)>>] \o Tasks(Tail(ss), qq)
SchedSeq == [i \in 1..Cardinality(Scheds) |-> i]
DrainList(s) == IF s = 0 THEN Tasks(SchedSeq, q) ELSE Tasks(<<s>>, q)
Count(dl, w) == Cardinality({i \in 1..Len(dl) : dl[i][1] = w})
DoneEvs(t, dl) == [i \in 1..Len(dl) |-> Ev("Done", t, dl[i][1], 1, dl[i][2])]

SetOp(t) ==
  LET old == st IN
  /\ st' = SIG
  /\ setAfter' = [w \in Waiters |-> setAfter[w] \/ phase[w] = "started"]
  /\ IF old \in Waiters
     THEN /\ top' = [top EXCEPT ![t] = old] /\ Stay(t, "v1.set_pop")
          /\ lastEv' = <<Ev("SetB", t, 0, -1, 0)>>
     ELSE /\ top' = top /\ Advance(t)
          /\ lastEv' = <<Ev("SetB", t, 0, -1, 0), Ev("SetE", t, 0, -1, 0)>>
  /\ UNCHANGED <<nxt, q, done, phase>>

SetPop(t) ==
  LET cur == top[t] IN
  /\ top' = [top EXCEPT ![t] = nxt[cur]]
  /\ q' = Enq(q, cur)
  /\ IF nxt[cur] \in Waiters
     THEN Stay(t, "v1.set_pop") /\ lastEv' = <<>>
     ELSE Advance(t) /\ lastEv' = <<Ev("SetE", t, 0, -1, 0)>>
  /\ UNCHANGED <<st, nxt, done, phase, setAfter>>

ResetOp(t) ==
  /\ st' = IF st = SIG THEN 0 ELSE st
  /\ Advance(t)
  /\ lastEv' = <<Ev("RstB", t, 0, -1, 0), Ev("RstE", t, 0, -1, 0)>>
  /\ UNCHANGED <<nxt, top, q, done, phase, setAfter>>

ReadyOp(t) ==
  /\ Advance(t)
  /\ lastEv' = <<Ev("RdyB", t, 0, -1, 0), Ev("RdyE", t, 0, IF st = SIG THEN 1 ELSE 0, 0)>>
  /\ UNCHANGED <<st, nxt, top, q, done, phase, setAfter>>

WaitOp(t, w) ==
  /\ phase[w] = "no"
  /\ top' = [top EXCEPT ![t] = st]
  /\ phase' = [phase EXCEPT ![w] = "starting"]
  /\ Stay(t, "v1.sow_cas")
  /\ lastEv' = <<Ev("WaitB", t, w, -1, SchedOf(w))>>
  /\ UNCHANGED <<st, nxt, q, done, setAfter>>

SowCas(t, w) ==
  IF top[t] = SIG
  THEN /\ q' = Enq(q, w) /\ phase' = [phase EXCEPT ![w] = "started"] /\ Advance(t)
       /\ lastEv' = <<Ev("WaitE", t, w, -1, 0)>>
       /\ UNCHANGED <<st, nxt, top, done, setAfter>>
  ELSE /\ nxt' = [nxt EXCEPT ![w] = top[t]]
       /\ IF st = top[t]
          THEN /\ st' = w /\ phase' = [phase EXCEPT ![w] = "started"] /\ Advance(t)
               /\ lastEv' = <<Ev("WaitE", t, w, -1, 0)>> /\ top' = top
          ELSE /\ st' = st /\ top' = [top EXCEPT ![t] = st] /\ Stay(t, "v1.sow_cas")
               /\ lastEv' = <<>> /\ phase' = phase
       /\ UNCHANGED <<q, done, setAfter>>

DrainOp(t, s) ==
  LET dl == DrainList(s) IN
  /\ q' = [x \in Scheds |-> IF s = 0 \/ x = s THEN <<>> ELSE q[x]]
  /\ done' = [w \in Waiters |-> done[w] + Count(dl, w)]
  /\ Advance(t)
  /\ lastEv' = DoneEvs(t, dl)
  /\ UNCHANGED <<st, nxt, top, phase, setAfter>>

Step(t) ==
  /\ ~fin
  /\ \/ /\ pc[t] = "op"
        /\ LET o == Op(t) IN
           \/ o[1] = "set" /\ SetOp(t)
           \/ o[1] = "reset" /\ ResetOp(t)
           \/ o[1] = "ready" /\ ReadyOp(t)
           \/ o[1] = "wait" /\ WaitOp(t, o[2])
           \/ o[1] = "drain" /\ DrainOp(t, o[2])
     \/ pc[t] = "v1.set_pop" /\ SetPop(t)
     \/ pc[t] = "v1.sow_cas" /\ SowCas(t, Op(t)[2])
  /\ sigSeen' = [w \in Waiters |-> sigSeen[w] \/ (phase'[w] # "no" /\ (st' = SIG \/ st = SIG))]
  /\ UNCHANGED <<scn, fin>>

AllFin == \A t \in Threads : pc[t] = "fin"
\* the main thread: drain every scheduler, sample ready()
Final ==
  /\ AllFin /\ ~fin
  /\ LET dl == DrainList(0) IN
     /\ q' = [x \in Scheds |-> <<>>]
     /\ done' = [w \in Waiters |-> done[w] + Count(dl, w)]
     /\ lastEv' = DoneEvs(0, dl) \o <<Ev("RdyB", 0, 0, -1, 0), Ev("RdyE", 0, 0, IF st = SIG THEN 1 ELSE 0, 0),
                                          Ev("Quiesce", 0, 0, -1, 0)>>
  /\ fin' = TRUE /\ lastT' = 0 /\ lastPc' = "final"
  /\ UNCHANGED <<scn, st, nxt, pc, ip, top, phase, setAfter, sigSeen>>

Next == \/ \E t \in Threads : Step(t) /\ lastT' = t /\ lastPc' = pc[t]
        \/ Final
        \/ (fin /\ UNCHANGED vars /\ UNCHANGED ghosts)
Spec == Init /\ [][Next]_<<vars, ghosts>>
View == vars
FairSpec == /\ Spec
            /\ \A t \in Threads : WF_<<vars, ghosts>>(Step(t) /\ lastT' = t /\ lastPc' = pc[t])
            /\ WF_<<vars, ghosts>>(Final)

\* ------------------------------------------------------------------ properties
InStack(w) == w \in Chain(st) \/ \E t \in Threads : pc[t] = "v1.set_pop" /\ w \in Chain(top[t])
Pending(w) == phase[w] = "started" /\ done[w] = 0 /\ ~Queued(w)

\* exactly-once: a waiter is never resumed twice, nor both queued and still linked
ResumedAtMostOnce ==
  \A w \in Waiters : done[w] + Cardinality({<<s, i>> \in Scheds \X (1..4) : i <= Len(q[s]) /\ q[s][i] = w}) <= 1
NotBothQueuedAndLinked == \A w \in Waiters : (Queued(w) \/ done[w] > 0) => ~InStack(w)
\* a wait completes only if the event is / became set after the wait began
CompletesOnlyIfSet == \A w \in Waiters : (Queued(w) \/ done[w] > 0) => sigSeen[w]
\* reset() (and everything else) never drops a registered waiter: reset only affects later waits
NoLostWaiter == \A w \in Waiters : Pending(w) => InStack(w)
StackAcyclic == ChainLen(st, 0) < 10
\* at quiescence
EveryEarlierWaitResumedOnce == fin => \A w \in Waiters : (phase[w] = "started" /\ setAfter[w]) => done[w] = 1
NoStrandedWaiter == fin => (st = SIG => \A w \in Waiters : phase[w] = "started" => done[w] = 1)
PendingStillRegistered == fin => \A w \in Waiters : (phase[w] = "started" /\ done[w] = 0) => w \in Chain(st)
Terminates == <>fin
=============================================================================
