SPECIFICATION Spec
CONSTANTS NOps = 2  IsWrite = TRUE  RegisterFirst = TRUE  DestructOnDone = TRUE  ErrnoFix = FALSE  Feeds = 2  WithFault = TRUE
INVARIANTS ErrorIsOsError
CHECK_DEADLOCK FALSE
