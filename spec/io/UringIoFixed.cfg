SPECIFICATION Spec
CONSTANTS SubmitFirst = TRUE  ResultFirst = TRUE  Feeds = 2
INVARIANTS IoCompletesExactlyOnce BytesAreTrue DoneOnlyIfStopFired NoTouchAfterFree NoStaleKernelReference CancelReachesIo
CHECK_DEADLOCK FALSE
