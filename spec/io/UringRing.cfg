SPECIFICATION Spec
CONSTANTS N = 2  CQ = 4  K = 7  OffByOne = FALSE
INVARIANTS RingWithinBounds NoSlotOverwritten AtMostOnceToKernel AcceptedReachKernelOnce NothingLost
CHECK_DEADLOCK FALSE
