---- MODULE EpollIoMC ----
(* Model-checking instances of EpollIo (constants chosen in the .cfg files). *)
EXTENDS EpollIo
====
