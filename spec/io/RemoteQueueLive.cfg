SPECIFICATION FairSpec
CONSTANTS Producers <- P2  ItemsPer = 2  WithStop = TRUE  SignalOnInactive = TRUE  ResetReadSubmitted = TRUE
PROPERTIES EveryItemRuns RunReturns
CHECK_DEADLOCK FALSE
