SPECIFICATION FairSpec
CONSTANTS N = 2  CQ = 4  K = 5  OffByOne = FALSE
PROPERTIES AllComplete
CHECK_DEADLOCK FALSE
