----------------------------- MODULE UringRing -----------------------------
(***************************************************************************)
(* Submission-ring accounting of io_uring_context (C14: work is never      *)
(* lost, each operation reaches the kernel - hence completes - exactly     *)
(* once; ring accounting stays within bounds).  Companion of UringIo.tla   *)
(* (one operation, cancellation): here MANY operations and the ring.       *)
(*   try_submit_io(populate):                                              *)
(*     if pending_operation_count() < cqEntryCount_                        *)
(*        and (tail - head) < sqEntryCount_ :        <- the guard at stake  *)
(*          sqEntries_[tail & mask] = sqe; tail++; ++sqUnflushedCount_     *)
(*     else the operation goes to pendingIoQueue_                          *)
(*   run_impl: execute_pending_local (starts) ; acquire CQEs ;             *)
(*     while (!pendingIoQueue_.empty() && can_submit_io()) retry front ;   *)
(*     io_uring_enter(sqUnflushedCount_) -> the kernel consumes SQEs from  *)
(*     head, at most ring-size many ; sqUnflushedCount_ -= n ;             *)
(*     cqPendingCount_ += n                                                *)
(* State = the real fields: slot contents, tail, head (kernel side),       *)
(* sqUnflushedCount_, cqPendingCount_, pendingIoQueue_, the local queue of *)
(* operations still to be started.  Ghosts: how often each operation was   *)
(* handed to the kernel, whether an unconsumed slot was overwritten.       *)
(* OffByOne = TRUE is the mutation `usedCount <= sqEntryCount_`; TLC must   *)
(* refute it.                                                               *)
(***************************************************************************)
EXTENDS Naturals, Sequences, FiniteSets, TLC
CONSTANTS N,         \* sqEntryCount_ (a small power of two in the model)
          CQ,        \* cqEntryCount_
          K,         \* operations started in one burst (one pass over the local queue)
          OffByOne   \* FALSE = the code as read
Ops == 1..K
VARIABLES slot,      \* [0..N-1 -> 0 | op]   sqEntries_ (user_data)
          tail, head,\* sqTail_ (user) / sqHead_ (kernel)
          unflushed, \* sqUnflushedCount_
          cqPending, \* cqPendingCount_
          pendingQ,  \* pendingIoQueue_
          todo,      \* local queue: operations whose start_io has not run yet
          pc,        \* "exec" | "retry" | "enter" | "done"
          accepted,  \* ghost: operations for which try_submit_io returned true
          kernelGot, \* ghost: [Ops -> times handed to the kernel]
          completed, \* ghost: [Ops -> CQEs delivered]
          overwritten \* ghost: an SQE the kernel had not consumed was overwritten
vars == <<slot, tail, head, unflushed, cqPending, pendingQ, todo, pc, accepted, kernelGot, completed, overwritten>>
Init == /\ slot = [i \in 0..(N - 1) |-> 0] /\ tail = 0 /\ head = 0 /\ unflushed = 0 /\ cqPending = 0
        /\ pendingQ = <<>> /\ todo = [i \in 1..K |-> i] /\ pc = "exec"
        /\ accepted = {} /\ kernelGot = [o \in Ops |-> 0] /\ completed = [o \in Ops |-> 0] /\ overwritten = FALSE
HasRoom == IF OffByOne THEN (tail - head) <= N ELSE (tail - head) < N
\* try_submit_io for operation o; on failure the operation is queued at `where` end of pendingIoQueue_
Submit(o, front) ==
  IF cqPending + unflushed < CQ /\ HasRoom
  THEN /\ slot' = [slot EXCEPT ![tail % N] = o]
       /\ overwritten' = (overwritten \/ (tail - head) >= N)
       /\ tail' = tail + 1 /\ unflushed' = unflushed + 1 /\ accepted' = accepted \cup {o} /\ UNCHANGED pendingQ
  ELSE /\ pendingQ' = (IF front THEN <<o>> \o pendingQ ELSE Append(pendingQ, o))
       /\ UNCHANGED <<slot, overwritten, tail, unflushed, accepted>>
\* execute_pending_local(): start_io of the next operation
Start == /\ pc = "exec" /\ todo # <<>> /\ Submit(Head(todo), FALSE) /\ todo' = Tail(todo)
         /\ UNCHANGED <<head, cqPending, pc, kernelGot, completed>>
ExecDone == /\ pc = "exec" /\ todo = <<>> /\ pc' = "retry"
            /\ UNCHANGED <<slot, tail, head, unflushed, cqPending, pendingQ, todo, accepted, kernelGot, completed, overwritten>>
\* while (!pendingIoQueue_.empty() && can_submit_io()) { pop_front; execute }   (a failed retry re-queues at the front)
CanSubmit == unflushed < N /\ cqPending + unflushed < CQ
Retry == /\ pc = "retry" /\ pendingQ # <<>> /\ CanSubmit
         /\ LET o == Head(pendingQ) IN
            IF cqPending + unflushed < CQ /\ HasRoom
            THEN /\ slot' = [slot EXCEPT ![tail % N] = o] /\ overwritten' = (overwritten \/ (tail - head) >= N)
                 /\ tail' = tail + 1 /\ unflushed' = unflushed + 1 /\ accepted' = accepted \cup {o} /\ pendingQ' = Tail(pendingQ)
            ELSE UNCHANGED <<slot, overwritten, tail, unflushed, accepted, pendingQ>>
         /\ UNCHANGED <<head, cqPending, todo, pc, kernelGot, completed>>
RetryDone == /\ pc = "retry" /\ (pendingQ = <<>> \/ ~CanSubmit) /\ pc' = "enter"
             /\ UNCHANGED <<slot, tail, head, unflushed, cqPending, pendingQ, todo, accepted, kernelGot, completed, overwritten>>
\* io_uring_enter(fd, sqUnflushedCount_, ...): the kernel consumes n = min(to_submit, ring size, tail - head) SQEs from head
RECURSIVE Got(_, _, _)
Got(g, h, n) == IF n = 0 THEN g ELSE
                LET o == slot[h % N] IN Got(IF o = 0 THEN g ELSE [g EXCEPT ![o] = @ + 1], h + 1, n - 1)
Min(a, b) == IF a < b THEN a ELSE b
Enter == /\ pc = "enter"
         /\ LET n == Min(Min(unflushed, N), tail - head) IN
            /\ kernelGot' = Got(kernelGot, head, n) /\ head' = head + n
            /\ unflushed' = unflushed - n /\ cqPending' = cqPending + n
         /\ pc' = (IF pendingQ = <<>> /\ unflushed' = 0 THEN "done" ELSE "retry")
         /\ UNCHANGED <<slot, tail, pendingQ, todo, accepted, completed, overwritten>>
\* a CQE is produced and consumed (acquire_completion_queue_items): cqPendingCount_ shrinks; any time the loop is between passes
Complete == /\ pc \in {"retry", "done"} /\ cqPending > 0
            /\ \E o \in Ops : kernelGot[o] > completed[o] /\ completed' = [completed EXCEPT ![o] = @ + 1]
            /\ cqPending' = cqPending - 1
            /\ UNCHANGED <<slot, tail, head, unflushed, pendingQ, todo, pc, accepted, kernelGot, overwritten>>
Next == Start \/ ExecDone \/ Retry \/ RetryDone \/ Enter \/ Complete
Spec == Init /\ [][Next]_vars
FairSpec == Spec /\ WF_vars(Next) /\ SF_vars(Complete)

RingWithinBounds == (tail - head) <= N /\ unflushed <= N /\ unflushed = tail - head /\ cqPending + unflushed <= CQ
NoSlotOverwritten == ~overwritten
AtMostOnceToKernel == \A o \in Ops : kernelGot[o] <= 1 /\ completed[o] <= kernelGot[o]
\* every accepted submission reaches the kernel exactly once; nothing is left behind when the loop goes idle
AcceptedReachKernelOnce == (pc = "done") => (\A o \in Ops : o \in accepted /\ kernelGot[o] = 1)
NothingLost == \A o \in Ops : o \in accepted \/ (\E i \in 1..Len(todo) : todo[i] = o) \/ (\E i \in 1..Len(pendingQ) : pendingQ[i] = o)
AllComplete == <>[](\A o \in Ops : completed[o] = 1)
=============================================================================
