--------------------------- MODULE RemoteQueue ---------------------------
(***************************************************************************)
(* Cross-thread inbox of io_epoll_context / io_uring_context and its       *)
(* wake-up protocol (C14, first clause).                                    *)
(*                                                                         *)
(*   producers (any thread)          consumer (the thread inside run())     *)
(*   ---------------------           ---------------------------------     *)
(*   schedule_remote(op):            run_impl loop:                         *)
(*     wasInactive = q.enqueue(op)     execute_pending_local()              *)
(*     if wasInactive:                 if shouldStop: break                 *)
(*        write(eventfd, 1)            if !remoteQueueReadSubmitted_:       *)
(*                                       remoteQueueReadSubmitted_ =        *)
(*                                         q.try_mark_inactive_or_dequeue_all() is empty *)
(*                                     if remoteQueueReadSubmitted_:        *)
(*                                       epoll_wait -> read(eventfd) ->     *)
(*                                       remoteQueueReadSubmitted_ = false  *)
(*                                                                         *)
(* State = abstract content of the real fields: head_ of                   *)
(* atomic_intrusive_queue (inactive marker | LIFO list), the eventfd        *)
(* counter, remoteQueueReadSubmitted_, localQueue_, stopOp.shouldStop_.     *)
(* One action per atomic step (CAS / exchange / syscall).  run(stop_token): *)
(* the stop callback schedules a stop item through the same remote path.    *)
(* Design switches (TRUE = the code as read) let the model show that the    *)
(* properties are sensitive to the two mechanisms named in the property.    *)
(***************************************************************************)
EXTENDS Naturals, Sequences, FiniteSets, TLC
CONSTANTS Producers,          \* set of remote producer thread ids (positive naturals)
          ItemsPer,           \* items scheduled by each producer
          WithStop,           \* a stopper thread requests stop of run()
          SignalOnInactive,   \* enqueue() returned true => write(eventfd)      (TRUE in the code)
          ResetReadSubmitted  \* wake-up clears remoteQueueReadSubmitted_       (TRUE in the code)
Stopper == 0
StopItem == <<0, 0>>
Items == {<<p, k>> : p \in Producers, k \in 1..ItemsPer}
AllItems == Items \cup {StopItem}
Threads == Producers \cup (IF WithStop THEN {Stopper} ELSE {})

VARIABLES head,        \* [inactive: BOOLEAN, items: Seq(AllItems)] (newest first); "null" = [FALSE, <<>>]
          evfd,        \* eventfd counter
          readSub,     \* remoteQueueReadSubmitted_
          local,       \* localQueue_
          shouldStop,  \* stopOp.shouldStop_
          cpc,         \* consumer program counter
          ppc, pk,     \* producer program counter / next item index
          ran,         \* [AllItems -> Nat]   ghost: executions of each item
          accepted,    \* ghost: items whose schedule call has returned
          beforeStop,  \* ghost: items accepted before the stop request began
          wakeups      \* ghost: eventfd writes since the consumer last went inactive
vars == <<head, evfd, readSub, local, shouldStop, cpc, ppc, pk, ran, accepted, beforeStop, wakeups>>

Null == [inactive |-> FALSE, items |-> <<>>]
Reverse(s) == [i \in 1..Len(s) |-> s[Len(s) + 1 - i]]
RECURSIVE CountIn(_, _)
CountIn(s, x) == IF s = <<>> THEN 0 ELSE (IF Head(s) = x THEN 1 ELSE 0) + CountIn(Tail(s), x)

Init == /\ head = Null /\ evfd = 0 /\ readSub = FALSE /\ local = <<>> /\ shouldStop = FALSE
        /\ cpc = "exec"
        /\ ppc = [t \in Threads |-> "idle"] /\ pk = [t \in Threads |-> 1]
        /\ ran = [i \in AllItems |-> 0] /\ accepted = {} /\ beforeStop = {} /\ wakeups = 0

ItemOf(t) == IF t = Stopper THEN StopItem ELSE <<t, pk[t]>>
HasMore(t) == IF t = Stopper THEN pk[t] = 1 ELSE pk[t] <= ItemsPer

(* ---- producer: atomic_intrusive_queue::enqueue (load + CAS loop = one atomic read-modify-write) *)
Enqueue(t) ==
  /\ ppc[t] = "idle" /\ HasMore(t)
  /\ head' = [inactive |-> FALSE, items |-> <<ItemOf(t)>> \o head.items]
  /\ IF head.inactive /\ SignalOnInactive
     THEN /\ ppc' = [ppc EXCEPT ![t] = "signal"] /\ UNCHANGED <<pk, accepted>>
     ELSE /\ pk' = [pk EXCEPT ![t] = @ + 1] /\ accepted' = accepted \cup {ItemOf(t)} /\ UNCHANGED ppc
  /\ beforeStop' = IF t = Stopper THEN accepted ELSE beforeStop
  /\ UNCHANGED <<evfd, readSub, local, shouldStop, cpc, ran, wakeups>>
(* ---- producer: signal_remote_queue(): write(eventfd, 1) *)
Signal(t) ==
  /\ ppc[t] = "signal"
  /\ evfd' = evfd + 1 /\ wakeups' = wakeups + 1
  /\ ppc' = [ppc EXCEPT ![t] = "idle"] /\ pk' = [pk EXCEPT ![t] = @ + 1]
  /\ accepted' = accepted \cup {ItemOf(t)}
  /\ UNCHANGED <<head, readSub, local, shouldStop, cpc, ran, beforeStop>>

(* ---- consumer *)
ExecLocal ==                     \* execute_pending_local(): runs every item of the local queue, in order
  /\ cpc = "exec"
  /\ ran' = [i \in AllItems |-> ran[i] + CountIn(local, i)]
  /\ shouldStop' = (shouldStop \/ CountIn(local, StopItem) > 0)
  /\ local' = <<>> /\ cpc' = "check"
  /\ UNCHANGED <<head, evfd, readSub, ppc, pk, accepted, beforeStop, wakeups>>
Check ==                         \* if (shouldStop) break;  if (!remoteQueueReadSubmitted_) ...
  /\ cpc = "check"
  /\ cpc' = IF shouldStop THEN "returned" ELSE IF ~readSub THEN "mark_load" ELSE "wait"
  /\ UNCHANGED <<head, evfd, readSub, local, shouldStop, ppc, pk, ran, accepted, beforeStop, wakeups>>
MarkLoad ==                      \* try_mark_inactive(): oldValue = head_.load()
  /\ cpc = "mark_load"
  /\ cpc' = IF head.items = <<>> THEN "mark_cas" ELSE "xchg"
  /\ UNCHANGED <<head, evfd, readSub, local, shouldStop, ppc, pk, ran, accepted, beforeStop, wakeups>>
MarkCas ==                       \* compare_exchange_strong(nullptr -> inactive)
  /\ cpc = "mark_cas"
  /\ IF head.items = <<>>
     THEN /\ head' = [inactive |-> TRUE, items |-> <<>>] /\ readSub' = TRUE /\ cpc' = "wait" /\ wakeups' = 0
     ELSE /\ cpc' = "xchg" /\ UNCHANGED <<head, readSub, wakeups>>
  /\ UNCHANGED <<evfd, local, shouldStop, ppc, pk, ran, accepted, beforeStop>>
Xchg ==                          \* head_.exchange(nullptr); make_reversed; schedule_local(items)
  /\ cpc = "xchg"
  /\ local' = local \o Reverse(head.items) /\ head' = Null /\ readSub' = FALSE /\ cpc' = "exec"
  /\ UNCHANGED <<evfd, shouldStop, ppc, pk, ran, accepted, beforeStop, wakeups>>
Wait ==                          \* epoll_wait(-1) returns because the eventfd is readable
  /\ cpc = "wait" /\ evfd > 0
  /\ cpc' = "read_ev"
  /\ UNCHANGED <<head, evfd, readSub, local, shouldStop, ppc, pk, ran, accepted, beforeStop, wakeups>>
ReadEv ==                        \* read(eventfd) clears the counter; remoteQueueReadSubmitted_ = false
  /\ cpc = "read_ev"
  /\ evfd' = 0 /\ readSub' = (IF ResetReadSubmitted THEN FALSE ELSE readSub) /\ cpc' = "exec"
  /\ UNCHANGED <<head, local, shouldStop, ppc, pk, ran, accepted, beforeStop, wakeups>>

Consumer == ExecLocal \/ Check \/ MarkLoad \/ MarkCas \/ Xchg \/ Wait \/ ReadEv
Producer(t) == Enqueue(t) \/ Signal(t)
Next == Consumer \/ \E t \in Threads : Producer(t)
Spec == Init /\ [][Next]_vars
FairSpec == Spec /\ WF_vars(Consumer) /\ \A t \in Threads : WF_vars(Producer(t))

(* ------------------------------------------------------------------ properties *)
TypeOK == /\ head.inactive \in BOOLEAN /\ evfd \in 0..(Cardinality(Threads) + 1) /\ readSub \in BOOLEAN
          /\ cpc \in {"exec", "check", "mark_load", "mark_cas", "xchg", "wait", "read_ev", "returned"}
Signalling == {t \in Threads : ppc[t] = "signal"}
\* an item sits in the inbox only while the consumer is active, or a wake-up is pending / about to be written
RemoteWorkNeverLost ==
  (cpc = "wait" /\ evfd = 0 /\ Signalling = {}) => (head.inactive /\ head.items = <<>>)
\* exactly one wake-up per idle period
OneWakeupPerIdlePeriod == wakeups <= 1 /\ evfd <= 1
InactiveOnlyWhileParked == head.inactive => (readSub /\ cpc \in {"wait", "returned"} /\ head.items = <<>>)
ReadSubmittedMeansInactiveOrWoken ==
  (readSub /\ cpc \in {"wait"}) => (head.inactive \/ evfd > 0 \/ Signalling # {})
RanAtMostOnce == \A i \in AllItems : ran[i] <= 1
RanOnlyIfScheduled == \A i \in Items : ran[i] > 0 => (i \in accepted \/ \E t \in Producers : ItemOf(t) = i)
\* run(stop_token) returns only after the stop item ran, and every item accepted before the stop request ran before it
RunReturnsAfterStop == cpc = "returned" => (ran[StopItem] = 1 /\ \A i \in beforeStop : ran[i] = 1)
NoSpuriousReturn == cpc = "returned" => WithStop
\* liveness (FairSpec)
AllProducersDone == \A t \in Producers : pk[t] > ItemsPer
EveryItemRuns == \A i \in Items : (i \in accepted) ~> (ran[i] = 1 \/ cpc = "returned")
RunReturns == WithStop => <>(cpc = "returned")
AllRunWithoutStop == (~WithStop) => <>[](\A i \in Items : ran[i] = 1)
=============================================================================
