SPECIFICATION Spec
CONSTANTS Producers <- P2  ItemsPer = 2  WithStop = FALSE  SignalOnInactive = TRUE  ResetReadSubmitted = FALSE
INVARIANTS RemoteWorkNeverLost
CHECK_DEADLOCK FALSE
