------------------------------ MODULE UringIo ------------------------------
(***************************************************************************)
(* io_uring_context::read_sender / write_sender operation                  *)
(* (include/unifex/linux/io_uring_context.hpp) with an abstract ring: the  *)
(* submission queue is a FIFO of SQEs the kernel consumes in order, the    *)
(* kernel is a nondeterministic completer, the completion queue a FIFO of  *)
(* CQEs <<target, result>> with target = the operation ("io") or its       *)
(* embedded cancel_operation ("cop").                                      *)
(*   start_io        = construct stop callback | queue READV/WRITEV SQE    *)
(*   request_stop    = CAS refCount 1->2 | (remote: schedule cop) |        *)
(*                     queue ASYNC_CANCEL SQE (user_data = cop)            *)
(*   on_*_complete   = fetch_sub refCount | destruct callback | deliver    *)
(*   kernel          : READV on a pipe without data is parked (poll);      *)
(*                     ASYNC_CANCEL finds a parked request (-> ECANCELED + *)
(*                     0) or nothing (-> ENOENT)                           *)
(* One operation, started from a remote thread or on the I/O thread; one   *)
(* stop request at any time from a remote thread or from the I/O thread.   *)
(* Design switches (FALSE = the code as read):                             *)
(*   SubmitFirst  the I/O SQE is queued before the stop callback exists    *)
(*   ResultFirst  the CQE result is examined before stop_requested()       *)
(***************************************************************************)
EXTENDS Naturals, Sequences, FiniteSets, TLC
CONSTANTS SubmitFirst, ResultFirst, Feeds
VARIABLES ready, feeds,
          sq, cq,          \* SQEs: "io" | "cancel" ; CQEs: <<"io"|"cop", res>>, res \in {"n", "ECANCELED", "ENOENT", "ok"}
          kio,             \* kernel side of the I/O request: "none" | "parked" | "finished"
          cancelSeen,      \* the kernel has processed the ASYNC_CANCEL SQE
          localQ, remoteQ, \* items: <<"start">> | <<"cancel_sched">> | <<"io_cqe", res>> | <<"cop_cqe">>
          ost,             \* "idle" | "queued" | "running" | "submitted" | "completed"
          alive, refCount, cb, stopReq, stopMode, where, res,   \* res = completion_base::result_
          iopc, afterCb, spc, result, completions, taken, bad
vars == <<ready, feeds, sq, cq, kio, cancelSeen, localQ, remoteQ, ost, alive, refCount, cb, stopReq, stopMode, where, res,
          iopc, afterCb, spc, result, completions, taken, bad>>
Init == /\ ready \in BOOLEAN /\ feeds = Feeds /\ sq = <<>> /\ cq = <<>> /\ kio = "none" /\ cancelSeen = FALSE
        /\ localQ = <<>> /\ remoteQ = <<>> /\ ost = "idle" /\ alive = TRUE /\ refCount = 1 /\ cb = "none" /\ stopReq = FALSE
        /\ stopMode \in {"none", "remote", "local"} /\ where \in {"remote", "local"} /\ res = "none"
        /\ iopc = "loop" /\ afterCb = "loop" /\ spc = "idle" /\ result = <<"none", 0>> /\ completions = 0 /\ taken = 0 /\ bad = ""
Good == bad = ""
Touch(what) == IF alive THEN bad' = bad ELSE bad' = what

EnvReady == /\ Good /\ feeds > 0 /\ ~ready /\ ready' = TRUE /\ feeds' = feeds - 1
            /\ UNCHANGED <<sq, cq, kio, cancelSeen, localQ, remoteQ, ost, alive, refCount, cb, stopReq, stopMode, where, res, iopc, afterCb, spc,
                           result, completions, taken, bad>>
StartRemote == /\ Good /\ ost = "idle" /\ where = "remote" /\ ost' = "queued" /\ remoteQ' = Append(remoteQ, <<"start">>)
               /\ UNCHANGED <<ready, feeds, sq, cq, kio, cancelSeen, localQ, alive, refCount, cb, stopReq, stopMode, where, res, iopc, afterCb, spc,
                              result, completions, taken, bad>>
StartLocal == /\ Good /\ ost = "idle" /\ where = "local" /\ iopc = "loop" /\ ost' = "running" /\ iopc' = (IF SubmitFirst THEN "s_submit" ELSE "s_cb")
              /\ UNCHANGED <<ready, feeds, sq, cq, kio, cancelSeen, localQ, remoteQ, alive, refCount, cb, stopReq, stopMode, where, res, afterCb, spc,
                             result, completions, taken, bad>>
StopRemote == /\ Good /\ stopMode = "remote" /\ ~stopReq /\ spc = "idle" /\ stopReq' = TRUE
              /\ IF cb = "registered" THEN cb' = "executing" /\ spc' = "r_cas" ELSE UNCHANGED cb /\ spc' = "finished"
              /\ UNCHANGED <<ready, feeds, sq, cq, kio, cancelSeen, localQ, remoteQ, ost, alive, refCount, stopMode, where, res, iopc, afterCb,
                             result, completions, taken, bad>>
StopLocal == /\ Good /\ stopMode = "local" /\ ~stopReq /\ iopc = "loop" /\ stopReq' = TRUE
             /\ IF cb = "registered" THEN cb' = "executing" /\ iopc' = "r_cas" /\ afterCb' = "loop" ELSE UNCHANGED <<cb, iopc, afterCb>>
             /\ UNCHANGED <<ready, feeds, sq, cq, kio, cancelSeen, localQ, remoteQ, ost, alive, refCount, stopMode, where, res, spc,
                            result, completions, taken, bad>>
(* request_stop on the remote stopper thread *)
SCas == /\ Good /\ spc = "r_cas" /\ Touch("request_stop touches a released operation")
        /\ IF refCount = 1 THEN refCount' = 2 /\ spc' = "r_sched" ELSE UNCHANGED refCount /\ spc' = "r_ret"
        /\ UNCHANGED <<ready, feeds, sq, cq, kio, cancelSeen, localQ, remoteQ, ost, alive, cb, stopReq, stopMode, where, res, iopc, afterCb,
                       result, completions, taken>>
SSched == /\ Good /\ spc = "r_sched" /\ remoteQ' = Append(remoteQ, <<"cancel_sched">>) /\ spc' = "r_ret"
          /\ UNCHANGED <<ready, feeds, sq, cq, kio, cancelSeen, localQ, ost, alive, refCount, cb, stopReq, stopMode, where, res, iopc, afterCb,
                         result, completions, taken, bad>>
SRet == /\ Good /\ spc = "r_ret" /\ Touch("inplace_stop_source::request_stop touches the stop callback of a released operation")
        /\ cb' = "executed" /\ spc' = "finished"
        /\ UNCHANGED <<ready, feeds, sq, cq, kio, cancelSeen, localQ, remoteQ, ost, alive, refCount, stopReq, stopMode, where, res, iopc, afterCb,
                       result, completions, taken>>
(* request_stop inline on the I/O thread (from the callback's constructor or from an item) *)
ICas == /\ Good /\ iopc = "r_cas"
        /\ IF refCount = 1 THEN refCount' = 2 /\ iopc' = "r_submit" ELSE UNCHANGED refCount /\ iopc' = "r_ret"
        /\ UNCHANGED <<ready, feeds, sq, cq, kio, cancelSeen, localQ, remoteQ, ost, alive, cb, stopReq, stopMode, where, res, afterCb, spc,
                       result, completions, taken, bad>>
ISubmitCancel == /\ Good /\ iopc = "r_submit" /\ sq' = Append(sq, "cancel") /\ iopc' = "r_ret"
                 /\ UNCHANGED <<ready, feeds, cq, kio, cancelSeen, localQ, remoteQ, ost, alive, refCount, cb, stopReq, stopMode, where, res, afterCb,
                                spc, result, completions, taken, bad>>
IRet == /\ Good /\ iopc = "r_ret" /\ cb' = "executed" /\ iopc' = afterCb /\ afterCb' = "loop"
        /\ UNCHANGED <<ready, feeds, sq, cq, kio, cancelSeen, localQ, remoteQ, ost, alive, refCount, stopReq, stopMode, where, res, spc,
                       result, completions, taken, bad>>
(* start_io *)
SCb == /\ Good /\ iopc = "s_cb"
       /\ LET nxt == IF SubmitFirst THEN "loop" ELSE "s_submit" IN
          IF stopReq THEN cb' = "executing" /\ iopc' = "r_cas" /\ afterCb' = nxt
          ELSE cb' = "registered" /\ iopc' = nxt /\ UNCHANGED afterCb
       /\ UNCHANGED <<ready, feeds, sq, cq, kio, cancelSeen, localQ, remoteQ, ost, alive, refCount, stopReq, stopMode, where, res, spc,
                      result, completions, taken, bad>>
SSubmit == /\ Good /\ iopc = "s_submit" /\ sq' = Append(sq, "io") /\ ost' = "submitted"
           /\ iopc' = (IF SubmitFirst THEN "s_cb" ELSE "loop")
           /\ UNCHANGED <<ready, feeds, cq, kio, cancelSeen, localQ, remoteQ, alive, refCount, cb, stopReq, stopMode, where, res, afterCb, spc,
                          result, completions, taken, bad>>
(* kernel *)
KProcess ==
  /\ Good /\ sq # <<>> /\ sq' = Tail(sq)
  /\ IF Head(sq) = "io"
     THEN IF ready THEN /\ kio' = "finished" /\ taken' = 1 /\ ready' \in BOOLEAN /\ cq' = Append(cq, <<"io", "n">>) /\ UNCHANGED cancelSeen
          ELSE kio' = "parked" /\ UNCHANGED <<taken, ready, cq, cancelSeen>>
     ELSE /\ cancelSeen' = TRUE /\ UNCHANGED <<taken, ready>>
          /\ IF kio = "parked" THEN kio' = "finished" /\ cq' = cq \o <<<<"io", "ECANCELED">>, <<"cop", "ok">>>>
             ELSE UNCHANGED kio /\ cq' = Append(cq, <<"cop", "ENOENT">>)
  /\ UNCHANGED <<feeds, localQ, remoteQ, ost, alive, refCount, cb, stopReq, stopMode, where, res, iopc, afterCb, spc, result, completions, bad>>
KReady == /\ Good /\ kio = "parked" /\ ready /\ kio' = "finished" /\ taken' = 1 /\ ready' \in BOOLEAN /\ cq' = Append(cq, <<"io", "n">>)
          /\ UNCHANGED <<feeds, sq, cancelSeen, localQ, remoteQ, ost, alive, refCount, cb, stopReq, stopMode, where, res, iopc, afterCb, spc,
                         result, completions, bad>>
(* run loop *)
Acquire == /\ Good /\ iopc = "loop" /\ cq # <<>>
           /\ localQ' = localQ \o [i \in 1..Len(cq) |-> IF cq[i][1] = "io" THEN <<"io_cqe", cq[i][2]>> ELSE <<"cop_cqe">>]
           /\ cq' = <<>>
           /\ Touch("acquire_completion_queue_items writes result_ through the user_data of a released operation")
           /\ UNCHANGED <<ready, feeds, sq, kio, cancelSeen, remoteQ, ost, alive, refCount, cb, stopReq, stopMode, where, res, iopc, afterCb, spc,
                          result, completions, taken>>
TakeRemote == /\ Good /\ iopc = "loop" /\ localQ = <<>> /\ remoteQ # <<>> /\ localQ' = remoteQ /\ remoteQ' = <<>>
              /\ UNCHANGED <<ready, feeds, sq, cq, kio, cancelSeen, ost, alive, refCount, cb, stopReq, stopMode, where, res, iopc, afterCb, spc,
                             result, completions, taken, bad>>
RunItem ==
  /\ Good /\ iopc = "loop" /\ localQ # <<>> /\ localQ' = Tail(localQ)
  /\ LET it == Head(localQ) IN
     CASE it[1] = "start" -> /\ iopc' = (IF SubmitFirst THEN "s_submit" ELSE "s_cb") /\ ost' = "running" /\ UNCHANGED <<res, bad>>
       [] it[1] = "cancel_sched" -> /\ Touch("request_stop_local runs on a released operation") /\ iopc' = "r_submit2" /\ UNCHANGED <<res, ost>>
       [] it[1] = "io_cqe" -> /\ Touch("on_complete runs on a released operation") /\ res' = it[2] /\ iopc' = "c_fs" /\ UNCHANGED ost
       [] it[1] = "cop_cqe" -> /\ Touch("on_stop_complete runs on a released operation") /\ iopc' = "c_fs" /\ UNCHANGED <<res, ost>>
  /\ UNCHANGED <<ready, feeds, sq, cq, kio, cancelSeen, remoteQ, alive, refCount, cb, stopReq, stopMode, where, afterCb, spc, result, completions, taken>>
ISubmitCancel2 == /\ Good /\ iopc = "r_submit2" /\ sq' = Append(sq, "cancel") /\ iopc' = "loop"
                  /\ UNCHANGED <<ready, feeds, cq, kio, cancelSeen, localQ, remoteQ, ost, alive, refCount, cb, stopReq, stopMode, where, res, afterCb,
                                 spc, result, completions, taken, bad>>
CFs == /\ Good /\ iopc = "c_fs" /\ refCount' = refCount - 1
       /\ iopc' = (IF refCount = 1 THEN "c_destruct" ELSE "loop")
       /\ UNCHANGED <<ready, feeds, sq, cq, kio, cancelSeen, localQ, remoteQ, ost, alive, cb, stopReq, stopMode, where, res, afterCb, spc,
                      result, completions, taken, bad>>
CDestruct == /\ Good /\ iopc = "c_destruct" /\ cb # "executing" /\ cb' = "destructed" /\ iopc' = "c_deliver"
             /\ UNCHANGED <<ready, feeds, sq, cq, kio, cancelSeen, localQ, remoteQ, ost, alive, refCount, stopReq, stopMode, where, res, afterCb, spc,
                            result, completions, taken, bad>>
CDeliver ==
  /\ Good /\ iopc = "c_deliver"
  /\ LET ch == IF ResultFirst
               THEN (IF res = "n" THEN "value" ELSE IF res = "ECANCELED" \/ stopReq THEN "done" ELSE "error")
               ELSE (IF stopReq THEN "done" ELSE IF res = "n" THEN "value" ELSE IF res = "ECANCELED" THEN "done" ELSE "error")
     IN result' = <<ch, IF ch = "value" THEN 1 ELSE 0>>
  /\ completions' = completions + 1 /\ alive' = FALSE /\ ost' = "completed" /\ iopc' = "loop"
  /\ UNCHANGED <<ready, feeds, sq, cq, kio, cancelSeen, localQ, remoteQ, refCount, cb, stopReq, stopMode, where, res, afterCb, spc, taken, bad>>
IoThread == Acquire \/ TakeRemote \/ RunItem \/ ISubmitCancel2 \/ CFs \/ CDestruct \/ CDeliver \/ ICas \/ ISubmitCancel \/ IRet \/ SCb \/ SSubmit
Stopper == SCas \/ SSched \/ SRet
Kernel == KProcess \/ KReady
Next == IoThread \/ Stopper \/ Kernel \/ EnvReady \/ StartRemote \/ StartLocal \/ StopRemote \/ StopLocal
Spec == Init /\ [][Next]_vars
FairSpec == Spec /\ WF_vars(IoThread) /\ WF_vars(Stopper) /\ WF_vars(Kernel)

IoCompletesExactlyOnce == completions <= 1 /\ (completions = 1 <=> ost = "completed")
BytesAreTrue == ost = "completed" => (IF result[1] = "value" THEN taken = 1 ELSE taken = 0)
DoneOnlyIfStopFired == (ost = "completed" /\ result[1] = "done") => stopReq
NoTouchAfterFree == bad = ""
\* no kernel-side request and no queue entry refers to a released operation
NoStaleKernelReference == ~alive => (kio # "parked" /\ sq = <<>> /\ cq = <<>> /\ localQ = <<>>)
\* once the kernel has processed the cancellation, the I/O is not (and will not be) parked: the cancel SQE follows the I/O SQE
CancelReachesIo == cancelSeen => (kio # "parked" /\ (\A i \in 1..Len(sq) : sq[i] # "io") /\ ost \in {"submitted", "completed"})
StoppedCompletes == (ost \in {"queued", "running", "submitted"} /\ stopReq) ~> (ost = "completed")
=============================================================================
