SPECIFICATION Spec
CONSTANTS Producers <- P2  ItemsPer = 2  WithStop = TRUE  SignalOnInactive = TRUE  ResetReadSubmitted = TRUE
INVARIANTS TypeOK RemoteWorkNeverLost OneWakeupPerIdlePeriod InactiveOnlyWhileParked ReadSubmittedMeansInactiveOrWoken RanAtMostOnce RanOnlyIfScheduled RunReturnsAfterStop NoSpuriousReturn
CHECK_DEADLOCK FALSE
