SPECIFICATION Spec
CONSTANTS N = 4  CQ = 8  K = 11  OffByOne = FALSE
INVARIANTS RingWithinBounds NoSlotOverwritten AtMostOnceToKernel AcceptedReachKernelOnce NothingLost
CHECK_DEADLOCK FALSE
