SPECIFICATION Spec
CONSTANTS SubmitFirst = TRUE  ResultFirst = FALSE  Feeds = 2
INVARIANTS BytesAreTrue
CHECK_DEADLOCK FALSE
