SPECIFICATION FairSpec
CONSTANTS SubmitFirst = TRUE  ResultFirst = TRUE  Feeds = 2
PROPERTIES StoppedCompletes
CHECK_DEADLOCK FALSE
