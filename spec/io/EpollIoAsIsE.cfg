SPECIFICATION Spec
CONSTANTS NOps = 2  IsWrite = FALSE  RegisterFirst = TRUE  DestructOnDone = FALSE  ErrnoFix = TRUE  Feeds = 2  WithFault = TRUE
INVARIANTS NoTouchAfterFree
CHECK_DEADLOCK FALSE
