SPECIFICATION Spec
CONSTANTS SubmitFirst = FALSE  ResultFirst = TRUE  Feeds = 2
INVARIANTS CancelReachesIo
CHECK_DEADLOCK FALSE
