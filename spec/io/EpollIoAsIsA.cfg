SPECIFICATION Spec
CONSTANTS NOps = 2  IsWrite = FALSE  RegisterFirst = FALSE  DestructOnDone = TRUE  ErrnoFix = TRUE  Feeds = 2  WithFault = TRUE
INVARIANTS NoStaleKernelReference
CHECK_DEADLOCK FALSE
