---- MODULE UringRingMC ----
(* Model-checking instances of UringRing (constants chosen in the .cfg files). *)
EXTENDS UringRing
====
