SPECIFICATION Spec
CONSTANTS Producers <- P2  ItemsPer = 2  WithStop = FALSE  SignalOnInactive = FALSE  ResetReadSubmitted = TRUE
INVARIANTS RemoteWorkNeverLost
CHECK_DEADLOCK FALSE
