SPECIFICATION Spec
CONSTANTS SubmitFirst = FALSE  ResultFirst = FALSE  Feeds = 2
INVARIANTS IoCompletesExactlyOnce BytesAreTrue DoneOnlyIfStopFired NoTouchAfterFree NoStaleKernelReference CancelReachesIo
CHECK_DEADLOCK FALSE
