------------------------------ MODULE EpollIo ------------------------------
(***************************************************************************)
(* io_epoll_context::read_sender / write_sender operation on ONE           *)
(* descriptor of a pipe (include/unifex/linux/io_epoll_context.hpp), with  *)
(* an abstract kernel: the pipe (bytes available to the operation's        *)
(* syscall, end-of-stream, a fault) and the epoll interest list (at most   *)
(* one registration per descriptor, carrying a POINTER to an operation).   *)
(*                                                                         *)
(* A user program starts operations 1..NOps one after the other (at most   *)
(* one outstanding operation per descriptor), each from a remote thread or *)
(* from the I/O thread, and may request stop of each operation once, at    *)
(* any time (before start, while parked, after readiness), from a remote   *)
(* thread or from an item on the I/O thread.  The environment makes the    *)
(* descriptor ready (feeds / drains the pipe) at any time.                 *)
(*                                                                         *)
(* One action per stretch between two schedule points of the real code     *)
(* (hooks named io.ep.r.xxx, io.ep.w.xxx): start_io = syscall | construct stop callback |  *)
(* EPOLL_CTL_ADD ;  on_complete = destruct callback | fetch_add | DEL |    *)
(* syscall+completion ;  request_stop = fetch_add | DEL | schedule done ;  *)
(* complete_with_done.  The run loop and its queues are abstract (the      *)
(* wake-up protocol is RemoteQueue.tla): localQ / remoteQ are FIFO.        *)
(*                                                                         *)
(* Design switches (FALSE = the code as read):                             *)
(*   RegisterFirst   EPOLL_CTL_ADD before the stop callback is constructed *)
(*   DestructOnDone  complete_with_done destructs the stop callback first  *)
(*   ErrnoFix        readv/writev failure is read from errno               *)
(* A touch of a released operation state is recorded in `bad` and the      *)
(* behaviour ends there (NoTouchAfterFree).                                *)
(***************************************************************************)
EXTENDS Naturals, Sequences, FiniteSets, TLC
CONSTANTS NOps, IsWrite, RegisterFirst, DestructOnDone, ErrnoFix,
          Feeds,       \* how many times the environment makes the descriptor ready
          WithFault    \* the environment may break the descriptor (peer closed / bad descriptor): syscalls fail with OSERR
Ops == 1..NOps
OSERR == 32            \* the errno of the fault (EPIPE)
EPERM == 1
VARIABLES
  ready,      \* the operation's syscall would succeed now (bytes / room available)
  fault,      \* the descriptor is broken: the syscall fails with OSERR
  feeds,      \* remaining environment feeds
  epollReg,   \* 0 | op id registered for the descriptor (pointer to the operation)
  localQ, remoteQ,   \* sequences of <<op, what>>; what \in {"start", "complete", "done", "stopitem"}
  ost,        \* [Ops -> "idle" | "queued" | "running" | "parked" | "completed"]
  alive,      \* operation state allocated (released by the receiver on completion)
  ioCnt, cancelCnt,  \* state_: high / low half
  cb,         \* stop callback: "none" | "registered" | "executing" | "executed" | "destructed"
  cEnq, dEnq, \* completion_base::enqueued_ / done_op::enqueued_
  stopReq,    \* the operation's stop source has been asked to stop
  stopMode,   \* [Ops -> "none" | "remote" | "local"]  (environment choice, fixed in Init)
  where,      \* [Ops -> "remote" | "local"]            start from which thread (fixed in Init)
  iopc, ioOp, \* I/O thread: "loop" | s_* | c_* | r_* (request_stop running inline on the I/O thread) ; current op
  afterCb,    \* where the I/O thread continues after an inline request_stop
  spc,        \* remote stopper thread per op: "idle" | "r_fa" | "r_del" | "r_sched" | "r_ret" | "finished"
  result,     \* [Ops -> <<channel, n>>] ; <<"none", 0>> before completion
  completions,\* [Ops -> Nat]
  taken,      \* ghost: [Ops -> bytes moved by the op's successful syscall]
  next,       \* next operation the user program starts
  bad         \* "" | description of a touch of a released operation
vars == <<ready, fault, feeds, epollReg, localQ, remoteQ, ost, alive, ioCnt, cancelCnt, cb, cEnq, dEnq, stopReq, stopMode, where,
          iopc, ioOp, afterCb, spc, result, completions, taken, next, bad>>

Init ==
  /\ ready \in BOOLEAN /\ fault = FALSE /\ feeds = Feeds /\ epollReg = 0 /\ localQ = <<>> /\ remoteQ = <<>>
  /\ ost = [o \in Ops |-> "idle"] /\ alive = [o \in Ops |-> TRUE]
  /\ ioCnt = [o \in Ops |-> 0] /\ cancelCnt = [o \in Ops |-> 0] /\ cb = [o \in Ops |-> "none"]
  /\ cEnq = [o \in Ops |-> 0] /\ dEnq = [o \in Ops |-> 0] /\ stopReq = [o \in Ops |-> FALSE]
  /\ stopMode \in [Ops -> {"none", "remote", "local"}] /\ where \in [Ops -> {"remote", "local"}]
  /\ iopc = "loop" /\ ioOp = 0 /\ afterCb = "loop"
  /\ spc = [o \in Ops |-> "idle"]
  /\ result = [o \in Ops |-> <<"none", 0>>] /\ completions = [o \in Ops |-> 0] /\ taken = [o \in Ops |-> 0]
  /\ next = 1 /\ bad = ""
Good == bad = ""
Touch(o, what) == IF alive[o] THEN bad' = bad ELSE bad' = what

(* ---------------------------------------------------------------- environment / user program *)
EnvReady == /\ Good /\ feeds > 0 /\ ~ready /\ ready' = TRUE /\ feeds' = feeds - 1
            /\ UNCHANGED <<fault, epollReg, localQ, remoteQ, ost, alive, ioCnt, cancelCnt, cb, cEnq, dEnq, stopReq, stopMode, where,
                           iopc, ioOp, afterCb, spc, result, completions, taken, next, bad>>
EnvFault == /\ Good /\ WithFault /\ ~fault /\ fault' = TRUE /\ ready' = TRUE      \* a broken descriptor polls as ready (EPOLLERR/HUP)
            /\ UNCHANGED <<feeds, epollReg, localQ, remoteQ, ost, alive, ioCnt, cancelCnt, cb, cEnq, dEnq, stopReq, stopMode, where,
                           iopc, ioOp, afterCb, spc, result, completions, taken, next, bad>>
Prev(o) == IF o = 1 THEN TRUE ELSE ost[o - 1] = "completed"
\* op.start() from a remote thread: schedule_remote(on_schedule_complete)
StartRemote(o) ==
  /\ Good /\ o = next /\ Prev(o) /\ where[o] = "remote" /\ ost[o] = "idle"
  /\ ost' = [ost EXCEPT ![o] = "queued"] /\ remoteQ' = Append(remoteQ, <<o, "start">>) /\ cEnq' = [cEnq EXCEPT ![o] = 1]
  /\ next' = next + 1
  /\ UNCHANGED <<ready, fault, feeds, epollReg, localQ, alive, ioCnt, cancelCnt, cb, dEnq, stopReq, stopMode, where, iopc, ioOp, afterCb,
                 spc, result, completions, taken, bad>>
\* op.start() from an item running on the I/O thread: start_io() inline
StartLocal(o) ==
  /\ Good /\ o = next /\ Prev(o) /\ where[o] = "local" /\ ost[o] = "idle" /\ iopc = "loop"
  /\ ost' = [ost EXCEPT ![o] = "running"] /\ iopc' = "s_syscall" /\ ioOp' = o /\ next' = next + 1
  /\ UNCHANGED <<ready, fault, feeds, epollReg, localQ, remoteQ, alive, ioCnt, cancelCnt, cb, cEnq, dEnq, stopReq, stopMode, where, afterCb,
                 spc, result, completions, taken, bad>>
\* stop_source.request_stop() by a remote thread: runs the callback on that thread if it is registered
StopRemote(o) ==
  /\ Good /\ stopMode[o] = "remote" /\ ~stopReq[o] /\ spc[o] = "idle" /\ o <= next
  /\ stopReq' = [stopReq EXCEPT ![o] = TRUE]
  /\ IF cb[o] = "registered"
     THEN cb' = [cb EXCEPT ![o] = "executing"] /\ spc' = [spc EXCEPT ![o] = "r_fa"]
     ELSE UNCHANGED cb /\ spc' = [spc EXCEPT ![o] = "finished"]
  /\ UNCHANGED <<ready, fault, feeds, epollReg, localQ, remoteQ, ost, alive, ioCnt, cancelCnt, cEnq, dEnq, stopMode, where, iopc, ioOp,
                 afterCb, result, completions, taken, next, bad>>
\* ... or by an item on the I/O thread
StopLocal(o) ==
  /\ Good /\ stopMode[o] = "local" /\ ~stopReq[o] /\ iopc = "loop" /\ o <= next
  /\ stopReq' = [stopReq EXCEPT ![o] = TRUE]
  /\ IF cb[o] = "registered"
     THEN cb' = [cb EXCEPT ![o] = "executing"] /\ iopc' = "r_fa" /\ ioOp' = o /\ afterCb' = "loop"
     ELSE UNCHANGED <<cb, iopc, ioOp, afterCb>>
  /\ UNCHANGED <<ready, fault, feeds, epollReg, localQ, remoteQ, ost, alive, ioCnt, cancelCnt, cEnq, dEnq, stopMode, where, spc,
                 result, completions, taken, next, bad>>

(* ---------------------------------------------------------------- request_stop (the stop callback), thread T = I/O thread or stopper *)
ReqFa(o) ==       \* state_.fetch_add(cancel_pending_flag)
  /\ Touch(o, "request_stop touches a released operation")
  /\ cancelCnt' = [cancelCnt EXCEPT ![o] = @ + 1]
ReqDel(o) == epollReg' = 0                              \* EPOLL_CTL_DEL by descriptor: removes whatever is registered
ReqSched(o) == /\ dEnq' = [dEnq EXCEPT ![o] = @ + 1] /\ remoteQ' = Append(remoteQ, <<o, "done">>)
\* remote stopper thread
SReqFa(o) == /\ Good /\ spc[o] = "r_fa" /\ ReqFa(o)
             /\ spc' = [spc EXCEPT ![o] = IF ioCnt[o] = 0 THEN "r_del" ELSE "r_ret"]
             /\ UNCHANGED <<ready, fault, feeds, epollReg, localQ, remoteQ, ost, alive, ioCnt, cb, cEnq, dEnq, stopReq, stopMode, where, iopc,
                            ioOp, afterCb, result, completions, taken, next>>
SReqDel(o) == /\ Good /\ spc[o] = "r_del" /\ ReqDel(o) /\ spc' = [spc EXCEPT ![o] = "r_sched"]
              /\ UNCHANGED <<ready, fault, feeds, localQ, remoteQ, ost, alive, ioCnt, cancelCnt, cb, cEnq, dEnq, stopReq, stopMode, where, iopc,
                             ioOp, afterCb, result, completions, taken, next, bad>>
SReqSched(o) == /\ Good /\ spc[o] = "r_sched" /\ ReqSched(o) /\ spc' = [spc EXCEPT ![o] = "r_ret"]
                /\ UNCHANGED <<ready, fault, feeds, epollReg, localQ, ost, alive, ioCnt, cancelCnt, cb, cEnq, stopReq, stopMode, where, iopc,
                               ioOp, afterCb, result, completions, taken, next, bad>>
\* the callback returned: inplace_stop_source::request_stop writes callbackCompleted_ INTO the callback object (inside the op)
SReqRet(o) == /\ Good /\ spc[o] = "r_ret" /\ Touch(o, "inplace_stop_source::request_stop touches the stop callback of a released operation")
              /\ cb' = [cb EXCEPT ![o] = "executed"] /\ spc' = [spc EXCEPT ![o] = "finished"]
              /\ UNCHANGED <<ready, fault, feeds, epollReg, localQ, remoteQ, ost, alive, ioCnt, cancelCnt, cEnq, dEnq, stopReq, stopMode, where,
                             iopc, ioOp, afterCb, result, completions, taken, next>>
\* the same four steps inline on the I/O thread
IReqFa == /\ Good /\ iopc = "r_fa" /\ ReqFa(ioOp) /\ iopc' = (IF ioCnt[ioOp] = 0 THEN "r_del" ELSE "r_ret")
          /\ UNCHANGED <<ready, fault, feeds, epollReg, localQ, remoteQ, ost, alive, ioCnt, cb, cEnq, dEnq, stopReq, stopMode, where, ioOp,
                         afterCb, spc, result, completions, taken, next>>
IReqDel == /\ Good /\ iopc = "r_del" /\ ReqDel(ioOp) /\ iopc' = "r_sched"
           /\ UNCHANGED <<ready, fault, feeds, localQ, remoteQ, ost, alive, ioCnt, cancelCnt, cb, cEnq, dEnq, stopReq, stopMode, where, ioOp,
                          afterCb, spc, result, completions, taken, next, bad>>
IReqSched == /\ Good /\ iopc = "r_sched" /\ ReqSched(ioOp) /\ iopc' = "r_ret"
             /\ UNCHANGED <<ready, fault, feeds, epollReg, localQ, ost, alive, ioCnt, cancelCnt, cb, cEnq, stopReq, stopMode, where, ioOp,
                            afterCb, spc, result, completions, taken, next, bad>>
IReqRet == /\ Good /\ iopc = "r_ret" /\ cb' = [cb EXCEPT ![ioOp] = "executed"] /\ iopc' = afterCb
           /\ (IF afterCb = "loop" THEN ioOp' = 0 ELSE UNCHANGED ioOp) /\ afterCb' = "loop"
           /\ UNCHANGED <<ready, fault, feeds, epollReg, localQ, remoteQ, ost, alive, ioCnt, cancelCnt, cEnq, dEnq, stopReq, stopMode, where,
                          spc, result, completions, taken, next, bad>>

(* ---------------------------------------------------------------- completion (receiver releases the operation state) *)
Complete(o, ch, n) ==
  /\ result' = [result EXCEPT ![o] = <<ch, n>>] /\ completions' = [completions EXCEPT ![o] = @ + 1]
  /\ alive' = [alive EXCEPT ![o] = FALSE] /\ ost' = [ost EXCEPT ![o] = "completed"]

(* ---------------------------------------------------------------- the I/O thread: run loop *)
\* execute_pending_local(): next item of the local queue
RunItem ==
  /\ Good /\ iopc = "loop" /\ localQ # <<>>
  /\ LET it == Head(localQ) o == it[1] IN
     /\ localQ' = Tail(localQ)
     /\ CASE it[2] = "start" ->
               /\ Touch(o, "on_schedule_complete touches a released operation")
               /\ cEnq' = [cEnq EXCEPT ![o] = @ - 1] /\ iopc' = "s_syscall" /\ ioOp' = o /\ ost' = [ost EXCEPT ![o] = "running"]
               /\ UNCHANGED <<dEnq, remoteQ, result, completions, alive>>
          [] it[2] = "complete" ->
               /\ Touch(o, "on_read/write_complete runs on a released operation")
               /\ cEnq' = [cEnq EXCEPT ![o] = @ - 1] /\ iopc' = "c_destruct" /\ ioOp' = o
               /\ UNCHANGED <<dEnq, remoteQ, result, completions, alive, ost>>
          [] it[2] = "done" ->          \* complete_with_done
               /\ Touch(o, "complete_with_done runs on a released operation")
               /\ dEnq' = [dEnq EXCEPT ![o] = @ - 1]
               /\ IF ~alive[o] THEN UNCHANGED <<iopc, ioOp, cEnq, remoteQ, result, completions, alive, ost>>
                  ELSE IF cEnq[o] # 0
                  THEN /\ iopc' = "d_resched" /\ ioOp' = o /\ UNCHANGED <<cEnq, remoteQ, result, completions, alive, ost>>
                  ELSE /\ iopc' = "d_done" /\ ioOp' = o /\ UNCHANGED <<cEnq, remoteQ, result, completions, alive, ost>>
  /\ UNCHANGED <<ready, fault, feeds, epollReg, ioCnt, cancelCnt, cb, stopReq, stopMode, where, afterCb, spc, taken, next>>
DoneResched ==     \* "reschedule after queued io is cleared"
  /\ Good /\ iopc = "d_resched"
  /\ dEnq' = [dEnq EXCEPT ![ioOp] = @ + 1] /\ localQ' = Append(localQ, <<ioOp, "done">>) /\ iopc' = "loop" /\ ioOp' = 0
  /\ UNCHANGED <<ready, fault, feeds, epollReg, remoteQ, ost, alive, ioCnt, cancelCnt, cb, cEnq, stopReq, stopMode, where, afterCb, spc, result,
                 completions, taken, next, bad>>
DoneDeliver ==     \* set_done (after destructing the stop callback, in the repaired design)
  /\ Good /\ iopc = "d_done"
  /\ (DestructOnDone /\ ioCnt[ioOp] = 0) => cb[ioOp] # "executing"          \* destruct() waits for a callback running elsewhere
  /\ cb' = IF DestructOnDone /\ ioCnt[ioOp] = 0 THEN [cb EXCEPT ![ioOp] = "destructed"] ELSE cb
  /\ Complete(ioOp, "done", 0) /\ iopc' = "loop" /\ ioOp' = 0
  /\ UNCHANGED <<ready, fault, feeds, epollReg, localQ, remoteQ, ioCnt, cancelCnt, cEnq, dEnq, stopReq, stopMode, where, afterCb, spc, taken, next, bad>>
\* try_schedule_local_remote_queue_contents(): only when the local queue has been executed
TakeRemote ==
  /\ Good /\ iopc = "loop" /\ localQ = <<>> /\ remoteQ # <<>>
  /\ localQ' = remoteQ /\ remoteQ' = <<>>
  /\ UNCHANGED <<ready, fault, feeds, epollReg, ost, alive, ioCnt, cancelCnt, cb, cEnq, dEnq, stopReq, stopMode, where, iopc, ioOp, afterCb, spc,
                 result, completions, taken, next, bad>>
\* acquire_completion_queue_items(): epoll_wait reports the registered pointer; ++enqueued_ through it
KernelReady ==
  /\ Good /\ iopc = "loop" /\ remoteQ = <<>> /\ epollReg # 0 /\ ready
  /\ Touch(epollReg, "acquire_completion_queue_items dereferences a stale epoll registration")
  /\ IF alive[epollReg]
     THEN /\ cEnq[epollReg] = 0 /\ cEnq' = [cEnq EXCEPT ![epollReg] = 1] /\ localQ' = Append(localQ, <<epollReg, "complete">>)
     ELSE UNCHANGED <<cEnq, localQ>>
  /\ UNCHANGED <<ready, fault, feeds, epollReg, remoteQ, ost, alive, ioCnt, cancelCnt, cb, dEnq, stopReq, stopMode, where, iopc, ioOp, afterCb, spc,
                 result, completions, taken, next>>

(* ---------------------------------------------------------------- start_io *)
\* readv / writev.  The result is whatever the abstract pipe permits.
SSyscall ==
  /\ Good /\ iopc = "s_syscall"
  /\ LET o == ioOp IN
     IF fault /\ ErrnoFix
     THEN /\ iopc' = "s_fa_err" /\ UNCHANGED <<ready, taken>>
     ELSE IF ready /\ ~fault
     THEN /\ taken' = [taken EXCEPT ![o] = 1] /\ ready' \in BOOLEAN /\ iopc' = "s_fa"     \* n bytes moved; more may remain
     ELSE /\ iopc' = (IF RegisterFirst THEN "s_reg" ELSE "s_cb") /\ UNCHANGED <<ready, taken>>   \* would-block (or any failure: -1 == -EPERM)
  /\ UNCHANGED <<fault, feeds, epollReg, localQ, remoteQ, ost, alive, ioCnt, cancelCnt, cb, cEnq, dEnq, stopReq, stopMode, where, ioOp, afterCb,
                 spc, result, completions, next, bad>>
SFa ==       \* state_.fetch_add(io_flag); the stop callback was never constructed on this path
  /\ Good /\ iopc \in {"s_fa", "s_fa_err"}
  /\ ioCnt' = [ioCnt EXCEPT ![ioOp] = @ + 1]
  /\ IF iopc = "s_fa" THEN Complete(ioOp, "value", taken[ioOp]) ELSE Complete(ioOp, "error", OSERR)
  /\ iopc' = "loop" /\ ioOp' = 0
  /\ UNCHANGED <<ready, fault, feeds, epollReg, localQ, remoteQ, cancelCnt, cb, cEnq, dEnq, stopReq, stopMode, where, afterCb, spc, taken, next, bad>>
SCb ==       \* stopCallback_.construct(...): runs request_stop inline when stop was already requested
  /\ Good /\ iopc = "s_cb"
  /\ LET nxt == IF RegisterFirst THEN "loop" ELSE "s_reg" IN
     IF stopReq[ioOp]
     THEN /\ cb' = [cb EXCEPT ![ioOp] = "executing"] /\ iopc' = "r_fa" /\ afterCb' = nxt /\ UNCHANGED <<ioOp, ost>>
     ELSE /\ cb' = [cb EXCEPT ![ioOp] = "registered"] /\ iopc' = nxt /\ UNCHANGED afterCb
          /\ IF nxt = "loop" THEN ioOp' = 0 /\ ost' = [ost EXCEPT ![ioOp] = "parked"] ELSE UNCHANGED <<ioOp, ost>>
  /\ UNCHANGED <<ready, fault, feeds, epollReg, localQ, remoteQ, alive, ioCnt, cancelCnt, cEnq, dEnq, stopReq, stopMode, where, spc, result,
                 completions, taken, next, bad>>
SReg ==      \* execute_ = on_complete; EPOLL_CTL_ADD (fails with EEXIST, ignored, if the descriptor is already registered)
  /\ Good /\ iopc = "s_reg"
  /\ Touch(ioOp, "start_io continues on a released operation")
  /\ epollReg' = IF epollReg = 0 THEN ioOp ELSE epollReg
  /\ IF RegisterFirst THEN iopc' = "s_cb" /\ UNCHANGED <<ioOp, ost>>
     ELSE iopc' = "loop" /\ ioOp' = 0 /\ ost' = [ost EXCEPT ![ioOp] = IF @ = "running" THEN "parked" ELSE @]
  /\ UNCHANGED <<ready, fault, feeds, localQ, remoteQ, alive, ioCnt, cancelCnt, cb, cEnq, dEnq, stopReq, stopMode, where, afterCb, spc, result,
                 completions, taken, next>>
\* after an inline request_stop that followed RegisterFirst's construct, the I/O thread is back in the loop with the op parked
(* ---------------------------------------------------------------- on_read_complete / on_write_complete *)
CDestruct ==  \* stopCallback_.destruct(): waits while the callback executes on another thread
  /\ Good /\ iopc = "c_destruct" /\ cb[ioOp] # "executing"
  /\ cb' = [cb EXCEPT ![ioOp] = "destructed"]
  /\ iopc' = IF IsWrite THEN "c_del" ELSE "c_fa"
  /\ UNCHANGED <<ready, fault, feeds, epollReg, localQ, remoteQ, ost, alive, ioCnt, cancelCnt, cEnq, dEnq, stopReq, stopMode, where, ioOp, afterCb,
                 spc, result, completions, taken, next, bad>>
CFa ==
  /\ Good /\ iopc = "c_fa"
  /\ ioCnt' = [ioCnt EXCEPT ![ioOp] = @ + 1]
  /\ IF cancelCnt[ioOp] # 0 THEN iopc' = "loop" /\ ioOp' = 0      \* cancelled: the other side completes with done
     ELSE iopc' = (IF IsWrite THEN "c_io" ELSE "c_del") /\ UNCHANGED ioOp
  /\ UNCHANGED <<ready, fault, feeds, epollReg, localQ, remoteQ, ost, alive, cancelCnt, cb, cEnq, dEnq, stopReq, stopMode, where, afterCb, spc,
                 result, completions, taken, next, bad>>
CDel ==
  /\ Good /\ iopc = "c_del" /\ epollReg' = 0 /\ iopc' = (IF IsWrite THEN "c_fa" ELSE "c_io")
  /\ UNCHANGED <<ready, fault, feeds, localQ, remoteQ, ost, alive, ioCnt, cancelCnt, cb, cEnq, dEnq, stopReq, stopMode, where, ioOp, afterCb, spc,
                 result, completions, taken, next, bad>>
CIo ==        \* second syscall + completion
  /\ Good /\ iopc = "c_io"
  /\ IF fault THEN Complete(ioOp, "error", IF ErrnoFix THEN OSERR ELSE EPERM) /\ UNCHANGED <<taken, ready>>
     ELSE /\ taken' = [taken EXCEPT ![ioOp] = 1] /\ ready' \in BOOLEAN /\ Complete(ioOp, "value", 1)
  /\ iopc' = "loop" /\ ioOp' = 0
  /\ UNCHANGED <<fault, feeds, epollReg, localQ, remoteQ, ioCnt, cancelCnt, cb, cEnq, dEnq, stopReq, stopMode, where, afterCb, spc, next, bad>>

IoThread == RunItem \/ DoneResched \/ DoneDeliver \/ TakeRemote \/ KernelReady \/ SSyscall \/ SFa \/ SCb \/ SReg \/ CDestruct \/ CFa \/ CDel \/ CIo
            \/ IReqFa \/ IReqDel \/ IReqSched \/ IReqRet
Stopper(o) == SReqFa(o) \/ SReqDel(o) \/ SReqSched(o) \/ SReqRet(o)
User == \E o \in Ops : StartRemote(o) \/ StartLocal(o) \/ StopRemote(o) \/ StopLocal(o)
Env == EnvReady \/ EnvFault
Next == IoThread \/ User \/ Env \/ \E o \in Ops : Stopper(o)
Spec == Init /\ [][Next]_vars
FairSpec == Spec /\ WF_vars(IoThread) /\ \A o \in Ops : WF_vars(Stopper(o))

(* ------------------------------------------------------------------ properties *)
IoCompletesExactlyOnce == \A o \in Ops : completions[o] <= 1 /\ (completions[o] = 1 <=> ost[o] = "completed")
\* the value is what the operation's own syscall moved; done / error moved nothing
BytesAreTrue == \A o \in Ops : ost[o] = "completed" =>
                   (IF result[o][1] = "value" THEN result[o][2] = taken[o] /\ taken[o] > 0 ELSE taken[o] = 0)
ErrorIsOsError == \A o \in Ops : (ost[o] = "completed" /\ result[o][1] = "error") => (result[o][2] = OSERR /\ fault)
DoneOnlyIfStopFired == \A o \in Ops : (ost[o] = "completed" /\ result[o][1] = "done") => stopReq[o]
\* the kernel holds a pointer to an operation only while that operation state exists
NoStaleKernelReference == epollReg # 0 => alive[epollReg]
NoTouchAfterFree == bad = ""
\* a later operation is never completed by activity that belongs to an earlier one: queue entries refer to live operations
LaterActivityAffectsOnlyLaterOps == \A i \in 1..Len(localQ) : alive[localQ[i][1]]
QueueCountsConsistent == \A o \in Ops : alive[o] => (cEnq[o] \in {0, 1} /\ dEnq[o] \in {0, 1})
\* liveness (FairSpec): a started operation whose stop source fired, or whose descriptor became ready, completes
StoppedCompletes == \A o \in Ops : (ost[o] \in {"queued", "running", "parked"} /\ stopReq[o]) ~> (ost[o] = "completed" \/ bad # "")
ReadyCompletes == \A o \in Ops : (ost[o] = "parked" /\ ready /\ feeds = 0) ~> (ost[o] = "completed" \/ bad # "")
=============================================================================
