---- MODULE RemoteQueueMC ----
(* Model-checking instances of RemoteQueue (constants chosen in the .cfg files). *)
EXTENDS RemoteQueue
P3 == {1, 2, 3}
P2 == {1, 2}
====
