---- MODULE UringIoMC ----
(* Model-checking instances of UringIo (constants chosen in the .cfg files). *)
EXTENDS UringIo
====
