SPECIFICATION FairSpec
CONSTANTS NOps = 1  IsWrite = FALSE  RegisterFirst = TRUE  DestructOnDone = TRUE  ErrnoFix = TRUE  Feeds = 2  WithFault = TRUE
PROPERTIES StoppedCompletes ReadyCompletes
CHECK_DEADLOCK FALSE
