SPECIFICATION FairSpec
CONSTANTS Producers <- P2  ItemsPer = 2  WithStop = FALSE  SignalOnInactive = TRUE  ResetReadSubmitted = TRUE
INVARIANTS NoSpuriousReturn
PROPERTIES EveryItemRuns AllRunWithoutStop
CHECK_DEADLOCK FALSE
