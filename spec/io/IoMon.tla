------------------------------- MODULE IoMon -------------------------------
(***************************************************************************)
(* The C14 monitor: the most permissive behaviour over API-level events of *)
(* one I/O context (io_epoll_context or io_uring_context) with one pipe    *)
(* that still satisfies the property statement.  Evaluated by TLC on an    *)
(* ndjson log recorded from the real code (many executions separated by    *)
(* Reset).  The kernel is an unlogged environment: nothing is said about   *)
(* which thread, which internal queue, how many loop iterations.           *)
(*                                                                         *)
(* Events (uniform fields e,i,t,k,n,p,ok):                                  *)
(*  SchedBegin/SchedEnd(i=item,t)  a schedule() operation is started        *)
(*  Ran(i, k=1 iff on the thread inside run())                              *)
(*  RunStart, StopRun (request_stop on run()'s token begins), RunReturn      *)
(*  IoStart(i=op, k=0 read|1 write, n=buffer length)                        *)
(*  Stop(i=op)          request_stop on the operation's stop source begins  *)
(*  IoDone(i=op, k=0 value|1 error|2 done, n=bytes|errno, ok=payload equals *)
(*                      the written stream at the running read offset)      *)
(*  OpFreed(i=op)       operation state + buffer released by the receiver   *)
(*  Feed(n)/Fed(i=actual,n) the environment writes into the pipe directly   *)
(*  Drained(n, ok)      the environment takes n bytes out of the pipe       *)
(*  Fault(k=0 read end closed|1 write end closed|2 descriptor unreadable,   *)
(*        n=errno the OS reports to later operations)                       *)
(*  Quiesce             every started thing has been awaited, pipe drained  *)
(*  Res(n=before, i=after, k=0 descriptors|1 ring mappings)                 *)
(*  Stuck               progress failure observed by the harness (never ok) *)
(***************************************************************************)
EXTENDS Naturals, Integers, Sequences, FiniteSets, TLC, TraceIO
Items == 1..63
Ops == 1..319
VARIABLES l,
          bad,        \* the current execution has been rejected (its remaining events are skipped)
          curX,       \* id of the current execution (field x of its Reset event)
          sched,      \* [Items -> 0 none | 1 begun | 2 returned]
          ran,        \* [Items -> number of executions]
          stopPh,     \* phases (successive run() calls) whose stop has been requested
          phase,      \* number of run() calls that have returned
          inRun,      \* between RunStart and RunReturn
          owed,       \* items whose schedule call returned before the stop request: must run before RunReturn
          st,         \* [Ops -> "none" | "started" | "done" | "freed"]
          okind, olen, stopped,
          wr,         \* bytes certainly in the stream (confirmed writes)
          wrMay,      \* bytes possibly in the stream (confirmed + in flight)
          rd,         \* bytes taken out of the stream
          closedR, closedW, errR, errW   \* fault state: errno the OS reports to reads / writes (0 = none)
S == <<sched, ran, stopPh, phase, inRun, owed, st, okind, olen, stopped, wr, wrMay, rd, closedR, closedW, errR, errW>>
vars == <<l, bad, curX, S>>
Fresh == /\ sched = [i \in Items |-> 0] /\ ran = [i \in Items |-> 0] /\ stopPh = {} /\ phase = 0 /\ inRun = FALSE /\ owed = {}
         /\ st = [o \in Ops |-> "none"] /\ okind = [o \in Ops |-> 0] /\ olen = [o \in Ops |-> 0]
         /\ stopped = [o \in Ops |-> FALSE]
         /\ wr = 0 /\ wrMay = 0 /\ rd = 0 /\ closedR = FALSE /\ closedW = FALSE /\ errR = 0 /\ errW = 0
FreshP == /\ sched' = [i \in Items |-> 0] /\ ran' = [i \in Items |-> 0] /\ stopPh' = {} /\ phase' = 0 /\ inRun' = FALSE /\ owed' = {}
          /\ st' = [o \in Ops |-> "none"] /\ okind' = [o \in Ops |-> 0] /\ olen' = [o \in Ops |-> 0]
          /\ stopped' = [o \in Ops |-> FALSE]
          /\ wr' = 0 /\ wrMay' = 0 /\ rd' = 0 /\ closedR' = FALSE /\ closedW' = FALSE /\ errR' = 0 /\ errW' = 0
Init == l = 1 /\ bad = FALSE /\ curX = -1 /\ Fresh /\ TrackInit
E == Log[l]
ItemVars == <<sched, ran, stopPh, phase, inRun, owed>>
OpVars == <<st, okind, olen, stopped>>
PipeVars == <<wr, wrMay, rd, closedR, closedW, errR, errW>>
\* end-of-execution obligations (checked when the next Reset is consumed; the log ends with a sentinel Reset)
Closed == /\ ~inRun
          /\ \A i \in Items : sched[i] # 1
          /\ \A o \in Ops : st[o] \in {"none", "freed"}

(* Every rule is a guard (X_ok) and an effect (X_do).  The monitor is total: an event whose guard is false rejects the  *)
(* current execution (reported with PrintT), whose remaining events are skipped up to the next Reset, so that one TLC run *)
(* classifies every execution of the log.                                                                                *)
SchedBegin_ok == E.i \in Items /\ sched[E.i] = 0
SchedBegin_do == sched' = [sched EXCEPT ![E.i] = 1] /\ UNCHANGED <<ran, stopPh, phase, inRun, owed>> /\ UNCHANGED OpVars /\ UNCHANGED PipeVars
SchedEnd_ok == E.i \in Items /\ sched[E.i] = 1
SchedEnd_do == /\ sched' = [sched EXCEPT ![E.i] = 2]
               /\ owed' = IF phase \notin stopPh /\ ran[E.i] = 0 THEN owed \cup {E.i} ELSE owed
               /\ UNCHANGED <<ran, stopPh, phase, inRun>> /\ UNCHANGED OpVars /\ UNCHANGED PipeVars
\* an item runs at most once, only after it was scheduled, only on the thread inside run()
Ran_ok == E.i \in Items /\ sched[E.i] >= 1 /\ ran[E.i] = 0 /\ E.k = 1 /\ inRun
Ran_do == /\ ran' = [ran EXCEPT ![E.i] = 1] /\ owed' = owed \ {E.i}
          /\ UNCHANGED <<sched, stopPh, phase, inRun>> /\ UNCHANGED OpVars /\ UNCHANGED PipeVars
RunStart_ok == ~inRun /\ E.i = phase
RunStart_do == inRun' = TRUE /\ UNCHANGED <<sched, ran, stopPh, phase, owed>> /\ UNCHANGED OpVars /\ UNCHANGED PipeVars
StopRun_ok == TRUE
StopRun_do == stopPh' = stopPh \cup {E.i} /\ UNCHANGED <<sched, ran, phase, inRun, owed>> /\ UNCHANGED OpVars /\ UNCHANGED PipeVars
\* run(stop_token) returns only after stop was requested, and not before everything accepted earlier has run
RunReturn_ok == inRun /\ phase \in stopPh /\ owed = {}
RunReturn_do == inRun' = FALSE /\ phase' = phase + 1 /\ UNCHANGED <<sched, ran, stopPh, owed>> /\ UNCHANGED OpVars /\ UNCHANGED PipeVars

IoStart_ok == E.i \in Ops /\ st[E.i] = "none"
IoStart_do == /\ st' = [st EXCEPT ![E.i] = "started"] /\ okind' = [okind EXCEPT ![E.i] = E.k] /\ olen' = [olen EXCEPT ![E.i] = E.n]
              /\ wrMay' = IF E.k = 1 THEN wrMay + E.n ELSE wrMay
              /\ UNCHANGED <<stopped, wr, rd, closedR, closedW, errR, errW>> /\ UNCHANGED ItemVars
Stop_ok == E.i \in Ops
Stop_do == stopped' = [stopped EXCEPT ![E.i] = TRUE] /\ UNCHANGED <<st, okind, olen>> /\ UNCHANGED PipeVars /\ UNCHANGED ItemVars
\* exactly one completion per started operation, never before start, never after the state was released
IoDone_ok ==
  /\ E.i \in Ops /\ st[E.i] = "started"
  /\ LET o == E.i IN
     CASE E.k = 2 -> stopped[o]                          \* done: only if the operation's stop source fired
       [] E.k = 0 /\ okind[o] = 0 ->                     \* read value: the bytes actually transferred, intact and in order
            /\ E.ok = 1 /\ E.n >= 0 /\ E.n <= olen[o] /\ rd + E.n <= wrMay
            /\ (E.n = 0) => (olen[o] = 0 \/ closedW)     \* zero bytes only at end of stream
       [] E.k = 0 /\ okind[o] = 1 -> E.n >= 0 /\ E.n <= olen[o] /\ (olen[o] > 0 => E.n > 0)
       [] E.k = 1 -> IF okind[o] = 0 THEN errR # 0 /\ E.n = errR ELSE errW # 0 /\ E.n = errW   \* the OS error of the fault
       [] OTHER -> FALSE
IoDone_do ==
  /\ st' = [st EXCEPT ![E.i] = "done"]
  /\ LET o == E.i IN
     CASE E.k = 0 /\ okind[o] = 0 -> rd' = rd + E.n /\ UNCHANGED <<wr, wrMay>>
       [] E.k = 0 /\ okind[o] = 1 -> wr' = wr + E.n /\ wrMay' = wrMay - (olen[o] - E.n) /\ UNCHANGED rd
       [] OTHER -> wrMay' = (IF okind[o] = 1 THEN wrMay - olen[o] ELSE wrMay) /\ UNCHANGED <<wr, rd>>   \* done / error: nothing transferred
  /\ UNCHANGED <<okind, olen, stopped, closedR, closedW, errR, errW>> /\ UNCHANGED ItemVars
OpFreed_ok == E.i \in Ops /\ st[E.i] = "done"
OpFreed_do == st' = [st EXCEPT ![E.i] = "freed"] /\ UNCHANGED <<okind, olen, stopped>> /\ UNCHANGED PipeVars /\ UNCHANGED ItemVars
Feed_do == wrMay' = wrMay + E.n /\ UNCHANGED <<wr, rd, closedR, closedW, errR, errW>> /\ UNCHANGED OpVars /\ UNCHANGED ItemVars
Fed_do == wr' = wr + E.i /\ wrMay' = wrMay - (E.n - E.i) /\ UNCHANGED <<rd, closedR, closedW, errR, errW>> /\ UNCHANGED OpVars /\ UNCHANGED ItemVars
Drained_ok == E.ok = 1 /\ rd + E.n <= wrMay
Drained_do == rd' = rd + E.n /\ UNCHANGED <<wr, wrMay, closedR, closedW, errR, errW>> /\ UNCHANGED OpVars /\ UNCHANGED ItemVars
Fault_do == /\ closedR' = (closedR \/ E.k = 0) /\ closedW' = (closedW \/ E.k = 1)
            /\ errW' = (IF E.k = 0 THEN E.n ELSE errW) /\ errR' = (IF E.k = 2 THEN E.n ELSE errR)
            /\ UNCHANGED <<wr, wrMay, rd>> /\ UNCHANGED OpVars /\ UNCHANGED ItemVars
\* quiescence: everything scheduled has run, every operation completed and was released, and (while the read end is
\* open) exactly the bytes the writes reported were in the pipe - no more, no less
Quiesce_ok == /\ \A i \in Items : sched[i] >= 1 => ran[i] = 1
              /\ \A o \in Ops : st[o] \in {"none", "freed"}
              /\ wrMay = wr
              /\ (~closedR /\ errR = 0) => rd = wr
\* descriptors / mappings acquired by the context are released by its destructor
Res_ok == E.i = E.n

Ok(e) == CASE e = "SchedBegin" -> SchedBegin_ok [] e = "SchedEnd" -> SchedEnd_ok [] e = "Ran" -> Ran_ok
           [] e = "RunStart" -> RunStart_ok [] e = "StopRun" -> StopRun_ok [] e = "RunReturn" -> RunReturn_ok
           [] e = "IoStart" -> IoStart_ok [] e = "Stop" -> Stop_ok [] e = "IoDone" -> IoDone_ok [] e = "OpFreed" -> OpFreed_ok
           [] e = "Feed" -> TRUE [] e = "Fed" -> TRUE [] e = "Drained" -> Drained_ok [] e = "Fault" -> TRUE
           [] e = "Quiesce" -> Quiesce_ok [] e = "Res" -> Res_ok
           [] OTHER -> FALSE                              \* Stuck (a progress failure seen by the harness) and anything unknown
Do(e) == CASE e = "SchedBegin" -> SchedBegin_do [] e = "SchedEnd" -> SchedEnd_do [] e = "Ran" -> Ran_do
           [] e = "RunStart" -> RunStart_do [] e = "StopRun" -> StopRun_do [] e = "RunReturn" -> RunReturn_do
           [] e = "IoStart" -> IoStart_do [] e = "Stop" -> Stop_do [] e = "IoDone" -> IoDone_do [] e = "OpFreed" -> OpFreed_do
           [] e = "Feed" -> Feed_do [] e = "Fed" -> Fed_do [] e = "Drained" -> Drained_do [] e = "Fault" -> Fault_do
           [] OTHER -> UNCHANGED S
Next ==
  /\ l <= Len(Log) /\ l' = l + 1
  /\ IF E.e = "Reset"
     THEN /\ IF bad \/ Closed THEN TRUE ELSE PrintT(<<"io-reject", curX, l, "end-of-execution">>)
          /\ FreshP /\ bad' = FALSE /\ curX' = E.x
     ELSE /\ curX' = curX
          /\ IF bad THEN bad' = TRUE /\ UNCHANGED S
             ELSE IF Ok(E.e) THEN bad' = FALSE /\ Do(E.e)
             ELSE bad' = TRUE /\ UNCHANGED S /\ PrintT(<<"io-reject", curX, l, E.e>>)
Spec == Init /\ [][Next]_vars
Track == TrackAt(l, TRUE)
Report == ReportTrace
=============================================================================
