SPECIFICATION FairSpec
INVARIANTS TriggerCleanupAtMostOnce TriggerCleanupOnlyAfterOutstandingNext ResultAtMostOnce ResultAfterCleanup Finally
PROPERTY Termination
CHECK_DEADLOCK FALSE
CONSTANT Mut = "k3_ignore"
