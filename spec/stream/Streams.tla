------------------------------ MODULE Streams ------------------------------
(***************************************************************************)
(* Operational semantics of libunifex stream pipelines (property C13).     *)
(*                                                                         *)
(* A configuration cfg (chosen in Init, constant afterwards) fixes a       *)
(* *shape* - a consumer (reduce_stream | for_each | a manual driver that   *)
(* calls next()/cleanup() itself) over a tree of stream nodes - the script *)
(* of every harness source (number of elements, terminal outcome done or   *)
(* error, per next() call whether it completes inline or is deferred, the  *)
(* reaction of a deferred next() to a stop request, the mode of cleanup()) *)
(* and the scripted answers of every filter predicate.                     *)
(*                                                                         *)
(* The state S is one record.  Nested C++ calls are modelled by a signal   *)
(* stack (head = innermost call): next(n) / cleanup(n) start the           *)
(* operation on stream node n, ncomplete(k, r) / ccomplete(k, r) deliver   *)
(* the completion of node k's operation to its parent, reqstop/cbloop/     *)
(* runcb model inplace_stop_source, and a few continuation signals (tnd2,  *)
(* tuc2, tuc3, tereq, tecomp) split library functions at the points where  *)
(* a nested call can re-enter (take_until's cleanupReady_ load/exchange,   *)
(* type_erase's reference count).  External actions are enabled only when  *)
(* the stack is empty.  Elements are integers: element i of source s is    *)
(* 100*s+i, range_stream yields 0..k-1, transform node q adds 1000*q, the  *)
(* reducer is acc' = 7*acc + x.                                            *)
(***************************************************************************)
EXTENDS Integers, Sequences, FiniteSets, TLC

CONSTANTS Shapes,       \* set of shape records (from the catalogue JSON)
          SrcScripts,   \* scripts allowed for harness sources in source position
          TrigScripts,  \* scripts allowed for harness sources below the trigger argument of a take_until
          PredScripts   \* answer sequences allowed for filter predicates

VARIABLES cfg, S
vars == <<cfg, S>>

\* ------------------------------------------------------------------ static structure
Shape == cfg.shape
N == Len(Shape.kind)
Nodes == 1..N
Kind(n) == Shape.kind[n]
Kids(n) == Shape.kids[n]
Kid(n) == Shape.kids[n][1]
Par(n) == Shape.par[n]
Arg(n) == Shape.arg[n]
Root == Shape.root
Cons == Shape.cons
Never == N + 1
Sources == 0..(N + 1)             \* 0: the consumer's stop source; n: the stop source owned by stream node n
LeafKinds == {"src", "range", "single", "never"}
Leaves == {n \in Nodes : Kind(n) \in LeafKinds}
Srcs == {n \in Nodes : Kind(n) = "src"}
Filters == {n \in Nodes : Kind(n) = "filter"}
ViaKinds == {"via", "typed_via", "delay"}
CtxKinds == ViaKinds \cup {"on"}
Ctxs == {Arg(n) : n \in {m \in Nodes : Kind(m) \in CtxKinds}}
OwnsSource(n) == Kind(n) \in {"take_until", "stop_imm", "type_erase"}
\* the stop source whose token the next() operation of node n sees through its receiver
RECURSIVE NTok(_)
NTok(n) == LET q == Par(n) IN IF q = 0 THEN 0 ELSE IF OwnsSource(q) THEN q ELSE NTok(q)
RECURSIVE Desc(_)
Desc(n) == UNION {{Kids(n)[i]} \cup Desc(Kids(n)[i]) : i \in 1..Len(Kids(n))}
ShapeTrig(sh) ==      \* nodes below the trigger argument of some take_until
  LET RECURSIVE D(_)
      D(n) == UNION {{sh.kids[n][i]} \cup D(sh.kids[n][i]) : i \in 1..Len(sh.kids[n])}
  IN UNION {{sh.kids[q][2]} \cup D(sh.kids[q][2]) : q \in {m \in 1..Len(sh.kind) : sh.kind[m] = "take_until"}}
InTrig == ShapeTrig(Shape)

\* ------------------------------------------------------------------ values
NONE == [ch |-> "none", x |-> 0]
Val(x) == [ch |-> "v", x |-> x]
Err(x) == [ch |-> "e", x |-> x]
Done == [ch |-> "d", x |-> 0]
Sig(k, n, r) == [k |-> k, n |-> n, r |-> r]
Script(s) == cfg.src[s]
Bit(seq, i, dflt) == IF i <= Len(seq) THEN seq[i] = 1 ELSE dflt

\* ------------------------------------------------------------------ state helpers
Repl(T, frames) == [T EXCEPT !.stack = frames \o Tail(@)]
ReqOf(T, s) == IF s = Never THEN FALSE ELSE T.req[s]
Dereg(T, s, c) == [T EXCEPT !.cbs[s] = SelectSeq(@, LAMBDA x : x # c)]
Reg(T, s, c) == [T EXCEPT !.cbs[s] = <<c>> \o @]
Viol(T, what, n) == [T EXCEPT !.viol = Append(@, <<what, n>>)]

InitS ==
  [stack |-> <<>>,
   ph |-> [n \in Nodes |-> "fresh"],            \* protocol phase of every stream as driven by its consumer
   nexted |-> [n \in Nodes |-> FALSE],           \* next() of this stream was ever started
   pos |-> [n \in Nodes |-> 0], calls |-> [n \in Nodes |-> 0],
   npend |-> [n \in Nodes |-> FALSE], cpend |-> [n \in Nodes |-> FALSE],
   req |-> [s \in Sources |-> FALSE], cbs |-> [s \in Sources |-> <<>>],
   sist |-> [n \in Nodes |-> "not_started"],     \* stop_immediately: state_
   nerr |-> [n \in Nodes |-> NONE],              \* stop_immediately: nextError_
   ready |-> [n \in Nodes |-> FALSE],            \* take_until: cleanupReady_
   trig |-> [n \in Nodes |-> FALSE],             \* take_until: triggerNextStarted_
   cdone |-> [n \in Nodes |-> FALSE],            \* take_until cleanup operation: cleanupCompleted_
   serr |-> [n \in Nodes |-> NONE], terr |-> [n \in Nodes |-> NONE],
   rc |-> [n \in Nodes |-> 0],                   \* type_erase next operation: refCount_
   tec |-> [n \in Nodes |-> FALSE],              \* type_erase next operation connected (stop callback registered) but not yet started
   pcalls |-> [n \in Nodes |-> 0],               \* filter: predicate invocations
   acc |-> 0, mode |-> "run", perr |-> NONE,     \* reduce_stream: state_, which child operation is active, pending error
   ctxq |-> [c \in Ctxs |-> <<>>],
   cur |-> <<"-", 0>>, started |-> FALSE,
   dnext |-> FALSE, dcl |-> FALSE, dlast |-> "", dcalls |-> 0,      \* manual driver
   viol |-> <<>>,                                \* protocol violations committed by an adaptor towards its child stream
   \* histories (observable through the harness)
   elems |-> <<>>,        \* [x, ctx] per element handed to the consumer
   sev |-> <<>>,          \* <<s, ev, a>> per source event: ns (a = stop requested at start) nv ne nd stop cs cd ce
   fn |-> <<>>,           \* <<q, x>> per user callable invocation (transform / predicate / adaptor function)
   res |-> <<>>]          \* <<kind, ch, v>>: r = consumer result, n / c = completion seen by the manual driver

Init ==
  /\ \E sh \in Shapes :
       LET sn == {n \in 1..Len(sh.kind) : sh.kind[n] = "src"}
           tn == ShapeTrig(sh) \cap sn
           fl == {n \in 1..Len(sh.kind) : sh.kind[n] = "filter"} IN
       \E ms \in [sn \ tn -> SrcScripts] : \E ts \in [tn -> TrigScripts] : \E pr \in [fl -> PredScripts] :
          cfg = [shape |-> sh, src |-> [n \in sn |-> IF n \in tn THEN ts[n] ELSE ms[n]], pred |-> pr]
  /\ S = InitS

\* ------------------------------------------------------------------ internal steps
Fwd(T, q, r) == Repl(T, <<Sig("ncomplete", q, r)>>)
CFwd(T, q, r) == Repl(T, <<Sig("ccomplete", q, r)>>)
LogFn(T, q, x) == [T EXCEPT !.fn = Append(@, <<q, x>>)]
LogSev(T, s, e, a) == [T EXCEPT !.sev = Append(@, <<s, e, a>>)]

\* next(stream n) connected and started by its consumer
DoNext(T, n) ==
  LET Ta == IF T.ph[n] \in {"fresh", "idle"} THEN T ELSE Viol(T, "next-in-phase-" \o T.ph[n], n)
      T0 == [Ta EXCEPT !.ph[n] = "nextActive", !.nexted[n] = TRUE]
      K == Kind(n)
      t == NTok(n) IN
  CASE K = "src" ->
         LET call == T.calls[n] + 1
             stopped == ReqOf(T, t)
             T1 == LogSev([T0 EXCEPT !.calls[n] = call], n, "ns", IF stopped THEN 1 ELSE 0) IN
         IF Bit(Script(n).inl, call, TRUE)
         THEN Repl(T1, <<Sig("srcfin", n, NONE)>>)
         ELSE IF stopped THEN Repl([T1 EXCEPT !.npend[n] = TRUE], <<Sig("runcb", n, NONE)>>)
              ELSE Repl(Reg([T1 EXCEPT !.npend[n] = TRUE], t, n), <<>>)
    [] K = "range" ->
         IF T.pos[n] < Arg(n) THEN Fwd([T0 EXCEPT !.pos[n] = @ + 1], n, Val(T.pos[n])) ELSE Fwd(T0, n, Done)
    [] K = "single" ->
         IF T.pos[n] = 0 THEN Fwd([T0 EXCEPT !.pos[n] = 1], n, Val(100 * n + 1)) ELSE Fwd(T0, n, Done)
    [] K = "never" ->
         IF ReqOf(T, t) THEN Fwd(T0, n, Done) ELSE Repl(Reg([T0 EXCEPT !.npend[n] = TRUE], t, n), <<>>)
    [] K \in {"adapt", "adapt2", "next_adapt"} -> Repl(LogFn(T0, n, 0), <<Sig("next", Kid(n), NONE)>>)
    [] K = "take_until" ->
         \* the next operation of the source was connected when take_until's own next operation was constructed
         Repl([T0 EXCEPT !.trig[n] = TRUE],
              <<Sig("conn", Kids(n)[1], NONE)>> \o (IF T.trig[n] THEN <<>> ELSE <<Sig("next", Kids(n)[2], NONE)>>)
              \o <<Sig("tureg", n, NONE), Sig("next", Kids(n)[1], NONE)>>)
    [] K = "stop_imm" ->
         IF ReqOf(T, t) THEN Fwd(T0, n, Done)
         ELSE Repl(Reg([T0 EXCEPT !.sist[n] = "active"], t, n), <<Sig("next", Kid(n), NONE)>>)
    [] K = "type_erase" ->      \* the stop callback is registered when the next operation is connected (see DoConn)
         IF T.tec[n] THEN Repl([T0 EXCEPT !.tec[n] = FALSE], <<Sig("next", Kid(n), NONE)>>)
         ELSE IF ReqOf(T, t) THEN Repl([T0 EXCEPT !.rc[n] = 1], <<Sig("tereq", n, NONE), Sig("next", Kid(n), NONE)>>)
         ELSE Repl(Reg([T0 EXCEPT !.rc[n] = 1], t, n), <<Sig("next", Kid(n), NONE)>>)
    [] K = "on" -> Repl([T0 EXCEPT !.ctxq[Arg(n)] = Append(@, Sig("nstart", n, NONE))], <<>>)
    [] OTHER -> Repl(T0, <<Sig("next", Kid(n), NONE)>>)     \* transform filter cleanup_adapt via typed_via delay

\* connect(next(stream n), receiver) without start: an adaptor that connects its child's next operation in its own constructor passes
\* the connect down; type_erase registers its stop callback there (runs inline if stop was already requested)
ConnThrough == {"transform", "filter", "via", "typed_via", "delay", "adapt", "adapt2", "next_adapt", "cleanup_adapt"}
DoConn(T, n) ==
  LET K == Kind(n) IN
  CASE K = "type_erase" ->
         IF T.tec[n] THEN Repl(T, <<>>)
         ELSE IF ReqOf(T, NTok(n)) THEN Repl([T EXCEPT !.rc[n] = 1, !.tec[n] = TRUE], <<Sig("tereq", n, NONE)>>)
         ELSE Repl(Reg([T EXCEPT !.rc[n] = 1, !.tec[n] = TRUE], NTok(n), n), <<>>)
    [] K \in ConnThrough -> Repl(T, <<Sig("conn", Kid(n), NONE)>>)
    [] K = "take_until" -> Repl(T, <<Sig("conn", Kids(n)[1], NONE)>>)
    [] OTHER -> Repl(T, <<>>)

\* a harness source completes its outstanding next(): scripted outcome, or done when completing from its stop callback
DoSrcFin(T, n, fromStop) ==
  LET sc == Script(n)
      r == IF fromStop THEN Done
           ELSE IF T.pos[n] < sc.len THEN Val(100 * n + T.pos[n] + 1)
           ELSE IF sc.end = "e" THEN Err(9000 + n) ELSE Done
      T1 == [Dereg(T, NTok(n), n) EXCEPT !.npend[n] = FALSE, !.pos[n] = IF r.ch = "v" THEN @ + 1 ELSE @] IN
  Fwd(LogSev(T1, n, "n" \o r.ch, r.x), n, r)

DoTuReg(T, n) ==      \* take_until next operation: forward the consumer's stop request to the stream's stop source
  IF ReqOf(T, NTok(n)) THEN Repl(T, <<Sig("reqstop", n, NONE)>>) ELSE Repl(Reg(T, NTok(n), n), <<>>)

\* type_erase next operation: request_stop() (from the stop callback)
DoTeReq(T, n) ==
  IF T.rc[n] = 0 THEN Repl([T EXCEPT !.rc[n] = 1], <<>>)
  ELSE Repl([T EXCEPT !.rc[n] = @ + 1], <<Sig("reqstop", n, NONE), Sig("tecomp", n, Done)>>)
\* type_erase next receiver: the last of {inner completion, request_stop} delivers
DoTeComp(T, n, r) ==
  IF T.rc[n] = 1 THEN Fwd(Dereg([T EXCEPT !.rc[n] = 0], NTok(n), n), n, r)
  ELSE Repl([T EXCEPT !.rc[n] = @ - 1], <<>>)

ElemRec(T, x) == [x |-> x, ctx |-> T.cur]

\* the next() operation of node k completed with r: delivered to its parent
DoNComplete(T, k, r) ==
  LET Ta == IF T.ph[k] = "nextActive" THEN T ELSE Viol(T, "ncomplete-in-phase-" \o T.ph[k], k)
      T0 == [Ta EXCEPT !.ph[k] = "idle"]
      q == Par(k) IN
  IF q = 0 THEN
    IF Cons = "manual"
    THEN Repl([T0 EXCEPT !.res = Append(@, <<"n", r.ch, r.x>>), !.dnext = FALSE, !.dlast = r.ch,
                         !.elems = IF r.ch = "v" THEN Append(@, ElemRec(T, r.x)) ELSE @], <<>>)
    ELSE CASE r.ch = "v" ->
                Repl([T0 EXCEPT !.elems = Append(@, ElemRec(T, r.x)),
                                !.acc = IF Cons = "reduce" THEN 7 * @ + r.x ELSE @], <<Sig("next", k, NONE)>>)
           [] r.ch = "d" -> Repl([T0 EXCEPT !.mode = "dc"], <<Sig("cleanup", k, NONE)>>)
           [] OTHER -> Repl([T0 EXCEPT !.mode = "ec", !.perr = r], <<Sig("cleanup", k, NONE)>>)
  ELSE
    LET K == Kind(q) IN
    CASE K = "transform" ->
           IF r.ch = "v" THEN Fwd(LogFn(T0, q, r.x), q, Val(r.x + 1000 * q)) ELSE Fwd(T0, q, r)
      [] K = "filter" ->
           IF r.ch = "v"
           THEN LET T1 == [LogFn(T0, q, r.x) EXCEPT !.pcalls[q] = @ + 1] IN
                IF Bit(cfg.pred[q], T.pcalls[q] + 1, TRUE) THEN Fwd(T1, q, r)
                ELSE Repl(T1, <<Sig("next", k, NONE)>>)
           ELSE Fwd(T0, q, r)
      [] K = "take_until" ->
           IF k = Kids(q)[1]
           THEN LET T1 == Dereg(T0, NTok(q), q) IN
                IF r.ch = "v" THEN Fwd(T1, q, r)
                ELSE Repl(T1, <<Sig("reqstop", q, NONE), Sig("ncomplete", q, r)>>)
           ELSE \* trigger_next_receiver: any completion of next(trigger) -> trigger_next_done()
                IF ~T.ready[q] THEN Repl(T0, <<Sig("reqstop", q, NONE), Sig("tnd2", q, NONE)>>)
                ELSE Repl(T0, <<Sig("cleanup", Kids(q)[2], NONE)>>)
      [] K = "stop_imm" ->       \* next_receiver::handle_signal
           LET T1 == [T0 EXCEPT !.nerr[q] = IF r.ch = "e" THEN r ELSE @] IN
           CASE T.sist[q] = "active" ->
                  Fwd(Dereg([T0 EXCEPT !.sist[q] = "completed"], NTok(q), q), q, r)
             [] T.sist[q] = "stopped" -> Repl([T1 EXCEPT !.sist[q] = "completed"], <<>>)
             [] T.sist[q] = "cleanup_requested" -> Repl(T1, <<Sig("cleanup", k, NONE)>>)
             [] OTHER -> Repl(Viol(T0, "stop_imm-signal-in-" \o T.sist[q], q), <<>>)
      [] K = "type_erase" -> Repl(T0, <<Sig("tecomp", q, r)>>)
      [] K \in ViaKinds -> Repl([T0 EXCEPT !.ctxq[Arg(q)] = Append(@, Sig("nres", q, r))], <<>>)
      [] OTHER -> Fwd(T0, q, r)      \* adapt adapt2 next_adapt cleanup_adapt on

DoTnd2(T, q) ==      \* trigger_next_done() after its request_stop(): cleanupReady_.exchange(true)
  IF ~T.ready[q] THEN Repl([T EXCEPT !.ready[q] = TRUE], <<>>)
  ELSE Repl(T, <<Sig("cleanup", Kids(q)[2], NONE)>>)

\* cleanup(stream n) connected and started by its consumer
DoCleanup(T, n) ==
  LET Ta == IF T.ph[n] \in {"fresh", "idle"} THEN T ELSE Viol(T, "cleanup-in-phase-" \o T.ph[n], n)
      T0 == [Ta EXCEPT !.ph[n] = "cleanupActive"]
      K == Kind(n) IN
  CASE K = "src" ->
         LET T1 == LogSev(T0, n, "cs", 0) IN
         IF Script(n).cl \in {"id", "ie"} THEN Repl(T1, <<Sig("srcclfin", n, NONE)>>)
         ELSE Repl([T1 EXCEPT !.cpend[n] = TRUE], <<>>)
    [] K \in {"range", "single", "never"} -> CFwd(T0, n, Done)
    [] K \in {"adapt", "adapt2", "cleanup_adapt"} -> Repl(LogFn(T0, n, 0), <<Sig("cleanup", Kid(n), NONE)>>)
    [] K = "take_until" -> Repl(T0, <<Sig("cleanup", Kids(n)[1], NONE), Sig("tuc2", n, NONE)>>)
    [] K = "stop_imm" ->
         CASE T.sist[n] = "stopped" -> Repl([T0 EXCEPT !.sist[n] = "cleanup_requested"], <<>>)
           [] T.sist[n] = "completed" -> Repl(T0, <<Sig("cleanup", Kid(n), NONE)>>)
           [] T.sist[n] = "not_started" -> CFwd(T0, n, Done)
           [] OTHER -> Repl(Viol(T0, "stop_imm-cleanup-in-" \o T.sist[n], n), <<>>)
    [] K = "on" -> Repl([T0 EXCEPT !.ctxq[Arg(n)] = Append(@, Sig("cstart", n, NONE))], <<>>)
    [] OTHER -> Repl(T0, <<Sig("cleanup", Kid(n), NONE)>>)

DoSrcClFin(T, n) ==
  LET r == IF Script(n).cl \in {"ie", "de"} THEN Err(9500 + n) ELSE Done IN
  CFwd(LogSev([T EXCEPT !.cpend[n] = FALSE], n, "c" \o r.ch, r.x), n, r)

\* take_until cleanup operation after starting cleanup(source): load cleanupReady_ / request_stop / exchange
DoTuc2(T, n) ==
  IF ~T.ready[n] THEN Repl(T, <<Sig("reqstop", n, NONE), Sig("tuc3", n, NONE)>>)
  ELSE Repl(T, <<Sig("cleanup", Kids(n)[2], NONE)>>)
DoTuc3(T, n) ==
  IF ~T.ready[n] THEN Repl([T EXCEPT !.ready[n] = TRUE], <<>>)
  ELSE Repl(T, <<Sig("cleanup", Kids(n)[2], NONE)>>)

\* the cleanup() operation of node k completed with r (done or error): delivered to its parent
DoCComplete(T, k, r) ==
  LET Ta == IF T.ph[k] = "cleanupActive" THEN T ELSE Viol(T, "ccomplete-in-phase-" \o T.ph[k], k)
      T0 == [Ta EXCEPT !.ph[k] = "cleaned"]
      q == Par(k) IN
  IF q = 0 THEN
    IF Cons = "manual" THEN Repl([T0 EXCEPT !.res = Append(@, <<"c", r.ch, r.x>>)], <<>>)
    ELSE LET out == IF r.ch = "e" THEN <<"r", "e", r.x>>
                    ELSE IF T.mode = "ec" THEN <<"r", "e", T.perr.x>>
                    ELSE <<"r", "v", T.acc>> IN
         Repl([T0 EXCEPT !.res = Append(@, out), !.mode = "fin"], <<>>)
  ELSE
    LET K == Kind(q) IN
    CASE K = "take_until" ->
           LET isSrc == k = Kids(q)[1]
               T1 == IF r.ch = "e" THEN (IF isSrc THEN [T0 EXCEPT !.serr[q] = r] ELSE [T0 EXCEPT !.terr[q] = r]) ELSE T0 IN
           IF ~T.cdone[q] THEN Repl([T1 EXCEPT !.cdone[q] = TRUE], <<>>)
           ELSE CFwd(T1, q, IF T1.serr[q] # NONE THEN T1.serr[q] ELSE IF T1.terr[q] # NONE THEN T1.terr[q] ELSE Done)
      [] K = "stop_imm" -> CFwd(T0, q, IF T.nerr[q] # NONE THEN T.nerr[q] ELSE r)
      [] K \in ViaKinds -> Repl([T0 EXCEPT !.ctxq[Arg(q)] = Append(@, Sig("cres", q, r))], <<>>)
      [] OTHER -> CFwd(T0, q, r)

DoReqStop(T, s) ==
  IF s = Never \/ T.req[s] THEN Repl(T, <<>>)
  ELSE Repl([T EXCEPT !.req[s] = TRUE], <<Sig("cbloop", s, NONE)>>)
DoCbLoop(T, s) ==
  IF T.cbs[s] = <<>> THEN Repl(T, <<>>)
  ELSE Repl([T EXCEPT !.cbs[s] = Tail(@)], <<Sig("runcb", Head(T.cbs[s]), NONE), Sig("cbloop", s, NONE)>>)
DoRunCb(T, c) ==
  LET K == Kind(c) IN
  CASE K = "src" ->
         LET T1 == LogSev(T, c, "stop", 0) IN
         IF Script(c).onStop = "done" /\ T.npend[c] THEN Repl(T1, <<Sig("srcstopfin", c, NONE)>>) ELSE Repl(T1, <<>>)
    [] K = "never" -> IF T.npend[c] THEN Fwd([T EXCEPT !.npend[c] = FALSE], c, Done) ELSE Repl(T, <<>>)
    [] K = "take_until" -> Repl(T, <<Sig("reqstop", c, NONE)>>)
    [] K = "stop_imm" ->     \* cancel_next_callback
         IF T.sist[c] = "active"
         THEN Repl([T EXCEPT !.sist[c] = "stopped"], <<Sig("reqstop", c, NONE), Sig("ncomplete", c, Done)>>)
         ELSE Repl(T, <<>>)
    [] K = "type_erase" -> Repl(T, <<Sig("tereq", c, NONE)>>)
    [] OTHER -> Repl(T, <<>>)

StepOf(T) ==
  LET top == Head(T.stack) IN
  CASE top.k = "next" -> DoNext(T, top.n)
    [] top.k = "ncomplete" -> DoNComplete(T, top.n, top.r)
    [] top.k = "cleanup" -> DoCleanup(T, top.n)
    [] top.k = "ccomplete" -> DoCComplete(T, top.n, top.r)
    [] top.k = "srcfin" -> DoSrcFin(T, top.n, FALSE)
    [] top.k = "srcstopfin" -> DoSrcFin(T, top.n, TRUE)
    [] top.k = "srcclfin" -> DoSrcClFin(T, top.n)
    [] top.k = "conn" -> DoConn(T, top.n)
    [] top.k = "tureg" -> DoTuReg(T, top.n)
    [] top.k = "tnd2" -> DoTnd2(T, top.n)
    [] top.k = "tuc2" -> DoTuc2(T, top.n)
    [] top.k = "tuc3" -> DoTuc3(T, top.n)
    [] top.k = "tereq" -> DoTeReq(T, top.n)
    [] top.k = "tecomp" -> DoTeComp(T, top.n, top.r)
    [] top.k = "reqstop" -> DoReqStop(T, top.n)
    [] top.k = "cbloop" -> DoCbLoop(T, top.n)
    [] top.k = "runcb" -> DoRunCb(T, top.n)

Internal == S.stack # <<>> /\ S' = StepOf(S) /\ UNCHANGED cfg
RECURSIVE RunToQuiescence(_)
RunToQuiescence(T) == IF T.stack = <<>> THEN T ELSE RunToQuiescence(StepOf(T))

\* ------------------------------------------------------------------ external actions
Quiescent == S.stack = <<>>
Ext(T, k, n, frames) == [T EXCEPT !.stack = frames, !.cur = <<k, n>>]
HasTakeUntil == \E n \in Nodes : Kind(n) = "take_until"
EnStart(T) == Cons # "manual" /\ ~T.started
ApplyStart(T) == [Ext(T, "S", 0, <<Sig("next", Root, NONE)>>) EXCEPT !.started = TRUE]
\* the manual driver respects the stream protocol: one operation at a time, no next() after done / error / cleanup()
EnDrvNext(T) == Cons = "manual" /\ ~T.dnext /\ ~T.dcl /\ T.dlast \notin {"d", "e"} /\ T.dcalls < 4
ApplyDrvNext(T) == [Ext(T, "A", 0, <<Sig("next", Root, NONE)>>) EXCEPT !.dnext = TRUE, !.dcalls = @ + 1, !.started = TRUE]
\* (cleanup() of a take_until stream whose next() was never called never completes in the library - see the report;
\*  the driver does not do that)
EnDrvCleanup(T) == Cons = "manual" /\ ~T.dnext /\ ~T.dcl /\ (HasTakeUntil => T.dcalls > 0)
ApplyDrvCleanup(T) == [Ext(T, "Z", 0, <<Sig("cleanup", Root, NONE)>>) EXCEPT !.dcl = TRUE, !.started = TRUE]
EnCompleteNext(T, s) == Kind(s) = "src" /\ T.npend[s]
ApplyCompleteNext(T, s) == Ext(T, "N", s, <<Sig("srcfin", s, NONE)>>)
EnCompleteCleanup(T, s) == Kind(s) = "src" /\ T.cpend[s]
ApplyCompleteCleanup(T, s) == Ext(T, "K", s, <<Sig("srcclfin", s, NONE)>>)
EnStop(T) == ~T.req[0]
ApplyStop(T) == Ext(T, "X", 0, <<Sig("reqstop", 0, NONE)>>)
EnRunCtx(T, c) == T.ctxq[c] # <<>>
ApplyRunCtx(T, c) ==
  LET it == Head(T.ctxq[c])
      fr == CASE it.k = "nres" -> <<Sig("ncomplete", it.n, it.r)>>
              [] it.k = "cres" -> <<Sig("ccomplete", it.n, it.r)>>
              [] it.k = "nstart" -> <<Sig("next", Kid(it.n), NONE)>>
              [] OTHER -> <<Sig("cleanup", Kid(it.n), NONE)>> IN
  [Ext(T, "C", c, fr) EXCEPT !.ctxq[c] = Tail(@)]

External ==
  /\ Quiescent /\ UNCHANGED cfg
  /\ \/ EnStart(S) /\ S' = ApplyStart(S)
     \/ EnDrvNext(S) /\ S' = ApplyDrvNext(S)
     \/ EnDrvCleanup(S) /\ S' = ApplyDrvCleanup(S)
     \/ EnStop(S) /\ S' = ApplyStop(S)
     \/ \E s \in Nodes : EnCompleteNext(S, s) /\ S' = ApplyCompleteNext(S, s)
     \/ \E s \in Nodes : EnCompleteCleanup(S, s) /\ S' = ApplyCompleteCleanup(S, s)
     \/ \E c \in Ctxs : EnRunCtx(S, c) /\ S' = ApplyRunCtx(S, c)
Next == Internal \/ External
Spec == Init /\ [][Next]_vars

\* ------------------------------------------------------------------ properties
ElemX == [i \in 1..Len(S.elems) |-> S.elems[i].x]
IsPrefix(a, b) == Len(a) <= Len(b) /\ \A i \in 1..Len(a) : a[i] = b[i]
\* the sequence an adaptor's definition prescribes, as a function of what the sources yielded and the predicates answered
RECURSIVE Exp(_)
Exp(n) ==
  LET K == Kind(n) IN
  CASE K = "src" -> LET ev == SelectSeq(S.sev, LAMBDA e : e[1] = n /\ e[2] = "nv") IN [i \in 1..Len(ev) |-> ev[i][3]]
    [] K = "range" -> [i \in 1..S.pos[n] |-> i - 1]
    [] K = "single" -> IF S.pos[n] = 1 THEN <<100 * n + 1>> ELSE <<>>
    [] K = "never" -> <<>>
    [] K = "transform" -> LET c == Exp(Kid(n)) IN [i \in 1..Len(c) |-> c[i] + 1000 * n]
    [] K = "filter" ->
         LET c == Exp(Kid(n))
             m == IF S.pcalls[n] < Len(c) THEN S.pcalls[n] ELSE Len(c)
             RECURSIVE Sel(_)
             Sel(i) == IF i > m THEN <<>> ELSE (IF Bit(cfg.pred[n], i, TRUE) THEN <<c[i]>> ELSE <<>>) \o Sel(i + 1)
         IN Sel(1)
    [] OTHER -> Exp(Kids(n)[1])
Fold(seq) == LET RECURSIVE F(_, _)
                 F(i, a) == IF i > Len(seq) THEN a ELSE F(i + 1, 7 * a + seq[i])
             IN F(1, 0)
Results == SelectSeq(S.res, LAMBDA e : e[1] \in {"r", "c"})
Delivered == Results # <<>>
NothingPending == /\ \A n \in Nodes : ~S.npend[n] /\ ~S.cpend[n]
                  /\ \A c \in Ctxs : S.ctxq[c] = <<>>

ProtocolRespected == S.viol = <<>>          \* CleanupOnlyAfterOutstandingNext, no overlapping next(), at most one cleanup()
ElementsAreThePrescribedSequence == IsPrefix(ElemX, Exp(Root))
FoldOverExactlyThose ==
  \A i \in 1..Len(S.res) : (S.res[i][1] = "r" /\ S.res[i][2] = "v") =>
      S.res[i][3] = IF Cons = "reduce" THEN Fold(ElemX) ELSE 0
\* without a stop request nothing is dropped: the consumer saw every element the definition prescribes
CutAllowed == \E n \in Nodes : Kind(n) = "stop_imm" /\ ReqOf(S, NTok(n))
NothingDroppedWithoutStop == (Delivered /\ ~CutAllowed /\ Cons # "manual") => ElemX = Exp(Root)
CleanupExactlyOnceIfNextEverStarted == Delivered => \A n \in Leaves : S.nexted[n] => S.ph[n] = "cleaned"
ResultAtMostOnce == Len(Results) <= 1
ResultAfterCleanup == Delivered => \A n \in Nodes : S.ph[n] \in {"fresh", "cleaned"}
NoElementAfterResult == Delivered => \A n \in Nodes : S.ph[n] # "nextActive"
\* a stop request that reaches a stop_immediately stream ends its next() at once
StopImmediatelyAtOnce ==
  Quiescent => \A n \in Nodes : (Kind(n) = "stop_imm" /\ ReqOf(S, NTok(n))) => S.ph[n] # "nextActive"
\* ... and the abandoned next() is awaited by cleanup: the source is cleaned only after its next() completed
AbandonedNextAwaited == \A n \in Nodes : S.ph[n] \in {"cleanupActive", "cleaned"} => ~S.npend[n]
NoLostCompletion == (Quiescent /\ S.started /\ Cons # "manual" /\ NothingPending) => Delivered
DrvNoLostCompletion == (Quiescent /\ Cons = "manual" /\ NothingPending) => (~S.dnext /\ (S.dcl => Delivered))
=============================================================================
