---- MODULE StopImmediatelyX ----
(* Export of every transition of StopImmediately (values of all variables before and after) for guided replay on the *)
(* real stop_immediately under the thread controller (engines/stream: the labels correspond to the stream.si.* sites). *)
EXTENDS StopImmediately, Sequences, Json, IOUtils, TLCExt
Rec == [state |-> state, pcC |-> pcC, pcS |-> pcS, pcK |-> pcK, oldC |-> oldC, oldS |-> oldS, oldK |-> oldK,
        delivered |-> delivered, deliveredDone |-> deliveredDone, cleanupStarts |-> cleanupStarts, cbRunning |-> cbRunning]
RecN == [state |-> state', pcC |-> pcC', pcS |-> pcS', pcK |-> pcK', oldC |-> oldC', oldS |-> oldS', oldK |-> oldK',
         delivered |-> delivered', deliveredDone |-> deliveredDone', cleanupStarts |-> cleanupStarts', cbRunning |-> cbRunning']
EdgeLog ==
  LET rec == [s |-> <<TLCFP(vars), TLCFP(<<vars, 1>>)>>, t |-> <<TLCFP(vars'), TLCFP(<<vars', 1>>)>>, v |-> Rec, w |-> RecN]
  IN Serialize(ToJson(rec) \o "\n", IOEnv.EDGES,
        [format |-> "TXT", charset |-> "UTF-8", openOptions |-> <<"WRITE", "CREATE", "APPEND">>]).exitValue = 0
====
