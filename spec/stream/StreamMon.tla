------------------------------ MODULE StreamMon ------------------------------
(***************************************************************************)
(* Monitor of property C13 over the API-level event log of one stream      *)
(* pipeline execution (engine stream).  The Reset event that opens an      *)
(* execution carries the pipeline definition (consumer kind and the tree   *)
(* of adaptor kinds); the monitor is the most permissive behaviour over    *)
(* the logged events that still satisfies the statement:                   *)
(*  - the elements handed to the consumer are, in order and without        *)
(*    duplicates or inventions, a prefix of the sequence the adaptors'     *)
(*    definitions prescribe as a function of what the harness sources      *)
(*    yielded and the predicates answered (Ex below); every transform /    *)
(*    predicate call is applied to the next element of its input sequence  *)
(*    (exactly once per element, in order); when the result is delivered   *)
(*    nothing was dropped unless a stop request could cut the sequence at  *)
(*    a stop_immediately (or the consumer is the manual driver);           *)
(*  - reduce_stream completes with the fold over precisely those elements, *)
(*    with an error if a source (outside a take_until trigger) or a        *)
(*    cleanup reported one, and only then (or when a trigger's error was   *)
(*    abandoned inside a stop_immediately, whose cleanup re-emits it; the  *)
(*    error of a source below a type_erase may be dropped if a stop        *)
(*    request won the race against that completion); the error completion  *)
(*    carries an exception; never done; at most once;                      *)
(*  - per source stream: next() never overlaps next() or cleanup(),        *)
(*    cleanup() starts at most once and only when no next() is outstanding,*)
(*    and the result is delivered only when every source whose next() was  *)
(*    ever started has completed its cleanup();                            *)
(*  - nothing is started, called or delivered after the result;            *)
(*  - every next()/cleanup() operation state of a source is constructed    *)
(*    once, destroyed exactly once and not while running;                  *)
(*  - at a quiescent point after a stop request no next() of a pipeline    *)
(*    whose outermost stream is a stop_immediately (seen through           *)
(*    synchronous adaptors) is still outstanding; with nothing pending a   *)
(*    started reduce/for_each has delivered its result.                    *)
(***************************************************************************)
EXTENDS Integers, Sequences, FiniteSets, TLC, TraceIO
MaxN == 10
NullError == 0 - 997      \* the harness's code for an error completion whose exception_ptr is null
NodeIds == 1..MaxN
NoPipe == [cons |-> 0, kind |-> <<>>, kids |-> <<>>, arg |-> <<>>, root |-> 0]
VARIABLES l, pipe, ph, nexted, yielded, ended, calls, keeps, elems, nres, stopped, started, liveOps, seenOps,
          drvOut, errSeen, errMaybe, errTE
vars == <<l, pipe, ph, nexted, yielded, ended, calls, keeps, elems, nres, stopped, started, liveOps, seenOps, drvOut, errSeen, errMaybe, errTE>>

Fresh(p) == /\ pipe' = p
            /\ ph' = [n \in NodeIds |-> "fresh"] /\ nexted' = [n \in NodeIds |-> FALSE]
            /\ yielded' = [n \in NodeIds |-> <<>>] /\ ended' = [n \in NodeIds |-> ""]
            /\ calls' = [n \in NodeIds |-> 0] /\ keeps' = [n \in NodeIds |-> <<>>]
            /\ elems' = <<>> /\ nres' = 0 /\ stopped' = FALSE /\ started' = FALSE
            /\ liveOps' = {} /\ seenOps' = {} /\ drvOut' = FALSE /\ errSeen' = FALSE /\ errMaybe' = FALSE /\ errTE' = FALSE
Init == /\ l = 1 /\ pipe = NoPipe
        /\ ph = [n \in NodeIds |-> "fresh"] /\ nexted = [n \in NodeIds |-> FALSE]
        /\ yielded = [n \in NodeIds |-> <<>>] /\ ended = [n \in NodeIds |-> ""]
        /\ calls = [n \in NodeIds |-> 0] /\ keeps = [n \in NodeIds |-> <<>>]
        /\ elems = <<>> /\ nres = 0 /\ stopped = FALSE /\ started = FALSE
        /\ liveOps = {} /\ seenOps = {} /\ drvOut = FALSE /\ errSeen = FALSE /\ errMaybe = FALSE /\ errTE = FALSE
        /\ TrackInit
E == Log[l]
Is(e) == l <= Len(Log) /\ E.e = e /\ l' = l + 1

\* ------------------------------------------------------------------ the pipeline definition
PN == Len(pipe.kind)
PKind(n) == pipe.kind[n]
PKid(n) == pipe.kids[n][1]
Manual == pipe.cons = 2
Has(k) == \E n \in 1..PN : PKind(n) = k
RECURSIVE PDesc(_)
PDesc(n) == UNION {{pipe.kids[n][i]} \cup PDesc(pipe.kids[n][i]) : i \in 1..Len(pipe.kids[n])}
InTrig == UNION {{pipe.kids[q][2]} \cup PDesc(pipe.kids[q][2]) : q \in {m \in 1..PN : PKind(m) = "take_until"}}
SrcNodes == {n \in 1..PN : PKind(n) = "src"}
UnderTypeErase(n) == \E q \in 1..PN : PKind(q) = "type_erase" /\ n \in PDesc(q)
UnderStopImm(n) == \E q \in 1..PN : PKind(q) = "stop_imm" /\ n \in PDesc(q)
FnNodes == {n \in 1..PN : PKind(n) \in {"transform", "filter"}}
Sync == {"transform", "filter", "adapt", "adapt2", "next_adapt", "cleanup_adapt", "type_erase"}
RECURSIVE Outer(_)
Outer(n) == IF PKind(n) \in Sync THEN Outer(PKid(n)) ELSE n
RootImm == PKind(Outer(pipe.root)) = "stop_imm"
\* the sequence the adaptor definitions prescribe for node n, given what the sources yielded / the predicates answered so far
RECURSIVE Ex(_)
Ex(n) ==
  LET K == PKind(n) IN
  CASE K = "src" -> yielded[n]
    [] K = "range" -> [i \in 1..pipe.arg[n] |-> i - 1]
    [] K = "single" -> <<100 * n + 1>>
    [] K = "never" -> <<>>
    [] K = "transform" -> LET c == Ex(PKid(n)) IN [i \in 1..Len(c) |-> c[i] + 1000 * n]
    [] K = "filter" ->
         LET c == Ex(PKid(n))
             m == IF Len(keeps[n]) < Len(c) THEN Len(keeps[n]) ELSE Len(c)
             RECURSIVE Sel(_)
             Sel(i) == IF i > m THEN <<>> ELSE (IF keeps[n][i] = 1 THEN <<c[i]>> ELSE <<>>) \o Sel(i + 1)
         IN Sel(1)
    [] OTHER -> Ex(PKid(n))
Fold(seq) == LET RECURSIVE F(_, _)
                 F(i, a) == IF i > Len(seq) THEN a ELSE F(i + 1, 7 * a + seq[i])
             IN F(1, 0)
\* a stop request (the consumer's, or the internal one of a take_until) may cut the sequence at a stop_immediately
\* ... or at a type_erase, whose stop callback completes next() with done if it wins the race against the source's completion
CutPossible == (Has("stop_imm") \/ Has("type_erase")) /\ (stopped \/ Has("take_until"))
AllClean == \A s \in SrcNodes : (nexted[s] => ph[s] = "cleaned") /\ ph[s] \in {"fresh", "cleaned"}
NothingDropped == /\ elems = Ex(pipe.root)
                  /\ \A q \in FnNodes \ InTrig : calls[q] = Len(Ex(PKid(q)))

Keep(vs) == UNCHANGED vs
Reset == Is("Reset") /\ Fresh(E.pipe)
Plain == /\ (Is("OpDestroy") \/ Is("SchedStart") \/ Is("Adapt") \/ Is("SrcStopSeen") \/ Is("Drain"))
         /\ UNCHANGED <<pipe, ph, nexted, yielded, ended, calls, keeps, elems, nres, stopped, started, liveOps, seenOps, drvOut, errSeen, errMaybe, errTE>>
StartEv == /\ Is("Start") /\ ~started /\ started' = TRUE
           /\ UNCHANGED <<pipe, ph, nexted, yielded, ended, calls, keeps, elems, nres, stopped, liveOps, seenOps, drvOut, errSeen, errMaybe, errTE>>
StopEv == /\ Is("Stop") /\ stopped' = TRUE
          /\ UNCHANGED <<pipe, ph, nexted, yielded, ended, calls, keeps, elems, nres, started, liveOps, seenOps, drvOut, errSeen, errMaybe, errTE>>
DrvNext == /\ Is("DrvNext") /\ ~drvOut /\ drvOut' = TRUE /\ started' = TRUE
           /\ UNCHANGED <<pipe, ph, nexted, yielded, ended, calls, keeps, elems, nres, stopped, liveOps, seenOps, errSeen, errMaybe, errTE>>
DrvCleanup == /\ Is("DrvCleanup") /\ started' = TRUE
              /\ UNCHANGED <<pipe, ph, nexted, yielded, ended, calls, keeps, elems, nres, stopped, liveOps, seenOps, drvOut, errSeen, errMaybe, errTE>>
OpCtor == /\ Is("OpCtor") /\ E.op \notin seenOps
          /\ liveOps' = liveOps \cup {E.op} /\ seenOps' = seenOps \cup {E.op}
          /\ UNCHANGED <<pipe, ph, nexted, yielded, ended, calls, keeps, elems, nres, stopped, started, drvOut, errSeen, errMaybe, errTE>>
OpDtor == /\ Is("OpDtor") /\ E.live = 1 /\ E.running = 0 /\ E.op \in liveOps
          /\ liveOps' = liveOps \ {E.op}
          /\ UNCHANGED <<pipe, ph, nexted, yielded, ended, calls, keeps, elems, nres, stopped, started, seenOps, drvOut, errSeen, errMaybe, errTE>>
NextStart == /\ Is("NextStart") /\ nres = 0 /\ E.op \in liveOps
             /\ ph[E.s] \in {"fresh", "idle"}
             /\ ph' = [ph EXCEPT ![E.s] = "nextActive"] /\ nexted' = [nexted EXCEPT ![E.s] = TRUE]
             /\ UNCHANGED <<pipe, yielded, ended, calls, keeps, elems, nres, stopped, started, liveOps, seenOps, drvOut, errSeen, errMaybe, errTE>>
NextDone == /\ Is("NextDone") /\ ph[E.s] = "nextActive" /\ E.op \in liveOps
            /\ ph' = [ph EXCEPT ![E.s] = "idle"]
            /\ yielded' = [yielded EXCEPT ![E.s] = IF E.ch = "v" THEN Append(@, E.x) ELSE @]
            /\ ended' = [ended EXCEPT ![E.s] = IF E.ch = "v" THEN @ ELSE E.ch]
            /\ errSeen' = (errSeen \/ (E.ch = "e" /\ E.s \notin InTrig /\ ~UnderTypeErase(E.s)))
            \* the error of a source below a type_erase: if a stop request wins the race against that completion, type_erase's stop
            \* callback completes the next() with done instead and the error is dropped (decided when the result is delivered)
            /\ errTE' = (errTE \/ (E.ch = "e" /\ E.s \notin InTrig /\ UnderTypeErase(E.s)))
            \* a trigger's error is swallowed by take_until - unless a stop_immediately inside the trigger abandoned that next():
            \* then it may come back as the error of the trigger's cleanup
            /\ errMaybe' = (errMaybe \/ (E.ch = "e" /\ E.s \in InTrig /\ UnderStopImm(E.s)))
            /\ UNCHANGED <<pipe, nexted, calls, keeps, elems, nres, stopped, started, liveOps, seenOps, drvOut>>
CleanupStart == /\ Is("CleanupStart") /\ nres = 0 /\ E.op \in liveOps
                /\ ph[E.s] \in {"fresh", "idle"}
                /\ ph' = [ph EXCEPT ![E.s] = "cleanupActive"]
                /\ UNCHANGED <<pipe, nexted, yielded, ended, calls, keeps, elems, nres, stopped, started, liveOps, seenOps, drvOut, errSeen, errMaybe, errTE>>
CleanupDone == /\ Is("CleanupDone") /\ ph[E.s] = "cleanupActive" /\ E.op \in liveOps
               /\ ph' = [ph EXCEPT ![E.s] = "cleaned"]
               /\ errSeen' = (errSeen \/ E.ch = "e")
               /\ UNCHANGED <<pipe, nexted, yielded, ended, calls, keeps, elems, nres, stopped, started, liveOps, seenOps, drvOut, errMaybe, errTE>>
FnCall == /\ (Is("Fn") \/ Is("Pred")) /\ nres = 0
          /\ LET c == Ex(PKid(E.q)) IN calls[E.q] < Len(c) /\ c[calls[E.q] + 1] = E.x
          /\ calls' = [calls EXCEPT ![E.q] = @ + 1]
          /\ keeps' = [keeps EXCEPT ![E.q] = IF E.e = "Pred" THEN Append(@, E.keep) ELSE @]
          /\ UNCHANGED <<pipe, ph, nexted, yielded, ended, elems, nres, stopped, started, liveOps, seenOps, drvOut, errSeen, errMaybe, errTE>>
Elem == /\ Is("Elem") /\ nres = 0
        /\ LET c == Ex(pipe.root) IN Len(elems) < Len(c) /\ c[Len(elems) + 1] = E.x
        /\ elems' = Append(elems, E.x)
        /\ UNCHANGED <<pipe, ph, nexted, yielded, ended, calls, keeps, nres, stopped, started, liveOps, seenOps, drvOut, errSeen, errMaybe, errTE>>
Result == /\ Is("Result") /\ ~Manual /\ started /\ nres = 0
          /\ AllClean
          /\ E.ch \in {"v", "e"}
          /\ ((errSeen \/ (errTE /\ ~(stopped \/ Has("take_until")))) => E.ch = "e")
          /\ (E.ch = "e" => (errSeen \/ errMaybe \/ errTE))
          /\ E.ch = "e" => E.v # NullError
          /\ E.ch = "v" => E.v = (IF pipe.cons = 0 THEN Fold(elems) ELSE 0)
          /\ ~CutPossible => NothingDropped
          /\ nres' = 1
          /\ UNCHANGED <<pipe, ph, nexted, yielded, ended, calls, keeps, elems, stopped, started, liveOps, seenOps, drvOut, errSeen, errMaybe, errTE>>
DrvNextDone == /\ Is("DrvNextDone") /\ Manual /\ drvOut /\ nres = 0 /\ drvOut' = FALSE
               /\ UNCHANGED <<pipe, ph, nexted, yielded, ended, calls, keeps, elems, nres, stopped, started, liveOps, seenOps, errSeen, errMaybe, errTE>>
DrvCleanupDone == /\ Is("DrvCleanupDone") /\ Manual /\ nres = 0 /\ ~drvOut
                  /\ AllClean
                  /\ E.ch \in {"d", "e"} /\ (E.ch = "e") => ((errSeen \/ errMaybe \/ errTE) /\ E.v # NullError)
                  /\ nres' = 1
                  /\ UNCHANGED <<pipe, ph, nexted, yielded, ended, calls, keeps, elems, stopped, started, liveOps, seenOps, drvOut, errSeen, errMaybe, errTE>>
QuiescentEv == /\ Is("Quiescent")
               /\ (stopped /\ Manual /\ RootImm) => ~drvOut
               \* (the outstanding next() of a never_stream is not visible to the harness)
               /\ (E.pending = 0 /\ started /\ ~Manual /\ ~Has("never")) => nres = 1
               /\ (E.pending = 0 /\ Manual /\ ~Has("never")) => ~drvOut
               /\ UNCHANGED <<pipe, ph, nexted, yielded, ended, calls, keeps, elems, nres, stopped, started, liveOps, seenOps, drvOut, errSeen, errMaybe, errTE>>
EndEv == /\ Is("End")
         /\ E.live = 0 /\ E.bad = 0 /\ liveOps = {} /\ E.pending = 0
         /\ (started /\ ~Manual) => nres = 1
         /\ ~drvOut
         /\ UNCHANGED <<pipe, ph, nexted, yielded, ended, calls, keeps, elems, nres, stopped, started, liveOps, seenOps, drvOut, errSeen, errMaybe, errTE>>
Next == \/ Reset \/ Plain \/ StartEv \/ StopEv \/ DrvNext \/ DrvCleanup \/ OpCtor \/ OpDtor \/ NextStart \/ NextDone
        \/ CleanupStart \/ CleanupDone \/ FnCall \/ Elem \/ Result \/ DrvNextDone \/ DrvCleanupDone \/ QuiescentEv \/ EndEv
Spec == Init /\ [][Next]_vars
Track == TrackAt(l, TRUE)
Report == ReportTrace
=============================================================================
