SPECIFICATION Spec
INVARIANTS TriggerCleanupAtMostOnce TriggerCleanupOnlyAfterOutstandingNext ResultAtMostOnce ResultAfterCleanup
ACTION_CONSTRAINT EdgeLog
CHECK_DEADLOCK FALSE
CONSTANT Mut = "none"
