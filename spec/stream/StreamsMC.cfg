SPECIFICATION Spec
CONSTANTS Shapes <- ShapesC  SrcScripts <- SrcScriptsC  TrigScripts <- TrigScriptsC  PredScripts <- PredScriptsC
INVARIANTS ProtocolRespected ElementsAreThePrescribedSequence FoldOverExactlyThose NothingDroppedWithoutStop CleanupExactlyOnceIfNextEverStarted ResultAtMostOnce ResultAfterCleanup NoElementAfterResult StopImmediatelyAtOnce AbandonedNextAwaited NoLostCompletion DrvNoLostCompletion
CHECK_DEADLOCK FALSE
