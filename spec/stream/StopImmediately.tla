--------------------------- MODULE StopImmediately ---------------------------
(***************************************************************************)
(* Race model of stop_immediately's state_ protocol (stop_immediately.hpp)  *)
(* at atomic granularity, for ONE next() of the adapted stream:            *)
(*   Completer  = the thread on which next(source_) completes              *)
(*                (next_receiver::handle_signal),                          *)
(*   Stopper    = the thread that runs the consumer's stop callback        *)
(*                (cancel_next_callback), if a stop request arrives while  *)
(*                the callback is registered,                              *)
(*   Consumer   = whoever received the next() signal and then starts       *)
(*                cleanup(stream) (cleanup_sender::_op::start).            *)
(* Each label is one atomic load / compare_exchange of state_.             *)
(* Checked: the consumer's next receiver is completed exactly once; a stop *)
(* request that wins the race completes it with done without waiting for   *)
(* the source; cleanup(source_) is started exactly once and only after     *)
(* next(source_) has completed (the abandoned next is awaited).            *)
(***************************************************************************)
EXTENDS Naturals, TLC
CONSTANT Mut     \* "none" = the protocol as written; spec-level mutations (must violate the properties: they are not vacuous):
                 \* "hs_store"  handle_signal stores source_next_completed without compare-exchange
                 \* "cl_ignore" cleanup start() ignores a failed compare-exchange to cleanup_requested
VARIABLES state, pcC, pcS, pcK, oldC, oldS, oldK, recvPresent, delivered, deliveredDone, srcDone, cleanupStarts, cbRegistered, cbRunning
vars == <<state, pcC, pcS, pcK, oldC, oldS, oldK, recvPresent, delivered, deliveredDone, srcDone, cleanupStarts, cbRegistered, cbRunning>>
Init == /\ state = "active" /\ pcC = "c0" /\ pcS = "s0" /\ pcK = "k0"
        /\ oldC = "" /\ oldS = "" /\ oldK = ""
        /\ recvPresent = TRUE /\ delivered = 0 /\ deliveredDone = FALSE /\ srcDone = FALSE /\ cleanupStarts = 0
        /\ cbRegistered = TRUE /\ cbRunning = FALSE
\* ---- Completer: handle_signal()
C0 == /\ pcC = "c0" /\ srcDone' = TRUE /\ oldC' = state /\ pcC' = "c1"          \* nextOp_.destruct(); load
      /\ UNCHANGED <<state, pcS, pcK, oldS, oldK, recvPresent, delivered, deliveredDone, cleanupStarts, cbRegistered, cbRunning>>
C1 == /\ pcC = "c1"
      /\ IF oldC = "active"
         THEN IF state = "active" \/ Mut = "hs_store" THEN state' = "completed" /\ pcC' = "cdeliver" /\ oldC' = oldC
              ELSE state' = state /\ oldC' = state /\ pcC' = "c2"
         ELSE state' = state /\ oldC' = oldC /\ pcC' = "c2"
      /\ UNCHANGED <<pcS, pcK, oldS, oldK, recvPresent, delivered, deliveredDone, srcDone, cleanupStarts, cbRegistered, cbRunning>>
\* deliver to the consumer: concrete_receiver destroys the stop callback first, which waits for a running callback
CDeliver == /\ pcC = "cdeliver" /\ ~cbRunning /\ Assert(recvPresent, "handle_signal: receiver already taken")
            /\ cbRegistered' = FALSE /\ recvPresent' = FALSE /\ delivered' = delivered + 1 /\ pcC' = "done"
            /\ UNCHANGED <<state, pcS, pcK, oldC, oldS, oldK, deliveredDone, srcDone, cleanupStarts, cbRunning>>
C2 == /\ pcC = "c2"
      /\ IF oldC = "stopped"
         THEN IF state = "stopped" THEN state' = "completed" /\ pcC' = "done" /\ oldC' = oldC      \* signal discarded
              ELSE state' = state /\ oldC' = state /\ pcC' = "c3"
         ELSE state' = state /\ oldC' = oldC /\ pcC' = "c3"
      /\ UNCHANGED <<pcS, pcK, oldS, oldK, recvPresent, delivered, deliveredDone, srcDone, cleanupStarts, cbRegistered, cbRunning>>
C3 == /\ pcC = "c3" /\ Assert(oldC = "cleanup_requested", "handle_signal: unexpected state")
      /\ cleanupStarts' = cleanupStarts + 1 /\ pcC' = "done"                              \* cleanupOp_->start_cleanup()
      /\ UNCHANGED <<state, pcS, pcK, oldC, oldS, oldK, recvPresent, delivered, deliveredDone, srcDone, cbRegistered, cbRunning>>
\* ---- Stopper: cancel_next_callback (may never run: no stop request)
S0 == /\ pcS = "s0" /\ cbRegistered /\ cbRunning' = TRUE /\ oldS' = state /\ pcS' = "s1"
      /\ UNCHANGED <<state, pcC, pcK, oldC, oldK, recvPresent, delivered, deliveredDone, srcDone, cleanupStarts, cbRegistered>>
S1 == /\ pcS = "s1"
      /\ IF oldS = "active" /\ state = "active"
         THEN state' = "stopped" /\ pcS' = "s2" /\ cbRunning' = cbRunning
         ELSE /\ Assert((IF oldS = "active" THEN state ELSE oldS) = "completed", "cancel_next_callback: unexpected state")
              /\ state' = state /\ pcS' = "done" /\ cbRunning' = FALSE
      /\ UNCHANGED <<pcC, pcK, oldC, oldS, oldK, recvPresent, delivered, deliveredDone, srcDone, cleanupStarts, cbRegistered>>
S2 == /\ pcS = "s2" /\ Assert(recvPresent, "cancel_next_callback: receiver already taken")
      /\ recvPresent' = FALSE /\ cbRegistered' = FALSE /\ delivered' = delivered + 1 /\ deliveredDone' = TRUE
      /\ cbRunning' = FALSE /\ pcS' = "done"
      /\ UNCHANGED <<state, pcC, pcK, oldC, oldS, oldK, srcDone, cleanupStarts>>
\* ---- Consumer: cleanup(stream).start() after it received the next() signal
K0 == /\ pcK = "k0" /\ delivered = 1 /\ oldK' = state /\ pcK' = "k1"
      /\ UNCHANGED <<state, pcC, pcS, oldC, oldS, recvPresent, delivered, deliveredDone, srcDone, cleanupStarts, cbRegistered, cbRunning>>
K1 == /\ pcK = "k1"
      /\ IF oldK = "stopped"
         THEN IF state = "stopped" THEN state' = "cleanup_requested" /\ pcK' = "done" /\ oldK' = oldK
              ELSE IF Mut = "cl_ignore" THEN state' = state /\ oldK' = oldK /\ pcK' = "done"
              ELSE state' = state /\ oldK' = state /\ pcK' = "k2"
         ELSE state' = state /\ oldK' = oldK /\ pcK' = "k2"
      /\ UNCHANGED <<pcC, pcS, oldC, oldS, recvPresent, delivered, deliveredDone, srcDone, cleanupStarts, cbRegistered, cbRunning>>
K2 == /\ pcK = "k2" /\ Assert(oldK = "completed", "cleanup start: unexpected state")
      /\ cleanupStarts' = cleanupStarts + 1 /\ pcK' = "done"
      /\ UNCHANGED <<state, pcC, pcS, oldC, oldS, oldK, recvPresent, delivered, deliveredDone, srcDone, cbRegistered, cbRunning>>
Next == C0 \/ C1 \/ CDeliver \/ C2 \/ C3 \/ S0 \/ S1 \/ S2 \/ K0 \/ K1 \/ K2
Spec == Init /\ [][Next]_vars
FairSpec == Spec /\ WF_vars(C0 \/ C1 \/ CDeliver \/ C2 \/ C3) /\ WF_vars(S1 \/ S2) /\ WF_vars(K0 \/ K1 \/ K2)
DeliveredAtMostOnce == delivered <= 1
CleanupAtMostOnce == cleanupStarts <= 1
CleanupOnlyAfterOutstandingNext == cleanupStarts > 0 => srcDone
\* StopImmediatelyAtOnce: once the stop callback has won the race the done signal needs no step of the Completer
StopWinsWithoutSource == (pcS = "s2") => ENABLED S2
AllDone == pcC = "done" /\ pcK = "done" /\ pcS \in {"s0", "done"}
Finally == AllDone => (delivered = 1 /\ cleanupStarts = 1 /\ srcDone)
Termination == <>AllDone
=============================================================================
