---- MODULE StreamsMacro ----
(* Macro-step instance of Streams: one transition = one external action followed by the whole internal cascade up *)
(* to the next quiescent state (the cascade is deterministic).  Every transition is exported for replay on the    *)
(* real stream adaptors together with the observation expected after it.                                          *)
EXTENDS Streams, Json, IOUtils, TLCExt
ShapeSeq == JsonDeserialize(IOEnv.SHAPES)
ShapesC == {ShapeSeq[i] : i \in 1..Len(ShapeSeq)}
ScriptRec == JsonDeserialize(IOEnv.SCRIPTS)
SrcScriptsC == {ScriptRec.src[i] : i \in 1..Len(ScriptRec.src)}
TrigScriptsC == {ScriptRec.trig[i] : i \in 1..Len(ScriptRec.trig)}
PredScriptsC == {ScriptRec.pred[i] : i \in 1..Len(ScriptRec.pred)}
MacroNext ==
  /\ UNCHANGED cfg
  /\ \/ EnStart(S) /\ S' = RunToQuiescence(ApplyStart(S))
     \/ EnDrvNext(S) /\ S' = RunToQuiescence(ApplyDrvNext(S))
     \/ EnDrvCleanup(S) /\ S' = RunToQuiescence(ApplyDrvCleanup(S))
     \/ EnStop(S) /\ S' = RunToQuiescence(ApplyStop(S))
     \/ \E s \in Nodes : EnCompleteNext(S, s) /\ S' = RunToQuiescence(ApplyCompleteNext(S, s))
     \/ \E s \in Nodes : EnCompleteCleanup(S, s) /\ S' = RunToQuiescence(ApplyCompleteCleanup(S, s))
     \/ \E c \in Ctxs : EnRunCtx(S, c) /\ S' = RunToQuiescence(ApplyRunCtx(S, c))
MacroSpec == Init /\ [][MacroNext]_vars
Obs(T) == [elems |-> T.elems, sev |-> T.sev, fn |-> T.fn, res |-> T.res]
EdgeLog ==
  LET rec == [s |-> <<TLCFP(vars), TLCFP(<<vars, 1>>)>>, t |-> <<TLCFP(vars'), TLCFP(<<vars', 1>>)>>,
              ext |-> [k |-> S'.cur[1], n |-> S'.cur[2]],
              cfg |-> IF ~S.started /\ ~S.req[0]
                      THEN [shape |-> cfg.shape.id,
                            src |-> {[s |-> s, m |-> cfg.src[s]] : s \in DOMAIN cfg.src},
                            pred |-> {[q |-> q, m |-> cfg.pred[q]] : q \in DOMAIN cfg.pred}]
                      ELSE [shape |-> 0],
              obs |-> Obs(S')]
  IN Serialize(ToJson(rec) \o "\n", IOEnv.EDGES,
        [format |-> "TXT", charset |-> "UTF-8", openOptions |-> <<"WRITE", "CREATE", "APPEND">>]).exitValue = 0
====
