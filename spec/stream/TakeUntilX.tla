---- MODULE TakeUntilX ----
(* Export of every transition of TakeUntil for guided replay on the real take_until (labels <-> stream.tu.* sites). *)
EXTENDS TakeUntil, Sequences, Json, IOUtils, TLCExt
Rec == [ready |-> ready, cdone |-> cdone, pcT |-> pcT, pcK |-> pcK, pcSC |-> pcSC, pcTC |-> pcTC,
        srcClStarts |-> srcClStarts, trigClStarts |-> trigClStarts, finalDelivered |-> finalDelivered]
RecN == [ready |-> ready', cdone |-> cdone', pcT |-> pcT', pcK |-> pcK', pcSC |-> pcSC', pcTC |-> pcTC',
         srcClStarts |-> srcClStarts', trigClStarts |-> trigClStarts', finalDelivered |-> finalDelivered']
EdgeLog ==
  LET rec == [s |-> <<TLCFP(vars), TLCFP(<<vars, 1>>)>>, t |-> <<TLCFP(vars'), TLCFP(<<vars', 1>>)>>, v |-> Rec, w |-> RecN]
  IN Serialize(ToJson(rec) \o "\n", IOEnv.EDGES,
        [format |-> "TXT", charset |-> "UTF-8", openOptions |-> <<"WRITE", "CREATE", "APPEND">>]).exitValue = 0
====
