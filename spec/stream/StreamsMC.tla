---- MODULE StreamsMC ----
(* Model-checking instance of Streams (every internal step is a state; the invariants are checked in every state). *)
(* Shapes, source scripts and predicate scripts come from JSON files written by engines/stream/engine.py.          *)
EXTENDS Streams, Json, IOUtils, TLCExt
ShapeSeq == JsonDeserialize(IOEnv.SHAPES)
ShapesC == {ShapeSeq[i] : i \in 1..Len(ShapeSeq)}
ScriptRec == JsonDeserialize(IOEnv.SCRIPTS)
SrcScriptsC == {ScriptRec.src[i] : i \in 1..Len(ScriptRec.src)}
TrigScriptsC == {ScriptRec.trig[i] : i \in 1..Len(ScriptRec.trig)}
PredScriptsC == {ScriptRec.pred[i] : i \in 1..Len(ScriptRec.pred)}
====
