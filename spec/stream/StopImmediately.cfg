SPECIFICATION FairSpec
INVARIANTS DeliveredAtMostOnce CleanupAtMostOnce CleanupOnlyAfterOutstandingNext StopWinsWithoutSource Finally
PROPERTY Termination
CHECK_DEADLOCK FALSE
CONSTANT Mut = "none"
