SPECIFICATION Spec
INVARIANTS DeliveredAtMostOnce CleanupAtMostOnce CleanupOnlyAfterOutstandingNext Finally
CHECK_DEADLOCK FALSE
CONSTANT Mut = "cl_ignore"
