SPECIFICATION Spec
INVARIANTS DeliveredAtMostOnce CleanupAtMostOnce CleanupOnlyAfterOutstandingNext
ACTION_CONSTRAINT EdgeLog
CHECK_DEADLOCK FALSE
CONSTANT Mut = "none"
