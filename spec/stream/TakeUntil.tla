------------------------------ MODULE TakeUntil ------------------------------
(***************************************************************************)
(* Race model of take_until's cleanup hand-off (take_until.hpp) at atomic   *)
(* granularity:                                                            *)
(*   T  = the thread on which next(trigger_) completes                     *)
(*        (trigger_next_receiver -> trigger_next_done),                    *)
(*   K  = the consumer starting cleanup(stream) (cleanup_sender::_op::     *)
(*        start: starts cleanup(source_), then the cleanupReady_ protocol),*)
(*   SC / TC = the completions of cleanup(source_) / cleanup(trigger_)     *)
(*        (source_cleanup_done / trigger_cleanup_done on cleanupCompleted_)*)
(* Checked: cleanup(trigger_) is started exactly once and only after       *)
(* next(trigger_) has completed, by whichever of T / K comes second, with  *)
(* cleanupOperation_ already published; the consumer's cleanup receiver is *)
(* completed exactly once, after both child cleanups completed.            *)
(***************************************************************************)
EXTENDS Naturals, TLC
CONSTANT Mut     \* "none" | "k3_ignore": cleanup start() ignores the result of cleanupReady_.exchange (spec-level mutation, must violate Finally)
VARIABLES ready, cdone, cleanupOpSet, pcT, pcK, pcSC, pcTC, trigNextDone, srcClStarts, trigClStarts, srcClDone, trigClDone, finalDelivered
vars == <<ready, cdone, cleanupOpSet, pcT, pcK, pcSC, pcTC, trigNextDone, srcClStarts, trigClStarts, srcClDone, trigClDone, finalDelivered>>
Init == /\ ready = FALSE /\ cdone = FALSE /\ cleanupOpSet = FALSE
        /\ pcT = "t0" /\ pcK = "k0" /\ pcSC = "sc0" /\ pcTC = "tc0"
        /\ trigNextDone = FALSE /\ srcClStarts = 0 /\ trigClStarts = 0 /\ srcClDone = FALSE /\ trigClDone = FALSE /\ finalDelivered = 0
StartTrig == /\ Assert(cleanupOpSet, "start_trigger_cleanup through a null cleanupOperation_")     \* T: cleanupOperation_->start_trigger_cleanup()
             /\ trigClStarts' = trigClStarts + 1
StartTrigK == trigClStarts' = trigClStarts + 1                                                    \* K: this->start_trigger_cleanup()
\* ---- T: trigger_next_done()
T0 == /\ pcT = "t0" /\ trigNextDone' = TRUE                        \* triggerNextOp_.destruct(); load cleanupReady_
      /\ IF ~ready THEN pcT' = "t1" /\ UNCHANGED trigClStarts ELSE pcT' = "done" /\ StartTrig
      /\ UNCHANGED <<ready, cdone, cleanupOpSet, pcK, pcSC, pcTC, srcClStarts, srcClDone, trigClDone, finalDelivered>>
T1 == /\ pcT = "t1"                                                 \* stopSource_.request_stop(); exchange(true)
      /\ IF ~ready THEN ready' = TRUE /\ pcT' = "done" /\ UNCHANGED trigClStarts
         ELSE ready' = ready /\ pcT' = "done" /\ StartTrig
      /\ UNCHANGED <<cdone, cleanupOpSet, pcK, pcSC, pcTC, trigNextDone, srcClStarts, srcClDone, trigClDone, finalDelivered>>
\* ---- K: cleanup(stream).start()
K0 == /\ pcK = "k0" /\ srcClStarts' = srcClStarts + 1 /\ pcK' = "k1"
      /\ UNCHANGED <<ready, cdone, cleanupOpSet, pcT, pcSC, pcTC, trigNextDone, trigClStarts, srcClDone, trigClDone, finalDelivered>>
K1 == /\ pcK = "k1"                                                 \* load cleanupReady_
      /\ IF ~ready THEN pcK' = "k2" /\ UNCHANGED trigClStarts ELSE pcK' = "done" /\ StartTrigK
      /\ UNCHANGED <<ready, cdone, cleanupOpSet, pcT, pcSC, pcTC, trigNextDone, srcClStarts, srcClDone, trigClDone, finalDelivered>>
K2 == /\ pcK = "k2" /\ cleanupOpSet' = TRUE /\ pcK' = "k3"          \* cleanupOperation_ = this; request_stop()
      /\ UNCHANGED <<ready, cdone, pcT, pcSC, pcTC, trigNextDone, srcClStarts, trigClStarts, srcClDone, trigClDone, finalDelivered>>
K3 == /\ pcK = "k3"                                                 \* exchange(true)
      /\ IF ~ready THEN ready' = TRUE /\ pcK' = "done" /\ UNCHANGED trigClStarts
         ELSE IF Mut = "k3_ignore" THEN ready' = ready /\ pcK' = "done" /\ UNCHANGED trigClStarts
         ELSE ready' = ready /\ pcK' = "done" /\ StartTrigK
      /\ UNCHANGED <<cdone, cleanupOpSet, pcT, pcSC, pcTC, trigNextDone, srcClStarts, srcClDone, trigClDone, finalDelivered>>
\* ---- SC / TC: completion of the child cleanups
Join(pc, pcn, donev, donevn) ==
  \/ /\ pc = "x0" /\ donevn = TRUE /\ (IF ~cdone THEN pcn = "x1" ELSE pcn = "deliver") /\ UNCHANGED <<cdone, finalDelivered>>
  \/ /\ pc = "x1" /\ donevn = donev /\ (IF ~cdone THEN cdone' = TRUE /\ pcn = "done" ELSE cdone' = cdone /\ pcn = "deliver") /\ UNCHANGED finalDelivered
  \/ /\ pc = "deliver" /\ donevn = donev /\ finalDelivered' = finalDelivered + 1 /\ pcn = "done" /\ UNCHANGED cdone
SC == /\ srcClStarts = 1 /\ Join(IF pcSC = "sc0" THEN "x0" ELSE pcSC, pcSC', srcClDone, srcClDone')
      /\ UNCHANGED <<ready, cleanupOpSet, pcT, pcK, pcTC, trigNextDone, srcClStarts, trigClStarts, trigClDone>>
TC == /\ trigClStarts = 1 /\ Join(IF pcTC = "tc0" THEN "x0" ELSE pcTC, pcTC', trigClDone, trigClDone')
      /\ UNCHANGED <<ready, cleanupOpSet, pcT, pcK, pcSC, trigNextDone, srcClStarts, trigClStarts, srcClDone>>
Next == T0 \/ T1 \/ K0 \/ K1 \/ K2 \/ K3 \/ SC \/ TC
Spec == Init /\ [][Next]_vars
FairSpec == Spec /\ WF_vars(T0 \/ T1) /\ WF_vars(K0 \/ K1 \/ K2 \/ K3) /\ WF_vars(SC) /\ WF_vars(TC)
TriggerCleanupAtMostOnce == trigClStarts <= 1
TriggerCleanupOnlyAfterOutstandingNext == trigClStarts > 0 => trigNextDone
ResultAtMostOnce == finalDelivered <= 1
ResultAfterCleanup == finalDelivered > 0 => (srcClDone /\ trigClDone)
AllDone == pcT = "done" /\ pcK = "done" /\ pcSC = "done" /\ pcTC = "done"
Finally == AllDone => (finalDelivered = 1 /\ trigClStarts = 1 /\ srcClStarts = 1)
Termination == <>AllDone
=============================================================================
