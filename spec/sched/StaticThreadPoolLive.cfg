SPECIFICATION FairSpec
CONSTANTS HThreads <- T  Items <- I  Scenarios <- Scn  MaxWorkers = 2
PROPERTIES AcceptedRuns Terminates
CHECK_DEADLOCK TRUE
