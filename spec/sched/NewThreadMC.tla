---- MODULE NewThreadMC ----
(* Model-checking instance of NewThread with export labels (thread of item i is exported as 200 + i).  *)
EXTENDS NewThread, Json, IOUtils, TLCExt
VARIABLES lastT, lastPc
T == 1..4
I == 1..4
ScnSeq == JsonDeserialize(IOEnv.SCENARIOS)
Scn == {ScnSeq[i] : i \in 1..Len(ScnSeq)}
LInit == Init /\ lastT = 0 /\ lastPc = ""
LNext == \/ \E t \in HThreads : HStep(t) /\ lastT' = t /\ lastPc' = pc[t]
         \/ \E i \in Items : IStep(i) /\ lastT' = 200 + i /\ lastPc' = tpc[i]
         \/ Finished /\ lastT' = 0 /\ lastPc' = ""
LSpec == LInit /\ [][LNext]_<<vars, lastT, lastPc>>
LFairSpec == LSpec /\ (\A t \in HThreads : WF_vars(HStep(t))) /\ (\A i \in Items : WF_vars(IStep(i)))
LView == vars
EdgeLog ==
  LET rec == [s |-> <<TLCFP(vars), TLCFP(<<vars, 1>>)>>, t |-> <<TLCFP(vars'), TLCFP(<<vars', 1>>)>>,
              th |-> lastT', pc |-> lastPc', scn |-> scn.id, done |-> AllDone',
              obs |-> [ran |-> [k \in 1..Len(ranSeq') |-> <<ranSeq'[k][1], ranSeq'[k][2]>>]]]
  IN (lastT' # 0) =>
     Serialize(ToJson(rec) \o "\n", IOEnv.EDGES,
        [format |-> "TXT", charset |-> "UTF-8", openOptions |-> <<"WRITE", "CREATE", "APPEND">>]).exitValue = 0
====
