SPECIFICATION LSpec
CONSTANTS HThreads <- T  Items <- I  Scenarios <- Scn  MaxWorkers = 2
INVARIANTS RanAtMostOnce NoItemLost AllThreadsJoined
VIEW LView
ACTION_CONSTRAINT EdgeLog
CHECK_DEADLOCK TRUE
