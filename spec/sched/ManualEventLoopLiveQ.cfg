SPECIFICATION FairSpec
CONSTANTS Threads <- T  Items <- I  Scenarios <- Scn
PROPERTIES Terminates
CHECK_DEADLOCK TRUE
