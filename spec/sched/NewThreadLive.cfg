SPECIFICATION FairSpec
CONSTANTS HThreads <- T  Items <- I  Scenarios <- Scn
PROPERTY Terminates
CHECK_DEADLOCK TRUE
