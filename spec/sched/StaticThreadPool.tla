------------------------- MODULE StaticThreadPool -------------------------
(***************************************************************************)
(* Implementation-shaped specification of unifex::static_thread_pool       *)
(* (include/unifex/static_thread_pool.hpp, source/static_thread_pool.cpp). *)
(* State: per worker k its thread_state (queue_, stopRequested_, mut_ as   *)
(* "owner or 0", the cv_ waiter flag) and nextThread_.  Granularity: every *)
(* mutex acquisition (lock or try_lock) and every release is a step, so a  *)
(* try_lock can find the mutex held and fail (std::try_to_lock fails iff   *)
(* held).  The body of a critical section runs in the acquiring step.      *)
(*                                                                         *)
(* Harness threads run programs (shared with the driver as JSON):          *)
(*  <<"start",i>> <<"stopitem",i>> <<"stopctx",0>> (request_stop())        *)
(*  <<"awaitacc",n>> <<"await",0>> <<"destroy",0>> (~context: request_stop *)
(*  then join).  Workers are threads 11..10+NW.                            *)
(***************************************************************************)
EXTENDS Naturals, Sequences, FiniteSets, TLC
CONSTANTS HThreads, Items, Scenarios, MaxWorkers
Workers == 11..(10 + MaxWorkers)
VARIABLES scn, pc, ip,
          q, stopReq, mtx, waiting, signalled, nextThread,     \* the pool's fields (indexed by worker number 1..NW)
          si, ti, held, task,                                   \* thread locals: start index, try counter, held queue, popped task
          itemStop, accBegun, accEnded, mustRun, stopBegun, ranSeq, exited, destroyed, lost
vars == <<scn, pc, ip, q, stopReq, mtx, waiting, signalled, nextThread, si, ti, held, task,
          itemStop, accBegun, accEnded, mustRun, stopBegun, ranSeq, exited, destroyed, lost>>
NW == scn.workers
WIdx == 1..MaxWorkers
Live(w) == w - 10 <= NW
Prog(t) == IF t <= Len(scn.prog) THEN scn.prog[t] ELSE <<>>
Op(t) == Prog(t)[ip[t]]
RanSet == {ranSeq[k][1] : k \in 1..Len(ranSeq)}
Wrap(x) == ((x - 1) % NW) + 1                         \* queue index arithmetic (1-based)

Init == /\ scn \in Scenarios
        /\ pc = [t \in HThreads \cup Workers |->
                   IF t \in HThreads THEN (IF Len(Prog(t)) = 0 THEN "done" ELSE "op")
                   ELSE IF Live(t) THEN "w_try" ELSE "none"]
        /\ ip = [t \in HThreads |-> 1]
        /\ q = [k \in WIdx |-> <<>>] /\ stopReq = [k \in WIdx |-> FALSE] /\ mtx = [k \in WIdx |-> 0]
        /\ waiting = [k \in WIdx |-> FALSE] /\ signalled = [k \in WIdx |-> FALSE] /\ nextThread = 0
        /\ si = [t \in HThreads \cup Workers |-> 1] /\ ti = [t \in HThreads \cup Workers |-> 0]
        /\ held = [t \in HThreads \cup Workers |-> 0] /\ task = [t \in Workers |-> 0]
        /\ itemStop = [i \in Items |-> FALSE] /\ accBegun = {} /\ accEnded = {} /\ mustRun = {} /\ stopBegun = FALSE
        /\ ranSeq = <<>> /\ exited = {} /\ destroyed = FALSE /\ lost = {}

Advance(t) == /\ ip' = [ip EXCEPT ![t] = ip[t] + 1]
              /\ pc' = [pc EXCEPT ![t] = IF ip[t] + 1 <= Len(Prog(t)) THEN "op" ELSE "done"]
\* queue_.push_back + cv_.notify_one iff it was empty (inside the critical section of queue k)
Push(k, i) == /\ q' = [q EXCEPT ![k] = Append(q[k], i)]
              /\ signalled' = IF q[k] = <<>> /\ waiting[k] THEN [signalled EXCEPT ![k] = TRUE] ELSE signalled
UPool == <<q, stopReq, mtx, waiting, signalled, nextThread>>
UGhost == <<itemStop, accBegun, accEnded, mustRun, stopBegun, ranSeq, exited, destroyed, lost>>

\* ------------------------------------------------------------------ harness threads
Fetch(t) ==
  /\ pc[t] = "op"
  /\ LET o == Op(t) IN
     CASE o[1] = "start" ->
            /\ accBegun' = accBegun \cup {o[2]}
            /\ si' = [si EXCEPT ![t] = (nextThread % NW) + 1] /\ nextThread' = nextThread + 1      \* fetch_add
            /\ ti' = [ti EXCEPT ![t] = 0] /\ pc' = [pc EXCEPT ![t] = "e_try"]
            /\ UNCHANGED <<ip, itemStop, stopBegun, destroyed, lost, held>>
       [] o[1] = "stopitem" ->
            /\ itemStop' = [itemStop EXCEPT ![o[2]] = TRUE] /\ Advance(t)
            /\ UNCHANGED <<accBegun, si, nextThread, ti, stopBegun, destroyed, lost, held>>
       [] o[1] \in {"stopctx", "destroy"} ->
            /\ stopBegun' = TRUE /\ ti' = [ti EXCEPT ![t] = 1] /\ pc' = [pc EXCEPT ![t] = "s_lock"]
            /\ UNCHANGED <<ip, accBegun, si, nextThread, itemStop, destroyed, lost, held>>
       [] o[1] = "awaitacc" ->
            /\ Cardinality(accEnded) >= o[2] /\ Advance(t)
            /\ UNCHANGED <<accBegun, si, nextThread, ti, itemStop, stopBegun, destroyed, lost, held>>
       [] o[1] = "await" ->
            /\ Cardinality(RanSet) >= scn.items /\ Advance(t)
            /\ UNCHANGED <<accBegun, si, nextThread, ti, itemStop, stopBegun, destroyed, lost, held>>
  /\ UNCHANGED <<scn, q, stopReq, mtx, waiting, signalled, task, accEnded, mustRun, ranSeq, exited>>

\* context::enqueue: try_push on every queue starting at startIndex ...
ETry(t) == /\ pc[t] = "e_try"
           /\ LET k == Wrap(si[t] + ti[t]) IN
              IF mtx[k] = 0
              THEN /\ mtx' = [mtx EXCEPT ![k] = t] /\ Push(k, Op(t)[2]) /\ held' = [held EXCEPT ![t] = k]
                   /\ pc' = [pc EXCEPT ![t] = "e_unl"] /\ UNCHANGED ti
              ELSE /\ ti' = [ti EXCEPT ![t] = ti[t] + 1]
                   /\ pc' = [pc EXCEPT ![t] = IF ti[t] + 1 >= NW THEN "e_lock" ELSE "e_try"]
                   /\ UNCHANGED <<mtx, q, signalled, held>>
           /\ UNCHANGED <<scn, ip, stopReq, waiting, nextThread, si, task>> /\ UNCHANGED UGhost
\* ... otherwise a blocking push on the selected queue
ELock(t) == /\ pc[t] = "e_lock" /\ mtx[si[t]] = 0
            /\ mtx' = [mtx EXCEPT ![si[t]] = t] /\ Push(si[t], Op(t)[2]) /\ held' = [held EXCEPT ![t] = si[t]]
            /\ pc' = [pc EXCEPT ![t] = "e_unl"]
            /\ UNCHANGED <<scn, ip, stopReq, waiting, nextThread, si, ti, task>> /\ UNCHANGED UGhost
EUnl(t) == /\ pc[t] = "e_unl"
           /\ mtx' = [mtx EXCEPT ![held[t]] = 0] /\ held' = [held EXCEPT ![t] = 0]
           /\ accEnded' = accEnded \cup {Op(t)[2]}
           /\ mustRun' = IF stopBegun THEN mustRun ELSE mustRun \cup {Op(t)[2]}
           /\ Advance(t)
           /\ UNCHANGED <<scn, q, stopReq, waiting, signalled, nextThread, si, ti, task, itemStop, accBegun, stopBegun,
                          ranSeq, exited, destroyed, lost>>
\* request_stop(): for each thread state: lock; stopRequested_ = true; notify_one; unlock
SLock(t) == /\ pc[t] = "s_lock" /\ mtx[ti[t]] = 0
            /\ mtx' = [mtx EXCEPT ![ti[t]] = t] /\ stopReq' = [stopReq EXCEPT ![ti[t]] = TRUE]
            /\ signalled' = IF waiting[ti[t]] THEN [signalled EXCEPT ![ti[t]] = TRUE] ELSE signalled
            /\ pc' = [pc EXCEPT ![t] = "s_unl"]
            /\ UNCHANGED <<scn, ip, q, waiting, nextThread, si, ti, held, task>> /\ UNCHANGED UGhost
SUnl(t) == /\ pc[t] = "s_unl"
           /\ mtx' = [mtx EXCEPT ![ti[t]] = 0]
           /\ IF ti[t] < NW
              THEN /\ ti' = [ti EXCEPT ![t] = ti[t] + 1] /\ pc' = [pc EXCEPT ![t] = "s_lock"] /\ UNCHANGED ip
              ELSE IF Op(t)[1] = "destroy"
                   THEN /\ ti' = [ti EXCEPT ![t] = 1] /\ pc' = [pc EXCEPT ![t] = "join"] /\ UNCHANGED ip
                   ELSE /\ Advance(t) /\ UNCHANGED ti
           /\ UNCHANGED <<scn, q, stopReq, waiting, signalled, nextThread, si, held, task>> /\ UNCHANGED UGhost
\* join(): t.join() for every worker, in order
Join(t) == /\ pc[t] = "join" /\ (10 + ti[t]) \in exited
           /\ IF ti[t] < NW
              THEN /\ ti' = [ti EXCEPT ![t] = ti[t] + 1] /\ UNCHANGED <<pc, ip, destroyed, lost>>
              ELSE /\ destroyed' = TRUE /\ lost' = mustRun \ RanSet /\ Advance(t) /\ UNCHANGED ti
           /\ UNCHANGED <<scn, si, held, task, itemStop, accBegun, accEnded, mustRun, stopBegun, ranSeq, exited>>
           /\ UNCHANGED UPool

\* ------------------------------------------------------------------ workers: context::run(index)
Execute(w, i) == ranSeq' = Append(ranSeq, <<i, IF itemStop[i] THEN 0 ELSE 1, w>>)
\* try_pop() on queue (index + i): try_lock; empty -> nullptr
WTry(w) == /\ pc[w] = "w_try"
           /\ LET k == Wrap((w - 10) + ti[w]) IN
              IF mtx[k] = 0
              THEN /\ mtx' = [mtx EXCEPT ![k] = w] /\ held' = [held EXCEPT ![w] = k]
                   /\ IF q[k] = <<>> THEN task' = [task EXCEPT ![w] = 0] /\ UNCHANGED q
                                     ELSE task' = [task EXCEPT ![w] = Head(q[k])] /\ q' = [q EXCEPT ![k] = Tail(q[k])]
                   /\ pc' = [pc EXCEPT ![w] = "w_tunl"] /\ UNCHANGED ti
              ELSE /\ ti' = [ti EXCEPT ![w] = ti[w] + 1]
                   /\ pc' = [pc EXCEPT ![w] = IF ti[w] + 1 >= NW THEN "w_lock" ELSE "w_try"]
                   /\ UNCHANGED <<mtx, held, task, q>>
           /\ UNCHANGED <<scn, ip, stopReq, waiting, signalled, nextThread, si>> /\ UNCHANGED UGhost
WTUnl(w) == /\ pc[w] = "w_tunl"
            /\ mtx' = [mtx EXCEPT ![held[w]] = 0] /\ held' = [held EXCEPT ![w] = 0]
            /\ IF task[w] # 0
               THEN /\ Execute(w, task[w]) /\ task' = [task EXCEPT ![w] = 0]
                    /\ ti' = [ti EXCEPT ![w] = 0] /\ pc' = [pc EXCEPT ![w] = "w_try"]
               ELSE /\ ti' = [ti EXCEPT ![w] = ti[w] + 1]
                    /\ pc' = [pc EXCEPT ![w] = IF ti[w] + 1 >= NW THEN "w_lock" ELSE "w_try"]
                    /\ UNCHANGED <<ranSeq, task>>
            /\ UNCHANGED <<scn, ip, q, stopReq, waiting, signalled, nextThread, si, itemStop, accBegun, accEnded, mustRun,
                           stopBegun, exited, destroyed, lost>>
\* pop(): lock; while (queue_.empty()) { if (stopRequested_) return nullptr; cv_.wait(lk); } return pop_front()
PopBody(w, k) ==
  IF q[k] # <<>>
  THEN /\ task' = [task EXCEPT ![w] = Head(q[k])] /\ q' = [q EXCEPT ![k] = Tail(q[k])]
       /\ mtx' = [mtx EXCEPT ![k] = w] /\ pc' = [pc EXCEPT ![w] = "w_punl"]
       /\ waiting' = [waiting EXCEPT ![k] = FALSE]
  ELSE IF stopReq[k]
       THEN /\ task' = [task EXCEPT ![w] = 0] /\ mtx' = [mtx EXCEPT ![k] = w] /\ pc' = [pc EXCEPT ![w] = "w_punl"]
            /\ waiting' = [waiting EXCEPT ![k] = FALSE] /\ UNCHANGED q
       ELSE /\ waiting' = [waiting EXCEPT ![k] = TRUE] /\ mtx' = [mtx EXCEPT ![k] = 0]      \* cv_.wait releases
            /\ pc' = [pc EXCEPT ![w] = "w_wait"] /\ UNCHANGED <<q, task>>
WLock(w) == /\ pc[w] = "w_lock" /\ mtx[w - 10] = 0
            /\ PopBody(w, w - 10) /\ UNCHANGED signalled
            /\ UNCHANGED <<scn, ip, stopReq, nextThread, si, ti, held>> /\ UNCHANGED UGhost
\* signalled: re-acquire the mutex and re-evaluate the loop condition
WWake(w) == /\ pc[w] = "w_wait" /\ signalled[w - 10] /\ mtx[w - 10] = 0
            /\ signalled' = [signalled EXCEPT ![w - 10] = FALSE]
            /\ PopBody(w, w - 10)
            /\ UNCHANGED <<scn, ip, stopReq, nextThread, si, ti, held>> /\ UNCHANGED UGhost
WPUnl(w) == /\ pc[w] = "w_punl"
            /\ mtx' = [mtx EXCEPT ![w - 10] = 0]
            /\ IF task[w] # 0
               THEN /\ Execute(w, task[w]) /\ task' = [task EXCEPT ![w] = 0]
                    /\ ti' = [ti EXCEPT ![w] = 0] /\ pc' = [pc EXCEPT ![w] = "w_try"] /\ UNCHANGED exited
               ELSE /\ pc' = [pc EXCEPT ![w] = "exited"] /\ exited' = exited \cup {w} /\ UNCHANGED <<ranSeq, task, ti>>
            /\ UNCHANGED <<scn, ip, q, stopReq, waiting, signalled, nextThread, si, held, itemStop, accBegun, accEnded,
                           mustRun, stopBegun, destroyed, lost>>

HStep(t) == Fetch(t) \/ ETry(t) \/ ELock(t) \/ EUnl(t) \/ SLock(t) \/ SUnl(t) \/ Join(t)
WStep(w) == WTry(w) \/ WTUnl(w) \/ WLock(w) \/ WWake(w) \/ WPUnl(w)
AllDone == /\ \A t \in HThreads : pc[t] = "done"
           /\ \A w \in Workers : pc[w] \in {"none", "exited"}
Finished == AllDone /\ UNCHANGED vars
Next == (\E t \in HThreads : HStep(t)) \/ (\E w \in Workers : WStep(w)) \/ Finished
Spec == Init /\ [][Next]_vars
FairSpec == Spec /\ (\A t \in HThreads : WF_vars(HStep(t))) /\ (\A w \in Workers : WF_vars(WStep(w)))

\* ---- properties
RanAtMostOnce == \A a, b \in 1..Len(ranSeq) : a # b => ranSeq[a][1] # ranSeq[b][1]
RanOnlyIfStarted == RanSet \subseteq accBegun
RunsOnWorker == \A k \in 1..Len(ranSeq) : ranSeq[k][3] \in Workers
DoneOnlyIfStopRequested == \A k \in 1..Len(ranSeq) : ranSeq[k][2] = 0 => itemStop[ranSeq[k][1]]
\* the destructor returns only after every worker exited, and nothing accepted before request_stop() is left behind
NoItemLost == destroyed => lost = {}
AllThreadsJoined == destroyed => \A w \in Workers : Live(w) => w \in exited
\* a worker only exits when its own queue is empty
ExitedQueueEmptyOrLate == \A w \in exited : \A k \in 1..Len(q[w - 10]) : q[w - 10][k] \notin mustRun
MutexSane == \A k \in WIdx : mtx[k] # 0 => (\E t \in HThreads \cup Workers : held[t] = k \/ pc[t] \in {"s_unl", "w_punl"})
AcceptedRuns == \A i \in Items : (i \in mustRun) ~> (i \in RanSet)
Terminates == <>AllDone
=============================================================================
