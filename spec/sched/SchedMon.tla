----------------------------- MODULE SchedMon -----------------------------
(***************************************************************************)
(* The C06 monitor: the most permissive behaviour over API-level events of *)
(* ONE execution context that still satisfies the property statement       *)
(* "schedulers run every scheduled item once, on their own context, losing *)
(* none".  TLC evaluates it on an ndjson log recorded from the real code   *)
(* (many executions separated by Reset).  Nothing here refers to internal  *)
(* steps, to which pool thread ran an item, or to the implementation spec. *)
(*                                                                         *)
(* Event alphabet (every line has e, i = item, t = logical thread):        *)
(*  Reset{x,fifo,maxd,inl,imm,excl} new execution; fifo=1 single-thread loop, *)
(*        maxd>0 trampoline depth limit, inl=1 inline-family scheduler     *)
(*        (runs on the accepting thread inside the outermost start()),     *)
(*        imm=1 runs before its own start() returns (inline_scheduler)     *)
(*  AcceptBegin/AcceptEnd{i,t}   start() of item i's schedule operation    *)
(*  StopItemBegin/StopItemEnd{i} request_stop() on item i's stop source    *)
(*  Tok{i}                       the context read item i's stop token      *)
(*                               (get_stop_token query on the receiver)    *)
(*  Ran{i,ch,t,own,d}            completion of item i: ch 1=value 0=done   *)
(*                               2=error, on thread t; own=0 iff the API   *)
(*                               says this is not the context's thread;    *)
(*                               d = nesting depth of completions on t     *)
(*  RunBegin/RunReturn{t}        t lends itself to the context (run())     *)
(*  ThreadCreated/ThreadJoined{t} pthread_create / pthread_join observed   *)
(*                               while operating the context               *)
(*  StopCtxBegin/StopCtxEnd      stop() / request_stop() / destructor      *)
(*  CtxDestroyed                 the context's destructor returned         *)
(*  MarkInactive / Told{i}       (atomic queue driver) consumer marked the *)
(*                               queue inactive / enqueue(i) returned true *)
(*  MarkActive{r}                try_mark_active() returned r              *)
(*  SchedEq{k,want,got}          result of an equality / type() comparison *)
(*                               of type-erased schedulers (any_scheduler, *)
(*                               any_scheduler_ref); want = the answer for *)
(*                               the wrapped schedulers                    *)
(*  Ran.sub                      schedule_with_subscheduler: 1 iff the     *)
(*                               delivered value equals the scheduler,     *)
(*                               0 if not, -1 not applicable               *)
(***************************************************************************)
EXTENDS Naturals, Sequences, FiniteSets, TLC, TraceIO
Items == 1..16
VARIABLES l, cfg,
          accBegun, accOpen, accEnded, acceptor, before,   \* accepts (start() calls)
          ran,                                             \* items that completed
          stopCtxBegun, mustRun,                           \* accepted (start() returned) before the context was told to stop
          stopBegun, stopEnded, stopBeforeAccept, stopAtTok,
          ctxThreads, created, joined,
          openAcc,                                         \* [thread -> number of open start() calls] as a set of <<t,i>>
          inactive
vars == <<l, cfg, accBegun, accOpen, accEnded, acceptor, before, ran, stopCtxBegun, mustRun, stopBegun, stopEnded,
          stopBeforeAccept, stopAtTok, ctxThreads, created, joined, openAcc, inactive>>

NoCfg == [fifo |-> 0, maxd |-> 0, inl |-> 0, imm |-> 0, excl |-> 0]
Fresh(c) == /\ cfg' = c
            /\ accBegun' = {} /\ accOpen' = {} /\ accEnded' = {} /\ acceptor' = [i \in Items |-> 0]
            /\ before' = [i \in Items |-> {}] /\ ran' = {}
            /\ stopCtxBegun' = FALSE /\ mustRun' = {}
            /\ stopBegun' = {} /\ stopEnded' = {} /\ stopBeforeAccept' = {} /\ stopAtTok' = {}
            /\ ctxThreads' = {} /\ created' = {} /\ joined' = {} /\ openAcc' = {} /\ inactive' = FALSE
Init == /\ l = 1 /\ cfg = NoCfg
        /\ accBegun = {} /\ accOpen = {} /\ accEnded = {} /\ acceptor = [i \in Items |-> 0]
        /\ before = [i \in Items |-> {}] /\ ran = {}
        /\ stopCtxBegun = FALSE /\ mustRun = {}
        /\ stopBegun = {} /\ stopEnded = {} /\ stopBeforeAccept = {} /\ stopAtTok = {}
        /\ ctxThreads = {} /\ created = {} /\ joined = {} /\ openAcc = {} /\ inactive = FALSE
        /\ TrackInit
E == Log[l]
Is(e) == l <= Len(Log) /\ E.e = e /\ l' = l + 1

\* end-of-execution obligations: no start() still open, nothing accepted before stop is unrun
Closed == accOpen = {} /\ mustRun \subseteq ran

Reset == /\ Is("Reset") /\ Closed
         /\ Fresh([fifo |-> E.fifo, maxd |-> E.maxd, inl |-> E.inl, imm |-> E.imm, excl |-> E.excl])

AcceptBegin == /\ Is("AcceptBegin") /\ E.i \notin accBegun
               /\ accBegun' = accBegun \cup {E.i} /\ accOpen' = accOpen \cup {E.i}
               /\ acceptor' = [acceptor EXCEPT ![E.i] = E.t]
               /\ before' = [before EXCEPT ![E.i] = accEnded]
               /\ stopBeforeAccept' = IF E.i \in stopEnded THEN stopBeforeAccept \cup {E.i} ELSE stopBeforeAccept
               /\ openAcc' = openAcc \cup {<<E.t, E.i>>}
               /\ UNCHANGED <<cfg, accEnded, ran, stopCtxBegun, mustRun, stopBegun, stopEnded, stopAtTok, ctxThreads,
                              created, joined, inactive>>
OpenOn(t, S) == {p \in S : p[1] = t}
AcceptEnd == /\ Is("AcceptEnd") /\ E.i \in accOpen /\ acceptor[E.i] = E.t
             /\ cfg.imm = 1 => E.i \in ran                                  \* inline_scheduler: ran inside start()
             \* inline family: when the outermost start() on this thread returns, everything it accepted has run
             /\ (cfg.inl = 1 /\ OpenOn(E.t, openAcc \ {<<E.t, E.i>>}) = {})
                   => \A j \in accBegun : acceptor[j] = E.t => j \in ran
             /\ accOpen' = accOpen \ {E.i} /\ accEnded' = accEnded \cup {E.i}
             /\ openAcc' = openAcc \ {<<E.t, E.i>>}
             /\ mustRun' = IF stopCtxBegun THEN mustRun ELSE mustRun \cup {E.i}
             /\ UNCHANGED <<cfg, accBegun, acceptor, before, ran, stopCtxBegun, stopBegun, stopEnded, stopBeforeAccept,
                            stopAtTok, ctxThreads, created, joined, inactive>>
StopItemBegin == /\ Is("StopItemBegin") /\ stopBegun' = stopBegun \cup {E.i}
                 /\ UNCHANGED <<cfg, accBegun, accOpen, accEnded, acceptor, before, ran, stopCtxBegun, mustRun, stopEnded,
                                stopBeforeAccept, stopAtTok, ctxThreads, created, joined, openAcc, inactive>>
StopItemEnd == /\ Is("StopItemEnd") /\ E.i \in stopBegun /\ stopEnded' = stopEnded \cup {E.i}
               /\ UNCHANGED <<cfg, accBegun, accOpen, accEnded, acceptor, before, ran, stopCtxBegun, mustRun, stopBegun,
                              stopBeforeAccept, stopAtTok, ctxThreads, created, joined, openAcc, inactive>>
\* the latest read of the item's stop token by the context decides (a read after request_stop() returned sees it)
Tok == /\ Is("Tok")
       /\ stopAtTok' = IF E.i \in stopEnded THEN stopAtTok \cup {E.i} ELSE stopAtTok \ {E.i}
       /\ UNCHANGED <<cfg, accBegun, accOpen, accEnded, acceptor, before, ran, stopCtxBegun, mustRun, stopBegun, stopEnded,
                      stopBeforeAccept, ctxThreads, created, joined, openAcc, inactive>>
Ran == /\ Is("Ran")
       /\ E.i \notin ran                                                    \* at most once
       /\ E.i \in accBegun                                                  \* never before start()
       /\ E.ch = 0 => E.i \in stopBegun                                     \* done only if stop was requested
       /\ E.ch = 1 => (E.i \notin stopBeforeAccept /\ E.i \notin stopAtTok) \* value only if stop was not requested first
       /\ IF cfg.inl = 1
          THEN E.t = acceptor[E.i] /\ OpenOn(E.t, openAcc) # {}             \* inline family: the accepting thread, inside start()
          ELSE E.ch = 1 => (E.t \in ctxThreads /\ E.own # 0)                \* value completes on a thread of the context
       /\ cfg.fifo = 1 => before[E.i] \subseteq ran                         \* FIFO among non-overlapping accepts
       /\ cfg.maxd > 0 => E.d <= cfg.maxd                                   \* trampoline nesting bound
       /\ E.sub # 0                                                         \* the sub-scheduler delivered is the scheduler
       /\ ran' = ran \cup {E.i}
       /\ UNCHANGED <<cfg, accBegun, accOpen, accEnded, acceptor, before, stopCtxBegun, mustRun, stopBegun, stopEnded,
                      stopBeforeAccept, stopAtTok, ctxThreads, created, joined, openAcc, inactive>>
RunBegin == /\ Is("RunBegin") /\ (cfg.excl = 1 => ctxThreads = {})          \* consumer role is exclusive
            /\ ctxThreads' = ctxThreads \cup {E.t}
            /\ UNCHANGED <<cfg, accBegun, accOpen, accEnded, acceptor, before, ran, stopCtxBegun, mustRun, stopBegun,
                           stopEnded, stopBeforeAccept, stopAtTok, created, joined, openAcc, inactive>>
\* when the last thread leaves the context, nothing accepted before stop is left behind
RunReturn == /\ Is("RunReturn") /\ E.t \in ctxThreads
             /\ ctxThreads' = ctxThreads \ {E.t}
             /\ (ctxThreads' = {} /\ cfg.excl = 0) => mustRun \subseteq ran
             /\ UNCHANGED <<cfg, accBegun, accOpen, accEnded, acceptor, before, ran, stopCtxBegun, mustRun, stopBegun,
                            stopEnded, stopBeforeAccept, stopAtTok, created, joined, openAcc, inactive>>
ThreadCreated == /\ Is("ThreadCreated") /\ E.t \notin created
                 /\ created' = created \cup {E.t} /\ ctxThreads' = ctxThreads \cup {E.t}
                 /\ UNCHANGED <<cfg, accBegun, accOpen, accEnded, acceptor, before, ran, stopCtxBegun, mustRun, stopBegun,
                                stopEnded, stopBeforeAccept, stopAtTok, joined, openAcc, inactive>>
ThreadJoined == /\ Is("ThreadJoined") /\ E.t \in created /\ E.t \notin joined
                /\ joined' = joined \cup {E.t} /\ ctxThreads' = ctxThreads \ {E.t}
                /\ UNCHANGED <<cfg, accBegun, accOpen, accEnded, acceptor, before, ran, stopCtxBegun, mustRun, stopBegun,
                               stopEnded, stopBeforeAccept, stopAtTok, created, openAcc, inactive>>
StopCtx == /\ (Is("StopCtxBegin") \/ Is("StopCtxEnd")) /\ stopCtxBegun' = TRUE
           /\ UNCHANGED <<cfg, accBegun, accOpen, accEnded, acceptor, before, ran, mustRun, stopBegun, stopEnded,
                          stopBeforeAccept, stopAtTok, ctxThreads, created, joined, openAcc, inactive>>
\* destructor returned: every thread the context created has been joined, nothing accepted before stop is unrun
CtxDestroyed == /\ Is("CtxDestroyed") /\ created = joined /\ mustRun \subseteq ran
                /\ UNCHANGED <<cfg, accBegun, accOpen, accEnded, acceptor, before, ran, stopCtxBegun, mustRun, stopBegun,
                               stopEnded, stopBeforeAccept, stopAtTok, ctxThreads, created, joined, openAcc, inactive>>
\* atomic queue: exactly one producer is told "consumer inactive" per inactive period
MarkInactive == /\ Is("MarkInactive") /\ ~inactive /\ inactive' = TRUE
                /\ UNCHANGED <<cfg, accBegun, accOpen, accEnded, acceptor, before, ran, stopCtxBegun, mustRun, stopBegun,
                               stopEnded, stopBeforeAccept, stopAtTok, ctxThreads, created, joined, openAcc>>
Told == /\ Is("Told") /\ inactive /\ inactive' = FALSE
        /\ UNCHANGED <<cfg, accBegun, accOpen, accEnded, acceptor, before, ran, stopCtxBegun, mustRun, stopBegun,
                       stopEnded, stopBeforeAccept, stopAtTok, ctxThreads, created, joined, openAcc>>
End == /\ (Is("End") \/ Is("AssertFail"))   \* End carries the schedule for replay; AssertFail = a UNIFEX_ASSERT failed (recorded, out of scope); no obligation
       /\ UNCHANGED <<cfg, accBegun, accOpen, accEnded, acceptor, before, ran, stopCtxBegun, mustRun, stopBegun, stopEnded,
                      stopBeforeAccept, stopAtTok, ctxThreads, created, joined, openAcc, inactive>>
\* try_mark_active() succeeds iff the queue is inactive
MarkActive == /\ Is("MarkActive") /\ (E.r = 1) = inactive /\ inactive' = FALSE
              /\ UNCHANGED <<cfg, accBegun, accOpen, accEnded, acceptor, before, ran, stopCtxBegun, mustRun, stopBegun,
                             stopEnded, stopBeforeAccept, stopAtTok, ctxThreads, created, joined, openAcc>>
\* type-erased schedulers compare like the schedulers they wrap
SchedEq == /\ Is("SchedEq") /\ E.want = E.got
           /\ UNCHANGED <<cfg, accBegun, accOpen, accEnded, acceptor, before, ran, stopCtxBegun, mustRun, stopBegun, stopEnded,
                          stopBeforeAccept, stopAtTok, ctxThreads, created, joined, openAcc, inactive>>
Next == End \/ MarkActive \/ SchedEq \/ Reset \/ AcceptBegin \/ AcceptEnd \/ StopItemBegin \/ StopItemEnd \/ Tok \/ Ran \/ RunBegin \/ RunReturn
        \/ ThreadCreated \/ ThreadJoined \/ StopCtx \/ CtxDestroyed \/ MarkInactive \/ Told
Spec == Init /\ [][Next]_vars
Track == TrackAt(l, Closed)
Report == ReportTrace
=============================================================================
