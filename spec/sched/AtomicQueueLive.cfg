SPECIFICATION FairSpec
CONSTANTS Threads <- T  Items <- I  Scenarios <- Scn
PROPERTY Terminates
CHECK_DEADLOCK TRUE
