---- MODULE TrampolineMC ----
(* TLC ENUMERATES the inputs: chains of nested starts (length 0..MaxChain) and every ordered forest with up to   *)
(* MaxNodes nodes, each under recursion limits 1..MaxDepth (and 0 = inline_scheduler), optionally with one item   *)
(* whose stop token is already stopped.  Each input with its predicted completion sequence is exported as JSON.   *)
EXTENDS Trampoline, Json, IOUtils, TLCExt
MaxChain == IF "MAXCHAIN" \in DOMAIN IOEnv THEN atoi(IOEnv.MAXCHAIN) ELSE 12
MaxNodes == IF "MAXNODES" \in DOMAIN IOEnv THEN atoi(IOEnv.MAXNODES) ELSE 4
MaxDepth == 4
MI == 13
SortedSeq(S) == CHOOSE s \in [1..Cardinality(S) -> S] : \A a, b \in 1..Cardinality(S) : a < b => s[a] < s[b]
Chain(n) == [items |-> n + 1, roots |-> <<1>>, body |-> [i \in 1..(n + 1) |-> IF i <= n THEN <<i + 1>> ELSE <<>>]]
\* parent[i] \in 0..i-1 ; 0 = started from the top level
Parents(n) == {p \in [1..n -> 0..(n - 1)] : \A i \in 1..n : p[i] < i}
Forest(n, p) == [items |-> n, roots |-> SortedSeq({i \in 1..n : p[i] = 0}),
                 body |-> [i \in 1..n |-> SortedSeq({c \in 1..n : p[c] = i})]]
Shapes == {Chain(n) : n \in 0..MaxChain} \cup UNION {{Forest(n, p) : p \in Parents(n)} : n \in 1..MaxNodes}
Scn == {[items |-> s.items, roots |-> s.roots, body |-> s.body, maxd |-> d, stopped |-> st] :
          s \in Shapes, d \in 0..MaxDepth, st \in {<<>>, <<1>>, <<2>>}}
Export ==
  LET rec == [scn |-> scn, ran |-> ranSeq']
  IN (Finished' /\ ~Finished) =>
     Serialize(ToJson(rec) \o "\n", IOEnv.OUT,
        [format |-> "TXT", charset |-> "UTF-8", openOptions |-> <<"WRITE", "CREATE", "APPEND">>]).exitValue = 0
====
