SPECIFICATION LSpec
CONSTANTS HThreads <- T  Items <- I  Scenarios <- Scn
INVARIANTS RanAtMostOnce AllThreadsJoined NoTouchAfterDestroy
VIEW LView
ACTION_CONSTRAINT EdgeLog
CHECK_DEADLOCK TRUE
