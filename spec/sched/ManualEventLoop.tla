------------------------- MODULE ManualEventLoop -------------------------
(***************************************************************************)
(* Implementation-shaped specification of unifex::manual_event_loop        *)
(* (include/unifex/manual_event_loop.hpp, source/manual_event_loop.cpp).   *)
(*                                                                         *)
(* State = the fields guarded by mutex_: the FIFO list head_/tail_ (a      *)
(* sequence of items), stop_, and the set of threads blocked in            *)
(* cv_.wait().  Granularity = one action per mutex acquisition: a critical *)
(* section contains no schedule point, so "lock; body; unlock" is one      *)
(* atomic action; cv_.wait() splits run() into "check, enter the waiting   *)
(* set and release" and "woken, re-acquire, check again".                  *)
(*                                                                         *)
(* Threads execute small programs over the public API (scenarios, shared   *)
(* with the C++ driver as JSON):                                           *)
(*   <<"run",0>>       loop.run()          (the consumer)                  *)
(*   <<"start",i>>     start() of the schedule() operation of item i       *)
(*   <<"stopitem",i>>  request_stop() on the stop source of item i         *)
(*   <<"stopctx",0>>   loop.stop()                                         *)
(*   <<"await",0>>     wait until every item of the scenario has run       *)
(* body[i] is the program executed inside item i's completion (on the      *)
(* thread that runs the loop).                                             *)
(*                                                                         *)
(* pc values and the schedule point of the real code they correspond to:   *)
(*   "op"       harness yield in front of the next program operation       *)
(*   "enq"      pthread_mutex_lock in context::enqueue                     *)
(*   "stop"     pthread_mutex_lock in context::stop                        *)
(*   "run"      pthread_mutex_lock in context::run (entry / lock.lock())   *)
(*   "wait"     blocked in pthread_cond_wait (not runnable)                *)
(*   "woken"    signalled (or woken spuriously), about to re-acquire the   *)
(*              mutex in cond_wait                                         *)
(*   "done"     program finished                                           *)
(***************************************************************************)
EXTENDS Naturals, Sequences, FiniteSets, TLC
CONSTANTS Threads, Items, Scenarios

VARIABLES scn,
          pc, ip, inBody, bip,      \* per thread: control state
          queue, stop, cvWait,      \* the loop's fields
          stopReq,                  \* per item: its stop source has been requested
          \* ---- history (ghost) variables used only by the property formulas
          accBegun, accEnded, before, mustRun, stopCtxBegun, stopAtBegin,
          ranSeq,                   \* sequence of <<item, channel, thread, stop-requested-at-check>>
          runners, lostAtReturn, ranOffCtx,
          lastT, lastPc             \* export labels (hidden by VIEW)

vars == <<scn, pc, ip, inBody, bip, queue, stop, cvWait, stopReq, accBegun, accEnded, before, mustRun,
          stopCtxBegun, stopAtBegin, ranSeq, runners, lostAtReturn, ranOffCtx, lastT, lastPc>>
View == <<scn, pc, ip, inBody, bip, queue, stop, cvWait, stopReq, accBegun, accEnded, before, mustRun,
          stopCtxBegun, stopAtBegin, ranSeq, runners, lostAtReturn, ranOffCtx>>

NT == Cardinality(Threads)
Prog(t) == IF t <= Len(scn.prog) THEN scn.prog[t] ELSE <<>>
Body(i) == IF i <= Len(scn.body) THEN scn.body[i] ELSE <<>>
Ops(t) == IF inBody[t] = 0 THEN Prog(t) ELSE Body(inBody[t])
Ip(t) == IF inBody[t] = 0 THEN ip[t] ELSE bip[t]
RanSet == {ranSeq[k][1] : k \in 1..Len(ranSeq)}
ScnItems == {i \in Items : i <= scn.items}

Init == /\ scn \in Scenarios
        /\ pc = [t \in Threads |-> IF Len(Prog(t)) = 0 THEN "done" ELSE "op"]
        /\ ip = [t \in Threads |-> 1] /\ inBody = [t \in Threads |-> 0] /\ bip = [t \in Threads |-> 1]
        /\ queue = <<>> /\ stop = FALSE /\ cvWait = {}
        /\ stopReq = [i \in Items |-> FALSE]
        /\ accBegun = {} /\ accEnded = {} /\ before = [i \in Items |-> {}] /\ mustRun = {}
        /\ stopCtxBegun = FALSE /\ stopAtBegin = {}
        /\ ranSeq = <<>> /\ runners = {} /\ lostAtReturn = {} /\ ranOffCtx = {}
        /\ lastT = 0 /\ lastPc = ""

\* control state of thread t after it finished the operation at Ip(t)
\* (returns <<pc, ip, inBody, bip>> components)
AfterOp(t) ==
  LET n == Ip(t) + 1 IN
  IF n <= Len(Ops(t))
  THEN [pc |-> "op", ip |-> IF inBody[t] = 0 THEN n ELSE ip[t], inBody |-> inBody[t], bip |-> IF inBody[t] = 0 THEN bip[t] ELSE n]
  ELSE IF inBody[t] # 0
       THEN [pc |-> "run", ip |-> ip[t], inBody |-> 0, bip |-> 1]     \* the completion returns into run(): lock.lock()
       ELSE [pc |-> "done", ip |-> n, inBody |-> 0, bip |-> 1]
Goto(t, r) == /\ pc' = [pc EXCEPT ![t] = r.pc] /\ ip' = [ip EXCEPT ![t] = r.ip]
              /\ inBody' = [inBody EXCEPT ![t] = r.inBody] /\ bip' = [bip EXCEPT ![t] = r.bip]
Label(t) == lastT' = t /\ lastPc' = pc[t]

Op(t) == Ops(t)[Ip(t)]

\* ---- harness-level operation fetch (the schedule point in front of every program operation)
BeginStart(t) == /\ pc[t] = "op" /\ Op(t)[1] = "start"
                 /\ LET i == Op(t)[2] IN
                    /\ accBegun' = accBegun \cup {i}
                    /\ before' = [before EXCEPT ![i] = accEnded]
                    /\ stopAtBegin' = IF stopReq[i] THEN stopAtBegin \cup {i} ELSE stopAtBegin
                 /\ pc' = [pc EXCEPT ![t] = "enq"] /\ Label(t)
                 /\ UNCHANGED <<scn, ip, inBody, bip, queue, stop, cvWait, stopReq, accEnded, mustRun, stopCtxBegun,
                                ranSeq, runners, lostAtReturn, ranOffCtx>>
StopItem(t) == /\ pc[t] = "op" /\ Op(t)[1] = "stopitem"
               /\ stopReq' = [stopReq EXCEPT ![Op(t)[2]] = TRUE]
               /\ Goto(t, AfterOp(t)) /\ Label(t)
               /\ UNCHANGED <<scn, queue, stop, cvWait, accBegun, accEnded, before, mustRun, stopCtxBegun, stopAtBegin,
                              ranSeq, runners, lostAtReturn, ranOffCtx>>
BeginStop(t) == /\ pc[t] = "op" /\ Op(t)[1] = "stopctx"
                /\ stopCtxBegun' = TRUE
                /\ pc' = [pc EXCEPT ![t] = "stop"] /\ Label(t)
                /\ UNCHANGED <<scn, ip, inBody, bip, queue, stop, cvWait, stopReq, accBegun, accEnded, before, mustRun,
                               stopAtBegin, ranSeq, runners, lostAtReturn, ranOffCtx>>
BeginRun(t) == /\ pc[t] = "op" /\ Op(t)[1] = "run"
               /\ runners' = runners \cup {t}
               /\ pc' = [pc EXCEPT ![t] = "run"] /\ Label(t)
               /\ UNCHANGED <<scn, ip, inBody, bip, queue, stop, cvWait, stopReq, accBegun, accEnded, before, mustRun,
                              stopCtxBegun, stopAtBegin, ranSeq, lostAtReturn, ranOffCtx>>
Await(t) == /\ pc[t] = "op" /\ Op(t)[1] = "await"
            /\ ScnItems \subseteq RanSet                      \* a spin loop in the harness: an await
            /\ Goto(t, AfterOp(t)) /\ Label(t)
            /\ UNCHANGED <<scn, queue, stop, cvWait, stopReq, accBegun, accEnded, before, mustRun, stopCtxBegun,
                           stopAtBegin, ranSeq, runners, lostAtReturn, ranOffCtx>>

\* ---- context::enqueue : lock; link at the tail; notify_one iff the list was empty; unlock
\* NotifyOne(w): cv_.notify_one() wakes one of the waiting threads (any one), nothing if none waits.
Enqueue(t) == /\ pc[t] = "enq"
              /\ LET i == Op(t)[2]
                     wasEmpty == queue = <<>>
                     r == AfterOp(t) IN
                 /\ queue' = Append(queue, i)
                 /\ IF wasEmpty /\ cvWait # {}
                    THEN \E w \in cvWait : /\ cvWait' = cvWait \ {w}
                                           /\ pc' = [pc EXCEPT ![t] = r.pc, ![w] = "woken"]
                    ELSE /\ cvWait' = cvWait /\ pc' = [pc EXCEPT ![t] = r.pc]
                 /\ ip' = [ip EXCEPT ![t] = r.ip] /\ inBody' = [inBody EXCEPT ![t] = r.inBody]
                 /\ bip' = [bip EXCEPT ![t] = r.bip]
                 /\ accEnded' = accEnded \cup {i}
                 /\ mustRun' = IF stopCtxBegun THEN mustRun ELSE mustRun \cup {i}
              /\ Label(t)
              /\ UNCHANGED <<scn, stop, stopReq, accBegun, before, stopCtxBegun, stopAtBegin, ranSeq, runners,
                             lostAtReturn, ranOffCtx>>

\* ---- context::stop : lock; stop_ = true; notify_all; unlock
Stop(t) == /\ pc[t] = "stop"
           /\ stop' = TRUE
           /\ cvWait' = {}
           /\ LET r == AfterOp(t) IN
              /\ pc' = [u \in Threads |-> IF u = t THEN r.pc ELSE IF u \in cvWait THEN "woken" ELSE pc[u]]
              /\ ip' = [ip EXCEPT ![t] = r.ip] /\ inBody' = [inBody EXCEPT ![t] = r.inBody]
              /\ bip' = [bip EXCEPT ![t] = r.bip]
           /\ Label(t)
           /\ UNCHANGED <<scn, queue, stopReq, accBegun, accEnded, before, mustRun, stopCtxBegun, stopAtBegin, ranSeq,
                          runners, lostAtReturn, ranOffCtx>>

\* ---- context::run : (re-)acquire the mutex, then
\*   head_ != nullptr : unlink the head, unlock, execute it (stop_requested() ? set_done : set_value)
\*   else stop_       : return
\*   else             : cv_.wait(lock)
RunStep(t) ==
  /\ pc[t] \in {"run", "woken"}
  /\ IF queue # <<>>
     THEN LET i == Head(queue)
              ch == IF stopReq[i] THEN "done" ELSE "value" IN
          /\ queue' = Tail(queue)
          /\ ranSeq' = Append(ranSeq, <<i, ch, t, stopReq[i]>>)
          /\ ranOffCtx' = IF t \in runners THEN ranOffCtx ELSE ranOffCtx \cup {i}
          /\ IF Len(Body(i)) > 0
             THEN /\ pc' = [pc EXCEPT ![t] = "op"] /\ inBody' = [inBody EXCEPT ![t] = i]
                  /\ bip' = [bip EXCEPT ![t] = 1]
             ELSE /\ pc' = [pc EXCEPT ![t] = "run"] /\ UNCHANGED <<inBody, bip>>
          /\ UNCHANGED <<ip, cvWait, runners, lostAtReturn>>
     ELSE IF stop
          THEN /\ runners' = runners \ {t}
               /\ lostAtReturn' = lostAtReturn \cup (mustRun \ RanSet)
               /\ Goto(t, AfterOp(t))
               /\ UNCHANGED <<queue, cvWait, ranSeq, ranOffCtx>>
          ELSE /\ cvWait' = cvWait \cup {t}
               /\ pc' = [pc EXCEPT ![t] = "wait"]
               /\ UNCHANGED <<ip, inBody, bip, queue, ranSeq, runners, lostAtReturn, ranOffCtx>>
  /\ Label(t)
  /\ UNCHANGED <<scn, stop, stopReq, accBegun, accEnded, before, mustRun, stopCtxBegun, stopAtBegin>>

\* ---- a spurious wake-up: pthread_cond_wait may return without a notification.  The waiter leaves the waiting set
\* and re-acquires the mutex (its next step is RunStep from "woken").  Not part of the fair steps: progress must never
\* depend on it.
Spurious(t) == /\ pc[t] = "wait" /\ t \in cvWait
               /\ cvWait' = cvWait \ {t} /\ pc' = [pc EXCEPT ![t] = "woken"]
               /\ lastT' = t /\ lastPc' = "spur"
               /\ UNCHANGED <<scn, ip, inBody, bip, queue, stop, stopReq, accBegun, accEnded, before, mustRun, stopCtxBegun,
                              stopAtBegin, ranSeq, runners, lostAtReturn, ranOffCtx>>

Step(t) == BeginStart(t) \/ StopItem(t) \/ BeginStop(t) \/ BeginRun(t) \/ Await(t) \/ Enqueue(t) \/ Stop(t) \/ RunStep(t)
AllDone == \A t \in Threads : pc[t] = "done"
Finished == /\ AllDone /\ lastT' = 0 /\ lastPc' = ""
            /\ UNCHANGED <<scn, pc, ip, inBody, bip, queue, stop, cvWait, stopReq, accBegun, accEnded, before, mustRun,
                           stopCtxBegun, stopAtBegin, ranSeq, runners, lostAtReturn, ranOffCtx>>
Next == (\E t \in Threads : Step(t)) \/ (\E t \in Threads : Spurious(t)) \/ Finished
Spec == Init /\ [][Next]_vars
FairSpec == Spec /\ \A t \in Threads : WF_vars(Step(t))

(***************************************************************************)
(* Property formulas (C06 for this context)                                *)
(***************************************************************************)
RanAtMostOnce == \A a, b \in 1..Len(ranSeq) : a # b => ranSeq[a][1] # ranSeq[b][1]
RanOnlyIfStarted == RanSet \subseteq accBegun
\* no item accepted before stop() began is still unrun when run() returns
NoItemLost == lostAtReturn = {}
\* ... and, with every thread finished, every item accepted before stop() has run
TerminalAllRan == AllDone => mustRun \subseteq RanSet
RunsOnOwnContext == ranOffCtx = {}
DoneOnlyIfStopRequested == \A k \in 1..Len(ranSeq) : ranSeq[k][2] = "done" => stopReq[ranSeq[k][1]]
ValueOnlyIfNotStoppedFirst == \A k \in 1..Len(ranSeq) : ranSeq[k][2] = "value" => ranSeq[k][1] \notin stopAtBegin
\* FIFO among non-overlapping accepts: whatever was accepted before start(j) began has run before j runs
Fifo == \A k \in 1..Len(ranSeq) : \A j \in before[ranSeq[k][1]] : \E m \in 1..(k - 1) : ranSeq[m][1] = j
NoWaiterWithWork == \A t \in cvWait : pc[t] = "wait"
\* liveness (FairSpec, no constraint): an item accepted before stop() began eventually runs; everything terminates
AcceptedRuns == \A i \in Items : (i \in mustRun) ~> (i \in RanSet)
Terminates == <>AllDone
=============================================================================
