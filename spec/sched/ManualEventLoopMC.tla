---- MODULE ManualEventLoopMC ----
(* Model-checking instance of ManualEventLoop: scenarios come from a JSON file shared with the C++ driver;   *)
(* every explored transition is exported (ACTION_CONSTRAINT) for behaviour generation / guided replay.       *)
EXTENDS ManualEventLoop, Json, IOUtils, TLCExt
T == 1..4
I == 1..4
ScnSeq == JsonDeserialize(IOEnv.SCENARIOS)
Scn == {ScnSeq[i] : i \in 1..Len(ScnSeq)}
EdgeLog ==
  LET rec == [s |-> <<TLCFP(View), TLCFP(<<View, 1>>)>>, t |-> <<TLCFP(View'), TLCFP(<<View', 1>>)>>,
              th |-> lastT', pc |-> lastPc', scn |-> scn.id, done |-> AllDone',
              obs |-> [ran |-> [k \in 1..Len(ranSeq') |-> <<ranSeq'[k][1], IF ranSeq'[k][2] = "value" THEN 1 ELSE 0>>]]]
  IN (lastT' # 0) =>
     Serialize(ToJson(rec) \o "\n", IOEnv.EDGES,
        [format |-> "TXT", charset |-> "UTF-8", openOptions |-> <<"WRITE", "CREATE", "APPEND">>]).exitValue = 0
====
