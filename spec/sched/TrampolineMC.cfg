SPECIFICATION FairSpec
CONSTANTS Scenarios <- Scn  MaxItems <- MI
INVARIANTS DepthBounded DeferredDrainedBeforeOuterReturn RanAtMostOnce RanOnlyStarted AllRanAtEnd
PROPERTY Terminates
ACTION_CONSTRAINT Export
CHECK_DEADLOCK TRUE
