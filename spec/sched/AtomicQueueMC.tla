---- MODULE AtomicQueueMC ----
EXTENDS AtomicQueue, Json, IOUtils, TLCExt
T == 1..4
I == 1..4
ScnSeq == JsonDeserialize(IOEnv.SCENARIOS)
Scn == {ScnSeq[i] : i \in 1..Len(ScnSeq)}
EdgeLog ==
  LET rec == [s |-> <<TLCFP(View), TLCFP(<<View, 1>>)>>, t |-> <<TLCFP(View'), TLCFP(<<View', 1>>)>>,
              th |-> lastT', pc |-> lastPc', scn |-> scn.id, done |-> AllDone',
              obs |-> [ran |-> [k \in 1..Len(ranSeq') |-> <<ranSeq'[k][1], 1>>]]]
  IN (lastT' # 0) =>
     Serialize(ToJson(rec) \o "\n", IOEnv.EDGES,
        [format |-> "TXT", charset |-> "UTF-8", openOptions |-> <<"WRITE", "CREATE", "APPEND">>]).exitValue = 0
====
