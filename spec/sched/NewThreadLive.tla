---- MODULE NewThreadLive ----
EXTENDS NewThread, Json, IOUtils
T == 1..4
I == 1..4
ScnSeq == JsonDeserialize(IOEnv.SCENARIOS)
Scn == {ScnSeq[i] : i \in 1..Len(ScnSeq)}
====
