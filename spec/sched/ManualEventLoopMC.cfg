SPECIFICATION Spec
CONSTANTS Threads <- T  Items <- I  Scenarios <- Scn
INVARIANTS RanAtMostOnce RanOnlyIfStarted NoItemLost TerminalAllRan RunsOnOwnContext DoneOnlyIfStopRequested ValueOnlyIfNotStoppedFirst Fifo NoWaiterWithWork
VIEW View
ACTION_CONSTRAINT EdgeLog
CHECK_DEADLOCK TRUE
