---------------------------- MODULE AtomicQueue ----------------------------
(***************************************************************************)
(* include/unifex/detail/atomic_intrusive_queue.hpp at load / CAS /        *)
(* exchange granularity, driven by the two protocols in which libunifex    *)
(* uses it (spec/prim/AtomicIntrusiveQueue.tla, written by the C15 engine, *)
(* gives the same accesses as pure operators; this module sequences them   *)
(* into multi-step operations with per-thread snapshots and states the C06 *)
(* properties of the queue: nothing lost, exactly one producer is told     *)
(* "consumer inactive").                                                   *)
(*                                                                         *)
(*  mode "aq"  (I/O contexts' remote queue): producers enqueue(); the one  *)
(*     whose enqueue() returns true must wake the consumer (flag `wake` =  *)
(*     the eventfd); the consumer loops try_mark_inactive_or_dequeue_all() *)
(*     ("consume") or dequeue_all()+try_mark_inactive() ("consume2") and   *)
(*     sleeps when it has marked the queue inactive.  "consume3" is the    *)
(*     IOCP context's flavour: dequeue_all_reversed() (LIFO batch) +       *)
(*     try_mark_inactive(), and on exit try_mark_active() so that the next *)
(*     run() finds the queue active.                                       *)
(*  mode "aq2" (v1 async_mutex style): every thread calls                  *)
(*     enqueue_or_mark_active(item); the thread that found the queue       *)
(*     inactive becomes the consumer, processes its own item and then      *)
(*     everything it dequeues until it manages to mark the queue inactive. *)
(*     <<"trylock",0>> is v1 async_mutex::try_lock(): try_mark_active();   *)
(*     on success the thread is the consumer without an item of its own.   *)
(*                                                                         *)
(* head_ is modelled by (inactive, stk): the sentinel or the LIFO chain,   *)
(* newest first.  A CAS compares the pointer value = Top.  pc values are   *)
(* the names of the schedule points sched.aq.<pc> added to the header.     *)
(***************************************************************************)
EXTENDS Naturals, Sequences, FiniteSets, TLC
CONSTANTS Threads, Items, Scenarios
VARIABLES scn, pc, ip, old,          \* per thread: control state and the loaded snapshot (pointer value)
          inactive, stk,              \* head_
          wake,                       \* harness: consumer must be woken
          accBegun, accEnded, before, ranSeq, runners, told, marks, acts, multiRunner,
          lastT, lastPc
vars == <<scn, pc, ip, old, inactive, stk, wake, accBegun, accEnded, before, ranSeq, runners, told, marks, acts, multiRunner, lastT, lastPc>>
View == <<scn, pc, ip, old, inactive, stk, wake, accBegun, accEnded, before, ranSeq, runners, told, marks, acts, multiRunner>>
INACT == 99
Top == IF inactive THEN INACT ELSE IF stk = <<>> THEN 0 ELSE Head(stk)
RECURSIVE Rev(_)
Rev(s) == IF s = <<>> THEN <<>> ELSE Append(Rev(Tail(s)), Head(s))
Prog(t) == IF t <= Len(scn.prog) THEN scn.prog[t] ELSE <<>>
Op(t) == Prog(t)[ip[t]]
RanSet == {ranSeq[k][1] : k \in 1..Len(ranSeq)}
Mode2 == scn.ctx = "aq2"

Init == /\ scn \in Scenarios
        /\ pc = [t \in Threads |-> IF Len(Prog(t)) = 0 THEN "done" ELSE "op"]
        /\ ip = [t \in Threads |-> 1] /\ old = [t \in Threads |-> 0]
        /\ inactive = (scn.ctx = "aq2") /\ stk = <<>> /\ wake = FALSE
        /\ accBegun = {} /\ accEnded = {} /\ before = [i \in Items |-> {}] /\ ranSeq = <<>>
        /\ runners = {} /\ told = 0 /\ marks = 0 /\ acts = 0 /\ multiRunner = FALSE
        /\ lastT = 0 /\ lastPc = ""
Label(t) == lastT' = t /\ lastPc' = pc[t]
NextPc(t) == IF ip[t] + 1 <= Len(Prog(t)) THEN "op" ELSE "done"
Advance(t) == pc' = [pc EXCEPT ![t] = NextPc(t)] /\ ip' = [ip EXCEPT ![t] = ip[t] + 1]
RunItems(t, s) == ranSeq' = ranSeq \o [k \in 1..Len(s) |-> <<s[k], t>>]
\* where the consumer loop of thread t starts over
Again(t) == IF Mode2 \/ Op(t)[1] = "consume" THEN "t_load" ELSE IF Op(t)[1] = "consume3" THEN "r_load" ELSE "d_load"
\* where it continues when try_mark_inactive() returned false
NotMarked(t) == IF Mode2 \/ Op(t)[1] = "consume" THEN "t_xchg" ELSE Again(t)
H == <<accBegun, accEnded, before, ranSeq, runners, told, marks, acts, multiRunner>>

\* ---- operation fetch (harness yield in front of each program operation)
Fetch(t) ==
  /\ pc[t] = "op"
  /\ IF Op(t)[1] = "start"
     THEN /\ accBegun' = accBegun \cup {Op(t)[2]}
          /\ before' = [before EXCEPT ![Op(t)[2]] = accEnded]
          /\ pc' = [pc EXCEPT ![t] = IF Mode2 THEN "m_load" ELSE "e_load"]
          /\ UNCHANGED runners
     ELSE IF Op(t)[1] = "trylock"
          THEN /\ pc' = [pc EXCEPT ![t] = "a_cas"] /\ UNCHANGED <<accBegun, before, runners>>
          ELSE /\ runners' = runners \cup {t}                               \* "consume" / "consume2" / "consume3"
               /\ pc' = [pc EXCEPT ![t] = Again(t)]
               /\ UNCHANGED <<accBegun, before>>
  /\ Label(t)
  /\ UNCHANGED <<scn, ip, old, inactive, stk, wake, accEnded, ranSeq, told, marks, acts, multiRunner>>

\* ---- enqueue(item): load; do { item->next = old==inactive ? null : old } while (!CAS(old, item)); return old==inactive
ELoad(t) == /\ pc[t] \in {"e_load", "m_load"}
            /\ old' = [old EXCEPT ![t] = Top]
            /\ pc' = [pc EXCEPT ![t] = IF pc[t] = "e_load" THEN "e_cas" ELSE "m_cas"]
            /\ Label(t) /\ UNCHANGED <<scn, ip, inactive, stk, wake>> /\ UNCHANGED H
ECas(t) == /\ pc[t] = "e_cas"
           /\ LET i == Op(t)[2] IN
              IF Top = old[t]
              THEN /\ stk' = <<i>> \o stk /\ inactive' = FALSE
                   /\ told' = IF inactive THEN told + 1 ELSE told
                   /\ wake' = (wake \/ inactive)                       \* the producer that was told wakes the consumer
                   /\ accEnded' = accEnded \cup {i}
                   /\ Advance(t)
                   /\ UNCHANGED old
              ELSE /\ old' = [old EXCEPT ![t] = Top]                   \* CAS failure reloads
                   /\ UNCHANGED <<stk, inactive, told, wake, accEnded, pc, ip>>
           /\ Label(t) /\ UNCHANGED <<scn, accBegun, before, ranSeq, runners, marks, acts, multiRunner>>

\* ---- enqueue_or_mark_active(item): if inactive then CAS(inactive -> nullptr), return false, else push, return true
MCas(t) == /\ pc[t] = "m_cas"
           /\ LET i == Op(t)[2] IN
              IF Top = old[t]
              THEN IF inactive
                   THEN /\ inactive' = FALSE /\ UNCHANGED stk          \* not enqueued: t is the consumer now
                        /\ multiRunner' = (multiRunner \/ runners # {})
                        /\ runners' = runners \cup {t}
                        /\ RunItems(t, <<i>>)
                        /\ pc' = [pc EXCEPT ![t] = "t_load"]
                        /\ UNCHANGED <<old, ip, accEnded>>
                   ELSE /\ stk' = <<i>> \o stk /\ UNCHANGED inactive
                        /\ accEnded' = accEnded \cup {i}
                        /\ Advance(t)
                        /\ UNCHANGED <<old, ranSeq, runners, multiRunner>>
              ELSE /\ old' = [old EXCEPT ![t] = Top]
                   /\ UNCHANGED <<stk, inactive, accEnded, pc, ip, ranSeq, runners, multiRunner>>
           /\ Label(t) /\ UNCHANGED <<scn, wake, accBegun, before, told, marks, acts>>

\* ---- consumer side.  After a successful "mark inactive":
\*   aq  : finished if every item has run, otherwise sleep until woken
\*   aq2 : the consumer role ends; start() of this thread's own item returns
AfterMark(t) ==
  /\ marks' = marks + 1
  /\ IF Mode2
     THEN /\ runners' = runners \ {t} /\ Advance(t) /\ UNCHANGED wake
          /\ accEnded' = IF Op(t)[1] = "start" THEN accEnded \cup {Op(t)[2]} ELSE accEnded
     ELSE /\ UNCHANGED accEnded
          /\ IF Cardinality(RanSet) >= scn.items
             THEN IF Op(t)[1] = "consume3"
                  THEN pc' = [pc EXCEPT ![t] = "a_cas"] /\ UNCHANGED <<runners, ip, wake>>    \* leave the queue active
                  ELSE runners' = runners \ {t} /\ Advance(t) /\ UNCHANGED wake
             ELSE /\ UNCHANGED <<runners, ip>>
                  /\ IF wake THEN wake' = FALSE /\ pc' = [pc EXCEPT ![t] = Again(t)]
                             ELSE UNCHANGED wake /\ pc' = [pc EXCEPT ![t] = "sleep"]
\* try_mark_inactive(): load; if nullptr then CAS(nullptr -> inactive)
TLoad(t) == /\ pc[t] = "t_load"
            /\ old' = [old EXCEPT ![t] = Top]
            /\ pc' = [pc EXCEPT ![t] = IF Top = 0 THEN "t_cas" ELSE NotMarked(t)]
            /\ Label(t) /\ UNCHANGED <<scn, ip, inactive, stk, wake>> /\ UNCHANGED H
TCas(t) == /\ pc[t] = "t_cas"
           /\ IF Top = 0
              THEN /\ inactive' = TRUE /\ AfterMark(t) /\ UNCHANGED stk
              ELSE /\ pc' = [pc EXCEPT ![t] = NotMarked(t)]
                   /\ UNCHANGED <<inactive, stk, wake, ip, marks, runners, accEnded>>
           /\ Label(t) /\ UNCHANGED <<scn, old, accBegun, before, ranSeq, told, acts, multiRunner>>
\* exchange(nullptr): take everything, reverse, run it
Xchg(t) == /\ pc[t] \in {"t_xchg", "d_xchg", "r_xchg"}
           /\ stk' = <<>> /\ inactive' = FALSE
           /\ RunItems(t, IF pc[t] = "r_xchg" THEN stk ELSE Rev(stk))      \* dequeue_all_reversed: newest first
           /\ pc' = [pc EXCEPT ![t] = Again(t)]
           /\ Label(t) /\ UNCHANGED <<scn, ip, old, wake, accBegun, accEnded, before, runners, told, marks, acts, multiRunner>>
\* dequeue_all(): load; if nullptr return {} (then try_mark_inactive()), else exchange
DLoad(t) == /\ pc[t] \in {"d_load", "r_load"}
            /\ old' = [old EXCEPT ![t] = Top]
            /\ pc' = [pc EXCEPT ![t] = IF Top = 0 THEN "t_load" ELSE IF pc[t] = "d_load" THEN "d_xchg" ELSE "r_xchg"]
            /\ Label(t) /\ UNCHANGED <<scn, ip, inactive, stk, wake>> /\ UNCHANGED H
Sleep(t) == /\ pc[t] = "sleep" /\ wake
            /\ wake' = FALSE /\ pc' = [pc EXCEPT ![t] = Again(t)]
            /\ Label(t) /\ UNCHANGED <<scn, ip, old, inactive, stk>> /\ UNCHANGED H

\* try_mark_active(): CAS(inactive -> nullptr)
\*   aq  ("consume3" on exit): leaves the queue active; aq2 ("trylock"): on success t is the consumer (lock holder)
ACas(t) == /\ pc[t] = "a_cas"
           /\ IF inactive
              THEN /\ inactive' = FALSE /\ acts' = acts + 1
                   /\ IF Mode2
                      THEN /\ multiRunner' = (multiRunner \/ runners # {}) /\ runners' = runners \cup {t}
                           /\ pc' = [pc EXCEPT ![t] = "t_load"] /\ UNCHANGED ip
                      ELSE /\ runners' = runners \ {t} /\ Advance(t) /\ UNCHANGED multiRunner
              ELSE /\ UNCHANGED <<inactive, acts, multiRunner>>
                   /\ runners' = IF Mode2 THEN runners ELSE runners \ {t}
                   /\ Advance(t)
           /\ Label(t) /\ UNCHANGED <<scn, old, stk, wake, accBegun, accEnded, before, ranSeq, told, marks>>

Step(t) == ACas(t) \/ Fetch(t) \/ ELoad(t) \/ ECas(t) \/ MCas(t) \/ TLoad(t) \/ TCas(t) \/ Xchg(t) \/ DLoad(t) \/ Sleep(t)
AllDone == \A t \in Threads : pc[t] = "done"
Finished == AllDone /\ lastT' = 0 /\ lastPc' = "" /\ UNCHANGED View
Next == (\E t \in Threads : Step(t)) \/ Finished
Spec == Init /\ [][Next]_vars
FairSpec == Spec /\ \A t \in Threads : WF_vars(Step(t))

\* ---- properties
RanAtMostOnce == \A a, b \in 1..Len(ranSeq) : a # b => ranSeq[a][1] # ranSeq[b][1]
NothingLost == AllDone => RanSet = {i \in Items : i <= scn.items}
\* every inactive period is ended by exactly one enqueue() that returns true
ExactlyOneProducerToldInactive == ~Mode2 => told + acts + (IF inactive THEN 1 ELSE 0) = marks
NoLostWakeup == ~Mode2 => /\ wake => ~inactive
                          /\ \A t \in Threads : (pc[t] = "sleep" /\ ~wake) => inactive
ConsumerExclusive == Mode2 => (~multiRunner /\ Cardinality(runners) <= 1 /\ (inactive <=> runners = {}))
HasRev == \E t \in Threads : \E k \in 1..Len(Prog(t)) : Prog(t)[k][1] = "consume3"
Fifo == HasRev \/ \A k \in 1..Len(ranSeq) : \A j \in before[ranSeq[k][1]] : \E m \in 1..(k - 1) : ranSeq[m][1] = j
Terminates == <>AllDone
=============================================================================
