SPECIFICATION FairSpec
CONSTANTS Threads <- T  Items <- I  Scenarios <- Scn
PROPERTIES AcceptedRuns Terminates
CHECK_DEADLOCK TRUE
