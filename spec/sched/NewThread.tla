----------------------------- MODULE NewThread -----------------------------
(***************************************************************************)
(* Implementation-shaped specification of unifex::new_thread_context       *)
(* (include/unifex/new_thread_context.hpp).  State: activeThreadCount_     *)
(* (initialised to 1), threadToJoin_, mut_ (owner or 0) and the cv_ waiter *)
(* (only the destructor waits).  Every start() creates one thread; thread  *)
(* i runs item i and then retire_thread(): under mut_ it swaps itself into *)
(* threadToJoin_, decrements the count (notify_one when it was 1) and,     *)
(* outside the lock, joins the previously retired thread.  ~context():     *)
(* fetch_sub(1); lock; wait until the count is 0; join threadToJoin_.      *)
(* Steps = mutex acquisitions, cond_wait, thread creation and join.        *)
(* Programs: <<"start",i>> <<"stopitem",i>> <<"awaitacc",n>> <<"await",0>> *)
(* <<"destroy",0>>.  The thread of item i has the identity i.              *)
(***************************************************************************)
EXTENDS Naturals, Sequences, FiniteSets, TLC
CONSTANTS HThreads, Items, Scenarios
VARIABLES scn, pc, ip, tpc, prev,
          count, ttj, mtx, dwait, dsig,
          itemStop, accBegun, accEnded, created, joined, ranSeq, destroyed, bad
vars == <<scn, pc, ip, tpc, prev, count, ttj, mtx, dwait, dsig, itemStop, accBegun, accEnded, created, joined, ranSeq, destroyed, bad>>
Prog(t) == IF t <= Len(scn.prog) THEN scn.prog[t] ELSE <<>>
Op(t) == Prog(t)[ip[t]]
RanSet == {ranSeq[k][1] : k \in 1..Len(ranSeq)}
Init == /\ scn \in Scenarios
        /\ pc = [t \in HThreads |-> IF Len(Prog(t)) = 0 THEN "done" ELSE "op"] /\ ip = [t \in HThreads |-> 1]
        /\ tpc = [i \in Items |-> "none"] /\ prev = [i \in Items |-> 0]
        /\ count = 1 /\ ttj = 0 /\ mtx = 0 /\ dwait = FALSE /\ dsig = FALSE
        /\ itemStop = [i \in Items |-> FALSE] /\ accBegun = {} /\ accEnded = {} /\ created = {} /\ joined = {}
        /\ ranSeq = <<>> /\ destroyed = FALSE /\ bad = FALSE
Advance(t) == /\ ip' = [ip EXCEPT ![t] = ip[t] + 1]
              /\ pc' = [pc EXCEPT ![t] = IF ip[t] + 1 <= Len(Prog(t)) THEN "op" ELSE "done"]
UCtx == <<count, ttj, mtx, dwait, dsig>>
Fetch(t) ==
  /\ pc[t] = "op"
  /\ LET o == Op(t) IN
     CASE o[1] = "start" -> /\ accBegun' = accBegun \cup {o[2]} /\ pc' = [pc EXCEPT ![t] = "start"]
                            /\ UNCHANGED <<ip, itemStop, count>>
       [] o[1] = "stopitem" -> /\ itemStop' = [itemStop EXCEPT ![o[2]] = TRUE] /\ Advance(t) /\ UNCHANGED <<accBegun, count>>
       [] o[1] = "awaitacc" -> /\ Cardinality(accEnded) >= o[2] /\ Advance(t) /\ UNCHANGED <<accBegun, itemStop, count>>
       [] o[1] = "await" -> /\ Cardinality(RanSet) >= scn.items /\ Advance(t) /\ UNCHANGED <<accBegun, itemStop, count>>
       [] o[1] = "destroy" -> /\ count' = count - 1 /\ pc' = [pc EXCEPT ![t] = "d_lock"]      \* fetch_sub, then lock
                              /\ UNCHANGED <<ip, accBegun, itemStop>>
  /\ UNCHANGED <<scn, tpc, prev, ttj, mtx, dwait, dsig, accEnded, created, joined, ranSeq, destroyed, bad>>
\* start(): lock the operation's mutex; thread_ = std::thread(run); ++activeThreadCount_; unlock
Start(t) == /\ pc[t] = "start"
            /\ LET i == Op(t)[2] IN
               /\ tpc' = [tpc EXCEPT ![i] = "begin"] /\ created' = created \cup {i} /\ count' = count + 1
               /\ accEnded' = accEnded \cup {i}
            /\ Advance(t)
            /\ UNCHANGED <<scn, prev, ttj, mtx, dwait, dsig, itemStop, accBegun, joined, ranSeq, destroyed, bad>>
\* the new thread starts: run() blocks on the operation's mutex until start() has released it
Begin(i) == /\ tpc[i] = "begin" /\ tpc' = [tpc EXCEPT ![i] = "run"]
            /\ UNCHANGED <<scn, pc, ip, prev, itemStop, accBegun, accEnded, created, joined, ranSeq, destroyed, bad>> /\ UNCHANGED UCtx
\* run(): take thread_ under the operation's mutex, complete the receiver, go on to retire_thread()
Run(i) == /\ tpc[i] = "run"
          /\ ranSeq' = Append(ranSeq, <<i, IF itemStop[i] THEN 0 ELSE 1, i>>)
          /\ tpc' = [tpc EXCEPT ![i] = "retire"]
          /\ bad' = (bad \/ destroyed)
          /\ UNCHANGED <<scn, pc, ip, prev, itemStop, accBegun, accEnded, created, joined, destroyed>> /\ UNCHANGED UCtx
Retire(i) == /\ tpc[i] = "retire" /\ mtx = 0
             /\ prev' = [prev EXCEPT ![i] = ttj] /\ ttj' = i /\ count' = count - 1
             /\ dsig' = (dsig \/ (count = 1 /\ dwait))
             /\ tpc' = [tpc EXCEPT ![i] = IF ttj # 0 THEN "joinprev" ELSE "finished"]
             /\ bad' = (bad \/ destroyed)
             /\ UNCHANGED <<scn, pc, ip, mtx, dwait, itemStop, accBegun, accEnded, created, joined, ranSeq, destroyed>>
JoinPrev(i) == /\ tpc[i] = "joinprev" /\ tpc[prev[i]] = "finished"
               /\ joined' = joined \cup {prev[i]} /\ tpc' = [tpc EXCEPT ![i] = "finished"]
               /\ UNCHANGED <<scn, pc, ip, prev, itemStop, accBegun, accEnded, created, ranSeq, destroyed, bad>> /\ UNCHANGED UCtx
\* ~context(): lock; cv_.wait(lk, count == 0); if (threadToJoin_.joinable()) join  (the mutex stays held while joining)
\* (the last step releases the mutex and returns: the context is destroyed)
DBody(t) == IF count = 0
            THEN IF ttj # 0
                 THEN /\ mtx' = t /\ dwait' = FALSE /\ pc' = [pc EXCEPT ![t] = "d_join"] /\ UNCHANGED <<ip, destroyed>>
                 ELSE /\ mtx' = 0 /\ dwait' = FALSE /\ destroyed' = TRUE /\ Advance(t)
            ELSE /\ mtx' = 0 /\ dwait' = TRUE /\ pc' = [pc EXCEPT ![t] = "d_wait"] /\ UNCHANGED <<ip, destroyed>>
DLock(t) == /\ pc[t] = "d_lock" /\ mtx = 0 /\ DBody(t) /\ UNCHANGED dsig
            /\ UNCHANGED <<scn, tpc, prev, count, ttj, itemStop, accBegun, accEnded, created, joined, ranSeq, bad>>
DWake(t) == /\ pc[t] = "d_wait" /\ dsig /\ mtx = 0 /\ dsig' = FALSE /\ DBody(t)
            /\ UNCHANGED <<scn, tpc, prev, count, ttj, itemStop, accBegun, accEnded, created, joined, ranSeq, bad>>
DJoin(t) == /\ pc[t] = "d_join" /\ tpc[ttj] = "finished"
            /\ joined' = joined \cup {ttj} /\ mtx' = 0 /\ destroyed' = TRUE /\ Advance(t)
            /\ UNCHANGED <<scn, tpc, prev, count, ttj, dwait, dsig, itemStop, accBegun, accEnded, created, ranSeq, bad>>
HStep(t) == Fetch(t) \/ Start(t) \/ DLock(t) \/ DWake(t) \/ DJoin(t)
IStep(i) == Begin(i) \/ Run(i) \/ Retire(i) \/ JoinPrev(i)
AllDone == (\A t \in HThreads : pc[t] = "done") /\ (\A i \in Items : tpc[i] \in {"none", "finished"})
Finished == AllDone /\ UNCHANGED vars
Next == (\E t \in HThreads : HStep(t)) \/ (\E i \in Items : IStep(i)) \/ Finished
Spec == Init /\ [][Next]_vars
FairSpec == Spec /\ (\A t \in HThreads : WF_vars(HStep(t))) /\ (\A i \in Items : WF_vars(IStep(i)))
\* ---- properties
RanAtMostOnce == \A a, b \in 1..Len(ranSeq) : a # b => ranSeq[a][1] # ranSeq[b][1]
RunsOnOwnThread == \A k \in 1..Len(ranSeq) : ranSeq[k][3] = ranSeq[k][1] /\ ranSeq[k][1] \in created
DoneOnlyIfStopRequested == \A k \in 1..Len(ranSeq) : ranSeq[k][2] = 0 => itemStop[ranSeq[k][1]]
\* when the destructor returns every started item has run, every created thread has been joined, and no thread
\* touches the context afterwards
AllThreadsJoined == destroyed => (created = joined /\ accEnded \subseteq RanSet /\ \A i \in created : tpc[i] = "finished")
NoTouchAfterDestroy == ~bad
CountSane == count + (IF \E t \in HThreads : pc[t] \in {"d_lock", "d_wait", "d_join"} \/ destroyed THEN 1 ELSE 0)
               = 1 + Cardinality({i \in Items : tpc[i] \in {"begin", "run", "retire"}})
Terminates == <>AllDone
=============================================================================
