SPECIFICATION Spec
CONSTANTS Threads <- T  Items <- I  Scenarios <- Scn
INVARIANTS RanAtMostOnce NothingLost ExactlyOneProducerToldInactive NoLostWakeup ConsumerExclusive Fifo
VIEW View
ACTION_CONSTRAINT EdgeLog
CHECK_DEADLOCK TRUE
