---------------------------- MODULE Trampoline ----------------------------
(***************************************************************************)
(* Implementation-shaped specification of unifex::trampoline_scheduler     *)
(* (include/unifex/trampoline_scheduler.hpp, source/trampoline_scheduler   *)
(* .cpp) and, with maxd = 0, of unifex::inline_scheduler.  Sequential: one *)
(* thread; the state is the thread-local trampoline_state (current_,       *)
(* recursionDepth_, the LIFO list head_) plus the C++ call stack of        *)
(* execute() frames.                                                       *)
(*                                                                         *)
(* A scenario is a forest: roots are started one after the other from the  *)
(* top level; the completion of item i starts body[i][1], body[i][2], ...  *)
(* in order.  `stopped` = items whose stop token is already stopped.       *)
(*                                                                         *)
(* operation_base::start():                                                *)
(*   current_ == nullptr            : trampoline_state state; execute();   *)
(*                                    state.drain();                       *)
(*   recursionDepth_ < maxDepth     : ++recursionDepth_; execute();        *)
(*   else                           : push on head_ (deferred)             *)
(* drain(): while head_: pop; recursionDepth_ = 1; execute()               *)
(***************************************************************************)
EXTENDS Naturals, Sequences, FiniteSets, TLC
CONSTANTS Scenarios, MaxItems
Items == 1..MaxItems
VARIABLES scn,
          ti,          \* index of the next root to start from the top level
          cur,         \* trampoline_state::current_ # nullptr
          rdepth,      \* recursionDepth_
          deferred,    \* head_ list, head first
          frames,      \* call stack of execute() frames: <<item, index of next child to start>>
          draining,    \* the outermost start() is inside drain()
          started, ranSeq, badReturn
vars == <<scn, ti, cur, rdepth, deferred, frames, draining, started, ranSeq, badReturn>>
Body(i) == IF i <= Len(scn.body) THEN scn.body[i] ELSE <<>>
Inline == scn.maxd = 0
RanSet == {ranSeq[k][1] : k \in 1..Len(ranSeq)}
Ch(i) == IF \E k \in 1..Len(scn.stopped) : scn.stopped[k] = i THEN 0 ELSE 1

Init == /\ scn \in Scenarios /\ ti = 1 /\ cur = FALSE /\ rdepth = 0 /\ deferred = <<>> /\ frames = <<>>
        /\ draining = FALSE /\ started = {} /\ ranSeq = <<>> /\ badReturn = FALSE

\* execute() of item i at call depth Len(frames)+1
Exec(i) == /\ frames' = Append(frames, <<i, 1>>)
           /\ ranSeq' = Append(ranSeq, <<i, Ch(i), Len(frames) + 1>>)

\* top level: start the next root (no trampoline_state is installed between outermost starts)
StartRoot == /\ frames = <<>> /\ ~draining /\ ~cur /\ ti <= Len(scn.roots)
             /\ started' = started \cup {scn.roots[ti]}
             /\ cur' = ~Inline /\ rdepth' = 1
             /\ Exec(scn.roots[ti])
             /\ UNCHANGED <<scn, ti, deferred, draining, badReturn>>
\* the running completion starts its next child
StartChild == /\ frames # <<>>
              /\ LET n == Len(frames)
                     i == frames[n][1]
                     k == frames[n][2] IN
                 /\ k <= Len(Body(i))
                 /\ LET c == Body(i)[k]
                        fr == [frames EXCEPT ![n] = <<i, k + 1>>] IN
                    /\ started' = started \cup {c}
                    /\ IF Inline \/ rdepth < scn.maxd
                       THEN /\ rdepth' = rdepth + 1
                            /\ frames' = Append(fr, <<c, 1>>)
                            /\ ranSeq' = Append(ranSeq, <<c, Ch(c), n + 1>>)
                            /\ UNCHANGED deferred
                       ELSE /\ deferred' = <<c>> \o deferred           \* exceeded the recursion limit: defer
                            /\ frames' = fr
                            /\ UNCHANGED <<rdepth, ranSeq>>
              /\ UNCHANGED <<scn, ti, cur, draining, badReturn>>
\* the running completion has started all its children: execute() returns
Return == /\ frames # <<>>
          /\ LET n == Len(frames) IN frames[n][2] > Len(Body(frames[n][1]))
          /\ frames' = SubSeq(frames, 1, Len(frames) - 1)
          /\ draining' = IF Len(frames) = 1 /\ ~Inline THEN TRUE ELSE draining     \* outermost: state.drain()
          /\ IF Len(frames) = 1 /\ Inline THEN ti' = ti + 1 ELSE ti' = ti
          /\ badReturn' = (badReturn \/ (Len(frames) = 1 /\ Inline /\ ~(started \subseteq RanSet)))
          /\ UNCHANGED <<scn, cur, rdepth, deferred, started, ranSeq>>
\* drain(): pop the most recently deferred operation and execute it at depth 1
DrainOne == /\ draining /\ frames = <<>> /\ deferred # <<>>
            /\ deferred' = Tail(deferred) /\ rdepth' = 1
            /\ Exec(Head(deferred))
            /\ UNCHANGED <<scn, ti, cur, draining, started, badReturn>>
\* drain() finished: ~trampoline_state, the outermost start() returns
OuterReturn == /\ draining /\ frames = <<>> /\ deferred = <<>>
               /\ draining' = FALSE /\ cur' = FALSE /\ ti' = ti + 1
               /\ badReturn' = (badReturn \/ ~(started \subseteq RanSet))
               /\ UNCHANGED <<scn, rdepth, deferred, frames, started, ranSeq>>
Finished == frames = <<>> /\ ~draining /\ ti > Len(scn.roots)
Done == Finished /\ UNCHANGED vars
Next == StartRoot \/ StartChild \/ Return \/ DrainOne \/ OuterReturn \/ Done
Spec == Init /\ [][Next]_vars
FairSpec == Spec /\ WF_vars(StartRoot \/ StartChild \/ Return \/ DrainOne \/ OuterReturn)

\* ---- properties
DepthBounded == Inline \/ (Len(frames) <= scn.maxd /\ \A k \in 1..Len(ranSeq) : ranSeq[k][3] <= scn.maxd)
DeferredDrainedBeforeOuterReturn == ~badReturn /\ (~cur /\ ~Inline => deferred = <<>>)
RanAtMostOnce == \A a, b \in 1..Len(ranSeq) : a # b => ranSeq[a][1] # ranSeq[b][1]
RanOnlyStarted == RanSet \subseteq started
AllRanAtEnd == Finished => (started \subseteq RanSet /\ \A i \in 1..scn.items : i \in RanSet)
Terminates == <>Finished
=============================================================================
