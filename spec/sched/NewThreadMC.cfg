SPECIFICATION LSpec
CONSTANTS HThreads <- T  Items <- I  Scenarios <- Scn
INVARIANTS RanAtMostOnce RunsOnOwnThread DoneOnlyIfStopRequested AllThreadsJoined NoTouchAfterDestroy CountSane
VIEW LView
CHECK_DEADLOCK TRUE
