SPECIFICATION FairSpec
CONSTANTS HThreads <- T  Items <- I  Scenarios <- Scn
INVARIANTS RanAtMostOnce RunsOnOwnThread DoneOnlyIfStopRequested AllThreadsJoined NoTouchAfterDestroy CountSane
PROPERTY Terminates
CHECK_DEADLOCK TRUE
