SPECIFICATION LSpec
CONSTANTS HThreads <- T  Items <- I  Scenarios <- Scn  MaxWorkers = 2
INVARIANTS RanAtMostOnce RanOnlyIfStarted RunsOnWorker DoneOnlyIfStopRequested NoItemLost AllThreadsJoined ExitedQueueEmptyOrLate MutexSane
VIEW LView
CHECK_DEADLOCK TRUE
