// Engine algrace: the fan-out algorithms (when_all, when_all_range, stop_when, when_any) with their children
// completed from different controlled threads while another thread requests stop on the receiver's token.
// Every interleaving at schedule-point granularity (algrace.* sites in the three headers, stop.* sites in
// inplace_stop_source, spin_wait) is explored by bounded-preemption DFS / seeded random schedules; the event log
// of each execution is validated by TLC against AlgMon, the operation state is destroyed by the receiver
// inside its completion signal, and the build runs under ASan/UBSan.
#include "../alg/alg_rt.hpp"

#include <nlohmann/json.hpp>

#include <fstream>

using namespace alg;
using json = nlohmann::json;

struct Scenario {
  int id; std::string shape; int nleaves; std::vector<std::string> ch; std::vector<int> onStopDone; bool stopper; bool stopFirst;
};

template <class S> struct RaceOp final : OpHandle {
  using Op = decltype(unifex::connect(std::declval<S>(), Recv{nullptr}));
  Op op;
  RaceOp(S&& s, World& w) : op(unifex::connect(std::move(s), Recv{&w})) {}
  void start() noexcept override { unifex::start(op); }
};
template <class S> static OpHandle* mk(S s, World& w) { return new RaceOp<S>(std::move(s), w); }

static OpHandle* make(const std::string& shape, World& w) {
  if (shape == "when_all2") return mk(unifex::when_all(Leaf{&w, 1}, Leaf{&w, 2}), w);
  if (shape == "when_all3") return mk(unifex::when_all(Leaf{&w, 1}, Leaf{&w, 2}, Leaf{&w, 3}), w);
  if (shape == "war2") return mk(unifex::when_all_range(std::vector<Leaf>{Leaf{&w, 1}, Leaf{&w, 2}}), w);
  if (shape == "war3") return mk(unifex::when_all_range(std::vector<Leaf>{Leaf{&w, 1}, Leaf{&w, 2}, Leaf{&w, 3}}), w);
  if (shape == "stop_when") return mk(unifex::stop_when(Leaf{&w, 1}, LeafV{&w, 2}), w);
  if (shape == "when_any2") return mk(unifex::when_any(Leaf{&w, 1}, Leaf{&w, 2}), w);
  if (shape == "nested") return mk(unifex::when_all(unifex::stop_when(Leaf{&w, 1}, LeafV{&w, 2}), Leaf{&w, 3}), w);
  return nullptr;
}

int main(int argc, char** argv) {
  vrt::Args a(argc, argv);
  vrt::install_handlers();
  std::vector<Scenario> scns;
  { std::ifstream f(a.str("scenarios")); json j; f >> j;
    for (auto& s : j) { Scenario sc; sc.id = s["id"]; sc.shape = s["shape"]; sc.nleaves = s["nleaves"];
      for (auto& c : s["ch"]) sc.ch.push_back(c.get<std::string>());
      for (auto& c : s["onStopDone"]) sc.onStopDone.push_back(c.get<int>());
      sc.stopper = s["stopper"]; sc.stopFirst = s.value("stopFirst", false); scns.push_back(sc); } }
  if (a.has("log")) vrt::log_open(a.str("log").c_str());
  std::string mode = a.str("mode", "dfs");
  long from = a.num("from", 0), to = a.num("to", 1L << 40), cap = a.num("cap", 500); int bound = (int)a.num("bound", 2);
  unsigned seed = (unsigned)a.num("seed", 1);
  long execs = 0, steps = 0, lost = 0, multi = 0;
  std::set<std::string> distinct;
  json firstBad = nullptr;

  auto runOne = [&](const Scenario& sc, long x, long k, const std::function<vrt::RunResult(vrt::Ctl&)>& drive) {
    vrt::ev("{\"e\":\"Reset\",\"x\":%ld,\"k\":%ld,\"shape\":%d}", x, k, sc.id);
    std::fprintf(stderr, "@@X %ld\n", x);
    Track::reset();
    size_t live = 0, nbad = 0, rootN = 0;
    vrt::RunResult rr;
    {
      World w; g_w = &w;
      for (int l = 1; l <= sc.nleaves; ++l) { LeafCtl c; c.id = l; c.inl = false; c.ch = 'v'; c.onStopDone = sc.onStopDone[l - 1] != 0; w.leaf[l] = c; }
      OpHandle* op = nullptr;
      vrt::ev("{\"e\":\"Connect\"}");
      op = make(sc.shape, w);
      w.destroyOp = [&op] { OpHandle* p = op; op = nullptr; vrt::ev("{\"e\":\"OpDestroy\"}"); delete p; };
      {
        vrt::Ctl c; c.accept = {"algrace.", "stop.", "spin_wait"};
        // thread 1 starts the operation and then completes leaf 1; thread i completes leaf i; the last thread stops
        for (int l = 1; l <= sc.nleaves; ++l) {
          c.spawn(l, [&, l] {
            if (l == 1) {
              UNIFEX_VERIF_YIELD("algrace.h.op");
              vrt::ev("{\"e\":\"StartBegin\"}"); w.inStart = true; w.curk = 'S'; if (op) op->start(); w.inStart = false; vrt::ev("{\"e\":\"StartEnd\"}");
            }
            // wait until our leaf has been started (or the whole thing is over)
            while (!w.leaf[l].started && !w.leaf[l].completed && w.root.empty()) ::unifex_verif::call_hook("algrace.h.wait", 1);
            UNIFEX_VERIF_YIELD("algrace.h.op");
            if (w.leaf[l].complete) { auto f = w.leaf[l].complete; w.curk = 'L'; w.curn = l; f(sc.ch[l - 1][0]); }
          });
        }
        if (sc.stopper) c.spawn(sc.nleaves + 1, [&] { UNIFEX_VERIF_YIELD("algrace.h.op"); vrt::ev("{\"e\":\"ExtStop\"}"); w.curk = 'X'; w.src.request_stop(); });
        c.start_all();
        rr = drive(c);
        if (rr.deadlock) {
          std::string s = vrt::sched_json(rr);
          vrt::ev("{\"e\":\"Deadlock\",\"sched\":%s}", s.c_str());
          vrt::log_flush();
          std::fprintf(stderr, "deadlock in scenario %d schedule %s\n", sc.id, s.c_str());
          _exit(75);
        }
        c.join();
      }
      // drain whatever is still outstanding (a leaf that ignored stop and was never completed cannot exist here,
      // but a leaf whose completer found it not yet completable can)
      for (int round = 0; round < 8; ++round) { bool any = false; for (auto& [id, cc] : w.leaf) if (cc.complete) { any = true; auto f = cc.complete; f('d'); } if (!any) break; }
      int pending = 0; for (auto& [id, cc] : w.leaf) if (cc.started && !cc.completed) ++pending;
      vrt::ev("{\"e\":\"Quiescent\",\"pending\":%d,\"asr\":0}", pending);
      if (op) { auto d = std::move(w.destroyOp); w.destroyOp = nullptr; if (d) d(); }
      rootN = w.root.size();
      g_w = nullptr;
    }
    live = Track::live.size(); nbad = Track::bad.size();
    vrt::ev("{\"e\":\"End\",\"live\":%zu,\"bad\":%zu,\"rootCompletions\":%zu}", live, nbad, rootN);
    if (rootN == 0) ++lost;
    if (rootN > 1) ++multi;
    if ((rootN != 1 || live || nbad) && firstBad.is_null())
      firstBad = {{"x", x}, {"k", k}, {"scenario", sc.id}, {"rootCompletions", rootN}, {"live", live}, {"bad", nbad}, {"sched", vrt::sched_json(rr)}};
    ++execs; steps += (long)rr.steps.size();
    distinct.insert(std::to_string(sc.id) + vrt::sched_json(rr));
  };

  for (long x = from; x < to && x < (long)scns.size(); ++x) {
    const Scenario& sc = scns[x];
    if (mode == "dfs") {
      vrt::Dfs d; d.bound = bound; long k = 0;
      do { runOne(sc, x, k, [&](vrt::Ctl& c) { return vrt::run_dfs(c, d); }); ++k; } while (d.advance() && k < cap);
    } else {
      std::mt19937 rng(seed * 7919u + (unsigned)x);
      for (long k = 0; k < cap; ++k) runOne(sc, x, k, [&](vrt::Ctl& c) { return vrt::run_random(c, rng, 35); });
    }
  }
  vrt::log_close();
  json s = {{"mode", mode}, {"execs", execs}, {"steps", steps}, {"lost", lost}, {"multi", multi}, {"distinct_schedules", (long)distinct.size()}, {"first_bad", firstBad}};
  std::printf("%s\n", s.dump().c_str());
  return 0;
}
