"""Engine `algrace` (C01, also C02/C04): races inside the fan-out algorithms.

 1. TLC: spec/algebra/FanOutRace.tla - the completer election of when_all/when_all_range (refCount_, doneOrError_) and
    stop_when (activeOpCount_) against the cancel callback registered on the receiver's stop token, at atomic-step
    granularity (invariants ExactlyOneDeliverer, NoLostCompletion, NoTouchAfterCompletion, ...), plus the spec-level
    mutation BailOut=FALSE which must violate them (non-vacuity).
 2. real code: children completed from different controlled threads, an external stop request on a further thread;
    bounded-preemption DFS and seeded random schedules over the algrace.* / stop.* schedule points, operation destroyed
    by the receiver inside its completion, ASan/UBSan.
 3. every recorded execution validated by TLC against the monitor AlgMon (rule set of the property)."""
import itertools, json, os, sys, time

sys.path.insert(0, os.path.join(os.path.dirname(__file__), "..", "..", "tools"))
import vlib

HERE = os.path.dirname(os.path.abspath(__file__))


def scenarios(tier, rng):
    out = []
    shapes = [("when_all2", 2), ("war2", 2), ("stop_when", 2), ("when_any2", 2), ("when_all3", 3), ("nested", 3), ("war3", 3)]
    for shape, n in shapes:
        chans = list(itertools.product("ved", repeat=n))
        ons = list(itertools.product([0, 1], repeat=n))
        combos = [(c, o, st) for c in chans for o in ons for st in (True, False)]
        # without a stopper and with all children completing with value there is no election to race
        combos = [x for x in combos if x[2] or any(ch != "v" for ch in x[0]) or shape in ("stop_when", "when_any2", "nested")]
        rng.shuffle(combos)
        if tier == "quick":
            take = 10 if n == 2 else 5
        else:
            take = 60 if n == 2 else 40
        # always keep the plain "all value + stopper" and "first fails" cases
        base = [x for x in combos if x[2] and x[1] == tuple([0] * n)][:2]
        for c, o, st in (base + combos)[:take]:
            out.append(dict(shape=shape, nleaves=n, ch=list(c), onStopDone=list(o), stopper=st))
    for i, s in enumerate(out):
        s["id"] = i + 1
    return out


def run(ctx):
    rep = ctx.rep
    prop = ctx.prop
    rep.assume("SC interleavings at schedule-point granularity; <=3 child completer threads + 1 stopper; leaves complete from foreign threads "
               "or with done from inside their stop callback")
    # ---- 1. TLC
    cfgs = ["FanOutRace_wa2", "FanOutRace_wa2r", "FanOutRace_sw", "FanOutRace_swr"] + ([] if ctx.quick else ["FanOutRace_wa3r"])
    for c in cfgs:
        vlib.model_check(ctx, "algebra", "FanOutRace", cfg=c + ".cfg", timeout=900)
    for c in ("FanOutRace_mut_sw", "FanOutRace_mut_wa"):
        r = vlib.model_check(ctx, "algebra", "FanOutRace", cfg=c + ".cfg", must_hold=False, timeout=900)
        if r["kind"] != "invariant":
            raise vlib.Broken("the spec-level mutation %s (cancel callback without the bail-out test) is expected to violate the invariants; TLC says %s" % (c, r["kind"]))
        rep.note("%s: mutation violates %s as expected (invariants are not vacuous)" % (c, r["violated"]))
    rep.exhaustive = False
    # ---- 2. real code
    scns = scenarios(ctx.tier, ctx.rng)
    sp = os.path.join(ctx.work, "race_scenarios.json")
    json.dump(scns, open(sp, "w"))
    exe = vlib.build(ctx, "algrace_driver", [os.path.join(HERE, "driver.cpp")], lib=["inplace_stop_token.cpp", "async_stack.cpp", "exception.cpp"],
                     incs=[os.path.join(vlib.VERIF, "engines", "alg")], opt="-O0", recover=True)
    monprop = {"C01": "C01", "C02": "C02", "C04": "C04"}.get(prop, "C01")
    runs = [("dfs", ["--mode", "dfs", "--scenarios", sp, "--bound", 2 if ctx.quick else 3, "--cap", 120 if ctx.quick else 1500]),
            ("random", ["--mode", "random", "--scenarios", sp, "--seed", ctx.seed, "--cap", 40 if ctx.quick else 400])]
    for mode, args in runs:
        if len(rep.violations) >= 3:
            break
        lp = os.path.join(ctx.work, "race_%s.ndjson" % mode)
        t0 = time.time()
        sums, deaths = vlib.run_batches(ctx, exe, args, len(scns), lp, timeout=2400, recover=True, max_deaths=20)
        execs = sum(s["execs"] for s in sums)
        rep.evaluations += execs
        for s in sums:
            if s.get("first_bad"):
                rep.note("%s: driver bookkeeping: %s" % (mode, json.dumps(s["first_bad"])))
        tainted = set()
        for d in deaths:
            x = d["x"]
            sc = scns[x] if x < len(scns) else None
            tainted.add(x)
            rec = dict(engine="algrace", mode=mode, event=d["event"], scenario=sc, asan=d.get("asan"), frame=d.get("frame"), where=d.get("where"),
                       what="%s in %s scenario %s: %s %s" % (d["event"], mode, json.dumps(sc), d.get("asan", ""), d.get("frame", "")), detail=d.get("stderr_tail"))
            if prop in ("C01", "C02") or d["event"] in ("Deadlock", "Hang"):
                rep.violation(rec)      # a second completion destroys/uses the operation twice; a deadlock is a lost completion
            else:
                rep.oos.append(dict(event=d["event"], frame=d.get("frame"), scenario=sc))
        n, rejected = vlib.validate_batched(ctx, "algebra", "AlgMon", lp, env={"PROP": monprop}, skip_x=tainted)
        rep.note("%s: %d executions, %d validated against AlgMon[%s], %.0fs" % (mode, execs, n, monprop, time.time() - t0))
        for ex in vlib.split_executions(lp):
            rep.distinct.add(hash("".join(ex[1][1:])))
        for rj in rejected:
            x = rj["x"]
            sc = scns[x] if x is not None and x < len(scns) else None
            nxt = rj["events"][rj["prefix"]] if rj.get("prefix") is not None and rj["prefix"] < len(rj["events"]) else None
            rep.violation(dict(engine="algrace", mode=mode, event="MonitorReject", monitor="AlgMon", rules=monprop, scenario=sc, rejected_event=nxt,
                               what="AlgMon[%s] rejects an execution of %s at event %s (%s)" % (monprop, json.dumps(sc), rj.get("prefix"), json.dumps(nxt)),
                               events=rj["events"][:200]))
        if mode == "dfs":
            ex = vlib.split_executions(lp)
            if ex:
                rep.sample(dict(kind="recorded-trace", scenario=scns[ex[len(ex) // 3][0]] if ex[len(ex) // 3][0] is not None else None,
                                events=[json.loads(l) for l in ex[len(ex) // 3][1][:40]]))
    rep.rule("one evaluation = one schedule (DFS with preemption bound / seeded random) of a fan-out scenario on the real code; "
             "distinct_nontrivial = distinct recorded event sequences")
