// C09 driver: spawn_future / spawn_detached on the real library with controlled threads.
//   thread A completes the spawned operation (controllable leaf sender: value / error / done),
//   thread B owns the future (await | drop | connect+destroy-unstarted | move-assign then await),
//   thread C requests stop on the awaiting receiver's stop source.
// Observations: tagged counting allocator (Alloc/Free), tracked result values (Val), recording receiver,
// leaf-side stop visibility, scope join; ASan watches every touch after delete.
// modes: guided (TLC behaviours of spec/future/SpawnFuture), dfs (bounded preemption), random (seeded).
#include "vrt.hpp"

#include <unifex/inline_scheduler.hpp>
#include <unifex/just.hpp>
#include <unifex/inplace_stop_token.hpp>
#include <unifex/manual_lifetime.hpp>
#include <unifex/spawn_detached.hpp>
#include <unifex/spawn_future.hpp>
#include <unifex/v1/async_scope.hpp>
#include <unifex/v2/async_scope.hpp>

#include <nlohmann/json.hpp>

#include <pthread.h>
#include <sys/wait.h>

#include <fstream>
#include <optional>
#include <set>

using namespace unifex;
using json = nlohmann::json;

static const char* CHN[] = {"value", "error", "done", "none"};
static int chIdx(const std::string& s) { return s == "value" ? 0 : s == "error" ? 1 : s == "done" ? 2 : 3; }
// every event carries the same fields (TLC-friendly): e, f, ch, v, t, r
#define EV(name, f, ch, v, r) \
  vrt::ev("{\"e\":\"%s\",\"f\":%d,\"ch\":\"%s\",\"v\":%d,\"t\":%d,\"r\":%d}", name, (int)(f), CHN[ch], (int)(v), vrt::self_id(), (int)(r))


// ------------------------------------------------------------------ memory events without dying
// ASan runs in recover mode (-fsanitize-recover=address, halt_on_error=0): a report becomes a MemEvent line in the log
// (kind + module offsets of the faulting stack, symbolised later by the engine) and the execution carries on, so one
// known defect does not cost a process restart per schedule.  std::terminate() in a controlled thread likewise becomes
// a MemEvent: the thread is parked for good and everything it owned is leaked.
#ifdef VRT_ASAN
extern "C" void __asan_set_error_report_callback(void (*)(const char*));
#endif
static bool g_inChild = false;
static bool g_terminated = false;
static long g_memEvents = 0;
static void onAsanReport(const char* txt) noexcept {
  ++g_memEvents;
  std::string t(txt ? txt : ""), kind = "unknown", acc;
  size_t p = t.find("AddressSanitizer: ");
  if (p != std::string::npos) { size_t q = t.find_first_of(" \n", p + 18); kind = t.substr(p + 18, q - (p + 18)); }
  if (t.find("WRITE of size") != std::string::npos) acc = "WRITE"; else if (t.find("READ of size") != std::string::npos) acc = "READ";
  std::string pcs; int n = 0;
  size_t pos = t.find("    #0 ");
  while (pos != std::string::npos && n < 12) {
    size_t eol = t.find('\n', pos); if (eol == std::string::npos) eol = t.size();
    std::string line = t.substr(pos, eol - pos);
    if (line.find("    #") != 0) break;
    size_t a = line.rfind("+0x"), b = line.rfind(')');
    if (a != std::string::npos && b != std::string::npos && b > a) { if (n) pcs += ","; pcs += "\"" + line.substr(a + 1, b - a - 1) + "\""; ++n; }
    pos = eol + 1;
    if (pos >= t.size() || t.compare(pos, 5, "    #") != 0) break;
  }
  vrt::ev("{\"e\":\"MemEvent\",\"f\":0,\"ch\":\"none\",\"v\":0,\"t\":%d,\"r\":0,\"kind\":\"%s\",\"access\":\"%s\",\"pcs\":[%s]}",
          vrt::self_id(), kind.c_str(), acc.c_str(), pcs.c_str());
}
// enumeration state of the running execution, written to the state file only when the process is about to die
static std::string g_statePath, g_stateJson;
static void persistState() noexcept {
  if (g_statePath.empty() || g_stateJson.empty()) return;
  FILE* f = std::fopen(g_statePath.c_str(), "w");
  if (f) { std::fwrite(g_stateJson.data(), 1, g_stateJson.size(), f); std::fclose(f); }
}
static void onDeath() noexcept { vrt::log_flush(); persistState(); }
static void onFatalSignal(int sig) {
  if (vrt::g_log.f) { std::fprintf(vrt::g_log.f, "{\"e\":\"Crash\",\"sig\":%d}\n", sig); std::fflush(vrt::g_log.f); }
  persistState();
  _exit(sig == SIGABRT ? 73 : 74);
}
static void onTerminate() {
  if (g_inChild || !vrt::tl_self || !vrt::g_ctl) { persistState(); vrt::die("Terminate", 73); }
  g_terminated = true; ++g_memEvents;
  vrt::ev("{\"e\":\"MemEvent\",\"f\":0,\"ch\":\"none\",\"v\":0,\"t\":%d,\"r\":0,\"kind\":\"terminate\",\"access\":\"\",\"pcs\":[]}", vrt::self_id());
  vrt::Thr* p = vrt::tl_self;
  p->site = "finished"; p->st.store(2, std::memory_order_release); vrt::tl_self = nullptr;
  sem_post(&vrt::g_ctl->back);
  for (;;) pause();
}

// ------------------------------------------------------------------ tracked values
struct Track {
  std::set<const void*> live;
  long bad = 0, ctors = 0;
};
static Track* g_track = nullptr;
struct Val {
  int* p;
  explicit Val(int v) : p(new int(v)) { reg(); }
  Val(const Val& o) : p(o.p ? new int(*o.p) : nullptr) { chk(o); reg(); }
  Val(Val&& o) noexcept : p(o.p) { chk(o); o.p = nullptr; reg(); }
  Val& operator=(Val&& o) noexcept { chk(o); delete p; p = o.p; o.p = nullptr; return *this; }
  ~Val() {
    if (g_track) { if (!g_track->live.erase(this)) ++g_track->bad; }
    delete p;
  }
  int get() const { return p ? *p : -1; }
private:
  void reg() { if (g_track) { ++g_track->ctors; if (!g_track->live.insert(this).second) ++g_track->bad; } }
  static void chk(const Val& o) { if (g_track && !g_track->live.count(&o)) ++g_track->bad; }
};
struct TaggedErr { int v; };
struct Fault {};

// ------------------------------------------------------------------ world
struct LeafOpBase { virtual void fire(int ch, int v) noexcept = 0; virtual ~LeafOpBase() = default; };
struct LeafCtl {
  int f = 0, mode = 0 /*0 thread,1 inline-cancel,2 sync*/, ch = 0, v = 0;
  bool started = false, claimed = false, throwOnConnect = false;
  LeafOpBase* op = nullptr;
};
struct World {
  LeafCtl leaf[3];
  inplace_stop_source rcv[3];
  bool futDone[3] = {};
  bool failAlloc = false;
  std::map<void*, int> blk; int nblk = 0;
  Track track;
  int blkId(void* p, bool create) {
    auto it = blk.find(p);
    if (it != blk.end() && !create) return it->second;
    if (!create) return 0;
    return blk[p] = ++nblk;
  }
};

template <class T>
struct TagAlloc {
  using value_type = T;
  World* w; int tag;
  TagAlloc(World* w, int tag) noexcept : w(w), tag(tag) {}
  template <class U> TagAlloc(const TagAlloc<U>& o) noexcept : w(o.w), tag(o.tag) {}
  T* allocate(std::size_t n) {
    if (w->failAlloc) { w->failAlloc = false; throw std::bad_alloc(); }
    void* p = ::operator new(n * sizeof(T));
    EV("Alloc", 0, 3, tag, w->blkId(p, true));
    return static_cast<T*>(p);
  }
  void deallocate(T* p, std::size_t) noexcept {
    EV("Free", 0, 3, tag, w->blkId(p, false));
    ::operator delete(p);
  }
  template <class U> friend bool operator==(const TagAlloc& a, const TagAlloc<U>& b) noexcept { return a.tag == b.tag; }
  template <class U> friend bool operator!=(const TagAlloc& a, const TagAlloc<U>& b) noexcept { return a.tag != b.tag; }
};

// ------------------------------------------------------------------ controllable leaf sender
template <bool HasVal, class R>
struct LeafOp final : LeafOpBase {
  struct Cb { LeafOp* op; void operator()() noexcept { op->on_stop(); } };
  using token_t = stop_token_type_t<R>;
  using cb_t = typename token_t::template callback_type<Cb>;
  R r; LeafCtl* c;
  manual_lifetime<cb_t> cb; bool cbLive = false, constructing = false, pendingStop = false;
  volatile unsigned canary = 0xA11CEu;
  LeafOp(R&& r, LeafCtl* c) : r(std::move(r)), c(c) { EV("OpCreated", c->f, 3, 0, 0); }
  LeafOp(LeafOp&&) = delete;
  // the destructor of the spawned operation's state: a schedule point in the middle of it, after which it still uses
  // its own members (a free of the enclosing block that overtakes the destruction is a touch of freed memory), and an
  // OpDestroyed event when it is through (the monitor: Free(block) only after OpDestroyed of the operation inside it)
  ~LeafOp() {
    if (cbLive) cb.destruct();
    UNIFEX_VERIF_YIELD("future.h_opdtor");
    LeafCtl* cc = c;
    canary = 0xDEADu;
    EV("OpDestroyed", cc->f, 3, 0, 0);
  }
  void start() noexcept {
    c->started = true; c->op = this;
    EV("OpStart", c->f, 3, 0, 0);
    constructing = true;
    cb.construct(get_stop_token(r), Cb{this}); cbLive = true;
    constructing = false;
    if (pendingStop && !c->claimed) { c->claimed = true; fire(2, 0); return; }
    if (c->mode == 2 && !c->claimed) { c->claimed = true; fire(c->ch, c->v); }
  }
  void on_stop() noexcept {
    EV("OpStopSeen", c->f, 3, 0, 0);
    if (c->mode == 1 && !c->claimed) {
      if (constructing) { pendingStop = true; return; }
      c->claimed = true; fire(2, 0);
    }
  }
  void fire(int ch, int v) noexcept override {
    int f = c->f;                       // *this is destroyed inside the set_* call below
    c->op = nullptr;
    EV("OpCompleteBegin", f, ch, v, get_stop_token(r).stop_requested() ? 1 : 0);
    if (cbLive) { cbLive = false; cb.destruct(); }
    if (ch == 0) { if constexpr (HasVal) unifex::set_value(std::move(r), Val(v)); else unifex::set_value(std::move(r)); }
    else if (ch == 1) unifex::set_error(std::move(r), std::make_exception_ptr(TaggedErr{v}));
    else unifex::set_done(std::move(r));
    EV("OpCompleteEnd", f, ch, v, 0);
  }
};
template <bool HasVal>
struct Leaf {
  template <template <class...> class V, template <class...> class T>
  using value_types = std::conditional_t<HasVal, V<T<Val>>, V<T<>>>;
  template <template <class...> class V> using error_types = V<std::exception_ptr>;
  static constexpr bool sends_done = true;
  LeafCtl* c;
  template <class R>
  LeafOp<HasVal, remove_cvref_t<R>> connect(R&& r) && {
    if (c->throwOnConnect) throw Fault{};
    return LeafOp<HasVal, remove_cvref_t<R>>{(R&&)r, c};
  }
};

// ------------------------------------------------------------------ receivers
static int g_futRes = 3;
struct Rec {
  World* w; int f;
  void set_value(Val&& v) && noexcept { World* ww = w; int ff = f; int x = v.get(); { Val sink(std::move(v)); } EV("FutComplete", ff, 0, x, 0); g_futRes = 0; ww->futDone[ff] = true; }
  void set_error(std::exception_ptr e) && noexcept {
    World* ww = w; int ff = f; int x = -1;
    try { std::rethrow_exception(e); } catch (TaggedErr& t) { x = t.v; } catch (...) { x = -2; }
    EV("FutComplete", ff, 1, x, 0); g_futRes = 1; ww->futDone[ff] = true;
  }
  void set_done() && noexcept { World* ww = w; int ff = f; EV("FutComplete", ff, 2, 0, 0); g_futRes = 2; ww->futDone[ff] = true; }
  friend inplace_stop_token tag_invoke(tag_t<get_stop_token>, const Rec& r) noexcept { return r.w->rcv[r.f].get_token(); }
  friend inline_scheduler tag_invoke(tag_t<get_scheduler>, const Rec&) noexcept { return {}; }
};
struct JoinRec {
  bool* done;
  void set_value() && noexcept { *done = true; }
  void set_error(std::exception_ptr) && noexcept { *done = true; }
  void set_done() && noexcept { *done = true; }
  friend inline_scheduler tag_invoke(tag_t<get_scheduler>, const JoinRec&) noexcept { return {}; }
};

// ------------------------------------------------------------------ scope adapters
struct SV2 {
  v2::async_scope s;
  using scope_t = v2::async_scope;
  scope_t& scope() { return s; }
  auto join() { return s.join(); }
};
// a scope whose nest() returns the sender itself: the spawned operation state then directly contains the leaf operation
// (destroyed by destruct_op()), and the future's operation has no nest receiver around it
struct IdScope {
  template <class S>
  remove_cvref_t<S> nest(S&& snd) noexcept(std::is_nothrow_constructible_v<remove_cvref_t<S>, S>) { return (S&&)snd; }
};
struct SId {
  IdScope s;
  using scope_t = IdScope;
  scope_t& scope() { return s; }
  auto join() { return unifex::just(); }
};
struct SV1 {
  v1::async_scope s;
  using scope_t = v1::async_scope;
  scope_t& scope() { return s; }
  auto join() { return s.complete(); }
};
// a scope type that forwards to a v2 scope, optionally throwing from the n-th nest() or closing the
// underlying scope right after the n-th nest() (scope closed between the two nests of spawn_future)
struct FaultScope {
  v2::async_scope s;
  int calls = 0, throwAt = 0, closeAfter = 0;
  bool joinDone = false;
  using join_op_t = connect_result_t<decltype(std::declval<v2::async_scope&>().join()), JoinRec>;
  join_op_t* jop = nullptr;
  void close() { jop = new join_op_t(unifex::connect(s.join(), JoinRec{&joinDone})); unifex::start(*jop); }
  ~FaultScope() { delete jop; }
  template <class S>
  auto nest(S&& snd) {
    ++calls;
    if (calls == throwAt) throw Fault{};
    auto r = s.nest((S&&)snd);
    if (calls == closeAfter) close();
    return r;
  }
};
struct SFault {
  FaultScope s;
  using scope_t = FaultScope;
  scope_t& scope() { return s; }
  auto join() { return s.s.join(); }
};

// ------------------------------------------------------------------ scenarios
struct Scn {
  int id = 0; std::string kind = "future", scope = "v2", b = "await", leaf = "thread", spawn = "ok";
  int ch = 0; bool stop = false; bool enumerate = true; int capx = 1;
};
static Scn parseScn(const json& j) {
  Scn s; s.id = j["id"].get<int>();
  s.kind = j.value("kind", "future"); s.scope = j.value("scope", "v2"); s.b = j.value("b", "await");
  s.leaf = j.value("leaf", "thread"); s.spawn = j.value("spawn", "ok"); s.ch = chIdx(j.value("ch", "value"));
  s.stop = j.value("stop", false); s.enumerate = j.value("enum", true); s.capx = j.value("capx", 1);
  return s;
}

using Drive = std::function<vrt::RunResult(vrt::Ctl&)>;
struct Outcome { vrt::RunResult rr; int futRes = 3; };

static void checkDeadlock(const Scn& sc, const vrt::RunResult& rr) {
  if (!rr.deadlock || g_terminated) return;
  std::string s = vrt::sched_json(rr);
  vrt::ev("{\"e\":\"Deadlock\",\"f\":0,\"ch\":\"none\",\"v\":0,\"t\":0,\"r\":0,\"sched\":%s}", s.c_str());
  vrt::log_flush();
  std::fprintf(stderr, "deadlock in scenario %d schedule %s\n", sc.id, s.c_str());
  persistState();
  _exit(75);
}

template <class SA>
static void runFuture(const Scn& sc, const Drive& drive, Outcome& out) {
  using scope_t = typename SA::scope_t;
  using Fut = decltype(spawn_future(Leaf<true>{nullptr}, std::declval<scope_t&>(), TagAlloc<std::byte>{nullptr, 0}));
  using FOp = connect_result_t<Fut, Rec>;
  using JOp = connect_result_t<decltype(std::declval<SA&>().join()), JoinRec>;
  auto* w = new World(); g_track = &w->track;
  auto* sa = new SA();
  bool joined = false; JOp* jop = nullptr;
  auto startJoin = [&] { if (!jop) { jop = new JOp(unifex::connect(sa->join(), JoinRec{&joined})); unifex::start(*jop); } };
  const bool two = sc.b == "assign";
  const int nf = two ? 2 : 1;
  int closed = 0, fault = 0;
  if (sc.spawn == "closed") { startJoin(); closed = 1; }
  if constexpr (std::is_same_v<SA, SFault>) {
    if (sc.spawn == "closed_between") { sa->s.closeAfter = 1; closed = 2; }
    if (sc.spawn == "throw_nest1") { sa->s.throwAt = 1; fault = 2; }
    if (sc.spawn == "throw_nest2") { sa->s.throwAt = 2; fault = 3; }
  }
  if (sc.spawn == "throw_alloc") { w->failAlloc = true; fault = 1; }
  if (sc.spawn == "throw_connect") { w->leaf[1].throwOnConnect = true; fault = 4; }
  Fut* fut[3] = {};
  for (int f = 1; f <= nf; ++f) {
    LeafCtl& lc = w->leaf[f];
    lc.f = f; lc.mode = sc.leaf == "inline" ? 1 : sc.leaf == "sync" ? 2 : 0; lc.ch = sc.ch; lc.v = 10 * f + sc.ch;
    EV("SpawnBegin", f, 3, fault, closed);
    try {
      fut[f] = new Fut(spawn_future(Leaf<true>{&lc}, sa->scope(), TagAlloc<std::byte>{w, f}));
      EV("SpawnEnd", f, 3, 0, 0);
    } catch (Fault&) { EV("SpawnEnd", f, 3, 0, 1); }
    catch (std::bad_alloc&) { EV("SpawnEnd", f, 3, 0, 1); }
  }
  const int af = two ? 2 : 1;          // the future that is awaited / whose receiver C stops
  FOp* fop = nullptr;
  {
    auto* cp = new vrt::Ctl(); vrt::Ctl& c = *cp; c.accept = {"future.", "spin_wait"};
    c.spawn(1, [&] {
      UNIFEX_VERIF_YIELD("future.a_begin");
      for (int f = 1; f <= nf; ++f) {
        LeafCtl& lc = w->leaf[f];
        if (lc.started && !lc.claimed && lc.op) { lc.claimed = true; lc.op->fire(lc.ch, lc.v); }
      }
    });
    c.spawn(2, [&] {
      if (!fut[1] || (two && !fut[2])) return;
      if (two) {
        UNIFEX_VERIF_YIELD("future.b_assign");
        EV("FutDropBegin", 1, 3, 0, 0);
        *fut[1] = std::move(*fut[2]);
        EV("FutDropEnd", 1, 3, 0, 0);
      }
      if (sc.b == "drop") {
        UNIFEX_VERIF_YIELD("future.b_drop");
        EV("FutDropBegin", 1, 3, 0, 0);
        delete fut[1]; fut[1] = nullptr;
        EV("FutDropEnd", 1, 3, 0, 0);
        return;
      }
      if (sc.b == "none") return;
      UNIFEX_VERIF_YIELD("future.b_connect");
      EV("FutConnectBegin", af, 3, 0, 0);
      fop = new FOp(unifex::connect(std::move(*fut[1]), Rec{w, af}));
      EV("FutConnectEnd", af, 3, 0, 0);
      if (sc.b == "connect_drop") {
        UNIFEX_VERIF_YIELD("future.b_opdrop");
        EV("FutDropBegin", af, 3, 0, 0);
        delete fop; fop = nullptr;
        EV("FutDropEnd", af, 3, 0, 0);
        return;
      }
      UNIFEX_VERIF_YIELD("future.b_start");
      EV("FutStartBegin", af, 3, 0, 0);
      unifex::start(*fop);
      EV("FutStartEnd", af, 3, 0, 0);
      while (!w->futDone[af]) UNIFEX_VERIF_SPIN("future.b_wait");
      delete fop; fop = nullptr;
    });
    if (sc.stop)
      c.spawn(3, [&] {
        UNIFEX_VERIF_YIELD("future.c_stop");
        EV("FutStopBegin", af, 3, 0, 0);
        w->rcv[af].request_stop();
        EV("FutStopEnd", af, 3, 0, 0);
      });
    c.start_all();
    out.rr = drive(c);
    checkDeadlock(sc, out.rr);
    if (g_terminated) { ::unifex_verif::hook.store(nullptr); g_track = nullptr; return; }   // leak everything the dead thread may still own
    c.join(); delete cp;
  }
  // quiescence: nothing is running any more
  for (int f = 1; f <= 2; ++f)
    if (fut[f]) { delete fut[f]; fut[f] = nullptr; }      // moved-from shells (or never-used futures: a drop)
  startJoin();
  if constexpr (std::is_same_v<SA, SFault>) { if (sa->s.jop && !sa->s.joinDone) joined = false; }
  EV("Joined", 0, 3, 0, joined ? 1 : 0);
  EV("End", 0, 3, (int)w->track.live.size(), (int)w->track.bad);
  g_track = nullptr;
  if (joined) { delete jop; delete sa; }   // an unjoined scope must not be destroyed (its destructor asserts): leak it
  delete w;
}

// spawn_detached: value/done free the block; error terminates (observed in a forked child)
template <class SA>
static void runDetachedBody(const Scn& sc, const Drive& drive, Outcome& out) {
  using JOp = connect_result_t<decltype(std::declval<SA&>().join()), JoinRec>;
  auto* w = new World(); g_track = &w->track;
  auto* sa = new SA();
  bool joined = false; JOp* jop = nullptr;
  auto startJoin = [&] { if (!jop) { jop = new JOp(unifex::connect(sa->join(), JoinRec{&joined})); unifex::start(*jop); } };
  int closed = 0, fault = 0;
  if (sc.spawn == "closed") { startJoin(); closed = 1; }
  if (sc.spawn == "throw_alloc") { w->failAlloc = true; fault = 1; }
  if (sc.spawn == "throw_connect") { w->leaf[1].throwOnConnect = true; fault = 4; }
  LeafCtl& lc = w->leaf[1];
  lc.f = 1; lc.mode = sc.leaf == "sync" ? 2 : 0; lc.ch = sc.ch; lc.v = 0;
  EV("DetachBegin", 1, 3, fault, closed);
  try {
    spawn_detached(Leaf<false>{&lc}, sa->scope(), TagAlloc<std::byte>{w, 1});
    EV("DetachEnd", 1, 3, 0, 0);
  } catch (Fault&) { EV("DetachEnd", 1, 3, 0, 1); }
  catch (std::bad_alloc&) { EV("DetachEnd", 1, 3, 0, 1); }
  {
    auto* cp = new vrt::Ctl(); vrt::Ctl& c = *cp; c.accept = {"future.", "spin_wait"};
    c.spawn(1, [&] {
      UNIFEX_VERIF_YIELD("future.a_begin");
      if (lc.started && !lc.claimed && lc.op) { lc.claimed = true; lc.op->fire(lc.ch, lc.v); }
    });
    c.start_all();
    out.rr = drive(c);
    checkDeadlock(sc, out.rr);
    if (g_terminated) { ::unifex_verif::hook.store(nullptr); g_track = nullptr; return; }   // leak everything the dead thread may still own
    c.join(); delete cp;
  }
  startJoin();
  EV("Joined", 0, 3, 0, joined ? 1 : 0);
  EV("End", 0, 3, (int)w->track.live.size(), (int)w->track.bad);
  g_track = nullptr;
  if (joined) { delete jop; delete sa; }
  delete w;
}
template <class SA>
static void runDetached(const Scn& sc, const Drive& drive, Outcome& out) {
  if (sc.ch != 1 || sc.spawn != "ok") { runDetachedBody<SA>(sc, drive, out); return; }
  // error completion: std::terminate() is the specified outcome -> run in a child and report how it ended
  vrt::log_flush();
  pid_t pid = fork();
  if (pid == 0) {
    g_inChild = true;
    runDetachedBody<SA>(sc, drive, out);
    vrt::log_flush();
    _exit(0);
  }
  int st = 0; waitpid(pid, &st, 0);
  int code = WIFEXITED(st) ? WEXITSTATUS(st) : 1000 + (WIFSIGNALED(st) ? WTERMSIG(st) : 0);
  // the child appended its events to the same file; re-synchronise our stream position
  if (vrt::g_log.f) std::fseek(vrt::g_log.f, 0, SEEK_END);
  EV("ChildExit", 1, 1, 0, code);
}

static void runScn(const Scn& sc, const Drive& drive, Outcome& out) {
  const bool needFault = sc.spawn == "closed_between" || sc.spawn == "throw_nest1" || sc.spawn == "throw_nest2";
  if (sc.kind == "detached") {
    if (sc.scope == "v1") runDetached<SV1>(sc, drive, out); else runDetached<SV2>(sc, drive, out);
  } else if (needFault || sc.scope == "fault") runFuture<SFault>(sc, drive, out);
  else if (sc.scope == "v1") runFuture<SV1>(sc, drive, out);
  else if (sc.scope == "id") runFuture<SId>(sc, drive, out);
  else runFuture<SV2>(sc, drive, out);
}


// Fair scheduling loop: a thread parked in a spin loop that was stepped and came back to the same spin site without
// any other thread having made progress is not eligible again until some thread makes progress (otherwise two
// spinners keep re-enabling each other forever).  No eligible thread while some are unfinished = deadlock/livelock.
template <class Choose>
static vrt::RunResult runAllFair(vrt::Ctl& c, Choose&& choose, long maxSteps = 4000) {
  vrt::RunResult r; int last = -1; long stamp = 1; std::map<int, long> spunAt;
  int prevT = -1; bool prevSpin = false; std::string prevSite;
  while ((long)r.steps.size() < maxSteps) {
    if (prevT >= 0) {
      bool progressed = !prevSpin || c.finished(prevT) || !c.spinning(prevT) || prevSite != c.site(prevT);
      if (progressed) ++stamp; else spunAt[prevT] = stamp;
    }
    std::vector<int> en;
    for (int t : c.enabled_set()) {
      auto it = spunAt.find(t);
      if (c.spinning(t) && it != spunAt.end() && it->second == stamp) continue;
      en.push_back(t);
    }
    if (en.empty()) break;
    int t = choose(en, last);
    prevT = t; prevSpin = c.spinning(t); prevSite = c.site(t);
    r.steps.push_back({t, c.site(t)});
    c.step(t); last = t;
  }
  r.deadlock = !c.all_finished();
  return r;
}

// guided run tolerant of spin parks: a thread parked in a spin loop is stepped until it reaches the wanted site
static vrt::RunResult runGuided(vrt::Ctl& c, const std::vector<vrt::StepRec>& sched) {
  vrt::RunResult r;
  for (auto& s : sched) {
    if (c.thr.find(s.t) == c.thr.end()) { ++r.drift; continue; }
    std::string want = "future." + s.site;
    int guard = 0;
    while (!c.finished(s.t) && c.spinning(s.t) && want != c.site(s.t) && c.enabled(s.t) && guard++ < 8) {
      r.steps.push_back({s.t, c.site(s.t)}); c.step(s.t);
    }
    std::string got = c.site(s.t);
    if (got != want) { if (!r.drift) r.firstDrift = "thread " + std::to_string(s.t) + " at '" + got + "' expected '" + want + "'"; ++r.drift; }
    r.steps.push_back({s.t, got});
    if (!c.enabled(s.t) || !c.step(s.t)) ++r.unguided;
  }
  auto rest = runAllFair(c, [&](const std::vector<int>& en, int) { return en[0]; });
  for (auto& s : rest.steps) { r.steps.push_back(s); if (s.site != "future.b_wait" && s.site != "spin_wait" && s.site != "future.drop_spin") ++r.unguided; }
  r.deadlock = rest.deadlock;
  return r;
}

int main(int argc, char** argv) {
  vrt::Args a(argc, argv);
  vrt::install_handlers();
  { // small default thread stacks: ASan (un)poisons the whole stack of every controlled thread it sees start and exit
    pthread_attr_t at; pthread_attr_init(&at); pthread_attr_setstacksize(&at, 512 * 1024); pthread_setattr_default_np(&at); pthread_attr_destroy(&at); }
  std::set_terminate(onTerminate);
#ifdef VRT_ASAN
  __asan_set_error_report_callback(onAsanReport);
  __sanitizer_set_death_callback(onDeath);
  signal(SIGABRT, onFatalSignal);
#else
  for (int sg : {SIGSEGV, SIGBUS, SIGFPE, SIGILL, SIGABRT}) signal(sg, onFatalSignal);
#endif
  std::string mode = a.str("mode", "dfs");
  std::vector<Scn> scns;
  { std::ifstream f(a.str("scenarios")); json j; f >> j; for (auto& s : j) scns.push_back(parseScn(s)); }
  std::map<int, const Scn*> byId; for (auto& s : scns) byId[s.id] = &s;
  if (a.has("log")) vrt::log_open(a.str("log").c_str());
  long from = a.num("from", 0), to = a.num("to", 1L << 40);
  long execs = 0, steps = 0, drift = 0, unguided = 0, obsMismatch = 0;
  std::string firstDrift, firstMismatch;
  std::set<std::string> distinctSched;

  auto runOne = [&](const Scn& sc, long x, long k, const Drive& drive, const json* expect) {
    vrt::ev("{\"e\":\"Reset\",\"f\":0,\"ch\":\"none\",\"v\":0,\"t\":0,\"r\":0,\"x\":%ld,\"k\":%ld,\"scn\":%d}", x, k, sc.id);
    long before = vrt::g_log.lines;
    Outcome out; g_futRes = 3; g_terminated = false;
    if (const char* dieAt = std::getenv("VERIF_FUTURE_DIE_AT")) if (std::atol(dieAt) == x) std::abort();   // self-test of the resume path
    runScn(sc, drive, out);
    if (expect && (*expect).contains("res") && chIdx((*expect)["res"].get<std::string>()) != g_futRes) {
      ++obsMismatch; if (firstMismatch.empty()) firstMismatch = "unit " + std::to_string(x) + " scn " + std::to_string(sc.id) + ": result " + CHN[g_futRes] + " expected " + (*expect)["res"].get<std::string>();
    }
    ++execs; steps += (long)out.rr.steps.size(); drift += out.rr.drift ? 1 : 0; unguided += out.rr.unguided;
    if (out.rr.drift && firstDrift.empty()) firstDrift = "unit " + std::to_string(x) + " scn " + std::to_string(sc.id) + ": " + out.rr.firstDrift;
    distinctSched.insert(std::to_string(sc.id) + ":" + vrt::sched_json(out.rr));
    (void)before; (void)expect;
  };

  if (mode == "guided") {
    std::ifstream in(a.str("behaviours")); std::string line; long x = -1;
    while (std::getline(in, line)) {
      if (line.empty()) continue;
      ++x; if (x < from || x >= to) continue;
      json b = json::parse(line);
      const Scn& sc = *byId.at(b["scn"].get<int>());
      std::vector<vrt::StepRec> sched;
      for (auto& s : b["sched"]) sched.push_back({s[0].get<int>(), s[1].get<std::string>()});
      runOne(sc, x, 0, [&](vrt::Ctl& c) { return runGuided(c, sched); }, &b);
    }
  } else {
    // resumable enumeration: unit x = global execution number; the enumeration state is persisted before
    // every execution so that a run that dies in execution x resumes at x+1
    long cap = a.num("cap", 200); int bound = (int)a.num("bound", 2); unsigned seed = (unsigned)a.num("seed", 1);
    std::string statePath = a.str("state");
    long si = 0, k = 0, x = 0; vrt::Dfs d; d.bound = bound;
    g_statePath = statePath;
    auto save = [&] {          // in memory; persisted by the death handlers
      if (statePath.empty()) return;
      json st = {{"x", x}, {"si", si}, {"k", k}, {"stack", json::array()}};
      for (auto& c : d.stack) st["stack"].push_back({{"en", c.en}, {"idx", c.idx}});
      g_stateJson = st.dump();
    };
    bool skipFirst = false;
    if (from > 0 && !statePath.empty()) {
      std::ifstream f(statePath); json st; f >> st;
      x = st["x"].get<long>(); si = st["si"].get<long>(); k = st["k"].get<long>();
      for (auto& c : st["stack"]) d.stack.push_back({c["en"].get<std::vector<int>>(), c["idx"].get<size_t>()});
      skipFirst = true;       // execution x died: move past it
    }
    while (si < (long)scns.size() && x < to) {
      const Scn& sc = scns[si];
      if (!sc.enumerate && !skipFirst) { ++si; continue; }      // guided-only scenario
      bool more = true;
      if (!skipFirst) {
        save();
        if (mode == "dfs")
          runOne(sc, x, k, [&](vrt::Ctl& c) {
            d.begin();
            return runAllFair(c, [&](const std::vector<int>& en, int last) {
              bool le = false; for (int t : en) if (t == last) le = true;
              size_t b = d.stack.size(); int t = d.pick(en, le);
              if (d.stack.size() != b) save();       // persist the path so far: a death skips exactly this subtree
              return t; });
          }, nullptr);
        else { std::mt19937 rng(seed * 7919u + (unsigned)si * 104729u + (unsigned)k); runOne(sc, x, k, [&](vrt::Ctl& c) {
            return runAllFair(c, [&](const std::vector<int>& en, int last) {
              if (last >= 0 && (int)(rng() % 100) < 40) for (int t : en) if (t == last) return t;
              return en[rng() % en.size()]; });
          }, nullptr); }
      }
      skipFirst = false;
      ++x; ++k;
      more = mode == "dfs" ? (d.advance() && k < cap * sc.capx) : (k < cap * sc.capx);
      if (!more) { ++si; k = 0; d = vrt::Dfs(); d.bound = bound; }
    }
  }
  vrt::log_close();
  json s = {{"mode", mode}, {"execs", execs}, {"steps", steps}, {"drift", drift}, {"unguided", unguided},
            {"obs_mismatch", obsMismatch}, {"distinct_schedules", (long)distinctSched.size()},
            {"first_drift", firstDrift}, {"first_mismatch", firstMismatch}, {"mem_events", g_memEvents}};
  std::printf("%s\n", s.dump().c_str());
  return 0;
}
